/-
  C10 for a bar built with an arbitrary `default_channel` (audit round 3, remark R7; finding D37 and its repair).

  `mkBarCh ppqn rel n d key ch` (Model/BarCh.lean) is `Bar(sequence, n, d, key, default_channel)` with
  `ch = chanOf default_channel`; `mkBar` is the instance `ch = 0`, and `Props/ElemTie.lean` (`barInit_eq_ch`,
  `barCopy_toBar_own`) proves the constructor and `Bar.copy` as re-translated from bar.py equal to `mkBarCh` / `Bar.copyOwn`
  (the copy on the channel of the bar's own, current, signature event).  Here: the C10 facts for every channel — in
  particular "copying a bar yields an equal bar", which was FALSE of the library for `default_channel ≠ 0` before the
  repair (D37: the copy's leading time-signature event was on channel 0), and stayed false after the first repair
  (source commit f9ef398: the copy on the channel given at CONSTRUCTION) for a bar whose messages were moved to another
  channel afterwards (audit round 4, D1) — `bar_copy_own` is the statement for every bar in bar shape, whatever its past;
  `unrepaired_copy_differs`, `stored_channel_copy_differs`, `both_earlier_copies_differ` are the negative controls.
-/
import SCoda.Lemmas.BarChL
import SCoda.Props.C10
namespace SCoda.C10Ch
open SCoda SCoda.BarL SCoda.BarChL

/-- an accepted bar, whatever its `default_channel`: `mkBar`'s bar with the leading event moved to the channel; same
    rejections as `mkBar` (so `C10.bar_too_long`, `bar_conflict`, `bar_two_sigs`, `bar_accepts`, `bar_error_kind` hold for
    every channel) -/
theorem bar_ch_eq (ppqn : Int) (rel : List Msg) (n d key ch : Int) :
    mkBarCh ppqn rel n d key ch = (fun b => b.withSigCh ch) <$> mkBar ppqn rel n d key :=
  mkBarCh_eq_map ppqn rel n d key ch

/-- an accepted bar lasts exactly its capacity, for every channel -/
theorem bar_duration_ch (ppqn : Int) (rel : List Msg) (n d key ch : Int) (b : Bar)
    (h : mkBarCh ppqn rel n d key ch = .ok b) : durRel b.seq = barCapacity ppqn n d := by
  obtain ⟨h1, _, _, hb⟩ := mkBarCh_ok h
  subst hb
  exact barSeqCh_dur ch ppqn rel n d h1

/-- an accepted bar starts with exactly one time-signature event, equal to the bar's signature and ON THE GIVEN CHANNEL,
    and contains no other; it records the signature and key it was given -/
theorem bar_leading_sig_ch (ppqn : Int) (rel : List Msg) (n d key ch : Int) (b : Bar)
    (h : mkBarCh ppqn rel n d key ch = .ok b) :
    b.seq.head? = some (Msg.mkTimeSig ch n d pyNone) ∧ (∀ m ∈ b.seq.tail, m.ty ≠ .timeSignature)
      ∧ b.num = n ∧ b.den = d ∧ b.key = key := by
  obtain ⟨_, _, _, hb⟩ := mkBarCh_ok h
  subst hb
  refine ⟨rfl, ?_, rfl, rfl, rfl⟩
  intro m hm
  simp only [barSeqCh, List.tail_cons, List.mem_filter, bne_iff_ne] at hm
  exact hm.2

/-- apart from that signature event, the bar holds exactly the normalised events of the sequence -/
theorem bar_events_ch (ppqn : Int) (rel : List Msg) (n d key ch : Int) (b : Bar)
    (h : mkBarCh ppqn rel n d key ch = .ok b) :
    eventsRel b.seq = Msg.mkTimeSig ch n d 0 :: (eventsRel (normalise rel)).filter (·.ty != .timeSignature) := by
  obtain ⟨_, _, _, hb⟩ := mkBarCh_ok h
  subst hb
  exact barSeqCh_events ch ppqn rel n d

/-- **copying a bar yields an equal bar, for every `default_channel`** (the property clause D37 violated): the copy
    (`Bar.copyCh` on the bar's channel — what `Bar.copy` does since the repair) succeeds and has the same signature, key,
    timed events — the leading time-signature event on the same channel among them — and duration.
    `hn`: the signature is not (None, None) (then `normalise` would drop the leading event as "unchanged"). -/
theorem bar_copy_ch (ppqn : Int) (rel : List Msg) (n d key ch : Int) (b : Bar)
    (hn : (n, d) ≠ (pyNone, pyNone)) (h : mkBarCh ppqn rel n d key ch = .ok b) :
    ∃ b', b.copyCh ppqn ch = .ok b' ∧ b'.num = b.num ∧ b'.den = b.den ∧ b'.key = b.key
      ∧ eventsRel b'.seq = eventsRel b.seq ∧ durRel b'.seq = durRel b.seq
      ∧ b'.seq.head? = some (Msg.mkTimeSig ch n d pyNone) ∧ b.seq.head? = some (Msg.mkTimeSig ch n d pyNone) := by
  obtain ⟨h1, _, _, hb⟩ := mkBarCh_ok h
  subst hb
  have hS := barSeqCh_nonneg ch ppqn rel n d
  have hev : eventsRel (normalise (barSeqCh ch ppqn rel n d)) = eventsRel (barSeqCh ch ppqn rel n d) := by
    apply normalise_events_id _ hS (barSeqCh_wf ch ppqn rel n d)
    · rw [barSeqCh_tsVals]
      exact ⟨fun e => hn e.symm, trivial⟩
    · rw [barSeqCh_ksVals, normalise_ksVals]
      exact chainNe_dedupD _ _
  have hdur : totalWait (normalise (barSeqCh ch ppqn rel n d)) ≤ barCapacity ppqn n d := by
    rw [normalise_totalWait _ hS, barSeqCh_dur ch ppqn rel n d h1]
    exact Int.le_refl _
  have hvals := barSigs_vals ppqn (barSeqCh ch ppqn rel n d) n d
  rw [barSeqCh_tsVals] at hvals
  have hdd : dedupD (pyNone, pyNone) [(n, d)] = [(n, d)] :=
    dedupD_of_chainNe _ _ ⟨fun e => hn e.symm, trivial⟩
  rw [hdd] at hvals
  refine ⟨_, mkBarCh_ok_of key ch hdur ?_ ?_, rfl, rfl, rfl, ?_, ?_, rfl, rfl⟩
  · have := congrArg List.length hvals
    rw [List.length_map] at this
    rw [this]; simp
  · intro m hm
    have : (m.num, m.den) ∈ (barSigs ppqn (barSeqCh ch ppqn rel n d) n d).map (fun m => (m.num, m.den)) :=
      List.mem_map.2 ⟨m, hm, rfl⟩
    rw [hvals] at this
    simp only [List.mem_singleton, Prod.mk.injEq] at this
    exact this
  · show eventsRel (barSeqCh ch ppqn (barSeqCh ch ppqn rel n d) n d) = eventsRel (barSeqCh ch ppqn rel n d)
    rw [barSeqCh_events ch ppqn (barSeqCh ch ppqn rel n d), hev, barSeqCh_events ch ppqn rel n d]
    rw [List.filter_cons, if_neg (by simp [Msg.mkTimeSig]), List.filter_filter]
    simp
  · show durRel (barSeqCh ch ppqn (barSeqCh ch ppqn rel n d) n d) = durRel (barSeqCh ch ppqn rel n d)
    unfold durRel
    rw [barSeqCh_dur _ _ _ n d hdur, barSeqCh_dur ch ppqn rel n d h1]

/-- **copying a bar yields an equal bar — for every bar whose CURRENT relative view is in bar shape** (`BarShape`: what the
    constructor establishes, `mkBarCh_shape`, and what `set_channel` / `transpose` keep as long as notes still pair up,
    `BarChL.shape_setChannel`, `shape_transposeRel`), whatever happened to the bar since it was built: `Bar.copyOwn` (the
    copy on the channel of the bar's own signature event, bar.py:57-66) succeeds, and the copy has the same signature, key,
    timed events — the leading time-signature event, on the channel it is on NOW, among them — and duration, and is in
    bar shape again.  Closes audit round 4, D1 / C6 (`bar_copy_ch` spoke of freshly constructed bars only). -/
theorem bar_copy_own (ppqn : Int) (b : Bar) (hs : BarShape ppqn b.seq b.num b.den) :
    ∃ b' c, b.copyOwn ppqn = .ok b' ∧ b'.num = b.num ∧ b'.den = b.den ∧ b'.key = b.key
      ∧ eventsRel b'.seq = eventsRel b.seq ∧ durRel b'.seq = durRel b.seq
      ∧ c ≠ pyNone ∧ sigChan b.seq = c ∧ b.seq.head? = some (Msg.mkTimeSig c b.num b.den pyNone)
      ∧ b'.seq.head? = some (Msg.mkTimeSig c b.num b.den pyNone) ∧ BarShape ppqn b'.seq b.num b.den := by
  obtain ⟨c, hc, hsc, hh, hmk, hev, hdur, hsh⟩ := shape_rebuild b.key hs
  exact ⟨_, c, hmk, rfl, rfl, rfl, hev, hdur, hc, hsc, hh, rfl, hsh⟩

/-- a freshly constructed bar (any `default_channel`) is in bar shape, and its own channel is the constructor's: so
    `bar_copy_own` contains `bar_copy_ch` -/
theorem bar_constructed_shape (ppqn : Int) (rel : List Msg) (n d key ch : Int) (b : Bar)
    (hn : (n, d) ≠ (pyNone, pyNone)) (hc : ch ≠ pyNone) (h : mkBarCh ppqn rel n d key ch = .ok b) :
    BarShape ppqn b.seq b.num b.den ∧ sigChan b.seq = ch := by
  obtain ⟨_, _, _, hb⟩ := mkBarCh_ok h
  have hs := mkBarCh_shape hn hc h
  subst hb
  exact ⟨hs, sigChan_cons_ts ch n d pyNone _⟩

/-- the audit's witness (round 4, D1): `Bar(on 60, wait 24, off 60 — channel 3; 4, 4, None, default_channel=3)` and then
    `bar.sequence.set_channel(c)` -/
def witnessBar (c : Int) : Bar :=
  { seq := setChannel c [Msg.mkTimeSig 3 4 4 pyNone, Msg.mkOn 3 60 64 pyNone, Msg.mkWait 3 24, Msg.mkOff 3 60 pyNone, Msg.mkWait 3 72],
    num := 4, den := 4, key := pyNone }

/-- the witness before `set_channel` is the constructed bar -/
example : mkBarCh 24 [Msg.mkOn 3 60 64 pyNone, Msg.mkWait 3 24, Msg.mkOff 3 60 pyNone] 4 4 pyNone 3 = .ok (witnessBar 3) := rfl

/-- **the audit's witness, positive**: built on channel 3, moved to channel 0 — the copy (`Bar.copyOwn`) is the bar itself,
    signature event on channel 0 (kernel-evaluated) -/
example : (witnessBar 0).copyOwn 24 = .ok (witnessBar 0) ∧
    (witnessBar 0).seq.head? = some (Msg.mkTimeSig 0 4 4 pyNone) := ⟨rfl, rfl⟩

/-- channel 3 at construction, untouched: the copy is the bar, signature event on channel 3 -/
example : (witnessBar 3).copyOwn 24 = .ok (witnessBar 3) ∧
    (witnessBar 3).seq.head? = some (Msg.mkTimeSig 3 4 4 pyNone) := ⟨rfl, rfl⟩

/-- negative control — the copy of source commit f9ef398 (the FIRST repair of D37: `Bar.copy` hands on the
    `default_channel` stored at construction, here 3) on the audit's witness: the bar's signature event is on channel 0
    now, the copy's on channel 3, the timed events differ (kernel-checked).  (The unrepaired copy — channel 0 always —
    happens to agree with this particular bar; `unrepaired_copy_differs` and `both_earlier_copies_differ` are its
    controls.) -/
theorem stored_channel_copy_differs :
    ∃ b', (witnessBar 0).copyCh 24 (chanOf 3) = .ok b' ∧ eventsRel b'.seq ≠ eventsRel (witnessBar 0).seq ∧
      b'.seq.head? = some (Msg.mkTimeSig 3 4 4 pyNone) ∧ (witnessBar 0).seq.head? = some (Msg.mkTimeSig 0 4 4 pyNone) := by
  refine ⟨_, rfl, ?_, rfl, rfl⟩
  decide

/-- negative control for BOTH earlier versions on one bar — built on channel 3, then `set_channel(5)`: the unrepaired copy
    puts the signature event on channel 0, the copy of f9ef398 on channel 3, the bar has it on channel 5; neither copy has
    the bar's timed events, `Bar.copyOwn` returns the bar itself (kernel-checked) -/
theorem both_earlier_copies_differ :
    ∃ b0 b3, (witnessBar 5).copy 24 = .ok b0 ∧ (witnessBar 5).copyCh 24 (chanOf 3) = .ok b3 ∧
      eventsRel b0.seq ≠ eventsRel (witnessBar 5).seq ∧ eventsRel b3.seq ≠ eventsRel (witnessBar 5).seq ∧
      b0.seq.head? = some (Msg.mkTimeSig 0 4 4 pyNone) ∧ b3.seq.head? = some (Msg.mkTimeSig 3 4 4 pyNone) ∧
      (witnessBar 5).seq.head? = some (Msg.mkTimeSig 5 4 4 pyNone) ∧ (witnessBar 5).copyOwn 24 = .ok (witnessBar 5) := by
  refine ⟨_, _, rfl, rfl, ?_, ?_, rfl, rfl, rfl, rfl⟩ <;> decide

/-- the hypotheses of `bar_copy_own` hold of the audit's witness (the shape is inherited from the constructed bar through
    `shape_setChannel`; the one side condition — notes still pair up after the move — is decidable: `WF` via `C07`'s
    checker would do; here it follows from the copy being the identity) -/
example : BarShape 24 (witnessBar 3).seq 4 4 :=
  (bar_constructed_shape 24 [Msg.mkOn 3 60 64 pyNone, Msg.mkWait 3 24, Msg.mkOff 3 60 pyNone] 4 4 pyNone 3 (witnessBar 3)
    (by decide) (by decide) rfl).1

/-- **the limit of the statement, on the real library too** (replayed, see the report): two channels holding overlapping
    notes of ONE pitch, then `set_channel(0)` — the bar's relative view no longer pairs its notes per (channel, pitch)
    (`WF` fails, the hypothesis of `shape_setChannel`), `Bar.__init__` in `copy()` normalises it, and the copy has fewer
    events than the bar (kernel-checked): "copying a bar yields an equal bar" is false there for every version of `copy`. -/
theorem merged_channels_copy_differs :
    ∃ b b', mkBarCh 24 [Msg.mkOn 0 60 64 pyNone, Msg.mkWait 0 12, Msg.mkOn 1 60 64 pyNone, Msg.mkWait 3 24, Msg.mkOff 0 60 pyNone,
        Msg.mkWait 3 24, Msg.mkOff 1 60 pyNone] 4 4 pyNone 3 = .ok b ∧
      ({ b with seq := setChannel 0 b.seq } : Bar).copyOwn 24 = .ok b' ∧
      (eventsRel b'.seq).length = 3 ∧ (eventsRel (setChannel 0 b.seq)).length = 5 := by
  refine ⟨_, _, rfl, rfl, ?_, ?_⟩ <;> decide

/-- negative control — the UNREPAIRED copy (`Bar.copy`: the constructor's default channel 0, whatever the bar was built
    with) of the recorded D37 bar is not an equal bar: its events differ from the original's (kernel-checked) -/
theorem unrepaired_copy_differs :
    ∃ b b', mkBarCh 24 [Msg.mkOn 3 60 64 pyNone, Msg.mkWait 3 24, Msg.mkOff 3 60 pyNone] 4 4 pyNone 3 = .ok b ∧
      b.copy 24 = .ok b' ∧ eventsRel b'.seq ≠ eventsRel b.seq ∧
      b'.seq.head? = some (Msg.mkTimeSig 0 4 4 pyNone) ∧ b.seq.head? = some (Msg.mkTimeSig 3 4 4 pyNone) := by
  refine ⟨_, _, rfl, rfl, ?_, rfl, rfl⟩
  decide

/-! non-vacuity: the recorded input of D37, channel 3 -/
example : ((4 : Int), (4 : Int)) ≠ (pyNone, pyNone) := by decide
example : (mkBarCh 24 [Msg.mkOn 3 60 64 pyNone, Msg.mkWait 3 24, Msg.mkOff 3 60 pyNone] 4 4 pyNone 3).toOption.map (·.seq) =
    some [Msg.mkTimeSig 3 4 4 pyNone, Msg.mkOn 3 60 64 pyNone, Msg.mkWait 3 24, Msg.mkOff 3 60 pyNone, Msg.mkWait 3 72] := by decide
example : ((mkBarCh 24 [Msg.mkOn 3 60 64 pyNone, Msg.mkWait 3 24, Msg.mkOff 3 60 pyNone] 4 4 pyNone 3).toOption.bind
      (fun b => (b.copyCh 24 3).toOption)).map (·.seq) =
    some [Msg.mkTimeSig 3 4 4 pyNone, Msg.mkOn 3 60 64 pyNone, Msg.mkWait 3 24, Msg.mkOff 3 60 pyNone, Msg.mkWait 3 72] := by decide

end SCoda.C10Ch
