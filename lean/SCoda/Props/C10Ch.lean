/-
  C10 for a bar built with an arbitrary `default_channel` (audit round 3, remark R7; finding D37 and its repair).

  `mkBarCh ppqn rel n d key ch` (Model/BarCh.lean) is `Bar(sequence, n, d, key, default_channel)` with
  `ch = chanOf default_channel`; `mkBar` is the instance `ch = 0`, and `Props/ElemTie.lean` (`barInit_eq_ch`,
  `barCopy_toBar_ch`) proves the constructor and `Bar.copy` as re-translated from bar.py equal to `mkBarCh` / `Bar.copyCh`
  on the channel the bar remembers.  Here: the C10 facts for every channel — in particular "copying a bar yields an
  equal bar", which was FALSE of the library for `default_channel ≠ 0` before the repair (D37: the copy's leading
  time-signature event was on channel 0).
-/
import SCoda.Lemmas.BarChL
import SCoda.Props.C10
namespace SCoda.C10Ch
open SCoda SCoda.BarL SCoda.BarChL

/-- an accepted bar, whatever its `default_channel`: `mkBar`'s bar with the leading event moved to the channel; same
    rejections as `mkBar` (so `C10.bar_too_long`, `bar_conflict`, `bar_two_sigs`, `bar_accepts`, `bar_error_kind` hold for
    every channel) -/
theorem bar_ch_eq (ppqn : Int) (rel : List Msg) (n d key ch : Int) :
    mkBarCh ppqn rel n d key ch = (fun b => b.withSigCh ch) <$> mkBar ppqn rel n d key :=
  mkBarCh_eq_map ppqn rel n d key ch

/-- an accepted bar lasts exactly its capacity, for every channel -/
theorem bar_duration_ch (ppqn : Int) (rel : List Msg) (n d key ch : Int) (b : Bar)
    (h : mkBarCh ppqn rel n d key ch = .ok b) : durRel b.seq = barCapacity ppqn n d := by
  obtain ⟨h1, _, _, hb⟩ := mkBarCh_ok h
  subst hb
  exact barSeqCh_dur ch ppqn rel n d h1

/-- an accepted bar starts with exactly one time-signature event, equal to the bar's signature and ON THE GIVEN CHANNEL,
    and contains no other; it records the signature and key it was given -/
theorem bar_leading_sig_ch (ppqn : Int) (rel : List Msg) (n d key ch : Int) (b : Bar)
    (h : mkBarCh ppqn rel n d key ch = .ok b) :
    b.seq.head? = some (Msg.mkTimeSig ch n d pyNone) ∧ (∀ m ∈ b.seq.tail, m.ty ≠ .timeSignature)
      ∧ b.num = n ∧ b.den = d ∧ b.key = key := by
  obtain ⟨_, _, _, hb⟩ := mkBarCh_ok h
  subst hb
  refine ⟨rfl, ?_, rfl, rfl, rfl⟩
  intro m hm
  simp only [barSeqCh, List.tail_cons, List.mem_filter, bne_iff_ne] at hm
  exact hm.2

/-- apart from that signature event, the bar holds exactly the normalised events of the sequence -/
theorem bar_events_ch (ppqn : Int) (rel : List Msg) (n d key ch : Int) (b : Bar)
    (h : mkBarCh ppqn rel n d key ch = .ok b) :
    eventsRel b.seq = Msg.mkTimeSig ch n d 0 :: (eventsRel (normalise rel)).filter (·.ty != .timeSignature) := by
  obtain ⟨_, _, _, hb⟩ := mkBarCh_ok h
  subst hb
  exact barSeqCh_events ch ppqn rel n d

/-- **copying a bar yields an equal bar, for every `default_channel`** (the property clause D37 violated): the copy
    (`Bar.copyCh` on the bar's channel — what `Bar.copy` does since the repair) succeeds and has the same signature, key,
    timed events — the leading time-signature event on the same channel among them — and duration.
    `hn`: the signature is not (None, None) (then `normalise` would drop the leading event as "unchanged"). -/
theorem bar_copy_ch (ppqn : Int) (rel : List Msg) (n d key ch : Int) (b : Bar)
    (hn : (n, d) ≠ (pyNone, pyNone)) (h : mkBarCh ppqn rel n d key ch = .ok b) :
    ∃ b', b.copyCh ppqn ch = .ok b' ∧ b'.num = b.num ∧ b'.den = b.den ∧ b'.key = b.key
      ∧ eventsRel b'.seq = eventsRel b.seq ∧ durRel b'.seq = durRel b.seq
      ∧ b'.seq.head? = some (Msg.mkTimeSig ch n d pyNone) ∧ b.seq.head? = some (Msg.mkTimeSig ch n d pyNone) := by
  obtain ⟨h1, _, _, hb⟩ := mkBarCh_ok h
  subst hb
  have hS := barSeqCh_nonneg ch ppqn rel n d
  have hev : eventsRel (normalise (barSeqCh ch ppqn rel n d)) = eventsRel (barSeqCh ch ppqn rel n d) := by
    apply normalise_events_id _ hS (barSeqCh_wf ch ppqn rel n d)
    · rw [barSeqCh_tsVals]
      exact ⟨fun e => hn e.symm, trivial⟩
    · rw [barSeqCh_ksVals, normalise_ksVals]
      exact chainNe_dedupD _ _
  have hdur : totalWait (normalise (barSeqCh ch ppqn rel n d)) ≤ barCapacity ppqn n d := by
    rw [normalise_totalWait _ hS, barSeqCh_dur ch ppqn rel n d h1]
    exact Int.le_refl _
  have hvals := barSigs_vals ppqn (barSeqCh ch ppqn rel n d) n d
  rw [barSeqCh_tsVals] at hvals
  have hdd : dedupD (pyNone, pyNone) [(n, d)] = [(n, d)] :=
    dedupD_of_chainNe _ _ ⟨fun e => hn e.symm, trivial⟩
  rw [hdd] at hvals
  refine ⟨_, mkBarCh_ok_of key ch hdur ?_ ?_, rfl, rfl, rfl, ?_, ?_, rfl, rfl⟩
  · have := congrArg List.length hvals
    rw [List.length_map] at this
    rw [this]; simp
  · intro m hm
    have : (m.num, m.den) ∈ (barSigs ppqn (barSeqCh ch ppqn rel n d) n d).map (fun m => (m.num, m.den)) :=
      List.mem_map.2 ⟨m, hm, rfl⟩
    rw [hvals] at this
    simp only [List.mem_singleton, Prod.mk.injEq] at this
    exact this
  · show eventsRel (barSeqCh ch ppqn (barSeqCh ch ppqn rel n d) n d) = eventsRel (barSeqCh ch ppqn rel n d)
    rw [barSeqCh_events ch ppqn (barSeqCh ch ppqn rel n d), hev, barSeqCh_events ch ppqn rel n d]
    rw [List.filter_cons, if_neg (by simp [Msg.mkTimeSig]), List.filter_filter]
    simp
  · show durRel (barSeqCh ch ppqn (barSeqCh ch ppqn rel n d) n d) = durRel (barSeqCh ch ppqn rel n d)
    unfold durRel
    rw [barSeqCh_dur _ _ _ n d hdur, barSeqCh_dur ch ppqn rel n d h1]

/-- negative control — the UNREPAIRED copy (`Bar.copy`: the constructor's default channel 0, whatever the bar was built
    with) of the recorded D37 bar is not an equal bar: its events differ from the original's (kernel-checked) -/
theorem unrepaired_copy_differs :
    ∃ b b', mkBarCh 24 [Msg.mkOn 3 60 64 pyNone, Msg.mkWait 3 24, Msg.mkOff 3 60 pyNone] 4 4 pyNone 3 = .ok b ∧
      b.copy 24 = .ok b' ∧ eventsRel b'.seq ≠ eventsRel b.seq ∧
      b'.seq.head? = some (Msg.mkTimeSig 0 4 4 pyNone) ∧ b.seq.head? = some (Msg.mkTimeSig 3 4 4 pyNone) := by
  refine ⟨_, _, rfl, rfl, ?_, rfl, rfl⟩
  decide

/-! non-vacuity: the recorded input of D37, channel 3 -/
example : ((4 : Int), (4 : Int)) ≠ (pyNone, pyNone) := by decide
example : (mkBarCh 24 [Msg.mkOn 3 60 64 pyNone, Msg.mkWait 3 24, Msg.mkOff 3 60 pyNone] 4 4 pyNone 3).toOption.map (·.seq) =
    some [Msg.mkTimeSig 3 4 4 pyNone, Msg.mkOn 3 60 64 pyNone, Msg.mkWait 3 24, Msg.mkOff 3 60 pyNone, Msg.mkWait 3 72] := by decide
example : ((mkBarCh 24 [Msg.mkOn 3 60 64 pyNone, Msg.mkWait 3 24, Msg.mkOff 3 60 pyNone] 4 4 pyNone 3).toOption.bind
      (fun b => (b.copyCh 24 3).toOption)).map (·.seq) =
    some [Msg.mkTimeSig 3 4 4 pyNone, Msg.mkOn 3 60 64 pyNone, Msg.mkWait 3 24, Msg.mkOff 3 60 pyNone, Msg.mkWait 3 72] := by decide

end SCoda.C10Ch
