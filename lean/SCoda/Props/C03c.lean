/-
  C03 — stateful bar-by-bar tokenisation is equivalent to tokenising the whole piece, stated against the
  *input*: chunks are sequences of whole bars (`ChunksL.BarEv`: a signature and bar-relative events), the whole
  piece lays chunk `i` at the summed bar lengths of the chunks before it (`ChunksL.joinChunks`), and the
  only excluded inputs are those of the known finding D19, described by the input-level predicate
  `ChunksL.Stalls`.  Closes audit item A1 (docs/audit_report_round1.md).
-/
import SCoda.Lemmas.ChunksL
import SCoda.Model.Extract
import SCoda.Model.Bar
import SCoda.Model.Roll
namespace SCoda.C03c
open SCoda SCoda.C01 SCoda.ChunksL

/-! ## where a call on whole bars ends (audit A1 (i)) -/

/-- **A1 (i)**: a call on a sequence of whole bars, started on a bar line, that the tokeniser accepts ends on a
    bar line with the last bar's length in force; its clock has advanced by exactly the summed bar capacities
    if and only if the chunk is not in the D19 class `Stalls` (otherwise it falls short); and in the D19 class
    proper — the last onset of the chunk sits on the line on which its last bar starts — it has advanced by the
    summed capacities of all bars but the last. -/
theorem call_end_wholebars (c : Cfg) (hc : CfgOk c) (st st' : TokSt) (bars : List BarEv) (toks : List Tok)
    (hst : OnLine c st) (hok : BarsOk c (c.capacity st.tsNum st.tsDen) bars)
    (h : tokeniseCore c st (layBars c bars) = .ok (toks, st')) :
    st'.curTimeBar = 0 ∧ st'.capRem = c.capacity st'.tsNum st'.tsDen
      ∧ c.capacity st'.tsNum st'.tsDen = lastCap c (c.capacity st.tsNum st.tsDen) bars
      ∧ (st'.curTime = st.curTime + chunkLen c bars ↔ ¬ Stalls c bars)
      ∧ (Stalls c bars → st'.curTime < st.curTime + chunkLen c bars)
      ∧ (bars ≠ [] → lastOnset (layBars c bars) = chunkLen c bars.dropLast →
          st'.curTime = st.curTime + chunkLen c bars.dropLast) := by
  obtain ⟨h1, h2, h3, h4, h5⟩ := call_end c hc st st' bars toks hst hok h
  refine ⟨h1.bar, h1.rem, h2, ⟨fun he hs => ?_, h3⟩, h4, h5⟩
  have := h4 hs
  omega

/-- **the specification log of whole bars in closed form** (A1: "`foldClock` has no closed form in bar lengths").  From a
    state on a bar line, the specification log `specLog` of well-formed whole bars laid end to end is `gridLog`: the
    notes of every bar at the bar's start plus their tick, and a bar end at every cumulative bar length — exactly, if the
    bars are not in the D19 class, and otherwise short of the last bar ends `pend`.  `gridLog` mentions no clock, no
    token, and no event that is not a note. -/
theorem wholebars_log (c : Cfg) (st : TokSt) (bars : List BarEv)
    (hst : OnLine c st) (hok : BarsOk c (c.capacity st.tsNum st.tsDen) bars) :
    ∃ pend : List Int, (specLog c st (layBars c bars)).2 ++ pend.map Emit.barEnd = gridLog c st.curTime bars
      ∧ (¬ Stalls c bars → pend = []) := by
  obtain ⟨_, _, _, s4, _, _, s7⟩ := chunk_specLog c st bars hst.bar hst.rem hst.cap hok
  refine ⟨_, s7, fun hns => ?_⟩
  rw [s4 hns, Int.sub_self, adv_zero]

/-! ## C03 against the input (audit A1 (iii), (iv)) -/

/-- **C03, stated against the input (closes A1).**  A piece is a sequence of well-formed whole bars (`BarsOk`), grouped
    in any way into consecutive chunks; every chunk is tokenised by its own call, the state being threaded
    (`runChunks`, from a state `st` on a bar line related to the detokeniser state `d`).  If no chunk but the last is
    in the D19 class `Stalls` and the calls are accepted, then
    * the events `runChunks` laid out with the implementation's own clock are the chunks laid at the *cumulative bar
      lengths* of the chunks before them (`joinChunks`);
    * the single call on these joined events is accepted and returns exactly the concatenated token list and the
      last call's state (so both streams detokenise to the same sequences, trivially);
    * the detokeniser, run over that stream, emits — time-signature messages aside — exactly the specification log of
      the joined events: every note on its track at its onset with its duration and binned velocity, and every bar
      end of the grid; and it ends in a state related to the tokeniser's, on a bar line. -/
theorem chunked_wholebars (c : Cfg) (hc : CfgOk c) (st st' : TokSt) (d : DetokSt) (chunks : List (List BarEv))
    (toks : List Tok) (whole : List (Int × Pairing))
    (hrel : Rel c st d) (hst : OnLine c st)
    (hok : BarsOk c (c.capacity st.tsNum st.tsDen) chunks.flatten)
    (hns : ∀ ch ∈ chunks.dropLast, ¬ Stalls c ch)
    (hrun : runChunks c st st (chunks.map (layBars c)) = .ok (toks, st', whole)) :
    whole = joinChunks c chunks
      ∧ tokeniseCore c st (joinChunks c chunks) = .ok (toks, st')
      ∧ st'.curTimeBar = 0
      ∧ ∃ d' log, dfold c d toks = .ok (d', log) ∧ Rel c st' d'
          ∧ log.filter notTsig = (specLog c st (joinChunks c chunks)).2
          ∧ ∃ pend : List Int, log.filter notTsig ++ pend.map Emit.barEnd = gridLog c st.curTime chunks.flatten
              ∧ (¬ Stalls c chunks.flatten → pend = []) := by
  obtain ⟨h1, h2, h3⟩ := run_single c hc st chunks st st' toks whole hst hok hns hrun
  rw [Int.sub_self, shiftEvs_zero] at h1
  have hlaid := layBars_ok c _ chunks.flatten hok
  rw [← joinChunks_flatten] at hlaid
  obtain ⟨d', log, s1, s2, s3, _⟩ := sim_partial c hc st st' d (joinChunks c chunks) toks hrel (hlaid.evsOk st.curTime)
    hst.cap (fun ev hev m hm hty => (hlaid.sigPos ev hev m hm hty).2.2) h2
  obtain ⟨pend, p1, p2⟩ := wholebars_log c st chunks.flatten hst hok
  rw [← joinChunks_flatten, ← s3] at p1
  exact ⟨h1, h2, h3.bar, d', log, s1, s2, s3, pend, p1, p2⟩

/-- **C03 against a single call on any presentation of the piece** (A1 (iv)).  The single call of the real pipeline does
    not receive the chunks' events laid end to end: merging the whole piece drops the time signature every chunk
    repeats and the cap messages between chunks, and may order simultaneous notes of different tracks differently.
    Let `bars'` be any well-formed presentation of the piece with the same bar lengths and, bar by bar, the same
    note events up to order (`SameNotes`).  If neither presentation is in the D19 class and both the threaded calls
    and the single call on `bars'` are accepted, then — time signatures aside — each token stream makes the
    detokeniser emit exactly the notes and bar ends of its presentation (`gridLog`), and the two logs are the same
    collection of notes (track, pitch, velocity bin, onset, end) and bar ends. -/
theorem chunked_vs_single (c : Cfg) (hc : CfgOk c) (st st' stS : TokSt) (d : DetokSt) (chunks : List (List BarEv))
    (bars' : List BarEv) (toks toksS : List Tok) (whole : List (Int × Pairing))
    (hrel : Rel c st d) (hst : OnLine c st)
    (hok : BarsOk c (c.capacity st.tsNum st.tsDen) chunks.flatten)
    (hok' : BarsOk c (c.capacity st.tsNum st.tsDen) bars') (hsame : SameNotes c chunks.flatten bars')
    (hns : ∀ ch ∈ chunks.dropLast, ¬ Stalls c ch) (hnsP : ¬ Stalls c chunks.flatten) (hnsS : ¬ Stalls c bars')
    (hrun : runChunks c st st (chunks.map (layBars c)) = .ok (toks, st', whole))
    (hsingle : tokeniseCore c st (layBars c bars') = .ok (toksS, stS)) :
    ∃ d' log dS logS, dfold c d toks = .ok (d', log) ∧ dfold c d toksS = .ok (dS, logS)
      ∧ log.filter notTsig = gridLog c st.curTime chunks.flatten
      ∧ logS.filter notTsig = gridLog c st.curTime bars'
      ∧ (log.filter notTsig).Perm (logS.filter notTsig) := by
  obtain ⟨_, _, _, d', log, a1, _, _, pend, a4, a5⟩ := chunked_wholebars c hc st st' d chunks toks whole hrel hst hok hns hrun
  rw [a5 hnsP, List.map_nil, List.append_nil] at a4
  have hlaid := layBars_ok c _ bars' hok'
  obtain ⟨dS, logS, s1, _, s3, _⟩ := sim_partial c hc st stS d (layBars c bars') toksS hrel (hlaid.evsOk st.curTime)
    hst.cap (fun ev hev m hm hty => (hlaid.sigPos ev hev m hm hty).2.2) hsingle
  obtain ⟨pend', p1, p2⟩ := wholebars_log c st bars' hst hok'
  rw [p2 hnsS, List.map_nil, List.append_nil] at p1
  refine ⟨d', log, dS, logS, a1, s1, a4, by rw [s3, p1], ?_⟩
  rw [a4, s3, p1]
  exact gridLog_perm c _ _ _ hsame

/-- **C03 from the empty state dictionary, through `detokenise`** (A1): for a piece of whole bars grouped into chunks none
    of which but the last is in the D19 class, the concatenated tokens of the threaded calls are the tokens of the
    single call on the chunks laid at their cumulative lengths, `detokenise` accepts them, and the sequences it
    returns are built from an emission log that — time signatures aside — is the specification log of the piece. -/
theorem chunked_wholebars_init (c : Cfg) (hc : CfgOk c) (hn : 0 < c.numTracks) (st' : TokSt) (chunks : List (List BarEv))
    (toks : List Tok) (whole : List (Int × Pairing))
    (hok : BarsOk c (c.capacity c.defNum c.defDen) chunks.flatten)
    (hns : ∀ ch ∈ chunks.dropLast, ¬ Stalls c ch)
    (hrun : runChunks c (TokSt.init c) (TokSt.init c) (chunks.map (layBars c)) = .ok (toks, st', whole)) :
    tokeniseCore c (TokSt.init c) (joinChunks c chunks) = .ok (toks, st')
      ∧ ∃ (d : DetokSt) (log : List Emit), detokenise c toks = .ok d.seqs ∧ d.seqs = log.foldl applyEmit (DetokSt.init c).seqs
          ∧ log.filter notTsig = (specLog c (TokSt.init c) (joinChunks c chunks)).2 := by
  have hrel := rel_init c hc hn
  obtain ⟨_, h2, _, d', log, h4, _, h6, _⟩ := chunked_wholebars c hc (TokSt.init c) st' (DetokSt.init c) chunks toks whole hrel
    ⟨rfl, rfl, hrel.remPos⟩ hok hns hrun
  obtain ⟨e1, e2⟩ := dfold_detokenise c toks d' log h4
  exact ⟨h2, d', log, e1, e2, h6⟩

/-! ## the full statement is false: known finding D19 -/

/-- the statement of `chunked_wholebars` without the hypothesis that no chunk but the last stalls (only its last
    conclusion, the one the property is about) -/
def chunked_wholebars_statement : Prop :=
  ∀ (c : Cfg) (_ : CfgOk c) (st st' : TokSt) (d : DetokSt) (chunks : List (List BarEv))
    (toks : List Tok) (whole : List (Int × Pairing))
    (_ : Rel c st d) (_ : OnLine c st) (_ : BarsOk c (c.capacity st.tsNum st.tsDen) chunks.flatten)
    (_ : runChunks c st st (chunks.map (layBars c)) = .ok (toks, st', whole)),
    ∃ d' log, dfold c d toks = .ok (d', log) ∧ log.filter notTsig = (specLog c st (joinChunks c chunks)).2

/-- the D19 witness as whole-bar chunks: 3/8, two bars, one call each, each bar one 36-tick note on the bar line -/
def d19Chunks : List (List BarEv) :=
  [[{ num := 3, den := 8, evs := [(0, [Msg.mkTimeSig 0 3 8 0]), (0, [Msg.mkOn 0 60 64 0, Msg.mkOff 0 60 36])] }],
   [{ num := 3, den := 8, evs := [(0, [Msg.mkTimeSig 0 3 8 0]), (0, [Msg.mkOn 0 62 64 0, Msg.mkOff 0 62 36])] }]]

/-- what the two threaded calls return on the D19 witness -/
def d19Run : List Tok × TokSt × List (Int × Pairing) :=
  match runChunks d19Cfg (TokSt.init d19Cfg) (TokSt.init d19Cfg) (d19Chunks.map (layBars d19Cfg)) with
  | .ok r => r
  | .error _ => ([], TokSt.init d19Cfg, [])

/-- what the detokeniser emits on the concatenated tokens of the D19 witness -/
def d19Log : List Emit :=
  match dfold d19Cfg (DetokSt.init d19Cfg) d19Run.1 with
  | .ok r => r.2
  | .error _ => []

/-- **D19, as whole-bar chunks**: the piece is well formed, its first chunk is in the class `Stalls`, both calls are
    accepted and leave the clock at 0 (instead of 36 and 72); the chunked stream detokenises to both notes at tick 0
    and no bar end, whereas the piece has a bar end at 36 and the second note there. -/
theorem d19_facts :
    BarsOk d19Cfg (d19Cfg.capacity 8 8) d19Chunks.flatten
      ∧ (∀ ch ∈ d19Chunks, Stalls d19Cfg ch)
      ∧ runChunks d19Cfg (TokSt.init d19Cfg) (TokSt.init d19Cfg) (d19Chunks.map (layBars d19Cfg)) = .ok d19Run
      ∧ d19Run.2.1.curTime = 0
      ∧ d19Log.filter notTsig = [.note 0 60 127 0 36, .note 0 62 127 0 36]
      ∧ (specLog d19Cfg (TokSt.init d19Cfg) (joinChunks d19Cfg d19Chunks)).2
          = [.note 0 60 127 0 36, .barEnd 36, .note 0 62 127 36 72] := by
  refine ⟨by decide, by decide, by rfl, by decide, by decide, by decide⟩

theorem chunked_wholebars_statement_false : ¬ chunked_wholebars_statement := by
  intro h
  have hc : CfgOk d19Cfg := by constructor <;> decide
  have hrel : Rel d19Cfg (TokSt.init d19Cfg) (DetokSt.init d19Cfg) := rel_init d19Cfg hc (by decide)
  obtain ⟨f1, _, f3, _, f5, f6⟩ := d19_facts
  obtain ⟨d', log, h1, h2⟩ := h d19Cfg hc (TokSt.init d19Cfg) d19Run.2.1 (DetokSt.init d19Cfg) d19Chunks d19Run.1 d19Run.2.2
    hrel (by decide) f1 f3
  have hlog : log = d19Log := by
    unfold d19Log
    rw [h1]
  rw [hlog, f5, f6] at h2
  revert h2
  decide

/-! ## non-vacuity: a piece of four bars (4/4, an empty 4/4 bar, 6/8, 6/8) on two tracks, in three chunks

  The bars below are what the real pipeline hands to the tokeniser core for this piece (`sequences_split_bars`, then
  `Bar.to_sequence` of each chunk, then the merge inside `tokenise`); replayed on the implementation, and re-computed
  here by the model `extract` from the bars' relative sequences. -/

def exCfg : Cfg := { steps := [2, 3, 4, 6, 8, 12, 16, 24], values := [4, 6, 8, 9, 12, 16, 18, 24, 36], bins := [96, 127],
                     numTracks := 2, fuseVel := false }

/-- 4/4: two notes and the cap message of the trailing rest -/
def exBar1 : BarEv := { num := 4, den := 4, evs :=
  [(0, [Msg.mkTimeSig 0 4 4 0]), (0, [Msg.mkOn 0 60 64 0, Msg.mkOff 0 60 24]), (1, [Msg.mkOn 1 48 30 48, Msg.mkOff 1 48 72]),
   (0, [Msg.mkInternal 0 96])] }
/-- 4/4, empty: only the signature every chunk starts with -/
def exBar2 : BarEv := { num := 4, den := 4, evs := [(0, [Msg.mkTimeSig 0 4 4 0])] }
/-- 6/8: the signature change and a note that ends with the bar -/
def exBar3 : BarEv := { num := 6, den := 8, evs := [(0, [Msg.mkTimeSig 0 6 8 0]), (1, [Msg.mkOn 1 50 100 36, Msg.mkOff 1 50 72])] }
/-- 6/8: one note on the bar line and the cap message of the trailing rest -/
def exBar4 : BarEv := { num := 6, den := 8, evs :=
  [(0, [Msg.mkTimeSig 0 6 8 0]), (0, [Msg.mkOn 0 62 64 0, Msg.mkOff 0 62 12]), (0, [Msg.mkInternal 0 72])] }

def exChunks : List (List BarEv) := [[exBar1], [exBar2, exBar3], [exBar4]]

/-- the same piece as the single call sees it: the merge has dropped the repeated signatures of bars 2 and 4 and the cap
    message between the chunks -/
def exWhole : List BarEv :=
  [{ exBar1 with evs := exBar1.evs.dropLast }, { exBar2 with evs := [] }, exBar3, { exBar4 with evs := exBar4.evs.drop 1 }]

example : CfgOk exCfg := by constructor <;> decide
example : OnLine exCfg (TokSt.init exCfg) := by decide
example : BarsOk exCfg (exCfg.capacity 8 8) exChunks.flatten := by decide
example : BarsOk exCfg (exCfg.capacity 8 8) exWhole := by decide
example : SameNotes exCfg exChunks.flatten exWhole := by decide
example : ∀ ch ∈ exChunks.dropLast, ¬ Stalls exCfg ch := by decide
example : ¬ Stalls exCfg exChunks.flatten ∧ ¬ Stalls exCfg exWhole := by decide
example : chunkLen exCfg [exBar2, exBar3] = 168 := by decide
/-- `call_end_wholebars` on the middle chunk: the clock advances by 96 + 72 -/
example : ∃ toks st', tokeniseCore exCfg (TokSt.init exCfg) (layBars exCfg [exBar2, exBar3]) = .ok (toks, st')
    ∧ st'.curTime = 168 ∧ st'.curTimeBar = 0 := ⟨_, _, rfl, rfl, rfl⟩
/-- the hypotheses of `chunked_wholebars` / `chunked_vs_single` hold of the piece: the three threaded calls are accepted
    (and end at 96 + 96 + 72 + 72), and so is the single call on the merged presentation -/
example : ∃ toks st' whole, runChunks exCfg (TokSt.init exCfg) (TokSt.init exCfg) (exChunks.map (layBars exCfg)) = .ok (toks, st', whole)
    ∧ st'.curTime = 336 ∧ whole = joinChunks exCfg exChunks := ⟨_, _, _, rfl, rfl, by decide⟩
example : ∃ toksS stS, tokeniseCore exCfg (TokSt.init exCfg) (layBars exCfg exWhole) = .ok (toksS, stS) ∧ stS.curTime = 336 :=
  ⟨_, _, rfl, rfl⟩
/-- what the three threaded calls, and the single call on the merged presentation, return on the piece -/
def exRun : List Tok × TokSt × List (Int × Pairing) :=
  match runChunks exCfg (TokSt.init exCfg) (TokSt.init exCfg) (exChunks.map (layBars exCfg)) with
  | .ok r => r
  | .error _ => ([], TokSt.init exCfg, [])
def exSingle : List Tok × TokSt :=
  match tokeniseCore exCfg (TokSt.init exCfg) (layBars exCfg exWhole) with
  | .ok r => r
  | .error _ => ([], TokSt.init exCfg)
/-- all hypotheses of `chunked_vs_single` hold together on the piece; its conclusion, evaluated -/
example : ∃ log logS : List Emit, (log.filter notTsig).Perm (logS.filter notTsig)
    ∧ log.filter notTsig = gridLog exCfg 0 exChunks.flatten := by
  have hc : CfgOk exCfg := by constructor <;> decide
  obtain ⟨_, log, _, logS, _, _, h3, _, h5⟩ := chunked_vs_single exCfg hc (TokSt.init exCfg) exRun.2.1 exSingle.2
    (DetokSt.init exCfg) exChunks exWhole exRun.1 exSingle.1 exRun.2.2 (rel_init exCfg hc (by decide)) (by decide) (by decide)
    (by decide) (by decide) (by decide) (by decide) (by decide) (by rfl) (by rfl)
  exact ⟨log, logS, h5, h3⟩
/-- the closed form of the piece: every note at its bar's start plus its tick, bar ends at 96, 192, 264, 336 -/
example : gridLog exCfg 0 exChunks.flatten =
    [.note 0 60 96 0 24, .note 1 48 96 48 72, .barEnd 96, .barEnd 192, .note 1 50 127 228 264, .barEnd 264,
     .note 0 62 96 264 276, .barEnd 336] := by decide
/-- the D19 witness is in the class `Stalls` -/
example : Stalls exCfg [{ num := 3, den := 8, evs := d19Evs }] := by decide

/-! ## the glue to the bars of the real pipeline (audit A1 (ii)): checked on the example, not proved in general -/

/-- the bars of the example as `sequences_split_bars` returns them (relative sequences, per track) -/
def exTrack0 : List (List Msg) :=
  [[Msg.mkTimeSig 0 4 4 pyNone, Msg.mkOn 0 60 64 pyNone, Msg.mkWait 0 24, Msg.mkOff 0 60 pyNone, Msg.mkWait 0 72],
   [Msg.mkTimeSig 0 4 4 pyNone, Msg.mkWait 0 96],
   [Msg.mkTimeSig 0 6 8 pyNone, Msg.mkWait 0 72],
   [Msg.mkTimeSig 0 6 8 pyNone, Msg.mkOn 0 62 64 pyNone, Msg.mkWait 0 12, Msg.mkOff 0 62 pyNone, Msg.mkWait 0 60]]
def exTrack1 : List (List Msg) :=
  [[Msg.mkTimeSig 0 4 4 pyNone, Msg.mkWait 0 48, Msg.mkOn 0 48 30 pyNone, Msg.mkWait 0 24, Msg.mkOff 0 48 pyNone, Msg.mkWait 0 24],
   [Msg.mkTimeSig 0 4 4 pyNone, Msg.mkWait 0 96],
   [Msg.mkTimeSig 0 6 8 pyNone, Msg.mkWait 0 36, Msg.mkOn 0 50 100 pyNone, Msg.mkWait 0 36, Msg.mkOff 0 50 pyNone],
   [Msg.mkTimeSig 0 6 8 pyNone, Msg.mkWait 0 72]]
/-- `Bar.to_sequence(bars[lo:hi])` per track -/
def exChunkTracks (lo hi : Nat) : List (List Msg) :=
  [((exTrack0.drop lo).take (hi - lo)).flatten, ((exTrack1.drop lo).take (hi - lo)).flatten]

/-- what `tokenise` extracts from each chunk of real bars is the chunk's whole-bar presentation … -/
example : extract 24 (exChunkTracks 0 1) = layBars exCfg [exBar1] ∧ extract 24 (exChunkTracks 1 3) = layBars exCfg [exBar2, exBar3]
    ∧ extract 24 (exChunkTracks 3 4) = layBars exCfg [exBar4] := by decide +kernel
/-- … what it extracts from all bars at once is the merged presentation … -/
example : extract 24 (exChunkTracks 0 4) = layBars exCfg exWhole := by decide +kernel
/-- … and that is *not* the chunks' events laid end to end: A1 (ii) as worded in the audit
    (`extract (concatenated bars) = evs1 ++ shiftEvs L evs2 …`) is false; the two differ by events that emit nothing
    (`SameNotes`), which is what `chunked_vs_single` is stated for. -/
example : extract 24 (exChunkTracks 0 4) ≠ joinChunks exCfg exChunks := by decide +kernel

/-- **Unproved glue (A1 (ii), restated so that it can be true).**  For bars produced by `splitBars` from well-formed
    tracks, what `extract` makes of any run `[lo, hi)` of them (per track `barsToSeq`, i.e. `Bar.to_sequence`) is a
    well-formed whole-bar chunk `bars` after any running bar length `C` (a run of real bars always announces its first
    signature), it has one `BarEv` per bar with that bar's signature, and bar by bar it has the same lengths and — up to
    the order of simultaneous events — the same notes as the one-bar runs.
    This needs the theory of `normalise` / `toAbs` / `interleaved` on concatenated padded bars (C09 `bars_exact`, C07)
    and is NOT proved here (no theorem depends on it).  Evidence: it is kernel-checked on the example above, and it was
    fuzzed against the implementation (`BarsOk`, the signatures and the notes up to order: 0 failures in 17 000 runs of
    random pieces; the notes agreed *in* order only in 98 % of the first 2 500 runs, whence `Perm` in `SameNotes`).
    It may need further well-formedness hypotheses, e.g. an exclusion of zero-length notes on a bar line (D18/D18b). -/
def extract_wholebars_statement : Prop :=
  ∀ (c : Cfg) (values : List Int) (tracks : List (List Msg)) (tb : List (List Bar)),
    (∀ t ∈ tracks, OkRel t ∧ WF (eventsRel t)) →
    splitBars c.ppqn values tracks 0 false = .ok tb → tb.length = c.numTracks →
    ∀ (lo hi : Nat) (C : Int), lo < hi → (∀ bs ∈ tb, hi ≤ bs.length) →
      ∃ bars : List BarEv,
        extract c.ppqn (tb.map (fun bs => barsToSeq ((bs.drop lo).take (hi - lo)))) = layBars c bars
          ∧ BarsOk c C bars
          ∧ bars.map (fun b => (b.num, b.den)) = (((tb.headD []).drop lo).take (hi - lo)).map (fun b => (b.num, b.den))
          ∧ ∃ one : List BarEv,
              (∀ i, i < hi - lo → ∀ b ∈ one[i]?,
                  extract c.ppqn (tb.map (fun bs => barsToSeq ((bs.drop (lo + i)).take 1))) = layBars c [b])
              ∧ one.length = hi - lo ∧ SameNotes c bars one

end SCoda.C03c
