/-
  Property theorems closing audit items A12 (C14), A15 (C10) and A17 (C19, C18, C07, C06) of
  docs/audit_report_round1.md.  Helper lemmas are in `Lemmas/GapsL.lean`; the model of `Bar.transpose`
  and the functions built from the generated code (`genTk`, `genEnv`, `genCof`) are in `Model/BarOps.lean`.
-/
import SCoda.Lemmas.GapsL
namespace SCoda.Gaps
open SCoda SCoda.GapsL SCoda.C01 SCoda.C19

/-! ## A12 — C14: there and back with the generated key function -/

/-- `m'` is `m` up to the enharmonic spelling of a key signature's key -/
def KsEquiv (m m' : Msg) : Prop :=
  if m.ty = .keySignature then
    m' = { m with key := m'.key } ∧
      (C20.validKey m.key → C20.validKey m'.key ∧ C20.tonicD m'.key = C20.tonicD m.key)
  else m' = m

/-- **transposing back** (A12): with the *generated* key function `Gen.transposeKey` (through `genTk`), when
    the forward transposition moved nothing by octaves, transposing by `-by_` moves nothing by octaves
    either and restores the message list position by position: every note message, wait (hence every
    onset and duration) and other event exactly, every key signature up to enharmonic spelling (valid
    key, same tonic pitch class).  Consequently the notes (channel, pitch, onset, end, velocity) and the
    duration are restored exactly. -/
theorem inverse (lo hi : Int) (by_ : Int) (r : List Msg) (h : lo + 11 ≤ hi)
    (hf : (transposeRel lo hi (fun k => genTk k by_) by_ r).2 = false)
    (hr : ∀ m ∈ r, C14.isNoteMsg m = true → lo ≤ m.note ∧ m.note ≤ hi) :
    let back := transposeRel lo hi (fun k => genTk k (-by_)) (-by_)
                  (transposeRel lo hi (fun k => genTk k by_) by_ r).1
    back.2 = false ∧ Pointwise KsEquiv r back.1
      ∧ notesOf (eventsRel back.1) = notesOf (eventsRel r)
      ∧ durRel back.1 = durRel r := by
  intro back
  have e : back = (r.map (ksBack by_), false) := inverse_exact lo hi by_ r h hf hr
  rw [e]
  refine ⟨rfl, ?_, ?_, ?_⟩
  · apply pointwise_map_right
    intro m _
    show KsEquiv m (ksBack by_ m)
    unfold KsEquiv
    by_cases hks : m.ty = .keySignature
    · rw [if_pos hks]
      have hb : (m.ty == MType.keySignature) = true := by simp [hks]
      refine ⟨by simp only [ksBack, hb, if_true], ?_⟩
      intro hv
      simp only [ksBack, hb, if_true]
      exact genTk_back m.key by_ hv
    · rw [if_neg hks]; exact ksBack_note by_ m hks
  · show notesOf (eventsRel (r.map (ksBack by_))) = _
    unfold notesOf eventsRel
    rw [eventsRelGo_ksBack, notesGo_ksBack]
  · exact totalWait_ksBack by_ r

/-- the literal reading "transposing back restores the original *message list*" … -/
def inverse_literal_statement : Prop :=
  ∀ (lo hi by_ : Int) (r : List Msg), lo + 11 ≤ hi →
    (transposeRel lo hi (fun k => genTk k by_) by_ r).2 = false →
    (∀ m ∈ r, C14.isNoteMsg m = true → lo ≤ m.note ∧ m.note ≤ hi) →
    (transposeRel lo hi (fun k => genTk k (-by_)) (-by_) (transposeRel lo hi (fun k => genTk k by_) by_ r).1).1 = r

/-- … is false for the real key function: D♭ (index 12) up a semitone is D (2), D down a semitone is C♯ (7) -/
theorem inverse_literal_statement_false : ¬ inverse_literal_statement := by
  intro h
  have := h 21 108 1 [{ ty := .keySignature, key := 12 }] (by decide) (by decide) (by decide)
  revert this
  decide

example : Gen.transposeKey 12 1 = some 2 ∧ Gen.transposeKey 2 (-1) = some 7 := by decide
example : C20.tonicD 12 = C20.tonicD 7 := by decide

/-- the range hypothesis of `inverse` cannot be dropped: a note that starts BELOW the playable range … -/
def inverse_without_range_statement : Prop :=
  ∀ (lo hi by_ : Int) (r : List Msg), lo + 11 ≤ hi →
    (transposeRel lo hi (fun k => genTk k by_) by_ r).2 = false →
    (transposeRel lo hi (fun k => genTk k (-by_)) (-by_) (transposeRel lo hi (fun k => genTk k by_) by_ r).1).2 = false

/-- … (pitch 10, range 21..108) goes up 20 semitones without wrapping (30) but comes back to 10 < 21 and is
    moved up an octave to 22 with the flag set.  The real code does the same (replayed): a model-independent
    fact, and the reason `inverse` assumes the original notes are in range. -/
theorem inverse_without_range_statement_false : ¬ inverse_without_range_statement := by
  intro h
  have := h 21 108 20 [Msg.mkOn 0 10 64 pyNone, Msg.mkWait 0 24, Msg.mkOff 0 10 pyNone] (by decide) (by decide)
  revert this
  decide

/-- non-vacuity of `inverse`: a sequence with a note and the D♭ key signature, up a semitone -/
def exInv : List Msg :=
  [{ ty := .keySignature, key := 12 }, Msg.mkOn 0 60 64 pyNone, Msg.mkWait 0 24, Msg.mkOff 0 60 pyNone]
example : (transposeRel 21 108 (fun k => genTk k 1) 1 exInv).2 = false
    ∧ ∀ m ∈ exInv, C14.isNoteMsg m = true → (21:Int) ≤ m.note ∧ m.note ≤ 108 := by decide
example : (transposeRel 21 108 (fun k => genTk k (-1)) (-1) (transposeRel 21 108 (fun k => genTk k 1) 1 exInv).1).1
    = [{ ty := .keySignature, key := 7 }, Msg.mkOn 0 60 64 pyNone, Msg.mkWait 0 24, Msg.mkOff 0 60 pyNone] := by decide

/-! ## A12 — C14: key signatures in the sequence never become undefined -/

/-- **key signatures, RelativeSequence level** (A12): with the generated key function, the key-signature
    events of the result are, in order, the key-signature events of the input with their key replaced
    by `Gen.transposeKey key by_`, which is defined (`some`), a valid key (never `None`) and has the
    tonic shifted by the interval — for every interval, whether or not notes wrap. -/
theorem keys_defined (lo hi : Int) (by_ : Int) (r : List Msg)
    (hk : ∀ m ∈ r, m.ty = .keySignature → C20.validKey m.key) :
    (transposeRel lo hi (fun k => genTk k by_) by_ r).1.filter (·.ty == .keySignature)
        = (r.filter (·.ty == .keySignature)).map (fun m => { m with key := genTk m.key by_ })
    ∧ ∀ m' ∈ (transposeRel lo hi (fun k => genTk k by_) by_ r).1, m'.ty = .keySignature → KeyImage by_ r m' := by
  refine ⟨?_, transposeRel_keys lo hi by_ r hk⟩
  simp only [transposeRel]
  rw [filter_map_comm _ _ _ (fun m _ => by simp only [C14.transposeMsg_ty])]
  apply List.map_congr_left
  intro m hm
  have hty : m.ty = .keySignature := by simpa using (List.mem_filter.1 hm).2
  exact (C14.image_pointwise lo hi (fun k => genTk k by_) by_ m).2.1 hty

/-- `Sequence.transpose` never fails on a readable sequence -/
theorem transposeSeq_total (e : Env) (s s0 : Seq) (r : List Msg) (by_ : Int)
    (hread : s.readRel = .ok (s0, r)) : ∃ s' flag, Seq.transposeSeq e s by_ = .ok (s', flag) := by
  rw [transposeSeq_eq e s s0 r by_ hread]
  split
  · obtain ⟨out, ho⟩ := C06.total e.defValues e.ppqn false
      (toAbs (normalise (transposeRel e.noteLo e.noteHi (fun k => e.tk k by_) by_ r).1))
    rw [ho]
    exact ⟨_, _, rfl⟩
  · exact ⟨_, _, rfl⟩

/-- **`Sequence.transpose`, nothing wrapped, from any readable state** (A12: the audit noted that the wrapper
    glue started from `Seq.ofRel r` only and spoke of note-ons only): if the call returns `false`, the relative
    view afterwards is exactly the relative content before with every note shifted by the interval and every
    key signature's key mapped — waits, hence onsets and durations, velocities and all other events untouched
    — and the absolute view is regenerated from exactly that list -/
theorem transpose_seq_exact (e : Env) (s s0 s' : Seq) (r : List Msg) (by_ : Int)
    (hrange : e.noteLo + 11 ≤ e.noteHi) (hread : s.readRel = .ok (s0, r))
    (h : Seq.transposeSeq e s by_ = .ok (s', false)) :
    let r' := r.map (fun m =>
      if C14.isNoteMsg m then { m with note := m.note + by_ }
      else if m.ty == .keySignature then { m with key := e.tk m.key by_ } else m)
    (transposeRel e.noteLo e.noteHi (fun k => e.tk k by_) by_ r).2 = false
    ∧ s'.readRel = .ok (s', r')
    ∧ s'.readAbs.map Prod.snd = .ok (toAbs r')
    ∧ durRel r' = durRel r := by
  intro r'
  rw [transposeSeq_eq e s s0 r by_ hread] at h
  by_cases hc : (transposeRel e.noteLo e.noteHi (fun k => e.tk k by_) by_ r).2 = true
  · rw [if_pos hc] at h
    split at h
    · simp only [Except.ok.injEq, Prod.mk.injEq] at h; cases h.2
    · cases h
  · rw [if_neg hc] at h
    have hc' : (transposeRel e.noteLo e.noteHi (fun k => e.tk k by_) by_ r).2 = false := by simpa using hc
    have hex := C14.exact e.noteLo e.noteHi _ by_ r hrange hc'
    simp only [Except.ok.injEq, Prod.mk.injEq, and_true] at h
    subst h
    refine ⟨hc', ?_, ?_, ?_⟩
    · simp only [Seq.readRel, Bool.false_eq_true, if_false, hex]; rfl
    · simp only [Seq.readAbs, if_true, Bool.false_eq_true, if_false, hex]; rfl
    · show durRel (r.map _) = durRel r
      rw [← hex]
      exact (C14.timing e.noteLo e.noteHi _ by_ r).1

/-- **key signatures, Sequence level** (A12): from any readable wrapper state (either view fresh), after
    `Sequence.transpose` — also when notes wrapped and the sequence was re-normalised and note-length
    quantised, which may drop repeated key signatures — every key-signature event read through EITHER
    view is the image of a key signature of the original under `Gen.transposeKey · by_`: defined, a valid
    key, tonic shifted by the interval.  None becomes undefined. -/
theorem keys_defined_seq (e : Env) (htk : e.tk = genTk) (s s0 s' : Seq) (r : List Msg) (by_ : Int) (flag : Bool)
    (hread : s.readRel = .ok (s0, r))
    (hk : ∀ m ∈ r, m.ty = .keySignature → C20.validKey m.key)
    (h : Seq.transposeSeq e s by_ = .ok (s', flag)) :
    (∀ s'' a', s'.readAbs = .ok (s'', a') → ∀ m' ∈ a', m'.ty = .keySignature → KeyImage by_ r m')
    ∧ (∀ s'' r', s'.readRel = .ok (s'', r') → ∀ m' ∈ r', m'.ty = .keySignature → KeyImage by_ r m') := by
  rw [transposeSeq_eq e s s0 r by_ hread, htk] at h
  have hT := transposeRel_keys e.noteLo e.noteHi by_ r hk
  generalize transposeRel e.noteLo e.noteHi (fun k => genTk k by_) by_ r = T at h hT
  obtain ⟨r1, shifted⟩ := T
  simp only at h hT
  have fromAbs : ∀ (l : List Msg), (∀ m ∈ l, m.ty = .keySignature → KeyImage by_ r m) →
      ∀ m ∈ toAbs l, m.ty = .keySignature → KeyImage by_ r m := by
    intro l hl m hm hty
    obtain ⟨m0, h0, h1, h2⟩ := mem_toAbs_src l m hm (by rw [hty]; decide)
    rw [h2]
    exact keyImage_stamp by_ r m0 _ (hl m0 h0 (by rw [h1, hty]))
  have fromRel : ∀ (l : List Msg), (∀ m ∈ l, m.ty = .keySignature → KeyImage by_ r m) →
      ∀ m ∈ toRel l, m.ty = .keySignature → KeyImage by_ r m := by
    intro l hl m hm hty
    obtain ⟨m0, h0, h1, h2⟩ := mem_toRel_src l m hm (by rw [hty]; decide)
    rw [h2]
    exact keyImage_stamp by_ r m0 _ (hl m0 h0 (by rw [h1, hty]))
  cases shifted with
  | false =>
    simp only [Bool.false_eq_true, if_false, Except.ok.injEq, Prod.mk.injEq] at h
    obtain ⟨rfl, rfl⟩ := h
    constructor
    · intro s'' a' ha
      simp only [Seq.readAbs, if_true, Bool.false_eq_true, if_false, Except.ok.injEq, Prod.mk.injEq] at ha
      obtain ⟨_, rfl⟩ := ha
      exact fromAbs r1 hT
    · intro s'' r' hr'
      simp only [Seq.readRel, Bool.false_eq_true, if_false, Except.ok.injEq, Prod.mk.injEq] at hr'
      obtain ⟨_, rfl⟩ := hr'
      exact hT
  | true =>
    simp only [if_true] at h
    split at h
    · rename_i out hq
      simp only [Except.ok.injEq, Prod.mk.injEq] at h
      obtain ⟨rfl, rfl⟩ := h
      have hN : ∀ m ∈ normalise r1, m.ty = .keySignature → KeyImage by_ r m := by
        intro m hm hty
        rcases normalise_entries r1 m hm with ⟨hw, _⟩ | ⟨_, hin⟩
        · rw [hty] at hw; cases hw
        · exact hT m hin hty
      have hOut : ∀ m ∈ out, m.ty = .keySignature → KeyImage by_ r m := by
        intro m hm hty
        have := mem_qnl_nonNote _ _ _ _ _ hq m hm (by rw [hty]; decide) (by rw [hty]; decide)
        exact fromAbs _ hN m this hty
      constructor
      · intro s'' a' ha
        simp only [Seq.readAbs, Bool.false_eq_true, if_false, Except.ok.injEq, Prod.mk.injEq] at ha
        obtain ⟨_, rfl⟩ := ha
        exact hOut
      · intro s'' r' hr'
        simp only [Seq.readRel, if_true, Bool.false_eq_true, if_false, Except.ok.injEq, Prod.mk.injEq] at hr'
        obtain ⟨_, rfl⟩ := hr'
        exact fromRel _ hOut
    · cases h

/-! ## A12 — C14 on bars -/

/-- `Bar.transpose` never fails -/
theorem bar_transpose_total (e : Env) (b : Bar) (by_ : Int) :
    ∃ b' flag, Bar.transpose e b by_ = .ok (b', flag) := by
  rw [barTranspose_eq]
  split
  · obtain ⟨out, ho⟩ := C06.total e.defValues e.ppqn false
      (toAbs (normalise (transposeRel e.noteLo e.noteHi (fun k => e.tk k by_) by_ b.seq).1))
    rw [ho]
    exact ⟨_, _, rfl⟩
  · exact ⟨_, _, rfl⟩

/-- **the bar's sequence is transposed as C14 says** (A12): `Bar.transpose` keeps the bar's time signature
    fields, returns the flag of `RelativeSequence.transpose` on the bar's sequence (so `C14.flag` applies:
    true exactly when some note had to be moved by octaves), and
    * when the flag is false the bar's sequence is the input's with every note shifted by exactly the
      interval, every key signature's key mapped through the key function, and nothing else changed
      (waits — hence onsets, durations, the bar's length — velocities, the leading time signature);
    * when it is true, the sequence is the relative view of the note-length quantised, re-normalised
      shifted sequence. -/
theorem bar_seq_transposed (e : Env) (b b' : Bar) (by_ : Int) (flag : Bool) (hrange : e.noteLo + 11 ≤ e.noteHi)
    (h : Bar.transpose e b by_ = .ok (b', flag)) :
    b'.num = b.num ∧ b'.den = b.den
    ∧ flag = (transposeRel e.noteLo e.noteHi (fun k => e.tk k by_) by_ b.seq).2
    ∧ (flag = false →
        b'.seq = b.seq.map (fun m =>
          if C14.isNoteMsg m then { m with note := m.note + by_ }
          else if m.ty == .keySignature then { m with key := e.tk m.key by_ } else m)
        ∧ durRel b'.seq = durRel b.seq)
    ∧ (flag = true → ∃ v,
        quantiseNoteLengths e.defValues e.ppqn false
          (toAbs (normalise (transposeRel e.noteLo e.noteHi (fun k => e.tk k by_) by_ b.seq).1)) = .ok v
        ∧ b'.seq = toRel v) := by
  rw [barTranspose_eq] at h
  by_cases hc : (transposeRel e.noteLo e.noteHi (fun k => e.tk k by_) by_ b.seq).2 = true
  · rw [if_pos hc] at h
    split at h
    · rename_i v hv
      simp only [Except.ok.injEq, Prod.mk.injEq] at h
      obtain ⟨rfl, rfl⟩ := h
      exact ⟨rfl, rfl, hc.symm, (fun hh => by cases hh), fun _ => ⟨v, hv, rfl⟩⟩
    · cases h
  · rw [if_neg hc] at h
    simp only [Except.ok.injEq, Prod.mk.injEq] at h
    obtain ⟨rfl, rfl⟩ := h
    have hc' : (transposeRel e.noteLo e.noteHi (fun k => e.tk k by_) by_ b.seq).2 = false := by simpa using hc
    refine ⟨rfl, rfl, hc'.symm, fun _ => ⟨?_, ?_⟩, (fun hh => by cases hh)⟩
    · exact C14.exact e.noteLo e.noteHi _ by_ b.seq hrange hc'
    · exact (C14.timing e.noteLo e.noteHi _ by_ b.seq).1

/-- **every note of the transposed bar** (A12), wrapped or not: lies in the playable range and is the image
    of a note-on of the original bar with the same channel and velocity and its pitch class shifted by
    exactly the interval -/
theorem bar_notes_image (e : Env) (b b' : Bar) (by_ : Int) (flag : Bool) (hrange : e.noteLo + 11 ≤ e.noteHi)
    (h : Bar.transpose e b by_ = .ok (b', flag)) :
    ∀ m ∈ b'.seq, m.ty = .noteOn →
      e.noteLo ≤ m.note ∧ m.note ≤ e.noteHi
      ∧ ∃ m0 ∈ b.seq, m0.ty = .noteOn ∧ m0.ch = m.ch ∧ m0.vel = m.vel ∧ (m.note - m0.note - by_) % 12 = 0 := by
  have hT : ∀ m ∈ (transposeRel e.noteLo e.noteHi (fun k => e.tk k by_) by_ b.seq).1, m.ty = .noteOn →
      e.noteLo ≤ m.note ∧ m.note ≤ e.noteHi
      ∧ ∃ m0 ∈ b.seq, m0.ty = .noteOn ∧ m0.ch = m.ch ∧ m0.vel = m.vel ∧ (m.note - m0.note - by_) % 12 = 0 := by
    intro m hm hty
    have hr := C14.in_range e.noteLo e.noteHi (fun k => e.tk k by_) by_ b.seq hrange m hm
      (by simp [C14.isNoteMsg, hty])
    refine ⟨hr.1, hr.2, ?_⟩
    simp only [transposeRel, List.mem_map] at hm
    obtain ⟨m0, hm0, rfl⟩ := hm
    have hty0 : m0.ty = .noteOn := by rw [← C14.transposeMsg_ty e.noteLo e.noteHi (fun k => e.tk k by_) by_ m0]; exact hty
    have := (C14.image_pointwise e.noteLo e.noteHi (fun k => e.tk k by_) by_ m0).1 (by simp [C14.isNoteMsg, hty0])
    obtain ⟨e1, e2⟩ := this
    refine ⟨m0, hm0, hty0, ?_, ?_, e2⟩
    · rw [e1]
    · rw [e1]
  obtain ⟨_, _, _, h0, h1⟩ := bar_seq_transposed e b b' by_ flag hrange h
  cases flag with
  | false =>
    have hs : b'.seq = (transposeRel e.noteLo e.noteHi (fun k => e.tk k by_) by_ b.seq).1 := by
      rw [barTranspose_eq] at h
      split at h
      · split at h
        · simp only [Except.ok.injEq, Prod.mk.injEq] at h; cases h.2
        · cases h
      · simp only [Except.ok.injEq, Prod.mk.injEq] at h
        rw [← h.1]
    rw [hs]; exact hT
  | true =>
    obtain ⟨v, hv, hs⟩ := h1 rfl
    intro m hm hty
    rw [hs] at hm
    obtain ⟨m1, hm1, t1, e1⟩ := mem_toRel_src v m hm (by rw [hty]; decide)
    have hty1 : m1.ty = .noteOn := by rw [t1, hty]
    have hm1' := C06.onsets_kept _ _ _ _ _ hv m1 hm1 hty1
    obtain ⟨m2, hm2, t2, e2⟩ := mem_toAbs_src _ m1 hm1' (by rw [hty1]; decide)
    have hty2 : m2.ty = .noteOn := by rw [t2, hty1]
    have hm2' := Notes.normalise_note_ons _ m2 hm2 hty2
    obtain ⟨g1, g2, m0, hm0, g3, g4, g5, g6⟩ := hT m2 hm2' hty2
    have en : m.note = m2.note := by rw [e1, e2]
    have ec : m.ch = m2.ch := by rw [e1, e2]
    have ev : m.vel = m2.vel := by rw [e1, e2]
    rw [en, ec, ev]
    exact ⟨g1, g2, m0, hm0, g3, g4, g5, g6⟩

/-- **the bar's key** (A12): after `Bar.transpose` the `key` field of a bar without a key is still `None`, and
    that of a bar with a (valid) key `k` is `Gen.transposeKey k by_` — defined, a valid key, in particular
    never `None`, with its tonic shifted by the interval -/
theorem bar_key_transposed (e : Env) (htk : e.tk = genTk) (b b' : Bar) (by_ : Int) (flag : Bool)
    (h : Bar.transpose e b by_ = .ok (b', flag)) :
    (b.key = pyNone → b'.key = pyNone)
    ∧ (C20.validKey b.key →
        Gen.transposeKey b.key by_ = some b'.key ∧ C20.validKey b'.key ∧ b'.key ≠ pyNone
        ∧ C20.tonicD b'.key = (C20.tonicD b.key + by_) % 12) := by
  have hkey : b'.key = if b.key == pyNone then pyNone else genTk b.key by_ := by
    rw [barTranspose_eq, htk] at h
    split at h
    · split at h
      · simp only [Except.ok.injEq, Prod.mk.injEq] at h; rw [← h.1]
      · cases h
    · simp only [Except.ok.injEq, Prod.mk.injEq] at h; rw [← h.1]
  constructor
  · intro hn; rw [hkey, hn]; rfl
  · intro hv
    have hne := validKey_ne_none b.key hv
    have : (b.key == pyNone) = false := by simpa using hne
    rw [this] at hkey
    simp only [Bool.false_eq_true, if_false] at hkey
    obtain ⟨k', e1, e2, e3, e4⟩ := genTk_valid b.key by_ hv
    rw [hkey, e2]
    exact ⟨e1, e3, validKey_ne_none k' e3, e4⟩

/-- and the key-signature events inside the bar's sequence are transposed by the same interval and
    never undefined (both branches) -/
theorem bar_seq_keys (e : Env) (htk : e.tk = genTk) (b b' : Bar) (by_ : Int) (flag : Bool)
    (hk : ∀ m ∈ b.seq, m.ty = .keySignature → C20.validKey m.key)
    (h : Bar.transpose e b by_ = .ok (b', flag)) :
    ∀ m' ∈ b'.seq, m'.ty = .keySignature → KeyImage by_ b.seq m' := by
  unfold Bar.transpose at h
  cases ht : Seq.transposeSeq e (Seq.ofRel b.seq) by_ with
  | error err => rw [ht] at h; cases h
  | ok p =>
    obtain ⟨s', f⟩ := p
    rw [ht] at h
    simp only [bind, Except.bind] at h
    cases hr : s'.readRel with
    | error err => rw [hr] at h; cases h
    | ok q =>
      obtain ⟨s'', r'⟩ := q
      rw [hr] at h
      simp only [Except.ok.injEq, Prod.mk.injEq] at h
      obtain ⟨rfl, _⟩ := h
      exact (keys_defined_seq e htk (Seq.ofRel b.seq) (Seq.ofRel b.seq) s' b.seq by_ f rfl hk ht).2 s'' r' hr

/-! non-vacuity: a 4/4 bar in D♭ with a note near the top of the range, up 3 semitones (wraps) and up 1 -/
def exBar : Bar :=
  { seq := [Msg.mkTimeSig 0 4 4 pyNone, { ty := .keySignature, key := 12 }, Msg.mkOn 0 107 64 pyNone,
            Msg.mkWait 0 24, Msg.mkOff 0 107 pyNone, Msg.mkWait 0 72], num := 4, den := 4, key := 12 }
example : (Bar.transpose genEnv exBar 1).toOption = some
    ({ seq := [Msg.mkTimeSig 0 4 4 pyNone, { ty := .keySignature, key := 2 }, Msg.mkOn 0 108 64 pyNone,
               Msg.mkWait 0 24, Msg.mkOff 0 108 pyNone, Msg.mkWait 0 72], num := 4, den := 4, key := 2 }, false) := by
  decide
example : ((Bar.transpose genEnv exBar 3).toOption.map (fun p => (p.1.key, p.2, p.1.seq.map (·.note)))) =
    some (4, true, [-1, -1, 98, -1, 98, -1]) := by
  decide

/-! ## A15 — C10 on the domain where the model is the Python constructor -/

/-- the arguments for which `mkBar` models `Bar.__init__`: outside it Python's `int(n·PPQN/(d/4))` truncates
    toward zero (negative `n`) or raises `ZeroDivisionError` (`d = 0`), the model floors / yields 0 -/
def BarDomain (ppqn n d : Int) : Prop := 0 ≤ ppqn ∧ 0 ≤ n ∧ 0 < d
instance (ppqn n d : Int) : Decidable (BarDomain ppqn n d) := by unfold BarDomain; infer_instance

/-- on the domain the model's capacity is the int-typed value of the Python expression
    `int(numerator * PPQN / (denominator / 4))` (bar.py:27) -/
theorem bar_capacity_py (ppqn n d : Int) (hD : BarDomain ppqn n d) :
    barCapacityPy n ppqn d = .int (barCapacity ppqn n d) :=
  C11.barCapacityPy_eq n ppqn d hD.2.1 hD.1 hD.2.2

/-- **capacity, honestly** (A15): when `d` divides `n·ppqn·4` the capacity is exactly `n·4/d` quarter notes
    (`capacity · d = n · ppqn · 4`, no rounding); otherwise it is the floor, strictly below -/
theorem bar_capacity_exact (ppqn n d : Int) (hd : 0 < d) :
    (d ∣ n * ppqn * 4 → barCapacity ppqn n d * d = n * ppqn * 4)
    ∧ (¬ d ∣ n * ppqn * 4 →
        barCapacity ppqn n d * d < n * ppqn * 4 ∧ n * ppqn * 4 < (barCapacity ppqn n d + 1) * d) :=
  ediv_exact_or_floor (n * ppqn * 4) d hd

/-- the same in quarter notes, as a rational: `capacity / ppqn = n · 4 / d` when `d ∣ n·ppqn·4` -/
theorem bar_capacity_quarters (ppqn n d : Int) (hd : 0 < d) (hp : 0 < ppqn) (hdv : d ∣ n * ppqn * 4) :
    ((barCapacity ppqn n d : Int) : Rat) / (ppqn : Rat) = (n : Rat) * 4 / (d : Rat) := by
  have h := (bar_capacity_exact ppqn n d hd).1 hdv
  have hq : ((barCapacity ppqn n d : Int) : Rat) * (d : Rat) = (n : Rat) * (ppqn : Rat) * 4 := by
    exact_mod_cast h
  have hd' : (d : Rat) ≠ 0 := by exact_mod_cast hd.ne'
  have hp' : (ppqn : Rat) ≠ 0 := by exact_mod_cast hp.ne'
  field_simp
  linarith

/-- **error kind on the domain** (A15): for `0 ≤ n`, `0 < d` the constructor's capacity is Python's and
    construction either succeeds or raises a bar error (for `d = 0` the real constructor raises
    `ZeroDivisionError`, which is why `C10.bar_error_kind` over all integers is not about the real code) -/
theorem bar_error_kind' (ppqn : Int) (rel : List Msg) (n d key : Int) (hD : BarDomain ppqn n d) :
    barCapacityPy n ppqn d = .int (barCapacity ppqn n d)
    ∧ ((∃ b, mkBar ppqn rel n d key = .ok b) ∨ mkBar ppqn rel n d key = .error .barError) :=
  ⟨bar_capacity_py ppqn n d hD, C10.bar_error_kind ppqn rel n d key⟩

/-- **duration on the domain** (A15): an accepted bar lasts `⌊n·ppqn·4/d⌋` ticks, Python's capacity; that is
    exactly `n·4/d` quarter notes iff `d ∣ n·ppqn·4`, and strictly less otherwise -/
theorem bar_duration' (ppqn : Int) (rel : List Msg) (n d key : Int) (b : Bar) (hD : BarDomain ppqn n d)
    (hw : NonNegWaits rel) (h : mkBar ppqn rel n d key = .ok b) :
    barCapacityPy n ppqn d = .int (durRel b.seq)
    ∧ (d ∣ n * ppqn * 4 → durRel b.seq * d = n * ppqn * 4)
    ∧ (¬ d ∣ n * ppqn * 4 → durRel b.seq * d < n * ppqn * 4 ∧ n * ppqn * 4 < (durRel b.seq + 1) * d) := by
  rw [C10.bar_duration ppqn rel n d key b hw h]
  exact ⟨bar_capacity_py ppqn n d hD, bar_capacity_exact ppqn n d hD.2.2⟩

/-- the property text "lasts exactly numerator × 4 / denominator quarter notes", read literally … -/
def bar_exact_statement : Prop :=
  ∀ (ppqn : Int) (rel : List Msg) (n d key : Int) (b : Bar), BarDomain ppqn n d → NonNegWaits rel →
    mkBar ppqn rel n d key = .ok b → durRel b.seq * d = n * ppqn * 4

/-- … is false: `Bar(Sequence(), 1, 128)` is accepted with 0 ticks (0.75 of a tick is floored away).  The real
    constructor does the same (replayed). -/
theorem bar_exact_statement_false : ¬ bar_exact_statement := by
  intro h
  have := h 24 [] 1 128 pyNone { seq := [Msg.mkTimeSig 0 1 128 pyNone], num := 1, den := 128, key := pyNone }
    (by decide) (by intro m hm; cases hm) (by decide)
  revert this
  decide

/-- the exact statement holds whenever the signature's length is a whole number of ticks -/
theorem bar_exact_partial (ppqn : Int) (rel : List Msg) (n d key : Int) (b : Bar) (hD : BarDomain ppqn n d)
    (hdv : d ∣ n * ppqn * 4) (hw : NonNegWaits rel) (h : mkBar ppqn rel n d key = .ok b) :
    durRel b.seq * d = n * ppqn * 4 :=
  (bar_duration' ppqn rel n d key b hD hw h).2.1 hdv

/-- on the domain every theorem of `C10` applies unchanged; the two rejection theorems restated with the domain
    made explicit, and the second-signature case at input level: two signature events with different values
    are rejected (an *identical* repeat is dropped by `normalise` and accepted, see below) -/
theorem bar_rejects' (ppqn : Int) (rel : List Msg) (n d key : Int) (_hD : BarDomain ppqn n d) :
    (NonNegWaits rel → barCapacity ppqn n d < durRel rel → mkBar ppqn rel n d key = .error .barError)
    ∧ ((∀ m ∈ rel, m.ty = .timeSignature → (m.num, m.den) ≠ (pyNone, pyNone)) →
        (∃ m1 ∈ rel, ∃ m2 ∈ rel, m1.ty = .timeSignature ∧ m2.ty = .timeSignature
          ∧ (m1.num, m1.den) ≠ (m2.num, m2.den)) → mkBar ppqn rel n d key = .error .barError) := by
  refine ⟨fun hw h => C10.bar_too_long ppqn rel n d key hw h, ?_⟩
  intro h0 ⟨m1, hm1, m2, hm2, t1, t2, hne⟩
  apply C10.bar_conflict ppqn rel n d key _ h0
  by_cases e1 : m1.num = n ∧ m1.den = d
  · refine ⟨m2, hm2, t2, ?_⟩
    by_cases e2 : m2.num = n
    · right; intro e3; exact hne (by rw [e1.1, e1.2, e2, e3])
    · left; exact e2
  · refine ⟨m1, hm1, t1, ?_⟩
    by_cases e2 : m1.num = n
    · right; intro e3; exact e1 ⟨e2, e3⟩
    · left; exact e2

/-- "a second signature is rejected", read literally, is false of model and real code alike: an identical
    repeat is removed by `normalise` before the check -/
def bar_second_sig_statement : Prop :=
  ∀ (ppqn : Int) (rel : List Msg) (n d key : Int), BarDomain ppqn n d →
    1 < (rel.filter (·.ty == .timeSignature)).length → mkBar ppqn rel n d key = .error .barError

theorem bar_second_sig_statement_false : ¬ bar_second_sig_statement := by
  intro h
  have := h 24 [Msg.mkTimeSig 0 4 4 pyNone, Msg.mkWait 0 10, Msg.mkTimeSig 0 4 4 pyNone] 4 4 pyNone
    (by decide) (by decide)
  revert this
  decide

/-! outside the domain the model and the real constructor differ (model artefacts, documented):
    `d = 0`: model accepts with duration 0, Python raises `ZeroDivisionError`;
    `n = -1, d = 200`: Python's `int(-0.48) = 0` accepts the empty sequence, the model floors to -1 and rejects -/
theorem model_outside_domain_d0 :
    (mkBar 24 [] 3 0 pyNone).toOption.map (fun b => durRel b.seq) = some 0 := by decide
theorem model_outside_domain_neg :
    mkBar 24 [] (-1) 200 pyNone = .error .barError ∧ barCapacity 24 (-1) 200 = -1 := by decide

/-! non-vacuity -/
example : BarDomain 24 3 4 ∧ NonNegWaits C10.exRel ∧ (4:Int) ∣ 3 * 24 * 4 := by
  refine ⟨by decide, ?_, by decide⟩
  simp [NonNegWaits, C10.exRel, Msg.mkOn, Msg.mkOff, Msg.mkWait]
example : BarDomain 24 3 7 ∧ ¬ (7:Int) ∣ 3 * 24 * 4 ∧ barCapacity 24 3 7 = 41 := by decide
example : (mkBar 24 [Msg.mkTimeSig 0 4 4 pyNone, Msg.mkWait 0 10, Msg.mkTimeSig 0 4 4 pyNone] 4 4 pyNone).toOption.map (·.seq)
    = some [Msg.mkTimeSig 0 4 4 pyNone, Msg.mkWait 0 10, Msg.mkWait 0 86] := by decide

/-! ## A17 — C19: annotations against the FINAL `detokenise` output -/

/-- **same clock, final output** (A17; strengthens `C19.note_annotation`): for any stream `detokenise` accepts
    and any note token in it, the annotation row of that token carries the detokeniser's clock `d.curTime`
    after the preceding tokens, the token's pitch, and `Gen.getPosition pitch` — the generated
    `CircleOfFifths.get_position` — and the sequences RETURNED by `detokenise` for the whole stream contain,
    on the running track, a note-on of that pitch at exactly that tick (with the running velocity) and its
    note-off `value` ticks later.  Notes are never removed by later tokens: in `Model/Token.lean` every
    branch of `dpart` leaves `seqs` alone or inserts with `insort` (`GapsL.dpart_seqsLe`). -/
theorem note_annotation_final (c : Cfg) (imp : Bool) (pre post : List Tok)
    (tr : Option Int) (p : Int) (v w : Option Int) (seqs : List (List Msg))
    (h : detokenise c (pre ++ Tok.note tr p v w :: post) = .ok seqs) :
    ∃ d, detokFold c pre = .ok d
      ∧ (getInfo c genCof imp (pre ++ Tok.note tr p v w :: post))[pre.length]? =
          some ((pre.length : Int), d.curTime, d.curTimeBar, some p, Gen.getPosition p)
      ∧ ∃ l, seqs[(tr.getD d.prvTrack).toNat]? = some l
          ∧ Msg.mkOn 0 p (w.getD d.prvVel) d.curTime ∈ l
          ∧ Msg.mkOff 0 p (d.curTime + v.getD d.prvValue) ∈ l := by
  rw [detokenise_eq] at h
  cases hf : detokFold c (pre ++ Tok.note tr p v w :: post) with
  | error e => rw [hf] at h; cases h
  | ok dfin =>
    rw [hf] at h
    simp only [Except.map, Except.ok.injEq] at h
    subst h
    rw [← dfoldFrom_init] at hf
    obtain ⟨d, d', e1, e2, e3⟩ := dfoldFrom_split c pre _ post _ _ hf
    rw [dfoldFrom_init] at e1
    refine ⟨d, e1, ?_, ?_⟩
    · have := (note_annotation c genCof imp pre post tr p v w d d' e1 e2).1
      rw [this, (getPosition_spec p).1]
    · obtain ⟨l, hl, hon, hoff⟩ := dstep_note_placed c d d' tr p v w e2
      obtain ⟨l', hl', hm⟩ := dfoldFrom_seqsLe c post d' dfin e3 _ l hl
      exact ⟨l', hl', hm _ hon, hm _ hoff⟩

/-- the circle-of-fifths annotation is the position of the pitch class: total, in [-5, 6], and the
    `circle_of_fifths_order` table has the pitch class at index position + 5 -/
theorem cof_annotation (p : Int) :
    ∃ q, Gen.getPosition p = some q ∧ -5 ≤ q ∧ q ≤ 6 ∧ Gen.circleOfFifthsOrder[(q + 5).toNat]? = some (p % 12) :=
  ⟨genCof p, getPosition_spec p⟩

/-- **for any stream of vocabulary tokens** (A17; composes with `C02.detokenise_accepts`): every stream over
    the vocabulary — produced by `tokenise` or not — is accepted, and each of its note tokens is annotated
    with the tick at which the returned sequences hold its note-on, with its pitch and with the
    circle-of-fifths position of that pitch -/
theorem note_annotation_vocab (c : Cfg) (hn : 0 < c.numTracks) (imp : Bool) (pre post : List Tok)
    (tr : Option Int) (p : Int) (v w : Option Int)
    (hv : ∀ t ∈ pre ++ Tok.note tr p v w :: post, t ∈ vocabSeq c) :
    ∃ seqs d, detokenise c (pre ++ Tok.note tr p v w :: post) = .ok seqs ∧ detokFold c pre = .ok d
      ∧ (getInfo c genCof imp (pre ++ Tok.note tr p v w :: post))[pre.length]? =
          some ((pre.length : Int), d.curTime, d.curTimeBar, some p, Gen.getPosition p)
      ∧ ∃ l, seqs[(tr.getD d.prvTrack).toNat]? = some l
          ∧ Msg.mkOn 0 p (w.getD d.prvVel) d.curTime ∈ l
          ∧ Msg.mkOff 0 p (d.curTime + v.getD d.prvValue) ∈ l := by
  obtain ⟨seqs, hs⟩ := C02.detokenise_accepts c _ hv hn
  obtain ⟨d, h1, h2, h3⟩ := note_annotation_final c imp pre post tr p v w seqs hs
  exact ⟨seqs, d, hs, h1, h2, h3⟩

/-! ## A17 — C19: streams produced by a threaded sequence of `tokenise` calls -/

/-- **monotone, threaded** (A17; extends `C19.times_monotone` from one call to any number of calls, each
    started from the state the previous one returned — every state reachable by `tokeniseCore` from the
    initial one): in the concatenated stream annotated times never decrease -/
theorem times_monotone_threaded (c : Cfg) (hc : CfgOk c) (calls : List (List (Int × Pairing)))
    (toks : List Tok) (st' : TokSt)
    (hcalls : ∀ evs ∈ calls, EvsOk c 0 0 evs ∧ CapsPos c evs)
    (hcap0 : 0 < c.capacity c.defNum c.defDen)
    (hok : threaded c (TokSt.init c) calls = .ok (toks, st')) (cof : Int → Int) (imp : Bool) :
    List.Pairwise (fun a b => a.2.1 ≤ b.2.1) (getInfo c cof imp toks) := by
  obtain ⟨hm, d', log', b1, _⟩ := threaded_sim c hc calls (TokSt.init c) st' toks (DetokSt.init c)
    (ready_init c hcap0) (relD_init c) hcalls hok
  have hclk : Clk { capTotal := c.capacity c.defNum c.defDen, capRem := c.capacity c.defNum c.defDen }
      (DetokSt.init c) := ⟨rfl, rfl, rfl, rfl⟩
  have hp := (InBar.times_pairwise c cof imp toks _ _ d' log' hclk hm b1).1
  have ho := InBar.out_times c cof imp toks
    { capTotal := c.capacity c.defNum c.defDen, capRem := c.capacity c.defNum c.defDen }
  simp only [List.reverse_nil, List.map_nil, List.nil_append] at ho
  rw [← ho] at hp
  exact List.pairwise_map.1 hp

/-- **bar ends, threaded** (A17; extends `C19.barEnds_increasing`): replaying the concatenated stream of a
    threaded sequence of calls, the bar ends come out strictly increasing across call boundaries, so "the
    start of its bar" (`C19.lastBarEnd`, `C19.in_bar_annotation`) stays unambiguous -/
theorem barEnds_increasing_threaded (c : Cfg) (hc : CfgOk c) (calls : List (List (Int × Pairing)))
    (toks : List Tok) (st' : TokSt)
    (hcalls : ∀ evs ∈ calls, EvsOk c 0 0 evs ∧ CapsPos c evs)
    (hcap0 : 0 < c.capacity c.defNum c.defDen)
    (hok : threaded c (TokSt.init c) calls = .ok (toks, st')) (d : DetokSt) (log : List Emit)
    (h : dfold c (DetokSt.init c) toks = .ok (d, log)) :
    List.Pairwise (· < ·) (log.filterMap (fun e => match e with | .barEnd t => some t | _ => Option.none)) := by
  obtain ⟨_, d', log', b1, _, _, b4, _⟩ := threaded_sim c hc calls (TokSt.init c) st' toks (DetokSt.init c)
    (ready_init c hcap0) (relD_init c) hcalls hok
  rw [h] at b1
  cases b1
  exact b4

/-- a threaded sequence of calls is accepted by the detokeniser as one stream, and the final states
    still describe the same point of the piece -/
theorem threaded_accepted (c : Cfg) (hc : CfgOk c) (calls : List (List (Int × Pairing)))
    (toks : List Tok) (st' : TokSt)
    (hcalls : ∀ evs ∈ calls, EvsOk c 0 0 evs ∧ CapsPos c evs)
    (hcap0 : 0 < c.capacity c.defNum c.defDen)
    (hok : threaded c (TokSt.init c) calls = .ok (toks, st')) :
    ∃ d log, dfold c (DetokSt.init c) toks = .ok (d, log) ∧ d.curTime = st'.curTime
      ∧ d.curTimeBar = st'.curTimeBar := by
  obtain ⟨_, d', log', b1, b2, _⟩ := threaded_sim c hc calls (TokSt.init c) st' toks (DetokSt.init c)
    (ready_init c hcap0) (relD_init c) hcalls hok
  exact ⟨d', log', b1, b2.cur, b2.bar⟩

/-! non-vacuity -/
example : (detokenise C19.exCfg [.rest 12, .tsig 6 8, .bar, .note (some 0) 60 (some 24) (some 127), .rest 24, .bar]).toOption
    = some [[Msg.mkInternal 0 96, Msg.mkOn 0 60 127 96, Msg.mkOff 0 60 120, Msg.mkInternal 0 192]] := by
  decide
example : (getInfo C19.exCfg genCof false [.rest 12, .tsig 6 8, .bar, .note (some 0) 60 (some 24) (some 127), .rest 24, .bar])[3]?
    = some (3, 96, 0, some 60, some 0) := by
  decide
/-- two threaded calls (a note in each; the second call's onsets are relative to the carried clock) -/
def exCalls : List (List (Int × Pairing)) :=
  [[(0, [Msg.mkOn 0 60 64 12, Msg.mkOff 0 60 36])], [(0, [Msg.mkOn 0 62 64 12, Msg.mkOff 0 62 36])]]
example : (threaded C19.exCfg (TokSt.init C19.exCfg) exCalls).toOption.map (fun r => (r.1, r.2.curTime)) =
    some ([.rest 12, .note (some 0) 60 (some 24) (some 127), .rest 24, .rest 24, .rest 24, .rest 12, .bar,
           .rest 12, .note (some 0) 62 (some 24) (some 127), .rest 24, .rest 24, .rest 24, .rest 12, .bar], 192) := by
  decide

example : CfgOk C19.exCfg ∧ 0 < C19.exCfg.capacity C19.exCfg.defNum C19.exCfg.defDen
    ∧ ∀ evs ∈ exCalls, EvsOk C19.exCfg 0 0 evs ∧ CapsPos C19.exCfg evs := by
  refine ⟨by constructor <;> decide, by decide, ?_⟩
  intro evs he
  simp only [exCalls, List.mem_cons, List.not_mem_nil, or_false] at he
  rcases he with rfl | rfl <;>
    exact ⟨by constructor <;> simp [C19.exCfg, Msg.mkOn], by simp [CapsPos, Msg.mkOn]⟩

/-! ## A17 — C07: every changing key signature is kept, at its tick -/

/-- the key signatures of a relative sequence as (tick, key), in sequence order -/
def ksTimed (r : List Msg) : List (Int × Int) :=
  ((eventsRel r).filter (·.ty == .keySignature)).map (fun m => (m.time, m.key))

/-- remove every (tick, key) whose key repeats the previous entry's key, keeping the first of each run -/
def dedupAdjT : Option Int → List (Int × Int) → List (Int × Int)
  | _, [] => []
  | prev, x :: xs => if prev = some x.2 then dedupAdjT prev xs else x :: dedupAdjT (some x.2) xs

theorem dedupAdjT_some (l : List (Int × Int)) : ∀ p, dedupAdjT (some p) l = dedupT p l := by
  induction l with
  | nil => intro p; rfl
  | cons x xs ih =>
    intro p
    simp only [dedupAdjT, dedupT, Option.some.injEq]
    split
    · exact ih p
    · rw [ih x.2]

theorem dedupAdjT_none (l : List (Int × Int)) (q : Int) (h : ∀ x ∈ l, x.2 ≠ q) :
    dedupAdjT Option.none l = dedupT q l := by
  cases l with
  | nil => rfl
  | cons x xs =>
    have : ¬ q = x.2 := fun e => h x (by simp) e.symm
    simp [dedupAdjT, dedupT, this, dedupAdjT_some]

/-- **key signature in force** (A17; mirrors `C07.ts_in_force`, at the level of timed events): a key-signature
    event that differs from the previous one is kept *at its tick*, one that repeats the key in force is gone:
    the (tick, key) list of the output is the input's with adjacent repetitions removed (first of each run
    kept).  So the key in force at every tick is unchanged. -/
theorem ks_in_force (r : List Msg) (hnn : NonNegWaits r)
    (h0 : ∀ m ∈ r, m.ty = .keySignature → m.key ≠ pyNone) :
    ksTimed (normalise r) = dedupAdjT Option.none (ksTimed r) := by
  have h1 : ∀ x ∈ ksTimed r, x.2 ≠ pyNone := by
    intro x hx
    simp only [ksTimed, List.mem_map, List.mem_filter, beq_iff_eq] at hx
    obtain ⟨e, ⟨he, hty⟩, rfl⟩ := hx
    obtain ⟨m0, hm0, e0⟩ := Notes.eventsRelGo_src r 0 e he
    rw [e0] at hty ⊢
    exact h0 m0 hm0 hty
  rw [dedupAdjT_none _ pyNone h1]
  exact normalise_ksT r hnn

/-! non-vacuity: C, C (repeat, dropped), rest, G (kept at tick 24), G (repeat), rest, C (kept at 48) -/
def exKs : List Msg :=
  [{ ty := .keySignature, key := 0 }, { ty := .keySignature, key := 0 }, Msg.mkWait 0 24,
   { ty := .keySignature, key := 1 }, { ty := .keySignature, key := 1 }, Msg.mkWait 0 24, { ty := .keySignature, key := 0 }]
example : NonNegWaits exKs ∧ ∀ m ∈ exKs, m.ty = .keySignature → m.key ≠ pyNone := by
  simp [NonNegWaits, exKs, Msg.mkWait, pyNone]
example : ksTimed (normalise exKs) = [(0, 0), (24, 1), (48, 0)] := by decide

/-! ## A17 — C18 at the level of the `Sequence` wrapper -/

/-- **pad, wrapper level**: from any state in the wrapper invariant (both views fresh, or either one stale),
    `Sequence.pad(n)` succeeds, keeps the invariant, and through EITHER view the sequence then shows exactly
    the events it had (`r` = its relative content before) and the duration `max(old duration, n)` -/
theorem pad_seq (s s0 : Seq) (r : List Msg) (n : Int) (h : SeqInv s) (hread : s.readRel = .ok (s0, r)) :
    ∃ s', s.padSeq n = .ok s' ∧ SeqInv s' ∧ ViewsShow s' (eventsRel r) (max (durRel r) n) := by
  have hr : OkRel r := by
    obtain ⟨s1, r1, e1, _, ⟨_, r2, e2, ok2, _⟩⟩ := inv_views s h
    rw [hread] at e2; cases e2; exact ok2
  obtain ⟨s', e, hi, hv, _⟩ := onRel_views s s0 r (pad n) h hread (C04.pad_okR n r)
  refine ⟨s', e, hi, ?_⟩
  rw [C18.pad_events, C18.pad_duration n r hr.1] at hv
  exact hv

/-- **set_channel, wrapper level**: through either view, every event has its channel replaced and nothing
    else changes (same ticks, same duration) -/
theorem setChannel_seq (s s0 : Seq) (r : List Msg) (c : Int) (h : SeqInv s) (hread : s.readRel = .ok (s0, r)) :
    ∃ s', s.setChannelSeq c = .ok s' ∧ SeqInv s'
      ∧ ViewsShow s' ((eventsRel r).map (fun m => { m with ch := c })) (durRel r) := by
  obtain ⟨s', e, hi, hv, _⟩ := onRel_views s s0 r (setChannel c) h hread (C04.setChannel_okR c r)
  refine ⟨s', e, hi, ?_⟩
  rw [C18.channel_events, C18.channel_duration] at hv
  exact hv

/-- **scale without re-quantisation, wrapper level** (`scale(k, quantise_afterwards=False)`, integer `k ≥ 1`):
    through either view every event's tick — hence every onset and every note duration — and the total
    duration are multiplied by `k`, and nothing else changes; read through the relative view, the notes are
    exactly the old notes with onset and end multiplied by `k` -/
theorem scale_seq (e : Env) (s s0 : Seq) (r : List Msg) (k : Int) (hk : 1 ≤ k) (h : SeqInv s)
    (hread : s.readRel = .ok (s0, r)) :
    ∃ s', Seq.scaleSeq e s k false = .ok s' ∧ SeqInv s'
      ∧ ViewsShow s' ((eventsRel r).map (fun m => { m with time := k * m.time })) (k * durRel r)
      ∧ ∃ r', s'.readRel = .ok (s', r') ∧
          notesOf (eventsRel r') = (notesOf (eventsRel r)).map (fun n => { n with on := k * n.on, off := k * n.off }) := by
  obtain ⟨s', e1, hi, hv, hr'⟩ := onRel_views s s0 r (scaleRel k) h hread (C04.scaleRel_okR k (by omega) r)
  refine ⟨s', ?_, hi, ?_, scaleRel k r, hr', C18.scale_notes k r hk⟩
  · unfold Seq.scaleSeq
    rw [e1]; rfl
  · rw [C18.scale_events, C18.scale_duration] at hv
    exact hv

/-- the rule by which `cutoff(m, r)` rewrites a note -/
def cutNote (m r : Int) (n : Note) : Note := if n.off - n.on > m then { n with off := n.on + r } else n

/-- **cut-off, wrapper level** (`1 ≤ r ≤ m`): from any state in the invariant whose absolute content `a` is
    well-formed with notes of positive length, `Sequence.cutoff(m, r)` succeeds, keeps the invariant, and read
    through EITHER view the notes are exactly the old notes with those longer than `m` shortened to `r`
    (onset, pitch, channel, velocity unchanged), and the non-note events are the old ones -/
theorem cutoff_seq (s s0 : Seq) (a : List Msg) (m r : Int) (hr : 1 ≤ r ∧ r ≤ m) (h : SeqInv s)
    (hread : s.readAbs = .ok (s0, a)) (hwf : WF (sortAbs a)) (hpd : Notes.PosDur (sortAbs a)) :
    ∃ s', s.cutoffSeq m r = .ok s' ∧ SeqInv s'
      ∧ (∃ s1 a', s'.readAbs = .ok (s1, a')
          ∧ (notesOf (eventsAbs a')).Perm ((notesOf (sortAbs a)).map (cutNote m r))
          ∧ (nonNotes (eventsAbs a')).Perm (nonNotes (eventsAbs a)))
      ∧ (∃ s2 r', s'.readRel = .ok (s2, r')
          ∧ (notesOf (eventsRel r')).Perm ((notesOf (sortAbs a)).map (cutNote m r))
          ∧ (nonNotes (eventsRel r')).Perm (nonNotes (eventsAbs a))) := by
  obtain ⟨s', e1, hi, ha', hok, s'', hr'⟩ :=
    onAbs_views s s0 a (cutoff m r) h hread (C04.cutoff_okA m r (by omega) a)
  have hn : (notesOf (eventsAbs (cutoff m r a))).Perm ((notesOf (sortAbs a)).map (cutNote m r)) := by
    rw [notesOf_eventsAbs]
    exact Notes.cutoff_notes m r hr a hwf hpd
  have ho : (nonNotes (eventsAbs (cutoff m r a))).Perm (nonNotes (eventsAbs a)) :=
    nonNotes_eventsAbs_perm (C18.cutoff_others m r a)
  refine ⟨s', e1, hi, ⟨s', _, ha', hn, ho⟩, ⟨s'', _, hr', ?_, ?_⟩⟩
  · rw [C04.toRel_events _ hok]; exact hn
  · rw [C04.toRel_events _ hok]; exact ho

/-- `cutoff_notes` without the restriction `1 ≤ r` (replacement length 0) … -/
def cutoff_r0_statement : Prop :=
  ∀ (m : Int) (a : List Msg), 0 ≤ m → WF (sortAbs a) → Notes.PosDur (sortAbs a) →
    (notesOf (cutoff m 0 a)).Perm ((notesOf (sortAbs a)).map (cutNote m 0))

/-- … is false: the shortened note's note-off lands on its note-on's tick and is sorted BEFORE it, so the
    note-on is left open and captures the next note-off of that pitch.  The real `cutoff(10, 0)` returns the
    same ill-formed list (replayed); a following `normalise()` then deletes both notes. -/
theorem cutoff_r0_statement_false : ¬ cutoff_r0_statement := by
  intro h
  have := h 10 [Msg.mkOn 0 60 64 0, Msg.mkOff 0 60 30, Msg.mkOn 0 60 64 40, Msg.mkOff 0 60 45] (by decide)
    (by
      intro k
      simp only [show sortAbs [Msg.mkOn 0 60 64 0, Msg.mkOff 0 60 30, Msg.mkOn 0 60 64 40, Msg.mkOff 0 60 45]
        = [Msg.mkOn 0 60 64 0, Msg.mkOff 0 60 30, Msg.mkOn 0 60 64 40, Msg.mkOff 0 60 45] by decide]
      simp only [altFrom, Msg.mkOn, Msg.mkOff, Msg.nkey]
      by_cases hk : ((0 : Int), (60 : Int)) = k <;> simp [hk])
    (by unfold Notes.PosDur; decide)
  revert this
  decide

example : cutoff 10 0 [Msg.mkOn 0 60 64 0, Msg.mkOff 0 60 30, Msg.mkOn 0 60 64 40, Msg.mkOff 0 60 45]
    = [Msg.mkOff 0 60 0, Msg.mkOn 0 60 64 0, Msg.mkOn 0 60 64 40, Msg.mkOff 0 60 45] := by decide

/-! ### the default `scale(k)` (`quantise_afterwards=True`) -/

/-- what the default flag does: exactly `quantise_and_normalise()` on the exactly scaled sequence — so after
    it the statements of C05 / C06 / C07 (onsets on the grid, durations from the default note values,
    well-formedness) hold of the *scaled* content, not "every duration multiplied by k" -/
theorem scale_default_eq (e : Env) (s : Seq) (k : Int) :
    Seq.scaleSeq e s k true = (Seq.scaleSeq e s k false) >>= Seq.quantiseAndNormalise e := by
  unfold Seq.scaleSeq
  cases s.onRel (fun r => .ok (scaleRel k r)) <;> rfl

/-- "scaling by k multiplies every duration by k", claimed of the default call `scale(k)` … -/
def scale_default_statement : Prop :=
  ∀ (a : List Msg) (k : Int) (s' : Seq), OkAbs a → WF a → 1 ≤ k →
    Seq.scaleSeq genEnv (Seq.ofAbs a) k true = .ok s' →
    ∀ s'' a', s'.readAbs = .ok (s'', a') →
      (notesOf (eventsAbs a')).Perm ((notesOf a).map (fun n => { n with on := k * n.on, off := k * n.off }))

/-- … is false (also of the real code, replayed): notes [0,30) and [40,45) scaled by 2 come out as [0,36) and
    [80,89), because the scaled durations 60 and 10 are not default note values and are re-quantised -/
theorem scale_default_statement_false : ¬ scale_default_statement := by
  intro h
  have := h [Msg.mkOn 0 60 64 0, Msg.mkOff 0 60 30, Msg.mkOn 0 60 64 40, Msg.mkOff 0 60 45] 2
    { abs := [Msg.mkOn 0 60 64 0, Msg.mkOff 0 60 36, Msg.mkOn 0 60 64 80, Msg.mkOff 0 60 89],
      rel := [Msg.mkOn 0 60 64 pyNone, Msg.mkWait 0 36, Msg.mkOff 0 60 pyNone, Msg.mkWait 0 44,
              Msg.mkOn 0 60 64 pyNone, Msg.mkWait 0 9, Msg.mkOff 0 60 pyNone],
      absStale := true, relStale := false }
    (by refine ⟨?_, ?_, by decide⟩ <;> simp [TimeSorted, NonNegTimes, Msg.mkOn, Msg.mkOff])
    (by
      intro k
      simp only [altFrom, Msg.mkOn, Msg.mkOff, Msg.nkey]
      by_cases hk : ((0 : Int), (60 : Int)) = k <;> simp [hk])
    (by decide) (by rfl) _ _ rfl
  revert this
  decide +kernel

/-! ## A17 — C06: why the allowed values must be positive -/

/-- `C06.qnl_wf` with the hypothesis `0 < v` weakened to `0 ≤ v` … -/
def qnl_wf_zero_statement : Prop :=
  ∀ (values : List Int) (stdLen : Int) (dne : Bool) (a out : List Msg), (∀ v ∈ values, 0 ≤ v) →
    WF (sortAbs a) → Notes.PosDur (sortAbs a) → quantiseNoteLengths values stdLen dne a = .ok out → WF out

/-- … is false (A17: `0 < v` is necessary): with the value 0 allowed, a 5-tick note gets length 0, its note-off
    is sorted before its note-on and the result is ill-formed.  The real `quantise_note_lengths([0, 12])`
    returns the same list (replayed); the default note values are all positive. -/
theorem qnl_wf_zero_statement_false : ¬ qnl_wf_zero_statement := by
  intro h
  have hw := h [0, 12] 24 false [Msg.mkOn 0 60 64 0, Msg.mkOff 0 60 5] [Msg.mkOff 0 60 0, Msg.mkOn 0 60 64 0]
    (by decide)
    (by
      intro k
      simp only [show sortAbs [Msg.mkOn 0 60 64 0, Msg.mkOff 0 60 5] = [Msg.mkOn 0 60 64 0, Msg.mkOff 0 60 5] by decide]
      simp only [altFrom, Msg.mkOn, Msg.mkOff, Msg.nkey]
      by_cases hk : ((0 : Int), (60 : Int)) = k <;> simp [hk])
    (by unfold Notes.PosDur; decide) (by rfl)
  have := hw (0, 60)
  simp [altFrom, Msg.mkOn, Msg.mkOff, Msg.nkey] at this

end SCoda.Gaps
