/-
  C03, the glue to the bars of the real pipeline (audit item A1 (ii)), with input-level hypotheses only.

  * `bars_trackGood`: for tracks in the input class (`TrackIn`: non-negative waits, no INTERNAL message, well-formed,
    no zero-length note, one channel) with positive signatures on the meta track (`C03e.SigsPos`), every bar sequence
    `splitBars` returns is a good track on its own — the bar-level hypothesis of `C03e.extract_wholebars_partial`;
  * `extract_wholebars_input`: the structural part of the glue (first three conjuncts) from input-level hypotheses;
  * `extract_wholebars_full` / `extract_wholebars_nozero`: the FULL conclusion of `C03c.extract_wholebars_statement`
    (`SameNotes` against the one-bar runs included, for runs of any length) — the statement of Props/C03c verbatim
    plus the hypotheses `0 < ppqn`, `SigsPos`, no zero-length notes, one channel per track;
  * which hypotheses are needed: `C03e.extract_wholebars_statement_false` (zero-length notes: needed, by the
    implementation too), `nozero_needs_sigsPos` (positive signatures: needed, by the implementation too),
    `sigsPos_ppqn` (`0 < ppqn` is implied by `SigsPos`); one channel per track is a need of the proof for which no
    counter-example is known.
-/
import SCoda.Props.C03e
import SCoda.Lemmas.GlueL8
namespace SCoda.C03f
open SCoda SCoda.C01 SCoda.ChunksL SCoda.C03c SCoda.C03e SCoda.GlueL SCoda.ExtractL SCoda.SplitL

/-- the input class of the glue, per track: non-negative waits and no INTERNAL message (`OkRel`), well-formed (per
    channel and pitch note-ons and note-offs alternate), no zero-length note (the class of known finding D18), and
    all messages on one channel -/
def TrackIn (t : List Msg) : Prop := OkRel t ∧ WF t ∧ NoZeroNotes t ∧ ∃ ch, ∀ m ∈ t, m.ch = ch

/-- every bar sequence `splitBars` returns for such tracks is a good track on its own -/
theorem bars_trackGood (c : Cfg) (values : List Int) (tracks : List (List Msg)) (tb : List (List Bar))
    (hs : SigsPos c tracks) (htr : ∀ t ∈ tracks, TrackIn t)
    (h : splitBars c.ppqn values tracks 0 false = .ok tb) :
    ∀ i bs, tb[i]? = some bs → ∀ b ∈ bs, TrackGood i b.seq :=
  splitBars_trackGood c.ppqn values tracks tb h
    (fun b hb => by rw [← cap_eq]; exact (bars_pos c values tracks tb h hs b hb).2.2) htr

/-- **A1 (ii), structural part, input-level hypotheses only.**  Tracks with positive signatures on the meta track
    (`SigsPos`), each well-formed, without zero-length notes and on one channel (`TrackIn`): for the bars `splitBars`
    returns, what the tokeniser's `extract` makes of any run `[lo, hi)` of them is `layBars` of a well-formed whole-bar
    chunk after any running bar length `C`, with one `BarEv` per bar carrying that bar's signature. -/
theorem extract_wholebars_input (c : Cfg) (hp : 0 ≤ c.ppqn) (values : List Int) (tracks : List (List Msg)) (tb : List (List Bar))
    (hs : SigsPos c tracks) (htr : ∀ t ∈ tracks, TrackIn t)
    (h : splitBars c.ppqn values tracks 0 false = .ok tb) (hn : tb.length = c.numTracks)
    (lo hi : Nat) (C : Int) (hlo : lo < hi) (hhi : ∀ bs ∈ tb, hi ≤ bs.length) :
    ∃ bars : List BarEv,
      extract c.ppqn (tb.map (fun bs => barsToSeq ((bs.drop lo).take (hi - lo)))) = layBars c bars
        ∧ BarsOk c C bars
        ∧ bars.map (fun b => (b.num, b.den)) = (((tb.headD []).drop lo).take (hi - lo)).map (fun b => (b.num, b.den)) :=
  extract_wholebars_partial c hp values tracks tb hs h hn lo hi C hlo hhi
    (fun i bs hbs b hb => bars_trackGood c values tracks tb hs htr h i bs hbs b
      ((List.drop_sublist _ _).subset ((List.take_sublist _ _).subset hb)))

/-- the example of Props/C03e (two tracks, 4/4 4/4 6/8, a note crossing the first bar line) is in the input class -/
theorem gTracks_in : ∀ t ∈ [gTrack0, gTrack1], TrackIn t := by
  intro t ht
  simp only [List.mem_cons, List.not_mem_nil, or_false] at ht
  rcases ht with rfl | rfl
  · exact ⟨by decide, by decide, noZero_of_keys _ (by decide), 0, by decide⟩
  · exact ⟨by decide, by decide, noZero_of_keys _ (by decide), 0, by decide⟩

example : ∃ bars : List BarEv,
    extract 24 (gBars.map (fun bs => barsToSeq ((bs.drop 0).take (3 - 0)))) = layBars C03c.exCfg bars ∧ BarsOk C03c.exCfg 7 bars
      ∧ bars.map (fun b => (b.num, b.den)) = [(4, 4), (4, 4), (6, 8)] :=
  extract_wholebars_input C03c.exCfg (by decide) [] [gTrack0, gTrack1] gBars (by decide) gTracks_in gBars_eq (by decide +kernel)
    0 3 7 (by omega) (by decide +kernel)

/-! ## the full glue -/

/-- **A1 (ii), the full conclusion of `C03c.extract_wholebars_statement`, input-level hypotheses only.**  For bars
    returned by `splitBars` from tracks in the input class (`SigsPos`, `TrackIn`), what `extract` makes of any run
    `[lo, hi)` of them is a well-formed whole-bar chunk after any running bar length `C`, with one `BarEv` per bar
    carrying that bar's signature, and bar by bar it has the same lengths and — up to the order of simultaneous
    events — the same note events as the one-bar runs. -/
theorem extract_wholebars_full (c : Cfg) (hp : 0 ≤ c.ppqn) (values : List Int) (tracks : List (List Msg)) (tb : List (List Bar))
    (hs : SigsPos c tracks) (htr : ∀ t ∈ tracks, TrackIn t)
    (h : splitBars c.ppqn values tracks 0 false = .ok tb) (hn : tb.length = c.numTracks)
    (lo hi : Nat) (C : Int) (hlo : lo < hi) (hhi : ∀ bs ∈ tb, hi ≤ bs.length) :
    ∃ bars : List BarEv,
      extract c.ppqn (tb.map (fun bs => barsToSeq ((bs.drop lo).take (hi - lo)))) = layBars c bars
        ∧ BarsOk c C bars
        ∧ bars.map (fun b => (b.num, b.den)) = (((tb.headD []).drop lo).take (hi - lo)).map (fun b => (b.num, b.den))
        ∧ ∃ one : List BarEv,
            (∀ i, i < hi - lo → ∀ b ∈ one[i]?,
                extract c.ppqn (tb.map (fun bs => barsToSeq ((bs.drop (lo + i)).take 1))) = layBars c [b])
            ∧ one.length = hi - lo ∧ SameNotes c bars one := by
  have hgood := bars_trackGood c values tracks tb hs htr h
  have hrun : RunOk c (sigsOf tb lo hi) (segsOf tb lo hi) :=
    splitBars_runOk c values tracks tb h hn lo hi hlo hhi
      (fun i bs hbs b hb => hgood i bs hbs b ((List.drop_sublist _ _).subset ((List.take_sublist _ _).subset hb)))
      (fun b hb => bars_pos c values tracks tb h hs b ((List.drop_sublist _ _).subset ((List.take_sublist _ _).subset hb)))
  obtain ⟨c1, c2, c3⟩ := run_cut hrun hp C
  have hgA := run_goodAt hrun hp C
  have hperm := extract_pairs_perm c.ppqn (runTracks (segsOf tb lo hi)) (run_okRel hrun) (run_trackGood hrun)
  have hall : RunAll c (sigsOf tb lo hi) (segsOf tb lo hi) := hrun.segs
  have hcut := cut_notes c (sigsOf tb lo hi) 0 (segsOf tb lo hi) _ hall hgA.ordered hgA.nonempty
    (by rw [shiftEvs_zero]; exact hperm)
  have hsame := sameNotes_ones c (sigsOf tb lo hi) (segsOf tb lo hi) _ hall c3 hcut
  have hhead : hi ≤ (tb.headD []).length := by
    obtain ⟨_, _, hm, hl, _⟩ := SB.splitBars_bars c.ppqn values tracks 0 false tb h
    have h0 : 0 < tb.length := by rw [hl]; exact SB.lt_of_getElem?_some hm
    cases tb with
    | nil => simp at h0
    | cons a _ => exact hhi a List.mem_cons_self
  rw [← runTracks_segsOf tb lo hi]
  refine ⟨cutAt c 0 (sigsOf tb lo hi) (extract c.ppqn (runTracks (segsOf tb lo hi))), c1, c2, c3,
    onesOf c (sigsOf tb lo hi) (segsOf tb lo hi), ?_, ?_, hsame⟩
  · intro i hi' b hb
    simp only [Option.mem_def] at hb
    have he := onesOf_get c _ _ i b hb
    have : layBars c [b] = b.evs := by simp [layBars, shiftEvs_nil]
    rw [this, he]
    apply congrArg (extract c.ppqn)
    simp only [segsOf, List.map_map]
    apply List.map_congr_left
    intro bs hbs
    exact (seg_at lo hi i bs hi' (hhi bs hbs)).symm
  · rw [onesOf_length]
    simp only [sigsOf, List.length_map]
    exact slice_length lo hi _ hhead

/-- **`extract_wholebars_statement` with the missing hypotheses** (the statement of Props/C03c verbatim, plus: a
    positive resolution, positive signatures on the meta track, no zero-length notes, one channel per track). -/
theorem extract_wholebars_nozero :
    ∀ (c : Cfg) (values : List Int) (tracks : List (List Msg)) (tb : List (List Bar)),
      0 < c.ppqn → SigsPos c tracks → (∀ t ∈ tracks, NoZeroNotes t ∧ ∃ ch, ∀ m ∈ t, m.ch = ch) →
      (∀ t ∈ tracks, OkRel t ∧ WF (eventsRel t)) →
      splitBars c.ppqn values tracks 0 false = .ok tb → tb.length = c.numTracks →
      ∀ (lo hi : Nat) (C : Int), lo < hi → (∀ bs ∈ tb, hi ≤ bs.length) →
        ∃ bars : List BarEv,
          extract c.ppqn (tb.map (fun bs => barsToSeq ((bs.drop lo).take (hi - lo)))) = layBars c bars
            ∧ BarsOk c C bars
            ∧ bars.map (fun b => (b.num, b.den)) = (((tb.headD []).drop lo).take (hi - lo)).map (fun b => (b.num, b.den))
            ∧ ∃ one : List BarEv,
                (∀ i, i < hi - lo → ∀ b ∈ one[i]?,
                    extract c.ppqn (tb.map (fun bs => barsToSeq ((bs.drop (lo + i)).take 1))) = layBars c [b])
                ∧ one.length = hi - lo ∧ SameNotes c bars one := by
  intro c values tracks tb hp hs hz hok h hn lo hi C hlo hhi
  exact extract_wholebars_full c (Int.le_of_lt hp) values tracks tb hs
    (fun t ht => ⟨(hok t ht).1, wf_of_events t (hok t ht).2, (hz t ht).1, (hz t ht).2⟩) h hn lo hi C hlo hhi

/-- all hypotheses of `extract_wholebars_nozero` hold of the example (two tracks, 4/4 4/4 6/8, a note crossing the
    first bar line), for the whole piece and a running bar length that is not the first bar's -/
example : ∃ bars one : List BarEv,
    extract 24 (gBars.map (fun bs => barsToSeq ((bs.drop 0).take (3 - 0)))) = layBars C03c.exCfg bars ∧ BarsOk C03c.exCfg 7 bars
      ∧ one.length = 3 ∧ SameNotes C03c.exCfg bars one := by
  obtain ⟨bars, h1, h2, _, one, _, h5, h6⟩ := extract_wholebars_nozero C03c.exCfg [] [gTrack0, gTrack1] gBars (by decide) (by decide)
    (fun t ht => ⟨(gTracks_in t ht).2.2.1, (gTracks_in t ht).2.2.2⟩)
    (fun t ht => ⟨(gTracks_in t ht).1, E2E.wf_events t (gTracks_in t ht).2.1⟩)
    gBars_eq (by decide +kernel) 0 3 7 (by omega) (by decide +kernel)
  exact ⟨bars, one, h1, h2, h5, h6⟩

/-! ## which hypotheses are needed -/

/-- `SigsPos` already says that the resolution is positive (so `0 < c.ppqn` in `extract_wholebars_nozero` is redundant) -/
theorem sigsPos_ppqn (c : Cfg) (tracks : List (List Msg)) (h : SigsPos c tracks) : 0 < c.ppqn := by
  have := h.1
  unfold Cfg.capacity at this
  omega

/-- a silent one-track piece whose only message is the signature 0/4 -/
def silentTracks : List (List Msg) := [[Msg.mkTimeSig 0 0 4 pyNone]]
def silentBars : List (List Bar) := [[{ seq := [Msg.mkTimeSig 0 0 4 pyNone], num := 0, den := 4, key := pyNone }]]

/-- **`SigsPos` is needed**: the statement with every other hypothesis of `extract_wholebars_nozero` is false — a
    silent piece with the signature 0/4 is split into one bar of length 0 (by the implementation too), which is not a
    well-formed bar. -/
theorem nozero_needs_sigsPos :
    ¬ (∀ (c : Cfg) (values : List Int) (tracks : List (List Msg)) (tb : List (List Bar)),
        0 < c.ppqn → (∀ t ∈ tracks, NoZeroNotes t ∧ ∃ ch, ∀ m ∈ t, m.ch = ch) → (∀ t ∈ tracks, OkRel t ∧ WF (eventsRel t)) →
        splitBars c.ppqn values tracks 0 false = .ok tb → tb.length = c.numTracks →
        ∀ (lo hi : Nat) (C : Int), lo < hi → (∀ bs ∈ tb, hi ≤ bs.length) →
          ∃ bars : List BarEv, BarsOk c C bars
            ∧ bars.map (fun b => (b.num, b.den)) = (((tb.headD []).drop lo).take (hi - lo)).map (fun b => (b.num, b.den))) := by
  intro hst
  have hsb : splitBars zCfg.ppqn [] silentTracks 0 false = .ok silentBars := by
    have h : (splitBars zCfg.ppqn [] silentTracks 0 false).toOption = some silentBars := by decide +kernel
    cases hs : splitBars zCfg.ppqn [] silentTracks 0 false with
    | ok v => rw [hs] at h; simp only [Except.toOption, Option.some.injEq] at h; rw [h]
    | error e => rw [hs] at h; simp [Except.toOption] at h
  obtain ⟨bars, hok, hsig⟩ := hst zCfg [] silentTracks silentBars (by decide)
    (by
      intro t ht
      simp only [silentTracks, List.mem_singleton] at ht
      subst ht
      exact ⟨noZero_of_keys _ (by decide), 0, by decide⟩)
    (by
      intro t ht
      simp only [silentTracks, List.mem_singleton] at ht
      subst ht
      exact ⟨by decide, by decide⟩)
    hsb rfl 0 1 0 (by omega) (by decide)
  match bars, hsig, hok with
  | [b], hsig, hok =>
    have : b.num = 0 := by
      simp [silentBars] at hsig
      exact hsig.1
    have h1 := hok.1.numPos
    omega
  | [], hsig, _ => simp [silentBars] at hsig
  | _ :: _ :: _, hsig, _ => simp [silentBars] at hsig

end SCoda.C03f
