/-
  "The source is not changed by the call" (C08 split, C09 bar splitting, C16 copies) — purity typing.
  `Gen.purityFns` (regenerated from /repo on every run) describes, for RelativeSequence.split,
  Sequence.split, Sequence.sequences_split_bars and the six copy methods, every assignment and every
  *write site* (attribute store, subscript store, `del`, call of a method that modifies its receiver),
  with two maybe-shared bits per variable: `x.obj` (x may BE an object that existed before the call) and
  `x.elem` (x may HOLD such objects).  The rules are documented in tools/gen_lean.py (gen_purity_facts):
  deep copies are clean, shallow copies are new containers of the same elements, taking an element out
  or calling a method gives something as shared as its receiver and arguments, constructors build new
  objects holding their arguments.  The certificate is re-checked here (`purity_cert_closed`);
  `routes_write_nothing_shared` says that under it the receiver of every write site is an object
  allocated during the call: the routes modify nothing that existed before.
  (Filling a view cache through the `abs` / `rel` properties is not a write site: it changes no content.)
  Trusted: the typing rules as a description of Python aliasing, the list of modifying method names, and
  the translator's parse.  The same is observed on the real objects by the `pure` / `inputs` clauses of the
  C08 / C09 oracles and by C16's snapshot harness.
-/
import SCoda.Gen.PurityFacts
import SCoda.Props.C11c
set_option maxRecDepth 100000
namespace SCoda.Purity
open SCoda.Gen SCoda.C11

def closedAssigns (fn : TaintFn) : Bool :=
  fn.assigns.all (fun a => !infoTainted fn.cert [] a.2 || fn.cert.contains a.1)

/-- the certificate is a solution of the sharing rules -/
theorem purity_cert_closed : purityFns.all closedAssigns = true := by decide +kernel

/-- **no write site of the split / copy routes acts on an object that existed before the call** -/
theorem routes_write_nothing_shared : purityFns.all (sinksClean []) = true := by decide +kernel

/-- all nine routes are analysed, and the analysis sees write sites and shared values (not vacuous) -/
theorem purity_routes_seen :
    purityRoutes = ["RelativeSequence.split", "Sequence.split", "Sequence.sequences_split_bars", "Sequence.copy",
      "AbstractSequence.copy", "Message.copy", "Bar.copy", "Track.copy", "Composition.copy"]
    ∧ 10 ≤ (purityFns.map (fun f => f.sinks.length)).foldl (· + ·) 0
    ∧ 10 ≤ (purityFns.map (fun f => f.cert.length)).foldl (· + ·) 0 := by decide +kernel

end SCoda.Purity
