/-
  Audit round 3, item R6: `StaticTie.sequencesSplitBars_eq` asked `AbsCoherent` of the meta sequence — the fresh absolute
  view is *literally* `toAbs` of the relative view.  A sequence built with `add_absolute_message` keeps same-tick messages
  in insertion order, `toAbs` orders them by the sort key, so reachable wrapper states were excluded.  Here the hypothesis
  is weakened to what the function reads (`R6L.AbsCoherentSigs`: the time-signature events and the key-signature events of
  the fresh absolute view are those of `toAbs` of the relative view, in the same order), the equality is re-proved under
  it, and the remaining case is recorded as a false statement with the audit's witness.
-/
import SCoda.Lemmas.R6L
import SCoda.Props.StaticTie
import SCoda.Props.C04c
import SCoda.Props.C04
import SCoda.Lemmas.Equals
namespace SCoda.StaticTie2
open SCoda SCoda.WrapTie SCoda.StaticTieL SCoda.SB SCoda.ElemTie SCoda.R6L

/-- **`Sequence.sequences_split_bars` as translated from sequence.py is the hand model `splitBars` on the relative views of
    the inputs, for every wrapper state of the meta sequence whose signature events are coherent**: same exception, or the
    same bars track by track (`GBar.toBar`).  As `StaticTie.sequencesSplitBars_eq`, with `hmeta` weakened from `AbsCoherent`
    (literal equality of the fresh absolute view with `toAbs` of the relative view) to `AbsCoherentSigs`: only the
    `(time, numerator, denominator, key)` of the TIME_SIGNATURE messages and of the KEY_SIGNATURE messages, each kind in list
    order, must agree — notes, control changes, channels, and the position of a signature among the other messages of its tick
    are free (the function reads the two queues through `get_message_times_of_type` on the fresh absolute view of a *copy*
    and everything else through the relative view).  `hread`, `hsig`, `hp` as before.  A meta sequence whose absolute view is
    stale, or whose same-tick signature messages of a kind were inserted in sort-key order, satisfies `hmeta`.
    Closes audit round 3 item R6 (a). -/
theorem sequencesSplitBars_eq (e : Env) (seqs : List Seq) (mi : Nat) (rq : Bool) (hp : 0 ≤ e.ppqn)
    (hread : ∀ s ∈ seqs, Readable s)
    (hmeta : ∀ s, seqs[mi]? = some s → AbsCoherentSigs s)
    (hsig : ∀ s p, seqs[mi]? = some s → s.readRel = .ok p → ∀ m ∈ p.2, m.ty = .timeSignature → 0 ≤ m.num ∧ 0 < m.den) :
    (fun tb => tb.map (·.map GBar.toBar)) <$> Gen.Static.sequencesSplitBars e seqs mi rq =
      (do let rels ← readRels seqs
          splitBars e.ppqn e.defValues rels mi rq) := by
  obtain ⟨rels, hr1, hr2⟩ := readRels_copy seqs hread
  rw [hr1]
  simp only [ok_bind]
  unfold Gen.Static.sequencesSplitBars
  simp only [mapM_copy, ok_bind]
  obtain ⟨hsome, hnone⟩ := readRels_getElem _ _ mi hr1
  cases hs : seqs[mi]? with
  | none =>
    have h1 : pyGetNat (seqs.map Seq.copy) mi = .error .indexError := pyGetNat_none (by simp [hs])
    have h2 := hnone hs
    simp [h1, splitBars, h2]
  | some s =>
    obtain ⟨r, hrm, hrs⟩ := hsome s hs
    have h1 : pyGetNat (seqs.map Seq.copy) mi = .ok s.copy := pyGetNat_some (by simp [hs])
    cases hp' : s.readRel with
    | error er => rw [hp'] at hrs; cases hrs
    | ok p =>
      rw [hp'] at hrs
      simp only [map_ok, Except.ok.injEq] at hrs
      obtain ⟨c', a, hc1, hc2, hc3, hts0, hks0⟩ := copy_readAbs_sigs s (hread s (List.mem_of_getElem? hs)) (hmeta s hs) p hp'
      rw [hrs] at hc3 hts0 hks0
      have hi : mi < (seqs.map Seq.copy).length := by
        have := List.getElem?_eq_some_iff.mp hs
        obtain ⟨h, _⟩ := this
        simpa using h
      have hr3 : readRels ((seqs.map Seq.copy).set mi c') = .ok rels := readRels_set _ _ _ _ _ hr2 hrm hc3
      have hg2 : pyGetNat ((seqs.map Seq.copy).set mi c') mi = .ok c' := pyGetNat_some (by have h' := hi; simp only [List.length_map] at h'; simp [h'])
      have hi2 : mi < ((seqs.map Seq.copy).set mi c').length := by simpa using hi
      simp only [h1, ok_bind, getMessageTimesOfType_eq, hc1, hc2, pure_eq, pySetNat_lt _ _ _ hi, pySetNat_lt _ _ _ hi2, hg2, List.set_set,
        loop1_fun, filter_ty, whileG_shape, splitBarsFuel_eq _ _ hr3]
      rw [SB.splitBars_eq e.ppqn e.defValues rels mi rq r hrm]
      have hlen : ((seqs.map Seq.copy).set mi c').length = rels.length := by
        have := mapM_ok_length _ _ _ hr3
        omega
      have hb0 : (((seqs.map Seq.copy).set mi c').map (fun _ => ([] : List GBar))).map (·.map GBar.toBar) =
          (rels.map (fun _ => ([] : List Bar))).map List.reverse := by
        simp only [List.map_map, Function.comp_def, List.map_nil, List.reverse_nil]
        rw [List.map_const', List.map_const', hlen]
      have hks := AscT_qOf _ (TimeAsc_of_sigs _ _ _ hks0 (timesOfType_toAbs_asc .keySignature (by decide) r))
      have hqk := QRel_of_sigs _ _ _ hks0
      have hlts := length_of_sigs _ _ _ hts0
      by_cases hemp : (timesOfType .timeSignature (toAbs r)).length = 0
      · have h0 : timesOfType .timeSignature (toAbs r) = [] := List.length_eq_zero_iff.mp hemp
        have h0a : timesOfType .timeSignature a = [] := List.length_eq_zero_iff.mp (by omega)
        have hinit : initTs r = [Msg.mkTimeSig 0 4 4 0] := by simp [initTs, h0]
        simp only [h0a, qOf, List.map_nil, List.length_nil, Int.natCast_zero, decide_true, if_true]
        have := while_eq e rq hp (fuelOf rels) ((seqs.map Seq.copy).set mi c') _
          { tsQ := initTs r, ksQ := timesOfType .keySignature (toAbs r), tracks := rels, bars := rels.map (fun _ => []) }
          [(0, { ty := MType.timeSignature, num := 4, den := 4 })] (qOf (timesOfType .keySignature a))
          hr3 hb0 (by simp) (by simp [AscT]) hks (by rw [hinit]; rfl) hqk (by rw [hinit]; simp [Msg.mkTimeSig]) (by show (0:Int) ≤ 4; decide) (by show (0:Int) < 4; decide)
        exact this
      · have hinit : initTs r = timesOfType .timeSignature (toAbs r) := by simp [initTs, hemp]
        have hne : ¬ (((qOf (timesOfType .timeSignature a)).length : Int) = 0) := by
          simp only [qOf, List.length_map]; omega
        simp only [hne, decide_false, Bool.false_eq_true, if_false]
        have := while_eq e rq hp (fuelOf rels) ((seqs.map Seq.copy).set mi c') _
          { tsQ := initTs r, ksQ := timesOfType .keySignature (toAbs r), tracks := rels, bars := rels.map (fun _ => []) }
          (qOf (timesOfType .timeSignature a)) (qOf (timesOfType .keySignature a))
          hr3 hb0 (by simp)
          (AscT_qOf _ (TimeAsc_of_sigs _ _ _ hts0 (timesOfType_toAbs_asc .timeSignature (by decide) r))) hks
          (by rw [hinit]; exact QRel_of_sigs _ _ _ hts0) hqk
          (by rw [hinit]; exact timesOfType_toAbs_sig r (by rw [← hrs]; exact hsig s p hs hp')) (by show (0:Int) ≤ 4; decide) (by show (0:Int) < 4; decide)
        exact this

/-- the hypothesis of the old theorem implies the new one: `StaticTie.sequencesSplitBars_eq` is a special case -/
theorem absCoherentSigs_of_absCoherent (s : Seq) (h : AbsCoherent s) : AbsCoherentSigs s := AbsCoherentSigs_of_AbsCoherent s h

/-- inputs whose meta sequence has a stale absolute view (given by their relative view, or last changed through it): no
    hypothesis on the wrapper state beyond readability is left -/
theorem sequencesSplitBars_absStale (e : Env) (seqs : List Seq) (mi : Nat) (rq : Bool) (hp : 0 ≤ e.ppqn)
    (hread : ∀ s ∈ seqs, Readable s) (hmeta : ∀ s, seqs[mi]? = some s → s.absStale = true)
    (hsig : ∀ s p, seqs[mi]? = some s → s.readRel = .ok p → ∀ m ∈ p.2, m.ty = .timeSignature → 0 ≤ m.num ∧ 0 < m.den) :
    (fun tb => tb.map (·.map GBar.toBar)) <$> Gen.Static.sequencesSplitBars e seqs mi rq =
      (do let rels ← readRels seqs
          splitBars e.ppqn e.defValues rels mi rq) :=
  sequencesSplitBars_eq e seqs mi rq hp hread (fun s hs => AbsCoherentSigs_of_absStale s (hmeta s hs)) hsig

/-! ### non-vacuity: a state that `AbsCoherent` excludes and `AbsCoherentSigs` admits

  A meta sequence built through the absolute view: `add_absolute_message(NOTE_ON 60 ch1 @0)`, then
  `add_absolute_message(TIME_SIGNATURE 3/4 ch0 @0)`, `(KEY_SIGNATURE D @0)`, `(NOTE_OFF 60 ch1 @100)`, `(NOTE_ON 62 ch0 @100)`, `(NOTE_OFF 62 ch0 @120)`:
  `binary_insort` keeps the insertion order within tick 0 (note-on first), `toAbs` of the relative view puts the key
  signature and the time signature first.  One signature of each kind: their order is the same. -/
def exAbs : List Msg :=
  [Msg.mkOn 1 60 90 0, Msg.mkTimeSig 0 3 4 0, { ty := .keySignature, ch := 0, time := 0, key := 2 }, Msg.mkOff 1 60 100,
   Msg.mkOn 0 62 80 100, Msg.mkOff 0 62 120]
def exSeq : Seq := { abs := exAbs, absStale := false, relStale := true }
def exOther : List Msg := [Msg.mkOn 1 64 80 pyNone, Msg.mkWait 1 30, Msg.mkOff 1 64 pyNone]

/-- the example is built by `add_absolute_message` (the wrapper model's `addAbsMsg`) in the order given above -/
example : (do let s ← Seq.new.addAbsMsg (Msg.mkOn 1 60 90 0)
              let s ← s.addAbsMsg (Msg.mkTimeSig 0 3 4 0)
              let s ← s.addAbsMsg { ty := .keySignature, ch := 0, time := 0, key := 2 }
              let s ← s.addAbsMsg (Msg.mkOff 1 60 100)
              let s ← s.addAbsMsg (Msg.mkOn 0 62 80 100)
              s.addAbsMsg (Msg.mkOff 0 62 120)) = .ok exSeq := by decide +kernel

example : ¬ AbsCoherent exSeq := by
  intro h
  have := h rfl _ rfl
  revert this
  decide +kernel

example : AbsCoherentSigs exSeq := by decide +kernel

/-- all hypotheses of `sequencesSplitBars_eq` hold of `[exSeq, Seq.ofRel exOther]`, meta index 0 -/
example : (0 ≤ genEnv.ppqn) ∧ (∀ s ∈ [exSeq, Seq.ofRel exOther], Readable s) ∧
    (∀ s, [exSeq, Seq.ofRel exOther][0]? = some s → AbsCoherentSigs s) ∧
    (∀ s p, [exSeq, Seq.ofRel exOther][0]? = some s → s.readRel = .ok p → ∀ m ∈ p.2, m.ty = .timeSignature → 0 ≤ m.num ∧ 0 < m.den) := by
  refine ⟨by decide, ?_, ?_, ?_⟩
  · intro s hs
    simp only [List.mem_cons, List.mem_nil_iff, or_false] at hs
    rcases hs with rfl | rfl <;> simp [Readable, exSeq, Seq.ofRel]
  · intro s hs
    simp only [List.getElem?_cons_zero, Option.some.injEq] at hs
    subst hs
    decide +kernel
  · intro s p hs hp
    simp only [List.getElem?_cons_zero, Option.some.injEq] at hs
    subst hs
    have : p = ({ exSeq with rel := toRel exAbs, relStale := false }, toRel exAbs) := by
      have h2 : exSeq.readRel = .ok ({ exSeq with rel := toRel exAbs, relStale := false }, toRel exAbs) := rfl
      rw [h2] at hp; injection hp with hp; exact hp.symm
    subst this
    decide +kernel

set_option maxRecDepth 100000 in
/-- … and the conclusion, evaluated by the kernel: three 3/4 bars in D on both tracks, on both sides -/
example : (fun tb => tb.map (·.map GBar.toBar)) <$> Gen.Static.sequencesSplitBars genEnv [exSeq, Seq.ofRel exOther] 0 true
    = splitBars genEnv.ppqn genEnv.defValues [toRel exAbs, exOther] 0 true := by decide +kernel

set_option maxRecDepth 100000 in
example : ((fun tb => tb.map (·.map (fun (b : Bar) => (b.num, b.den, b.key, totalWait b.seq)))) <$>
      splitBars genEnv.ppqn genEnv.defValues [toRel exAbs, exOther] 0 true)
    = .ok [[(3, 4, 2, 72), (3, 4, 2, 72)], [(3, 4, 2, 72), (3, 4, 2, 72)]] := by decide +kernel

/-! ### R6 (b): without a hypothesis on the order of same-tick signatures the equality is false -/

/-- the equality for **every** input inside C04's wrapper invariant (`C04c.Inv`: not both views stale, fresh views legal, two
    fresh views describe the same timed events up to the order of simultaneous events and the same duration), with the
    numeric hypotheses of the theorem kept and nothing asked of the order of simultaneous signatures -/
def sequencesSplitBars_eq_statement : Prop :=
  ∀ (e : Env) (seqs : List Seq) (mi : Nat) (rq : Bool), 0 ≤ e.ppqn →
    (∀ s ∈ seqs, C04c.Inv s) →
    (∀ s p, seqs[mi]? = some s → s.readRel = .ok p → ∀ m ∈ p.2, m.ty = .timeSignature → 0 ≤ m.num ∧ 0 < m.den) →
    (fun tb => tb.map (·.map GBar.toBar)) <$> Gen.Static.sequencesSplitBars e seqs mi rq =
      (do let rels ← readRels seqs
          splitBars e.ppqn e.defValues rels mi rq)

/-- the audit's witness: a meta sequence built by `add_absolute_message(KEY_SIGNATURE G ch1 @0)`, then
    `(KEY_SIGNATURE D ch0 @0)`, `(NOTE_ON 60 ch0 @0)`, `(NOTE_OFF 60 ch0 @288)`: two key signatures at one tick, inserted
    against the sort-key order (channel 1 before channel 0) -/
def witAbs : List Msg :=
  [{ ty := .keySignature, ch := 1, time := 0, key := 1 }, { ty := .keySignature, ch := 0, time := 0, key := 2 },
   Msg.mkOn 0 60 90 0, Msg.mkOff 0 60 288]
def witSeq : Seq := { abs := witAbs, absStale := false, relStale := true }

/-- the witness is what `add_absolute_message` builds from an empty sequence in that order -/
theorem witSeq_built :
    (do let s ← Seq.new.addAbsMsg { ty := .keySignature, ch := 1, time := 0, key := 1 }
        let s ← s.addAbsMsg { ty := .keySignature, ch := 0, time := 0, key := 2 }
        let s ← s.addAbsMsg (Msg.mkOn 0 60 90 0)
        s.addAbsMsg (Msg.mkOff 0 60 288)) = .ok witSeq := by decide +kernel

/-- the witness satisfies C04's invariant -/
theorem witSeq_inv : C04c.Inv witSeq := by
  refine ⟨by simp [witSeq], fun _ => ?_, by simp [witSeq], by simp [witSeq], by simp [witSeq]⟩
  refine ⟨?_, ?_, ?_⟩
  · simp [witSeq, witAbs, TimeSorted, Msg.mkOn, Msg.mkOff]
  · intro m hm; revert m; decide
  · intro m hm; revert m; decide

set_option maxRecDepth 100000 in
/-- the translated `sequences_split_bars` (= the real code, replayed) gives the three bars the keys G, D, D … -/
theorem wit_generated :
    (fun tb => tb.map (·.map (fun g => (GBar.toBar g).key))) <$> Gen.Static.sequencesSplitBars genEnv [witSeq] 0 false
      = .ok [[1, 2, 2]] := by decide +kernel

set_option maxRecDepth 100000 in
/-- … the model `splitBars` on the relative view (= the real code on `Sequence(relative_sequence=…)` of the same content)
    gives D, G, G -/
theorem wit_model :
    (fun tb => tb.map (·.map (fun (b : Bar) => b.key))) <$>
      (do let rels ← readRels [witSeq]
          splitBars genEnv.ppqn genEnv.defValues rels 0 false)
      = .ok [[2, 1, 1]] := by decide +kernel

/-- **R6 (b): `sequences_split_bars` is NOT a function of the relative views of its inputs.**  For the witness (two key
    signatures at tick 0 inserted through the absolute view against the sort-key order, a note of 288 ticks) the translated
    function — and the real code, replayed with /venv/bin/python: bar keys `[G, D, D]` — reads the key signatures in insertion
    order, the model `splitBars` — and the real code on `Sequence(relative_sequence=…)` holding the same messages: `[D, G, G]`
    — in sort-key order.  The witness is inside C04's invariant and violates only `AbsCoherentSigs`.  A genuine dependence
    of the real function on the wrapper state, not a model artefact.  It lies in the class of known finding **D23** (two
    changes of one kind due at one bar start: only the first is applied to that bar, the second one bar late — which of the
    two is "first" is what differs here).  Closes audit round 3 item R6 (b). -/
theorem sequencesSplitBars_eq_statement_false : ¬ sequencesSplitBars_eq_statement := by
  intro h
  have h1 := h genEnv [witSeq] 0 false (by decide)
    (by intro s hs; simp only [List.mem_cons, List.mem_nil_iff, or_false] at hs; subst hs; exact witSeq_inv)
    (by intro s p hs hp
        simp only [List.getElem?_cons_zero, Option.some.injEq] at hs
        subst hs
        have h2 : witSeq.readRel = .ok ({ witSeq with rel := toRel witAbs, relStale := false }, toRel witAbs) := rfl
        rw [h2] at hp; injection hp with hp; subst hp
        decide +kernel)
  have h2 := congrArg (fun x => (fun (tb : List (List Bar)) => tb.map (·.map (fun (b : Bar) => b.key))) <$> x) h1
  rw [wit_model] at h2
  have h3 := wit_generated
  cases hg : Gen.Static.sequencesSplitBars genEnv [witSeq] 0 false with
  | error x => rw [hg] at h3; cases h3
  | ok tb =>
    rw [hg] at h2 h3
    simp only [map_ok, Except.ok.injEq, List.map_map, Function.comp_def] at h2 h3
    rw [h3] at h2
    revert h2; decide

/-- the witness fails exactly the weakened hypothesis … -/
theorem witSeq_not_coherentSigs : ¬ AbsCoherentSigs witSeq := by decide +kernel
/-- … in its key-signature half only (there is no time signature) -/
example : sigsOf .keySignature witSeq.abs = [(0, -1, -1, 1), (0, -1, -1, 2)] ∧
    sigsOf .keySignature (toAbs (toRel witSeq.abs)) = [(0, -1, -1, 2), (0, -1, -1, 1)] := by decide +kernel

/-! ### an input-level sufficient condition: same-tick signatures inserted in sort-key order -/

/-- the signatures of each kind appear in the absolute view in the order of the sort key `(time, channel, type, note)` —
    e.g. at most one signature of a kind per tick, or same-tick signatures inserted with ascending channel.  The
    complement of the audit's witness ("inserted against the key order"). -/
def SigsInKeyOrder (a : List Msg) : Prop :=
  (timesOfType .timeSignature a).Pairwise (fun x y => keyLe x y = true) ∧
  (timesOfType .keySignature a).Pairwise (fun x y => keyLe x y = true)

instance (a : List Msg) : Decidable (SigsInKeyOrder a) := by unfold SigsInKeyOrder; infer_instance

theorem timesOfType_toAbs_toRel (ty : MType) (hty : ty ≠ .internal) (a : List Msg) (hok : OkAbs a)
    (h : (timesOfType ty a).Pairwise (fun x y => keyLe x y = true)) :
    timesOfType ty (toAbs (toRel a)) = timesOfType ty a := by
  have hev : (eventsAbs a).filter (·.ty == ty) = a.filter (·.ty == ty) := by
    unfold eventsAbs
    rw [List.filter_filter]
    congr 1
    funext m
    by_cases hm : m.ty = ty
    · simp [hm, hty]
    · simp [hm]
  unfold timesOfType at h ⊢
  rw [toAbs_eq]
  split
  · rw [sortAbs, EQ.filter_isort, C04.toRel_events a hok, hev, EQ.isort_of_pairwise _ _ h]
  · rw [filter_insort _ _ _ (by simp [Msg.mkInternal]; exact fun h' => hty h'.symm)]
    rw [sortAbs, EQ.filter_isort, C04.toRel_events a hok, hev, EQ.isort_of_pairwise _ _ h]

/-- **a sequence built through its absolute view alone (`add_absolute_message`, `overwrite_absolute_messages`, a loaded file:
    relative view stale) whose signatures are in key order satisfies `AbsCoherentSigs`** — so for such a meta sequence
    `sequencesSplitBars_eq` needs nothing but the decidable, input-level `SigsInKeyOrder` of its legal absolute view -/
theorem absCoherentSigs_of_keyOrder (s : Seq) (hr : s.relStale = true) (hok : OkAbs s.abs) (h : SigsInKeyOrder s.abs) :
    AbsCoherentSigs s := by
  intro hs p hp
  obtain ⟨a, r, sa, sr⟩ := s
  simp only at hr hs hok h
  subst hr hs
  simp only [Seq.readRel, if_true, Bool.false_eq_true, if_false, Except.ok.injEq] at hp
  subst hp
  simp only [sigsOf]
  rw [timesOfType_toAbs_toRel .timeSignature (by decide) a hok h.1, timesOfType_toAbs_toRel .keySignature (by decide) a hok h.2]
  exact ⟨rfl, rfl⟩

example : exSeq.relStale = true ∧ OkAbs exSeq.abs ∧ SigsInKeyOrder exSeq.abs := by
  refine ⟨rfl, ⟨?_, ?_, ?_⟩, by decide⟩
  · simp [exSeq, exAbs, TimeSorted, Msg.mkOn, Msg.mkOff, Msg.mkTimeSig]
  · intro m hm; revert m; decide
  · intro m hm; revert m; decide
/-- the witness is legal and fails only this: its two key signatures at tick 0 are against the key order -/
example : OkAbs witSeq.abs ∧ ¬ SigsInKeyOrder witSeq.abs := ⟨witSeq_inv.absOk rfl, by decide⟩

/-! ### the two companions of the equality, under the weakened hypothesis -/

/-- the link `View.seq_split_bars` used by the element-layer translation (`Composition.from_sequences`) is the translated
    function up to the stale absolute view of every bar's sequence — `StaticTie.seq_split_bars_link` with `AbsCoherentSigs` -/
theorem seq_split_bars_link (e : Env) (seqs : List Seq) (mi : Nat) (rq : Bool) (hp : 0 ≤ e.ppqn)
    (hread : ∀ s ∈ seqs, Readable s) (hmeta : ∀ s, seqs[mi]? = some s → AbsCoherentSigs s)
    (hsig : ∀ s p, seqs[mi]? = some s → s.readRel = .ok p → ∀ m ∈ p.2, m.ty = .timeSignature → 0 ≤ m.num ∧ 0 < m.den) :
    View.seq_split_bars e seqs mi rq =
      (fun tb => tb.map (·.map (fun g => GBar.ofBar g.toBar))) <$> Gen.Static.sequencesSplitBars e seqs mi rq := by
  have h := sequencesSplitBars_eq e seqs mi rq hp hread hmeta hsig
  have hv : View.seq_split_bars e seqs mi rq =
      (readRels seqs >>= fun rels => (fun (tb : List (List Bar)) => tb.map (fun bs => bs.map GBar.ofBar)) <$> splitBars e.ppqn e.defValues rels mi rq) := by
    unfold View.seq_split_bars readRels
    cases List.mapM (fun x : Seq => (·.2) <$> x.readRel) seqs with
    | error x => rfl
    | ok rels => simp only [ok_bind]; cases splitBars e.ppqn e.defValues rels mi rq <;> rfl
  rw [hv]
  cases hg : Gen.Static.sequencesSplitBars e seqs mi rq with
  | error er =>
    rw [hg] at h
    simp only [map_error] at h ⊢
    cases hr : readRels seqs with
    | error x => rw [hr] at h; simp only [error_bind] at h ⊢; injection h with h; rw [h]
    | ok rels => rw [hr] at h; simp only [ok_bind] at h ⊢; rw [← h]; rfl
  | ok tb =>
    rw [hg] at h
    simp only [map_ok] at h ⊢
    cases hr : readRels seqs with
    | error x => rw [hr] at h; cases h
    | ok rels =>
      rw [hr] at h; simp only [ok_bind] at h ⊢; rw [← h]
      simp [List.map_map, Function.comp_def]

/-- every bar the translated `sequences_split_bars` returns is in the state `Bar.__init__` leaves it in (relative view
    fresh, absolute view stale) — `StaticTie.sequencesSplitBars_constructed` with `AbsCoherentSigs` -/
theorem sequencesSplitBars_constructed (e : Env) (seqs : List Seq) (mi : Nat) (rq : Bool) (hp : 0 ≤ e.ppqn)
    (hread : ∀ s ∈ seqs, Readable s)
    (hmeta : ∀ s, seqs[mi]? = some s → AbsCoherentSigs s)
    (hsig : ∀ s p, seqs[mi]? = some s → s.readRel = .ok p → ∀ m ∈ p.2, m.ty = .timeSignature → 0 ≤ m.num ∧ 0 < m.den)
    (tb : List (List GBar)) (h : Gen.Static.sequencesSplitBars e seqs mi rq = .ok tb) :
    ∀ bars ∈ tb, ∀ g ∈ bars, g.sequence.absStale = true ∧ g.sequence.relStale = false := by
  obtain ⟨rels, hr1, hr2⟩ := readRels_copy seqs hread
  unfold Gen.Static.sequencesSplitBars at h
  simp only [mapM_copy, ok_bind] at h
  obtain ⟨hsome, hnone⟩ := readRels_getElem _ _ mi hr1
  cases hs : seqs[mi]? with
  | none =>
    have h1 : pyGetNat (seqs.map Seq.copy) mi = .error .indexError := pyGetNat_none (by simp [hs])
    rw [h1] at h
    cases h
  | some s =>
    obtain ⟨r, hrm, hrs⟩ := hsome s hs
    have h1 : pyGetNat (seqs.map Seq.copy) mi = .ok s.copy := pyGetNat_some (by simp [hs])
    cases hp' : s.readRel with
    | error er => rw [hp'] at hrs; cases hrs
    | ok p =>
      rw [hp'] at hrs
      simp only [map_ok, Except.ok.injEq] at hrs
      obtain ⟨c', a, hc1, hc2, hc3, hts0, hks0⟩ := copy_readAbs_sigs s (hread s (List.mem_of_getElem? hs)) (hmeta s hs) p hp'
      rw [hrs] at hc3 hts0 hks0
      have hi : mi < (seqs.map Seq.copy).length := by
        have := List.getElem?_eq_some_iff.mp hs
        obtain ⟨h, _⟩ := this
        simpa using h
      have hr3 : readRels ((seqs.map Seq.copy).set mi c') = .ok rels := readRels_set _ _ _ _ _ hr2 hrm hc3
      have hg2 : pyGetNat ((seqs.map Seq.copy).set mi c') mi = .ok c' := pyGetNat_some (by have h' := hi; simp only [List.length_map] at h'; simp [h'])
      have hi2 : mi < ((seqs.map Seq.copy).set mi c').length := by simpa using hi
      simp only [h1, ok_bind, getMessageTimesOfType_eq, hc1, hc2, pure_eq, pySetNat_lt _ _ _ hi, pySetNat_lt _ _ _ hi2, hg2, List.set_set,
        loop1_fun, filter_ty, whileG_shape, splitBarsFuel_eq _ _ hr3] at h
      have hlen : ((seqs.map Seq.copy).set mi c').length = rels.length := by
        have := mapM_ok_length _ _ _ hr3
        omega
      have hb0 : (((seqs.map Seq.copy).set mi c').map (fun _ => ([] : List GBar))).map (·.map GBar.toBar) =
          (rels.map (fun _ => ([] : List Bar))).map List.reverse := by
        simp only [List.map_map, Function.comp_def, List.map_nil, List.reverse_nil]
        rw [List.map_const', List.map_const', hlen]
      have hc0 : AllConstructed (((seqs.map Seq.copy).set mi c').map (fun _ => ([] : List GBar))) := by
        intro bars hb g hg
        simp only [List.mem_map] at hb
        obtain ⟨_, _, rfl⟩ := hb
        cases hg
      have hks := AscT_qOf _ (TimeAsc_of_sigs _ _ _ hks0 (timesOfType_toAbs_asc .keySignature (by decide) r))
      have hqk := QRel_of_sigs _ _ _ hks0
      have hlts := length_of_sigs _ _ _ hts0
      by_cases hemp : (timesOfType .timeSignature (toAbs r)).length = 0
      · have h0 : timesOfType .timeSignature (toAbs r) = [] := List.length_eq_zero_iff.mp hemp
        have h0a : timesOfType .timeSignature a = [] := List.length_eq_zero_iff.mp (by omega)
        have hinit : initTs r = [Msg.mkTimeSig 0 4 4 0] := by simp [initTs, h0]
        simp only [h0a, qOf, List.map_nil, List.length_nil, Int.natCast_zero, decide_true, if_true] at h
        exact while_flags e rq hp (fuelOf rels) ((seqs.map Seq.copy).set mi c') _
          { tsQ := initTs r, ksQ := timesOfType .keySignature (toAbs r), tracks := rels, bars := rels.map (fun _ => []) }
          [(0, { ty := MType.timeSignature, num := 4, den := 4 })] (qOf (timesOfType .keySignature a))
          hr3 hb0 (by simp) (by simp [AscT]) hks (by rw [hinit]; rfl) hqk (by rw [hinit]; simp [Msg.mkTimeSig]) (by show (0:Int) ≤ 4; decide)
          (by show (0:Int) < 4; decide) hc0 tb h
      · have hinit : initTs r = timesOfType .timeSignature (toAbs r) := by simp [initTs, hemp]
        have hne : ¬ (((qOf (timesOfType .timeSignature a)).length : Int) = 0) := by
          simp only [qOf, List.length_map]; omega
        simp only [hne, decide_false, Bool.false_eq_true, if_false] at h
        exact while_flags e rq hp (fuelOf rels) ((seqs.map Seq.copy).set mi c') _
          { tsQ := initTs r, ksQ := timesOfType .keySignature (toAbs r), tracks := rels, bars := rels.map (fun _ => []) }
          (qOf (timesOfType .timeSignature a)) (qOf (timesOfType .keySignature a))
          hr3 hb0 (by simp)
          (AscT_qOf _ (TimeAsc_of_sigs _ _ _ hts0 (timesOfType_toAbs_asc .timeSignature (by decide) r))) hks
          (by rw [hinit]; exact QRel_of_sigs _ _ _ hts0) hqk
          (by rw [hinit]; exact timesOfType_toAbs_sig r (by rw [← hrs]; exact hsig s p hs hp')) (by show (0:Int) ≤ 4; decide)
          (by show (0:Int) < 4; decide) hc0 tb h

end SCoda.StaticTie2
