/-
  The four statements that were still bare `def … : Prop` (neither proved nor refuted), settled:

  1. `C02b.render_vocab_nodup_general_statement`        PROVED   (`render` is injective on all tokens, signs included)
  2. `TokTie.constructDictionary_anyObject_statement`   REFUTED  (second call of `_construct_dictionary`); `_iff`: holds exactly
                                                                 for `_dictionary_size = 0`
  3. `TokTie.detokenise_strings_statement`              REFUTED  (`tsg_04_00`), and the statement for all strings refuted by
                                                                 `rst_+5`; `_partial` for non-negative `ppqn` and non-zero denominators
  4. `TokTie.decode_general_statement`                  PROVED   (no `CfgWF`, and no `CfgNonneg` either)
  5. the points `tokenise_eq` excludes (`ppqn < 0`, denominator 0 in an event), as theorems.
-/
import SCoda.Props.TokTie
import SCoda.Lemmas.DefsL2
import SCoda.Lemmas.DefsL4
set_option linter.unusedSimpArgs false
namespace SCoda.Defs
open SCoda SCoda.TokLib SCoda.Gen.Tok SCoda.TokTieL SCoda.RenderL

/-! ### 1. vocabulary keys, general configurations (audit item A9) -/

/-- A9: `render` is injective on ALL tokens, also those with negative fields (`rst_-5`, `pit_-01`): two different tokens
    never have the same Python text.  (`C02b.render_injective` needs `TokOk` because it goes through the parser.) -/
theorem render_injective_all (t₁ t₂ : Tok) (h : render t₁ = render t₂) : t₁ = t₂ := DefsL.render_inj t₁ t₂ h

example : render (.note (some 0) (-1) (some 4) (some 127)) = "trk_00-pit_-01-val_04-vel_127" := by decide
example : render (.rest (-5)) ≠ render (.rest 5) := fun h => by cases render_injective_all _ _ h

/-- A9: the string keys written by `_construct_dictionary` are pairwise distinct for EVERY configuration with duplicate-free
    step sizes, note values and velocity bins: negative step sizes, pitches or numerators included (`CfgNonneg` is not needed). -/
theorem render_vocab_nodup_general : C02b.render_vocab_nodup_general_statement := by
  intro c h
  have hnd := C02.vocab_nodup c h
  rw [List.Nodup, List.pairwise_map]
  exact List.Pairwise.imp (fun hab e => hab (render_injective_all _ _ e)) hnd

/-- A9: for every configuration, the string keys are duplicate free exactly when the structured construction sequence is. -/
theorem render_vocab_nodup_iff (c : Cfg) : ((vocabSeq c).map render).Nodup ↔ (vocabSeq c).Nodup := by
  constructor
  · exact fun h => List.Nodup.of_map _ h
  · intro hnd
    rw [List.Nodup, List.pairwise_map]
    exact List.Pairwise.imp (fun hab e => hab (render_injective_all _ _ e)) hnd

/-- non-vacuity: a configuration with a negative step size is well formed and not `CfgNonneg`; its keys (replayed on /repo:
    `step_sizes=[-5, 2]` gives the key `rst_-5`, 8 keys, `dictionary_size` 8) -/
example : C02.CfgWF C02b.negCfg ∧ ¬ CfgNonneg C02b.negCfg := ⟨by constructor <;> decide, by decide⟩
example : "rst_-5" ∈ (vocabSeq C02b.negCfg).map render := by decide
example : ((vocabSeq C02b.negCfg).map render).Nodup := render_vocab_nodup_general _ (by constructor <;> decide)

/-! ### 4. `decode` without `CfgWF` -/

/-- `inverse_dictionary[i]` of the translated source is the hand model's `decodeId`, rendered, for EVERY configuration: with
    duplicate keys the overwritten ids are missing from the inverse dictionary, exactly as `decodeId` says. -/
theorem decode_one (o o' : TokObj) (i : Nat) (h0 : o.dictionarySize_ = 0) (hd : o.dictionary = [])
    (h : constructDictionary o = .ok o') :
    pyDictGet o'.inverseDictionary (Int.ofNat i) =
      match decodeId (cfgOf o) i with | some t => .ok (render t) | none => .error .keyError := by
  obtain ⟨hdict, hinv, _⟩ := TokTie.constructDictionary_dictionary o o' h0 hd h
  unfold pyDictGet
  rw [hinv, hdict, show Int.ofNat i = (i : Int) from rfl, DefsL.inverse_get]
  cases decodeId (cfgOf o) i <;> rfl

/-- The generated `decode` is the hand model `decode`, rendered, on the object `_construct_dictionary` builds from a fresh one:
    no hypothesis on the configuration (`decode_eq` assumes `CfgNonneg` and `C02.CfgWF`). -/
theorem decode_eq_all (o o' : TokObj) (ids : List Nat) (h0 : o.dictionarySize_ = 0) (hd : o.dictionary = [])
    (h : constructDictionary o = .ok o') :
    Gen.Tok.decode o' (ids.map Int.ofNat) = decodeSpec (cfgOf o) ids := by
  have hone := fun i => decode_one o o' i h0 hd h
  unfold Gen.Tok.decode decodeSpec SCoda.decode
  induction ids with
  | nil => rfl
  | cons i ids ih =>
    simp only [List.map_cons, mapME, hone i, List.mapM_cons]
    cases decodeId (cfgOf o) i with
    | none => rfl
    | some t =>
      simp only [bind, Except.bind, pure, Except.pure] at ih ⊢
      cases hm : mapME (fun token => pyDictGet o'.inverseDictionary token) (List.map Int.ofNat ids) with
      | error e =>
        rw [hm] at ih
        cases hts' : List.mapM (decodeId (cfgOf o)) ids with
        | none => simp [hts'] at ih ⊢; rw [← ih]
        | some l => simp [hts'] at ih
      | ok l =>
        rw [hm] at ih
        cases hts' : List.mapM (decodeId (cfgOf o)) ids with
        | none => simp [hts'] at ih
        | some l' => simp [hts'] at ih ⊢; exact ih

/-- `TokTie.decode_general_statement` holds: the generated `decode` is the model `decode` without `C02.CfgWF`. -/
theorem decode_general : TokTie.decode_general_statement :=
  fun o o' ids h0 hd h _ => decode_eq_all o o' ids h0 hd h

/-- the generated `encode` is the hand model `encode` for every configuration and every token (`encode_eq` assumes
    `CfgNonneg` and `TokOk`, which it needs only for the injectivity of `render`) -/
theorem encode_eq_all (o o' : TokObj) (ts : List Tok) (h0 : o.dictionarySize_ = 0) (hd : o.dictionary = [])
    (h : constructDictionary o = .ok o') :
    Gen.Tok.encode o' (ts.map render) = encodeSpec (cfgOf o) ts := by
  obtain ⟨hdict, _, _⟩ := TokTie.constructDictionary_dictionary o o' h0 hd h
  have hone : ∀ t, pyDictGet (setAll [] 0 ((vocabSeq (cfgOf o)).map render)) (render t) =
      match encodeTok (cfgOf o) t with | some i => .ok (i : Int) | none => .error .keyError := by
    intro t
    unfold pyDictGet
    rw [DefsL.dict_get]
    cases encodeTok (cfgOf o) t <;> rfl
  unfold Gen.Tok.encode encodeSpec SCoda.encode
  simp only [hdict]
  induction ts with
  | nil => rfl
  | cons t ts ih =>
    simp only [List.map_cons, mapME, hone t, List.mapM_cons]
    cases encodeTok (cfgOf o) t with
    | none => rfl
    | some i =>
      simp only [bind, Except.bind, pure, Except.pure] at ih ⊢
      cases hm : mapME (fun token => pyDictGet (setAll [] 0 (List.map render (vocabSeq (cfgOf o)))) token) (List.map render ts) with
      | error e =>
        rw [hm] at ih
        cases hts' : List.mapM (encodeTok (cfgOf o)) ts with
        | none => simp [hts'] at ih ⊢; rw [← ih]
        | some ids => simp [hts'] at ih
      | ok l =>
        rw [hm] at ih
        cases hts' : List.mapM (encodeTok (cfgOf o)) ts with
        | none => simp [hts'] at ih
        | some ids => simp [hts'] at ih ⊢; exact ih

/-- a configuration outside `CfgWF` and `CfgNonneg`: duplicate step size 2, negative step size -5.
    Since the repair of finding D31 (`__init__` stores `sorted(set(step_sizes))`) such an object is no longer built by `__init__`
    (`dupObj_not_constructed` below: `step_sizes=[2, -5, 2]` is stored as `[-5, 2]`); it is a RAW object state, the one an object
    has after `tk.step_sizes = [-5, 2, 2]` (before the repair: the state `__init__` left for `step_sizes=[2, -5, 2]`).  The theorems
    of this section are about every object state, so they keep covering it. -/
def dupObj : TokObj :=
  { initObj none 1 (60, 60) (some [-5, 2]) (some [4]) [127] (4, 4) true true true true true with stepSizes := [-5, 2, 2] }

/-- through the translated `__init__` the repeated step is removed (the repair of D31): the object state `dupObj` differs from
    what the constructor builds for `step_sizes=[2, -5, 2]` exactly in the repeated 2 -/
theorem dupObj_not_constructed :
    (initObj none 1 (60, 60) (some [2, -5, 2]) (some [4]) [127] (4, 4) true true true true true).stepSizes = [-5, 2] ∧
    dupObj.stepSizes = [-5, 2, 2] ∧
    dupObj = { initObj none 1 (60, 60) (some [2, -5, 2]) (some [4]) [127] (4, 4) true true true true true with
                 stepSizes := [-5, 2, 2] } := by
  refine ⟨by decide, rfl, ?_⟩
  unfold dupObj initObj
  congr 1

/-- non-vacuity: `dupObj` satisfies the hypotheses of `decode_eq_all`, is not `CfgWF` and not `CfgNonneg`; id 5 (the first
    `rst_02`) was overwritten by id 6 (replayed on the unpatched /repo through `__init__`, and on the patched source on the raw
    object `tk.step_sizes = [-5, 2, 2]`, dictionaries emptied, `_construct_dictionary()` called: `decode([5])` raises KeyError,
    `decode([4, 6])` is `['rst_-5', 'rst_02']`, `dictionary_size` 9 with 8 keys) -/
example : dupObj.dictionarySize_ = 0 ∧ dupObj.dictionary = [] ∧ ¬ (cfgOf dupObj).steps.Nodup ∧ ¬ CfgNonneg (cfgOf dupObj) := by
  decide
example : SCoda.decode (cfgOf dupObj) [5] = none ∧
    (SCoda.decode (cfgOf dupObj) [4, 6]).map (·.map render) = some ["rst_-5", "rst_02"] := by
  decide
example (o' : TokObj) (h : constructDictionary dupObj = .ok o') : Gen.Tok.decode o' [5] = .error .keyError := by
  have h1 := decode_eq_all dupObj o' [5] rfl rfl h
  have h2 : SCoda.decode (cfgOf dupObj) [5] = none := by decide
  rw [decodeSpec, h2] at h1
  exact h1

/-! ### 2. `_construct_dictionary` on an object that is not fresh -/

/-- The closed form of `constructDictionary_eq` (every key of `vocabSeq` pushed with the running counter) describes the generated
    `_construct_dictionary` on an object `o` EXACTLY when `o._dictionary_size = 0`: the source stores the literal id 0 for `pad`,
    the closed form gives it the old counter.  (`→`: strongest possible hypothesis; `←` is `constructDictionary_eq`; what the
    code does on every object is `TokTie.constructDictionary_all`.) -/
theorem constructDictionary_anyObject_iff (o : TokObj) :
    constructDictionary o = .ok (finish (pushAll o ((vocabSeq (cfgOf o)).map render))) ↔ o.dictionarySize_ = 0 := by
  constructor
  · intro h
    rw [TokTie.constructDictionary_all] at h
    have h' := congrArg (fun r => match r with
      | .ok o' => Assoc.get? o'.dictionary (render .pad) | .error _ => none) h
    change Assoc.get? (pushAll (first4 o) _).dictionary _ = Assoc.get? (pushAll o _).dictionary _ at h'
    rw [DefsL.pad_id_generated, DefsL.pad_id_closed] at h'
    injection h' with h'
    exact h'.symm
  · exact TokTie.constructDictionary_eq o

/-- the hypothesis-carrying form (`_partial`): it is `TokTie.constructDictionary_eq` -/
theorem constructDictionary_anyObject_partial (o : TokObj) (h0 : o.dictionarySize_ = 0) :
    constructDictionary o = .ok (finish (pushAll o ((vocabSeq (cfgOf o)).map render))) :=
  (constructDictionary_anyObject_iff o).2 h0

/-- a small tokeniser as `__init__` has it before it calls `_construct_dictionary`:
    `Tokeniser(num_tracks=1, pitch_range=(60, 60), step_sizes=[2], note_values=[4], velocity_bins=1, time_signature_range=(4, 4))` -/
def smallObj : TokObj := initObj none 1 (60, 60) (some [2]) (some [4]) [127] (4, 4) true true true true true

/-- the same object after `__init__` (after the first `_construct_dictionary`) -/
def usedObj : TokObj := finish (pushAll smallObj ((vocabSeq (cfgOf smallObj)).map render))

theorem smallObj_constructed : constructDictionary smallObj = .ok usedObj := TokTie.constructDictionary_eq smallObj rfl

/-- non-vacuity of `_iff` / `_partial`: the fresh object, its seven keys -/
example : smallObj.dictionarySize_ = 0 := rfl
example : usedObj.dictionary = [("pad", 0), ("sta", 1), ("sto", 2), ("bar", 3), ("rst_02", 4),
    ("trk_00-pit_060-val_04-vel_127", 5), ("tsg_04_08", 6)] ∧ usedObj.dictionarySize_ = 7 := by decide

/-- `TokTie.constructDictionary_anyObject_statement` is false: the object `__init__` returns has `_dictionary_size = 7`. -/
theorem constructDictionary_anyObject_statement_false : ¬ TokTie.constructDictionary_anyObject_statement := by
  intro h
  have h7 : usedObj.dictionarySize_ = 0 := (constructDictionary_anyObject_iff usedObj).1 (h usedObj)
  revert h7
  decide

/-- What the second call does (replayed on /repo with `t._construct_dictionary()` on the constructed tokeniser, same values):
    the counter is 14 for 7 keys, `pad … bar` keep the ids 0..3, the other keys are renumbered from 11 = 7 + 4 (`rst_02 ↦ 11`),
    and the ids 4..6 are gone from the inverse dictionary. -/
theorem constructDictionary_second_call :
    ∃ o₂, constructDictionary usedObj = .ok o₂ ∧ o₂.dictionarySize_ = 14 ∧
      o₂.dictionary = [("pad", 0), ("sta", 1), ("sto", 2), ("bar", 3), ("rst_02", 11),
        ("trk_00-pit_060-val_04-vel_127", 12), ("tsg_04_08", 13)] ∧
      o₂.inverseDictionary = [(0, "pad"), (1, "sta"), (2, "sto"), (3, "bar"), (11, "rst_02"),
        (12, "trk_00-pit_060-val_04-vel_127"), (13, "tsg_04_08")] :=
  ⟨_, TokTie.constructDictionary_all usedObj, by decide, by decide, by decide⟩

/-! ### 3. `detokenise` on arbitrary strings

  The model parser `parseTok` reads a numeric field with `pyInt?` = `String.toInt?` after the splits on `-` and `_`: it accepts
  exactly the non-empty strings of ASCII digits (`model_int_digits`).  Python's `int()` (in the generated code `pyIntOfStr`)
  accepts more (`+5`, ` 5`), and the source accepts part lists the parser rejects (`pit_060-pit_060`).  On the strings the parser
  accepts the two agree — except at the points `detokenise_eq` already excludes (`ppqn < 0`, denominator 0). -/

/-- the class: a field (no `-`, no `_`) that the model's `int()` reads is a non-empty string of ASCII digits, its value is a
    natural number, and Python's `int()` (`pyIntOfStr`) reads the same value -/
theorem model_int_digits (a : String) (v : Int) (hd : '-' ∉ a.toList) (hu : '_' ∉ a.toList) (h : pyInt? a = some v) :
    a ≠ "" ∧ (∀ c ∈ a.toList, c.isDigit = true) ∧ 0 ≤ v ∧ pyIntOfStr a = .ok v :=
  ⟨(DefsL.pyInt_digits a v hd hu h).1, (DefsL.pyInt_digits a v hd hu h).2.1, (DefsL.pyInt_digits a v hd hu h).2.2,
    DefsL.pyIntOfStr_of_pyInt a v hd hu h⟩

/-- every string the model parser accepts is read by the generated `detokenise` as the same token (`DefsL.TokRep`: its parts,
    sorted by `sort_order`, with numbers that `int()` reads as the token's), whatever the widths of the numbers and the order of
    the parts; the numbers are natural numbers -/
theorem parse_accepts_rep (s : String) (t : Tok) (h : parseTok s = .ok t) : DefsL.TokRep s t ∧ TokOk t := DefsL.parse_rep s t h

/-- PARTIAL (all string lists the model parser accepts): the generated `detokenise` on the strings is the hand model on the
    parsed tokens: same sequences, same exception class.  `hp`, `hden`: the two points `detokenise_eq` excludes as well
    (negative `ppqn`: truncation vs floor; denominator 0: ZeroDivisionError vs capacity 0) — both input-level. -/
theorem detokenise_strings_partial (o : TokObj) (ss : List String) (ts : List Tok) (hp : 0 ≤ o.ppqn)
    (h : ss.mapM parseTok = .ok ts) (hden : ∀ t ∈ ts, ∀ a b, t = Tok.tsig a b → b ≠ 0) :
    Gen.Tok.detokenise o ss = liftE (fun seqs => seqs.map LSeq.abs) (SCoda.detokenise (cfgOf o) ts) := by
  have hf := DefsL.mapM_parse_forall₂ ss ts h
  have hok : ∀ t ∈ ts, TokOk t := DefsL.forall₂_right (fun s t hst => (DefsL.parse_rep s t hst).2) hf
  refine DefsL.detokenise_gen o ss ts hp (DefsL.forall₂_imp (fun s t hst => (DefsL.parse_rep s t hst).1) hf) ?_
  intro t ht
  refine parts_ok o.ppqn t ⟨hok t ht, ?_⟩
  intro a b e
  subst e
  have h2 : 0 ≤ a ∧ 0 ≤ b := hok _ ht
  have hb := hden _ ht a b rfl
  exact ⟨by omega, Int.mul_nonneg (by omega) h2.1⟩

/-- non-vacuity: unpadded numbers and a fused note token with its parts in another order are accepted by the model parser
    (replayed on /repo: `detokenise(["rst_5", "val_12-pit_060-trk_00"])` = note 60 on at 5, off at 17) -/
example : ["rst_5", "val_12-pit_060-trk_00"].mapM parseTok = .ok [.rest 5, .note (some 0) 60 (some 12) none] := by
  have h1 : parseTok "rst_5" = .ok (.rest 5) := by
    rw [DefsL.parseTok_eq]; unfold DefsL.parseTok'
    rw [show "rst_5" = "rst_" ++ "5" by decide, DefsL.split_rst "5" (by decide) (by decide)]
    simp only []
    rw [if_pos (by decide), DefsL.numF, show pyInt? "5" = some 5 from pyInt_zpad 1 5]
    rfl
  have h2 : parseTok "val_12-pit_060-trk_00" = .ok (.note (some 0) 60 (some 12) none) := by
    have e1 : "val_12-pit_060-trk_00".splitOn "-" = ["val_12", "pit_060", "trk_00"] := by
      rw [dash_eq, splitOn_singleton]; decide
    have e2 : "val_12".splitOn "_" = ["val", "12"] := by rw [us_eq, splitOn_singleton]; decide
    have e3 : "pit_060".splitOn "_" = ["pit", "060"] := by rw [us_eq, splitOn_singleton]; decide
    have e4 : "trk_00".splitOn "_" = ["trk", "00"] := by rw [us_eq, splitOn_singleton]; decide
    have n1 : pyInt? "12" = some 12 := pyInt_zpad 2 12
    have n2 : pyInt? "060" = some 60 := pyInt_zpad 3 60
    have n3 : pyInt? "00" = some 0 := pyInt_zpad 2 0
    rw [DefsL.parseTok_eq]; unfold DefsL.parseTok'
    rw [e1]; simp only [List.map_cons, List.map_nil, e2, e3, e4]
    have s1 : DefsL.stepF (.ok (.note none (-1) none none)) ["val", "12"] = .ok (.note none (-1) (some 12) none) := by
      simp only [DefsL.stepF, DefsL.numF, n1, bind, Except.bind]; decide
    have s2 : DefsL.stepF (.ok (.note none (-1) (some 12) none)) ["pit", "060"] = .ok (.note none 60 (some 12) none) := by
      simp only [DefsL.stepF, DefsL.numF, n2, bind, Except.bind]; decide
    have s3 : DefsL.stepF (.ok (.note none 60 (some 12) none)) ["trk", "00"] = .ok (.note (some 0) 60 (some 12) none) := by
      simp only [DefsL.stepF, DefsL.numF, n3, bind, Except.bind]; decide
    simp only [List.foldl_cons, List.foldl_nil, s1, s2, s3]
    rfl
  rw [List.mapM_cons, h1, List.mapM_cons, h2]
  rfl

/-- `TokTie.detokenise_strings_statement` is false: `tsg_04_00` is accepted by the model parser, the model gives the bar capacity 0,
    the source raises ZeroDivisionError (replayed on /repo: `detokenise(["tsg_04_00"])` → ZeroDivisionError). -/
theorem detokenise_strings_statement_false : ¬ TokTie.detokenise_strings_statement := by
  intro h
  have hr : render (.tsig 4 0) = "tsg_04_00" := by decide
  have hparse : parseTok "tsg_04_00" = .ok (.tsig 4 0) := by rw [← hr]; exact parse_render_ok _ (by decide)
  have hm : ["tsg_04_00"].mapM parseTok = .ok [.tsig 4 0] := by rw [List.mapM_cons, hparse]; rfl
  have h1 := h smallObj ["tsg_04_00"] [.tsig 4 0] hm
  rw [DefsL.detokenise_tsig_zero smallObj "tsg_04_00" 4 (by decide) (DefsL.parse_rep _ _ hparse).1] at h1
  have h2 : SCoda.detokenise (cfgOf smallObj) [.tsig 4 0] = .ok [[Msg.mkTimeSig 0 2 0 0]] := by decide
  rw [h2] at h1
  cases h1

/-- the statement for ALL strings: "what the model parser rejects, the source rejects" -/
def detokenise_anystring_statement : Prop :=
  ∀ (o : TokObj) (ss : List String), 0 ≤ o.ppqn →
    ∀ e, ss.mapM parseTok = .error e → ∃ e', Gen.Tok.detokenise o ss = .error e'

/-- a `rst_` token whose number is written with a sign `+` or a leading blank is read by the generated code as the rest it
    denotes for Python's `int()` (replayed on /repo: `detokenise(["rst_+5", "pit_060"])` and `["rst_ 5", "pit_060"]` both give
    note 60 on at 5, off at 29, the same as `["rst_05", "pit_060"]`) … -/
theorem detokenise_plus_sign (o : TokObj) (hp : 0 ≤ o.ppqn) (x : String) (hx : x = "+5" ∨ x = " 5") :
    Gen.Tok.detokenise o ["rst_" ++ x, "pit_060"] =
      liftE (fun seqs => seqs.map LSeq.abs) (SCoda.detokenise (cfgOf o) [.rest 5, .note none 60 none none]) := by
  have hr : render (.note none 60 none none) = "pit_060" := by decide
  have hparse : parseTok "pit_060" = .ok (.note none 60 none none) := by rw [← hr]; exact parse_render_ok _ (by decide)
  have hrep : DefsL.TokRep ("rst_" ++ x) (.rest 5) := by
    rcases hx with rfl | rfl
    · exact DefsL.tokRep_rst "+5" 5 (by decide) (by decide) DefsL.pyIntOfStr_plus5
    · exact DefsL.tokRep_rst " 5" 5 (by decide) (by decide) DefsL.pyIntOfStr_space5
  refine DefsL.detokenise_gen o _ _ hp (.cons hrep (.cons (DefsL.parse_rep _ _ hparse).1 .nil)) ?_
  intro t ht
  simp only [List.mem_cons, List.not_mem_nil, or_false] at ht
  rcases ht with rfl | rfl <;> exact parts_ok o.ppqn _ ⟨by decide, fun a b e => by cases e⟩

/-- … while the model parser rejects both strings with ValueError -/
theorem parseTok_plus_sign : parseTok "rst_+5" = .error .valueError ∧ parseTok "rst_ 5" = .error .valueError :=
  ⟨DefsL.parseTok_rst_error "+5" '+' ['5'] (by decide) (by decide) (by decide) (by decide) (by decide),
   DefsL.parseTok_rst_error " 5" ' ' ['5'] (by decide) (by decide) (by decide) (by decide) (by decide)⟩

/-- the statement for all strings is false: the source accepts `rst_+5` (it is `rst_05` to `int()`), the model parser does not;
    a model artefact of `pyInt?` (Model/Render.lean:39-41), not a defect of the code -/
theorem detokenise_anystring_statement_false : ¬ detokenise_anystring_statement := by
  intro h
  have hm : ["rst_+5", "pit_060"].mapM parseTok = .error .valueError := by
    rw [List.mapM_cons, parseTok_plus_sign.1]; rfl
  obtain ⟨e', he⟩ := h smallObj ["rst_+5", "pit_060"] (by decide) _ hm
  have h1 := detokenise_plus_sign smallObj (by decide) "+5" (Or.inl rfl)
  rw [show "rst_" ++ "+5" = "rst_+5" by decide, he] at h1
  have h2 : SCoda.detokenise (cfgOf smallObj) [.rest 5, .note none 60 none none] =
      .ok [[Msg.mkOn 0 60 127 5, Msg.mkOff 0 60 29]] := by decide
  rw [h2] at h1
  cases h1

/-! ### 5. the points `tokenise_eq` excludes, as theorems

  `hn` (`0 ≤ ppqn * 4 * numerator` of the carried state) and `TsEvOk` (a time-signature event has a non-zero denominator) are
  needed: at each excluded point the generated code and the hand model differ. -/

/-- a tokeniser with `ppqn = -1` (otherwise as `smallObj`) -/
def negPpqnObj : TokObj := initObj (some (-1)) 1 (60, 60) (some [2]) (some [4]) [127] (4, 4) true true true true true

/-- the instance of `tokenise_eq` at `ppqn = -1`, carried numerator 3, no events (`hn` fails, every other hypothesis holds) -/
def tokenise_negative_ppqn_statement : Prop :=
  tokenise negPpqnObj ([[]].map LSeq.rel) true true (some [("cur_time_signature_numerator", 3)]) =
    liftE (fun r => (writeSt [("cur_time_signature_numerator", 3)] r.2, r.1.map render))
      (tokeniseCore (cfgOf negPpqnObj) (stOfDict negPpqnObj [("cur_time_signature_numerator", 3)]) (extract Gen.ppqn [[]]))

/-- `hn` excluded, generated code: the bar capacity `int(-1 * 4 * 3 / 8)` is -1 (truncation toward zero); replayed on /repo:
    `Tokeniser(ppqn=-1, …).tokenise([Sequence()], state_dict={"cur_time_signature_numerator": 3})` leaves
    `cur_bar_capacity_remaining = -1` in the dictionary -/
theorem tokenise_negative_ppqn_generated :
    tokenise negPpqnObj ([[]].map LSeq.rel) true true (some [("cur_time_signature_numerator", 3)]) =
      .ok ([("cur_time_signature_numerator", 3), ("cur_time", 0), ("cur_time_bar", 0), ("cur_time_signature_denominator", 8),
        ("cur_bar_capacity_remaining", -1), ("prv_track", -1), ("prv_value", -1), ("prv_velocity", -1)], []) := by
  unfold tokenise
  have h8 : pyDictGetD [("cur_time_signature_numerator", (3 : Int))] "cur_time_signature_denominator"
      Gen.defaultTimeSignatureDenominator ≠ 0 := by decide
  simp only [Bool.not_true, raiseIf_false, pyTrueDiv_ok _ _ h8, ok_bind, ratTrunc_div _ _ h8]
  decide

/-- `hn` excluded, hand model: the capacity `(-1 * 4 * 3) / 8` is -2 (rounding down; Model/Token.lean `Cfg.capacity`) -/
theorem tokenise_negative_ppqn_model :
    liftE (fun r => (writeSt [("cur_time_signature_numerator", 3)] r.2, r.1.map render))
      (tokeniseCore (cfgOf negPpqnObj) (stOfDict negPpqnObj [("cur_time_signature_numerator", 3)]) (extract Gen.ppqn [[]])) =
      .ok ([("cur_time_signature_numerator", 3), ("cur_time", 0), ("cur_time_bar", 0), ("cur_time_signature_denominator", 8),
        ("cur_bar_capacity_remaining", -2), ("prv_track", -1), ("prv_value", -1), ("prv_velocity", -1)], []) := by
  decide

/-- a negative `ppqn` is outside the tie: the model artefact is `Cfg.capacity` (floor) against `int(x / y)` (truncation) -/
theorem tokenise_negative_ppqn_statement_false : ¬ tokenise_negative_ppqn_statement := by
  intro h
  unfold tokenise_negative_ppqn_statement at h
  rw [tokenise_negative_ppqn_generated, tokenise_negative_ppqn_model] at h
  revert h
  decide

/-- non-vacuity: the other hypotheses of `tokenise_eq` hold at this point (one track, denominator 8, no events); only `hn` fails -/
example : (([[]] : List (List Msg)).length : Int) = negPpqnObj.numTracks ∧
    (stOfDict negPpqnObj [("cur_time_signature_numerator", 3)]).tsDen ≠ 0 ∧ extract Gen.ppqn [[]] = [] ∧
    ¬ 0 ≤ negPpqnObj.ppqn * 4 * (stOfDict negPpqnObj [("cur_time_signature_numerator", 3)]).tsNum := by decide

/-- the instance of `tokenise_eq'` for a track that holds one time-signature message 4/0 (`TsEvOk` fails) -/
def tokenise_event_denominator_zero_statement : Prop :=
  tokenise smallObj ([[Msg.mkTimeSig 0 4 0 pyNone]].map LSeq.rel) true true (some []) =
    liftE (fun r => (writeSt [] r.2, r.1.map render))
      (tokeniseCore (cfgOf smallObj) (stOfDict smallObj []) (extract Gen.ppqn [[Msg.mkTimeSig 0 4 0 pyNone]]))

/-- `TsEvOk` excluded, generated code: `numerator * (8 / denominator)` raises ZeroDivisionError (replayed on /repo: a sequence with
    `Message(TIME_SIGNATURE, numerator=4, denominator=0)` → `tokenise` raises ZeroDivisionError) -/
theorem tokenise_event_denominator_zero_generated :
    tokenise smallObj ([[Msg.mkTimeSig 0 4 0 pyNone]].map LSeq.rel) true true (some []) = .error .zeroDivisionError := by
  unfold tokenise
  have h8 : pyDictGetD ([] : List (String × Int)) "cur_time_signature_denominator" Gen.defaultTimeSignatureDenominator ≠ 0 := by
    decide
  simp only [Bool.not_true, raiseIf_false, pyTrueDiv_ok _ _ h8, ok_bind, ratTrunc_div _ _ h8]
  decide

/-- `TsEvOk` excluded, hand model: it divides by 0 to 0 and then rejects the signature as not representable: another exception class -/
theorem tokenise_event_denominator_zero_model :
    liftE (fun r => (writeSt [] r.2, r.1.map render))
      (tokeniseCore (cfgOf smallObj) (stOfDict smallObj []) (extract Gen.ppqn [[Msg.mkTimeSig 0 4 0 pyNone]])) =
      .error .tokenisationException := by
  decide

theorem tokenise_event_denominator_zero_statement_false : ¬ tokenise_event_denominator_zero_statement := by
  intro h
  unfold tokenise_event_denominator_zero_statement at h
  rw [tokenise_event_denominator_zero_generated, tokenise_event_denominator_zero_model] at h
  cases h

/-- non-vacuity: the event is the only one, its denominator is 0, the other hypotheses of `tokenise_eq'` hold -/
example : (([[Msg.mkTimeSig 0 4 0 pyNone]] : List (List Msg)).length : Int) = smallObj.numTracks ∧
    (stOfDict smallObj []).tsDen ≠ 0 ∧ 0 ≤ smallObj.ppqn * 4 * (stOfDict smallObj []).tsNum ∧
    (extract Gen.ppqn [[Msg.mkTimeSig 0 4 0 pyNone]]).map (fun ev => ev.2.map (·.den)) = [[0]] := by decide

end SCoda.Defs
