/-
  C02b — the *string* layer of C02 (audit item A9).

  In `Props/C02.lean` tokens are the structured datatype `Tok`; "the vocabulary keys and the emitted
  tokens are built by two string-building code paths that agree" and "`_split_token` / `int()` parses
  every key" are then true by construction.  Here the strings themselves are the subject:
  `render : Tok → String` produces the exact Python text (prefixes from the generated table
  `Gen.tokenPrefixes`, `:02` / `:03` padding), `parseTok` is `_split_token` + `int(...)`
  (notelike_tokenisation.py:439-443, 262-336).

  * `parse_render`        `parseTok (render t) = .ok t` for every token with natural-number fields;
  * `render_injective`    hence distinct such tokens have distinct strings;
  * `render_vocab_nodup`  the string keys of `_construct_dictionary` are pairwise distinct, so the
                          Python dict (keyed by strings) has exactly the entries of `vocabSeq`;
  * `vocab_tokens_parse`, `vocab_strings_detok_accept`
                          every vocabulary *string* is split and parsed back to the token it was
                          built from, and `detokenise` accepts it;
  * `prefixes_*`          what this needs of the prefix enum, by `decide` over the generated table.

  `String.splitOn`, `String.intercalate`, `toString`, `String.toInt?` are the core functions, not
  re-modelled: `Lemmas/RenderL.lean` proves `s.splitOn "c" = (s.toList.splitOn c).map ofList`.
-/
import SCoda.Props.C02
import SCoda.Lemmas.RenderL
namespace SCoda.C02b
open SCoda
export SCoda.RenderL (TokOk OptNonneg CfgNonneg)

/-! ### the prefix enum (generated table) -/

/-- A9: the prefix strings of `TokenisationPrefixes` are pairwise distinct (`decide` over the
    generated table; a colliding prefix in the source breaks this proof). -/
theorem prefixes_distinct : (Gen.tokenPrefixes.map (·.2)).Nodup := RenderL.table_prefixes_nodup

/-- A9: no prefix string contains the part separator `-`, the field separator `_`, or a digit
    (`decide` over the generated table). -/
theorem prefixes_clean :
    ∀ p ∈ Gen.tokenPrefixes, ∀ c ∈ p.2.toList, c ≠ '-' ∧ c ≠ '_' ∧ c.isDigit = false :=
  RenderL.table_prefixes_clean

/-- A9: every enum member that `render` / `parseTok` look up exists in the generated table, and
    the ten strings they obtain are pairwise distinct. -/
theorem prefixes_used :
    (∀ n ∈ RenderL.usedNames, (Gen.tokenPrefixes.find? (·.1 == n)).isSome = true)
    ∧ ∀ a ∈ RenderL.usedNames, ∀ b ∈ RenderL.usedNames, prefixOf a = prefixOf b → a = b :=
  ⟨RenderL.used_in_table, RenderL.prefixOf_inj⟩

/-! ### parse ∘ render -/

/-- A9: splitting the Python text of a token on `-` and `_` and reading the numbers with `int()`
    gives the token back, for every token whose numeric fields are natural numbers. -/
theorem parse_render (t : Tok) (h : TokOk t) : parseTok (render t) = .ok t :=
  RenderL.parse_render_ok t h

example : TokOk (.note (some 1) 60 (some 12) (some 80)) := by decide
example : render (.note (some 1) 60 (some 12) (some 80)) = "trk_01-pit_060-val_12-vel_080" := by decide
example : parseTok (render (.note (some 1) 60 (some 12) (some 80))) = .ok (.note (some 1) 60 (some 12) (some 80)) :=
  parse_render _ (by decide)
example : parseTok "trk_01-pit_060-val_12-vel_080" = .ok (.note (some 1) 60 (some 12) (some 80)) := by
  have h : "trk_01-pit_060-val_12-vel_080" = render (.note (some 1) 60 (some 12) (some 80)) := by decide
  rw [h]; exact parse_render _ (by decide)

/-- A9: `render` is injective on tokens with natural-number fields: two different tokens never
    have the same Python text. -/
theorem render_injective (t₁ t₂ : Tok) (h₁ : TokOk t₁) (h₂ : TokOk t₂) (h : render t₁ = render t₂) :
    t₁ = t₂ := by
  have e₁ := parse_render t₁ h₁
  have e₂ := parse_render t₂ h₂
  rw [h, e₂] at e₁
  exact (Except.ok.inj e₁).symm

example : TokOk (.rest 2) ∧ TokOk (.tsig 12 8) := by decide

/-! `TokOk` is needed: a negative number is printed with a sign, and the sign is the part
    separator.  `f"{-5:02}"` is `"-5"`, the key is `"rst_-5"`, `_split_token` gives
    `[["rst", ""], ["5"]]` and `int("")` raises. -/
def parse_render_statement : Prop := ∀ t : Tok, parseTok (render t) = .ok t

theorem parse_render_neg : parseTok (render (.rest (-5))) = .error .valueError := by
  have h : render (.rest (-5)) = "rst_-5" := by decide
  have h1 : "rst_-5".splitOn "-" = ["rst_", "5"] := by
    rw [RenderL.dash_eq, RenderL.splitOn_singleton]; decide
  have h2 : "rst_".splitOn "_" = ["rst", ""] := by
    rw [RenderL.us_eq, RenderL.splitOn_singleton]; decide
  have h3 : "5".splitOn "_" = ["5"] := by
    rw [RenderL.us_eq, RenderL.splitOn_singleton]; decide
  have h4 : pyInt? "" = Option.none := by decide
  simp only [parseTok, h, h1, h2, h3, h4, List.map_cons, List.map_nil, List.foldl_cons, List.foldl_nil,
    bind, Except.bind]

theorem parse_render_statement_false : ¬ parse_render_statement := by
  intro h
  have := h (.rest (-5))
  rw [parse_render_neg] at this
  cases this

/-! ### the vocabulary, as strings -/

/-- A9: the string keys written by `_construct_dictionary` are pairwise distinct, so the Python
    dict has one entry per element of the construction sequence (no key is overwritten) and the
    structured vocabulary of `Props/C02.lean` is the dict. -/
theorem render_vocab_nodup (c : Cfg) (h : C02.CfgWF c) (hn : CfgNonneg c) :
    ((vocabSeq c).map render).Nodup := by
  have hnd := C02.vocab_nodup c h
  rw [List.Nodup, List.pairwise_map]
  refine List.Pairwise.imp_of_mem ?_ hnd
  intro a b ha hb hab e
  exact hab (render_injective a b (RenderL.vocab_tokOk c hn a ha) (RenderL.vocab_tokOk c hn b hb) e)

/-- NOT proved and NOT refuted: key distinctness without `CfgNonneg`.  The proof above goes through
    the parser, which fails on signed numbers; `render` itself very probably stays injective
    (a sign is always followed by a digit, a part separator by a letter).  On the real code the
    configurations `step_sizes=[-5,2]`, `pitch_range=(-1,1)`, `time_signature_range=(-1,2)` give
    dicts with as many keys as the counter reports (no collision observed). -/
def render_vocab_nodup_general_statement : Prop :=
  ∀ c : Cfg, C02.CfgWF c → ((vocabSeq c).map render).Nodup

/-- A9: every vocabulary string is accepted by `_split_token` / `int()` and yields the very token
    it was built from. -/
theorem vocab_tokens_parse (c : Cfg) (hn : CfgNonneg c) (s : String) (hs : s ∈ (vocabSeq c).map render) :
    ∃ t ∈ vocabSeq c, render t = s ∧ parseTok s = .ok t := by
  obtain ⟨t, ht, rfl⟩ := List.mem_map.1 hs
  exact ⟨t, ht, rfl, parse_render t (RenderL.vocab_tokOk c hn t ht)⟩

/-- A9: "every vocabulary token is accepted by detokenise" at string level: the key parses, and
    the parsed token is executed by `detokenise`'s loop body without an exception, from any state
    with one output sequence per track (composition with `C02.detok_accepts`). -/
theorem vocab_strings_detok_accept (c : Cfg) (hn : CfgNonneg c) (s : String)
    (hs : s ∈ (vocabSeq c).map render) (d : DetokSt)
    (hd : d.seqs.length = c.numTracks) (hp : 0 ≤ d.prvTrack ∧ d.prvTrack < (c.numTracks : Int))
    (hnt : 0 < c.numTracks) :
    ∃ t d', parseTok s = .ok t ∧ dstep c d t = .ok d' ∧ d'.seqs.length = c.numTracks
      ∧ 0 ≤ d'.prvTrack ∧ d'.prvTrack < (c.numTracks : Int) := by
  obtain ⟨t, ht, _, hparse⟩ := vocab_tokens_parse c hn s hs
  obtain ⟨d', h1, h2, h3, h4⟩ := C02.detok_accepts c t ht d hd hp hnt
  exact ⟨t, d', hparse, h1, h2, h3, h4⟩

/-- A9: the tokens `tokenise` emits are rendered to strings that are keys of the dict (the "two
    string-building code paths agree": both are `render` of a `Tok`, and `render` is injective on
    the vocabulary, so string membership and token membership coincide). -/
theorem tokenise_strings_in_vocab (c : Cfg) (h : C02.CfgWF c) (st st' : TokSt)
    (evs : List (Int × Pairing)) (toks : List Tok) (hch : C02.ChannelsOk c evs)
    (hok : tokeniseCore c st evs = .ok (toks, st')) :
    ∀ s ∈ toks.map render, s ∈ (vocabSeq c).map render := by
  intro s hs
  obtain ⟨t, ht, rfl⟩ := List.mem_map.1 hs
  exact List.mem_map.2 ⟨t, C02.tokenise_closed c h st st' evs toks hch hok t ht, rfl⟩

/-! Without `CfgNonneg` the vocabulary statement is false of the model — and of the real code
    (`step_sizes=[-5, 2]`: key `"rst_-5"`, `detokenise(["rst_-5"])` raises `ValueError`;
    `pitch_range=(-1, 1)`: key `"trk_00-pit_-01-val_04-vel_127"`, `TokenisationException`). -/
def vocab_tokens_parse_statement : Prop :=
  ∀ c : Cfg, C02.CfgWF c → ∀ t ∈ vocabSeq c, parseTok (render t) = .ok t

def negCfg : Cfg := { steps := [-5, 2], values := [4], bins := [127], pitchLo := 60, pitchHi := 61 }

theorem vocab_tokens_parse_statement_false : ¬ vocab_tokens_parse_statement := by
  intro h
  have := h negCfg (by constructor <;> decide) (.rest (-5)) (by decide)
  rw [parse_render_neg] at this
  cases this

/-! non-vacuity -/
example : C02.CfgWF C02.exCfg ∧ CfgNonneg C02.exCfg := by
  refine ⟨by constructor <;> decide, by decide⟩
example : "trk_01-pit_061-val_06" ∈ (vocabSeq C02.exCfg).map render := by decide
example : ((vocabSeq C02.exCfg).map render).length = 32 := by decide

end SCoda.C02b
