/-
  C07 — normalise returns a well-formed sequence with the same duration and sound.
  All theorems are about `SCoda.normalise` (the fold model of `normalise_relative`, after the
  repairs of D5/D6) and hold for *every* relative message list with non-negative waits,
  including ill-formed ones (unclosed, re-triggered, orphaned, nested notes).
-/
import SCoda.Model.Normalise
import SCoda.Model.Roll
import SCoda.Lemmas.Normalise
namespace SCoda.C07
open SCoda

/-- consecutive elements differ under `key` (no element repeats the one before it) -/
def NoRepeat {α β} [DecidableEq β] (key : α → β) : List α → Prop
  | [] => True
  | [_] => True
  | a :: b :: rest => key a ≠ key b ∧ NoRepeat key (b :: rest)

def timeSigs (l : List Msg) : List Msg := l.filter (·.ty == .timeSignature)
def keySigs (l : List Msg) : List Msg := l.filter (·.ty == .keySignature)

/-- the total duration is unchanged -/
theorem duration_eq (r : List Msg) (h : NonNegWaits r) : durRel (normalise r) = durRel r :=
  normalise_totalWait r h

/-- every kept event is an input event at its original tick, in the original order; nothing is invented -/
theorem events_sublist (r : List Msg) (h : NonNegWaits r) :
    (eventsRel (normalise r)).Sublist (eventsRel r) :=
  normalise_events_sublist r h

/-- events that are neither notes nor signatures are all kept -/
theorem others_kept (r : List Msg) (h : NonNegWaits r) :
    (eventsRel (normalise r)).filter (fun m => m.ty != .noteOn && m.ty != .noteOff && m.ty != .timeSignature && m.ty != .keySignature)
    = (eventsRel r).filter (fun m => m.ty != .noteOn && m.ty != .noteOff && m.ty != .timeSignature && m.ty != .keySignature) :=
  normalise_others r h

/-- **well-formed output for every input**: per (channel, pitch) the note-ons and note-offs strictly
    alternate, starting with a note-on and ending with a note-off -/
theorem wf_out (r : List Msg) : WF (normalise r) := normalise_wf r

theorem noRepeat_of_chainNe {α β} [DecidableEq β] (key : α → β) (l : List α) :
    ∀ p, ChainNe p (l.map key) → NoRepeat key l := by
  induction l with
  | nil => intro _ _; trivial
  | cons a l ih =>
    intro p h
    cases l with
    | nil => trivial
    | cons b rest =>
      simp only [List.map_cons, ChainNe] at h
      exact ⟨h.2.1, ih (key a) (by simp only [List.map_cons, ChainNe]; exact h.2)⟩

/-- a time signature that repeats the one in force is gone … -/
theorem no_repeat_ts (r : List Msg) :
    NoRepeat (fun m : Msg => (m.num, m.den)) (timeSigs (normalise r)) := by
  have := chainNe_dedupD (tsVals r) (pyNone, pyNone)
  rw [← normalise_tsVals] at this
  exact noRepeat_of_chainNe _ _ _ this

/-- … and so is a repeated key signature -/
theorem no_repeat_ks (r : List Msg) : NoRepeat (fun m : Msg => m.key) (keySigs (normalise r)) := by
  have := chainNe_dedupD (ksVals r) pyNone
  rw [← normalise_ksVals] at this
  exact noRepeat_of_chainNe _ _ _ this

/-- a signature event that differs from the previous one of its kind is kept: the signature in force
    at every point is unchanged.  Stated on the value sequences: removing adjacent repetitions from the
    input's signatures gives the output's signatures. -/
def dedupAdj {β} [DecidableEq β] : Option β → List β → List β
  | _, [] => []
  | prev, x :: xs => if prev = some x then dedupAdj prev xs else x :: dedupAdj (some x) xs

theorem dedupAdj_some {β} [DecidableEq β] (l : List β) : ∀ p, dedupAdj (some p) l = dedupD p l := by
  induction l with
  | nil => intro p; rfl
  | cons x xs ih =>
    intro p
    simp only [dedupAdj, dedupD, Option.some.injEq]
    split
    · exact ih p
    · rw [ih x]

theorem dedupAdj_none {β} [DecidableEq β] (l : List β) (q : β) (h : q ∉ l) :
    dedupAdj Option.none l = dedupD q l := by
  cases l with
  | nil => rfl
  | cons x xs =>
    have : ¬ q = x := fun e => h (by simp [e])
    simp [dedupAdj, dedupD, this, dedupAdj_some]

theorem ts_in_force (r : List Msg)
    (h0 : ∀ m ∈ r, m.ty = .timeSignature → (m.num, m.den) ≠ (pyNone, pyNone)) :
    (timeSigs (normalise r)).map (fun m => (m.num, m.den))
      = dedupAdj Option.none ((timeSigs r).map (fun m => (m.num, m.den))) := by
  have h1 : (pyNone, pyNone) ∉ tsVals r := by
    simp only [tsVals, List.mem_map, List.mem_filter, not_exists, not_and, and_imp]
    intro m hm hty he
    exact h0 m hm (by simpa using hty) he
  have := normalise_tsVals r
  rw [← dedupAdj_none _ _ h1] at this
  exact this

/-- the output is again a legal relative view, with strictly positive waits -/
theorem ok_out (r : List Msg) (h : OkRel r) :
    OkRel (normalise r) ∧ ∀ m ∈ normalise r, m.ty = .wait → 0 < m.time := by
  have he := normalise_entries r
  refine ⟨⟨?_, ?_⟩, ?_⟩
  · intro m hm hw
    rcases he m hm with h1 | h1
    · omega
    · exact absurd hw h1.1
  · intro m hm
    rcases he m hm with h1 | h1
    · rw [h1.1]; simp
    · exact h.2 m h1.2
  · intro m hm hw
    rcases he m hm with h1 | h1
    · exact h1.2
    · exact absurd hw h1.1

/-! ### sound -/

/-- the input's notes are paired: per key the depth counter never underflows and ends at 0
    (overlapping / nested notes of one key are allowed) -/
def balancedFrom (k : Int × Int) : Nat → List Msg → Prop
  | d, [] => d = 0
  | d, m :: ms =>
    if m.nkey = k ∧ m.ty = .noteOn then balancedFrom k (d + 1) ms
    else if m.nkey = k ∧ m.ty = .noteOff then 0 < d ∧ balancedFrom k (d - 1) ms
    else balancedFrom k d ms

def Paired (l : List Msg) : Prop := ∀ k, balancedFrom k 0 l

theorem depth_of_balanced (k : Int × Int) (l : List Msg) : ∀ d, balancedFrom k d l → depth k l d = 0 := by
  induction l with
  | nil => intro d h; exact h
  | cons m ms ih =>
    intro d h
    simp only [balancedFrom] at h
    simp only [depth, beq_iff_eq]
    by_cases hk : m.nkey = k
    · by_cases hon : m.ty = .noteOn
      · simp only [hk, hon, and_self, if_true] at h ⊢
        exact ih _ h
      · by_cases hoff : m.ty = .noteOff
        · simp only [hk, hoff, reduceCtorEq, and_false, if_false, and_self, if_true] at h ⊢
          exact ih _ h.2
        · simp only [hk, hon, hoff, and_false, if_false, if_true] at h ⊢
          exact ih _ h
    · simp only [hk, false_and, if_false] at h ⊢
      exact ih _ h

/-- on paired input the set of sounding (channel, pitch, tick) triples is unchanged — overlapping
    notes of one key are fused into their union, which is exactly what the depth counter describes -/
theorem sound_eq (r : List Msg) (h : NonNegWaits r) (hp : Paired r) (k : Int × Int) (t : Int) :
    SoundingAt (eventsRel (normalise r)) k t ↔ SoundingAt (eventsRel r) k t :=
  sounding_fuse _ _ k t (events_sorted r 0 h)
    (normalise_fuse r h (fun k' => depth_of_balanced k' r 0 (hp k')) k)

/-- normalising a second time changes nothing observable -/
theorem idempotent (r : List Msg) (h : NonNegWaits r) :
    eventsRel (normalise (normalise r)) = eventsRel (normalise r)
    ∧ durRel (normalise (normalise r)) = durRel (normalise r) := by
  have _ := h
  have hnn : NonNegWaits (normalise r) := by
    intro m hm hw
    rcases normalise_entries r m hm with h1 | h1
    · omega
    · exact absurd hw h1.1
  refine ⟨normalise_events_id _ hnn (normalise_wf r) ?_ ?_, normalise_totalWait _ hnn⟩
  · rw [normalise_tsVals]; exact chainNe_dedupD _ _
  · rw [normalise_ksVals]; exact chainNe_dedupD _ _

/-! non-vacuity / examples: an ill-formed input (re-trigger, orphan off, unclosed note, repeated
    signature, trailing rest) -/
def ex : List Msg :=
  [Msg.mkTimeSig 0 4 4 pyNone, Msg.mkOn 0 60 64 pyNone, Msg.mkWait 0 12, Msg.mkOn 0 60 70 pyNone,
   Msg.mkTimeSig 0 4 4 pyNone, Msg.mkOff 1 61 pyNone, Msg.mkWait 0 12, Msg.mkOff 0 60 pyNone,
   Msg.mkOff 0 60 pyNone, Msg.mkOn 1 0 64 pyNone, Msg.mkWait 0 24]
example : NonNegWaits ex := by
  simp [NonNegWaits, ex, Msg.mkTimeSig, Msg.mkOn, Msg.mkOff, Msg.mkWait]
example : normalise ex =
    [Msg.mkTimeSig 0 4 4 pyNone, Msg.mkOn 0 60 64 pyNone, Msg.mkWait 0 24, Msg.mkOff 0 60 pyNone, Msg.mkWait 0 24] := by
  decide
example : Paired [Msg.mkOn 0 60 64 pyNone, Msg.mkOn 0 60 64 pyNone, Msg.mkWait 0 5, Msg.mkOff 0 60 pyNone, Msg.mkOff 0 60 pyNone] := by
  intro k
  simp only [balancedFrom, Msg.mkOn, Msg.mkOff, Msg.mkWait, Msg.nkey]
  by_cases hk : ((0 : Int), (60 : Int)) = k <;> simp [hk]

end SCoda.C07
