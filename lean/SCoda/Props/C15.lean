/-
  C15 — merging sequences yields exactly the union of their music.
  `Sequence.merge` = `AbsoluteSequence.merge` (append all messages, stable sort) followed by
  `normalise` on the relative view.  `mergeRel as` is the relative view of the result when the
  receiver and the arguments have the absolute views `as` (receiver first).
-/
import SCoda.Model.Wrapper
import SCoda.Model.Roll
import SCoda.Props.C04
import SCoda.Props.C07
import SCoda.Lemmas.Merge
namespace SCoda.C15
open SCoda SCoda.MergeL

def mergeRel (as : List (List Msg)) : List Msg := normalise (toRel (sortAbs as.flatten))

/-- `mergeRel` is what the wrapper computes -/
theorem mergeSeq_eq (a : List Msg) (others : List (List Msg)) :
    ((Seq.ofAbs a).mergeSeq others).toOption.map (fun s => (s.rel, s.relStale, s.absStale))
      = some (mergeRel (a :: others), false, true) := by
  simp [Seq.mergeSeq, Seq.onAbs, Seq.readAbs, Seq.normaliseSeq, Seq.onRel, Seq.readRel, Seq.ofAbs,
    mergeAbs, mergeRel, bind, Except.bind, Except.toOption]

/-- every note lasts at least one tick -/
def PosDur (a : List Msg) : Prop := ∀ n ∈ notesOf a, n.on < n.off

def maxDur : List (List Msg) → Int
  | [] => 0
  | a :: as => max (durAbs a) (maxDur as)

theorem okU (as : List (List Msg)) (h : ∀ a ∈ as, OkAbs a) : OkAbs (sortAbs as.flatten) :=
  okAbs_sort as h

theorem nnR (as : List (List Msg)) (h : ∀ a ∈ as, OkAbs a) : NonNegWaits (toRel (sortAbs as.flatten)) :=
  (C04.toRel_ok _ (okU as h)).1

theorem maxDur_spec (as : List (List Msg)) (h : ∀ a ∈ as, OkAbs a) :
    (∀ e ∈ as.flatten, e.time ≤ maxDur as) ∧ (maxDur as = 0 ∨ ∃ e ∈ as.flatten, e.time = maxDur as) := by
  induction as with
  | nil => exact ⟨by simp, Or.inl rfl⟩
  | cons a as ih =>
    obtain ⟨ih1, ih2⟩ := ih (fun b hb => h b (List.mem_cons_of_mem _ hb))
    obtain ⟨hs, hn, _⟩ := h a (by simp)
    obtain ⟨h0, h1, h2⟩ := durAbs_spec a ((timeSorted_iff_pairwise a).1 hs) hn
    simp only [maxDur, List.flatten_cons, List.mem_append]
    constructor
    · rintro e (he | he)
      · have := h1 e he; omega
      · have := ih1 e he; omega
    · by_cases hc : durAbs a ≤ maxDur as
      · rw [Int.max_eq_right hc]
        rcases ih2 with ih2 | ⟨e, he, heq⟩
        · exact Or.inl ih2
        · exact Or.inr ⟨e, Or.inr he, heq⟩
      · rw [Int.max_eq_left (by omega)]
        rcases h2 with h2 | ⟨e, he, heq⟩
        · exact Or.inl h2
        · exact Or.inr ⟨e, Or.inl he, heq⟩

/-- **duration**: the maximum input duration -/
theorem duration (as : List (List Msg)) (h : ∀ a ∈ as, OkAbs a) : durRel (mergeRel as) = maxDur as := by
  have hU := okU as h
  rw [mergeRel, C07.duration_eq _ (nnR as h), C04.toRel_duration _ hU]
  obtain ⟨h1, h2⟩ := maxDur_spec as h
  apply durAbs_eq _ _ (sortAbs_pairwise _) hU.2.1
  · intro e he
    exact h1 e ((mem_sortAbs _ _).1 he)
  · rcases h2 with h2 | ⟨e, he, heq⟩
    · exact Or.inl h2
    · exact Or.inr ⟨e, (mem_sortAbs _ _).2 he, heq⟩

/-- nothing is invented: every event of the merge is an event of the sorted union, at its tick -/
theorem events_sublist (as : List (List Msg)) (h : ∀ a ∈ as, OkAbs a) :
    (eventsRel (mergeRel as)).Sublist (eventsAbs (sortAbs as.flatten)) := by
  have := C07.events_sublist _ (nnR as h)
  rw [C04.toRel_events _ (okU as h)] at this
  exact this

/-- events that are neither notes nor signatures are all kept -/
theorem others_kept (as : List (List Msg)) (h : ∀ a ∈ as, OkAbs a) :
    ((eventsRel (mergeRel as)).filter (fun m => m.ty != .noteOn && m.ty != .noteOff && m.ty != .timeSignature && m.ty != .keySignature)).Perm
      ((as.map eventsAbs).flatten.filter (fun m => m.ty != .noteOn && m.ty != .noteOff && m.ty != .timeSignature && m.ty != .keySignature)) := by
  rw [mergeRel, C07.others_kept _ (nnR as h), C04.toRel_events _ (okU as h)]
  apply List.Perm.filter
  have : (as.map eventsAbs).flatten = eventsAbs as.flatten := by
    show _ = List.filter _ as.flatten
    rw [List.filter_flatten]; rfl
  rw [this]
  exact (sortAbs_perm _).filter _

/-- **signatures**: the time signatures of the merge are those of the sorted union with adjacent
    repetitions removed — every signature event that does not repeat the one in force is kept -/
theorem signatures (as : List (List Msg))
    (h0 : ∀ a ∈ as, ∀ m ∈ a, m.ty = .timeSignature → (m.num, m.den) ≠ (pyNone, pyNone)) :
    (C07.timeSigs (mergeRel as)).map (fun m => (m.num, m.den))
      = C07.dedupAdj Option.none ((C07.timeSigs (sortAbs as.flatten)).map (fun m => (m.num, m.den))) := by
  have hts : (C07.timeSigs (toRel (sortAbs as.flatten))).map (fun m => (m.num, m.den))
      = (C07.timeSigs (sortAbs as.flatten)).map (fun m => (m.num, m.den)) :=
    toRelGo_timeSigs _ 0
  rw [mergeRel, C07.ts_in_force, hts]
  intro m hm hty hnone
  have hmem : (m.num, m.den) ∈ (C07.timeSigs (toRel (sortAbs as.flatten))).map (fun m => (m.num, m.den)) :=
    List.mem_map.2 ⟨m, by simp [C07.timeSigs, hm, hty], rfl⟩
  rw [hts] at hmem
  obtain ⟨m', hm', heq⟩ := List.mem_map.1 hmem
  simp only [C07.timeSigs, List.mem_filter, beq_iff_eq] at hm'
  obtain ⟨a, ha, hma⟩ := List.mem_flatten.1 ((mem_sortAbs _ _).1 hm'.1)
  exact h0 a ha m' hma hm'.2 (heq.trans hnone)

/-- **union**: the set of sounding (channel, pitch, tick) triples of the merge is the union of the
    inputs' sets — overlapping notes of one channel and pitch are fused from the earliest start to the
    latest end, which is exactly what "sounding in some input" says -/
theorem union (as : List (List Msg)) (h : ∀ a ∈ as, OkAbs a ∧ WF a ∧ PosDur a) (k : Int × Int) (t : Int) :
    SoundingAt (eventsRel (mergeRel as)) k t ↔ ∃ a ∈ as, SoundingAt (eventsAbs a) k t := by
  have hok : ∀ a ∈ as, OkAbs a := fun a ha => (h a ha).1
  have hU := okU as hok
  have hnn := nnR as hok
  have hperm := sortAbs_perm as.flatten
  have hs := sortAbs_pairwise as.flatten
  have hgood : ∀ k', ∀ a ∈ as, goodFrom k' none a :=
    fun k' a ha => good_of_wf a (h a ha).2.1 (h a ha).2.2 k'
  have hsa : ∀ a ∈ as, MergeL.Sorted a := fun a ha => (timeSorted_iff_pairwise a).1 (h a ha).1.1
  -- the relative view of the sorted union is balanced, so normalise fuses without losing sound
  have hd : ∀ k', depth k' (toRel (sortAbs as.flatten)) 0 = 0 := by
    intro k'
    have e1 := depth_events k' (toRel (sortAbs as.flatten)) 0 0
    rw [← e1]
    have e2 : eventsRelGo 0 (toRel (sortAbs as.flatten)) = eventsAbs (sortAbs as.flatten) :=
      C04.toRel_events _ hU
    rw [e2, depth_eventsAbs]
    exact depth_union_zero k' as _ hperm hs (hgood k')
  have hfuse := sounding_fuse _ _ k t (events_sorted _ 0 hnn) (normalise_fuse _ hnn hd k)
  rw [mergeRel, hfuse]
  have e2 : eventsRelGo 0 (toRel (sortAbs as.flatten)) = eventsAbs (sortAbs as.flatten) :=
    C04.toRel_events _ hU
  rw [e2, sounding_abs, depth_union k t as _ hperm hs (hgood k) hsa]
  constructor
  · rintro ⟨a, ha, h0⟩
    exact ⟨a, ha, (sounding_abs a k t).2 h0⟩
  · rintro ⟨a, ha, h0⟩
    exact ⟨a, ha, (sounding_abs a k t).1 h0⟩

/-- **order independence** of the sounding set (hence of the notes' pitch, onset and duration) -/
theorem order_independent (as as' : List (List Msg)) (hp : as.Perm as')
    (h : ∀ a ∈ as, OkAbs a ∧ WF a ∧ PosDur a) (k : Int × Int) (t : Int) :
    SoundingAt (eventsRel (mergeRel as)) k t ↔ SoundingAt (eventsRel (mergeRel as')) k t := by
  rw [union as h k t, union as' (fun a ha => h a (hp.mem_iff.2 ha)) k t]
  constructor
  · rintro ⟨a, ha, h0⟩
    exact ⟨a, hp.mem_iff.1 ha, h0⟩
  · rintro ⟨a, ha, h0⟩
    exact ⟨a, hp.mem_iff.2 ha, h0⟩

/-- the merge is well-formed -/
theorem wf (as : List (List Msg)) : WF (mergeRel as) := normalise_wf _

/-! non-vacuity: two overlapping notes of one key on two inputs fuse into [0, 36) -/
def exA : List Msg := [Msg.mkOn 0 60 64 0, Msg.mkOff 0 60 24]
def exB : List Msg := [Msg.mkOn 0 60 90 12, Msg.mkOff 0 60 36, Msg.mkInternal 0 48]
example : mergeRel [exA, exB] =
    [Msg.mkOn 0 60 64 pyNone, Msg.mkWait 0 36, Msg.mkOff 0 60 pyNone, Msg.mkWait 0 12] := by
  decide
example : (OkAbs exA ∧ WF exA ∧ PosDur exA) ∧ (OkAbs exB ∧ WF exB ∧ PosDur exB) := by
  refine ⟨⟨⟨?_, ?_, by decide⟩, ?_, by unfold PosDur; decide⟩, ⟨⟨?_, ?_, by decide⟩, ?_, by unfold PosDur; decide⟩⟩
  · simp [TimeSorted, exA, Msg.mkOn, Msg.mkOff]
  · simp [NonNegTimes, exA, Msg.mkOn, Msg.mkOff]
  · intro k
    simp only [altFrom, exA, Msg.mkOn, Msg.mkOff, Msg.nkey]
    by_cases hk : ((0 : Int), (60 : Int)) = k <;> simp [hk]
  · simp [TimeSorted, exB, Msg.mkOn, Msg.mkOff, Msg.mkInternal]
  · simp [NonNegTimes, exB, Msg.mkOn, Msg.mkOff, Msg.mkInternal]
  · intro k
    simp only [altFrom, exB, Msg.mkOn, Msg.mkOff, Msg.mkInternal, Msg.nkey]
    by_cases hk : ((0 : Int), (60 : Int)) = k <;> simp [hk]

end SCoda.C15
