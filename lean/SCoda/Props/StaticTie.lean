/-
  Tie between the *generated* translation of the static / file-level layer (Gen/StaticFns.lean, re-read from
  scoda/sequences/sequence.py and scoda/midi/*.py on every run by tools/py2lean_static.py) and the hand models
  `splitBars` (Model/Bar.lean), `parseMido` / `parseTrack` (Model/MidiParse.lean), `convert` (Model/Midi.lean) that the
  C09 / C03 / C10 and C12 / C13 theorems are about and that the driver executes.

  The translation runs on top of the translated `Sequence` wrapper and the translated `Bar.__init__`; the equalities of
  Props/WrapTie.lean and Props/ElemTie.lean are used to compute through them.
-/
import SCoda.Lemmas.StaticTieL
import SCoda.Model.BarOps
namespace SCoda.StaticTie
open SCoda SCoda.WrapTie SCoda.StaticTieL SCoda.SB SCoda.ElemTie

/-! ## `Sequence.sequences_split_bars` -/

/-- **`Sequence.sequences_split_bars(sequences, meta_track_index, quantise_note_lengths)` as translated from sequence.py is
    the hand model `splitBars` on the relative views of the inputs**: same exception, or the same bars track by track (a
    translated bar is compared through `GBar.toBar`: relative view of its sequence, numerator, denominator, key).  All
    inputs, every wrapper state, both settings of the flag, any meta index (out of range: IndexError on both sides), the
    stated fuel of the `while` loop included (the translated loop and `splitBarsGo` run out of fuel together).
    Hypotheses (each replayed on the real code at an excluded point, see the report):
    `hread` no input has both views stale (C04's invariant; the code would copy such a sequence to an empty one, the model
    raises); `hmeta` the absolute view of the *meta* sequence, where fresh, is the conversion of its relative view (the code
    reads the signatures from the fresh absolute view of the copy, the model from `toAbs` of the relative view);
    `hsig` time signatures on the meta track have numerator ≥ 0 and denominator > 0 and `hp` PPQN ≥ 0: the domain on which
    Python's `int(PPQN * (n / (d / 4)))` and `int(n * PPQN / (d / 4))` are the model's integer `n * PPQN * 4 / d` (audit A15).
    Removes the link `sequences_split_bars ↦ splitBars` from the assumptions (DESIGN §9.2c). -/
theorem sequencesSplitBars_eq (e : Env) (seqs : List Seq) (mi : Nat) (rq : Bool) (hp : 0 ≤ e.ppqn)
    (hread : ∀ s ∈ seqs, Readable s)
    (hmeta : ∀ s, seqs[mi]? = some s → AbsCoherent s)
    (hsig : ∀ s p, seqs[mi]? = some s → s.readRel = .ok p → ∀ m ∈ p.2, m.ty = .timeSignature → 0 ≤ m.num ∧ 0 < m.den) :
    (fun tb => tb.map (·.map GBar.toBar)) <$> Gen.Static.sequencesSplitBars e seqs mi rq =
      (do let rels ← readRels seqs
          splitBars e.ppqn e.defValues rels mi rq) := by
  obtain ⟨rels, hr1, hr2⟩ := readRels_copy seqs hread
  rw [hr1]
  simp only [ok_bind]
  unfold Gen.Static.sequencesSplitBars
  simp only [mapM_copy, ok_bind]
  obtain ⟨hsome, hnone⟩ := readRels_getElem _ _ mi hr1
  cases hs : seqs[mi]? with
  | none =>
    have h1 : pyGetNat (seqs.map Seq.copy) mi = .error .indexError := pyGetNat_none (by simp [hs])
    have h2 := hnone hs
    simp [h1, splitBars, h2]
  | some s =>
    obtain ⟨r, hrm, hrs⟩ := hsome s hs
    have h1 : pyGetNat (seqs.map Seq.copy) mi = .ok s.copy := pyGetNat_some (by simp [hs])
    cases hp' : s.readRel with
    | error er => rw [hp'] at hrs; cases hrs
    | ok p =>
      rw [hp'] at hrs
      simp only [map_ok, Except.ok.injEq] at hrs
      obtain ⟨c', hc1, hc2, hc3⟩ := copy_readAbs s (hread s (List.mem_of_getElem? hs)) (hmeta s hs) p hp'
      rw [hrs] at hc1 hc2 hc3
      have hi : mi < (seqs.map Seq.copy).length := by
        have := List.getElem?_eq_some_iff.mp hs
        obtain ⟨h, _⟩ := this
        simpa using h
      have hr3 : readRels ((seqs.map Seq.copy).set mi c') = .ok rels := readRels_set _ _ _ _ _ hr2 hrm hc3
      have hg2 : pyGetNat ((seqs.map Seq.copy).set mi c') mi = .ok c' := pyGetNat_some (by have h' := hi; simp only [List.length_map] at h'; simp [h'])
      have hi2 : mi < ((seqs.map Seq.copy).set mi c').length := by simpa using hi
      simp only [h1, ok_bind, getMessageTimesOfType_eq, hc1, hc2, pure_eq, pySetNat_lt _ _ _ hi, pySetNat_lt _ _ _ hi2, hg2, List.set_set,
        loop1_fun, filter_ty, whileG_shape, splitBarsFuel_eq _ _ hr3]
      rw [SB.splitBars_eq e.ppqn e.defValues rels mi rq r hrm]
      have hlen : ((seqs.map Seq.copy).set mi c').length = rels.length := by
        have := mapM_ok_length _ _ _ hr3
        omega
      have hb0 : (((seqs.map Seq.copy).set mi c').map (fun _ => ([] : List GBar))).map (·.map GBar.toBar) =
          (rels.map (fun _ => ([] : List Bar))).map List.reverse := by
        simp only [List.map_map, Function.comp_def, List.map_nil, List.reverse_nil]
        rw [List.map_const', List.map_const', hlen]
      have hks := AscT_qOf _ (timesOfType_toAbs_asc .keySignature (by decide) r)
      have hqk := QRel_qOf (timesOfType .keySignature (toAbs r))
      by_cases hemp : (timesOfType .timeSignature (toAbs r)).length = 0
      · have h0 : timesOfType .timeSignature (toAbs r) = [] := List.length_eq_zero_iff.mp hemp
        have hinit : initTs r = [Msg.mkTimeSig 0 4 4 0] := by simp [initTs, h0]
        simp only [h0, qOf, List.map_nil, List.length_nil, Int.natCast_zero, decide_true, if_true]
        have := while_eq e rq hp (fuelOf rels) ((seqs.map Seq.copy).set mi c') _
          { tsQ := initTs r, ksQ := timesOfType .keySignature (toAbs r), tracks := rels, bars := rels.map (fun _ => []) }
          [(0, { ty := MType.timeSignature, num := 4, den := 4 })] (qOf (timesOfType .keySignature (toAbs r)))
          hr3 hb0 (by simp) (by simp [AscT]) hks (by rw [hinit]; rfl) hqk (by rw [hinit]; simp [Msg.mkTimeSig]) (by show (0:Int) ≤ 4; decide) (by show (0:Int) < 4; decide)
        exact this
      · have hinit : initTs r = timesOfType .timeSignature (toAbs r) := by simp [initTs, hemp]
        have hne : ¬ (((qOf (timesOfType .timeSignature (toAbs r))).length : Int) = 0) := by
          simp only [qOf, List.length_map]; omega
        simp only [hne, decide_false, Bool.false_eq_true, if_false]
        have := while_eq e rq hp (fuelOf rels) ((seqs.map Seq.copy).set mi c') _
          { tsQ := initTs r, ksQ := timesOfType .keySignature (toAbs r), tracks := rels, bars := rels.map (fun _ => []) }
          (qOf (timesOfType .timeSignature (toAbs r))) (qOf (timesOfType .keySignature (toAbs r)))
          hr3 hb0 (by simp) (AscT_qOf _ (timesOfType_toAbs_asc .timeSignature (by decide) r)) hks (by rw [hinit]; exact QRel_qOf _) hqk
          (by rw [hinit]; exact timesOfType_toAbs_sig r (by rw [← hrs]; exact hsig s p hs hp')) (by show (0:Int) ≤ 4; decide) (by show (0:Int) < 4; decide)
        exact this

/-- the link `View.seq_split_bars` used by the element-layer translation (`Composition.from_sequences`) is the translated
    function up to the stale absolute view of every bar's sequence -/
theorem seq_split_bars_link (e : Env) (seqs : List Seq) (mi : Nat) (rq : Bool) (hp : 0 ≤ e.ppqn)
    (hread : ∀ s ∈ seqs, Readable s) (hmeta : ∀ s, seqs[mi]? = some s → AbsCoherent s)
    (hsig : ∀ s p, seqs[mi]? = some s → s.readRel = .ok p → ∀ m ∈ p.2, m.ty = .timeSignature → 0 ≤ m.num ∧ 0 < m.den) :
    View.seq_split_bars e seqs mi rq =
      (fun tb => tb.map (·.map (fun g => GBar.ofBar g.toBar))) <$> Gen.Static.sequencesSplitBars e seqs mi rq := by
  have h := sequencesSplitBars_eq e seqs mi rq hp hread hmeta hsig
  have hv : View.seq_split_bars e seqs mi rq =
      (readRels seqs >>= fun rels => (fun (tb : List (List Bar)) => tb.map (fun bs => bs.map GBar.ofBar)) <$> splitBars e.ppqn e.defValues rels mi rq) := by
    unfold View.seq_split_bars readRels
    cases List.mapM (fun x : Seq => (·.2) <$> x.readRel) seqs with
    | error x => rfl
    | ok rels => simp only [ok_bind]; cases splitBars e.ppqn e.defValues rels mi rq <;> rfl
  rw [hv]
  cases hg : Gen.Static.sequencesSplitBars e seqs mi rq with
  | error er =>
    rw [hg] at h
    simp only [map_error] at h ⊢
    cases hr : readRels seqs with
    | error x => rw [hr] at h; simp only [error_bind] at h ⊢; injection h with h; rw [h]
    | ok rels => rw [hr] at h; simp only [ok_bind] at h ⊢; rw [← h]; rfl
  | ok tb =>
    rw [hg] at h
    simp only [map_ok] at h ⊢
    cases hr : readRels seqs with
    | error x => rw [hr] at h; cases h
    | ok rels =>
      rw [hr] at h; simp only [ok_bind] at h ⊢; rw [← h]
      simp [List.map_map, Function.comp_def]

/-- every bar the translated `sequences_split_bars` returns is in the state `Bar.__init__` leaves it in: relative view fresh,
    absolute view stale — so `GBar.toBar` forgets nothing that can be observed -/
theorem sequencesSplitBars_constructed (e : Env) (seqs : List Seq) (mi : Nat) (rq : Bool) (hp : 0 ≤ e.ppqn)
    (hread : ∀ s ∈ seqs, Readable s)
    (hmeta : ∀ s, seqs[mi]? = some s → AbsCoherent s)
    (hsig : ∀ s p, seqs[mi]? = some s → s.readRel = .ok p → ∀ m ∈ p.2, m.ty = .timeSignature → 0 ≤ m.num ∧ 0 < m.den)
    (tb : List (List GBar)) (h : Gen.Static.sequencesSplitBars e seqs mi rq = .ok tb) :
    ∀ bars ∈ tb, ∀ g ∈ bars, g.sequence.absStale = true ∧ g.sequence.relStale = false := by
  obtain ⟨rels, hr1, hr2⟩ := readRels_copy seqs hread
  unfold Gen.Static.sequencesSplitBars at h
  simp only [mapM_copy, ok_bind] at h
  obtain ⟨hsome, hnone⟩ := readRels_getElem _ _ mi hr1
  cases hs : seqs[mi]? with
  | none =>
    have h1 : pyGetNat (seqs.map Seq.copy) mi = .error .indexError := pyGetNat_none (by simp [hs])
    rw [h1] at h
    cases h
  | some s =>
    obtain ⟨r, hrm, hrs⟩ := hsome s hs
    have h1 : pyGetNat (seqs.map Seq.copy) mi = .ok s.copy := pyGetNat_some (by simp [hs])
    cases hp' : s.readRel with
    | error er => rw [hp'] at hrs; cases hrs
    | ok p =>
      rw [hp'] at hrs
      simp only [map_ok, Except.ok.injEq] at hrs
      obtain ⟨c', hc1, hc2, hc3⟩ := copy_readAbs s (hread s (List.mem_of_getElem? hs)) (hmeta s hs) p hp'
      rw [hrs] at hc1 hc2 hc3
      have hi : mi < (seqs.map Seq.copy).length := by
        have := List.getElem?_eq_some_iff.mp hs
        obtain ⟨h, _⟩ := this
        simpa using h
      have hr3 : readRels ((seqs.map Seq.copy).set mi c') = .ok rels := readRels_set _ _ _ _ _ hr2 hrm hc3
      have hg2 : pyGetNat ((seqs.map Seq.copy).set mi c') mi = .ok c' := pyGetNat_some (by have h' := hi; simp only [List.length_map] at h'; simp [h'])
      have hi2 : mi < ((seqs.map Seq.copy).set mi c').length := by simpa using hi
      simp only [h1, ok_bind, getMessageTimesOfType_eq, hc1, hc2, pure_eq, pySetNat_lt _ _ _ hi, pySetNat_lt _ _ _ hi2, hg2, List.set_set,
        loop1_fun, filter_ty, whileG_shape, splitBarsFuel_eq _ _ hr3] at h
      have hlen : ((seqs.map Seq.copy).set mi c').length = rels.length := by
        have := mapM_ok_length _ _ _ hr3
        omega
      have hb0 : (((seqs.map Seq.copy).set mi c').map (fun _ => ([] : List GBar))).map (·.map GBar.toBar) =
          (rels.map (fun _ => ([] : List Bar))).map List.reverse := by
        simp only [List.map_map, Function.comp_def, List.map_nil, List.reverse_nil]
        rw [List.map_const', List.map_const', hlen]
      have hc0 : AllConstructed (((seqs.map Seq.copy).set mi c').map (fun _ => ([] : List GBar))) := by
        intro bars hb g hg
        simp only [List.mem_map] at hb
        obtain ⟨_, _, rfl⟩ := hb
        cases hg
      have hks := AscT_qOf _ (timesOfType_toAbs_asc .keySignature (by decide) r)
      have hqk := QRel_qOf (timesOfType .keySignature (toAbs r))
      by_cases hemp : (timesOfType .timeSignature (toAbs r)).length = 0
      · have h0 : timesOfType .timeSignature (toAbs r) = [] := List.length_eq_zero_iff.mp hemp
        have hinit : initTs r = [Msg.mkTimeSig 0 4 4 0] := by simp [initTs, h0]
        simp only [h0, qOf, List.map_nil, List.length_nil, Int.natCast_zero, decide_true, if_true] at h
        exact while_flags e rq hp (fuelOf rels) ((seqs.map Seq.copy).set mi c') _
          { tsQ := initTs r, ksQ := timesOfType .keySignature (toAbs r), tracks := rels, bars := rels.map (fun _ => []) }
          [(0, { ty := MType.timeSignature, num := 4, den := 4 })] (qOf (timesOfType .keySignature (toAbs r)))
          hr3 hb0 (by simp) (by simp [AscT]) hks (by rw [hinit]; rfl) hqk (by rw [hinit]; simp [Msg.mkTimeSig]) (by show (0:Int) ≤ 4; decide)
          (by show (0:Int) < 4; decide) hc0 tb h
      · have hinit : initTs r = timesOfType .timeSignature (toAbs r) := by simp [initTs, hemp]
        have hne : ¬ (((qOf (timesOfType .timeSignature (toAbs r))).length : Int) = 0) := by
          simp only [qOf, List.length_map]; omega
        simp only [hne, decide_false, Bool.false_eq_true, if_false] at h
        exact while_flags e rq hp (fuelOf rels) ((seqs.map Seq.copy).set mi c') _
          { tsQ := initTs r, ksQ := timesOfType .keySignature (toAbs r), tracks := rels, bars := rels.map (fun _ => []) }
          (qOf (timesOfType .timeSignature (toAbs r))) (qOf (timesOfType .keySignature (toAbs r)))
          hr3 hb0 (by simp) (AscT_qOf _ (timesOfType_toAbs_asc .timeSignature (by decide) r)) hks (by rw [hinit]; exact QRel_qOf _) hqk
          (by rw [hinit]; exact timesOfType_toAbs_sig r (by rw [← hrs]; exact hsig s p hs hp')) (by show (0:Int) ≤ 4; decide)
          (by show (0:Int) < 4; decide) hc0 tb h

/-- inputs given by their relative views (`Sequence(relative_sequence=…)`): no hypothesis on the wrapper states is left -/
theorem sequencesSplitBars_ofRel (e : Env) (rels : List (List Msg)) (mi : Nat) (rq : Bool) (hp : 0 ≤ e.ppqn)
    (hsig : ∀ r, rels[mi]? = some r → ∀ m ∈ r, m.ty = .timeSignature → 0 ≤ m.num ∧ 0 < m.den) :
    (fun tb => tb.map (·.map GBar.toBar)) <$> Gen.Static.sequencesSplitBars e (rels.map Seq.ofRel) mi rq =
      splitBars e.ppqn e.defValues rels mi rq := by
  have hrr : ∀ l : List (List Msg), readRels (l.map Seq.ofRel) = .ok l := by
    intro l
    induction l with
    | nil => rfl
    | cons r rs ih => exact readRels_cons_ok _ _ _ _ rfl ih
  have h := sequencesSplitBars_eq e (rels.map Seq.ofRel) mi rq hp
    (by intro s hs; obtain ⟨r, _, rfl⟩ := List.mem_map.mp hs; simp [Readable, Seq.ofRel])
    (by intro s hs; rw [List.getElem?_map] at hs
        cases hr : rels[mi]? with
        | none => rw [hr] at hs; cases hs
        | some r => rw [hr] at hs; simp only [Option.map_some, Option.some.injEq] at hs; subst hs; intro hh; simp [Seq.ofRel] at hh)
    (by intro s p hs hpp m hm
        rw [List.getElem?_map] at hs
        cases hr : rels[mi]? with
        | none => rw [hr] at hs; cases hs
        | some r =>
          rw [hr] at hs; simp only [Option.map_some, Option.some.injEq] at hs; subst hs
          simp only [Seq.readRel, Seq.ofRel, Bool.false_eq_true, if_false, Except.ok.injEq] at hpp
          subst hpp
          exact hsig r hr m hm)
  rw [hrr rels] at h
  exact h

/-! non-vacuity: a 3/4 piece of 120 ticks on the meta track and a second track; all hypotheses hold, the conclusion is
    evaluated by the kernel -/
def exMeta : List Msg := [Msg.mkTimeSig 0 3 4 pyNone, Msg.mkOn 0 60 90 pyNone, Msg.mkWait 0 100, Msg.mkOff 0 60 pyNone, Msg.mkWait 0 20]
def exOther : List Msg := [Msg.mkOn 1 64 80 pyNone, Msg.mkWait 1 30, Msg.mkOff 1 64 pyNone]

example : (0 ≤ genEnv.ppqn) ∧ (∀ r, [exMeta, exOther][0]? = some r → ∀ m ∈ r, m.ty = .timeSignature → 0 ≤ m.num ∧ 0 < m.den) := by
  refine ⟨by decide, ?_⟩
  intro r hr
  simp only [List.getElem?_cons_zero, Option.some.injEq] at hr
  subst hr
  decide

set_option maxRecDepth 100000 in
example : (fun tb => tb.map (·.map GBar.toBar)) <$> Gen.Static.sequencesSplitBars genEnv [Seq.ofRel exMeta, Seq.ofRel exOther] 0 true
    = splitBars genEnv.ppqn genEnv.defValues [exMeta, exOther] 0 true := by decide +kernel

set_option maxRecDepth 100000 in
example : ((fun tb => tb.map (·.map (fun (b : Bar) => (b.num, b.den, totalWait b.seq)))) <$>
      splitBars genEnv.ppqn genEnv.defValues [exMeta, exOther] 0 true)
    = .ok [[(3, 4, 72), (3, 4, 72)], [(3, 4, 72), (3, 4, 72)]] := by decide +kernel

/-! ## `MidiMessage.parse_mido_message`, `MidiTrack.parse_mido_track` -/

/-- **`MidiMessage.parse_mido_message(mido_message)` as translated from midi_message.py is the hand model `parseMido`**, for
    every mido message (every kind, with or without a channel attribute, any key name: `KeyError` on both sides when the
    name is not in `MusicMapping.KeyKeyMapping`).  No hypothesis.  Ties the model of Model/MidiParse.lean (until now "NOT yet
    tied to the code by the correspondence check") to the source. -/
theorem parseMidoMessage_eq (e : Env) (m : MidoMsg) : Gen.Static.parseMidoMessage e m = parseMido m :=
  StaticTieL.parseMidoMessage_eq e m

/-- **`MidiTrack.parse_mido_track(mido_track)` as translated is `parseTrack`**: every message parsed in order, the first
    exception wins.  No hypothesis. -/
theorem parseMidoTrack_eq (e : Env) (t : List MidoMsg) : Gen.Static.parseMidoTrack e t = parseTrack t := by
  unfold Gen.Static.parseMidoTrack
  simp only [parseMidoTrack_loop]
  cases parseTrack t <;> simp [Except.map]

example : Gen.Static.parseMidoMessage genEnv { type := .noteOn, time := 5, channel := some 2, note := 60, velocity := 0 }
    = .ok { ty := .noteOff, ch := 2, time := 5, note := 60, vel := 0 } := by decide +kernel
example : Gen.Static.parseMidoMessage genEnv { type := .keySignature, time := 0, key := "H" } = .error .keyError := by decide +kernel
example : Gen.Static.parseMidoTrack genEnv [{ type := .keySignature, key := "F#m" }, { type := .other, time := 7 }]
    = .ok [{ ty := .keySignature, ch := pyNone, time := 0, key := 3 }, { ty := .sequenceControl, ch := pyNone, time := 7 }] := by
  decide +kernel

/-! ## `MidiFile.convert` -/

set_option maxHeartbeats 400000 in
/-- **`MidiFile.convert(track_indices, meta_track_indices, meta_track_index)` as translated from midi_file.py is the hand model
    `convert`** (Model/Midi.lean) on the file's tracks and resolution: same list of sequences (same views, same stale flags)
    or the same exception (`IndexError` for an empty group, `ValueError` for a meta index out of range), for every file, every
    grouping (a track listed twice reaches the first group only, tracks outside every group and every meta list are skipped),
    every meta list and every target index.  No hypothesis.  The running position is an exact rational on both sides (the
    translation accumulates `time * (PPQN / ticks_per_beat)`, the model rounds `ticks * PPQN / ticks_per_beat`); Python
    accumulates IEEE doubles — the idealisation recorded in DESIGN §5 / §9.3b (`ticks_per_beat = 0`: Python raises
    ZeroDivisionError, both Lean sides divide totally).  `current_sequence` is a reference local (`PRef`): the proof shows it
    always names `sequences[g][k]` or `meta_sequence` where it is used (no AttributeError / StopIteration / ValueError of
    `list.index` is ever raised).  Removes the link "`MidiFile.convert` ↦ `convert`, tied by sampling only" (DESIGN §9.2c). -/
theorem convert_eq (e : Env) (f : GMidiFile) (groups : List (List Nat)) (metaIdx : List Nat) (target : Int) :
    (·.2) <$> Gen.Static.convert e f groups metaIdx target = SCoda.convert e.ppqn f.ppqn f.tracks groups metaIdx target := by
  unfold Gen.Static.convert SCoda.convert
  have h1 := tracks_loop e f.ppqn groups metaIdx f.tracks.zipIdx
    { seqs := groups.map (fun g => g.map (fun _ => Seq.new)) } (by simp)
  simp only [dcOf, Option.getD_none] at h1
  simp only [h1]
  cases hs : foldlM' (convTrack e.ppqn f.ppqn groups metaIdx) { seqs := groups.map (fun g => g.map (fun _ => Seq.new)) } f.tracks.zipIdx with
  | error x => rfl
  | ok s =>
    have hdc := fold_convTrack_dc _ _ _ _ _ _ _ hs (by simp)
    simp only [Except.map, ok_bind]
    rw [foldlM'_congr _ (fun (acc : List Seq) g => do let t ← groupM g; .ok (acc ++ [t])) (by
      intro acc g
      simp only [foldl_append_mapM, groupM]
      cases g.mapM Seq.normaliseSeq with
      | error x => rfl
      | ok g' =>
        simp only [Except.map, List.nil_append, ok_bind]
        cases g' with
        | nil => rfl
        | cons t rest =>
          have hrf : foldlM' (fun (a : List (List Msg)) (q : Seq) => do let p ← q.readAbs; .ok (a ++ [p.2])) [] rest = readAbss rest :=
            readAbss_fold rest
          simp only [hrf]
          cases readAbss rest with
          | error x => rfl
          | ok abss => simp only [ok_bind])]
    have h2 := groups_loop e s.seqs [] []
    simp only [List.length_nil, List.nil_append, ← List.range_eq_range'] at h2
    rw [← h2]
    cases hl : forIn (List.range s.seqs.length) (s.seqs, ([] : List Seq)) (Gen.Static.convert_loop3 e) with
    | error x => rfl
    | ok st =>
      simp only [ok_bind, pure_bind]
      by_cases hb : (decide (0 > target) || decide (target ≥ (st.2.length : Int))) = true
      · have hb' : (decide (target < 0) || decide (target ≥ (st.2.length : Int))) = true := by
          simp only [Bool.or_eq_true, decide_eq_true_eq] at hb ⊢; omega
        rw [if_pos hb, if_pos hb']
        rfl
      · have hb' : ¬ (decide (target < 0) || decide (target ≥ (st.2.length : Int))) = true := by
          simp only [Bool.or_eq_true, decide_eq_true_eq] at hb ⊢; omega
        have h0 : 0 ≤ target := by simp only [Bool.or_eq_true, decide_eq_true_eq] at hb; omega
        have hl' : target < st.2.length := by simp only [Bool.or_eq_true, decide_eq_true_eq] at hb; omega
        rw [if_neg hb, if_neg hb']
        rw [convert_tail e f st.2 s.metaSeq s.defCh target h0 hl' hdc]
        cases st.2[target.toNat]? with
        | none => rfl
        | some mt =>
          simp only
          cases s.metaSeq.readAbs with
          | error x => rfl
          | ok pm =>
            simp only [ok_bind]
            cases mt.mergeSeq [pm.2] with
            | error x => rfl
            | ok mt' =>
              simp only [ok_bind]
              cases mt'.readAbs with
              | error x => rfl
              | ok pa =>
                simp only [ok_bind]
                split
                · rfl
                · cases pa.1.addAbsMsg _ <;> rfl

/-! ## the load glue: `MidiFile.__init__`, `MidiFile.parse_mido`, `MidiFile.open`, `Sequence.sequences_load` -/

/-- `MidiFile()`: no tracks, the library resolution -/
theorem midiFileInit_eq (e : Env) : Gen.Static.midiFileInit e = .ok { tracks := [], ppqn := e.ppqn } := rfl

theorem parseMido_loop (e : Env) : ∀ (l : List (List MidoMsg)) (f : GMidiFile),
    forIn l f (Gen.Static.parseMido_loop1 e) = (l.mapM parseTrack).map (fun ts => { f with tracks := f.tracks ++ ts }) := by
  intro l
  induction l with
  | nil => intro f; simp [Except.map]
  | cons t ts ih =>
    intro f
    rw [List.forIn_cons]
    simp only [Gen.Static.parseMido_loop1, parseMidoTrack_eq, List.mapM_cons]
    cases parseTrack t with
    | error x => rfl
    | ok tr =>
      simp only [ok_bind, pure_eq, ih]
      cases ts.mapM parseTrack <;> simp [Except.map]

/-- `MidiFile.parse_mido(mido_file)`: resolution taken over, every track parsed and appended -/
theorem parseMido_eq (e : Env) (f : GMidiFile) (mf : MidoFile) :
    Gen.Static.parseMido e f mf =
      (mf.tracks.mapM parseTrack).map (fun ts => ({ tracks := f.tracks ++ ts, ppqn := mf.ticksPerBeat }, ())) := by
  unfold Gen.Static.parseMido
  simp only [parseMido_loop]
  cases mf.tracks.mapM parseTrack <;> simp [Except.map]

/-- `MidiFile.open(path)`: a new file object filled by the parser from what `mido` read -/
theorem midiFileOpen_eq (e : Env) (mf : MidoFile) :
    Gen.Static.midiFileOpen e (some mf) = (mf.tracks.mapM parseTrack).map (fun ts => { tracks := ts, ppqn := mf.ticksPerBeat }) := by
  unfold Gen.Static.midiFileOpen
  simp only [midiFileInit_eq, ok_bind, View.mido_open, Option.getD_some, parseMido_eq]
  cases mf.tracks.mapM parseTrack <;> simp [Except.map]

theorem zipIdx_snd {α} : ∀ (l : List α) (k : Nat), (l.zipIdx k).map (·.2) = List.range' k l.length := by
  intro l
  induction l with
  | nil => intro k; rfl
  | cons x xs ih => intro k; simp [List.zipIdx_cons, ih, List.range'_succ]

/-- **`Sequence.sequences_load(midi_file=f, track_indices, meta_track_indices, target)` as translated**: the defaults are one
    group per track and every track a meta track, then `convert` (the shape `C12.saveLoad` assumes) -/
theorem sequencesLoad_eq (e : Env) (path : Option MidoFile) (f : GMidiFile) (groups : Option (List (List Nat))) (metaIdx : Option (List Nat))
    (target : Int) :
    Gen.Static.sequencesLoad e path (some f) groups metaIdx target =
      SCoda.convert e.ppqn f.ppqn f.tracks (groups.getD ((List.range f.tracks.length).map (fun i => [i])))
        (metaIdx.getD (List.range f.tracks.length)) target := by
  have hz1 : f.tracks.zipIdx.map (fun p => [p.2]) = (List.range f.tracks.length).map (fun i => [i]) := by
    rw [List.range_eq_range', ← zipIdx_snd f.tracks 0, List.map_map]; rfl
  have hz2 : f.tracks.zipIdx.map (fun p => p.2) = List.range f.tracks.length := by
    rw [List.range_eq_range', ← zipIdx_snd f.tracks 0]
  unfold Gen.Static.sequencesLoad
  rw [← convert_eq]
  cases groups <;> cases metaIdx <;> simp only [pyUnwrap, ok_bind, pure_eq, hz1, hz2, Option.getD] <;>
    (cases Gen.Static.convert e f _ _ target <;> rfl)

/-- **`Sequence.sequences_load(file_path=path, …)` as translated**: the file is parsed message by message (`parseMido` /
    `parseTrack`, the first unknown key name raises `KeyError`), then loaded as above -/
theorem sequencesLoad_path_eq (e : Env) (mf : MidoFile) (groups : Option (List (List Nat))) (metaIdx : Option (List Nat)) (target : Int) :
    Gen.Static.sequencesLoad e (some mf) none groups metaIdx target =
      (do let ts ← mf.tracks.mapM parseTrack
          SCoda.convert e.ppqn mf.ticksPerBeat ts (groups.getD ((List.range ts.length).map (fun i => [i])))
            (metaIdx.getD (List.range ts.length)) target) := by
  have h := fun f => sequencesLoad_eq e (some mf) f groups metaIdx target
  unfold Gen.Static.sequencesLoad at h ⊢
  simp only [midiFileOpen_eq]
  cases hts : mf.tracks.mapM parseTrack with
  | error x => rfl
  | ok ts =>
    simp only [Except.map, ok_bind]
    exact h { tracks := ts, ppqn := mf.ticksPerBeat }

/-! non-vacuity: a two-track file at 480 ticks per beat, both tracks in one group; evaluated by the kernel -/
def exFile : GMidiFile :=
  { ppqn := 480,
    tracks := [[{ ty := .timeSignature, ch := pyNone, time := 0, num := 3, den := 4 }, { ty := .noteOn, ch := 2, time := 0, note := 60, vel := 90 },
                { ty := .noteOff, ch := 2, time := 470, note := 60, vel := 0 }],
               [{ ty := .sequenceControl, ch := pyNone, time := 5 }, { ty := .noteOn, ch := 1, time := 240, note := 64, vel := 70 },
                { ty := .noteOff, ch := 1, time := 240, note := 64, vel := 0 }]] }

set_option maxRecDepth 100000 in
example : (·.2) <$> Gen.Static.convert genEnv exFile [[0, 1]] [0] 0 = SCoda.convert 24 480 exFile.tracks [[0, 1]] [0] 0 := by decide +kernel

set_option maxRecDepth 100000 in
example : ((fun r => r.2.map (fun (s : Seq) => s.rel.map (fun m => (m.ty, m.ch, m.time, m.note)))) <$>
      Gen.Static.convert genEnv exFile [[0, 1]] [0] 0) =
    .ok [[(.timeSignature, 0, -1, -1), (.noteOn, 2, -1, 60), (.wait, 1, 12, -1), (.noteOn, 1, -1, 64), (.wait, 1, 12, -1),
          (.noteOff, 1, -1, 64), (.noteOff, 2, -1, 60)]] := by decide +kernel

/-! ## the save glue: `Sequence.to_midi_track`, `Sequence.sequences_save` -/

/-- `Sequence.to_midi_track()`: the relative view is read (regenerated if stale) and handed over message by message -/
theorem toMidiTrack_eq (e : Env) (s : Seq) : Gen.Static.toMidiTrack e s = (do let p ← s.readRel; pure (p.1, p.2)) := by
  unfold Gen.Static.toMidiTrack
  simp only [getRel_eq, View.rel_to_midi_track]
  cases hr : s.readRel with
  | error x => rfl
  | ok p =>
    have := readRel_snd _ _ _ (show s.readRel = .ok (p.1, p.2) from hr)
    simp only [map_ok, ok_bind, pure_eq]
    rw [this]

theorem save_loop (e : Env) : ∀ (rest pre : List Seq) (f : GMidiFile),
    (do let st ← forIn (List.range' pre.length rest.length) (pre ++ rest, f) (Gen.Static.sequencesSave_loop1 e)
        pure st.2) =
      (readRels rest).map (fun rels => { f with tracks := f.tracks ++ rels }) := by
  intro rest
  induction rest with
  | nil => intro pre f; simp [readRels, Except.map]
  | cons s ss ih =>
    intro pre f
    have hg : (pre ++ s :: ss)[pre.length]? = some s := by simp
    have hlen : pre.length < (pre ++ s :: ss).length := by simp
    simp only [List.length_cons, List.range'_succ, List.forIn_cons, Gen.Static.sequencesSave_loop1, pyGetNat, hg, ok_bind,
      toMidiTrack_eq, readRels, List.mapM_cons]
    cases s.readRel with
    | error x => rfl
    | ok p =>
      simp only [ok_bind, pure_bind, pySetNat, hlen, if_true, map_ok]
      have hset : (pre ++ s :: ss).set pre.length p.1 = (pre ++ [p.1]) ++ ss := by simp
      rw [hset]
      have := ih (pre ++ [p.1]) { f with tracks := f.tracks ++ [p.2] }
      simp only [List.length_append, List.length_cons, List.length_nil, Nat.zero_add] at this
      simp only [pure_eq] at this ⊢
      rw [this]
      simp only [readRels]
      cases List.mapM (fun x : Seq => (·.2) <$> x.readRel) ss <;> simp [Except.map]

/-- **`Sequence.sequences_save(sequences, path)` as translated**: the returned `MidiFile` holds one track per sequence, the
    messages of its relative view, at the library resolution (the write to the file system is not modelled) -/
theorem sequencesSave_eq (e : Env) (seqs : List Seq) :
    Gen.Static.sequencesSave e seqs () = (do let rels ← readRels seqs; pure { tracks := rels, ppqn := e.ppqn }) := by
  unfold Gen.Static.sequencesSave
  simp only [midiFileInit_eq, ok_bind]
  have h := save_loop e seqs [] { tracks := [], ppqn := e.ppqn }
  simp only [List.length_nil, List.nil_append, ← List.range_eq_range'] at h
  cases hl : forIn (List.range seqs.length) (seqs, ({ tracks := [], ppqn := e.ppqn } : GMidiFile)) (Gen.Static.sequencesSave_loop1 e) with
  | error x =>
    rw [hl] at h
    simp only [error_bind] at h ⊢
    cases hr : readRels seqs with
    | error y => rw [hr] at h; simp only [Except.map] at h; exact h
    | ok rels => rw [hr] at h; cases h
  | ok st =>
    rw [hl] at h
    simp only [ok_bind, pure_eq] at h ⊢
    cases hr : readRels seqs with
    | error y => rw [hr] at h; cases h
    | ok rels => rw [hr] at h; simp only [Except.map, Except.ok.injEq] at h; simp [h]

/-- tripwire: the list of translated static functions; each has an equality theorem above -/
theorem translated_covered :
    Gen.Static.translated = ["Sequence.get_message_times_of_type", "Sequence.sequences_split_bars", "MidiMessage.parse_mido_message",
      "MidiTrack.parse_mido_track", "MidiFile.__init__", "MidiFile.parse_mido", "MidiFile.open", "MidiFile.convert",
      "Sequence.sequences_load", "Sequence.to_midi_track", "Sequence.sequences_save"] := by decide

end SCoda.StaticTie
