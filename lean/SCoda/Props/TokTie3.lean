/-
  TOKENISER TIE, part 3 (audit round 4, item C6 first bullet, the call flags): the generated `tokenise` for BOTH values of
  `insert_bar_token`.

  The hand model `tokeniseCore` (Model/Token.lean) has no `insert_bar_token` parameter: it always emits the bar token, and the
  property theorems C01 / C03 are about the default `insert_bar_token = True`.  The source uses the flag in one place
  (notelike_tokenisation.py:136-137, inside `_apply_rest`: `if insert_bar_token: tokens.append(BAR)`).  This file proves what that
  amounts to, for every input of the tie's domain:

      tokenise(…, insert_bar_token = ibt)  =  the tokens of `tokeniseCore` passed through `keepBar ibt`
                                              (all of them for `True`; all but the bar tokens for `False`),
                                              the SAME final state, the SAME exception class.

  So a call with `insert_bar_token = False` is the default call with the `bar` tokens deleted (`tokenise_no_bar`): every statement of
  C01 / C03 about the tokens of the default call transfers through `List.filter (· ≠ bar)`, every statement about the carried state
  is unchanged.  `flag_running_time_signature = False` raises NotImplementedError (`TokTie2.tokenise_not_running`).
  The proofs (Lemmas/TokTieBarL.lean, TokTieBarL2.lean) are those of the default tie with the flag as a variable.
-/
import SCoda.Props.TokTie2
import SCoda.Lemmas.TokTieBarL2
namespace SCoda.TokTie3
open SCoda SCoda.TokLib SCoda.Gen.Tok SCoda.TokTieL SCoda.TokTie SCoda.TokTie2 SCoda.TokTieBarL

theorem liftE_mapT {β} (ibt : Bool) (f : List Tok × TokSt → β) (x : Except Err (List Tok × TokSt)) :
    liftE f (mapT ibt x) = liftE (fun r => f (keepBar ibt r.1, r.2)) x := by
  cases x <;> rfl

/-- WHAT THE SOURCE COMPUTES for either value of `insert_bar_token` (every input of the tie's domain, no condition on the waits):
    the tokens of the hand model `tokeniseCore` passed through `keepBar ibt` — all of them for `true`, all but the bar tokens for
    `false` —, the same new state written back into `d`, the same exception class.  Hypotheses as in `TokTie2.tokenise_eq_in`. -/
theorem tokenise_eq_flag (ibt : Bool) (o : TokObj) (rels : List (List Msg)) (d : List (String × Int))
    (hlen : (rels.length : Int) = o.numTracks)
    (hd : (stOfDict o d).tsDen ≠ 0) (hn : 0 ≤ o.ppqn * 4 * (stOfDict o d).tsNum) (hts : TsInOk o.ppqn rels) :
    tokenise o (rels.map LSeq.rel) ibt true (some d) =
      liftE (fun r => (writeSt d r.2, (keepBar ibt r.1).map render))
        (tokeniseCore (cfgOf o) (stOfDict o d) (extract Gen.ppqn rels)) := by
  have hev : ∀ ev ∈ extract Gen.ppqn rels, EvOk o.ppqn ev :=
    fun ev h m hm => ⟨extract_ch _ _ ev h m hm, tsEvOk_of_input _ _ rels hts ev h m hm⟩
  rw [tokenise_someB ibt o rels d hlen hd hn hev, tokeniseCoreB_keep, liftE_mapT]

/-- the same at the tokeniser's OWN `ppqn` (tracks with non-negative waits and no INTERNAL message), the form that composes with
    the C01 / C03 theorems -/
theorem tokenise_eq_flag_gen (ibt : Bool) (o : TokObj) (rels : List (List Msg)) (d : List (String × Int))
    (hok : ∀ t ∈ rels, OkRel t) (hlen : (rels.length : Int) = o.numTracks)
    (hd : (stOfDict o d).tsDen ≠ 0) (hn : 0 ≤ o.ppqn * 4 * (stOfDict o d).tsNum) (hts : TsInOk o.ppqn rels) :
    tokenise o (rels.map LSeq.rel) ibt true (some d) =
      liftE (fun r => (writeSt d r.2, (keepBar ibt r.1).map render))
        (tokeniseCore (cfgOf o) (stOfDict o d) (extract (cfgOf o).ppqn rels)) := by
  rw [TokPpqnL.extract_ppqn_irrel (cfgOf o).ppqn Gen.ppqn rels hok]
  exact tokenise_eq_flag ibt o rels d hlen hd hn hts

/-- **`insert_bar_token = False` is the default call with the bar tokens deleted**: same state, same exceptions, and the tokens
    are those of the hand model without `Tok.bar` -/
theorem tokenise_no_bar (o : TokObj) (rels : List (List Msg)) (d : List (String × Int))
    (hok : ∀ t ∈ rels, OkRel t) (hlen : (rels.length : Int) = o.numTracks)
    (hd : (stOfDict o d).tsDen ≠ 0) (hn : 0 ≤ o.ppqn * 4 * (stOfDict o d).tsNum) (hts : TsInOk o.ppqn rels) :
    tokenise o (rels.map LSeq.rel) false true (some d) =
      liftE (fun r => (writeSt d r.2, (r.1.filter (fun t => t != Tok.bar)).map render))
        (tokeniseCore (cfgOf o) (stOfDict o d) (extract (cfgOf o).ppqn rels)) :=
  tokenise_eq_flag_gen false o rels d hok hlen hd hn hts

/-- stateless call (`state_dict=None`), either flag, own `ppqn` -/
theorem tokenise_fresh_flag_gen (ibt : Bool) (o : TokObj) (rels : List (List Msg))
    (hok : ∀ t ∈ rels, OkRel t) (hlen : (rels.length : Int) = o.numTracks) (hp : 0 ≤ o.ppqn) (hts : TsInOk o.ppqn rels) :
    tokenise o (rels.map LSeq.rel) ibt true none =
      liftE (fun r => (writeSt [] r.2, (keepBar ibt r.1).map render))
        (tokeniseCore (cfgOf o) (TokSt.init (cfgOf o)) (extract (cfgOf o).ppqn rels)) := by
  rw [tokenise_none, ← stOfDict_nil]
  refine tokenise_eq_flag_gen ibt o rels [] hok hlen (show Gen.defaultTimeSignatureDenominator ≠ 0 by decide) ?_ hts
  show 0 ≤ o.ppqn * 4 * Gen.defaultTimeSignatureNumerator
  have : Gen.defaultTimeSignatureNumerator = 8 := rfl
  rw [this]; omega

/-- the default flag gives back the default tie: `keepBar true` is the identity -/
example (l : List Tok) : keepBar true l = l := rfl

/-- decidable equality of results, for the evaluated example -/
local instance exceptDecEq {ε α : Type} [DecidableEq ε] [DecidableEq α] : DecidableEq (Except ε α)
  | .ok a, .ok b => if h : a = b then isTrue (h ▸ rfl) else isFalse (fun h' => h (by cases h'; rfl))
  | .error a, .error b => if h : a = b then isTrue (h ▸ rfl) else isFalse (fun h' => h (by cases h'; rfl))
  | .ok _, .error _ => isFalse (by intro h; cases h)
  | .error _, .ok _ => isFalse (by intro h; cases h)

/-- non-vacuity at `ppqn = 48`, `insert_bar_token = False`: the hypotheses hold for `tk48` / `goodTracks`, and the conclusion
    evaluates to what the real code returns (replayed on /repo: `tokenise(…, insert_bar_token=False)` =
    `['trk_00-pit_060-val_48-vel_127', 'rst_48', 'rst_48', 'trk_00-pit_062-val_96-vel_127', 'rst_48', 'rst_48']`, same state) -/
example : tokenise tk48 (goodTracks.map LSeq.rel) false true none =
        .ok ([("cur_time", 192), ("cur_time_bar", 0), ("cur_time_signature_numerator", 8), ("cur_time_signature_denominator", 8),
              ("cur_bar_capacity_remaining", 192), ("prv_track", 0), ("prv_value", 96), ("prv_velocity", 127)],
             ["trk_00-pit_060-val_48-vel_127", "rst_48", "rst_48", "trk_00-pit_062-val_96-vel_127", "rst_48", "rst_48"]) := by
  rw [tokenise_fresh_flag_gen false tk48 goodTracks (by decide) rfl (by decide) (by decide)]
  decide +kernel

end SCoda.TokTie3
