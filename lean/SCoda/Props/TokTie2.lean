/-
  TOKENISER TIE, part 2 (audit round 4, item C6 first bullet): the tie of Props/TokTie.lean composed with the property
  theorems of Props/C01*.lean / C03*.lean.

  WHICH `ppqn` THE SOURCE USES (notelike_tokenisation.py, `tokenise`):
    * the bar capacities are `int(self.ppqn * 4 * n / d)` (lines 98, 232): the OBJECT's `ppqn`;
    * the pairings are `sequence_bar.get_interleaved_message_pairings([...])` (line 149) WITHOUT `standard_length`, whose default
      is the MODULE constant `PPQN` (sequence.py:330, absolute_sequence.py:460 → `get_message_pairings`, line 454: the note-off
      imputed for an unclosed note-on stands at `time + standard_length`).
  So the source MIXES the two: for a tokeniser built with `ppqn=48` an unclosed note would get length 24, not 48.  The tie
  `TokTie.tokenise_eq` says exactly that (`tokeniseCore (cfgOf o)` on `extract Gen.ppqn rels`); the property theorems are about
  `extract c.ppqn tracks`.

  RESULT: the mix is not observable on the domain of every property theorem.  `Sequence.merge` (line 146) sorts and normalises
  the piece, after which no note-on is left unclosed, PROVIDED the tracks have non-negative waits (`OkRel`, a hypothesis of every
  C01 / C03 theorem): `TokPpqnL.extract_ppqn_irrel`.  Hence `tokenise_eq_gen` / `tokenise_fresh_gen` below, about
  `extract (cfgOf o).ppqn rels`, which compose with `C01c.*` (`tokenise_roundtrip_gen`).  OUTSIDE that domain (a negative wait) the
  mix IS observable and the hand model `tokeniseCore ∘ extract c.ppqn` differs from the code: `extract_ppqn_statement_false`,
  `negwait_code_vs_model` (replayed on /repo, see there).

  The hypothesis on time-signature events is stated on the INPUT messages (`TsInOk`), not on `extract …`.
-/
import SCoda.Props.TokTie
import SCoda.Lemmas.TokPpqnL
import SCoda.Props.C01c
import SCoda.Lemmas.TokLib3L
namespace SCoda.TokTie2
open SCoda SCoda.TokLib SCoda.Gen.Tok SCoda.TokTieL SCoda.TokTie SCoda.C01 SCoda.ExtractL SCoda.TokLib3L SCoda.RenderL

/-- decidable equality of results, for the evaluated examples (structural, so that `decide +kernel` reduces it) -/
local instance exceptDecEq {ε α : Type} [DecidableEq ε] [DecidableEq α] : DecidableEq (Except ε α)
  | .ok a, .ok b => if h : a = b then isTrue (h ▸ rfl) else isFalse (fun h' => h (by cases h'; rfl))
  | .error a, .error b => if h : a = b then isTrue (h ▸ rfl) else isFalse (fun h' => h (by cases h'; rfl))
  | .ok _, .error _ => isFalse (by intro h; cases h)
  | .error _, .ok _ => isFalse (by intro h; cases h)

/-! ### 1. which `ppqn`: the general tie -/

/-- `ppqn` of the hand-model configuration is the object's `self.ppqn` -/
theorem cfgOf_ppqn (o : TokObj) : (cfgOf o).ppqn = o.ppqn := rfl

/-- INPUT-LEVEL side condition on time signatures: every time-signature message of the tracks has a non-zero denominator and
    a non-negative bar length (`int(ppqn * 4 * n / d)` raises ZeroDivisionError resp. truncates toward zero otherwise) -/
def TsInOk (ppqn : Int) (rels : List (List Msg)) : Prop :=
  ∀ t ∈ rels, ∀ m ∈ t, m.ty = .timeSignature → m.den ≠ 0 ∧ 0 ≤ ppqn * 4 * m.num

instance (ppqn : Int) (rels : List (List Msg)) : Decidable (TsInOk ppqn rels) := by
  unfold TsInOk; infer_instance

/-- the input-level condition gives the event-level one of `TokTie.tokenise_eq'`, for whatever `standard_length` -/
theorem tsEvOk_of_input (ppqn p : Int) (rels : List (List Msg)) (h : TsInOk ppqn rels) :
    ∀ ev ∈ extract p rels, TsEvOk ppqn ev := by
  intro ev hev m hm hty
  obtain ⟨t, ht, m0, hm0, h0, hnum, hden⟩ := Glue.extract_timesig p rels ev hev m (by simp [hm]) hty
  have := h t ht m0 hm0 h0
  rw [hnum, hden] at this
  exact this

/-- WHAT THE SOURCE COMPUTES, for every input (no condition on the waits): `tokeniseCore` with the OBJECT's `ppqn` in the bar
    capacities, on the pairings imputed with the MODULE constant `PPQN` (`Gen.ppqn`).  `TokTie.tokenise_eq'` with the
    time-signature condition moved to the input messages. -/
theorem tokenise_eq_in (o : TokObj) (rels : List (List Msg)) (d : List (String × Int))
    (hlen : (rels.length : Int) = o.numTracks)
    (hd : (stOfDict o d).tsDen ≠ 0) (hn : 0 ≤ o.ppqn * 4 * (stOfDict o d).tsNum) (hts : TsInOk o.ppqn rels) :
    tokenise o (rels.map LSeq.rel) true true (some d) =
      liftE (fun r => (writeSt d r.2, r.1.map render))
        (tokeniseCore (cfgOf o) (stOfDict o d) (extract Gen.ppqn rels)) :=
  tokenise_eq' o rels d hlen hd hn (tsEvOk_of_input _ _ rels hts)

/-- **THE TIE IN THE FORM THE PROPERTY THEOREMS USE** (closes C6, first bullet): for tracks with non-negative waits and no
    INTERNAL message (`OkRel`, assumed by every C01 / C03 theorem) the generated `tokenise` is the hand model `tokeniseCore` of
    the object's configuration applied to `extract (cfgOf o).ppqn rels` — the tokeniser's OWN `ppqn`, for any value of it.
    Other hypotheses as in `TokTie.tokenise_eq` (`hlen`, `hd`, `hn`), `hts` on the input messages. -/
theorem tokenise_eq_gen (o : TokObj) (rels : List (List Msg)) (d : List (String × Int))
    (hok : ∀ t ∈ rels, OkRel t) (hlen : (rels.length : Int) = o.numTracks)
    (hd : (stOfDict o d).tsDen ≠ 0) (hn : 0 ≤ o.ppqn * 4 * (stOfDict o d).tsNum) (hts : TsInOk o.ppqn rels) :
    tokenise o (rels.map LSeq.rel) true true (some d) =
      liftE (fun r => (writeSt d r.2, r.1.map render))
        (tokeniseCore (cfgOf o) (stOfDict o d) (extract (cfgOf o).ppqn rels)) := by
  rw [TokPpqnL.extract_ppqn_irrel (cfgOf o).ppqn Gen.ppqn rels hok]
  exact tokenise_eq_in o rels d hlen hd hn hts

/-- stateless call (`state_dict=None`), general `ppqn` -/
theorem tokenise_fresh_gen (o : TokObj) (rels : List (List Msg))
    (hok : ∀ t ∈ rels, OkRel t) (hlen : (rels.length : Int) = o.numTracks) (hp : 0 ≤ o.ppqn) (hts : TsInOk o.ppqn rels) :
    tokenise o (rels.map LSeq.rel) true true none =
      liftE (fun r => (writeSt [] r.2, r.1.map render))
        (tokeniseCore (cfgOf o) (TokSt.init (cfgOf o)) (extract (cfgOf o).ppqn rels)) := by
  rw [TokPpqnL.extract_ppqn_irrel (cfgOf o).ppqn Gen.ppqn rels hok]
  exact tokenise_fresh' o rels hlen hp (tsEvOk_of_input _ _ rels hts)

/-! #### the hypothesis `OkRel` is needed: a negative wait makes the mix observable -/

/-- a track that starts with a NEGATIVE wait: the note-on is at tick -6, its note-off at -4.  `to_relative_sequence` clamps both
    to tick 0, the re-sort of `to_absolute_sequence` then puts the note-off first, and the note-on is unclosed when the pairings
    are read: it gets the imputed length `standard_length`. -/
def negTracks : List (List Msg) :=
  [[Msg.mkWait 0 (-6), Msg.mkOn 0 60 64 pyNone, Msg.mkWait 0 2, Msg.mkOff 0 60 pyNone, Msg.mkWait 0 16]]

/-- the unrestricted statement (kept as a `def`) -/
def extract_ppqn_statement : Prop := ∀ (p q : Int) (tracks : List (List Msg)), extract p tracks = extract q tracks

/-- … is false: on `negTracks` the imputed note-off stands at 24 resp. 48.  Replayed on /repo (scratch `ppqn_probe.py`):
    `get_interleaved_message_pairings(standard_length=24 / 48)` after `merge` gives the note `[0, 24)` resp. `[0, 48)`. -/
theorem extract_ppqn_statement_false : ¬ extract_ppqn_statement := by
  intro h
  have := h 24 48 negTracks
  revert this
  decide

/-- a tokeniser with `ppqn = 48` (`step_sizes=[12, 24, 48]`, `note_values=[24, 48, 96]`, otherwise the defaults) -/
def tk48 : TokObj := initObj (some 48) 1 (21, 108) (some [12, 24, 48]) (some [24, 48, 96]) [127] (2, 16) true true true true true

/-- FINDING (domain: a negative wait, outside `OkRel`): what the CODE does on `negTracks` with `ppqn = 48` — note value 24, the
    module constant (replayed on /repo: `Tokeniser(ppqn=48, step_sizes=[12,24,48], note_values=[24,48,96]).tokenise([negTracks])`
    = `['trk_00-pit_060-val_24-vel_127', 'rst_12', 'rst_48', 'rst_48', 'rst_48', 'rst_24', 'rst_12', 'bar']`, as computed here
    from the generated code through `TokTie.tokenise_fresh'`) — against the hand model on `extract c.ppqn`: note value 48. -/
theorem negwait_code_vs_model :
    tokenise tk48 (negTracks.map LSeq.rel) true true none =
        .ok ([("cur_time", 192), ("cur_time_bar", 0), ("cur_time_signature_numerator", 8), ("cur_time_signature_denominator", 8),
              ("cur_bar_capacity_remaining", 192), ("prv_track", 0), ("prv_value", 24), ("prv_velocity", 127)],
             ["trk_00-pit_060-val_24-vel_127", "rst_12", "rst_48", "rst_48", "rst_48", "rst_24", "rst_12", "bar"])
    ∧ (tokeniseCore (cfgOf tk48) (TokSt.init (cfgOf tk48)) (extract (cfgOf tk48).ppqn negTracks)).map (·.1.map render) =
        .ok ["trk_00-pit_060-val_48-vel_127", "rst_12", "rst_48", "rst_48", "rst_48", "rst_24", "rst_12", "bar"] := by
  constructor
  · rw [tokenise_fresh' tk48 negTracks rfl (by decide)
      (tsEvOk_of_input _ _ _ (by decide))]
    decide +kernel
  · decide +kernel

/-- non-vacuity of `tokenise_fresh_gen` at `ppqn = 48`: a valid one-track piece (a half note, a half rest, a whole note) satisfies
    all hypotheses, and the conclusion evaluates to the tokens the real code returns (replayed on /repo:
    `['trk_00-pit_060-val_48-vel_127', 'rst_48', 'rst_48', 'trk_00-pit_062-val_96-vel_127', 'rst_48', 'rst_48', 'bar']`) -/
def goodTracks : List (List Msg) :=
  [[Msg.mkOn 0 60 64 pyNone, Msg.mkWait 0 48, Msg.mkOff 0 60 pyNone, Msg.mkWait 0 48, Msg.mkOn 0 62 64 pyNone, Msg.mkWait 0 96,
    Msg.mkOff 0 62 pyNone]]

example : (∀ t ∈ goodTracks, OkRel t) ∧ (goodTracks.length : Int) = tk48.numTracks ∧ 0 ≤ tk48.ppqn ∧ TsInOk tk48.ppqn goodTracks
    ∧ tokenise tk48 (goodTracks.map LSeq.rel) true true none =
        .ok ([("cur_time", 192), ("cur_time_bar", 0), ("cur_time_signature_numerator", 8), ("cur_time_signature_denominator", 8),
              ("cur_bar_capacity_remaining", 192), ("prv_track", 0), ("prv_value", 96), ("prv_velocity", 127)],
             ["trk_00-pit_060-val_48-vel_127", "rst_48", "rst_48", "trk_00-pit_062-val_96-vel_127", "rst_48", "rst_48", "bar"]) := by
  refine ⟨by decide, rfl, by decide, by decide, ?_⟩
  rw [tokenise_fresh_gen tk48 goodTracks (by decide) rfl (by decide) (by decide)]
  decide +kernel

/-! ### 2. the call flags

  `flag_running_time_signature=False` is not implemented by the source (line 82: `raise NotImplementedError()`).  The hand model
  `tokeniseCore` / `applyRest` has NO `insert_bar_token` parameter (it always emits the bar token): the property theorems C01 / C03
  are about the DEFAULT call flags only; `tokenise_defaults` shows that the flags at which the tie is stated are the defaults of
  the signature as written in the source (`Gen.Tok.defaults`, read from the AST on every run).  Props/TokTie3.lean ties the
  generated `tokenise` for BOTH values of `insert_bar_token`: `False` is the default call with the bar tokens deleted, same state
  (`TokTie3.tokenise_eq_flag`, `tokenise_no_bar`). -/

/-- `flag_running_time_signature=False`: NotImplementedError, whatever the other arguments -/
theorem tokenise_not_running (o : TokObj) (tracks : List LSeq) (ibt : Bool) (d : Option (List (String × Int))) :
    tokenise o tracks ibt false d = .error .notImplementedError := rfl

/-- the flags of `tokenise_eq(')`, `tokenise_fresh(')`, `tokenise_eq_gen` — `insert_bar_token = true`,
    `flag_running_time_signature = true`, and `state_dict = None` for the `_fresh` forms — are the defaults of the signature -/
theorem tokenise_defaults :
    "tokenise(insert_bar_token=True)" ∈ Gen.Tok.defaults ∧ "tokenise(flag_running_time_signature=True)" ∈ Gen.Tok.defaults
    ∧ "tokenise(state_dict=None)" ∈ Gen.Tok.defaults := by decide

/-! ### 3. the composition with a property theorem: C01's note round trip, about the TRANSLATED `tokenise` / `detokenise` -/

/-- the tokens `tokeniseCore` emits on events whose channels are track indices satisfy the side condition `TokOkD` of the
    `detokenise` tie (they are vocabulary tokens: `Tokenise.tokeniseCore_closed`), for a configuration with natural-number fields -/
theorem tokens_okD (c : Cfg) (hc : CfgOk c) (hlo : 0 ≤ c.pitchLo) (hts : 0 ≤ c.tsLo) (st st' : TokSt)
    (evs : List (Int × Pairing)) (toks : List Tok)
    (hch : ∀ ev ∈ evs, ∀ m ∈ ev.2.head?, 0 ≤ m.ch ∧ m.ch < (c.numTracks : Int))
    (h : tokeniseCore c st evs = .ok (toks, st')) : ∀ t ∈ toks, TokOkD c.ppqn t := by
  intro t ht
  have hv := Tokenise.tokeniseCore_closed c hc.def_eq st st' evs toks hch h t ht
  have hnn : CfgNonneg c :=
    { steps := fun x hx => Int.le_of_lt (hc.steps_pos x hx), values := hc.values_nonneg, bins := hc.bins_nonneg,
      pitchLo := hlo, tsLo := hts, defDen := Int.le_of_lt hc.def_pos }
  refine ⟨vocab_tokOk c hnn t hv, ?_⟩
  intro a b e
  subst e
  obtain ⟨⟨h1, _⟩, rfl⟩ := Vocab.tsig_mem.1 hv
  refine ⟨hc.def_pos, ?_⟩
  have hp := hc.ppqn_pos
  have ha : 0 ≤ a := by omega
  have : 0 ≤ c.ppqn * 4 := by omega
  exact Int.mul_nonneg this ha

/-- **C01's note round trip (`C01c.roundtrip_piece`) about the TRANSLATED code** — the composition of the tie with a property
    theorem, for ANY `ppqn > 0` (closes C6, first bullet).  For a tokeniser object `o` (as `__init__` builds it) whose hand-model
    configuration satisfies the side conditions of C01 (`CfgOk`, `GridOk`, default bar on the grid, non-decreasing bins,
    natural-number pitch / signature ranges, at least one track) and every VALID piece `rels` (`C01c.ValidCore`, input level):
    the generated `tokenise` (default flags, `state_dict=None`) succeeds with some strings `strs`; the generated `detokenise`
    accepts `strs` and returns one sequence per track; and the notes of sequence `i` — read off its absolute messages by the
    independent `notesOf ∘ eventsAbs` — are exactly the notes of track `i` with each velocity replaced by the value of its bin. -/
theorem tokenise_roundtrip_gen (o : TokObj) (hc : CfgOk (cfgOf o)) (hnt : 0 < o.numTracks)
    (hlo : 0 ≤ o.pitchRange.1) (hts : 0 ≤ o.timeSignatureRange.1) (hbins : o.velocityBins.Pairwise (· ≤ ·))
    (g : Int) (hg : GridOk (cfgOf o) g)
    (hdef : (cfgOf o).capacity (cfgOf o).defNum (cfgOf o).defDen % g = 0)
    (rels : List (List Msg)) (hv : C01c.ValidCore (cfgOf o) g rels) :
    ∃ (d : List (String × Int)) (strs : List String) (seqs : List (List Msg)),
      tokenise o (rels.map LSeq.rel) true true none = .ok (d, strs)
      ∧ Gen.Tok.detokenise o strs = .ok (seqs.map LSeq.abs)
      ∧ seqs.length = (cfgOf o).numTracks
      ∧ ∀ (i : Nat) (r s : List Msg), rels[i]? = some r → seqs[i]? = some s →
          (notesOf (eventsAbs s)).Perm
            ((trackNotes i r).map (fun n => { n with ch := 0, vel := binValue (cfgOf o).bins n.vel })) := by
  have hn : 0 < (cfgOf o).numTracks := by show 0 < o.numTracks.toNat; omega
  obtain ⟨toks, st', seqs, h1, h2, h3, h4⟩ := C01c.roundtrip_piece (cfgOf o) hc hn hbins g hg hdef rels hv
  have hok := hv.okRel
  have hlen : (rels.length : Int) = o.numTracks := by
    have := hv.1
    show ((rels.length : Nat) : Int) = o.numTracks
    rw [this]; show ((o.numTracks.toNat : Nat) : Int) = o.numTracks; omega
  have hp : 0 ≤ o.ppqn := Int.le_of_lt hc.ppqn_pos
  have htsin : TsInOk o.ppqn rels := by
    intro t ht m hm hty
    obtain ⟨i, hi⟩ := List.getElem?_of_mem ht
    obtain ⟨e, he, e1, e2, e3⟩ := msg_event t 0 m hm (by rw [hty]; decide)
    obtain ⟨_, hs⟩ := (hv.track hi).2.2.2.1 e he (e1.trans hty)
    rw [← e2, ← e3]
    have hd := hs.1
    have hnum := hs.2.1
    refine ⟨by omega, ?_⟩
    have : 0 ≤ o.ppqn * 4 := by omega
    exact Int.mul_nonneg this (Int.le_of_lt hnum)
  have hch := (C01c.valid_tracks_evsOk (cfgOf o) g rels hv).chans
  have htoks := tokens_okD (cfgOf o) hc hlo hts _ st' _ toks hch h1
  refine ⟨writeSt [] st', toks.map render, seqs, ?_, ?_, h3, h4⟩
  · rw [tokenise_fresh_gen o rels hok hlen hp htsin, h1]; rfl
  · rw [detokenise_eq o toks hp htoks, h2]; rfl

/-- non-vacuity of `tokenise_roundtrip_gen` at `ppqn = 48`: the object `tk48` and the piece `goodTracks` (grid 12) satisfy every
    hypothesis -/
example : CfgOk (cfgOf tk48) ∧ 0 < tk48.numTracks ∧ 0 ≤ tk48.pitchRange.1 ∧ 0 ≤ tk48.timeSignatureRange.1
    ∧ tk48.velocityBins.Pairwise (· ≤ ·) ∧ GridOk (cfgOf tk48) 12
    ∧ (cfgOf tk48).capacity (cfgOf tk48).defNum (cfgOf tk48).defDen % 12 = 0 ∧ C01c.ValidCore (cfgOf tk48) 12 goodTracks := by
  refine ⟨⟨by decide, by decide, by decide, by decide, by decide, by decide⟩, by decide, by decide, by decide, by decide,
    ⟨by decide, by decide, by decide, by decide, by decide⟩, by decide, by decide +kernel⟩

/-! ### 4. `__init__` for EVERY `velocity_bins` (audit round 4, item C2)

  The link for `get_velocity_bins` is now the translated function (`TokLib.linkVelocityBinsFn`, Model/TokLib3.lean), which succeeds
  for every `n ≠ 0` (`TokLib3L.linkVelocityBinsFn_eq`): the translated `__init__` succeeds for EVERY argument list with
  `velocity_bins ≠ 0`, so the conditional theorems `TokTie.tokInit_nodup / _sorted / _cfgWF / _cfg` ("every constructible
  tokeniser") are no longer silent outside 1..64.  `velocity_bins = 0`: ZeroDivisionError, as in the source. -/

/-- the translated constructor for every `velocity_bins ≠ 0`: it SUCCEEDS; the object is `initObj` with the bins
    `velocityBinsInt vb` (= the hand transcription `getVelocityBinsPy 127 vb` of the C11 theorems, read as ints; `vb.toNat` of
    them) and the rendered vocabulary `vocabSeq` of its hand-model configuration -/
theorem tokInit_eq_any (ppqn : Option Int) (numTracks : Int) (pitchRange : Int × Int) (stepSizes noteValues : Option (List Int))
    (vb : Int) (tsRange : Int × Int) (running fuseTrk fuseVal fuseVel simplify : Bool) (hvb : vb ≠ 0) :
    tokInit ppqn numTracks pitchRange stepSizes noteValues vb tsRange running fuseTrk fuseVal fuseVel simplify =
      .ok (finish (pushAll
        (initObj ppqn numTracks pitchRange stepSizes noteValues (velocityBinsInt vb) tsRange running fuseTrk fuseVal fuseVel simplify)
        ((vocabSeq (cfgOf (initObj ppqn numTracks pitchRange stepSizes noteValues (velocityBinsInt vb) tsRange running fuseTrk
          fuseVal fuseVel simplify))).map render))) := by
  rw [tokInit_eq', linkVelocityBinsFn_eq vb hvb]

/-- `velocity_bins = 0`: ZeroDivisionError for every other argument (replayed on /repo: `Tokeniser(velocity_bins=0)` raises
    `ZeroDivisionError: division by zero`, from `round(velocity_max / velocity_bins)`, util.py:31) -/
theorem tokInit_zero (ppqn : Option Int) (numTracks : Int) (pitchRange : Int × Int) (stepSizes noteValues : Option (List Int))
    (tsRange : Int × Int) (running fuseTrk fuseVal fuseVel simplify : Bool) :
    tokInit ppqn numTracks pitchRange stepSizes noteValues 0 tsRange running fuseTrk fuseVal fuseVel simplify
      = .error .zeroDivisionError := by
  rw [tokInit_eq']; rfl

/-- **EVERY argument list with `velocity_bins ≠ 0` is constructible**, and the constructed tokeniser has duplicate-free, strictly
    ascending step sizes and note values with exactly the entries passed (the conclusions of `TokTie.tokInit_nodup` /
    `tokInit_sorted`, now unconditional), `vb.toNat` velocity bins, and the configuration of `initObj` -/
theorem tokInit_total (ppqn : Option Int) (numTracks : Int) (pitchRange : Int × Int) (stepSizes noteValues : Option (List Int))
    (vb : Int) (tsRange : Int × Int) (running fuseTrk fuseVal fuseVel simplify : Bool) (hvb : vb ≠ 0) :
    ∃ o, tokInit ppqn numTracks pitchRange stepSizes noteValues vb tsRange running fuseTrk fuseVal fuseVel simplify = .ok o
      ∧ (cfgOf o).steps.Nodup ∧ (cfgOf o).values.Nodup
      ∧ ((cfgOf o).steps.Pairwise (· < ·) ∧ ∀ a, a ∈ (cfgOf o).steps ↔ a ∈ stepSizes.getD Gen.defaultStepSizesShift1)
      ∧ ((cfgOf o).values.Pairwise (· < ·) ∧ ∀ a, a ∈ (cfgOf o).values ↔ a ∈ noteValues.getD Gen.defaultNoteValues)
      ∧ o.velocityBins = velocityBinsInt vb ∧ o.velocityBins.length = vb.toNat := by
  have h := tokInit_eq_any ppqn numTracks pitchRange stepSizes noteValues vb tsRange running fuseTrk fuseVal fuseVel simplify hvb
  refine ⟨_, h, ?_⟩
  have hn := tokInit_nodup _ _ _ _ _ _ _ _ _ _ _ _ _ h
  have hs := tokInit_sorted _ _ _ _ _ _ _ _ _ _ _ _ _ h
  refine ⟨hn.1, hn.2, hs.1, hs.2, ?_, ?_⟩
  · show (pushAll _ _).velocityBins = _
    have := cfgOf_pushAll (initObj ppqn numTracks pitchRange stepSizes noteValues (velocityBinsInt vb) tsRange running fuseTrk
      fuseVal fuseVel simplify) ((vocabSeq (cfgOf (initObj ppqn numTracks pitchRange stepSizes noteValues (velocityBinsInt vb)
      tsRange running fuseTrk fuseVal fuseVel simplify))).map render)
    exact congrArg Cfg.bins this
  · show (pushAll _ _).velocityBins.length = _
    have := cfgOf_pushAll (initObj ppqn numTracks pitchRange stepSizes noteValues (velocityBinsInt vb) tsRange running fuseTrk
      fuseVal fuseVel simplify) ((vocabSeq (cfgOf (initObj ppqn numTracks pitchRange stepSizes noteValues (velocityBinsInt vb)
      tsRange running fuseTrk fuseVal fuseVel simplify))).map render)
    have e : (pushAll _ _).velocityBins = velocityBinsInt vb := congrArg Cfg.bins this
    rw [e, velocityBinsInt_length]

/-- `C02.CfgWF` for EVERY constructible tokeniser: for every argument list with `velocity_bins ≠ 0` the constructor succeeds and
    the configuration is `CfgWF` as soon as `get_velocity_bins(vb)` has distinct bins — a decidable condition on the NUMBER `vb`
    alone (finding D16b: for some counts the function repeats 127; then `dictionary_size` overcounts, see the example below) -/
theorem tokInit_cfgWF_any (ppqn : Option Int) (numTracks : Int) (pitchRange : Int × Int) (stepSizes noteValues : Option (List Int))
    (vb : Int) (tsRange : Int × Int) (running fuseTrk fuseVal fuseVel simplify : Bool) (hvb : vb ≠ 0)
    (hb : (velocityBinsInt vb).Nodup) :
    ∃ o, tokInit ppqn numTracks pitchRange stepSizes noteValues vb tsRange running fuseTrk fuseVal fuseVel simplify = .ok o
      ∧ C02.CfgWF (cfgOf o) := by
  obtain ⟨o, h, _, _, _, _, hbins, _⟩ :=
    tokInit_total ppqn numTracks pitchRange stepSizes noteValues vb tsRange running fuseTrk fuseVal fuseVel simplify hvb
  exact ⟨o, h, tokInit_cfgWF _ _ _ _ _ _ _ _ _ _ _ _ o h (by rw [hbins]; exact hb)⟩

/-- the counts the audit names: 100 bins are distinct (Python: `dictionary_size == len(dictionary) == 79227`); 65 and 128 bins
    repeat 127 (Python, 65: `dictionary_size 51507`, `len(dictionary) 49923`; 128: 101403 / 100611) — D16b, a defect of
    `get_velocity_bins`, now INSIDE the scope of the theorems; a negative count gives a tokeniser without bins -/
example : (velocityBinsInt 100).Nodup ∧ ¬ (velocityBinsInt 65).Nodup ∧ ¬ (velocityBinsInt 128).Nodup
    ∧ (velocityBinsInt 65).length = 65 ∧ velocityBinsInt (-1) = [] ∧ velocityBinsInt 4 = [48, 80, 112, 127] := by
  decide +kernel

end SCoda.TokTie2
