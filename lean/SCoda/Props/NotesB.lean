/-
  Note-level theorems closing audit items A11 (C15), A16 (C17) and the last bullet of section C of
  docs/audit_report_round1.md:

  1. the shared lifting lemma (`notes_lift`): for well-formed, time-sorted timed event lists with
     positive durations, the sounding set together with the note-on messages determines the notes;
  2. C15 at the level of notes (merge: fusion per key, order independence of the note shapes, timed
     signature lists, the zero-length-note class carved out);
  3. C17: `equals` ⇔ equality of an independently defined content, for all flag settings;
     re-representation; insertion order; "unequal without the flag".
-/
import SCoda.Lemmas.NotesBL
import SCoda.Props.C04
import SCoda.Props.C15
import SCoda.Props.C17
namespace SCoda.NotesB
open SCoda SCoda.NotesBL

/-! ## 1. The lifting lemma (audit section C, last bullet) -/

/-- every note lasts at least one tick -/
def PosDur (x : List Msg) : Prop := ∀ n ∈ notesOf x, n.on < n.off

/-- time-sorted (the order of simultaneous events is free) -/
abbrev TSorted (x : List Msg) : Prop := x.Pairwise (fun a b => a.time ≤ b.time)

/-- the attributes of a note-on message: channel, pitch, tick, velocity -/
def onMsgAttr (m : Msg) : Int × Int × Int × Int := (m.ch, m.note, m.time, m.vel)

/-- the two lists have the same note-on messages, as sets of (channel, pitch, tick, velocity) -/
def SameNoteOns (x y : List Msg) : Prop :=
  ∀ α, (∃ m ∈ x, m.ty = .noteOn ∧ onMsgAttr m = α) ↔ (∃ m ∈ y, m.ty = .noteOn ∧ onMsgAttr m = α)

/-- **Lifting lemma.** Two well-formed, time-sorted timed event lists with positive note durations that
    have the same sounding set and the same note-on messages (channel, pitch, tick, velocity) have the
    same notes (channel, pitch, onset, end, velocity).  Lifts every sounding-set conclusion (C08, C09,
    C12, C13, C15) to `notesOf`; closes the last bullet of section C of the audit. -/
theorem notes_lift (x y : List Msg) (hx : WF x) (hy : WF y) (sx : TSorted x) (sy : TSorted y)
    (px : PosDur x) (py : PosDur y)
    (hsound : ∀ k t, SoundingAt x k t ↔ SoundingAt y k t) (hons : SameNoteOns x y) :
    (notesOf x).Perm (notesOf y) := by
  apply perm_of_spec _ _ (notes_sep x hx sx px) (notes_sep y hy sy py)
  · intro k t
    rw [← notes_cover x hx sx, ← notes_cover y hy sy]
    exact hsound k t
  · intro α
    rw [notes_ons x hx, notes_ons y hy]
    exact hons α

/-- the same with the note-ons given as a permutation of lists -/
theorem notes_lift_perm (x y : List Msg) (hx : WF x) (hy : WF y) (sx : TSorted x) (sy : TSorted y)
    (px : PosDur x) (py : PosDur y)
    (hsound : ∀ k t, SoundingAt x k t ↔ SoundingAt y k t)
    (hons : ((x.filter (·.ty == .noteOn)).map onMsgAttr).Perm ((y.filter (·.ty == .noteOn)).map onMsgAttr)) :
    (notesOf x).Perm (notesOf y) := by
  apply notes_lift x y hx hy sx sy px py hsound
  intro α
  have e : ∀ z : List Msg, (∃ m ∈ z, m.ty = .noteOn ∧ onMsgAttr m = α)
      ↔ α ∈ (z.filter (·.ty == .noteOn)).map onMsgAttr := by
    intro z
    simp only [List.mem_map, List.mem_filter, beq_iff_eq]
    constructor
    · rintro ⟨m, h1, h2, h3⟩; exact ⟨m, ⟨h1, h2⟩, h3⟩
    · rintro ⟨m, ⟨h1, h2⟩, h3⟩; exact ⟨m, h1, h2, h3⟩
  rw [e x, e y]
  exact hons.mem_iff

/-- the note-on hypothesis cannot be dropped: the sounding set alone does not determine the notes
    (the audit's example `[on0, off10]` against `[on0, off5, on5, off10]`) -/
def lift_sounding_only_statement : Prop :=
  ∀ x y : List Msg, WF x → WF y → TSorted x → TSorted y → PosDur x → PosDur y →
    (∀ k t, SoundingAt x k t ↔ SoundingAt y k t) → (notesOf x).Perm (notesOf y)

def cexX : List Msg := [Msg.mkOn 0 60 64 0, Msg.mkOff 0 60 10]
def cexY : List Msg := [Msg.mkOn 0 60 64 0, Msg.mkOff 0 60 5, Msg.mkOn 0 60 64 5, Msg.mkOff 0 60 10]

theorem wf_cexX : WF cexX := by
  intro k
  simp only [altFrom, cexX, Msg.mkOn, Msg.mkOff, Msg.nkey]
  by_cases hk : ((0 : Int), (60 : Int)) = k <;> simp [hk]

theorem wf_cexY : WF cexY := by
  intro k
  simp only [altFrom, cexY, Msg.mkOn, Msg.mkOff, Msg.nkey]
  by_cases hk : ((0 : Int), (60 : Int)) = k <;> simp [hk]

theorem sorted_cexX : TSorted cexX := by simp [TSorted, cexX, Msg.mkOn, Msg.mkOff]
theorem sorted_cexY : TSorted cexY := by simp [TSorted, cexY, Msg.mkOn, Msg.mkOff]

theorem lift_sounding_only_statement_false : ¬ lift_sounding_only_statement := by
  intro h
  have hp := h cexX cexY wf_cexX wf_cexY sorted_cexX sorted_cexY (by unfold PosDur; decide) (by unfold PosDur; decide) (by
    intro k t
    rw [notes_cover cexX wf_cexX sorted_cexX, notes_cover cexY wf_cexY sorted_cexY]
    have e1 : notesOf cexX = [{ ch := 0, pitch := 60, on := 0, off := 10, vel := 64 }] := by decide
    have e2 : notesOf cexY = [{ ch := 0, pitch := 60, on := 0, off := 5, vel := 64 },
      { ch := 0, pitch := 60, on := 5, off := 10, vel := 64 }] := by decide
    rw [e1, e2]
    simp only [List.mem_cons, List.not_mem_nil, or_false, exists_eq_or_imp, exists_eq_left, Covers, nkeyN]
    constructor
    · rintro ⟨h1, h2, h3⟩
      by_cases c : t < 5
      · exact Or.inl ⟨h1, h2, c⟩
      · exact Or.inr ⟨h1, by omega, h3⟩
    · rintro (⟨h1, h2, h3⟩ | ⟨h1, h2, h3⟩)
      · exact ⟨h1, h2, by omega⟩
      · exact ⟨h1, by omega, h3⟩)
  have := hp.length_eq
  revert this
  decide

/-- non-vacuity of `notes_lift`: two different listings of two simultaneous notes -/
def exX : List Msg := [Msg.mkOn 0 60 64 0, Msg.mkOn 0 62 70 0, Msg.mkOff 0 60 5, Msg.mkOff 0 62 5]
def exY : List Msg := [Msg.mkOn 0 62 70 0, Msg.mkOn 0 60 64 0, Msg.mkOff 0 62 5, Msg.mkOff 0 60 5]

theorem wf_exX : WF exX := by
  intro k
  simp only [altFrom, exX, Msg.mkOn, Msg.mkOff, Msg.nkey]
  by_cases hk : ((0 : Int), (60 : Int)) = k
  · subst hk; simp
  · by_cases hk' : ((0 : Int), (62 : Int)) = k
    · subst hk'; simp
    · simp [hk, hk']

theorem wf_exY : WF exY := by
  intro k
  simp only [altFrom, exY, Msg.mkOn, Msg.mkOff, Msg.nkey]
  by_cases hk : ((0 : Int), (60 : Int)) = k
  · subst hk; simp
  · by_cases hk' : ((0 : Int), (62 : Int)) = k
    · subst hk'; simp
    · simp [hk, hk']

example : (notesOf exX).Perm (notesOf exY) := by
  have sX : TSorted exX := by simp [TSorted, exX, Msg.mkOn, Msg.mkOff]
  have sY : TSorted exY := by simp [TSorted, exY, Msg.mkOn, Msg.mkOff]
  apply notes_lift_perm exX exY wf_exX wf_exY sX sY (by unfold PosDur; decide) (by unfold PosDur; decide)
  · intro k t
    rw [notes_cover exX wf_exX sX, notes_cover exY wf_exY sY]
    have e1 : notesOf exX = [{ ch := 0, pitch := 60, on := 0, off := 5, vel := 64 },
      { ch := 0, pitch := 62, on := 0, off := 5, vel := 70 }] := by decide
    have e2 : notesOf exY = [{ ch := 0, pitch := 62, on := 0, off := 5, vel := 70 },
      { ch := 0, pitch := 60, on := 0, off := 5, vel := 64 }] := by decide
    rw [e1, e2]
    simp only [List.mem_cons, List.not_mem_nil, or_false, exists_eq_or_imp, exists_eq_left]
    exact Or.comm
  · decide

/-! ## 2. C15 — the merge at the level of notes (audit item A11)

  `mergeEv as = eventsRel (C15.mergeRel as)` are the timed events of `Sequence.merge` when the receiver and
  the arguments have the absolute views `as` (receiver first); `C15.mergeSeq_eq` ties `mergeRel` to the
  wrapper. -/

theorem mergeEv_eq (as : List (List Msg)) : mergeEv as = eventsRel (C15.mergeRel as) := rfl

/-- the hypothesis of C15 on every input, as in `C15.union` -/
theorem goodIn_iff (a : List Msg) : GoodIn a ↔ (OkAbs a ∧ WF a ∧ C15.PosDur a) := Iff.rfl

/-- the notes of the merge: (channel, pitch, onset, end) -/
def noteShapes (as : List (List Msg)) : List (Int × Int × Int × Int) := (notesOf (mergeEv as)).map shape

open MergeL in
/-- **2b — order independence at the level of notes.**  The notes of the merge — channel, pitch, onset
    and end (hence duration) of every note, as a multiset — do not depend on the order in which the
    sequences are merged.  (`C15.order_independent` gave this for the sounding set only, which does not
    determine the notes; closes A11.)  Velocities are excluded on purpose, see
    `order_independent_velocity_statement_false`. -/
theorem order_independent_notes (as as' : List (List Msg)) (hp : as.Perm as')
    (h : ∀ a ∈ as, OkAbs a ∧ WF a ∧ C15.PosDur a) : (noteShapes as).Perm (noteShapes as') := by
  have h' : ∀ a ∈ as', GoodIn a := fun a ha => h a (hp.mem_iff.2 ha)
  apply shapes_perm_of_spec _ _ (merge_sep as h) (merge_sep as' h')
  · intro k t
    rw [← notes_cover _ (merge_wf as) (merge_sorted as (fun a ha => (h a ha).1)),
      ← notes_cover _ (merge_wf as') (merge_sorted as' (fun a ha => (h' a ha).1))]
    exact C15.order_independent as as' hp h k t
  · intro k s
    rw [notes_onset _ (merge_wf as), notes_onset _ (merge_wf as'), merge_onset as h, merge_onset as' h']
    have hf := hp.flatten
    have e1 : ons k (before s as.flatten) = ons k (before s as'.flatten) := ons_perm k (hf.filter _)
    have e2 : offs k (upTo s as.flatten) = offs k (upTo s as'.flatten) := offs_perm k (hf.filter _)
    rw [e1, e2]
    constructor
    · rintro ⟨⟨m, hm, g⟩, e⟩
      exact ⟨⟨m, hf.mem_iff.1 hm, g⟩, e⟩
    · rintro ⟨⟨m, hm, g⟩, e⟩
      exact ⟨⟨m, hf.mem_iff.2 hm, g⟩, e⟩

/-- the same in the property's words: (pitch, onset, duration) -/
theorem order_independent_pod (as as' : List (List Msg)) (hp : as.Perm as')
    (h : ∀ a ∈ as, OkAbs a ∧ WF a ∧ C15.PosDur a) :
    ((notesOf (mergeEv as)).map (fun n => (n.pitch, n.on, n.off - n.on))).Perm
      ((notesOf (mergeEv as')).map (fun n => (n.pitch, n.on, n.off - n.on))) := by
  have := (order_independent_notes as as' hp h).map (fun s : Int × Int × Int × Int => (s.2.1, s.2.2.1, s.2.2.2 - s.2.2.1))
  simpa [noteShapes, List.map_map, Function.comp_def, shape] using this

/-- order independence of the *full* notes (with velocity) … -/
def order_independent_velocity_statement : Prop :=
  ∀ as as' : List (List Msg), as.Perm as' → (∀ a ∈ as, OkAbs a ∧ WF a ∧ C15.PosDur a) →
    (notesOf (mergeEv as)).Perm (notesOf (mergeEv as'))

def exVa : List Msg := [Msg.mkOn 0 60 64 0, Msg.mkOff 0 60 24]
def exVb : List Msg := [Msg.mkOn 0 60 90 0, Msg.mkOff 0 60 36]

theorem good_two (c p v t t' : Int) (ht : 0 ≤ t) (htt : t < t') : GoodIn [Msg.mkOn c p v t, Msg.mkOff c p t'] := by
  refine ⟨⟨?_, ?_, ?_⟩, ?_, ?_⟩
  · simp [TimeSorted, Msg.mkOn, Msg.mkOff]; omega
  · simp [NonNegTimes, Msg.mkOn, Msg.mkOff]; omega
  · simp [Msg.mkOn, Msg.mkOff]
  · intro k
    simp only [altFrom, Msg.mkOn, Msg.mkOff, Msg.nkey]
    by_cases hk : (c, p) = k <;> simp [hk]
  · intro n hn
    simp [notesOf, notesGo, Msg.mkOn, Msg.mkOff, Msg.nkey] at hn
    subst hn
    exact htt

/-- … fails: when two inputs start the same key on the same tick, the fused note takes the velocity of
    the one merged first (the stable sort keeps the order of the family) -/
theorem order_independent_velocity_statement_false : ¬ order_independent_velocity_statement := by
  intro h
  have := h [exVa, exVb] [exVb, exVa] (List.Perm.swap _ _ _) (by
    intro a ha
    simp only [List.mem_cons, List.not_mem_nil, or_false] at ha
    rcases ha with rfl | rfl
    · exact good_two 0 60 64 0 24 (by omega) (by omega)
    · exact good_two 0 60 90 0 36 (by omega) (by omega))
  revert this
  decide

/-- non-vacuity of `order_independent_notes`: overlapping and touching notes of one key on three inputs -/
def exM1 : List Msg := [Msg.mkOn 0 60 64 0, Msg.mkOff 0 60 24]
def exM2 : List Msg := [Msg.mkOn 0 60 90 12, Msg.mkOff 0 60 36]
def exM3 : List Msg := [Msg.mkOn 0 60 50 36, Msg.mkOff 0 60 48]
example : noteShapes [exM1, exM2, exM3] = [(0, 60, 0, 36), (0, 60, 36, 48)]
    ∧ (noteShapes [exM1, exM2, exM3]).Perm (noteShapes [exM3, exM1, exM2]) := by
  refine ⟨by decide, order_independent_notes _ _ (by decide) ?_⟩
  intro a ha
  simp only [List.mem_cons, List.not_mem_nil, or_false] at ha
  rcases ha with rfl | rfl | rfl
  · exact good_two 0 60 64 0 24 (by omega) (by omega)
  · exact good_two 0 60 90 12 36 (by omega) (by omega)
  · exact good_two 0 60 50 36 48 (by omega) (by omega)

/-! ### 2a — fusion per key -/

/-- `S` is the fusion of the notes `N`: per key (channel, pitch) the connected components of the union
    of the intervals of `N`, where notes that merely touch (one ends on the tick the next starts) stay
    apart.  Written without reference to any code:
    * the notes of `S` are separated (positive, pairwise disjoint per key, listed once);
    * `S` covers exactly the ticks `N` covers;
    * a note of `S` starts on tick `s` iff a note of `N` starts there and `s` is not strictly inside
      another note of `N` of that key. -/
structure IsFusion (N S : List Note) : Prop where
  sep : Sep S
  cover : ∀ k t, (∃ n ∈ S, Covers n k t) ↔ (∃ n ∈ N, Covers n k t)
  onset : ∀ k s, (∃ n ∈ S, nkeyN n = k ∧ n.on = s) ↔
    ((∃ n ∈ N, nkeyN n = k ∧ n.on = s) ∧ ¬ ∃ n' ∈ N, nkeyN n' = k ∧ n'.on < s ∧ s < n'.off)

/-- the fusion is unique: it determines channel, pitch, onset and end of every note -/
theorem fusion_unique (N S S' : List Note) (h : IsFusion N S) (h' : IsFusion N S') :
    (S.map shape).Perm (S'.map shape) :=
  shapes_perm_of_spec S S' h.sep h'.sep
    (fun k t => (h.cover k t).trans (h'.cover k t).symm)
    (fun k s => (h.onset k s).trans (h'.onset k s).symm)

theorem sounding_eventsAbs (a : List Msg) (k : Int × Int) (t : Int) :
    SoundingAt (eventsAbs a) k t ↔ SoundingAt a k t := by
  rw [MergeL.sounding_abs]; exact Iff.rfl

/-- **2a — the notes of the merge are the fusion of the inputs' notes.**  For well-formed inputs without
    zero-length notes, the notes of `Sequence.merge`'s result are, per (channel, pitch), the connected
    components of the union of all input notes (`inNotes as`): overlapping notes fuse from the earliest
    start to the latest end, touching notes stay apart.  Closes A11 ("fusion … of notes not proved"). -/
theorem merge_notes_fused (as : List (List Msg)) (h : ∀ a ∈ as, OkAbs a ∧ WF a ∧ C15.PosDur a) :
    IsFusion (inNotes as) (notesOf (mergeEv as)) := by
  refine ⟨merge_sep as h, ?_, ?_⟩
  · intro k t
    rw [← notes_cover _ (merge_wf as) (merge_sorted as (fun a ha => (h a ha).1)), mergeEv_eq, C15.union as h k t]
    simp only [inNotes, List.mem_flatMap]
    constructor
    · rintro ⟨a, ha, hs⟩
      rw [sounding_eventsAbs, notes_cover a (h a ha).2.1 ((timeSorted_iff_pairwise a).1 (h a ha).1.1)] at hs
      obtain ⟨n, hn, hc⟩ := hs
      exact ⟨n, ⟨a, ha, hn⟩, hc⟩
    · rintro ⟨n, ⟨a, ha, hn⟩, hc⟩
      refine ⟨a, ha, ?_⟩
      rw [sounding_eventsAbs, notes_cover a (h a ha).2.1 ((timeSorted_iff_pairwise a).1 (h a ha).1.1)]
      exact ⟨n, hn, hc⟩
  · intro k s
    rw [notes_onset _ (merge_wf as), merge_onset as h, family_onset as h, (family_count as h k s).2]

/-- hence any list that is a fusion of the inputs' notes has the same note shapes as the merge -/
theorem merge_notes_eq_fusion (as : List (List Msg)) (h : ∀ a ∈ as, OkAbs a ∧ WF a ∧ C15.PosDur a)
    (S : List Note) (hS : IsFusion (inNotes as) S) : (noteShapes as).Perm (S.map shape) :=
  fusion_unique _ _ _ (merge_notes_fused as h) hS

/-- **each note of a fusion is a connected component**: it starts where an input note starts, ends where
    an input note ends, every tick of it is covered by an input note, every tick strictly inside it lies
    strictly inside an input note (no seam), and no input note straddles its start or its end. -/
theorem fusion_component (N S : List Note) (h : IsFusion N S) (m : Note) (hm : m ∈ S) :
    (∃ n ∈ N, nkeyN n = nkeyN m ∧ n.on = m.on)
    ∧ (∃ n ∈ N, nkeyN n = nkeyN m ∧ n.off = m.off)
    ∧ (∀ t, m.on ≤ t → t < m.off → ∃ n ∈ N, Covers n (nkeyN m) t)
    ∧ (∀ t, m.on < t → t < m.off → ∃ n ∈ N, nkeyN n = nkeyN m ∧ n.on < t ∧ t < n.off)
    ∧ (∀ n ∈ N, nkeyN n = nkeyN m → ¬ (n.on < m.on ∧ m.on < n.off))
    ∧ (∀ n ∈ N, nkeyN n = nkeyN m → ¬ (n.on < m.off ∧ m.off < n.off)) := by
  have hpos := h.sep.pos m hm
  have hstart := (h.onset (nkeyN m) m.on).1 ⟨m, hm, rfl, rfl⟩
  have hcov : ∀ t, m.on ≤ t → t < m.off → ∃ n ∈ N, Covers n (nkeyN m) t :=
    fun t h1 h2 => (h.cover (nkeyN m) t).1 ⟨m, hm, rfl, h1, h2⟩
  -- a tick of `m` other than its start is strictly inside an input note
  have hinner : ∀ t, m.on < t → t < m.off → ∃ n ∈ N, nkeyN n = nkeyN m ∧ n.on < t ∧ t < n.off := by
    intro t h1 h2
    apply Classical.byContradiction
    intro hno
    obtain ⟨n, hn, hk, g1, g2⟩ := hcov t (by omega) h2
    have hnt : n.on = t := by
      by_cases c : n.on < t
      · exact absurd ⟨n, hn, hk, c, g2⟩ hno
      · omega
    obtain ⟨m', hm', hk', ho'⟩ := (h.onset (nkeyN m) t).2 ⟨⟨n, hn, hk, hnt⟩, hno⟩
    have hp' := h.sep.pos m' hm'
    have hne : m' ≠ m := by intro e; subst e; omega
    rcases h.sep.disj m' hm' m hm hne hk' with g | g <;> omega
  -- no input note straddles the end
  have hend : ∀ n ∈ N, nkeyN n = nkeyN m → ¬ (n.on < m.off ∧ m.off < n.off) := by
    rintro n hn hk ⟨g1, g2⟩
    obtain ⟨m', hm', hk', g3, g4⟩ := (h.cover (nkeyN m) m.off).2 ⟨n, hn, hk, by omega, g2⟩
    have hne : m' ≠ m := by intro e; subst e; omega
    have hp' := h.sep.pos m' hm'
    rcases h.sep.disj m' hm' m hm hne hk' with g | g
    · omega
    · have ho : m'.on = m.off := by omega
      exact ((h.onset (nkeyN m) m.off).1 ⟨m', hm', hk', ho⟩).2 ⟨n, hn, hk, g1, g2⟩
  refine ⟨hstart.1, ?_, hcov, hinner, fun n hn hk g => hstart.2 ⟨n, hn, hk, g.1, g.2⟩, hend⟩
  -- the last tick of `m` is covered by an input note, which must end with `m`
  obtain ⟨n, hn, hk, g1, g2⟩ := hcov (m.off - 1) (by omega) (by omega)
  refine ⟨n, hn, hk, ?_⟩
  by_cases c : n.off = m.off
  · exact c
  · exact absurd ⟨by omega, by omega⟩ (hend n hn hk)

/-- the velocity of a note of the merge is the velocity of an input note of the same key and onset
    (one of the earliest notes of its chain; with several, the one merged first — see
    `order_independent_velocity_statement_false`) -/
theorem merge_velocity (as : List (List Msg)) (h : ∀ a ∈ as, OkAbs a ∧ WF a ∧ C15.PosDur a) (m : Note)
    (hm : m ∈ notesOf (mergeEv as)) : ∃ n ∈ inNotes as, nkeyN n = nkeyN m ∧ n.on = m.on ∧ n.vel = m.vel := by
  obtain ⟨e, he, hty, hattr⟩ := (notes_ons _ (merge_wf as) _).1 (List.mem_map.2 ⟨m, hm, rfl⟩)
  have hsub : e ∈ eventsAbs (sortAbs as.flatten) := by
    rw [mergeEv_eq] at he
    exact (C15.events_sublist as (fun a ha => (h a ha).1)).subset he
  have he' : e ∈ as.flatten := (mem_sortAbs _ _).1 (List.mem_filter.1 hsub).1
  obtain ⟨a, ha, hea⟩ := List.mem_flatten.1 he'
  obtain ⟨n, hn, hattr'⟩ := List.mem_map.1 ((notes_ons a (h a ha).2.1 _).2 ⟨e, hea, hty, rfl⟩)
  refine ⟨n, List.mem_flatMap.2 ⟨a, ha, hn⟩, ?_⟩
  have hh := hattr'.trans hattr
  simp only [onAttr, Prod.mk.injEq] at hh
  simp [nkeyN, hh.1, hh.2.1, hh.2.2.1, hh.2.2.2]

/-- non-vacuity: the three inputs above fuse into [0,36) and [36,48) -/
example : IsFusion (inNotes [exM1, exM2, exM3]) (notesOf (mergeEv [exM1, exM2, exM3]))
    ∧ inNotes [exM1, exM2, exM3] = [⟨0, 60, 0, 24, 64⟩, ⟨0, 60, 12, 36, 90⟩, ⟨0, 60, 36, 48, 50⟩]
    ∧ notesOf (mergeEv [exM1, exM2, exM3]) = [⟨0, 60, 0, 36, 64⟩, ⟨0, 60, 36, 48, 50⟩] := by
  refine ⟨merge_notes_fused _ ?_, by decide, by decide⟩
  intro a ha
  simp only [List.mem_cons, List.not_mem_nil, or_false] at ha
  rcases ha with rfl | rfl | rfl
  · exact good_two 0 60 64 0 24 (by omega) (by omega)
  · exact good_two 0 60 90 12 36 (by omega) (by omega)
  · exact good_two 0 60 50 36 48 (by omega) (by omega)

theorem good_exM : ∀ a ∈ [exM1, exM2, exM3], OkAbs a ∧ WF a ∧ C15.PosDur a := by
  intro a ha
  simp only [List.mem_cons, List.not_mem_nil, or_false] at ha
  rcases ha with rfl | rfl | rfl
  · exact good_two 0 60 64 0 24 (by omega) (by omega)
  · exact good_two 0 60 90 12 36 (by omega) (by omega)
  · exact good_two 0 60 50 36 48 (by omega) (by omega)

/-- `fusion_component` and `merge_velocity` on the fused note [0, 36) of the example -/
example : (∃ n ∈ inNotes [exM1, exM2, exM3], nkeyN n = (0, 60) ∧ n.off = 36)
    ∧ (∃ n ∈ inNotes [exM1, exM2, exM3], nkeyN n = (0, 60) ∧ n.on = 0 ∧ n.vel = 64) :=
  ⟨(fusion_component _ _ (merge_notes_fused _ good_exM) ⟨0, 60, 0, 36, 64⟩ (by decide)).2.1,
   merge_velocity _ good_exM ⟨0, 60, 0, 36, 64⟩ (by decide)⟩

/-- `fuse` (sort by channel, pitch, onset; sweep once; defined in `Lemmas/NotesBL.lean` on plain notes,
    no message code involved) computes a fusion of any list of positive-length notes -/
theorem fuse_is_fusion (N : List Note) (hpos : ∀ n ∈ N, n.on < n.off) : IsFusion N (fuse N) := by
  obtain ⟨h1, h2, h3⟩ := fuse_spec N hpos
  exact ⟨h1, h2, h3⟩

theorem inNotes_pos (as : List (List Msg)) (h : ∀ a ∈ as, OkAbs a ∧ WF a ∧ C15.PosDur a) :
    ∀ n ∈ inNotes as, n.on < n.off := by
  intro n hn
  obtain ⟨a, ha, hna⟩ := List.mem_flatMap.1 hn
  exact (h a ha).2.2 n hna

/-- **2a, with the function**: the notes of the merge are `fuse` of all input notes — channel, pitch,
    onset and end of every note, as multisets.  (Velocity: `merge_velocity`.) -/
theorem merge_notes_fuse (as : List (List Msg)) (h : ∀ a ∈ as, OkAbs a ∧ WF a ∧ C15.PosDur a) :
    (noteShapes as).Perm ((fuse (inNotes as)).map shape) :=
  merge_notes_eq_fusion as h _ (fuse_is_fusion _ (inNotes_pos as h))

example : fuse (inNotes [exM1, exM2, exM3]) = [⟨0, 60, 0, 36, 64⟩, ⟨0, 60, 36, 48, 50⟩]
    ∧ (noteShapes [exM1, exM2, exM3]).Perm ((fuse (inNotes [exM1, exM2, exM3])).map shape) :=
  ⟨by decide, merge_notes_fuse _ good_exM⟩
example : fuse [⟨0, 60, 0, 10, 1⟩, ⟨0, 60, 10, 20, 2⟩, ⟨1, 60, 5, 15, 3⟩, ⟨0, 60, 15, 30, 4⟩, ⟨0, 62, 0, 5, 5⟩, ⟨0, 60, 18, 19, 6⟩]
    = [⟨0, 60, 0, 10, 1⟩, ⟨0, 60, 10, 30, 2⟩, ⟨0, 62, 0, 5, 5⟩, ⟨1, 60, 5, 15, 3⟩] := by decide

/-- the same at the level of the wrapper: whatever `Sequence.merge` returns for a receiver with absolute
    view `a`, its relative view has the timed events `mergeEv (a :: others)` -/
theorem mergeSeq_events (a : List Msg) (others : List (List Msg)) (s' : Seq)
    (h : (Seq.ofAbs a).mergeSeq others = .ok s') :
    eventsRel s'.rel = mergeEv (a :: others) ∧ s'.relStale = false := by
  have := C15.mergeSeq_eq a others
  rw [h] at this
  simp only [Except.toOption, Option.map_some, Option.some.injEq, Prod.mk.injEq] at this
  exact ⟨by rw [this.1]; rfl, this.2.1⟩

/-! ### 2c — signatures: timed lists for both kinds -/

/-- **2c — every signature event that does not repeat the one in force is kept at its tick**, for time
    *and* key signatures: the timed list `(tick, numerator, denominator)` (resp. `(tick, key)`) of the merge
    is the tick-ordered union of the inputs' signature events (`sortAbs` of all messages: by tick, then
    channel, ties in the order of the family) with every event that repeats the value in force removed —
    so of a run of repeats exactly the first survives.  `(pyNone, pyNone)` / `pyNone` is "no signature
    yet" (Python `None`).  Closes A11 ("values only, no ticks; no key-signature theorem"). -/
theorem merge_signatures_timed (as : List (List Msg)) (h : ∀ a ∈ as, OkAbs a) :
    tsT (mergeEv as) = dedupBy tsV (pyNone, pyNone) (tsT (sortAbs as.flatten))
    ∧ ksT (mergeEv as) = dedupBy ksV pyNone (ksT (sortAbs as.flatten)) :=
  merge_tsT as h

/-- the union is tick-ordered and contains exactly the inputs' signature events -/
theorem union_signatures (as : List (List Msg)) :
    (tsT (sortAbs as.flatten)).Perm (as.flatMap tsT) ∧ (tsT (sortAbs as.flatten)).Pairwise (fun x y => x.1 ≤ y.1)
    ∧ (ksT (sortAbs as.flatten)).Perm (as.flatMap ksT) ∧ (ksT (sortAbs as.flatten)).Pairwise (fun x y => x.1 ≤ y.1) := by
  have e1 : as.flatMap tsT = tsT as.flatten := by
    simp only [tsT, List.flatMap_def, List.filter_flatten, List.map_flatten, List.map_map]
    rfl
  have e2 : as.flatMap ksT = ksT as.flatten := by
    simp only [ksT, List.flatMap_def, List.filter_flatten, List.map_flatten, List.map_map]
    rfl
  refine ⟨?_, ?_, ?_, ?_⟩
  · rw [e1]; exact ((sortAbs_perm _).filter _).map _
  · simp only [tsT]
    rw [List.pairwise_map]
    exact ((sortAbs_pairwise _).filter _)
  · rw [e2]; exact ((sortAbs_perm _).filter _).map _
  · simp only [ksT]
    rw [List.pairwise_map]
    exact ((sortAbs_pairwise _).filter _)

def exS1 : List Msg := [Msg.mkTimeSig 0 4 4 0, { ty := .keySignature, key := 3, time := 0 }, Msg.mkTimeSig 0 3 4 48]
def exS2 : List Msg := [Msg.mkTimeSig 0 4 4 0, Msg.mkTimeSig 0 4 4 24, { ty := .keySignature, key := 3, time := 24 },
  Msg.mkTimeSig 0 3 4 48, { ty := .keySignature, key := 5, time := 48 }, Msg.mkTimeSig 0 4 4 96]
example : (∀ a ∈ [exS1, exS2], OkAbs a)
    ∧ tsT (mergeEv [exS1, exS2]) = [(0, 4, 4), (48, 3, 4), (96, 4, 4)]
    ∧ ksT (mergeEv [exS1, exS2]) = [(0, 3), (48, 5)] := by
  refine ⟨?_, by decide, by decide⟩
  intro a ha
  simp only [List.mem_cons, List.not_mem_nil, or_false] at ha
  rcases ha with rfl | rfl
  · exact ⟨by simp [TimeSorted, exS1, Msg.mkTimeSig], by simp [NonNegTimes, exS1, Msg.mkTimeSig], by decide⟩
  · exact ⟨by simp [TimeSorted, exS2, Msg.mkTimeSig], by simp [NonNegTimes, exS2, Msg.mkTimeSig], by decide⟩

/-! ### 2d — what `PosDur` hides: zero-length notes -/

/-- `C15.union` under its proper name: it needs "no zero-length note" on every input -/
theorem union_partial (as : List (List Msg)) (h : ∀ a ∈ as, OkAbs a ∧ WF a ∧ C15.PosDur a) (k : Int × Int) (t : Int) :
    SoundingAt (mergeEv as) k t ↔ ∃ a ∈ as, SoundingAt (eventsAbs a) k t :=
  C15.union as h k t

/-- the union clause without the zero-length exclusion -/
def union_statement : Prop :=
  ∀ (as : List (List Msg)), (∀ a ∈ as, OkAbs a ∧ WF a) → ∀ k t,
    (SoundingAt (mergeEv as) k t ↔ ∃ a ∈ as, SoundingAt (eventsAbs a) k t)

def exZa : List Msg := [Msg.mkOn 0 60 64 5, Msg.mkOff 0 60 10]
def exZb : List Msg := [Msg.mkOn 0 60 70 5, Msg.mkOff 0 60 5]

theorem okwf_two (c p v t t' : Int) (ht : 0 ≤ t) (htt : t ≤ t') :
    OkAbs [Msg.mkOn c p v t, Msg.mkOff c p t'] ∧ WF [Msg.mkOn c p v t, Msg.mkOff c p t'] := by
  refine ⟨⟨?_, ?_, ?_⟩, ?_⟩
  · simp [TimeSorted, Msg.mkOn, Msg.mkOff]; omega
  · simp [NonNegTimes, Msg.mkOn, Msg.mkOff]; omega
  · simp [Msg.mkOn, Msg.mkOff]
  · intro k
    simp only [altFrom, Msg.mkOn, Msg.mkOff, Msg.nkey]
    by_cases hk : (c, p) = k <;> simp [hk]

/-- **a zero-length note swallows a real one** (D17's mechanism inside `merge`): merging
    `A = [on 60 @5, off @10]` with `B = [on 60 @5, off @5]` leaves no note at all, although `A` sounds on
    ticks 5…9.  The real `Sequence.merge` does the same (replayed: relative view `[WAIT 5, WAIT 5]`). -/
theorem union_statement_false : ¬ union_statement := by
  intro h
  have := (h [exZa, exZb] (by
    intro a ha
    simp only [List.mem_cons, List.not_mem_nil, or_false] at ha
    rcases ha with rfl | rfl
    · exact okwf_two 0 60 64 5 10 (by omega) (by omega)
    · exact okwf_two 0 60 70 5 5 (by omega) (by omega)) (0, 60) 5).2 ⟨exZa, by simp, by unfold SoundingAt; decide⟩
  revert this
  unfold SoundingAt
  decide

example : C15.mergeRel [exZa, exZb] = [Msg.mkWait 0 5, Msg.mkWait 0 5] := by decide

/-- a zero-length note strictly inside a real one does not change the sounding set but splits the note
    (and hands the second half the other input's velocity) — the real library does the same -/
example : notesOf (mergeEv [exZa, [Msg.mkOn 0 60 70 7, Msg.mkOff 0 60 7]])
    = [⟨0, 60, 5, 7, 64⟩, ⟨0, 60, 7, 10, 70⟩] := by decide

/-- a zero-length note away from every other note of its key just disappears -/
example : notesOf (mergeEv [exZa, [Msg.mkOn 0 60 70 20, Msg.mkOff 0 60 20]]) = [⟨0, 60, 5, 10, 64⟩] := by decide

/-! ### the same with `WF (sortAbs a)` instead of list-order `WF a` and `PosDur a` (A11, last sentence)

  `merge` sorts all messages anyway, so only the canonical sort of every input matters; and a
  well-formed canonical sort has no zero-length note (`posDur_of_sorted`), so `PosDur` disappears. -/

/-- a good input in this sense: a fresh absolute view whose canonical sort is well-formed -/
def GoodSorted (a : List Msg) : Prop := OkAbs a ∧ WF (sortAbs a)

theorem goodSorted_map (as : List (List Msg)) (h : ∀ a ∈ as, GoodSorted a) : ∀ a ∈ as.map sortAbs, GoodIn a := by
  intro a' ha'
  obtain ⟨a, ha, rfl⟩ := List.mem_map.1 ha'
  exact goodIn_sort a (h a ha).1 (h a ha).2

/-- all notes of all inputs, read off the canonical sorts -/
def inNotesS (as : List (List Msg)) : List Note := as.flatMap (fun a => notesOf (sortAbs a))

theorem inNotes_map_sort (as : List (List Msg)) : inNotes (as.map sortAbs) = inNotesS as := by
  simp [inNotes, inNotesS, List.flatMap_def, List.map_map, Function.comp_def]

/-- 2a for canonically well-formed inputs: the notes of the merge are the fusion of the inputs' notes -/
theorem merge_notes_fused_sorted (as : List (List Msg)) (h : ∀ a ∈ as, GoodSorted a) :
    IsFusion (inNotesS as) (notesOf (mergeEv as)) ∧ (noteShapes as).Perm ((fuse (inNotesS as)).map shape) := by
  have h' := goodSorted_map as h
  have e : noteShapes (as.map sortAbs) = noteShapes as := by simp only [noteShapes, mergeEv_sort]
  rw [← mergeEv_sort, ← inNotes_map_sort, ← e]
  exact ⟨merge_notes_fused _ h', merge_notes_fuse _ h'⟩

/-- 2b for canonically well-formed inputs -/
theorem order_independent_notes_sorted (as as' : List (List Msg)) (hp : as.Perm as')
    (h : ∀ a ∈ as, GoodSorted a) : (noteShapes as).Perm (noteShapes as') := by
  have e : ∀ x : List (List Msg), noteShapes (x.map sortAbs) = noteShapes x := by
    intro x; simp only [noteShapes, mergeEv_sort]
  rw [← e as, ← e as']
  exact order_independent_notes _ _ (hp.map _) (goodSorted_map as h)

/-- the union clause for canonically well-formed inputs (no separate zero-length exclusion) -/
theorem union_sorted (as : List (List Msg)) (h : ∀ a ∈ as, GoodSorted a) (k : Int × Int) (t : Int) :
    SoundingAt (mergeEv as) k t ↔ ∃ a ∈ as, SoundingAt (sortAbs a) k t := by
  rw [← mergeEv_sort, union_partial _ (goodSorted_map as h)]
  constructor
  · rintro ⟨a', ha', hs⟩
    obtain ⟨a, ha, rfl⟩ := List.mem_map.1 ha'
    exact ⟨a, ha, (sounding_eventsAbs _ k t).1 hs⟩
  · rintro ⟨a, ha, hs⟩
    exact ⟨sortAbs a, List.mem_map.2 ⟨a, ha, rfl⟩, (sounding_eventsAbs _ k t).2 hs⟩

/-- non-vacuity: an input that is time-sorted but lists the note-off of the first note *after* the
    note-on of the second on the same tick — list-order `WF` fails, the canonical sort is well-formed -/
def exU : List Msg := [Msg.mkOn 0 60 64 0, Msg.mkOn 0 60 70 5, Msg.mkOff 0 60 5, Msg.mkOff 0 60 10]
example : GoodSorted exU ∧ ¬ WF exU ∧ noteShapes [exU, exM2] = [(0, 60, 0, 5), (0, 60, 5, 10), (0, 60, 12, 36)] := by
  refine ⟨⟨⟨by simp [TimeSorted, exU, Msg.mkOn, Msg.mkOff], by simp [NonNegTimes, exU, Msg.mkOn, Msg.mkOff], by decide⟩, ?_⟩,
    ?_, by decide⟩
  · have e : sortAbs exU = [Msg.mkOn 0 60 64 0, Msg.mkOff 0 60 5, Msg.mkOn 0 60 70 5, Msg.mkOff 0 60 10] := by decide
    rw [e]
    intro k
    simp only [altFrom, Msg.mkOn, Msg.mkOff, Msg.nkey]
    by_cases hk : ((0 : Int), (60 : Int)) = k <;> simp [hk]
  · intro h
    have := h (0, 60)
    simp [altFrom, exU, Msg.mkOn, Msg.mkOff, Msg.nkey] at this

example : (∀ a ∈ [exU, exM2], GoodSorted a) → IsFusion (inNotesS [exU, exM2]) (notesOf (mergeEv [exU, exM2])) :=
  fun h => (merge_notes_fused_sorted _ h).1

/-! ## 3. C17 — `equals` ⇔ equality of an independently defined content (audit item A16)

  The content of a sequence under a flag set `f` (all three defined in `Lemmas/NotesBL.lean` from
  `notesOf (sortAbs ·)` and the signature messages of the sorted list, nothing from the pairing code):
  * `notesC f a` — the notes (channel, pitch, onset, end, velocity), channel erased by the channel flag,
    velocity erased by the velocity flag;
  * `tsC f a` — the time signatures (channel, tick, numerator, denominator) in canonical order, dropped by
    the time-signature flag, channel erased by the channel flag;
  * `ksC f a` — the key signatures (channel, tick, key), likewise. -/

/-- same content, signatures as multisets -/
def ContentPerm (f : EqFlags) (a b : List Msg) : Prop :=
  (notesC f a).Perm (notesC f b) ∧ (tsC f a).Perm (tsC f b) ∧ (ksC f a).Perm (ksC f b)

/-- same content, signatures as lists (so the order of two signatures on one tick and channel counts) -/
def ContentEq (f : EqFlags) (a b : List Msg) : Prop :=
  (notesC f a).Perm (notesC f b) ∧ tsC f a = tsC f b ∧ ksC f a = ksC f b

/-- all compared events sit on one channel -/
def OneChannel (f : EqFlags) (a : List Msg) : Prop := ∃ c, ∀ m ∈ a, cmpOf f m = true → m.ch = c

/-- **3a (⇒), all 16 flag settings.** Two well-formed sequences that compare equal under flags `f` have
    the same content under `f`: any difference in a note's channel, pitch, onset, end or velocity, or in
    a signature's channel, tick or value, that the flags do not erase makes `equals` fail.  No other
    hypothesis.  Closes A16 ("only flags {}"; "no reduction theorem for ignoreCh"). -/
theorem equals_sound_all (ppqn : Int) (f : EqFlags) (a b : List Msg) (ha : WF (sortAbs a)) (hb : WF (sortAbs b))
    (h : equalsAbs ppqn f a b = true) : ContentPerm f a b :=
  sound_content ppqn f a b ha hb h

/-- **3a (⇐).** Equal content (signatures in canonical order) makes `equals` succeed: for every flag
    setting without the channel flag, and with the channel flag for sequences whose compared events sit on
    one channel each.  `SigPlain` (signature messages carry no pitch, true of every message the library
    builds) is forced by the proof technique only. -/
theorem equals_complete (ppqn : Int) (f : EqFlags) (a b : List Msg) (ha : WF (sortAbs a)) (hb : WF (sortAbs b))
    (pa : SigPlain a) (pb : SigPlain b)
    (hch : f.ignoreCh = true → OneChannel f a ∧ OneChannel f b)
    (h : ContentEq f a b) : equalsAbs ppqn f a b = true := by
  cases hf : f.ignoreCh
  · exact complete_core ppqn f hf a b ha hb pa pb h.1 h.2.1 h.2.2
  · obtain ⟨⟨c, oa⟩, ⟨c', ob⟩⟩ := hch hf
    exact complete_core_ch ppqn f hf a b ha hb pa pb c c' oa ob h.1 h.2.1 h.2.2

/-- **3a (⇔), all 16 flag settings.** For well-formed sequences, `equals` under flags `f` holds exactly
    when the contents under `f` agree — each flag erasing exactly its attribute.  Hypotheses: no two
    *different* signatures of one kind on one (channel, tick) in `a` (`TsFun`, `KsFun`: there the order of
    insertion decides, see `equals_iff_content_statement_false`); with the channel flag, one channel per
    sequence (see `equals_iff_content_channel_statement_false`); `SigPlain`. Closes A16. -/
theorem equals_iff_content_partial (ppqn : Int) (f : EqFlags) (a b : List Msg)
    (ha : WF (sortAbs a)) (hb : WF (sortAbs b)) (pa : SigPlain a) (pb : SigPlain b)
    (hts : TsFun f a) (hks : KsFun f a)
    (hch : f.ignoreCh = true → OneChannel f a ∧ OneChannel f b) :
    equalsAbs ppqn f a b = true ↔ ContentPerm f a b := by
  constructor
  · exact equals_sound_all ppqn f a b ha hb
  · rintro ⟨h1, h2, h3⟩
    exact equals_complete ppqn f a b ha hb pa pb hch
      ⟨h1, tsC_eq_of_perm f a b hts h2, ksC_eq_of_perm f a b hks h3⟩

/-- the unrestricted statement -/
def equals_iff_content_statement : Prop :=
  ∀ (ppqn : Int) (f : EqFlags) (a b : List Msg), WF (sortAbs a) → WF (sortAbs b) → SigPlain a → SigPlain b →
    (equalsAbs ppqn f a b = true ↔ ContentPerm f a b)

/-- two different time signatures on one tick and channel, inserted in the two orders -/
def cexTsA : List Msg := [Msg.mkTimeSig 0 4 4 0, Msg.mkTimeSig 0 3 4 0]
def cexTsB : List Msg := [Msg.mkTimeSig 0 3 4 0, Msg.mkTimeSig 0 4 4 0]

theorem wf_of_no_notes (l : List Msg) (h : ∀ m ∈ l, m.ty ≠ .noteOn ∧ m.ty ≠ .noteOff) : WF l := by
  intro k
  induction l with
  | nil => simp [altFrom]
  | cons m ms ih =>
    have := h m (by simp)
    simp only [altFrom, this.1, this.2, and_false, if_false]
    exact ih (fun x hx => h x (List.mem_cons_of_mem _ hx))

/-- without the channel flag the statement fails only where two different signatures share a tick and
    a channel: the same events inserted in the other order compare unequal (and they do denote different
    music — the signature in force differs) -/
theorem equals_iff_content_statement_false : ¬ equals_iff_content_statement := by
  intro h
  have hw : ∀ l : List Msg, sortAbs l = l → (∀ m ∈ l, m.ty ≠ .noteOn ∧ m.ty ≠ .noteOff) → WF (sortAbs l) :=
    fun l e hl => by rw [e]; exact wf_of_no_notes l hl
  have := (h 24 {} cexTsA cexTsB (hw _ (by decide) (by decide)) (hw _ (by decide) (by decide))
    (by decide) (by decide)).2
    ⟨by decide, by decide, by decide⟩
  revert this
  decide

/-- the statement restricted to inputs without such signature ties, but with the channel flag on
    multi-channel sequences -/
def equals_iff_content_channel_statement : Prop :=
  ∀ (ppqn : Int) (f : EqFlags) (a b : List Msg), WF (sortAbs a) → WF (sortAbs b) → SigPlain a → SigPlain b →
    TsFun f a → KsFun f a → (equalsAbs ppqn f a b = true ↔ ContentPerm f a b)

def cexChA : List Msg := [Msg.mkOn 0 60 64 0, Msg.mkOff 0 60 10, Msg.mkOn 1 62 64 0, Msg.mkOff 1 62 10]
def cexChB : List Msg := [Msg.mkOn 0 62 64 0, Msg.mkOff 0 62 10, Msg.mkOn 1 60 64 0, Msg.mkOff 1 60 10]

theorem wf_cexChA : WF (sortAbs cexChA) := by
  have e : sortAbs cexChA = [Msg.mkOn 0 60 64 0, Msg.mkOn 1 62 64 0, Msg.mkOff 0 60 10, Msg.mkOff 1 62 10] := by decide
  rw [e]
  intro k
  simp only [altFrom, Msg.mkOn, Msg.mkOff, Msg.nkey]
  by_cases hk : ((0 : Int), (60 : Int)) = k
  · subst hk; simp
  · by_cases hk' : ((1 : Int), (62 : Int)) = k
    · subst hk'; simp
    · simp [hk, hk']

theorem wf_cexChB : WF (sortAbs cexChB) := by
  have e : sortAbs cexChB = [Msg.mkOn 0 62 64 0, Msg.mkOn 1 60 64 0, Msg.mkOff 0 62 10, Msg.mkOff 1 60 10] := by decide
  rw [e]
  intro k
  simp only [altFrom, Msg.mkOn, Msg.mkOff, Msg.nkey]
  by_cases hk : ((0 : Int), (62 : Int)) = k
  · subst hk; simp
  · by_cases hk' : ((1 : Int), (60 : Int)) = k
    · subst hk'; simp
    · simp [hk, hk']

/-- **the channel flag does not make channels irrelevant**: two sequences that differ only in which
    channel carries which of two simultaneous notes compare unequal even with `ignore_channel`
    (the interleaving breaks onset ties by channel).  Replayed on the real `Sequence.equals`: `False`. -/
theorem equals_iff_content_channel_statement_false : ¬ equals_iff_content_channel_statement := by
  intro h
  have := (h 24 { ignoreCh := true } cexChA cexChB wf_cexChA wf_cexChB (by decide) (by decide)
    (by decide) (by decide)).2 ⟨by decide, by decide, by decide⟩
  revert this
  decide

/-- non-vacuity of `equals_iff_content_partial`: two sequences differing in one velocity are equal exactly
    under the velocity flag -/
def exEqA : List Msg := [Msg.mkTimeSig 0 4 4 0, Msg.mkOn 0 60 64 0, Msg.mkOff 0 60 10, Msg.mkOn 1 62 70 5, Msg.mkOff 1 62 15]
def exEqB : List Msg := [Msg.mkOn 1 62 70 5, Msg.mkOn 0 60 99 0, Msg.mkOff 0 60 10, Msg.mkTimeSig 0 4 4 0, Msg.mkOff 1 62 15]

theorem wf_exEqA : WF (sortAbs exEqA) := by
  have e : sortAbs exEqA = [Msg.mkTimeSig 0 4 4 0, Msg.mkOn 0 60 64 0, Msg.mkOn 1 62 70 5, Msg.mkOff 0 60 10, Msg.mkOff 1 62 15] := by decide
  rw [e]
  intro k
  simp only [altFrom, Msg.mkOn, Msg.mkOff, Msg.mkTimeSig, Msg.nkey]
  by_cases hk : ((0 : Int), (60 : Int)) = k
  · subst hk; simp
  · by_cases hk' : ((1 : Int), (62 : Int)) = k
    · subst hk'; simp
    · simp [hk, hk']

theorem wf_exEqB : WF (sortAbs exEqB) := by
  have e : sortAbs exEqB = [Msg.mkTimeSig 0 4 4 0, Msg.mkOn 0 60 99 0, Msg.mkOn 1 62 70 5, Msg.mkOff 0 60 10, Msg.mkOff 1 62 15] := by decide
  rw [e]
  intro k
  simp only [altFrom, Msg.mkOn, Msg.mkOff, Msg.mkTimeSig, Msg.nkey]
  by_cases hk : ((0 : Int), (60 : Int)) = k
  · subst hk; simp
  · by_cases hk' : ((1 : Int), (62 : Int)) = k
    · subst hk'; simp
    · simp [hk, hk']

example : (equalsAbs 24 { ignoreVel := true } exEqA exEqB = true ↔ ContentPerm { ignoreVel := true } exEqA exEqB)
    ∧ equalsAbs 24 { ignoreVel := true } exEqA exEqB = true ∧ equalsAbs 24 {} exEqA exEqB = false
    ∧ ¬ ContentPerm {} exEqA exEqB :=
  ⟨equals_iff_content_partial 24 _ exEqA exEqB wf_exEqA wf_exEqB (by decide) (by decide) (by decide) (by decide)
      (fun h => by cases h),
    by decide, by decide,
    fun h => by
      have := (equals_iff_content_partial 24 {} exEqA exEqB wf_exEqA wf_exEqB (by decide) (by decide) (by decide)
        (by decide) (fun h => by cases h)).2 h
      revert this; decide⟩

/-- `equals_sound_all` on the same pair under the velocity flag -/
example : ContentPerm { ignoreVel := true } exEqA exEqB :=
  equals_sound_all 24 _ exEqA exEqB wf_exEqA wf_exEqB (by decide)

/-! ### 3b — re-representation and insertion order -/

/-- **insertion order** does not matter as long as compared messages that tie in the sort key
    (tick, channel, type, pitch) agree on what `equals` looks at.  Messages `equals` does not compare
    (control changes, program changes, …) are unrestricted — any number of them may share a tick and a
    channel.  Replaces the `Nodup sortKey` hypothesis of `C17.perm_invariant` (A16). -/
theorem equals_of_perm_tie (ppqn : Int) (f : EqFlags) (a a' : List Msg) (hp : a.Perm a') (ht : TieAgree f a) :
    equalsAbs ppqn f a a' = true :=
  equals_of_normal_form ppqn f a a' (normal_form_of_perm f a a' hp ht)

/-- non-vacuity: two control changes and two identical program changes share tick 0 and channel 0; the
    old `Nodup sortKey` hypothesis fails, `TieAgree` holds -/
def exTie : List Msg := [{ ty := .controlChange, ctl := 7, time := 0 }, Msg.mkOn 0 60 64 0,
  { ty := .controlChange, ctl := 10, time := 0 }, Msg.mkOff 0 60 10, { ty := .programChange, prog := 1, time := 0 }]
example : TieAgree {} exTie ∧ ¬ (exTie.map C17.sortKey).Nodup
    ∧ equalsAbs 24 {} exTie exTie.reverse = true :=
  ⟨by decide, by decide, equals_of_perm_tie 24 {} exTie exTie.reverse (List.reverse_perm _).symm (by decide)⟩

/-- the unrestricted statement … -/
def insertion_order_statement : Prop :=
  ∀ (ppqn : Int) (f : EqFlags) (a a' : List Msg), a.Perm a' → equalsAbs ppqn f a a' = true

/-- … fails where two different time signatures share a tick and a channel (the stable sort keeps the
    insertion order, and the later one is the one in force).  Replayed on the real library: `False`. -/
theorem insertion_order_statement_false : ¬ insertion_order_statement := by
  intro h
  have := h 24 {} cexTsA cexTsB (List.Perm.swap _ _ _)
  revert this
  decide

/-- **re-representation**: a sequence built from relative messages compares equal to one built from
    absolute messages whenever the timed events are the same (up to the order of simultaneous ones) -/
theorem equals_of_same_events (ppqn : Int) (f : EqFlags) (r a : List Msg)
    (hp : (eventsRel r).Perm (eventsAbs a)) (ht : TieAgree f (eventsRel r)) :
    equalsAbs ppqn f (toAbs r) a = true := by
  rw [equals_congr_left ppqn f (toAbs r) (eventsRel r) a (toAbs_filter f r),
    C17.symm, equals_congr_left ppqn f a (eventsAbs a) _ (by rw [eventsAbs_filter]), C17.symm]
  exact equals_of_perm_tie ppqn f _ _ hp ht

/-- **through either representation**: converting to the relative view and back gives an equal sequence,
    for every flag setting and every absolute view the wrapper keeps (`OkAbs`; no well-formedness needed).
    `toAbs (toRel a)` is not a permutation of `a` (the `INTERNAL` cap), so this does not follow from
    `C17.perm_invariant` (A16). -/
theorem equals_rerepresented (ppqn : Int) (f : EqFlags) (a : List Msg) (h : OkAbs a) :
    equalsAbs ppqn f (toAbs (toRel a)) a = true ∧ equalsAbs ppqn f a (toAbs (toRel a)) = true := by
  have e : equalsAbs ppqn f (toAbs (toRel a)) a = true := by
    rw [equals_congr_left ppqn f (toAbs (toRel a)) a a (by
      rw [toAbs_filter, C04.toRel_events a h, eventsAbs_filter])]
    exact C17.refl ppqn f a
  exact ⟨e, by rw [C17.symm]; exact e⟩

def exEqS : List Msg := [Msg.mkTimeSig 0 4 4 0, Msg.mkOn 0 60 64 0, Msg.mkInternal 0 3, Msg.mkOn 1 62 70 5, Msg.mkOff 0 60 10, Msg.mkOff 1 62 15]
example : OkAbs exEqS ∧ equalsAbs 24 {} (toAbs (toRel exEqS)) exEqS = true ∧ ¬ (toAbs (toRel exEqS)).Perm exEqS := by
  refine ⟨⟨?_, ?_, by decide⟩, by decide, fun h => by have := h.length_eq; revert this; decide⟩
  · simp [TimeSorted, exEqS, Msg.mkOn, Msg.mkOff, Msg.mkTimeSig, Msg.mkInternal]
  · simp [NonNegTimes, exEqS, Msg.mkOn, Msg.mkOff, Msg.mkTimeSig, Msg.mkInternal]

/-! ### 3c — "unequal without the flag" -/

/-- any difference in the content under `f` makes `equals` under `f` fail -/
theorem equals_false_of_content (ppqn : Int) (f : EqFlags) (a b : List Msg) (ha : WF (sortAbs a))
    (hb : WF (sortAbs b)) (h : ¬ ContentPerm f a b) : equalsAbs ppqn f a b = false := by
  cases he : equalsAbs ppqn f a b
  · rfl
  · exact absurd (equals_sound_all ppqn f a b ha hb he) h

/-- **velocity flag**: sequences that differ only in note-on velocities compare equal with the flag … -/
theorem flag_velocity_only (ppqn : Int) (f : EqFlags) (a b : List Msg) (h : C17.eraseVel a = C17.eraseVel b) :
    equalsAbs ppqn { f with ignoreVel := true } a b = true := by
  rw [C17.flag_velocity, h]
  exact C17.refl ppqn _ _

/-- … and unequal without it as soon as one note-on's velocity really differs (channel compared) -/
theorem flag_velocity_strict (ppqn : Int) (f : EqFlags) (a b : List Msg) (ha : WF (sortAbs a)) (hb : WF (sortAbs b))
    (hc : f.ignoreCh = false) (m m' : Msg) (hm : m ∈ a) (hm' : m' ∈ b) (hty : m.ty = .noteOn) (hty' : m'.ty = .noteOn)
    (hk : m.ch = m'.ch ∧ m.note = m'.note ∧ m.time = m'.time) (hv : m.vel ≠ m'.vel) :
    equalsAbs ppqn { f with ignoreVel := false } a b = false := by
  apply equals_false_of_content ppqn _ a b ha hb
  rintro ⟨hn, _, _⟩
  have he : ∀ c : List Msg, notesC { f with ignoreVel := false } c = notesOf (sortAbs c) := by
    intro c
    unfold notesC
    conv => rhs; rw [← List.map_id (notesOf (sortAbs c))]
    apply List.map_congr_left
    intro n _
    simp [eraseN, hc]
  rw [he a, he b] at hn
  have sb := notes_sep (sortAbs b) hb (sorted_of_kle (EQ.sortAbs_sorted b)) (posDur_of_sorted _ hb (EQ.sortAbs_sorted b))
  -- the note started by `m` in `a` is a note of `b` too, next to the one started by `m'`
  obtain ⟨n, hn1, e1⟩ := List.mem_map.1 ((notes_ons (sortAbs a) ha _).2 ⟨m, (mem_sortAbs a m).2 hm, hty, rfl⟩)
  obtain ⟨n', hn1', e1'⟩ := List.mem_map.1 ((notes_ons (sortAbs b) hb _).2 ⟨m', (mem_sortAbs b m').2 hm', hty', rfl⟩)
  have hn2 : n ∈ notesOf (sortAbs b) := hn.mem_iff.1 hn1
  simp only [onAttr, Prod.mk.injEq] at e1 e1'
  have hne : n ≠ n' := by
    intro e; subst e; exact hv (by rw [← e1.2.2.2, e1'.2.2.2])
  have p1 := sb.pos n hn2
  have p2 := sb.pos n' hn1'
  rcases sb.disj n hn2 n' hn1' hne (by simp [nkeyN, e1.1, e1.2.1, e1'.1, e1'.2.1, hk.1, hk.2.1]) with h | h <;> omega

/-- **time-signature flag**: sequences that differ only in time-signature events compare equal with the flag … -/
theorem flag_time_signature_only (ppqn : Int) (f : EqFlags) (a b : List Msg)
    (h : a.filter (·.ty != .timeSignature) = b.filter (·.ty != .timeSignature)) :
    equalsAbs ppqn { f with ignoreTs := true } a b = true := by
  rw [C17.flag_time_signature, h]
  exact C17.refl ppqn _ _

/-- … and unequal without it as soon as the time signatures (channel, tick, value) really differ -/
theorem flag_time_signature_strict (ppqn : Int) (f : EqFlags) (a b : List Msg) (ha : WF (sortAbs a))
    (hb : WF (sortAbs b)) (hd : ¬ (tsC { f with ignoreTs := false } a).Perm (tsC { f with ignoreTs := false } b)) :
    equalsAbs ppqn { f with ignoreTs := false } a b = false :=
  equals_false_of_content ppqn _ a b ha hb (fun h => hd h.2.1)

/-- **key-signature flag**: likewise … -/
theorem flag_key_signature_only (ppqn : Int) (f : EqFlags) (a b : List Msg)
    (h : a.filter (·.ty != .keySignature) = b.filter (·.ty != .keySignature)) :
    equalsAbs ppqn { f with ignoreKs := true } a b = true := by
  rw [C17.flag_key_signature, h]
  exact C17.refl ppqn _ _

theorem flag_key_signature_strict (ppqn : Int) (f : EqFlags) (a b : List Msg) (ha : WF (sortAbs a))
    (hb : WF (sortAbs b)) (hd : ¬ (ksC { f with ignoreKs := false } a).Perm (ksC { f with ignoreKs := false } b)) :
    equalsAbs ppqn { f with ignoreKs := false } a b = false :=
  equals_false_of_content ppqn _ a b ha hb (fun h => hd h.2.2)

/-- non-vacuity of the time-signature clauses: `exEqA` against itself with the time signature moved -/
def exEqT : List Msg := [Msg.mkTimeSig 0 4 4 5, Msg.mkOn 0 60 64 0, Msg.mkOff 0 60 10, Msg.mkOn 1 62 70 5, Msg.mkOff 1 62 15]
example : equalsAbs 24 { ignoreTs := true } exEqA exEqT = true ∧ equalsAbs 24 { ignoreTs := false } exEqA exEqT = false := by
  refine ⟨flag_time_signature_only 24 {} exEqA exEqT (by decide), ?_⟩
  refine flag_time_signature_strict 24 {} exEqA exEqT wf_exEqA ?_ (by decide)
  have e : sortAbs exEqT = [Msg.mkOn 0 60 64 0, Msg.mkTimeSig 0 4 4 5, Msg.mkOn 1 62 70 5, Msg.mkOff 0 60 10, Msg.mkOff 1 62 15] := by decide
  rw [e]
  intro k
  simp only [altFrom, Msg.mkOn, Msg.mkOff, Msg.mkTimeSig, Msg.nkey]
  by_cases hk : ((0 : Int), (60 : Int)) = k
  · subst hk; simp
  · by_cases hk' : ((1 : Int), (62 : Int)) = k
    · subst hk'; simp
    · simp [hk, hk']

/-- non-vacuity of the strict velocity clause, on the pair above -/
example : equalsAbs 24 { ignoreTs := true, ignoreVel := false } exEqA exEqB = false :=
  flag_velocity_strict 24 { ignoreTs := true } exEqA exEqB wf_exEqA wf_exEqB rfl
    (Msg.mkOn 0 60 64 0) (Msg.mkOn 0 60 99 0) (by decide) (by decide) rfl rfl ⟨rfl, rfl, rfl⟩ (by decide)

end SCoda.NotesB
