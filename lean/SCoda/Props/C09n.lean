/-
  C09 (bar splitting, re-quantisation off: the bars reproduce the sounding set exactly) with the D18b carve-out
  narrowed at tick 0 — closes audit round 2, item F5 ("carve-outs wider than the recorded finding"), row C09 of its
  section D table ("exact / tick 0 too wide").

  `Strong589.NoZeroOnGrid` excludes a zero-length note (note-on and note-off on one tick) on ANY bar start of the grid
  induced by the meta track's signatures, tick 0 included.  Tick 0 is a bar start but no cut point: nothing is torn
  apart there (replayed on the library: a zero-length note at tick 0 followed by notes of the same key, of another key,
  crossing the next bar line, with a 3/4 signature at tick 0 — `sequences_split_bars` reproduces the sounding set in
  every case; the defect D18b needs a bar line > 0).  Here the input-level theorem is proved under
  `NoZeroOnGrid'` = "no zero-length note on a bar start AFTER tick 0".

  The output-level `Strong589.NoZeroOnBarLine` speaks of bar LINES (bar ends, `barLines`), which are positive whenever
  the bar lengths are, so it never excluded tick 0 (`noZeroOnBarLine_iff`); `sound_exact_barlines'` states this.
-/
import SCoda.Props.Strong589
import SCoda.Lemmas.C09NarrowL
namespace SCoda.C09n
open SCoda SCoda.SplitL SCoda.SB SCoda.BarL SCoda.Strong589 SCoda.Strong589L SCoda.Strong589LT SCoda.Strong589LB

/-- **the D18b class, input-level, exactly at tick 0**: no zero-length note of the track sits on a bar start AFTER tick 0
    of the grid induced by the signature events `sigs` of the meta track -/
def NoZeroOnGrid' (ppqn : Int) (sigs : List Msg) (t : List Msg) : Prop :=
  ∀ n ∈ notesOf (eventsRel t), n.on = n.off → 0 < n.on → ¬ OnGrid ppqn sigs n.on

/-- decidable form of `NoZeroOnGrid'` (bounded walk along the grid; equivalent when all bar lengths are positive) -/
def NoZeroOnGridB' (ppqn : Int) (sigs : List Msg) (t : List Msg) : Prop :=
  ∀ n ∈ notesOf (eventsRel t), n.on = n.off → 0 < n.on → onGridB ppqn sigs (n.on.toNat + 1) 0 n.on = false

instance (ppqn : Int) (sigs : List Msg) (t : List Msg) : Decidable (NoZeroOnGridB' ppqn sigs t) := by
  unfold NoZeroOnGridB'; infer_instance

theorem noZeroOnGrid'_of_B (ppqn : Int) (sigs : List Msg) (t : List Msg) (hpos : PosBars ppqn sigs)
    (h : NoZeroOnGridB' ppqn sigs t) : NoZeroOnGrid' ppqn sigs t := by
  intro n hn h0 hp ⟨j, hj⟩
  have hb := h n hn h0 hp
  have hc := onGridB_complete ppqn sigs hpos (n.on.toNat + 1) 0 j (Nat.zero_le _) (by rw [← hj]; simp [gridStart])
  rw [← hj] at hc
  simp only [gridStart] at hc
  rw [hb] at hc
  cases hc

/-- the old hypothesis implies the new one -/
theorem noZeroOnGrid'_of_old (ppqn : Int) (sigs : List Msg) (t : List Msg) (h : NoZeroOnGrid ppqn sigs t) :
    NoZeroOnGrid' ppqn sigs t :=
  fun n hn h0 _ => h n hn h0

/-- **the D18b class, output-level, with tick 0 spelt out** -/
def NoZeroOnBarLine' (ppqn : Int) (t : List Msg) (bars : List Bar) : Prop :=
  ∀ n ∈ notesOf (eventsRel t), n.on = n.off → 0 < n.on → n.on ∉ barLines ppqn bars

instance (ppqn : Int) (t : List Msg) (bars : List Bar) : Decidable (NoZeroOnBarLine' ppqn t bars) := by
  unfold NoZeroOnBarLine'; infer_instance

/-- bar lines (bar ends) of bars of positive length are positive: `NoZeroOnBarLine` never excluded tick 0 -/
theorem noZeroOnBarLine_iff (ppqn : Int) (t : List Msg) (bars : List Bar)
    (hpos : ∀ b ∈ bars, 0 < barCapacity ppqn b.num b.den) :
    NoZeroOnBarLine ppqn t bars ↔ NoZeroOnBarLine' ppqn t bars := by
  constructor
  · exact fun h n hn h0 _ => h n hn h0
  · intro h n hn h0 hmem
    refine h n hn h0 ?_ hmem
    apply C09NarrowL.cumSums_pos _ 0 (Int.le_refl _) _ _ hmem
    intro c hc
    obtain ⟨b, hb, rfl⟩ := List.mem_map.1 hc
    exact hpos b hb

/-- **sound, re-quantisation off** (closes audit round 2 F5, row C09): laid end to end, a track's bars reproduce its
    sounding (channel, pitch, tick) set exactly — for every track in which no zero-length note sits on a bar line
    after tick 0 of the result.  A zero-length note at tick 0 is allowed. -/
theorem sound_exact_barlines' (ppqn : Int) (values : List Int) (tracks : List (List Msg)) (metaIdx : Nat)
    (tb : List (List Bar)) (h : splitBars ppqn values tracks metaIdx false = .ok tb)
    (i : Nat) (t : List Msg) (bars : List Bar) (ht : tracks[i]? = some t) (hb : tb[i]? = some bars)
    (hw : NonNegWaits t) (hwf : WF t) (hz : NoZeroOnBarLine' ppqn t bars)
    (hpos : ∀ b ∈ bars, 0 < barCapacity ppqn b.num b.den) (k : Int × Int) (tick : Int) :
    SoundingAt (eventsRel (barsToSeq bars)) k tick ↔ SoundingAt (eventsRel t) k tick :=
  sound_exact_barlines ppqn values tracks metaIdx tb h i t bars ht hb hw hwf
    ((noZeroOnBarLine_iff ppqn t bars hpos).2 hz) hpos k tick

/-- **sound, re-quantisation off, input-level** (closes audit round 2 F5, row C09): if the meta track's signature
    changes sit on the bar grid they induce (at distinct ticks, all bar lengths positive) and no zero-length note of the
    track sits on a bar start AFTER tick 0 of that grid, the track's bars laid end to end reproduce its sounding (channel,
    pitch, tick) set exactly.  Every hypothesis reads the input only; the carved-out class is exactly D18b's
    (`Strong589.sound_exact_statement_false` refutes the statement without it). -/
theorem sound_exact_boundary' (ppqn : Int) (values : List Int) (tracks : List (List Msg)) (metaIdx : Nat)
    (tb : List (List Bar)) (h : splitBars ppqn values tracks metaIdx false = .ok tb)
    (metaTrack : List Msg) (hm : tracks[metaIdx]? = some metaTrack)
    (hpos : PosBars ppqn (sigsOf metaTrack)) (hd : DistinctTicks (sigsOf metaTrack))
    (hal : ∀ m ∈ sigsOf metaTrack, OnGrid ppqn (sigsOf metaTrack) m.time)
    (i : Nat) (t : List Msg) (bars : List Bar) (ht : tracks[i]? = some t) (hb : tb[i]? = some bars)
    (hw : NonNegWaits t) (hwf : WF t) (hz : NoZeroOnGrid' ppqn (sigsOf metaTrack) t) (k : Int × Int) (tick : Int) :
    SoundingAt (eventsRel (barsToSeq bars)) k tick ↔ SoundingAt (eventsRel t) k tick := by
  have hgrid := barLines_onGrid ppqn values tracks metaIdx false tb h metaTrack hm hpos.nonneg hd hal i bars hb
  have hbpos : ∀ b ∈ bars, 0 < barCapacity ppqn b.num b.den := by
    intro b hbm
    obtain ⟨j, hj, rfl⟩ := List.getElem_of_mem hbm
    have hbar : C09.barAt tb i j = some bars[j] := by
      unfold C09.barAt
      simp [hb, List.getElem?_eq_getElem hj]
    obtain ⟨hsig, _⟩ := bar_signature_in ppqn values tracks metaIdx false tb h metaTrack hm hpos.nonneg hal hd i j _ hbar
    have := sigInForce_cap_pos ppqn _ hpos (gridStart ppqn (sigsOf metaTrack) j)
    rw [← hsig] at this
    exact this
  refine sound_exact_barlines' ppqn values tracks metaIdx tb h i t bars ht hb hw hwf ?_ hbpos k tick
  intro n hn h0 hp hmem
  exact hz n hn h0 hp (hgrid _ hmem)

/-! ## non-vacuity -/

/-- a zero-length note at tick 0, then a note of the same key, then one crossing the bar line 96 -/
def exZero0 : List Msg := [Msg.mkOn 0 60 64 pyNone, Msg.mkOff 0 60 pyNone, Msg.mkWait 0 10, Msg.mkOn 0 60 64 pyNone,
  Msg.mkWait 0 10, Msg.mkOff 0 60 pyNone, Msg.mkWait 0 60, Msg.mkOn 0 62 64 pyNone, Msg.mkWait 0 30, Msg.mkOff 0 62 pyNone,
  Msg.mkWait 0 82]

/-- the example meets the new input-level hypothesis and not the old one … -/
example : PosBars 24 (sigsOf exZero0) ∧ DistinctTicks (sigsOf exZero0) ∧
    (∀ m ∈ sigsOf exZero0, OnGrid 24 (sigsOf exZero0) m.time) ∧ WF exZero0 ∧ NonNegWaits exZero0 ∧
    NoZeroOnGrid' 24 (sigsOf exZero0) exZero0 ∧ ¬ NoZeroOnGrid 24 (sigsOf exZero0) exZero0 := by
  have hp : PosBars 24 (sigsOf exZero0) := by decide +kernel
  refine ⟨hp, by decide +kernel, ?_, wf_of_keys exZero0 (by decide), by unfold NonNegWaits; decide,
    noZeroOnGrid'_of_B _ _ _ hp (by decide +kernel), ?_⟩
  · have : sigsOf exZero0 = [] := by decide +kernel
    rw [this]; simp
  · intro h
    exact h ⟨0, 60, 0, 0, 64⟩ (by decide) rfl ⟨0, rfl⟩

/-- … and the conclusion evaluated on it: two 4/4 bars whose sounding set is the track's -/
example : ∃ tb bars, splitBars 24 vals [exZero0] 0 false = .ok tb ∧ tb[0]? = some bars ∧ barLines 24 bars = [96, 192] ∧
    NoZeroOnBarLine' 24 exZero0 bars ∧
    notesOf (eventsRel (barsToSeq bars)) = [⟨0, 60, 0, 0, 64⟩, ⟨0, 60, 10, 20, 64⟩, ⟨0, 62, 80, 96, 64⟩, ⟨0, 62, 96, 110, 64⟩] := by
  refine ⟨_, _, rfl, rfl, by decide, by decide, by decide⟩

/-- the D18b witness stays excluded -/
example : ¬ NoZeroOnGridB' 24 (sigsOf d18b) d18b := by decide +kernel

end SCoda.C09n
