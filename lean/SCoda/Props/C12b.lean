/-
  C12 — save then load, the remaining clauses: velocities of the notes, and the signatures in force.
-/
import SCoda.Props.C12
import SCoda.Lemmas.MidiE2Eb
namespace SCoda.C13
open SCoda

/-- the event of type `ty` with the greatest tick `≤ t` (the later one in list order on equal ticks) -/
def latest (ty : MType) (evs : List Msg) (t : Int) : Option Msg :=
  evs.foldl (fun best m =>
    if m.ty == ty && decide (m.time ≤ t) && best.all (fun b => decide (b.time ≤ m.time)) then some m else best) Option.none

/-- what a signature says, channel aside -/
def sigFields (m : Msg) : Int × Int × Int := (m.num, m.den, m.key)

/-- what is in force when the file says nothing: 4/4 from tick 0, no key -/
def dfltSig : MType → List Msg
  | .timeSignature => [Msg.mkTimeSig 0 4 4 0]
  | _ => []

theorem saved_savedC (r : List Msg) (h : Saved r) : E2E.SavedC r :=
  ⟨h.ok, h.noTime, h.wf, h.pos, fun m hm hon => (h.vel m hm hon).1, h.oneCh⟩

/-- **C12, velocities**: the note-on events of loaded sequence `i` are those of saved sequence `i`,
    with pitch, tick and velocity (channel 0 after loading) -/
theorem save_load_note_ons (ppqn : Int) (hp : 0 < ppqn) (rels : List (List Msg)) (hs : ∀ r ∈ rels, Saved r)
    (out : List Seq) (h : saveLoad ppqn rels = .ok out)
    (i : Nat) (r : List Msg) (s s' : Seq) (a : List Msg) (hr : rels[i]? = some r) (ho : out[i]? = some s)
    (ha : s.readAbs = Except.ok (s', a)) (p t v : Int) :
    (∃ m ∈ eventsAbs a, m.ty = .noteOn ∧ m.note = p ∧ m.time = t ∧ m.vel = v) ↔
    (∃ m ∈ eventsRel r, m.ty = .noteOn ∧ m.note = p ∧ m.time = t ∧ m.vel = v) := by
  unfold saveLoad at h
  exact E2E.note_ons_core ppqn hp rels (fun r hr => saved_savedC r (hs r hr)) out h i r s s' a hr ho ha p t v

/-- **C12, signatures in force** (the statement as requested): at every tick the time (key) signature in
    force on the meta sequence (loaded sequence 0) is the one in force among everything that was saved, 4/4
    from tick 0 when nothing was saved there — provided no two saved signatures of that kind share a tick.
    FALSE for the model as stated: `Saved` does not constrain the fields a signature message carries.
    A saved time signature with a foreign `key` field loses it (`convEvent` copies numerator / denominator
    only); a time signature whose numerator and denominator are both `None` (`pyNone`) and a key signature
    whose key is `None` repeat the initial state of `normalise` and are dropped
    (see `save_load_signatures_statement_false`). -/
def save_load_signatures_statement : Prop :=
  ∀ (ppqn : Int) (_hp : 0 < ppqn) (rels : List (List Msg)) (_hs : ∀ r ∈ rels, Saved r)
    (ty : MType) (_hty : ty = .timeSignature ∨ ty = .keySignature)
    (_hdist : (((rels.flatMap eventsRel).filter (fun m => m.ty == ty)).map (fun m => m.time)).Nodup)
    (out : List Seq) (_h : saveLoad ppqn rels = .ok out)
    (s s' : Seq) (a : List Msg) (_ho : out[0]? = some s) (_ha : s.readAbs = Except.ok (s', a))
    (t : Int) (_ht : 0 ≤ t),
    (latest ty (eventsAbs a) t).map sigFields
      = (latest ty (dfltSig ty ++ rels.flatMap eventsRel) t).map sigFields

/-- the witness: one saved sequence holding a 3/4 time signature that also carries `key = 5` -/
def cexRels : List (List Msg) := [[{ ty := .timeSignature, num := 3, den := 4, key := 5 }]]

theorem cexRels_saved : ∀ r ∈ cexRels, Saved r := by
  intro r hr
  simp only [cexRels, List.mem_cons, List.not_mem_nil, or_false] at hr
  subst hr
  refine ⟨⟨?_, ?_⟩, ?_, ?_, by unfold C15.PosDur; decide, ?_, ⟨0, ?_⟩⟩
  · simp [NonNegWaits]
  · simp
  · simp
  · intro k; simp [altFrom]
  · simp
  · simp

/-- what loading the saved witness gives at tick 0 -/
def cexLoaded : Option (Int × Int × Int) :=
  match saveLoad 24 cexRels with
  | .ok out =>
    match out[0]? with
    | some s =>
      match s.readAbs with
      | .ok (_, a) => (latest .timeSignature (eventsAbs a) 0).map sigFields
      | .error _ => Option.none
    | Option.none => Option.none
  | .error _ => Option.none

theorem cexLoaded_eq : cexLoaded = some (3, 4, pyNone) := by decide +kernel

theorem save_load_signatures_statement_false : ¬ save_load_signatures_statement := by
  intro hst
  have hl := cexLoaded_eq
  unfold cexLoaded at hl
  cases hsl : saveLoad 24 cexRels with
  | error e => rw [hsl] at hl; simp at hl
  | ok out =>
    rw [hsl] at hl
    simp only at hl
    cases ho : out[0]? with
    | none => rw [ho] at hl; simp at hl
    | some s =>
      rw [ho] at hl
      simp only at hl
      cases hra : s.readAbs with
      | error e => rw [hra] at hl; simp at hl
      | ok p =>
        obtain ⟨s', a⟩ := p
        rw [hra] at hl
        simp only at hl
        have := hst 24 (by decide) cexRels cexRels_saved .timeSignature (Or.inl rfl) (by decide) out hsl s s' a ho hra
          0 (Int.le_refl _)
        rw [hl] at this
        revert this
        decide

/-- **C12, signatures in force**, with the missing hypothesis made explicit: every saved time signature
    carries no key and a numerator / denominator that are not both `None`; every saved key signature carries
    no numerator / denominator and a key that is not `None` (what the library's own constructors produce) -/
theorem save_load_signatures_partial (ppqn : Int) (hp : 0 < ppqn) (rels : List (List Msg)) (hs : ∀ r ∈ rels, Saved r)
    (hfields : ∀ r ∈ rels, ∀ m ∈ r,
      (m.ty = .timeSignature → m.key = pyNone ∧ (m.num, m.den) ≠ (pyNone, pyNone))
      ∧ (m.ty = .keySignature → m.num = pyNone ∧ m.den = pyNone ∧ m.key ≠ pyNone))
    (ty : MType) (hty : ty = .timeSignature ∨ ty = .keySignature)
    (hdist : (((rels.flatMap eventsRel).filter (fun m => m.ty == ty)).map (fun m => m.time)).Nodup)
    (out : List Seq) (h : saveLoad ppqn rels = .ok out)
    (s s' : Seq) (a : List Msg) (ho : out[0]? = some s) (ha : s.readAbs = Except.ok (s', a))
    (t : Int) (ht : 0 ≤ t) :
    (latest ty (eventsAbs a) t).map sigFields
      = (latest ty (dfltSig ty ++ rels.flatMap eventsRel) t).map sigFields := by
  unfold saveLoad at h
  have hd : dfltSig ty = E2E.dfltL ty := by cases ty <;> rfl
  rw [hd]
  exact E2E.inforce_core ppqn hp rels (fun r hr => saved_savedC r (hs r hr)) hfields ty hty hdist out h s s' a ho ha t ht

/-! non-vacuity: a saved pair of sequences with a 3/4 at tick 0 on the second one -/
def exRels : List (List Msg) :=
  [[Msg.mkOn 0 60 64 pyNone, Msg.mkWait 0 24, Msg.mkOff 0 60 pyNone],
   [Msg.mkTimeSig 0 3 4 pyNone, Msg.mkWait 0 12, Msg.mkOn 0 62 100 pyNone, Msg.mkWait 0 12, Msg.mkOff 0 62 pyNone]]
example : ∀ r ∈ exRels, Saved r := by
  intro r hr
  simp only [exRels, List.mem_cons, List.not_mem_nil, or_false] at hr
  rcases hr with rfl | rfl
  · refine ⟨⟨?_, ?_⟩, ?_, ?_, by unfold C15.PosDur; decide, ?_, ⟨0, ?_⟩⟩
    · simp [NonNegWaits, Msg.mkOn, Msg.mkOff, Msg.mkWait]
    · simp [Msg.mkOn, Msg.mkOff, Msg.mkWait]
    · simp [Msg.mkOn, Msg.mkOff, Msg.mkWait]
    · intro k
      simp only [altFrom, Msg.mkOn, Msg.mkOff, Msg.mkWait, Msg.nkey]
      by_cases hk : ((0 : Int), (60 : Int)) = k <;> simp [hk]
    · simp [Msg.mkOn, Msg.mkOff, Msg.mkWait, pyNone]
    · simp [Msg.mkOn, Msg.mkOff, Msg.mkWait]
  · refine ⟨⟨?_, ?_⟩, ?_, ?_, by unfold C15.PosDur; decide, ?_, ⟨0, ?_⟩⟩
    · simp [NonNegWaits, Msg.mkOn, Msg.mkOff, Msg.mkWait, Msg.mkTimeSig]
    · simp [Msg.mkOn, Msg.mkOff, Msg.mkWait, Msg.mkTimeSig]
    · simp [Msg.mkOn, Msg.mkOff, Msg.mkWait, Msg.mkTimeSig]
    · intro k
      simp only [altFrom, Msg.mkOn, Msg.mkOff, Msg.mkWait, Msg.mkTimeSig, Msg.nkey]
      by_cases hk : ((0 : Int), (62 : Int)) = k <;> simp [hk]
    · simp [Msg.mkOn, Msg.mkOff, Msg.mkWait, Msg.mkTimeSig, pyNone]
    · simp [Msg.mkOn, Msg.mkOff, Msg.mkWait, Msg.mkTimeSig]

end SCoda.C13
