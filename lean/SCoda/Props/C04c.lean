/-
  C04, third part (audit item A3) — the history theorem over the PUBLIC operations of the concrete
  wrapper model `SCoda.Seq` (`Model/Wrapper.lean`), i.e. over exactly the functions that
  `Driver.lean: seqOp` runs against the real `scoda.sequences.sequence.Sequence`.

  * `PubOp` mirrors every case of `Driver.seqOp`; `exec` calls the existing `Seq.*` functions.
    (`editAbsPeek`/`editRelPeek` of the driver run the same model function as `editAbs`/`editRel`;
    the driver's `flags` only prints the two private flags and is no operation.)
  * `Legal` states the argument restrictions of a legal call ONCE; it does not depend on the state.
  * `Inv` is the invariant on the concrete state (`Lemmas/WrapperL.lean`).
  * `exec_total`: from an `Inv` state a legal operation never raises and re-establishes `Inv`;
    `exec_error_only`: with or without legal arguments, the only way to make an operation raise from
    a readable state is an EMPTY step list (or handing `equals` an unreadable sequence).
  * `history_inv`, `readable`, `views_agree_after`: induction over `List PubOp`.
  * `effect_visible`: what each mutator does to the content, seen through both views.
-/
import SCoda.Lemmas.WrapperL
import SCoda.Props.C08
import SCoda.Gen.Settings
namespace SCoda.C04c
open SCoda SCoda.WrapperL

/-! ## the alphabet -/

/-- one public operation of `Sequence`, with its arguments (one constructor per case of
    `Driver.seqOp`).  Other sequences passed as arguments are given by the view the Python method
    reads from them (`concatenate`: `.rel`, `merge`: `.abs`), `equals` by the whole sequence. -/
inductive PubOp
  | readAbs | readRel | refresh | copy
  | addAbs (m : Msg)
  | addRel (m : Msg) (idx : Option Nat)
  | normalise
  | pad (n : Int)
  | setChannel (c : Int)
  | cutoff (maxLen redLen : Int)
  | quantise (steps : Option (List Int))
  | qnl (values : Option (List Int)) (dne : Bool)
  | quantiseAndNormalise
  | concat (others : List (List Msg))
  | merge (others : List (List Msg))
  | overwriteAbs (ms : List Msg)
  | overwriteRel (ms : List Msg)
  | editAbs (f : Msg → Msg)
  | editRel (f : Msg → Msg)
  | editAbsFirst (f : Msg → Msg)
  | editRelFirst (f : Msg → Msg)
  | transpose (by_ : Int)
  | scale (k : Int) (quantiseAfterwards : Bool)
  | split (caps : List Int)
  | pairings
  | equals (fl : EqFlags) (other : Seq)

/-- the state of the sequence after the operation (outputs such as the list read, the pieces of
    `split`, the `shifted` flag or the verdict of `equals` are dropped here; see `split_pieces_inv`,
    `equals_other_inv`).  `copy` continues with the copy, as the driver does. -/
def exec (e : Env) (s : Seq) : PubOp → Except Err Seq
  | .readAbs => s.readAbs.map (·.1)
  | .readRel => s.readRel.map (·.1)
  | .refresh => s.refresh
  | .copy => .ok s.copy
  | .addAbs m => s.addAbsMsg m
  | .addRel m idx => s.addRelMsg m idx
  | .normalise => s.normaliseSeq
  | .pad n => s.padSeq n
  | .setChannel c => s.setChannelSeq c
  | .cutoff m r => s.cutoffSeq m r
  | .quantise st => Seq.quantiseSeq e s st
  | .qnl v dne => Seq.qnlSeq e s v e.ppqn dne
  | .quantiseAndNormalise => Seq.quantiseAndNormalise e s
  | .concat o => s.concatSeq o
  | .merge o => s.mergeSeq o
  | .overwriteAbs ms => .ok (s.overwriteAbs ms)
  | .overwriteRel ms => .ok (s.overwriteRel ms)
  | .editAbs f => s.editAbs f
  | .editRel f => s.editRel f
  | .editAbsFirst f => s.onAbs (fun l => .ok (match l with | [] => [] | m :: ms => f m :: ms))
  | .editRelFirst f => s.onRel (fun l => .ok (match l with | [] => [] | m :: ms => f m :: ms))
  | .transpose b => (Seq.transposeSeq e s b).map (·.1)
  | .scale k q => Seq.scaleSeq e s k q
  | .split caps => (s.splitSeq caps).map (·.1)
  | .pairings => s.readAbs.map (fun p => { p.1 with abs := sortAbs p.2 })
  | .equals fl t => (Seq.equalsSeq e fl s t).map (·.1)

/-- run a history; stops at the first operation that raises -/
def run (e : Env) (s : Seq) : List PubOp → Except Err Seq
  | [] => .ok s
  | op :: ops => match exec e s op with
    | .ok s' => run e s' ops
    | .error err => .error err

/-! ## legal calls -/

/-- the library defaults the operations close over: `get_default_step_sizes()` is a non-empty list
    of positive step sizes, `get_default_note_values()` has no negative entry -/
def EnvOk (e : Env) : Prop := C05.StepsOk e.defSteps ∧ ∀ v ∈ e.defValues, 0 ≤ v

/-- a legal edit through `messages_abs()`: it does not turn a message into a `WAIT`, keeps ticks
    non-negative, and moves ticks monotonically (in particular: leaves `time` alone) -/
def AbsEdit (f : Msg → Msg) : Prop :=
  (∀ m, m.ty ≠ .wait → (f m).ty ≠ .wait) ∧ (∀ m, 0 ≤ m.time → 0 ≤ (f m).time) ∧
  (∀ m m', m.time ≤ m'.time → (f m).time ≤ (f m').time)

/-- a legal edit of only the first message yielded by `messages_abs()`: no `WAIT`, and the tick
    stays where it is or moves towards 0 -/
def AbsEditFirst (f : Msg → Msg) : Prop :=
  (∀ m, m.ty ≠ .wait → (f m).ty ≠ .wait) ∧ (∀ m, 0 ≤ m.time → 0 ≤ (f m).time ∧ (f m).time ≤ m.time)

/-- a legal edit through `messages_rel()`: a message that is not `INTERNAL` and (if a `WAIT`) has a
    non-negative time stays such a message -/
def RelEdit (f : Msg → Msg) : Prop :=
  ∀ m, m.ty ≠ .internal → (m.ty = .wait → 0 ≤ m.time) →
    (f m).ty ≠ .internal ∧ ((f m).ty = .wait → 0 ≤ (f m).time)

/-- **the argument restrictions of a legal call, stated once.**  Independent of the state the call
    is made in.  What the real code does at each excluded point is recorded in the comments below
    (replayed with /venv/bin/python on /repo).

    * `addAbs m`: not a `WAIT`, tick ≥ 0.  (Real code, `WAIT`: accepted silently; the regenerated
      relative view then holds a `WAIT` whose time is `None`, and the next conversion back raises
      `TypeError` — e.g. `add_absolute_message(WAIT); pad(0); .abs` ends with flags (stale, fresh) and
      an unreadable absolute view.  Tick −3: accepted silently, the relative view places the event
      at tick 0, the views disagree.  No exception in `add_absolute_message` itself.)
    * `addRel m idx`: not `INTERNAL`; a `WAIT` has time ≥ 0.  (`INTERNAL`: appended silently, becomes
      a message of the absolute view which the absolute view does not count as an event — views
      disagree.  Wait −30: absolute ticks become negative.)  Any index is accepted (`list.insert`).
    * `cutoff _ r`: `0 ≤ r`.  (A negative reduced length can move a note-off before tick 0.)
    * `quantise (some st)`: `st` non-empty, all positive.  (`[]`: `IndexError` at the first message
      that is not an orphan note-off, before anything is written; a `0` entry: `ZeroDivisionError`
      before anything is written; negative entries: Python floor division, not modelled.)
    * `qnl (some v) _`: no negative note value (a negative value puts a note-off before its note-on).
    * `concat`/`merge`: the other sequences satisfy the view invariant themselves.
    * `overwriteAbs ms`: as for `addAbs`, every message.  `overwriteRel ms`: `OkRel ms`.
    * edits: `AbsEdit` / `AbsEditFirst` / `RelEdit`.
    * `scale k _`: `1 ≤ k` — the domain of the model (`Model/Normalise.lean: scaleRel`); the proofs
      only use `0 ≤ k`.  (`k = 0`: `ZeroDivisionError` before anything is written; fractions `1/n` take
      a different code path through `sequences_split_bars`, not modelled.)
    * `equals _ t`: `t` satisfies the invariant (it is read, and re-sorted in place, too).
    * everything else (`pad n`, `setChannel c`, `split caps`, `transpose by`, reads, `copy`,
      `refresh`, `normalise`, `pairings`, defaults of `quantise`/`qnl`): no restriction. -/
def Legal : PubOp → Prop
  | .addAbs m => m.ty ≠ .wait ∧ 0 ≤ m.time
  | .addRel m _ => m.ty ≠ .internal ∧ (m.ty = .wait → 0 ≤ m.time)
  | .cutoff _ r => 0 ≤ r
  | .quantise (some st) => C05.StepsOk st
  | .qnl (some v) _ => ∀ x ∈ v, 0 ≤ x
  | .concat o => ∀ x ∈ o, OkRel x
  | .merge o => ∀ x ∈ o, OkAbs x
  | .overwriteAbs ms => ∀ m ∈ ms, m.ty ≠ .wait ∧ 0 ≤ m.time
  | .overwriteRel ms => OkRel ms
  | .editAbs f => AbsEdit f
  | .editRel f => RelEdit f
  | .editAbsFirst f => AbsEditFirst f
  | .editRelFirst f => RelEdit f
  | .scale k _ => 1 ≤ k
  | .equals _ t => WrapperL.Inv t
  | _ => True

/-! ## the invariant -/

/-- the wrapper invariant on the concrete state (definition in `Lemmas/WrapperL.lean`) -/
abbrev Inv (s : Seq) : Prop := WrapperL.Inv s

/-- `Inv` spelled out: not both views stale; a fresh absolute view is `OkAbs`, a fresh relative view
    is `OkRel`; when both are fresh they have the same timed events up to the order of simultaneous
    events, and the same duration. -/
theorem inv_iff (s : Seq) : Inv s ↔
    (¬ (s.absStale = true ∧ s.relStale = true)) ∧ (s.absStale = false → OkAbs s.abs) ∧
    (s.relStale = false → OkRel s.rel) ∧
    (s.absStale = false → s.relStale = false → (eventsAbs s.abs).Perm (eventsRel s.rel)) ∧
    (s.absStale = false → s.relStale = false → durAbs s.abs = durRel s.rel) :=
  ⟨fun ⟨a, b, c, d, e⟩ => ⟨a, b, c, d, e⟩, fun ⟨a, b, c, d, e⟩ => ⟨a, b, c, d, e⟩⟩

/-- (A3) the three ways of constructing a `Sequence` start in the invariant -/
theorem inv_new : Inv Seq.new :=
  ⟨by simp [Seq.new], fun _ => by simp [Seq.new, OkAbs, TimeSorted, NonNegTimes], by simp [Seq.new],
   by simp [Seq.new], by simp [Seq.new]⟩

theorem inv_ofAbs (a : List Msg) (h : OkAbs a) : Inv (Seq.ofAbs a) :=
  ⟨by simp [Seq.ofAbs], fun _ => h, by simp [Seq.ofAbs], by simp [Seq.ofAbs], by simp [Seq.ofAbs]⟩

theorem inv_ofRel (r : List Msg) (h : OkRel r) : Inv (Seq.ofRel r) :=
  ⟨by simp [Seq.ofRel], by simp [Seq.ofRel], fun _ => h, by simp [Seq.ofRel], by simp [Seq.ofRel]⟩

/-! ## reads -/

/-- (A3) **no state satisfying the invariant is unreadable**: both reads succeed, and they return
    `absView s` / `relView s` (the stored view if fresh, the conversion of the other one if not). -/
theorem readable (s : Seq) (h : Inv s) :
    (∃ s1, s.readAbs = .ok (s1, absView s) ∧ Inv s1) ∧ (∃ s2, s.readRel = .ok (s2, relView s) ∧ Inv s2) :=
  ⟨⟨_, readAbs_eq s h.notBoth, inv_afterReadAbs h⟩, ⟨_, readRel_eq s h.notBoth, inv_afterReadRel h⟩⟩

/-- (A3) in a state satisfying the invariant the two reads return legal views that describe the
    same timed events (up to the order of simultaneous events) and the same duration.  The
    right-hand sides are the independent `Roll` semantics. -/
theorem views_agree (s : Seq) (h : Inv s) :
    ∃ s1 s2 a r, s.readAbs = .ok (s1, a) ∧ s.readRel = .ok (s2, r) ∧ OkAbs a ∧ OkRel r ∧
      (eventsAbs a).Perm (eventsRel r) ∧ durAbs a = durRel r :=
  ⟨_, _, _, _, readAbs_eq s h.notBoth, readRel_eq s h.notBoth, absView_ok h, relView_ok h,
    views_events h, views_dur h⟩

/-- (A3) `read_content` for BOTH reads, in any order: a read changes neither what `.abs` nor what
    `.rel` returns afterwards (audit B/C04: "`read_content` covers `readAbs` only"). -/
theorem read_keeps_views (s : Seq) (h : Inv s) :
    (∀ s1 a, s.readAbs = .ok (s1, a) → (eventsAbs (absView s1)).Perm (eventsAbs (absView s)) ∧
        (eventsRel (relView s1)).Perm (eventsRel (relView s)) ∧
        durAbs (absView s1) = durAbs (absView s) ∧ durRel (relView s1) = durRel (relView s)) ∧
    (∀ s2 r, s.readRel = .ok (s2, r) → (eventsAbs (absView s2)).Perm (eventsAbs (absView s)) ∧
        (eventsRel (relView s2)).Perm (eventsRel (relView s)) ∧
        durAbs (absView s2) = durAbs (absView s) ∧ durRel (relView s2) = durRel (relView s)) := by
  have he := views_events h
  have hd := views_dur h
  constructor
  · intro s1 a hr
    rw [readAbs_eq s h.notBoth] at hr
    injection hr with hr; injection hr with hs1 _; subst hs1
    have h1 := inv_afterReadAbs h
    have he1 := views_events h1
    have hd1 := views_dur h1
    have ha : absView { s with abs := absView s, absStale := false } = absView s := by simp [absView]
    rw [ha] at he1 hd1
    exact ⟨by rw [ha], he1.symm.trans he, by rw [ha], by rw [← hd1, hd]⟩
  · intro s2 r hr
    rw [readRel_eq s h.notBoth] at hr
    injection hr with hr; injection hr with hs2 _; subst hs2
    have h2 := inv_afterReadRel h
    have he2 := views_events h2
    have hd2 := views_dur h2
    have hrv : relView { s with rel := relView s, relStale := false } = relView s := by simp [relView]
    rw [hrv] at he2 hd2
    exact ⟨he2.trans he.symm, by rw [hrv], by rw [hd2, hd], by rw [hrv]⟩

/-! ## one operation -/

/-- (A3) **from a state satisfying the invariant every legal operation succeeds and re-establishes
    the invariant.**  Hypotheses: `EnvOk e` (the library defaults used by `quantise`, `qnl`,
    `quantise_and_normalise`, `transpose`, `scale` are legal arguments themselves), `Inv s`,
    `Legal op`.  In particular no legal operation can leave a half-mutated object behind by raising
    midway (the audit's worry about `quantise` writing `msg.time` before it can raise). -/
theorem exec_total (e : Env) (he : EnvOk e) (s : Seq) (h : Inv s) (op : PubOp) (hl : Legal op) :
    ∃ s', exec e s op = .ok s' ∧ Inv s' := by
  cases op with
  | readAbs => exact ⟨_, by simp [exec, readAbs_eq s h.notBoth, Except.map], inv_afterReadAbs h⟩
  | readRel => exact ⟨_, by simp [exec, readRel_eq s h.notBoth, Except.map], inv_afterReadRel h⟩
  | refresh =>
    have h1 := inv_afterReadAbs h
    refine ⟨_, ?_, inv_afterReadRel h1⟩
    have hnb : (s.absStale && s.relStale) = false := by
      have := h.notBoth
      cases ha : s.absStale <;> cases hr : s.relStale <;> simp_all
    simp only [exec, Seq.refresh, hnb, readAbs_eq s h.notBoth, readRel_eq _ h1.notBoth, bind, Except.bind,
      Bool.false_eq_true, if_false]
  | copy => exact ⟨_, rfl, copy_inv s h⟩
  | addAbs m =>
    obtain ⟨s', a, b, _⟩ := onAbs_inv' h (fun a => insort a m) (fun a ha => C04.insort_okA a m ha ⟨hl.2, hl.1⟩)
    exact ⟨s', a, b⟩
  | addRel m idx =>
    have hl' : m.ty ≠ .internal ∧ (m.ty = .wait → 0 ≤ m.time) := hl
    clear hl
    obtain ⟨s', a, b, _⟩ := onRel_inv' h
      (fun r => match idx with | some i => Seq.insertAt m i r | Option.none => r ++ [m])
      (fun r hr => by
        cases idx with
        | none => exact (C04.insertAt_okR m 0 r hr hl').2
        | some i => exact (C04.insertAt_okR m i r hr hl').1)
    exact ⟨s', a, b⟩
  | normalise => exact normaliseSeq_inv h
  | pad n =>
    obtain ⟨s', a, b, _⟩ := onRel_inv' h (pad n) (C04.pad_okR n)
    exact ⟨s', a, b⟩
  | setChannel c =>
    obtain ⟨s', a, b, _⟩ := onRel_inv' h (setChannel c) (C04.setChannel_okR c)
    exact ⟨s', a, b⟩
  | cutoff m r =>
    obtain ⟨s', a, b, _⟩ := onAbs_inv' h (cutoff m r) (C04.cutoff_okA m r hl)
    exact ⟨s', a, b⟩
  | quantise st =>
    apply quantiseSeq_inv e st _ h
    cases st with
    | none => exact he.1
    | some st => exact hl
  | qnl v dne =>
    apply qnlSeq_inv e v _ e.ppqn dne h
    cases v with
    | none => exact he.2
    | some v => exact hl
  | quantiseAndNormalise => exact quantiseAndNormalise_inv e he h
  | concat o =>
    obtain ⟨s', a, b, _⟩ := onRel_inv' h (fun r => concatenate r o)
      (fun r hr => C04.concatenate_okR r o hr hl)
    exact ⟨s', a, b⟩
  | merge o =>
    obtain ⟨s1, a, b, _⟩ := onAbs_inv' h (fun a => mergeAbs a o) (fun a ha => C04.mergeAbs_okA a o ha hl)
    obtain ⟨s2, c, d⟩ := normaliseSeq_inv b
    exact ⟨s2, by simp only [exec, Seq.mergeSeq, a, c, bind, Except.bind], d⟩
  | overwriteAbs ms =>
    exact ⟨_, rfl, inv_setAbs s _ (C04.overwrite_okA ms (fun m hm => ⟨(hl m hm).2, (hl m hm).1⟩))⟩
  | overwriteRel ms => exact ⟨_, rfl, inv_setRel s ms hl⟩
  | editAbs f =>
    obtain ⟨s', a, b, _⟩ := onAbs_inv' h (fun a => a.map f) (map_okA f hl.1 hl.2.1 hl.2.2)
    exact ⟨s', a, b⟩
  | editRel f =>
    obtain ⟨s', a, b, _⟩ := onRel_inv' h (fun r => r.map f) (map_okR f (fun m hm => hl m hm.1 hm.2))
    exact ⟨s', a, b⟩
  | editAbsFirst f =>
    obtain ⟨s', a, b, _⟩ := onAbs_inv' h (editFirst f) (editFirst_okA f hl.1 hl.2)
    refine ⟨s', ?_, b⟩
    rw [← a]
    simp only [exec]
    congr 1
  | editRelFirst f =>
    obtain ⟨s', a, b, _⟩ := onRel_inv' h (editFirst f) (editFirst_okR f (fun m hm => hl m hm.1 hm.2))
    refine ⟨s', ?_, b⟩
    rw [← a]
    simp only [exec]
    congr 1
  | transpose b =>
    obtain ⟨s', f, a, i⟩ := transposeSeq_inv e he b h
    exact ⟨s', by simp [exec, a, Except.map], i⟩
  | scale k q =>
    obtain ⟨s1, a, b, _⟩ := onRel_inv' h (scaleRel k) (C04.scaleRel_okR k (by have : 1 ≤ k := hl; omega))
    cases q with
    | false => exact ⟨s1, by simp only [exec, Seq.scaleSeq, a, bind, Except.bind]; rfl, b⟩
    | true =>
      obtain ⟨s2, c, d⟩ := quantiseAndNormalise_inv e he b
      exact ⟨s2, by simp only [exec, Seq.scaleSeq, a, c, bind, Except.bind]; rfl, d⟩
  | split caps =>
    obtain ⟨ps, hp⟩ := C08.split_total (relView s) caps
    exact ⟨_, by simp [exec, splitSeq_eq s h.notBoth, hp, Except.map], inv_afterReadRel h⟩
  | pairings =>
    have h1 := inv_afterReadAbs h
    exact ⟨_, by simp [exec, readAbs_eq s h.notBoth, Except.map], inv_resort h1 rfl⟩
  | equals fl t =>
    have hl : WrapperL.Inv t := hl
    have h1 := inv_afterReadAbs h
    refine ⟨_, ?_, inv_resort h1 rfl⟩
    simp [exec, Seq.equalsSeq, readAbs_eq s h.notBoth, readAbs_eq t hl.notBoth, bind, Except.bind, Except.map]

/-- (A3) the audit's form of the single-step statement: a legal operation from an invariant state
    either succeeds into an invariant state or raises.  (`exec_total` shows the second alternative
    never happens; on an error the driver — like a Python caller that catches the exception —
    continues with the unchanged state `s`, which satisfies `Inv` by hypothesis.) -/
theorem exec_inv (e : Env) (he : EnvOk e) (s : Seq) (h : Inv s) (op : PubOp) (hl : Legal op) :
    (∃ s', exec e s op = .ok s' ∧ Inv s') ∨ (∃ err, exec e s op = .error err ∧ Inv s) :=
  Or.inl (exec_total e he s h op hl)


/-! ## which operations can raise at all -/

/-- the step list an operation hands to `AbsoluteSequence.quantise`, if it calls it -/
def stepsUsed (e : Env) : PubOp → Option (List Int)
  | .quantise st => some (st.getD e.defSteps)
  | .quantiseAndNormalise => some e.defSteps
  | .scale _ true => some e.defSteps
  | _ => Option.none

/-- (A3) **with ANY arguments, legal or not**: from a state with at least one fresh view an
    operation succeeds (and leaves at least one view fresh) unless it hands an EMPTY step list to
    `quantise`, or is `equals` with a sequence whose views are both stale.  No `Inv`, no `Legal`. -/
theorem exec_ok_of_readable (e : Env) (s : Seq) (h : Readable s) (op : PubOp)
    (hst : stepsUsed e op ≠ some []) (heq : ∀ fl t, op = .equals fl t → Readable t) :
    ∃ s', exec e s op = .ok s' ∧ Readable s' := by
  have totA : ∀ (g : List Msg → List Msg), ∃ s', s.onAbs (fun a => .ok (g a)) = .ok s' ∧ Readable s' :=
    fun g => onAbs_readable h _ (fun a => ⟨g a, rfl⟩)
  have totR : ∀ (g : List Msg → List Msg), ∃ s', s.onRel (fun a => .ok (g a)) = .ok s' ∧ Readable s' :=
    fun g => onRel_readable h _ (fun a => ⟨g a, rfl⟩)
  cases op with
  | readAbs =>
    exact ⟨{ s with abs := absView s, absStale := false }, by simp [exec, readAbs_eq s h, Except.map],
      by simp [Readable]⟩
  | readRel =>
    exact ⟨{ s with rel := relView s, relStale := false }, by simp [exec, readRel_eq s h, Except.map],
      by simp [Readable]⟩
  | refresh =>
    have hnb : (s.absStale && s.relStale) = false := by
      cases ha : s.absStale <;> cases hr : s.relStale <;> simp_all [Readable]
    have h1 : Readable { s with abs := absView s, absStale := false } := by simp [Readable]
    refine ⟨{ s with abs := absView s, absStale := false,
                     rel := relView { s with abs := absView s, absStale := false }, relStale := false }, ?_,
      by simp [Readable]⟩
    simp only [exec, Seq.refresh, hnb, readAbs_eq s h, readRel_eq _ h1, bind, Except.bind,
      Bool.false_eq_true, if_false]
  | copy =>
    refine ⟨_, rfl, ?_⟩
    obtain ⟨a, r, fa, fr⟩ := s
    cases fa <;> cases fr <;> simp_all [Readable, Seq.copy, Seq.ofAbs, Seq.ofRel]
  | addAbs m => exact totA (fun a => insort a m)
  | addRel m idx =>
    clear hst heq
    exact totR (fun r => match idx with | some i => Seq.insertAt m i r | Option.none => r ++ [m])
  | normalise => exact totR normalise
  | pad n => exact totR (pad n)
  | setChannel c => exact totR (setChannel c)
  | cutoff m r => exact totA (cutoff m r)
  | quantise st =>
    exact onAbs_readable h _ (quantiseS_total_any (fun hn => hst (by simp [stepsUsed, hn])))
  | qnl v dne => exact onAbs_readable h _ (C06.total _ _ _)
  | quantiseAndNormalise => exact qan_readable e (fun hn => hst (by simp [stepsUsed, hn])) h
  | concat o => exact totR (fun r => concatenate r o)
  | merge o =>
    obtain ⟨s1, a, b⟩ := totA (fun a => mergeAbs a o)
    obtain ⟨s2, c, d⟩ := onRel_readable b (fun r => .ok (normalise r)) (fun r => ⟨_, rfl⟩)
    exact ⟨s2, by simp only [exec, Seq.mergeSeq, Seq.normaliseSeq, a, c, bind, Except.bind], d⟩
  | overwriteAbs ms => exact ⟨_, rfl, by simp [Readable, Seq.overwriteAbs]⟩
  | overwriteRel ms => exact ⟨_, rfl, by simp [Readable, Seq.overwriteRel]⟩
  | editAbs f => exact totA (fun a => a.map f)
  | editRel f => exact totR (fun r => r.map f)
  | editAbsFirst f => exact totA (fun l => match l with | [] => [] | m :: ms => f m :: ms)
  | editRelFirst f => exact totR (fun l => match l with | [] => [] | m :: ms => f m :: ms)
  | transpose b =>
    obtain ⟨s1, a, i1⟩ := totR (fun r => (transposeRel e.noteLo e.noteHi (fun k => e.tk k b) b r).1)
    simp only [exec, transposeSeq_eq e s h, a, Except.bind]
    split
    · obtain ⟨s2, c, i2⟩ := onRel_readable i1 (fun r => .ok (normalise r)) (fun r => ⟨_, rfl⟩)
      obtain ⟨s3, d, i3⟩ := onAbs_readable i2
        (quantiseNoteLengths ((Option.none : Option (List Int)).getD e.defValues) e.ppqn false) (C06.total _ _ _)
      exact ⟨s3, by simp only [Seq.normaliseSeq, Seq.qnlSeq, c, d, Except.map], i3⟩
    · exact ⟨s1, rfl, i1⟩
  | scale k q =>
    obtain ⟨s1, a, i1⟩ := totR (scaleRel k)
    cases q with
    | false => exact ⟨s1, by simp only [exec, Seq.scaleSeq, a, bind, Except.bind]; rfl, i1⟩
    | true =>
      obtain ⟨s2, c, d⟩ := qan_readable e (fun hn => hst (by simp [stepsUsed, hn])) i1
      exact ⟨s2, by simp only [exec, Seq.scaleSeq, a, c, bind, Except.bind]; rfl, d⟩
  | split caps =>
    obtain ⟨ps, hp⟩ := C08.split_total (relView s) caps
    exact ⟨{ s with rel := relView s, relStale := false },
      by simp [exec, splitSeq_eq s h, hp, Except.map], by simp [Readable]⟩
  | pairings =>
    exact ⟨{ s with abs := sortAbs (absView s), absStale := false },
      by simp [exec, readAbs_eq s h, Except.map], by simp [Readable]⟩
  | equals fl t =>
    have ht := heq fl t rfl
    exact ⟨{ s with abs := sortAbs (absView s), absStale := false },
      by simp [exec, Seq.equalsSeq, readAbs_eq s h, readAbs_eq t ht, bind, Except.bind, Except.map],
      by simp [Readable]⟩

/-- (A3) hence an operation of the MODEL that raises from a readable state was given an empty step
    list (its own argument or the library default) or, for `equals`, an unreadable other sequence.
    In the real code the empty step list raises `IndexError` at `valid_positions[...]` BEFORE the
    assignment to `msg.time` of that message (absolute_sequence.py:229/263), i.e. before the first
    write (replayed: messages and flags unchanged), so no operation raises after having partly
    mutated the object.  Outside the model's domain the real code has two more ways to raise, both
    before any write as well (replayed): a step size `0` (`ZeroDivisionError`; the model computes
    `t / 0 = 0` and has no such error), and `scale` with factor `0` (`ZeroDivisionError`) or a
    non-integer ratio (`SequenceException`); `Legal` excludes both. -/
theorem exec_error_only (e : Env) (s : Seq) (h : Readable s) (op : PubOp) (err : Err)
    (hx : exec e s op = .error err) :
    stepsUsed e op = some [] ∨ ∃ fl t, op = .equals fl t ∧ ¬ Readable t := by
  by_cases h1 : stepsUsed e op = some []
  · exact Or.inl h1
  · by_cases h2 : ∀ fl t, op = .equals fl t → Readable t
    · obtain ⟨s', hs', _⟩ := exec_ok_of_readable e s h op h1 h2
      rw [hs'] at hx; cases hx
    · refine Or.inr ?_
      apply Classical.byContradiction
      intro hc
      apply h2
      intro fl t ht
      apply Classical.byContradiction
      intro hr
      exact hc ⟨fl, t, ht, hr⟩

/-! ## histories -/

/-- (A3) **the history theorem over the public operations**: from a state satisfying the invariant,
    every finite history of legal public operations (reads of either view interleaved anywhere)
    runs to the end without raising and ends in a state satisfying the invariant. -/
theorem history_inv (e : Env) (he : EnvOk e) (ops : List PubOp) : ∀ (s : Seq), Inv s →
    (∀ op ∈ ops, Legal op) → ∃ s', run e s ops = .ok s' ∧ Inv s' := by
  induction ops with
  | nil => intro s h _; exact ⟨s, rfl, h⟩
  | cons op ops ih =>
    intro s h hl
    obtain ⟨s1, h1, i1⟩ := exec_total e he s h op (hl op List.mem_cons_self)
    obtain ⟨s2, h2, i2⟩ := ih s1 i1 (fun o ho => hl o (List.mem_cons_of_mem _ ho))
    exact ⟨s2, by simp only [run, h1]; exact h2, i2⟩

/-- (A3) **after any legal history both views can be read and describe the same timed events and the
    same duration** ("no legal history leaves the sequence unreadable", "the views never diverge"). -/
theorem views_agree_after (e : Env) (he : EnvOk e) (s : Seq) (h : Inv s) (ops : List PubOp)
    (hl : ∀ op ∈ ops, Legal op) :
    ∃ s' s1 s2 a r, run e s ops = .ok s' ∧ s'.readAbs = .ok (s1, a) ∧ s'.readRel = .ok (s2, r) ∧
      OkAbs a ∧ OkRel r ∧ (eventsAbs a).Perm (eventsRel r) ∧ durAbs a = durRel r := by
  obtain ⟨s', hr, hi⟩ := history_inv e he ops s h hl
  obtain ⟨s1, s2, a, r, h1, h2, h3⟩ := views_agree s' hi
  exact ⟨s', s1, s2, a, r, hr, h1, h2, h3⟩

/-- (A3) even with illegal arguments a history cannot make the sequence unreadable or raise, as long
    as no operation is handed an empty step list or an unreadable sequence: the stale-flag protocol
    alone, for the concrete model, over the concrete alphabet. -/
theorem history_readable (e : Env) (ops : List PubOp) : ∀ (s : Seq), Readable s →
    (∀ op ∈ ops, stepsUsed e op ≠ some [] ∧ ∀ fl t, op = .equals fl t → Readable t) →
    ∃ s', run e s ops = .ok s' ∧ Readable s' := by
  induction ops with
  | nil => intro s h _; exact ⟨s, rfl, h⟩
  | cons op ops ih =>
    intro s h hl
    obtain ⟨s1, h1, i1⟩ := exec_ok_of_readable e s h op (hl op List.mem_cons_self).1 (hl op List.mem_cons_self).2
    obtain ⟨s2, h2, i2⟩ := ih s1 i1 (fun o ho => hl o (List.mem_cons_of_mem _ ho))
    exact ⟨s2, by simp only [run, h1]; exact h2, i2⟩

/-! ## the effect of every operation is visible through both views -/

inductive Side | abs | rel
  deriving DecidableEq

/-- a view-local step: a (possibly raising) function applied to one view -/
structure Stage where
  side : Side
  f : List Msg → Except Err (List Msg)

def Stage.run (s : Seq) (st : Stage) : Except Err Seq :=
  match st.side with
  | .abs => s.onAbs st.f
  | .rel => s.onRel st.f

def runStages (s : Seq) : List Stage → Except Err Seq
  | [] => .ok s
  | st :: l => (st.run s).bind (fun s' => runStages s' l)

def viewOf (s : Seq) : Side → List Msg
  | .abs => absView s
  | .rel => relView s
def evOf : Side → List Msg → List Msg
  | .abs => eventsAbs
  | .rel => eventsRel
def durOf : Side → List Msg → Int
  | .abs => durAbs
  | .rel => durRel
def okOf : Side → List Msg → Prop
  | .abs => OkAbs
  | .rel => OkRel

/-- (A3) **effect visible through both views** — schema for every view-local step: if the step's
    function maps what its view currently reads as (`viewOf s side`) to a legal `out`, then the step
    succeeds, re-establishes the invariant, a read of the same view returns exactly `out`, and a read
    of EITHER view describes the timed events and the duration of `out`. -/
theorem effect_visible (s : Seq) (h : Inv s) (st : Stage) (out : List Msg)
    (hf : st.f (viewOf s st.side) = .ok out) (hok : okOf st.side out) :
    ∃ s', st.run s = .ok s' ∧ Inv s' ∧ viewOf s' st.side = out ∧
      (eventsAbs (absView s')).Perm (evOf st.side out) ∧ (eventsRel (relView s')).Perm (evOf st.side out) ∧
      durAbs (absView s') = durOf st.side out ∧ durRel (relView s') = durOf st.side out := by
  obtain ⟨side, f⟩ := st
  cases side with
  | abs =>
    have hi := inv_setAbs s out hok
    refine ⟨{ s with abs := out, absStale := false, relStale := true }, ?_, hi, rfl, ?_, ?_, ?_, ?_⟩
    · show s.onAbs f = _
      rw [onAbs_eq s h.notBoth]
      have hf' : f (absView s) = .ok out := hf
      rw [hf']; rfl
    · exact List.Perm.refl _
    · exact (views_events hi).symm
    · rfl
    · exact (views_dur hi).symm
  | rel =>
    have hi := inv_setRel s out hok
    refine ⟨{ s with rel := out, relStale := false, absStale := true }, ?_, hi, rfl, ?_, ?_, ?_, ?_⟩
    · show s.onRel f = _
      rw [onRel_eq s h.notBoth]
      have hf' : f (relView s) = .ok out := hf
      rw [hf']; rfl
    · exact views_events hi
    · exact List.Perm.refl _
    · exact views_dur hi
    · rfl

def absT (g : List Msg → List Msg) : Stage := ⟨.abs, fun a => .ok (g a)⟩
def relT (g : List Msg → List Msg) : Stage := ⟨.rel, fun r => .ok (g r)⟩
def quantStage (e : Env) (st : Option (List Int)) : Stage := ⟨.abs, quantiseS (st.getD e.defSteps)⟩
def qnlStage (e : Env) (v : Option (List Int)) (dne : Bool) : Stage :=
  ⟨.abs, quantiseNoteLengths (v.getD e.defValues) e.ppqn dne⟩

/-- every mutator as a sequence of view-local steps (for `transpose` the tail depends on whether a
    note of the current relative view has to be wrapped) -/
def stages (e : Env) (s : Seq) : PubOp → Option (List Stage)
  | .addAbs m => some [absT (fun a => insort a m)]
  | .addRel m idx => some [relT (fun r => match idx with | some i => Seq.insertAt m i r | Option.none => r ++ [m])]
  | .normalise => some [relT normalise]
  | .pad n => some [relT (pad n)]
  | .setChannel c => some [relT (setChannel c)]
  | .cutoff m r => some [absT (cutoff m r)]
  | .quantise st => some [quantStage e st]
  | .qnl v dne => some [qnlStage e v dne]
  | .quantiseAndNormalise => some [quantStage e Option.none, qnlStage e Option.none false, relT normalise]
  | .concat o => some [relT (fun r => concatenate r o)]
  | .merge o => some [absT (fun a => mergeAbs a o), relT normalise]
  | .editAbs f => some [absT (fun a => a.map f)]
  | .editRel f => some [relT (fun r => r.map f)]
  | .editAbsFirst f => some [absT (editFirst f)]
  | .editRelFirst f => some [relT (editFirst f)]
  | .transpose b =>
    some (relT (fun r => (transposeRel e.noteLo e.noteHi (fun k => e.tk k b) b r).1) ::
      (if (transposeRel e.noteLo e.noteHi (fun k => e.tk k b) b (relView s)).2
       then [relT normalise, qnlStage e Option.none false] else []))
  | .scale k q =>
    some (relT (scaleRel k) ::
      (if q then [quantStage e Option.none, qnlStage e Option.none false, relT normalise] else []))
  | _ => Option.none

/-- (A3) every mutator of the alphabet IS its sequence of view-local steps, so `effect_visible`
    applies to each of them step by step -/
theorem exec_stages (e : Env) (s : Seq) (h : Readable s) (op : PubOp) (l : List Stage)
    (hl : stages e s op = some l) : exec e s op = runStages s l := by
  cases op <;> simp only [stages, Option.some.injEq, reduceCtorEq] at hl <;> subst hl
  case addAbs m => simp [exec, runStages, Stage.run, absT, Seq.addAbsMsg, bind_ok]
  case addRel m idx => cases idx <;> simp [exec, runStages, Stage.run, relT, Seq.addRelMsg, bind_ok]
  case normalise => simp [exec, runStages, Stage.run, relT, Seq.normaliseSeq, bind_ok]
  case pad n => simp [exec, runStages, Stage.run, relT, Seq.padSeq, bind_ok]
  case setChannel c => simp [exec, runStages, Stage.run, relT, Seq.setChannelSeq, bind_ok]
  case cutoff m r => simp [exec, runStages, Stage.run, absT, Seq.cutoffSeq, bind_ok]
  case quantise st => simp [exec, runStages, Stage.run, quantStage, Seq.quantiseSeq, bind_ok]
  case qnl v dne => simp [exec, runStages, Stage.run, qnlStage, Seq.qnlSeq, bind_ok]
  case quantiseAndNormalise =>
    simp only [exec, runStages, Stage.run, quantStage, qnlStage, relT, Seq.quantiseAndNormalise,
      Seq.quantiseSeq, Seq.qnlSeq, Seq.normaliseSeq, bind, bind_ok]
  case concat o => simp [exec, runStages, Stage.run, relT, Seq.concatSeq, bind_ok]
  case merge o =>
    simp only [exec, runStages, Stage.run, absT, relT, Seq.mergeSeq, Seq.normaliseSeq, bind, bind_ok]
  case editAbs f => simp [exec, runStages, Stage.run, absT, Seq.editAbs, bind_ok]
  case editRel f => simp [exec, runStages, Stage.run, relT, Seq.editRel, bind_ok]
  case editAbsFirst f =>
    simp only [exec, runStages, Stage.run, absT, bind_ok]
    congr 1
  case editRelFirst f =>
    simp only [exec, runStages, Stage.run, relT, bind_ok]
    congr 1
  case transpose b =>
    simp only [exec, transposeSeq_eq e s h, runStages, Stage.run, relT]
    cases s.onRel (fun r => Except.ok (transposeRel e.noteLo e.noteHi (fun k => e.tk k b) b r).1) with
    | error err => rfl
    | ok s1 =>
      simp only [Except.bind]
      split
      · simp only [runStages, Stage.run, qnlStage, Seq.normaliseSeq, Seq.qnlSeq]
        cases s1.onRel (fun r => Except.ok (normalise r)) with
        | error err => rfl
        | ok s2 =>
          simp only [Except.bind]
          cases s2.onAbs (quantiseNoteLengths ((Option.none : Option (List Int)).getD e.defValues) e.ppqn false) <;> rfl
      · rfl
  case scale k q =>
    cases q with
    | false =>
      simp only [exec, runStages, Stage.run, relT, Seq.scaleSeq, bind, Bool.false_eq_true, if_false]
    | true =>
      simp only [exec, runStages, Stage.run, relT, quantStage, qnlStage, Seq.scaleSeq, Seq.quantiseAndNormalise,
        Seq.quantiseSeq, Seq.qnlSeq, Seq.normaliseSeq, bind, if_true, bind_ok]

/-- (A3) the two overwrites: afterwards a read of the written view returns the written messages
    (for the absolute view: inserted one by one, i.e. a time-sorted permutation), and both views
    describe their timed events and duration. -/
theorem overwrite_visible (s : Seq) (ms : List Msg) :
    ((∀ m ∈ ms, m.ty ≠ .wait ∧ 0 ≤ m.time) →
      let s' := s.overwriteAbs ms
      Inv s' ∧ (absView s').Perm ms ∧ (eventsAbs (absView s')).Perm (eventsAbs ms) ∧
        (eventsRel (relView s')).Perm (eventsAbs ms) ∧ durRel (relView s') = durAbs (absView s')) ∧
    (OkRel ms →
      let s' := s.overwriteRel ms
      Inv s' ∧ relView s' = ms ∧ (eventsAbs (absView s')).Perm (eventsRel ms) ∧
        durAbs (absView s') = durRel ms) := by
  constructor
  · intro hm
    have hok := C04.overwrite_okA ms (fun m hm' => ⟨(hm m hm').2, (hm m hm').1⟩)
    have hi := inv_setAbs s _ hok
    have hp : (ms.foldl insort []).Perm ms := by simpa using foldl_insort_perm ms []
    have he : (eventsAbs (ms.foldl insort [])).Perm (eventsAbs ms) := hp.filter _
    exact ⟨hi, hp, he, (views_events hi).symm.trans he, (views_dur hi).symm⟩
  · intro hm
    have hi := inv_setRel s ms hm
    exact ⟨hi, rfl, views_events hi, views_dur hi⟩

/-- (A3) `copy()` returns a sequence that satisfies the invariant and reads the same through both views -/
theorem copy_same (s : Seq) (h : Inv s) :
    Inv s.copy ∧ absView s.copy = absView s ∧ relView s.copy = relView s := by
  refine ⟨copy_inv s h, ?_⟩
  obtain ⟨a, r, fa, fr⟩ := s
  have := h.notBoth
  cases fa <;> cases fr <;> simp_all [Seq.copy, Seq.ofAbs, Seq.ofRel, absView, relView]

/-- (A3) for a mutator that is ONE view-local step (`add_*`, `normalise`, `pad`, `set_channel`,
    `cutoff`, `quantise`, `quantise_note_lengths`, `concatenate`, the four edit iterations): if its
    function maps the current reading of its view to a legal `out`, the operation succeeds and both
    views afterwards describe the timed events and duration of `out`. -/
theorem effect_visible_op (e : Env) (s : Seq) (h : Inv s) (op : PubOp) (st : Stage) (out : List Msg)
    (hst : stages e s op = some [st]) (hf : st.f (viewOf s st.side) = .ok out) (hok : okOf st.side out) :
    ∃ s', exec e s op = .ok s' ∧ Inv s' ∧ viewOf s' st.side = out ∧
      (eventsAbs (absView s')).Perm (evOf st.side out) ∧ (eventsRel (relView s')).Perm (evOf st.side out) ∧
      durAbs (absView s') = durOf st.side out ∧ durRel (relView s') = durOf st.side out := by
  obtain ⟨s', h1, h2⟩ := effect_visible s h st out hf hok
  refine ⟨s', ?_, h2⟩
  rw [exec_stages e s h.notBoth op _ hst]
  simp only [runStages, h1, Except.bind]

/-- (A3) `split`: the sequence itself is only read (its relative view is regenerated if stale),
    and every piece is a sequence satisfying the invariant. -/
theorem split_pieces_inv (s : Seq) (h : Inv s) (caps : List Int) :
    ∃ s' ps, s.splitSeq caps = .ok (s', ps) ∧ Inv s' ∧ relView s' = relView s ∧ ∀ p ∈ ps, Inv p := by
  obtain ⟨pieces, hp⟩ := C08.split_total (relView s) caps
  refine ⟨{ s with rel := relView s, relStale := false }, pieces.map Seq.ofRel, ?_, inv_afterReadRel h,
    by simp [relView], ?_⟩
  · rw [splitSeq_eq s h.notBoth, hp]; rfl
  · intro p hp'
    obtain ⟨r, hr, rfl⟩ := List.mem_map.1 hp'
    exact inv_ofRel r (C04.split_okR (relView s) caps pieces (relView_ok h) hp r hr)

/-- (A3) `equals` / `get_message_pairings` re-sort the absolute view in place WITHOUT staling the
    relative one (audit: "no `Op` does that and no lemma shows `Inv` is kept"): both sequences
    involved keep the invariant, and read as before up to the order of simultaneous events. -/
theorem equals_inv (e : Env) (fl : EqFlags) (s t : Seq) (hs : Inv s) (ht : Inv t) :
    ∃ s' t' b, Seq.equalsSeq e fl s t = .ok (s', t', b) ∧ Inv s' ∧ Inv t' ∧
      (absView s').Perm (absView s) ∧ (absView t').Perm (absView t) := by
  refine ⟨{ s with abs := sortAbs (absView s), absStale := false },
    { t with abs := sortAbs (absView t), absStale := false },
    equalsAbs e.ppqn fl (absView s) (absView t), ?_,
    inv_resort (inv_afterReadAbs hs) rfl, inv_resort (inv_afterReadAbs ht) rfl,
    sortAbs_perm _, sortAbs_perm _⟩
  simp only [Seq.equalsSeq, readAbs_eq s hs.notBoth, readAbs_eq t ht.notBoth, bind, Except.bind]

/-! ## non-vacuity -/

/-- the environment of `Driver.lean` (`Gen/Settings.lean` is regenerated from the library on every run) -/
def e0 : Env := { defSteps := Gen.defaultStepSizes, defValues := Gen.defaultNoteValues, tk := fun k _ => k }

/-- the library defaults are legal arguments (a tripwire on the regenerated settings) -/
theorem envOk_defaults : EnvOk e0 := by
  refine ⟨⟨by decide, by decide⟩, by decide⟩

/-- two notes, the second ending off the grid -/
def r0 : List Msg := [Msg.mkOn 0 60 64 pyNone, Msg.mkWait 0 10, Msg.mkOff 0 60 pyNone, Msg.mkWait 0 14,
  Msg.mkOn 0 62 64 pyNone, Msg.mkWait 0 25, Msg.mkOff 0 62 pyNone]

theorem r0_ok : OkRel r0 := by
  refine ⟨?_, by decide⟩
  intro m hm _
  simp [r0, Msg.mkOn, Msg.mkOff, Msg.mkWait] at hm
  rcases hm with rfl | rfl | rfl | rfl | rfl | rfl | rfl <;> simp at * <;> omega

/-- a history of nine operations from the "only relative fresh" state: a read, an absolute-side
    insertion, `quantise` with the default grid (raising-capable), a relative-side pad, an edit
    through `messages_rel()`, a `merge` (two stages), the in-place sort of `get_message_pairings`,
    a `transpose` that wraps pitches (three stages), and a `split` -/
def h0 : List PubOp := [.readAbs, .addAbs (Msg.mkOn 0 64 64 24), .quantise Option.none, .pad 96,
  .editRel (fun m => { m with ch := 1 }), .merge [[Msg.mkOn 2 70 64 0, Msg.mkOff 2 70 12]], .pairings,
  .transpose 50, .split [48]]

theorem h0_legal : ∀ op ∈ h0, Legal op := by
  intro op hop
  simp only [h0, List.mem_cons, List.not_mem_nil, or_false] at hop
  rcases hop with rfl | rfl | rfl | rfl | rfl | rfl | rfl | rfl | rfl
  · trivial
  · exact ⟨by simp [Msg.mkOn], by simp [Msg.mkOn]⟩
  · trivial
  · trivial
  · intro m h1 h2; exact ⟨h1, h2⟩
  · intro x hx
    simp only [List.mem_cons, List.not_mem_nil, or_false] at hx
    subst hx
    refine ⟨by simp [TimeSorted, Msg.mkOn, Msg.mkOff], by simp [NonNegTimes, Msg.mkOn, Msg.mkOff], by decide⟩
  · trivial
  · trivial
  · trivial

def sig (m : Msg) : Nat × Int × Int × Int := (m.ty.rank, m.ch, m.time, m.note)

/-- all hypotheses of `history_inv` / `views_agree_after` hold for `h0` from `Seq.ofRel r0` … -/
example : EnvOk e0 ∧ Inv (Seq.ofRel r0) ∧ ∀ op ∈ h0, Legal op := ⟨envOk_defaults, inv_ofRel r0 r0_ok, h0_legal⟩

/-- … and this is what comes out (type rank, channel, tick, pitch): both views fresh after the
    `split`, two transposed and octave-wrapped notes on channel 1, the merged note on channel 2,
    the unclosed inserted note-on removed by `merge`'s `normalise`, padded to 96 ticks.  The same
    history replayed on the real `Sequence` gives the same flags after every step and the same two
    final lists (see the work-package report). -/
example : (run e0 (Seq.ofRel r0) h0).toOption.map
      (fun s => (s.absStale, s.relStale, (absView s).map sig, (relView s).map sig)) =
    some (false, false,
      [(7, 1, 0, 98), (7, 2, 0, 108), (6, 1, 8, 98), (6, 2, 12, 108), (7, 1, 24, 100), (6, 1, 48, 100), (0, 1, 96, -1)],
      [(7, 1, -1, 98), (7, 2, -1, 108), (8, 1, 8, -1), (6, 1, -1, 98), (8, 2, 4, -1), (6, 2, -1, 108), (8, 1, 12, -1),
       (7, 1, -1, 100), (8, 1, 24, -1), (6, 1, -1, 100), (8, 1, 48, -1)]) := by
  rfl

/-- the three freshness states of the quantifier are all inhabited by invariant states reachable by
    legal histories: only relative fresh, both fresh, only absolute fresh -/
example : ((run e0 (Seq.ofRel r0) []).toOption.map (fun s => (s.absStale, s.relStale)) = some (true, false)) ∧
    ((run e0 (Seq.ofRel r0) [.refresh]).toOption.map (fun s => (s.absStale, s.relStale)) = some (false, false)) ∧
    ((run e0 (Seq.ofRel r0) [.cutoff 12 6]).toOption.map (fun s => (s.absStale, s.relStale)) = some (false, true)) := by
  decide +kernel

/-- `effect_visible_op` instantiated: after `pad 96` from the relative-only state, a read of `.rel`
    returns exactly `pad 96 r0`, and the absolute view has its events and its duration (96) -/
example : ∃ s', exec e0 (Seq.ofRel r0) (.pad 96) = .ok s' ∧ relView s' = pad 96 r0 ∧
    (eventsAbs (absView s')).Perm (eventsRel (pad 96 r0)) ∧ durAbs (absView s') = 96 := by
  obtain ⟨s', h1, _, h3, h4, _, h6, _⟩ := effect_visible_op e0 (Seq.ofRel r0) (inv_ofRel r0 r0_ok) (.pad 96)
    (relT (pad 96)) (pad 96 r0) rfl rfl (C04.pad_okR 96 r0 r0_ok)
  refine ⟨s', h1, h3, h4, ?_⟩
  rw [h6]
  decide +kernel

/-- an operation that raises: the only way is an empty step list (here as explicit argument) -/
example : exec e0 (Seq.ofRel r0) (.quantise (some [])) = .error .indexError := by rfl

end SCoda.C04c


