/-
  C02 — vocabulary is closed under tokenise; encode and decode are inverse bijections.
  `vocabSeq c` is the construction sequence of `_construct_dictionary` (entry i receives id i; a
  later duplicate key would overwrite an earlier id, exactly as in the Python dict), so
  `dictionarySize` (the separately incremented counter) equals the number of dict entries iff the
  sequence has no duplicates.
-/
import SCoda.Model.Token
import SCoda.Lemmas.Vocab
import SCoda.Lemmas.Tokenise
import SCoda.Lemmas.Detok
namespace SCoda.C02
open SCoda

/-- the configuration side conditions under which the vocabulary is a bijection: the step sizes,
    note values and velocity-bin values are duplicate free (D16: some `get_velocity_bins(n)` repeat
    127), and the two default-signature settings coincide (the dictionary uses the denominator, the
    emitted token the numerator) -/
structure CfgWF (c : Cfg) : Prop where
  steps_nodup : c.steps.Nodup
  values_nodup : c.values.Nodup
  bins_nodup : c.bins.Nodup
  def_eq : c.defNum = c.defDen

/-- no two entries of the construction sequence are equal: ids are one-to-one -/
theorem vocab_nodup (c : Cfg) (h : CfgWF c) : (vocabSeq c).Nodup := by
  exact Vocab.nodup_vocabSeq c h.steps_nodup h.values_nodup h.bins_nodup

/-- the reported size is the number of entries (of the dict: distinct keys) -/
theorem vocab_size (c : Cfg) (h : CfgWF c) : dictionarySize c = (vocabSeq c).eraseDups.length := by
  rw [Vocab.eraseDups_of_nodup (vocab_nodup c h)]; rfl

/-- ids are the consecutive positions 0..size-1 -/
theorem ids_consecutive (c : Cfg) (h : CfgWF c) (i : Nat) (hi : i < (vocabSeq c).length) :
    encodeTok c ((vocabSeq c)[i]) = some i := by
  have := Vocab.lastIdxGo_getElem (vocab_nodup c h) i hi 0 Option.none
  simpa [encodeTok] using this

theorem decode_encode (c : Cfg) (h : CfgWF c) (t : Tok) (ht : t ∈ vocabSeq c) :
    ∃ i, encodeTok c t = some i ∧ i < dictionarySize c ∧ decodeId c i = some t := by
  obtain ⟨i, hi, rfl⟩ := List.getElem_of_mem ht
  refine ⟨i, ids_consecutive c h i hi, hi, ?_⟩
  simp [decodeId, List.getElem?_eq_getElem hi, ids_consecutive c h i hi]

theorem encode_decode (c : Cfg) (h : CfgWF c) (i : Nat) (hi : i < dictionarySize c) :
    ∃ t, decodeId c i = some t ∧ t ∈ vocabSeq c ∧ encodeTok c t = some i := by
  have hi' : i < (vocabSeq c).length := hi
  refine ⟨(vocabSeq c)[i], ?_, List.getElem_mem _, ids_consecutive c h i hi'⟩
  simp [decodeId, List.getElem?_eq_getElem hi', ids_consecutive c h i hi']

/-- list versions: `decode (encode ts) = ts` for vocabulary streams -/
theorem decode_encode_list (c : Cfg) (h : CfgWF c) (ts : List Tok) (hts : ∀ t ∈ ts, t ∈ vocabSeq c) :
    ∃ ids, encode c ts = some ids ∧ decode c ids = some ts := by
  induction ts with
  | nil => exact ⟨[], by simp [encode], by simp [decode]⟩
  | cons t ts ih =>
    obtain ⟨ids, h1, h2⟩ := ih (fun x hx => hts x (by simp [hx]))
    obtain ⟨i, e1, _, e2⟩ := decode_encode c h t (hts t (by simp))
    simp only [encode, decode] at h1 h2 ⊢
    refine ⟨i :: ids, ?_, ?_⟩
    · simp [List.mapM_cons, e1, h1]
    · simp [List.mapM_cons, e2, h2]

/-- every event's channel is a track index (what the merge glue guarantees: track i is put on channel i) -/
def ChannelsOk (c : Cfg) (evs : List (Int × Pairing)) : Prop :=
  ∀ ev ∈ evs, ∀ m ∈ ev.2.head?, 0 ≤ m.ch ∧ m.ch < (c.numTracks : Int)

/-- **closure**: every token `tokenise` emits for an input it accepts is a member of the vocabulary,
    from any carried state -/
theorem tokenise_closed (c : Cfg) (h : CfgWF c) (st st' : TokSt) (evs : List (Int × Pairing)) (toks : List Tok)
    (hch : ChannelsOk c evs) (hok : tokeniseCore c st evs = .ok (toks, st')) :
    ∀ t ∈ toks, t ∈ vocabSeq c := by
  exact Tokenise.tokeniseCore_closed c h.def_eq st st' evs toks hch hok

/-- hence `encode` never fails on `tokenise` output -/
theorem encode_total_on_tokenise (c : Cfg) (h : CfgWF c) (st st' : TokSt) (evs : List (Int × Pairing))
    (toks : List Tok) (hch : ChannelsOk c evs) (hok : tokeniseCore c st evs = .ok (toks, st')) :
    ∃ ids, encode c toks = some ids := by
  obtain ⟨ids, h1, _⟩ := decode_encode_list c h toks (tokenise_closed c h st st' evs toks hch hok)
  exact ⟨ids, h1⟩

/-- every vocabulary token is accepted by `detokenise` (from any state with one output sequence per track) -/
theorem detok_accepts (c : Cfg) (t : Tok) (ht : t ∈ vocabSeq c) (d : DetokSt)
    (hd : d.seqs.length = c.numTracks) (hp : 0 ≤ d.prvTrack ∧ d.prvTrack < (c.numTracks : Int))
    (hn : 0 < c.numTracks) :
    ∃ d', dstep c d t = .ok d' ∧ d'.seqs.length = c.numTracks
      ∧ 0 ≤ d'.prvTrack ∧ d'.prvTrack < (c.numTracks : Int) := by
  obtain ⟨d', e, h1, h2, h3⟩ := Detok.dstep_ok c t ht d hn ⟨hd, hp.1, hp.2⟩
  exact ⟨d', e, h1, h2, h3⟩

/-- and therefore every vocabulary stream is accepted -/
theorem detokenise_accepts (c : Cfg) (toks : List Tok) (h : ∀ t ∈ toks, t ∈ vocabSeq c) (hn : 0 < c.numTracks) :
    ∃ seqs, detokenise c toks = .ok seqs := by
  obtain ⟨d', e, _⟩ := Detok.dsteps_ok c toks h (DetokSt.init c) hn (Detok.init_inv c hn)
  refine ⟨d'.seqs, ?_⟩
  unfold detokenise
  split
  · rename_i d2 hd2
    have : Except.ok d2 = Except.ok d' := hd2.symm.trans e
    cases this; rfl
  · rename_i e2 he2
    have : Except.error e2 = Except.ok d' := he2.symm.trans e
    cases this

/-! the full statement without `bins_nodup` is false on the current tree (known finding D16):
    `get_velocity_bins(19)` ends in 127, 127 -/
def badCfg : Cfg := { steps := [2], values := [4], bins := [122, 127, 127], pitchLo := 60, pitchHi := 60 }
theorem vocab_not_nodup_with_duplicate_bins : ¬ (vocabSeq badCfg).Nodup := by
  decide
theorem size_mismatch_with_duplicate_bins : dictionarySize badCfg ≠ (vocabSeq badCfg).eraseDups.length := by
  decide

/-! non-vacuity -/
def exCfg : Cfg := { steps := [2, 3, 4], values := [4, 6], bins := [63, 127], numTracks := 2, pitchLo := 60, pitchHi := 61,
                     fuseVel := false }
example : CfgWF exCfg := by
  constructor <;> decide
example : Tok.note (some 1) 61 (some 6) Option.none ∈ vocabSeq exCfg := by
  decide

end SCoda.C02
