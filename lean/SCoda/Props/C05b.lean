/-
  C05, last clause — survival of isolated notes.
  A note whose key (channel, pitch) has no other note event within two largest steps is dropped only
  when quantisation leaves no grid position for its end after its quantised start; otherwise it
  survives at the nearest grid position of its onset with its pitch, channel and velocity.

  `Isolated` as stated does not force `off` to be the note-off *of* `on`: when `on.time = off.time`
  the pair (note-on of a note, note-off of the preceding adjacent note of the same key) also satisfies
  it.  The full statements are therefore false (`survives_statement_false`, `dropped_statement_false`);
  they are proved under the extra hypothesis `OnFirst` (the first `on` of the list precedes every `off`),
  which follows from `on.time < off.time` (`OnFirst.of_lt`) or from `a.Nodup` and `off` after `on`.
-/
import SCoda.Props.C05
import SCoda.Lemmas.QuantiseB
namespace SCoda.C05
open SCoda

/-- `on`/`off` are the note-on and note-off of one note of `a`, and every other note event of the
    same channel and pitch lies at least `2 * maxStep` away from both of them -/
structure Isolated (steps : List Int) (a : List Msg) (on off : Msg) : Prop where
  onMem : on ∈ a
  offMem : off ∈ a
  onTy : on.ty = .noteOn
  offTy : off.ty = .noteOff
  key : off.nkey = on.nkey
  order : on.time ≤ off.time
  /-- between them no other event of the key; all others are far away -/
  far : ∀ m ∈ a, m ≠ on → m ≠ off → m.nkey = on.nkey → (m.ty = .noteOn ∨ m.ty = .noteOff) →
    m.time + 2 * maxStep steps ≤ on.time ∨ off.time + 2 * maxStep steps ≤ m.time

/-- the quantised onset: the nearest candidate position (first one on ties) -/
def qOn (steps : List Int) (on : Msg) : Int :=
  (possiblePositions steps on.time)[findMinimalDistance on.time (possiblePositions steps on.time)]?.getD on.time

theorem nearest_qOn {steps : List Int} (hne : steps ≠ []) (on : Msg) :
    nearest on.time (possiblePositions steps on.time) = .ok (qOn steps on) := by
  obtain ⟨v, hv, _⟩ := Q.fmd_spec' on.time _ (Q.possiblePositions_ne_nil hne on.time)
  simp [nearest, qOn, hv]

/-- the first occurrence of `on` in `a` precedes every occurrence of `off` (so that `off` really is the
    note-off that closes `on`) -/
def OnFirst (a : List Msg) (on off : Msg) : Prop :=
  ∃ pre post, a = pre ++ on :: post ∧ on ∉ pre ∧ off ∉ pre ∧ off ∈ post

/-- a note of positive length -/
theorem OnFirst.of_lt {steps : List Int} {a : List Msg} {on off : Msg} (hok : OkAbs a)
    (hi : Isolated steps a on off) (hlt : on.time < off.time) : OnFirst a on off := by
  obtain ⟨pre, post, rfl, hpre⟩ := QB.first_occ hi.onMem
  have hs := QB.sorted_split hok.1
  have hoffpre : off ∉ pre := fun h => by have := hs.1 off h; omega
  refine ⟨pre, post, rfl, hpre, hoffpre, ?_⟩
  have := hi.offMem
  simp only [List.mem_append, List.mem_cons] at this
  rcases this with h | h | h
  · exact absurd h hoffpre
  · subst h; omega
  · exact h

/-- distinct messages, `off` somewhere after `on` -/
theorem OnFirst.of_nodup {a : List Msg} {on off : Msg} (hnd : a.Nodup)
    (h : ∃ pre post, a = pre ++ on :: post ∧ off ∈ post) : OnFirst a on off := by
  obtain ⟨pre, post, rfl, hoff⟩ := h
  obtain ⟨_, _, hd⟩ := List.nodup_append.1 hnd
  exact ⟨pre, post, rfl, fun h => hd on h on (by simp) rfl, fun h => hd off h off (by simp [hoff]) rfl, hoff⟩

/-- the statement as first formulated; false, see `survives_statement_false` -/
def survives_statement : Prop :=
  ∀ (steps : List Int) (_hs : StepsOk steps) (a out : List Msg) (_hok : OkAbs a) (_hwf : WF a)
    (_h : quantise steps a = .ok out) (on off : Msg) (_hi : Isolated steps a on off)
    (_hroom : ∃ p ∈ possiblePositions steps off.time, qOn steps on < p),
    { on with time := qOn steps on } ∈ out
    ∧ ∃ t, qOn steps on < t ∧ { off with time := t } ∈ out

/-- **survival**: if some grid position of the note's end lies after its quantised start, the note is
    in the result: its note-on at the quantised onset (pitch, channel, velocity unchanged) and a note-off
    of the same key strictly later -/
theorem survives_partial (steps : List Int) (hs : StepsOk steps) (a out : List Msg) (hok : OkAbs a) (hwf : WF a)
    (h : quantise steps a = .ok out) (on off : Msg) (hi : Isolated steps a on off)
    (hp : OnFirst a on off)
    (hroom : ∃ p ∈ possiblePositions steps off.time, qOn steps on < p) :
    { on with time := qOn steps on } ∈ out
    ∧ ∃ t, qOn steps on < t ∧ { off with time := t } ∈ out := by
  obtain ⟨pre, post', rfl, h1, h2, h3⟩ := hp
  obtain ⟨mid, post, rfl, _, hpre, hmid, _⟩ := QB.split_note (QB.maxStep_pos hs) hok.1 hwf hi.onTy hi.order
    hi.far h1 h2 h3
  exact QB.core_survives hs hwf hi.onTy hi.offTy hi.key hpre hmid (nearest_qOn hs.1 on) hroom h

/-- survival of an isolated note of positive length -/
theorem survives_of_lt (steps : List Int) (hs : StepsOk steps) (a out : List Msg) (hok : OkAbs a) (hwf : WF a)
    (h : quantise steps a = .ok out) (on off : Msg) (hi : Isolated steps a on off)
    (hlt : on.time < off.time)
    (hroom : ∃ p ∈ possiblePositions steps off.time, qOn steps on < p) :
    { on with time := qOn steps on } ∈ out
    ∧ ∃ t, qOn steps on < t ∧ { off with time := t } ∈ out :=
  survives_partial steps hs a out hok hwf h on off hi (OnFirst.of_lt hok hi hlt) hroom

/-- the statement as first formulated; false, see `dropped_statement_false` -/
def dropped_statement : Prop :=
  ∀ (steps : List Int) (_hs : StepsOk steps) (a out : List Msg) (_hok : OkAbs a) (_hwf : WF a)
    (_h : quantise steps a = .ok out) (on off : Msg) (_hi : Isolated steps a on off) (_hnd : a.Nodup)
    (_hnoroom : ∀ p ∈ possiblePositions steps off.time, p ≤ qOn steps on),
    ∀ m ∈ out, m.nkey = on.nkey → (m.ty = .noteOn ∨ m.ty = .noteOff) →
      m.time + maxStep steps ≤ on.time ∨ off.time + maxStep steps ≤ m.time

/-- **only then**: if no grid position of its end lies after its quantised start, the note is dropped
    (no note event of its key remains within one largest step of it, provided messages of `a` are distinct) -/
theorem dropped_partial (steps : List Int) (hs : StepsOk steps) (a out : List Msg) (hok : OkAbs a) (hwf : WF a)
    (h : quantise steps a = .ok out) (on off : Msg) (hi : Isolated steps a on off) (hnd : a.Nodup)
    (hp : OnFirst a on off)
    (hnoroom : ∀ p ∈ possiblePositions steps off.time, p ≤ qOn steps on) :
    ∀ m ∈ out, m.nkey = on.nkey → (m.ty = .noteOn ∨ m.ty = .noteOff) →
      m.time + maxStep steps ≤ on.time ∨ off.time + maxStep steps ≤ m.time := by
  obtain ⟨pre, post', rfl, h1, h2, h3⟩ := hp
  obtain ⟨mid, post, rfl, _, hpre, hmid, hpost⟩ := QB.split_note (QB.maxStep_pos hs) hok.1 hwf hi.onTy hi.order
    hi.far h1 h2 h3
  have hnd2 := (List.nodup_append.1 hnd).2.1
  have hon_post : on ∉ post := fun h => (List.nodup_cons.1 hnd2).1 (by simp [h])
  have hnd3 := (List.nodup_append.1 (List.nodup_cons.1 hnd2).2).2.1
  have hoff_post : off ∉ post := (List.nodup_cons.1 hnd3).1
  exact QB.core_dropped hs hwf hi.onTy hi.offTy hi.key hpre hmid
    (fun m hm => hpost m hm (fun e => hon_post (e ▸ hm)) (fun e => hoff_post (e ▸ hm)))
    (nearest_qOn hs.1 on) hnoroom h

/-- removal of an isolated note of positive length -/
theorem dropped_of_lt (steps : List Int) (hs : StepsOk steps) (a out : List Msg) (hok : OkAbs a) (hwf : WF a)
    (h : quantise steps a = .ok out) (on off : Msg) (hi : Isolated steps a on off) (hnd : a.Nodup)
    (hlt : on.time < off.time)
    (hnoroom : ∀ p ∈ possiblePositions steps off.time, p ≤ qOn steps on) :
    ∀ m ∈ out, m.nkey = on.nkey → (m.ty = .noteOn ∨ m.ty = .noteOff) →
      m.time + maxStep steps ≤ on.time ∨ off.time + maxStep steps ≤ m.time :=
  dropped_partial steps hs a out hok hwf h on off hi hnd (OnFirst.of_lt hok hi hlt) hnoroom

/-! ### the counterexamples to the full statements: two adjacent notes of one key, `on` the note-on of the
    second and `off` the (simultaneous) note-off of the first -/

def cxS : List Msg := [Msg.mkOn 0 60 50 0, Msg.mkOff 0 60 100, Msg.mkOn 0 60 64 100,
  { Msg.mkOff 0 60 200 with vel := 0 }]

theorem cxS_ok : OkAbs cxS ∧ WF cxS := by
  refine ⟨⟨?_, ?_, by decide⟩, ?_⟩
  · simp [TimeSorted, cxS, Msg.mkOn, Msg.mkOff]
  · simp [NonNegTimes, cxS, Msg.mkOn, Msg.mkOff]
  · intro k
    simp only [altFrom, cxS, Msg.mkOn, Msg.mkOff, Msg.nkey]
    by_cases hk : ((0 : Int), (60 : Int)) = k <;> simp [hk]

theorem cxS_iso : Isolated [6, 4] cxS (Msg.mkOn 0 60 64 100) (Msg.mkOff 0 60 100) := by
  constructor <;> decide

theorem survives_statement_false : ¬ survives_statement := by
  intro H
  have hs : StepsOk [6, 4] := ⟨by simp, by intro s hs'; simp at hs'; omega⟩
  have hq : quantise [6, 4] cxS = .ok cxS := rfl
  obtain ⟨_, t, ht, hm⟩ := H [6, 4] hs cxS cxS cxS_ok.1 cxS_ok.2 hq _ _ cxS_iso (by decide)
  have hq : qOn [6, 4] (Msg.mkOn 0 60 64 100) = 100 := by decide
  rw [hq] at ht
  simp [cxS, Msg.mkOff, Msg.mkOn, pyNone] at hm
  omega

def cxD : List Msg := [Msg.mkOn 0 60 50 0, Msg.mkOff 0 60 29, Msg.mkOn 0 60 64 29,
  { Msg.mkOff 0 60 60 with vel := 0 }]

theorem cxD_ok : OkAbs cxD ∧ WF cxD := by
  refine ⟨⟨?_, ?_, by decide⟩, ?_⟩
  · simp [TimeSorted, cxD, Msg.mkOn, Msg.mkOff]
  · simp [NonNegTimes, cxD, Msg.mkOn, Msg.mkOff]
  · intro k
    simp only [altFrom, cxD, Msg.mkOn, Msg.mkOff, Msg.nkey]
    by_cases hk : ((0 : Int), (60 : Int)) = k <;> simp [hk]

theorem cxD_iso : Isolated [6] cxD (Msg.mkOn 0 60 64 29) (Msg.mkOff 0 60 29) := by
  constructor <;> decide

theorem dropped_statement_false : ¬ dropped_statement := by
  intro H
  have hs : StepsOk [6] := ⟨by simp, by intro s hs'; simp at hs'; omega⟩
  have hq : quantise [6] cxD = .ok [Msg.mkOn 0 60 50 0, Msg.mkOff 0 60 30, Msg.mkOn 0 60 64 30,
    { Msg.mkOff 0 60 60 with vel := 0 }] := rfl
  have := H [6] hs cxD _ cxD_ok.1 cxD_ok.2 hq _ _ cxD_iso (by decide) (by decide)
    (Msg.mkOff 0 60 30) (by decide) rfl (Or.inr rfl)
  revert this
  decide

/-! non-vacuity: the shape the seeded change C05b broke — a note 5..6 with steps [6] survives as 6..12 -/
def exA : List Msg := [Msg.mkOn 0 60 64 5, Msg.mkOff 0 60 6]
example : quantise [6] exA = .ok [Msg.mkOn 0 60 64 6, Msg.mkOff 0 60 12] := by
  rfl
example : Isolated [6] exA (Msg.mkOn 0 60 64 5) (Msg.mkOff 0 60 6) := by
  constructor <;> decide

end SCoda.C05
