/-
  Audit round 4, item C7 (non-vacuity), part 3: `TokTie.tokenise_eq` on a SECOND stateful call (`d = some …` carrying a state
  that is not the initial one), and the four `Defs` theorems.
-/
import SCoda.Props.Defs
set_option linter.unusedSimpArgs false
namespace SCoda.Examples4c
open SCoda SCoda.TokLib SCoda.Gen.Tok SCoda.TokTieL SCoda.RenderL SCoda.TokTie SCoda.Defs

/-! ## `TokTie.tokenise_eq`, second stateful call -/

/-- `Tokeniser(num_tracks=1, velocity_bins=1)`, all other arguments default -/
def tk : TokObj := initObj none 1 (21, 108) none none [127] (2, 16) true true true true true

/-- first chunk (one 3/4 bar): 3/4, a note over [0,12), silence to the bar line 72 -/
def bar1 : List (List Msg) :=
  [[Msg.mkTimeSig 0 3 4 pyNone, Msg.mkOn 0 60 64 pyNone, Msg.mkWait 0 12, Msg.mkOff 0 60 pyNone, Msg.mkWait 0 60]]
/-- second chunk (one 2/4 bar): 2/4, a note over [0,12), a note over [18,42) -/
def bar2 : List (List Msg) :=
  [[Msg.mkTimeSig 0 2 4 pyNone, Msg.mkOn 0 62 64 pyNone, Msg.mkWait 0 12, Msg.mkOff 0 62 pyNone, Msg.mkWait 0 6,
    Msg.mkOn 0 64 64 pyNone, Msg.mkWait 0 24, Msg.mkOff 0 64 pyNone]]

/-- the state dictionary the FIRST call (`state_dict={}`) returns: time 72, 3/4 carried, previous note value 12 -/
def d1 : List (String × Int) :=
  [("cur_time", 72), ("cur_time_bar", 0), ("cur_time_signature_numerator", 3), ("cur_time_signature_denominator", 4),
   ("cur_bar_capacity_remaining", 72), ("prv_track", 0), ("prv_value", 12), ("prv_velocity", 127)]

/-- Boolean form of `EvOk` -/
def evOkB (ppqn : Int) (ev : Int × Pairing) : Bool :=
  match ev.2.head? with
  | none => true
  | some m => ev.1 == m.ch && (m.ty != .timeSignature || (m.den != 0 && decide (0 ≤ ppqn * 4 * m.num)))

theorem evOk_of_B (ppqn : Int) (ev : Int × Pairing) (h : evOkB ppqn ev = true) : TokTieL.EvOk ppqn ev := by
  intro m hm
  unfold evOkB at h
  rw [hm] at h
  simp only [Bool.and_eq_true, Bool.or_eq_true, beq_iff_eq, bne_iff_ne, ne_eq, decide_eq_true_eq] at h
  refine ⟨h.1, fun hty => ?_⟩
  rcases h.2 with h2 | h2
  · exact absurd hty h2
  · exact h2

theorem evs_ok (ppqn : Int) (evs : List (Int × Pairing)) (h : evs.all (evOkB ppqn) = true) : ∀ ev ∈ evs, TokTieL.EvOk ppqn ev :=
  fun ev hev => evOk_of_B ppqn ev (List.all_eq_true.1 h ev hev)

/-- the first call, by `tokenise_fresh` (`state_dict=None`): its tokens, and `d1` is the state it returns -/
theorem call1 : tokenise tk (bar1.map LSeq.rel) true true none =
    .ok (d1, ["tsg_06_08", "trk_00-pit_060-val_12-vel_127", "rst_24", "rst_24", "rst_24", "bar"]) := by
  rw [tokenise_fresh tk bar1 rfl (by decide) (evs_ok _ _ (by decide +kernel))]
  decide +kernel

/-- **all four hypotheses of `TokTie.tokenise_eq` with `d = some d1`, the state left by a first call** (time 72, 3/4 in force — not
    the default 8/8 —, running values set); the second chunk holds a time-signature event (2/4), so the `EvOk` clause about
    denominators is exercised too -/
theorem ex_tokenise_eq_hyps : (bar2.length : Int) = tk.numTracks ∧ (stOfDict tk d1).tsDen ≠ 0 ∧
    0 ≤ tk.ppqn * 4 * (stOfDict tk d1).tsNum ∧ (∀ ev ∈ extract Gen.ppqn bar2, TokTieL.EvOk tk.ppqn ev) ∧
    stOfDict tk d1 ≠ TokSt.init (cfgOf tk) ∧
    (extract Gen.ppqn bar2).filterMap (fun ev => ev.2.head?.map (fun m => (m.ty, m.num, m.den))) =
      [(.timeSignature, 2, 4), (.noteOn, -1, -1), (.noteOn, -1, -1)] :=
  ⟨rfl, by decide, by decide, evs_ok _ _ (by decide +kernel), by decide, by decide +kernel⟩

/-- the conclusion of `tokenise_eq` on it, evaluated: the generated `tokenise` continues at tick 72, switches to 2/4 (`tsg_04_08`),
    and writes the new state (time 120 = 72 + 48) into the dictionary -/
theorem ex_tokenise_eq : tokenise tk (bar2.map LSeq.rel) true true (some d1) =
    .ok ([("cur_time", 120), ("cur_time_bar", 0), ("cur_time_signature_numerator", 2), ("cur_time_signature_denominator", 4),
          ("cur_bar_capacity_remaining", 48), ("prv_track", 0), ("prv_value", 24), ("prv_velocity", 127)],
         ["tsg_04_08", "trk_00-pit_062-val_12-vel_127", "rst_16", "rst_02", "trk_00-pit_064-val_24-vel_127", "rst_24", "rst_06", "bar"]) := by
  rw [tokenise_eq tk bar2 d1 ex_tokenise_eq_hyps.1 ex_tokenise_eq_hyps.2.1 ex_tokenise_eq_hyps.2.2.1 ex_tokenise_eq_hyps.2.2.2.1]
  decide +kernel

/-! ## `Defs.encode_eq_all`, `Defs.decode_one` on the object outside `CfgWF` and `CfgNonneg` -/

theorem dupObj_constructed : constructDictionary dupObj = .ok (finish (pushAll dupObj ((vocabSeq (cfgOf dupObj)).map render))) :=
  TokTie.constructDictionary_eq dupObj rfl

/-- the three hypotheses of `encode_eq_all` on `dupObj` (step sizes `[-5, 2, 2]`: a duplicate and a negative number), with tokens
    that hit the negative key, the overwritten key and a token outside the vocabulary -/
example : Gen.Tok.encode (finish (pushAll dupObj ((vocabSeq (cfgOf dupObj)).map render))) ([Tok.bar, .rest (-5), .rest 2].map render)
      = encodeSpec (cfgOf dupObj) [Tok.bar, .rest (-5), .rest 2] ∧
    Gen.Tok.encode (finish (pushAll dupObj ((vocabSeq (cfgOf dupObj)).map render))) ([Tok.bar, .rest 3].map render)
      = encodeSpec (cfgOf dupObj) [Tok.bar, .rest 3] :=
  ⟨encode_eq_all dupObj _ _ rfl rfl dupObj_constructed, encode_eq_all dupObj _ _ rfl rfl dupObj_constructed⟩

/-- the right-hand sides evaluated: `rst_02` has the LAST id (6); `rst_03` is not a key -/
example : SCoda.encode (cfgOf dupObj) [Tok.bar, .rest (-5), .rest 2] = some [3, 4, 6] ∧
    SCoda.encode (cfgOf dupObj) [Tok.bar, .rest 3] = none := by decide

/-- the three hypotheses of `decode_one` on `dupObj`, at the overwritten id 5, at the surviving id 6 and at an id out of range -/
example : (∀ i, pyDictGet (finish (pushAll dupObj ((vocabSeq (cfgOf dupObj)).map render))).inverseDictionary (Int.ofNat i) =
      match decodeId (cfgOf dupObj) i with | some t => .ok (render t) | none => .error .keyError) ∧
    (decodeId (cfgOf dupObj) 5, (decodeId (cfgOf dupObj) 6).map render, (decodeId (cfgOf dupObj) 4).map render, decodeId (cfgOf dupObj) 40)
      = (none, some "rst_02", some "rst_-5", none) :=
  ⟨fun i => decode_one dupObj _ i rfl rfl dupObj_constructed, by decide⟩

/-- … and on the constructed `smallObj` (`usedObj`, the object `__init__` returns), every id -/
example : (List.range 8).map (fun i => (decodeId (cfgOf smallObj) i).map render) =
    [some "pad", some "sta", some "sto", some "bar", some "rst_02", some "trk_00-pit_060-val_04-vel_127", some "tsg_04_08", none] ∧
    ∀ i, pyDictGet usedObj.inverseDictionary (Int.ofNat i) =
      match decodeId (cfgOf smallObj) i with | some t => .ok (render t) | none => .error .keyError :=
  ⟨by decide, fun i => decode_one smallObj usedObj i rfl rfl smallObj_constructed⟩

/-! ## `Defs.model_int_digits` -/

/-- the three hypotheses on the zero-padded field `060` (value 60), and the conclusion -/
example : '-' ∉ "060".toList ∧ '_' ∉ "060".toList ∧ pyInt? "060" = some 60 ∧
    ("060" ≠ "" ∧ (∀ c ∈ "060".toList, c.isDigit = true) ∧ (0 : Int) ≤ 60 ∧ pyIntOfStr "060" = .ok 60) :=
  ⟨by decide, by decide, pyInt_zpad 3 60, model_int_digits "060" 60 (by decide) (by decide) (pyInt_zpad 3 60)⟩

/-! ## `Defs.detokenise_strings_partial` with a `tsg_` token -/

/-- a token list with TWO time signatures (`tsg_06_08` = 3/4 after simplification, `tsg_04_08`), notes and a bar line -/
def toks : List Tok := [.tsig 6 8, .note (some 0) 60 (some 12) (some 127), .rest 24, .bar, .tsig 4 8, .note (some 0) 62 (some 4) (some 127), .bar]

theorem toks_strings : toks.map render =
    ["tsg_06_08", "trk_00-pit_060-val_12-vel_127", "rst_24", "bar", "tsg_04_08", "trk_00-pit_062-val_04-vel_127", "bar"] := by decide

theorem toks_parse : (toks.map render).mapM parseTok = .ok toks := by
  have h : ∀ t ∈ toks, parseTok (render t) = .ok t := by
    intro t ht
    exact parse_render_ok t (by revert t ht; decide)
  have : ∀ (l : List Tok), (∀ t ∈ l, parseTok (render t) = .ok t) → (l.map render).mapM parseTok = .ok l := by
    intro l
    induction l with
    | nil => intro _; rfl
    | cons t l ih =>
      intro hl
      rw [List.map_cons, List.mapM_cons, hl t (by simp), ih (fun x hx => hl x (by simp [hx]))]
      rfl
  exact this toks h

/-- **all three hypotheses of `detokenise_strings_partial`, `hden` not vacuous**: the list holds the time signatures 6/8 and 4/8,
    whose denominators are non-zero -/
theorem ex_detokenise_strings_partial :
    (toks.filter (fun t => match t with | .tsig _ _ => true | _ => false)) = [.tsig 6 8, .tsig 4 8] ∧
    Gen.Tok.detokenise tk ["tsg_06_08", "trk_00-pit_060-val_12-vel_127", "rst_24", "bar", "tsg_04_08", "trk_00-pit_062-val_04-vel_127", "bar"]
      = liftE (fun seqs => seqs.map LSeq.abs) (SCoda.detokenise (cfgOf tk) toks) := by
  refine ⟨by decide, ?_⟩
  rw [← toks_strings]
  refine detokenise_strings_partial tk _ toks (by decide) toks_parse ?_
  intro t ht a b e
  subst e
  revert ht
  unfold toks
  simp only [List.mem_cons, List.not_mem_nil, or_false]
  rintro (h | h | h | h | h | h | h) <;> cases h <;> decide

/-- the right-hand side evaluated: 3/4 at tick 0, the bar line at 72, 2/4 there, the second bar line at 120 -/
example : (SCoda.detokenise (cfgOf tk) toks).toOption.map (fun seqs => seqs.map (fun s => s.map (fun m => (m.ty, m.time, m.note, m.num)))) =
    some [[(.timeSignature, 0, -1, 3), (.noteOn, 0, 60, -1), (.noteOff, 12, 60, -1), (.internal, 72, -1, -1), (.timeSignature, 72, -1, 2),
           (.noteOn, 72, 62, -1), (.noteOff, 76, 62, -1), (.internal, 120, -1, -1)]] := by decide +kernel

end SCoda.Examples4c

