/-
  C01 — tokenise, encode, decode, detokenise reproduces every valid piece exactly
  C03 — stateful bar-by-bar tokenisation is equivalent to tokenising the whole piece

  Core: a simulation between the tokeniser (`tokeniseCore`, a fold of `tokEvent` over the
  time-interleaved events) and the detokeniser (`dstep` folded over the emitted tokens), stated for
  an *arbitrary related start state* so that it also covers tokenisation in chunks with a carried
  state dictionary (C03).

  The specification side is independent of tokens and step sizes: a clock that is advanced by a number
  of ticks and lists the bar ends it passes (`advance`), and the log of what a piece *is*: its notes
  (track, pitch, onset, end, binned velocity) in event order, interleaved with the bar ends (`specLog`).
-/
import SCoda.Model.Token
import SCoda.Lemmas.Sim
namespace SCoda.C01
open SCoda

/-! ## what the detokeniser emits -/

/-- one thing `detokenise` adds to its output sequences -/
inductive Emit
  | barEnd (t : Int)                          -- an INTERNAL message at `t` on every sequence
  | note (trk pitch vel on off : Int)         -- note-on at `on` (velocity `vel`) and note-off at `off` on sequence `trk`
  | tsig (t num den : Int)                    -- a time-signature message on sequence 0
  deriving DecidableEq, Repr

/-- what one part of a token makes the detokeniser emit in state `d` (read off `dpart`) -/
def emitOfPart (c : Cfg) (d : DetokSt) : Part → List Emit
  | .bar => [.barEnd (d.curTime + d.capRem)]
  | .pit p => [.note d.prvTrack p d.prvVel d.curTime (d.curTime + d.prvValue)]
  | .tsig a b =>
    if d.curTimeBar > 0 then [] else
    let switched := d.tsNum != a || d.tsDen != b
    let simp := c.simplifyTs && a % 2 == 0 && b % 2 == 0
    if switched || !c.running then [.tsig d.curTime (if simp then a / 2 else a) (if simp then b / 2 else b)] else []
  | _ => []

/-- apply an emission to the output sequences exactly as `dpart` does (binary insort) -/
def applyEmit (seqs : List (List Msg)) : Emit → List (List Msg)
  | .barEnd t => seqs.map (fun l => insort l (Msg.mkInternal 0 t))
  | .note trk p v on off => addAbs (addAbs seqs trk.toNat (Msg.mkOn 0 p v on)) trk.toNat (Msg.mkOff 0 p off)
  | .tsig t n d => addAbs seqs 0 (Msg.mkTimeSig 0 n d t)

/-- `dpart` changes the output sequences by exactly the emissions of `emitOfPart` -/
theorem dpart_seqs (c : Cfg) (d d' : DetokSt) (p : Part) (h : dpart c d p = .ok d') :
    d'.seqs = (emitOfPart c d p).foldl applyEmit d.seqs := by
  cases p with
  | pad | sta | sto | rest _ | trk _ | val _ | vel _ =>
    simp only [dpart] at h; cases h; rfl
  | bar => simp only [dpart] at h; cases h; rfl
  | pit p =>
    simp only [dpart] at h
    split at h
    · cases h
    · cases h; rfl
  | tsig a b =>
    simp only [dpart] at h
    simp only [emitOfPart]
    split at h
    · rename_i hb
      cases h; rw [if_pos hb]; rfl
    · rename_i hb
      rw [if_neg hb]
      split at h
      · cases h
      · rename_i hne
        cases h
        simp only
        by_cases hsw : ((d.tsNum != a || d.tsDen != b) || !c.running) = true
        · rw [if_pos hsw, if_pos hsw]
          have hlen : (d.seqs.length == 0) = false := by
            simpa [hsw] using hne
          simp [hlen, applyEmit]
        · rw [if_neg hsw, if_neg hsw]; rfl

/-- the detokeniser run over a token list from state `d`: final state and emission log -/
def dfold (c : Cfg) : DetokSt → List Tok → Except Err (DetokSt × List Emit)
  | d, [] => .ok (d, [])
  | d, t :: ts =>
    match dstepLog c d t.parts with
    | .error e => .error e
    | .ok (d1, log1) =>
      match dfold c d1 ts with
      | .error e => .error e
      | .ok (d2, log2) => .ok (d2, log1 ++ log2)
where
  dstepLog (c : Cfg) : DetokSt → List Part → Except Err (DetokSt × List Emit)
    | d, [] => .ok (d, [])
    | d, p :: ps =>
      match dpart c d p with
      | .error e => .error e
      | .ok d1 =>
        match dstepLog c d1 ps with
        | .error e => .error e
        | .ok (d2, log) => .ok (d2, emitOfPart c d p ++ log)

theorem dstepLog_fold (c : Cfg) (ps : List Part) (d d' : DetokSt) (log : List Emit)
    (h : dfold.dstepLog c d ps = .ok (d', log)) :
    ps.foldl (fun (acc : Except Err DetokSt) p =>
        match acc with | .ok d => dpart c d p | .error e => .error e) (Except.ok d) = .ok d'
      ∧ d'.seqs = log.foldl applyEmit d.seqs := by
  induction ps generalizing d log with
  | nil => simp only [dfold.dstepLog] at h; cases h; exact ⟨rfl, rfl⟩
  | cons p ps ih =>
    simp only [dfold.dstepLog] at h
    split at h
    · cases h
    · rename_i d1 h1
      split at h
      · cases h
      · rename_i d2 log2 h2
        cases h
        obtain ⟨e1, e2⟩ := ih d1 log2 h2
        simp only [List.foldl_cons, h1, List.foldl_append]
        exact ⟨e1, by rw [e2, dpart_seqs c d d1 p h1]⟩

theorem dfold_fold (c : Cfg) (toks : List Tok) (d d' : DetokSt) (log : List Emit)
    (h : dfold c d toks = .ok (d', log)) :
    toks.foldl (fun (acc : Except Err DetokSt) t =>
        match acc with | .ok d => dstep c d t | .error e => .error e) (Except.ok d) = .ok d'
      ∧ d'.seqs = log.foldl applyEmit d.seqs := by
  induction toks generalizing d log with
  | nil => simp only [dfold] at h; cases h; exact ⟨rfl, rfl⟩
  | cons t ts ih =>
    simp only [dfold] at h
    split at h
    · cases h
    · rename_i d1 log1 h1
      split at h
      · cases h
      · rename_i d2 log2 h2
        cases h
        obtain ⟨e1, e2⟩ := ih d1 log2 h2
        obtain ⟨f1, f2⟩ := dstepLog_fold c t.parts d d1 log1 h1
        simp only [List.foldl_cons, List.foldl_append]
        refine ⟨?_, by rw [e2, f2]⟩
        have : dstep c d t = .ok d1 := f1
        rw [this]; exact e1

/-- `dfold` is `detokenise` plus the log: same final sequences -/
theorem dfold_detokenise (c : Cfg) (toks : List Tok) (d : DetokSt) (log : List Emit)
    (h : dfold c (DetokSt.init c) toks = .ok (d, log)) :
    detokenise c toks = .ok d.seqs ∧ d.seqs = log.foldl applyEmit (DetokSt.init c).seqs := by
  obtain ⟨e1, e2⟩ := dfold_fold c toks _ d log h
  refine ⟨?_, e2⟩
  unfold detokenise
  split
  · rename_i d0 h0
    have := e1.symm.trans h0
    cases this; rfl
  · rename_i e0 h0
    have := e1.symm.trans h0
    cases this

/-! ## the specification: clocks and logs, no tokens -/

structure Clock where
  cur : Int
  bar : Int
  capTotal : Int
  capRem : Int
  deriving DecidableEq, Repr

/-- advance the clock by `rest` ticks; returns the new clock and the bar ends passed (a bar that is
    filled exactly is closed at once).  `fuel` bounds the number of bars. -/
def advance : Nat → Int → Clock → Clock × List Int
  | 0, _, k => (k, [])
  | fuel + 1, rest, k =>
    if rest ≤ 0 then (k, [])
    else if rest < k.capRem then ({ k with cur := k.cur + rest, bar := k.bar + rest, capRem := k.capRem - rest }, [])
    else
      let e := k.cur + k.capRem
      let r := advance fuel (rest - k.capRem) { k with cur := e, bar := 0, capRem := k.capTotal }
      (r.1, e :: r.2)

def clockOf (st : TokSt) (capTotal : Int) : Clock :=
  { cur := st.curTime, bar := st.curTimeBar, capTotal := capTotal, capRem := st.capRem }

/-- the piece as a log: for every event, the bar ends passed while reaching its onset, then (for a
    note) the note itself with its binned velocity; a time signature on a bar line re-sizes the bars.
    State: the clock.  `shift` is the carried `cur_time` of a stateful call. -/
def specEvent (c : Cfg) (shift : Int) (kl : Clock × List Emit) (ev : Int × Pairing) : Clock × List Emit :=
  match ev.2 with
  | [] => kl
  | m :: restP =>
    let target := m.time + shift
    let (k, ends) := advance ((target - kl.1.cur).toNat + 1) (target - kl.1.cur) kl.1
    let log := kl.2 ++ ends.map Emit.barEnd
    match m.ty with
    | .noteOn =>
      match restP with
      | off :: _ =>
        (k, log ++ [Emit.note m.ch m.note ((c.bins[binIndex c.bins m.vel]?).getD 0) k.cur (k.cur + (off.time - m.time))])
      | [] => (k, log)
    | .timeSignature =>
      if k.bar > 0 then (k, log)
      else ({ k with capTotal := c.capacity m.num m.den, capRem := c.capacity m.num m.den }, log)
    | _ => (k, log)

/-- the whole call: all events, then the bar in progress (if any) is closed -/
def specLog (c : Cfg) (st : TokSt) (evs : List (Int × Pairing)) : Clock × List Emit :=
  let kl := evs.foldl (specEvent c st.curTime) (clockOf st (c.capacity st.tsNum st.tsDen), [])
  if kl.1.bar > 0 ∧ kl.1.capRem > 0 then
    let (k, ends) := advance (kl.1.capRem.toNat + 1) kl.1.capRem kl.1
    (k, kl.2 ++ ends.map Emit.barEnd)
  else kl

/-! ## the simulation -/

/-- configuration side conditions used by the simulation -/
structure CfgOk (c : Cfg) : Prop where
  steps_pos : ∀ s ∈ c.steps, 0 < s
  values_nonneg : ∀ v ∈ c.values, 0 ≤ v
  bins_nonneg : ∀ b ∈ c.bins, 0 ≤ b
  def_eq : c.defNum = c.defDen
  def_pos : 0 < c.defDen
  ppqn_pos : 0 < c.ppqn

/-- tokeniser state and detokeniser state describe the same point of the same piece: equal clocks,
    equal bar size, and the detokeniser's running track / value / velocity equal the tokeniser's
    remembered ones unless the tokeniser's are still the impossible start value (< 0) -/
structure Rel (c : Cfg) (st : TokSt) (d : DetokSt) : Prop where
  cur : d.curTime = st.curTime
  bar : d.curTimeBar = st.curTimeBar
  rem : d.capRem = st.capRem
  tot : d.capTotal = c.capacity st.tsNum st.tsDen
  trk : st.prvTrack < 0 ∨ d.prvTrack = st.prvTrack
  val : st.prvValue < 0 ∨ d.prvValue = st.prvValue
  vel : st.prvVel < 0 ∨ d.prvVel = st.prvVel
  barNonneg : 0 ≤ st.curTimeBar
  remPos : 0 < st.capRem
  seqsLen : d.seqs.length = c.numTracks

/-- the events a call receives are what the merge glue produces: channels are track indices, onsets
    do not go back in time, time-signature denominators are positive -/
structure EvsOk (c : Cfg) (start shift : Int) (evs : List (Int × Pairing)) : Prop where
  chans : ∀ ev ∈ evs, ∀ m ∈ ev.2.head?, 0 ≤ m.ch ∧ m.ch < (c.numTracks : Int)
  ordered : List.Pairwise (fun a b => ∀ x ∈ a.2.head?, ∀ y ∈ b.2.head?, x.time ≤ y.time) evs
  notBefore : ∀ ev ∈ evs, ∀ m ∈ ev.2.head?, start ≤ m.time + shift
  denPos : ∀ ev ∈ evs, ∀ m ∈ ev.2.head?, m.ty = .timeSignature → 0 < m.den ∧ 0 < m.num

def notTsig : Emit → Bool
  | .tsig _ _ _ => false
  | _ => true

/-! ### `advance`: surplus fuel is irrelevant, and it splits at a step -/

theorem adv_nonpos (f : Nat) (rest : Int) (k : Clock) (h : rest ≤ 0) : advance f rest k = (k, []) := by
  cases f with
  | zero => rfl
  | succ f => simp only [advance]; rw [if_pos h]

theorem adv_fuel (f1 f2 : Nat) (rest : Int) (k : Clock)
    (hp : 0 < rest → 0 < k.capRem ∧ 0 < k.capTotal) (h1 : rest.toNat ≤ f1) (h2 : rest.toNat ≤ f2) :
    advance f1 rest k = advance f2 rest k := by
  induction f1 generalizing f2 rest k with
  | zero => rw [adv_nonpos _ _ _ (by omega), adv_nonpos _ _ _ (by omega)]
  | succ f1 ih =>
    by_cases hr : rest ≤ 0
    · rw [adv_nonpos _ _ _ hr, adv_nonpos _ _ _ hr]
    · cases f2 with
      | zero => omega
      | succ f2 =>
        have hp' := hp (by omega)
        simp only [advance]
        rw [if_neg hr, if_neg hr]
        split
        · rfl
        · rw [ih f2 (rest - k.capRem) { k with cur := k.cur + k.capRem, bar := 0, capRem := k.capTotal }
            (fun _ => ⟨hp'.2, hp'.2⟩) (by omega) (by omega)]

/-- a step that fills the bar exactly -/
theorem adv_split_close (rest : Int) (k : Clock) (v : Int) (hv : 0 < v) (hvr : v ≤ rest) (hvc : v = k.capRem)
    (hp : k.capRem < rest → 0 < k.capTotal) :
    advance (rest.toNat + 1) rest k =
      ((advance ((rest - v).toNat + 1) (rest - v) { k with cur := k.cur + v, bar := 0, capRem := k.capTotal }).1,
       (k.cur + v) :: (advance ((rest - v).toNat + 1) (rest - v) { k with cur := k.cur + v, bar := 0, capRem := k.capTotal }).2) := by
  subst hvc
  simp only [advance]
  rw [if_neg (by omega), if_neg (by omega)]
  rw [adv_fuel rest.toNat ((rest - k.capRem).toNat + 1) (rest - k.capRem)
    { k with cur := k.cur + k.capRem, bar := 0, capRem := k.capTotal } (fun h => ⟨hp (by omega), hp (by omega)⟩)
    (by omega) (by omega)]
  simp only [advance]

/-- a step that stays inside the bar -/
theorem adv_split_in (rest : Int) (k : Clock) (v : Int) (hv : 0 < v) (hvr : v ≤ rest) (hvc : v < k.capRem)
    (hp : k.capRem < rest → 0 < k.capTotal) :
    advance (rest.toNat + 1) rest k =
      advance ((rest - v).toNat + 1) (rest - v) { k with cur := k.cur + v, bar := k.bar + v, capRem := k.capRem - v } := by
  simp only [advance]
  rw [if_neg (by omega)]
  by_cases h1 : rest < k.capRem
  · rw [if_pos h1]
    by_cases h2 : rest - v ≤ 0
    · rw [if_pos h2]
      have : rest = v := by omega
      subst this; rfl
    · rw [if_neg h2, if_pos (by omega)]
      simp only [Prod.mk.injEq, Clock.mk.injEq, and_true]
      refine ⟨by omega, by omega, trivial, by omega⟩
  · have h2 : ¬ rest - v ≤ 0 := by omega
    have h3 : ¬ rest - v < k.capRem - v := by omega
    rw [if_neg h1, if_neg h2, if_neg h3]
    have e1 : k.cur + v + (k.capRem - v) = k.cur + k.capRem := by omega
    have e2 : rest - v - (k.capRem - v) = rest - k.capRem := by omega
    simp only [e1, e2]
    rw [adv_fuel rest.toNat (rest - v).toNat (rest - k.capRem)
      { k with cur := k.cur + k.capRem, bar := 0, capRem := k.capTotal } (fun h => ⟨hp (by omega), hp (by omega)⟩)
      (by omega) (by omega)]


/-! ### running the detokeniser forwards -/

theorem dfold_cons_ok {c : Cfg} {d d1 d2 : DetokSt} {t : Tok} {ts : List Tok} {log1 log2 : List Emit}
    (h1 : dfold.dstepLog c d t.parts = .ok (d1, log1)) (h2 : dfold c d1 ts = .ok (d2, log2)) :
    dfold c d (t :: ts) = .ok (d2, log1 ++ log2) := by
  simp only [dfold, h1, h2]

theorem dfold_append {c : Cfg} {a b : List Tok} {d d1 d2 : DetokSt} {log1 log2 : List Emit}
    (h1 : dfold c d a = .ok (d1, log1)) (h2 : dfold c d1 b = .ok (d2, log2)) :
    dfold c d (a ++ b) = .ok (d2, log1 ++ log2) := by
  induction a generalizing d log1 with
  | nil => simp only [dfold] at h1; cases h1; simpa using h2
  | cons t ts ih =>
    simp only [dfold] at h1
    split at h1
    · cases h1
    · rename_i d0 log0 h0
      split at h1
      · cases h1
      · rename_i d3 log3 h3
        cases h1
        have := ih h3
        simp only [List.cons_append, dfold, h0, this, List.append_assoc]

theorem dstepLog_rest (c : Cfg) (d : DetokSt) (v : Int) :
    dfold.dstepLog c d (Tok.rest v).parts =
      .ok ({ d with curTime := d.curTime + v, curTimeBar := d.curTimeBar + v, capRem := d.capRem - v }, []) := rfl

theorem dstepLog_bar (c : Cfg) (d : DetokSt) :
    dfold.dstepLog c d Tok.bar.parts =
      .ok ({ d with curTime := d.curTime + d.capRem, curTimeBar := 0, capRem := d.capTotal,
                    seqs := d.seqs.map (fun l => insort l (Msg.mkInternal 0 (d.curTime + d.capRem))) },
           [Emit.barEnd (d.curTime + d.capRem)]) := rfl

theorem sync_gen (c : Cfg) (hc : CfgOk c) (capTotal : Int)
    (fuel : Nat) (rest : Int) (k : Clock) (acc acc' : List Tok) (clk' : Int × Int × Int)
    (hk : k.capTotal = capTotal) (hW : 0 < k.capRem ∨ (k.bar = 0 ∧ k.capRem = capTotal)) (hbar : 0 ≤ k.bar)
    (h : applyRest c capTotal fuel rest (k.cur, k.bar, k.capRem) acc = .ok (clk', acc')) :
    ∃ new, acc' = new.reverse ++ acc
      ∧ (∀ t ∈ new, t = Tok.bar ∨ ∃ v, t = Tok.rest v ∧ v ∈ c.steps)
      ∧ clk' = ((advance (rest.toNat + 1) rest k).1.cur, (advance (rest.toNat + 1) rest k).1.bar,
                (advance (rest.toNat + 1) rest k).1.capRem)
      ∧ (advance (rest.toNat + 1) rest k).1.capTotal = capTotal
      ∧ (0 < (advance (rest.toNat + 1) rest k).1.capRem
          ∨ ((advance (rest.toNat + 1) rest k).1.bar = 0 ∧ (advance (rest.toNat + 1) rest k).1.capRem = capTotal))
      ∧ 0 ≤ (advance (rest.toNat + 1) rest k).1.bar
      ∧ (0 ≤ rest → (advance (rest.toNat + 1) rest k).1.cur = k.cur + rest)
      ∧ ∀ d : DetokSt, d.curTime = k.cur → d.curTimeBar = k.bar → d.capRem = k.capRem → d.capTotal = capTotal →
            ∃ d', dfold c d new = .ok (d', (advance (rest.toNat + 1) rest k).2.map Emit.barEnd)
              ∧ d'.curTime = (advance (rest.toNat + 1) rest k).1.cur
              ∧ d'.curTimeBar = (advance (rest.toNat + 1) rest k).1.bar
              ∧ d'.capRem = (advance (rest.toNat + 1) rest k).1.capRem ∧ d'.capTotal = capTotal
              ∧ d'.prvTrack = d.prvTrack ∧ d'.prvValue = d.prvValue ∧ d'.prvVel = d.prvVel
              ∧ d'.tsNum = d.tsNum ∧ d'.tsDen = d.tsDen ∧ d'.seqs.length = d.seqs.length := by
  subst hk
  induction fuel generalizing rest k acc with
  | zero =>
    by_cases hr : rest ≤ 0
    · rw [Sim.applyRest_nonpos _ _ _ _ _ _ hr] at h
      cases h
      rw [adv_nonpos _ _ _ hr]
      exact ⟨[], rfl, by simp, rfl, rfl, hW, hbar, fun h0 => by simp; omega,
        fun d h1 h2 h3 h4 => ⟨d, rfl, h1, h2, h3, h4, rfl, rfl, rfl, rfl, rfl, rfl⟩⟩
    · simp only [applyRest] at h
      rw [if_pos (by omega)] at h; cases h
  | succ fuel ih =>
    by_cases hr : rest ≤ 0
    · rw [Sim.applyRest_nonpos _ _ _ _ _ _ hr] at h
      cases h
      rw [adv_nonpos _ _ _ hr]
      exact ⟨[], rfl, by simp, rfl, rfl, hW, hbar, fun h0 => by simp; omega,
        fun d h1 h2 h3 h4 => ⟨d, rfl, h1, h2, h3, h4, rfl, rfl, rfl, rfl, rfl, rfl⟩⟩
    · have hrp : 0 < rest := by omega
      have hrem := Sim.applyRest_rem_pos c hc.steps_pos _ _ _ _ _ _ _ _ hrp h
      have hp : k.capRem < rest → 0 < k.capTotal := fun hlt =>
        Sim.applyRest_cap_pos c hc.steps_pos _ _ _ _ _ _ _ _ hrem hlt h
      obtain ⟨v, hvs, hv0, hvr, hvc, h4⟩ := Sim.applyRest_step c hc.steps_pos _ _ _ _ _ _ _ _ hrp h
      by_cases hz : k.capRem - v = 0
      · rw [if_pos hz] at h4
        have hvc' : v = k.capRem := by omega
        obtain ⟨new', e1, e2, e3, e4, e5, e6, e7, e8⟩ :=
          ih (rest - v) { k with cur := k.cur + v, bar := 0, capRem := k.capTotal } _
            (Int.le_refl 0) (Or.inr ⟨rfl, rfl⟩) h4
        rw [adv_split_close rest k v hv0 hvr hvc' hp]
        refine ⟨Tok.rest v :: Tok.bar :: new', by simp [e1], ?_, e3, e4, e5, e6, ?_, ?_⟩
        · intro t ht
          simp only [List.mem_cons] at ht
          rcases ht with rfl | rfl | ht
          · exact Or.inr ⟨v, rfl, hvs⟩
          · exact Or.inl rfl
          · exact e2 t ht
        · intro h0
          have := e7 (by omega)
          simp only at this ⊢
          omega
        · intro d h1 h2 h3 h5
          obtain ⟨d', f1, f2⟩ := e8
            { d with curTime := d.curTime + v + (d.capRem - v), curTimeBar := 0, capRem := d.capTotal,
                     seqs := d.seqs.map (fun l => insort l (Msg.mkInternal 0 (d.curTime + v + (d.capRem - v)))) }
            (by simp only; omega) rfl h5 h5
          refine ⟨d', ?_, by simpa using f2⟩
          have hb := dfold_cons_ok (dstepLog_bar c
            { d with curTime := d.curTime + v, curTimeBar := d.curTimeBar + v, capRem := d.capRem - v }) f1
          have hr' := dfold_cons_ok (dstepLog_rest c d v) hb
          rw [hr']
          have : d.curTime + v + (d.capRem - v) = k.cur + v := by omega
          simp [this]
      · rw [if_neg hz] at h4
        have hvc' : v < k.capRem := by omega
        obtain ⟨new', e1, e2, e3, e4, e5, e6, e7, e8⟩ :=
          ih (rest - v) { k with cur := k.cur + v, bar := k.bar + v, capRem := k.capRem - v } _
            (by simp only; omega) (Or.inl (by simp only; omega)) h4
        rw [adv_split_in rest k v hv0 hvr hvc' hp]
        refine ⟨Tok.rest v :: new', by simp [e1], ?_, e3, e4, e5, e6, ?_, ?_⟩
        · intro t ht
          simp only [List.mem_cons] at ht
          rcases ht with rfl | ht
          · exact Or.inr ⟨v, rfl, hvs⟩
          · exact e2 t ht
        · intro h0
          have := e7 (by omega)
          simp only at this ⊢
          omega
        · intro d h1 h2 h3 h5
          obtain ⟨d', f1, f2⟩ := e8
            { d with curTime := d.curTime + v, curTimeBar := d.curTimeBar + v, capRem := d.capRem - v }
            (by simp only; omega) (by simp only; omega) (by simp only; omega) h5
          refine ⟨d', ?_, by simpa using f2⟩
          have hr' := dfold_cons_ok (dstepLog_rest c d v) f1
          rw [hr']; simp

/-- the rest lemma: the tokens `applyRest` emits advance the detokeniser's clock by exactly the rest
    and make it emit exactly the bar ends that `advance` lists -/
theorem applyRest_sync (c : Cfg) (hc : CfgOk c) (capTotal : Int) (hcap : 0 < capTotal)
    (fuel : Nat) (rest : Int) (k : Clock) (acc acc' : List Tok) (clk' : Int × Int × Int)
    (hk : k.capTotal = capTotal) (hrem : 0 < k.capRem) (hbar : 0 ≤ k.bar)
    (h : applyRest c capTotal fuel rest (k.cur, k.bar, k.capRem) acc = .ok (clk', acc')) :
    ∃ new, acc' = new.reverse ++ acc
      ∧ (∀ t ∈ new, t = Tok.bar ∨ ∃ v, t = Tok.rest v ∧ v ∈ c.steps)
      ∧ let r := advance (rest.toNat + 1) rest k
        clk' = (r.1.cur, r.1.bar, r.1.capRem) ∧ r.1.capTotal = capTotal ∧ 0 < r.1.capRem ∧ 0 ≤ r.1.bar
        ∧ ∀ d : DetokSt, d.curTime = k.cur → d.curTimeBar = k.bar → d.capRem = k.capRem → d.capTotal = capTotal →
            ∃ d', dfold c d new = .ok (d', r.2.map Emit.barEnd)
              ∧ d'.curTime = r.1.cur ∧ d'.curTimeBar = r.1.bar ∧ d'.capRem = r.1.capRem ∧ d'.capTotal = capTotal
              ∧ d'.prvTrack = d.prvTrack ∧ d'.prvValue = d.prvValue ∧ d'.prvVel = d.prvVel
              ∧ d'.tsNum = d.tsNum ∧ d'.tsDen = d.tsDen ∧ d'.seqs.length = d.seqs.length := by
  obtain ⟨new, e1, e2, e3, e4, e5, e6, _, e8⟩ :=
    sync_gen c hc capTotal fuel rest k acc acc' clk' hk (Or.inl hrem) hbar h
  refine ⟨new, e1, e2, e3, e4, ?_, e6, e8⟩
  rcases e5 with h5 | h5
  · exact h5
  · simp only [h5.2]; exact hcap

/-! ### one event -/

/-- the part of `specEvent` after the clock has been advanced -/
def specTail (c : Cfg) (m : Msg) (restP : List Msg) (k : Clock) : Clock × List Emit :=
  match m.ty with
  | .noteOn =>
    match restP with
    | off :: _ => (k, [Emit.note m.ch m.note ((c.bins[binIndex c.bins m.vel]?).getD 0) k.cur (k.cur + (off.time - m.time))])
    | [] => (k, [])
  | .timeSignature =>
    if k.bar > 0 then (k, [])
    else ({ k with capTotal := c.capacity m.num m.den, capRem := c.capacity m.num m.den }, [])
  | _ => (k, [])

theorem specEvent_cons (c : Cfg) (shift : Int) (kl : Clock × List Emit) (e1 : Int) (m : Msg) (restP : List Msg) :
    specEvent c shift kl (e1, m :: restP) =
      ((specTail c m restP (advance ((m.time + shift - kl.1.cur).toNat + 1) (m.time + shift - kl.1.cur) kl.1).1).1,
        kl.2 ++ (advance ((m.time + shift - kl.1.cur).toNat + 1) (m.time + shift - kl.1.cur) kl.1).2.map Emit.barEnd
          ++ (specTail c m restP (advance ((m.time + shift - kl.1.cur).toNat + 1) (m.time + shift - kl.1.cur) kl.1).1).2) := by
  unfold specEvent specTail
  simp only
  generalize m.ty = ty
  cases ty <;> try simp
  all_goals (split <;> simp)

theorem dfold_note (c : Cfg) (d : DetokSt) (ot : Option Int) (p : Int) (ov ow : Option Int)
    (h0 : 0 ≤ ot.getD d.prvTrack) (h1 : (ot.getD d.prvTrack).toNat < d.seqs.length) :
    dfold c d [Tok.note ot p ov ow] =
      .ok ({ d with prvTrack := ot.getD d.prvTrack, prvValue := ov.getD d.prvValue, prvVel := ow.getD d.prvVel,
                    seqs := addAbs (addAbs d.seqs (ot.getD d.prvTrack).toNat (Msg.mkOn 0 p (ow.getD d.prvVel) d.curTime))
                              (ot.getD d.prvTrack).toNat (Msg.mkOff 0 p (d.curTime + ov.getD d.prvValue)) },
           [Emit.note (ot.getD d.prvTrack) p (ow.getD d.prvVel) d.curTime (d.curTime + ov.getD d.prvValue)]) := by
  have hcond : ∀ (x : Int) (n : Nat), 0 ≤ x → x.toNat < n → ¬ ((decide (x < 0) || decide (x.toNat ≥ n)) = true) := by
    intro x n hx hn; simp; omega
  cases ot <;> cases ov <;> cases ow <;>
    simp only [Option.getD] at h0 h1 ⊢ <;>
    simp [dfold, dfold.dstepLog, Tok.parts, dpart, emitOfPart, hcond _ _ h0 h1]

theorem dfold_opt (c : Cfg) (d : DetokSt) (b : Bool) (t : Tok) (d1 : DetokSt)
    (h : dfold.dstepLog c d t.parts = .ok (d1, [])) :
    dfold c d (if b = true then [t] else []) = .ok (if b = true then d1 else d, []) := by
  cases b
  · rfl
  · simp [dfold, h]


/-- tokeniser-side invariant of the loop state (weaker than `Rel`: the bar may be empty, namely when a
    signature of capacity 0 was just read; the tokeniser then rejects any further rest) -/
structure Inv (c : Cfg) (l : TkLoop) : Prop where
  cap : l.capTotal = c.capacity l.st.tsNum l.st.tsDen
  barNonneg : 0 ≤ l.st.curTimeBar
  weak : 0 < l.st.capRem ∨ (l.st.curTimeBar = 0 ∧ l.st.capRem = l.capTotal)

/-- the part of `Rel` that mentions the detokeniser -/
structure RelD (c : Cfg) (st : TokSt) (d : DetokSt) : Prop where
  cur : d.curTime = st.curTime
  bar : d.curTimeBar = st.curTimeBar
  rem : d.capRem = st.capRem
  tot : d.capTotal = c.capacity st.tsNum st.tsDen
  trk : st.prvTrack < 0 ∨ d.prvTrack = st.prvTrack
  val : st.prvValue < 0 ∨ d.prvValue = st.prvValue
  vel : st.prvVel < 0 ∨ d.prvVel = st.prvVel
  seqsLen : d.seqs.length = c.numTracks

theorem capacity_scaled' (c : Cfg) (hc : CfgOk c) (num den : Int) (hd : 0 < den)
    (hdiv : (num * c.defDen) % den = 0) :
    c.capacity ((num * c.defDen) / den) c.defNum = c.capacity num den := by
  unfold Cfg.capacity
  rw [hc.def_eq]
  exact Sim.scaled_div (c.ppqn * 4) num c.defDen den hc.def_pos hd hdiv

/-- what the three cases of `tail` have to deliver -/
def TailGoal (c : Cfg) (l l' : TkLoop) (m : Msg) (restP : List Msg) (a b r : Int) (toks0 : List Tok) : Prop :=
  ∃ new E, l'.toks = new.reverse ++ toks0
    ∧ l'.capTotal = c.capacity l'.st.tsNum l'.st.tsDen
    ∧ l'.st.curTime = a
    ∧ 0 ≤ l'.st.curTimeBar
    ∧ (0 < l'.st.capRem ∨ (l'.st.curTimeBar = 0 ∧ l'.st.capRem = l'.capTotal))
    ∧ (∀ P : Int → Int → Prop, P l.st.tsNum l.st.tsDen → (m.ty = .timeSignature → P m.num m.den) →
        P l'.st.tsNum l'.st.tsDen)
    ∧ specTail c m restP { cur := a, bar := b, capTotal := l.capTotal, capRem := r } = (clockOf l'.st l'.capTotal, E)
    ∧ ∀ d, RelD c { l.st with curTime := a, curTimeBar := b, capRem := r } d →
        ∃ d' log, dfold c d new = .ok (d', log) ∧ RelD c l'.st d' ∧ log.filter notTsig = E

theorem tail_other (c : Cfg) (l l' : TkLoop) (m : Msg) (restP : List Msg) (a b r : Int) (toks0 : List Tok)
    (hcap : l.capTotal = c.capacity l.st.tsNum l.st.tsDen) (hb : 0 ≤ b) (hw : 0 < r ∨ (b = 0 ∧ r = l.capTotal))
    (h1 : m.ty ≠ .noteOn) (h2 : m.ty ≠ .timeSignature)
    (h : Tokenise.tail c l m restP a b r toks0 = .ok l') : TailGoal c l l' m restP a b r toks0 := by
  have hl : l' = { l with st := { l.st with curTime := a, curTimeBar := b, capRem := r }, toks := toks0 } := by
    unfold Tokenise.tail at h
    simp only at h
    cases h; rfl
  subst hl
  refine ⟨[], [], rfl, hcap, rfl, hb, hw, fun P hp _ => hp, ?_, fun d hd => ⟨d, [], rfl, hd, rfl⟩⟩
  unfold specTail
  simp only
  rfl


theorem dstepLog_tsig (c : Cfg) (d : DetokSt) (a b : Int) (hbar : ¬ d.curTimeBar > 0) (hlen : d.seqs.length ≠ 0) :
    ∃ d' log, dfold.dstepLog c d (Tok.tsig a b).parts = .ok (d', log)
      ∧ log.filter notTsig = []
      ∧ d'.curTime = d.curTime ∧ d'.curTimeBar = d.curTimeBar ∧ d'.capRem = c.capacity a b
      ∧ d'.capTotal = c.capacity a b ∧ d'.prvTrack = d.prvTrack ∧ d'.prvValue = d.prvValue
      ∧ d'.prvVel = d.prvVel ∧ d'.seqs.length = d.seqs.length := by
  have hl : (d.seqs.length == 0) = false := by simpa using hlen
  simp only [Tok.parts, dfold.dstepLog, dpart, emitOfPart, if_neg hbar, hl, Bool.and_false, Bool.false_eq_true,
    if_false, List.append_nil]
  refine ⟨_, _, rfl, ?_, rfl, rfl, rfl, rfl, rfl, rfl, rfl, ?_⟩
  · split <;> rfl
  · simp only
    split
    · exact Detok.length_addAbs _ _ _
    · rfl

theorem tail_tsig (c : Cfg) (hc : CfgOk c) (l l' : TkLoop) (m : Msg) (restP : List Msg) (a b r : Int) (toks0 : List Tok)
    (hcap : l.capTotal = c.capacity l.st.tsNum l.st.tsDen) (hb : 0 ≤ b) (hw : 0 < r ∨ (b = 0 ∧ r = l.capTotal))
    (hty : m.ty = .timeSignature) (hden : 0 < m.den) (hn : 0 < c.numTracks)
    (h : Tokenise.tail c l m restP a b r toks0 = .ok l') : TailGoal c l l' m restP a b r toks0 := by
  unfold Tokenise.tail at h
  simp only [hty] at h
  by_cases hbp : b > 0
  · rw [if_pos hbp] at h
    cases h
    refine ⟨[], [], rfl, hcap, rfl, hb, hw, fun P hp _ => hp, ?_, fun d hd => ⟨d, [], rfl, hd, rfl⟩⟩
    unfold specTail
    simp only [hty, if_pos hbp]
    rfl
  · rw [if_neg hbp] at h
    split at h
    · cases h
    · rename_i hdiv
      split at h
      · cases h
      · cases h
        have hdiv' : (m.num * c.defDen) % m.den = 0 := by simpa using hdiv
        have hb0 : b = 0 := by omega
        refine ⟨[Tok.tsig ((m.num * c.defDen) / m.den) c.defNum], [], rfl, rfl, rfl, hb, Or.inr ⟨hb0, rfl⟩,
          fun P _ hp => hp hty, ?_, ?_⟩
        · unfold specTail
          simp only [hty, if_neg hbp]
          rfl
        · intro d hd
          obtain ⟨d', log, e1, e2, e3, e4, e5, e6, e7, e8, e9, e10⟩ :=
            dstepLog_tsig c d ((m.num * c.defDen) / m.den) c.defNum (by rw [hd.bar]; exact hbp)
              (by rw [hd.seqsLen]; omega)
          refine ⟨d', log ++ [], dfold_cons_ok e1 rfl, ?_, by simpa using e2⟩
          have hcs := capacity_scaled' c hc m.num m.den hden hdiv'
          exact ⟨e3.trans hd.cur, e4.trans hd.bar, e5.trans hcs, e6.trans hcs, by rw [e7]; exact hd.trk,
            by rw [e8]; exact hd.val, by rw [e9]; exact hd.vel, e10.trans hd.seqsLen⟩


theorem run_eq (fuse running : Bool) (x sx dx : Int) (hx : 0 ≤ x) (hrel : sx < 0 ∨ dx = sx) :
    (if fuse = true then some x else none).getD (if (!fuse && (x != sx || !running)) = true then x else dx) = x := by
  cases fuse <;> cases running <;> simp
  intro h; omega

theorem dfold_pre (c : Cfg) (d : DetokSt) (b1 b2 b3 : Bool) (t v w : Int) :
    dfold c d ((if b1 = true then [Tok.trk t] else []) ++ (if b2 = true then [Tok.val v] else [])
        ++ (if b3 = true then [Tok.vel w] else [])) =
      .ok ({ d with prvTrack := if b1 = true then t else d.prvTrack, prvValue := if b2 = true then v else d.prvValue,
                    prvVel := if b3 = true then w else d.prvVel }, []) := by
  cases b1 <;> cases b2 <;> cases b3 <;> rfl

theorem tail_note (c : Cfg) (hc : CfgOk c) (l l' : TkLoop) (m : Msg) (restP : List Msg) (a b r : Int) (toks0 : List Tok)
    (hcap : l.capTotal = c.capacity l.st.tsNum l.st.tsDen) (hb : 0 ≤ b) (hw : 0 < r ∨ (b = 0 ∧ r = l.capTotal))
    (hty : m.ty = .noteOn) (hm : 0 ≤ m.ch ∧ m.ch < (c.numTracks : Int))
    (h : Tokenise.tail c l m restP a b r toks0 = .ok l') : TailGoal c l l' m restP a b r toks0 := by
  unfold Tokenise.tail at h
  simp only [hty] at h
  split at h
  · cases h
  · rename_i off restQ
    split at h
    · cases h
    · rename_i vel hvel
      split at h
      · cases h
      · split at h
        · cases h
        · rename_i hvalue
          cases h
          have hvel0 : 0 ≤ vel := hc.bins_nonneg vel (List.mem_of_getElem? hvel)
          have hval0 : 0 ≤ off.time - m.time := hc.values_nonneg _ (by simpa using hvalue)
          refine ⟨(if (!c.fuseTrk && (m.ch != l.st.prvTrack || !c.running)) = true then [Tok.trk m.ch] else [])
              ++ (if (!c.fuseVal && (off.time - m.time != l.st.prvValue || !c.running)) = true then [Tok.val (off.time - m.time)] else [])
              ++ (if (!c.fuseVel && (vel != l.st.prvVel || !c.running)) = true then [Tok.vel vel] else [])
              ++ [Tok.note (if c.fuseTrk = true then some m.ch else none) m.note
                    (if c.fuseVal = true then some (off.time - m.time) else none) (if c.fuseVel = true then some vel else none)],
            [Emit.note m.ch m.note vel a (a + (off.time - m.time))], ?_, hcap, rfl, hb, hw, fun P hp _ => hp, ?_, ?_⟩
          · simp [List.reverse_append]
          · unfold specTail
            simp only [hty, hvel]
            rfl
          · intro d hd
            have hpre := dfold_pre c d (!c.fuseTrk && (m.ch != l.st.prvTrack || !c.running))
              (!c.fuseVal && (off.time - m.time != l.st.prvValue || !c.running))
              (!c.fuseVel && (vel != l.st.prvVel || !c.running)) m.ch (off.time - m.time) vel
            have hT := run_eq c.fuseTrk c.running m.ch l.st.prvTrack d.prvTrack hm.1 hd.trk
            have hV := run_eq c.fuseVal c.running (off.time - m.time) l.st.prvValue d.prvValue hval0 hd.val
            have hW := run_eq c.fuseVel c.running vel l.st.prvVel d.prvVel hvel0 hd.vel
            have hnote := dfold_note c
              { d with prvTrack := if (!c.fuseTrk && (m.ch != l.st.prvTrack || !c.running)) = true then m.ch else d.prvTrack,
                       prvValue := if (!c.fuseVal && (off.time - m.time != l.st.prvValue || !c.running)) = true then off.time - m.time else d.prvValue,
                       prvVel := if (!c.fuseVel && (vel != l.st.prvVel || !c.running)) = true then vel else d.prvVel }
              (if c.fuseTrk = true then some m.ch else none) m.note
              (if c.fuseVal = true then some (off.time - m.time) else none) (if c.fuseVel = true then some vel else none)
              (by simp only; rw [hT]; exact hm.1)
              (by simp only; rw [hT, hd.seqsLen]; omega)
            simp only [hT, hV, hW] at hnote
            refine ⟨_, _, dfold_append hpre hnote, ?_, ?_⟩
            · exact ⟨hd.cur, hd.bar, hd.rem, hd.tot, Or.inr rfl, Or.inr rfl, Or.inr rfl,
                by simp only [Detok.length_addAbs]; exact hd.seqsLen⟩
            · have := hd.cur
              simp only at this
              simp [notTsig, this]


theorem tail_sim (c : Cfg) (hc : CfgOk c) (l l' : TkLoop) (m : Msg) (restP : List Msg) (a b r : Int) (toks0 : List Tok)
    (hcap : l.capTotal = c.capacity l.st.tsNum l.st.tsDen) (hb : 0 ≤ b) (hw : 0 < r ∨ (b = 0 ∧ r = l.capTotal))
    (hm : 0 ≤ m.ch ∧ m.ch < (c.numTracks : Int)) (hden : m.ty = .timeSignature → 0 < m.den)
    (h : Tokenise.tail c l m restP a b r toks0 = .ok l') : TailGoal c l l' m restP a b r toks0 := by
  by_cases h1 : m.ty = .noteOn
  · exact tail_note c hc l l' m restP a b r toks0 hcap hb hw h1 hm h
  · by_cases h2 : m.ty = .timeSignature
    · exact tail_tsig c hc l l' m restP a b r toks0 hcap hb hw h2 (hden h2) (by omega) h
    · exact tail_other c l l' m restP a b r toks0 hcap hb hw h1 h2 h

theorem tokEvent_inv (c : Cfg) (shift : Int) (l l' : TkLoop) (e1 : Int) (m : Msg) (restP : List Msg)
    (h : tokEvent c shift l (e1, m :: restP) = .ok l') :
    ∃ v, applyRest c l.capTotal ((m.time + shift - l.st.curTime).toNat + 1) (m.time + shift - l.st.curTime)
          (l.st.curTime, l.st.curTimeBar, l.st.capRem) l.toks = .ok v
      ∧ Tokenise.tail c l m restP v.1.1 v.1.2.1 v.1.2.2 v.2 = .ok l' := by
  rw [Tokenise.tokEvent_eq] at h
  simp only at h
  split at h
  · split at h
    · cases h
    · rename_i v hv
      exact ⟨v, hv, h⟩
  · rename_i hne
    have : l.st.curTime = m.time + shift := by simpa using hne
    refine ⟨((l.st.curTime, l.st.curTimeBar, l.st.capRem), l.toks), ?_, h⟩
    exact Sim.applyRest_nonpos _ _ _ _ _ _ (by omega)

theorem filter_barEnd (xs : List Int) : (xs.map Emit.barEnd).filter notTsig = xs.map Emit.barEnd := by
  induction xs with
  | nil => rfl
  | cons x xs ih => simp [List.filter, notTsig, ih]

theorem event_sim (c : Cfg) (hc : CfgOk c) (shift : Int) (l l' : TkLoop) (ev : Int × Pairing) (hI : Inv c l)
    (hch : ∀ m ∈ ev.2.head?, 0 ≤ m.ch ∧ m.ch < (c.numTracks : Int))
    (htime : ∀ m ∈ ev.2.head?, l.st.curTime ≤ m.time + shift)
    (hden : ∀ m ∈ ev.2.head?, m.ty = .timeSignature → 0 < m.den ∧ 0 < m.num)
    (h : tokEvent c shift l ev = .ok l') :
    ∃ new E, l'.toks = new.reverse ++ l.toks ∧ Inv c l'
      ∧ (∀ m ∈ ev.2.head?, l'.st.curTime = m.time + shift)
      ∧ (∀ P : Int → Int → Prop, P l.st.tsNum l.st.tsDen →
          (∀ m ∈ ev.2.head?, m.ty = .timeSignature → P m.num m.den) → P l'.st.tsNum l'.st.tsDen)
      ∧ (∀ L, specEvent c shift (clockOf l.st l.capTotal, L) ev = (clockOf l'.st l'.capTotal, L ++ E))
      ∧ ∀ d, RelD c l.st d → ∃ d' log, dfold c d new = .ok (d', log) ∧ RelD c l'.st d' ∧ log.filter notTsig = E := by
  obtain ⟨e1, e2⟩ := ev
  cases e2 with
  | nil => rw [Tokenise.tokEvent_eq] at h; cases h
  | cons m restP =>
    simp only [List.head?_cons, Option.mem_def, Option.some.injEq, forall_eq'] at hch htime hden ⊢
    obtain ⟨v, hv, ht⟩ := tokEvent_inv c shift l l' e1 m restP h
    obtain ⟨⟨a, b, r⟩, toks0⟩ := v
    obtain ⟨new1, s1, _, s3, s4, s5, s6, s7, s8⟩ :=
      sync_gen c hc l.capTotal _ _ (clockOf l.st l.capTotal) l.toks toks0 (a, b, r) rfl hI.weak hI.barNonneg hv
    simp only at ht
    generalize hr : advance ((m.time + shift - l.st.curTime).toNat + 1) (m.time + shift - l.st.curTime)
      (clockOf l.st l.capTotal) = rr at *
    simp only [Prod.mk.injEq] at s3
    obtain ⟨rfl, rfl, rfl⟩ := s3
    obtain ⟨new2, E2, t1, t2, t3, t4, t5, t6, t7, t8⟩ :=
      tail_sim c hc l l' m restP _ _ _ toks0 hI.cap s6 s5 hch (fun h => (hden h).1) ht
    refine ⟨new1 ++ new2, rr.2.map Emit.barEnd ++ E2, ?_, ⟨t2, t4, t5⟩, ?_, ?_, ?_, ?_⟩
    · rw [t1, s1]; simp
    · rw [t3, s7 (by omega)]; simp only [clockOf]; omega
    · intro P hp hq; exact t6 P hp hq
    · intro L
      have hsc := specEvent_cons c shift (clockOf l.st l.capTotal, L) e1 m restP
      simp only [clockOf] at hsc
      simp only [clockOf] at hr
      rw [hr] at hsc
      have : rr.1 = { cur := rr.1.cur, bar := rr.1.bar, capTotal := l.capTotal, capRem := rr.1.capRem } := by
        rw [← s4]
      rw [this, t7] at hsc
      simp only [clockOf]
      rw [hsc]
      simp [clockOf]
    · intro d hd
      obtain ⟨d1, f1, f2, f3, f4, f5, f6, f7, f8, _, _, f11⟩ := s8 d hd.cur hd.bar hd.rem (hd.tot.trans hI.cap.symm)
      obtain ⟨d', log, g1, g2, g3⟩ := t8 d1
        ⟨f2, f3, f4, f5.trans hI.cap, by rw [f6]; exact hd.trk, by rw [f7]; exact hd.val, by rw [f8]; exact hd.vel,
          f11.trans hd.seqsLen⟩
      refine ⟨d', _, dfold_append f1 g1, g2, ?_⟩
      rw [List.filter_append, filter_barEnd, g3]


theorem fold_sim (c : Cfg) (hc : CfgOk c) (shift : Int) (evs : List (Int × Pairing)) (l l' : TkLoop) (hI : Inv c l)
    (hch : ∀ ev ∈ evs, ∀ m ∈ ev.2.head?, 0 ≤ m.ch ∧ m.ch < (c.numTracks : Int))
    (hord : List.Pairwise (fun a b => ∀ x ∈ a.2.head?, ∀ y ∈ b.2.head?, x.time ≤ y.time) evs)
    (htime : ∀ ev ∈ evs, ∀ m ∈ ev.2.head?, l.st.curTime ≤ m.time + shift)
    (hden : ∀ ev ∈ evs, ∀ m ∈ ev.2.head?, m.ty = .timeSignature → 0 < m.den ∧ 0 < m.num)
    (h : tokeniseCore.foldlM'' (tokEvent c shift) l evs = .ok l') :
    ∃ new E, l'.toks = new.reverse ++ l.toks ∧ Inv c l'
      ∧ (∀ P : Int → Int → Prop, P l.st.tsNum l.st.tsDen →
          (∀ ev ∈ evs, ∀ m ∈ ev.2.head?, m.ty = .timeSignature → P m.num m.den) → P l'.st.tsNum l'.st.tsDen)
      ∧ (∀ L, evs.foldl (specEvent c shift) (clockOf l.st l.capTotal, L) = (clockOf l'.st l'.capTotal, L ++ E))
      ∧ ∀ d, RelD c l.st d → ∃ d' log, dfold c d new = .ok (d', log) ∧ RelD c l'.st d' ∧ log.filter notTsig = E := by
  induction evs generalizing l with
  | nil =>
    simp only [tokeniseCore.foldlM''] at h; cases h
    exact ⟨[], [], rfl, hI, fun P hp _ => hp, fun L => by simp, fun d hd => ⟨d, [], rfl, hd, rfl⟩⟩
  | cons ev evs ih =>
    simp only [tokeniseCore.foldlM''] at h
    split at h
    · rename_i l1 h1
      obtain ⟨new1, E1, a1, a2, a3, a4, a5, a6⟩ := event_sim c hc shift l l1 ev hI (hch ev (by simp))
        (htime ev (by simp)) (hden ev (by simp)) h1
      have hne : ∃ m restP, ev.2 = m :: restP := by
        rcases hev2 : ev.2 with _ | ⟨m, restP⟩
        · rw [Tokenise.tokEvent_eq, hev2] at h1; cases h1
        · exact ⟨m, restP, rfl⟩
      obtain ⟨m, restP, hev2⟩ := hne
      have hcur : l1.st.curTime = m.time + shift := a3 m (by simp [hev2])
      rw [List.pairwise_cons] at hord
      obtain ⟨new2, E2, b1, b2, b3, b4, b5⟩ := ih l1 a2 (fun e he => hch e (by simp [he])) hord.2
        (fun e he m' hm' => by
          have := hord.1 e he m (by simp [hev2]) m' hm'
          omega)
        (fun e he => hden e (by simp [he])) h
      refine ⟨new1 ++ new2, E1 ++ E2, by rw [b1, a1]; simp, b2, ?_, ?_, ?_⟩
      · intro P hp hq
        exact b3 P (a4 P hp (hq ev (by simp))) (fun e he => hq e (by simp [he]))
      · intro L
        rw [List.foldl_cons, a5, b4, List.append_assoc]
      · intro d hd
        obtain ⟨d1, log1, f1, f2, f3⟩ := a6 d hd
        obtain ⟨d2, log2, g1, g2, g3⟩ := b5 d1 f2
        exact ⟨d2, _, dfold_append f1 g1, g2, by rw [List.filter_append, f3, g3]⟩
    · cases h

theorem core_sim (c : Cfg) (hc : CfgOk c) (st st' : TokSt) (evs : List (Int × Pairing)) (toks : List Tok)
    (hb : 0 ≤ st.curTimeBar)
    (hw : 0 < st.capRem ∨ (st.curTimeBar = 0 ∧ st.capRem = c.capacity st.tsNum st.tsDen))
    (hev : EvsOk c st.curTime st.curTime evs) (hok : tokeniseCore c st evs = .ok (toks, st')) :
    ∃ E, specLog c st evs = (clockOf st' (c.capacity st'.tsNum st'.tsDen), E)
      ∧ 0 ≤ st'.curTimeBar
      ∧ (0 < st'.capRem ∨ (st'.curTimeBar = 0 ∧ st'.capRem = c.capacity st'.tsNum st'.tsDen))
      ∧ (∀ P : Int → Int → Prop, P st.tsNum st.tsDen →
          (∀ ev ∈ evs, ∀ m ∈ ev.2.head?, m.ty = .timeSignature → P m.num m.den) → P st'.tsNum st'.tsDen)
      ∧ ∀ d, RelD c st d → ∃ d' log, dfold c d toks = .ok (d', log) ∧ RelD c st' d' ∧ log.filter notTsig = E := by
  unfold tokeniseCore at hok
  simp only [bind, Except.bind] at hok
  split at hok
  · cases hok
  · rename_i l hl
    obtain ⟨new, E, a1, a2, a3, a4, a5⟩ := fold_sim c hc st.curTime evs
      { st := st, capTotal := c.capacity st.tsNum st.tsDen } l ⟨rfl, hb, hw⟩ hev.chans hev.ordered hev.notBefore
      hev.denPos hl
    simp only [List.append_nil] at a1
    have a4' := a4 []
    simp only [List.nil_append] at a4'
    by_cases hfin : (decide (l.st.curTimeBar > 0) && decide (l.st.capRem > 0)) = true
    · rw [if_pos hfin] at hok
      split at hok
      · cases hok
      · rename_i v hv
        obtain ⟨⟨a, b, r⟩, toks0⟩ := v
        simp only [Except.ok.injEq, Prod.mk.injEq] at hok
        obtain ⟨hok1, hok2⟩ := hok
        obtain ⟨new2, s1, _, s3, s4, s5, s6, s7, s8⟩ :=
          sync_gen c hc l.capTotal _ _ (clockOf l.st l.capTotal) l.toks toks0 (a, b, r) rfl a2.weak a2.barNonneg hv
        generalize hr : advance (l.st.capRem.toNat + 1) l.st.capRem (clockOf l.st l.capTotal) = rr at *
        simp only [Prod.mk.injEq] at s3
        obtain ⟨rfl, rfl, rfl⟩ := s3
        subst hok2
        have hcap' : rr.1.capTotal = c.capacity l.st.tsNum l.st.tsDen := s4.trans a2.cap
        refine ⟨E ++ rr.2.map Emit.barEnd, ?_, s6, ?_, a3, ?_⟩
        · unfold specLog
          simp only [a4']
          have : (clockOf l.st l.capTotal).bar > 0 ∧ (clockOf l.st l.capTotal).capRem > 0 := by
            simpa [clockOf] using hfin
          rw [if_pos this]
          simp only [clockOf] at hr ⊢
          rw [hr]
          simp only [Prod.mk.injEq, and_true]
          rw [← hcap']
        · simpa [a2.cap] using s5
        · intro d hd
          obtain ⟨d1, log1, f1, f2, f3⟩ := a5 d hd
          obtain ⟨d2, g1, g2, g3, g4, g5, g6, g7, g8, _, _, g11⟩ :=
            s8 d1 f2.cur f2.bar f2.rem (f2.tot.trans a2.cap.symm)
          refine ⟨d2, log1 ++ rr.2.map Emit.barEnd, ?_, ⟨g2, g3, g4, g5.trans a2.cap, by rw [g6]; exact f2.trk, by rw [g7]; exact f2.val,
            by rw [g8]; exact f2.vel, g11.trans f2.seqsLen⟩, by rw [List.filter_append, f3, filter_barEnd]⟩
          rw [← hok1, s1, a1]
          simp only [List.reverse_append, List.reverse_reverse]
          exact dfold_append f1 g1
    · rw [if_neg hfin] at hok
      simp only [Except.ok.injEq, Prod.mk.injEq] at hok
      obtain ⟨hok1, hok2⟩ := hok
      subst hok2
      refine ⟨E, ?_, a2.barNonneg, by simpa [a2.cap] using a2.weak, a3, ?_⟩
      · unfold specLog
        simp only [a4']
        have : ¬ ((clockOf l.st l.capTotal).bar > 0 ∧ (clockOf l.st l.capTotal).capRem > 0) := by
          simpa [clockOf] using hfin
        rw [if_neg this, a2.cap]
      · intro d hd
        obtain ⟨d1, log1, f1, f2, f3⟩ := a5 d hd
        refine ⟨d1, log1, ?_, f2, f3⟩
        rw [← hok1, a1]; simpa using f1

/-! `sim` as it was stated (without positivity of the bar capacities) is FALSE for the model — see
    `sim_statement_false` below.  The full statement is kept as `sim_statement`; `sim_partial` proves it
    under the two extra hypotheses `hcap0` (the start state's bar capacity is positive) and `hcapEv`
    (every time signature in the events has a positive bar capacity).  `roundtrip` and `chunked` do not
    need them: they are proved from the weaker-invariant version `core_sim`. -/

theorem Rel.toRelD {c : Cfg} {st : TokSt} {d : DetokSt} (h : Rel c st d) : RelD c st d :=
  ⟨h.cur, h.bar, h.rem, h.tot, h.trk, h.val, h.vel, h.seqsLen⟩

/-- **simulation**, original statement (C01 core; C03 because the start state is arbitrary): whenever `tokenise` accepts
    the events from state `st`, the detokeniser run over the emitted tokens from any related state
    succeeds, ends in a state related to the tokeniser's final state, and — time-signature messages
    aside — emits exactly the specification log: every note at its onset with its duration and binned
    velocity on its track, and every bar end of the grid. -/
def sim_statement : Prop :=
  ∀ (c : Cfg) (_ : CfgOk c) (st st' : TokSt) (d : DetokSt) (evs : List (Int × Pairing)) (toks : List Tok)
    (_ : Rel c st d) (_ : EvsOk c st.curTime st.curTime evs)
    (_ : tokeniseCore c st evs = .ok (toks, st')),
    ∃ d' log, dfold c d toks = .ok (d', log) ∧ Rel c st' d'
      ∧ log.filter notTsig = (specLog c st evs).2
      ∧ st'.curTime = (specLog c st evs).1.cur ∧ st'.curTimeBar = (specLog c st evs).1.bar
      ∧ st'.capRem = (specLog c st evs).1.capRem

/-- **simulation**, with positive bar capacities (C01 core; C03 because the start state is arbitrary): whenever `tokenise` accepts
    the events from state `st`, the detokeniser run over the emitted tokens from any related state
    succeeds, ends in a state related to the tokeniser's final state, and — time-signature messages
    aside — emits exactly the specification log: every note at its onset with its duration and binned
    velocity on its track, and every bar end of the grid. -/
theorem sim_partial (c : Cfg) (hc : CfgOk c) (st st' : TokSt) (d : DetokSt) (evs : List (Int × Pairing)) (toks : List Tok)
    (hrel : Rel c st d) (hev : EvsOk c st.curTime st.curTime evs)
    (hcap0 : 0 < c.capacity st.tsNum st.tsDen)
    (hcapEv : ∀ ev ∈ evs, ∀ m ∈ ev.2.head?, m.ty = .timeSignature → 0 < c.capacity m.num m.den)
    (hok : tokeniseCore c st evs = .ok (toks, st')) :
    ∃ d' log, dfold c d toks = .ok (d', log) ∧ Rel c st' d'
      ∧ log.filter notTsig = (specLog c st evs).2
      ∧ st'.curTime = (specLog c st evs).1.cur ∧ st'.curTimeBar = (specLog c st evs).1.bar
      ∧ st'.capRem = (specLog c st evs).1.capRem := by
  obtain ⟨E, a1, a2, a3, a4, a5⟩ := core_sim c hc st st' evs toks hrel.barNonneg (Or.inl hrel.remPos) hev hok
  obtain ⟨d', log, b1, b2, b3⟩ := a5 d hrel.toRelD
  have hpos := a4 (fun n d => 0 < c.capacity n d) hcap0 hcapEv
  refine ⟨d', log, b1, ⟨b2.cur, b2.bar, b2.rem, b2.tot, b2.trk, b2.val, b2.vel, a2, ?_, b2.seqsLen⟩, ?_⟩
  · rcases a3 with h | h
    · exact h
    · rw [h.2]; exact hpos
  · rw [a1]; exact ⟨b3, rfl, rfl, rfl⟩

def cexCfg : Cfg := { ppqn := 1, tsLo := 1, steps := [1, 2], values := [1], bins := [127] }

/-- `sim` as stated is false: a time signature whose bar holds 0 ticks (ppqn 1, signature 1/8) is
    accepted by the tokeniser and leaves `capRem = 0`, contradicting `Rel.remPos`. -/
theorem sim_statement_false : ¬ sim_statement := by
  intro h
  have hc : CfgOk cexCfg := by
    constructor <;> decide
  have hrel : Rel cexCfg (TokSt.init cexCfg) (DetokSt.init cexCfg) := by
    constructor <;> decide
  have hev : EvsOk cexCfg (TokSt.init cexCfg).curTime (TokSt.init cexCfg).curTime [(0, [Msg.mkTimeSig 0 1 8 0])] := by
    constructor <;> simp [Msg.mkTimeSig, TokSt.init, cexCfg]
  obtain ⟨d', log, _, h2, _⟩ := h cexCfg hc (TokSt.init cexCfg)
    { curTime := 0, curTimeBar := 0, tsNum := 1, tsDen := 8, capRem := 0, prvTrack := -1, prvValue := -1, prvVel := -1 }
    (DetokSt.init cexCfg) [(0, [Msg.mkTimeSig 0 1 8 0])] [Tok.tsig 1 8] hrel hev rfl
  exact absurd h2.remPos (by decide)

/-- the initial states are related -/
theorem rel_init (c : Cfg) (hc : CfgOk c) (hn : 0 < c.numTracks) : Rel c (TokSt.init c) (DetokSt.init c) := by
  have _ := hn
  have hpos : 0 < c.capacity c.defNum c.defDen := by
    unfold Cfg.capacity
    rw [hc.def_eq, Int.mul_ediv_cancel _ (by have := hc.def_pos; omega)]
    have := hc.ppqn_pos; omega
  refine ⟨rfl, rfl, rfl, rfl, Or.inl (by simp [TokSt.init]), Or.inl (by simp [TokSt.init]), Or.inl (by simp [TokSt.init]), Int.le_refl 0, hpos, ?_⟩
  simp [DetokSt.init]

/-- **C01**: single call from the initial state -/
theorem roundtrip (c : Cfg) (hc : CfgOk c) (hn : 0 < c.numTracks) (evs : List (Int × Pairing)) (toks : List Tok) (st' : TokSt)
    (hev : EvsOk c 0 0 evs) (hok : tokeniseCore c (TokSt.init c) evs = .ok (toks, st')) :
    ∃ d log, dfold c (DetokSt.init c) toks = .ok (d, log)
      ∧ detokenise c toks = .ok d.seqs
      ∧ log.filter notTsig = (specLog c (TokSt.init c) evs).2 := by
  obtain ⟨E, a1, _, _, _, a5⟩ := core_sim c hc (TokSt.init c) st' evs toks (Int.le_refl 0) (Or.inr ⟨rfl, rfl⟩) hev hok
  obtain ⟨d', log, b1, _, b3⟩ := a5 (DetokSt.init c) (rel_init c hc hn).toRelD
  exact ⟨d', log, b1, (dfold_detokenise c toks d' log b1).1, by rw [a1]; exact b3⟩

/-- **C03**: two consecutive calls threading the state equal one call on the joined events, provided
    the first call ends on a bar line (every chunk is a whole number of bars).  `evs2` carries
    chunk-relative times; in the joined piece they are shifted by the clock the first call ended at. -/
def shiftEvs (s : Int) (evs : List (Int × Pairing)) : List (Int × Pairing) :=
  evs.map (fun ev => (ev.1, ev.2.map (fun m => { m with time := m.time + s })))

/-! ### the specification log of a joined call -/

/-- the final step of `specLog`: close the bar in progress -/
def closeBar (kl : Clock × List Emit) : Clock × List Emit :=
  if kl.1.bar > 0 ∧ kl.1.capRem > 0 then
    ((advance (kl.1.capRem.toNat + 1) kl.1.capRem kl.1).1,
      kl.2 ++ (advance (kl.1.capRem.toNat + 1) kl.1.capRem kl.1).2.map Emit.barEnd)
  else kl

theorem specLog_eq (c : Cfg) (st : TokSt) (evs : List (Int × Pairing)) :
    specLog c st evs = closeBar (evs.foldl (specEvent c st.curTime) (clockOf st (c.capacity st.tsNum st.tsDen), [])) := by
  unfold specLog closeBar
  simp only

theorem closeBar_fire (k : Clock) (L : List Emit) (h1 : k.bar > 0) (h2 : k.capRem > 0) :
    closeBar (k, L) = ({ k with cur := k.cur + k.capRem, bar := 0, capRem := k.capTotal },
      L ++ [Emit.barEnd (k.cur + k.capRem)]) := by
  unfold closeBar
  rw [if_pos ⟨h1, h2⟩]
  simp only [advance]
  rw [if_neg (by omega), if_neg (by omega), adv_nonpos _ _ _ (by omega)]
  rfl

theorem closeBar_prefix (k : Clock) (L X : List Emit) :
    closeBar (k, L ++ X) = ((closeBar (k, X)).1, L ++ (closeBar (k, X)).2) := by
  unfold closeBar
  simp only
  split <;> simp

theorem specEvent_prefix (c : Cfg) (sh : Int) (k : Clock) (L X : List Emit) (ev : Int × Pairing) :
    specEvent c sh (k, L ++ X) ev = ((specEvent c sh (k, X) ev).1, L ++ (specEvent c sh (k, X) ev).2) := by
  obtain ⟨e1, e2⟩ := ev
  cases e2 with
  | nil => simp [specEvent]
  | cons m restP => rw [specEvent_cons, specEvent_cons]; simp

theorem fold_prefix (c : Cfg) (sh : Int) (evs : List (Int × Pairing)) (k : Clock) (L X : List Emit) :
    evs.foldl (specEvent c sh) (k, L ++ X) =
      ((evs.foldl (specEvent c sh) (k, X)).1, L ++ (evs.foldl (specEvent c sh) (k, X)).2) := by
  induction evs generalizing k X with
  | nil => rfl
  | cons ev evs ih =>
    rw [List.foldl_cons, List.foldl_cons, specEvent_prefix, ih]

theorem specTail_shift (c : Cfg) (s : Int) (m : Msg) (restP : List Msg) (k : Clock) :
    specTail c { m with time := m.time + s } (restP.map (fun m => { m with time := m.time + s })) k
      = specTail c m restP k := by
  unfold specTail
  cases restP with
  | nil => rfl
  | cons off r =>
    have : off.time + s - (m.time + s) = off.time - m.time := by omega
    simp only [List.map_cons, this]

theorem specEvent_shift (c : Cfg) (sh s : Int) (kl : Clock × List Emit) (ev : Int × Pairing) :
    specEvent c sh kl (ev.1, ev.2.map (fun m => { m with time := m.time + s })) = specEvent c (sh + s) kl ev := by
  obtain ⟨e1, e2⟩ := ev
  cases e2 with
  | nil => simp [specEvent]
  | cons m restP =>
    simp only [List.map_cons]
    rw [specEvent_cons, specEvent_cons, specTail_shift]
    have : m.time + s + sh = m.time + (sh + s) := by omega
    simp only [this]

theorem fold_shift (c : Cfg) (sh s : Int) (evs : List (Int × Pairing)) (kl : Clock × List Emit) :
    (shiftEvs s evs).foldl (specEvent c sh) kl = evs.foldl (specEvent c (sh + s)) kl := by
  induction evs generalizing kl with
  | nil => rfl
  | cons ev evs ih =>
    simp only [shiftEvs, List.map_cons, List.foldl_cons] at ih ⊢
    rw [specEvent_shift, ih]

/-! `specLog_append` as it was stated is FALSE for the model (`specLog_append_statement_false`): with a
    non-positive bar capacity the specification clock is fuel dependent.  `specLog_append_partial` adds the
    hypothesis that the second call is accepted by the tokeniser (which `chunked` has anyway); `chunked`
    is proved as stated. -/

theorem first_event_ok (c : Cfg) (hc : CfgOk c) (st : TokSt) (ev : Int × Pairing) (evs : List (Int × Pairing))
    (r : List Tok × TokSt) (h : tokeniseCore c st (ev :: evs) = .ok r) :
    ∃ m restP, ev.2 = m :: restP ∧ (st.curTime < m.time + st.curTime → 0 < st.capRem) := by
  rcases htk : tokEvent c st.curTime { st := st, capTotal := c.capacity st.tsNum st.tsDen } ev with e | l1
  · simp [tokeniseCore, bind, Except.bind, tokeniseCore.foldlM'', htk] at h
  · obtain ⟨e1, e2⟩ := ev
    cases e2 with
    | nil => rw [Tokenise.tokEvent_eq] at htk; cases htk
    | cons m restP =>
      refine ⟨m, restP, rfl, fun hlt => ?_⟩
      obtain ⟨v, hv, _⟩ := tokEvent_inv c st.curTime _ l1 e1 m restP htk
      exact Sim.applyRest_rem_pos c hc.steps_pos _ _ _ _ _ _ _ _ (by simp only; omega) hv

theorem specEvent_close (c : Cfg) (sh : Int) (k : Clock) (E : List Emit) (e1 : Int) (m : Msg) (restP : List Msg)
    (hr : 0 < k.capRem) (ht : k.cur + k.capRem ≤ m.time + sh) (hp : k.cur + k.capRem < m.time + sh → 0 < k.capTotal) :
    specEvent c sh (k, E) (e1, m :: restP) =
      ((specEvent c sh ({ k with cur := k.cur + k.capRem, bar := 0, capRem := k.capTotal }, []) (e1, m :: restP)).1,
        E ++ [Emit.barEnd (k.cur + k.capRem)]
          ++ (specEvent c sh ({ k with cur := k.cur + k.capRem, bar := 0, capRem := k.capTotal }, []) (e1, m :: restP)).2) := by
  rw [specEvent_cons, specEvent_cons]
  simp only
  rw [adv_split_close (m.time + sh - k.cur) k k.capRem hr (by omega) rfl (fun h => hp (by omega))]
  have : m.time + sh - k.cur - k.capRem = m.time + sh - (k.cur + k.capRem) := by omega
  simp only [this]
  simp


theorem specLog_append_partial (c : Cfg) (st : TokSt) (evs1 evs2 : List (Int × Pairing)) (st1 : TokSt) (toks1 : List Tok)
    (hc : CfgOk c) (h1 : tokeniseCore c st evs1 = .ok (toks1, st1)) (hbar : st1.curTimeBar = 0)
    (hrem : 0 < st.capRem) (hb : 0 ≤ st.curTimeBar)
    (hev1 : EvsOk c st.curTime st.curTime evs1) (hev2 : EvsOk c st1.curTime st1.curTime evs2)
    (toks2 : List Tok) (st2 : TokSt) (h2 : tokeniseCore c st1 evs2 = .ok (toks2, st2)) :
    (specLog c st (evs1 ++ shiftEvs (st1.curTime - st.curTime) evs2)).2
      = (specLog c st evs1).2 ++ (specLog c st1 evs2).2 := by
  have _ := hbar
  obtain ⟨E1, a1, _, _, _, _⟩ := core_sim c hc st st1 evs1 toks1 hb (Or.inl hrem) hev1 h1
  rw [specLog_eq] at a1
  rw [specLog_eq, specLog_eq, specLog_eq, List.foldl_append, fold_shift]
  have hs : st.curTime + (st1.curTime - st.curTime) = st1.curTime := by omega
  rw [hs]
  generalize evs1.foldl (specEvent c st.curTime) (clockOf st (c.capacity st.tsNum st.tsDen), []) = kl1 at a1 ⊢
  obtain ⟨k, E⟩ := kl1
  by_cases hf : k.bar > 0 ∧ k.capRem > 0
  · rw [closeBar_fire k E hf.1 hf.2] at a1 ⊢
    simp only [Prod.mk.injEq] at a1
    obtain ⟨a1, -⟩ := a1
    rw [← a1]
    have hcur : st1.curTime = k.cur + k.capRem := by
      have := congrArg Clock.cur a1; simpa [clockOf] using this.symm
    cases evs2 with
    | nil =>
      simp only [List.foldl_nil]
      rw [closeBar_fire k E hf.1 hf.2]
      simp [closeBar]
    | cons ev rest2 =>
      obtain ⟨m, restP, hev, hpos⟩ := first_event_ok c hc st1 ev rest2 _ h2
      obtain ⟨e1, e2⟩ := ev
      simp only at hev
      subst hev
      have hnb := hev2.notBefore _ (List.mem_cons_self) m (by simp)
      have hcapR : st1.capRem = k.capTotal := by
        have := congrArg Clock.capRem a1; simpa [clockOf] using this.symm
      simp only [List.foldl_cons]
      rw [specEvent_close c st1.curTime k E e1 m restP hf.2 (by omega) (fun h => by
        have := hpos (by omega); omega)]
      rw [fold_prefix, closeBar_prefix]
  · have : closeBar (k, E) = (k, E) := by unfold closeBar; rw [if_neg hf]
    rw [this] at a1 ⊢
    simp only [Prod.mk.injEq] at a1
    obtain ⟨a1, -⟩ := a1
    rw [← a1]
    have := fold_prefix c st1.curTime evs2 k E []
    rw [List.append_nil] at this
    rw [this, closeBar_prefix]


def specLog_append_statement : Prop :=
  ∀ (c : Cfg) (st : TokSt) (evs1 evs2 : List (Int × Pairing)) (st1 : TokSt) (toks1 : List Tok)
    (_ : CfgOk c) (_ : tokeniseCore c st evs1 = .ok (toks1, st1)) (_ : st1.curTimeBar = 0)
    (_ : 0 < st.capRem) (_ : 0 ≤ st.curTimeBar)
    (_ : EvsOk c st.curTime st.curTime evs1) (_ : EvsOk c st1.curTime st1.curTime evs2),
    (specLog c st (evs1 ++ shiftEvs (st1.curTime - st.curTime) evs2)).2
      = (specLog c st evs1).2 ++ (specLog c st1 evs2).2

/-- `specLog_append` as stated is false: from a start state whose bar capacity is 0 (`tsNum = 0`) the
    specification clock `advance` never gets past the bar line, and the number of bar ends it lists is
    its fuel, which differs between the joined call and the second call.  (The tokeniser rejects the
    second call, which is the hypothesis `specLog_append_partial` adds.) -/
theorem specLog_append_statement_false : ¬ specLog_append_statement := by
  intro h
  have hc : CfgOk cexCfg := by
    constructor <;> decide
  have hev1 : EvsOk cexCfg 0 0 [] := by
    constructor <;> simp
  have hev2 : EvsOk cexCfg 2 2 [(0, [Msg.mkInternal 0 3])] := by
    constructor <;> simp [Msg.mkInternal, cexCfg]
  have := h cexCfg { curTime := 0, curTimeBar := 1, tsNum := 0, tsDen := 1, capRem := 2 } [] [(0, [Msg.mkInternal 0 3])]
    { curTime := 2, curTimeBar := 0, tsNum := 0, tsDen := 1, capRem := 0 } [Tok.rest 2, Tok.bar] hc rfl rfl
    (by decide) (by decide) hev1 hev2
  exact absurd (congrArg List.length this) (by decide)

theorem chunked (c : Cfg) (hc : CfgOk c) (st st1 st2 : TokSt) (d : DetokSt)
    (evs1 evs2 : List (Int × Pairing)) (toks1 toks2 : List Tok)
    (hrel : Rel c st d)
    (hev1 : EvsOk c st.curTime st.curTime evs1) (hev2 : EvsOk c st1.curTime st1.curTime evs2)
    (h1 : tokeniseCore c st evs1 = .ok (toks1, st1)) (h2 : tokeniseCore c st1 evs2 = .ok (toks2, st2))
    (hbar : st1.curTimeBar = 0) :
    ∃ d' log, dfold c d (toks1 ++ toks2) = .ok (d', log)
      ∧ log.filter notTsig = (specLog c st (evs1 ++ shiftEvs (st1.curTime - st.curTime) evs2)).2 := by
  obtain ⟨E1, a1, a2, a3, _, a5⟩ := core_sim c hc st st1 evs1 toks1 hrel.barNonneg (Or.inl hrel.remPos) hev1 h1
  obtain ⟨d1, log1, b1, b2, b3⟩ := a5 d hrel.toRelD
  obtain ⟨E2, f1, _, _, _, f5⟩ := core_sim c hc st1 st2 evs2 toks2 a2 a3 hev2 h2
  obtain ⟨d2, log2, g1, _, g3⟩ := f5 d1 b2
  refine ⟨d2, log1 ++ log2, dfold_append b1 g1, ?_⟩
  rw [specLog_append_partial c st evs1 evs2 st1 toks1 hc h1 hbar hrel.remPos hrel.barNonneg hev1 hev2 toks2 st2 h2,
    a1, f1, List.filter_append, b3, g3]

/-! ## the bar grid: the detokeniser's bar size after a signature token is the tokeniser's -/

theorem capacity_scaled (c : Cfg) (hc : CfgOk c) (num den : Int) (hd : 0 < den)
    (hdiv : (num * c.defDen) % den = 0) :
    c.capacity ((num * c.defDen) / den) c.defNum = c.capacity num den := by
  unfold Cfg.capacity
  rw [hc.def_eq]
  exact Sim.scaled_div (c.ppqn * 4) num c.defDen den hc.def_pos hd hdiv

/-! ## non-vacuity: a concrete piece (two tracks, a rest across a bar line, a signature change) -/
def exCfg : Cfg := { steps := [2, 3, 4, 6, 8, 12, 16, 24], values := [4, 6, 8, 9, 12, 16, 18, 24, 36], bins := [63, 127],
                     numTracks := 2, fuseVel := false }
def exEvs : List (Int × Pairing) :=
  [(0, [Msg.mkTimeSig 0 3 4 0]), (0, [Msg.mkOn 0 60 64 0, Msg.mkOff 0 60 24]), (1, [Msg.mkOn 1 48 30 60, Msg.mkOff 1 48 72]),
   (0, [Msg.mkOn 0 62 100 150, Msg.mkOff 0 62 156])]
example : CfgOk exCfg := by
  constructor <;> decide
example : EvsOk exCfg 0 0 exEvs := by
  constructor <;> simp [exEvs, exCfg, Msg.mkTimeSig, Msg.mkOn]
example : (tokeniseCore exCfg (TokSt.init exCfg) exEvs).toOption.isSome = true := by
  rfl
example : (specLog exCfg (TokSt.init exCfg) exEvs).2 =
    [.note 0 60 127 0 24, .note 1 48 63 60 72, .barEnd 72, .barEnd 144, .note 0 62 127 150 156, .barEnd 216] := by
  rfl

end SCoda.C01
