/-
  C05 — strengthening that closes audit item A14 (docs/audit_report_round1.md):

  * `notes_injective` (+ corollaries `length_le`, `note_count_le`, `multiset_le`): `quantise` never duplicates a
    message — the output is, up to order, a sub-list of the input with only the `time` field changed, each by at
    most the largest step.  (`C05.displacement` was only `∀ m' ∈ out, ∃ m ∈ a, …`, which a fake output repeating a
    note satisfies.)
  * `no_overlap`: the internal "no overlap" fact (`ble b m.time` in `Q.altT`) exported on the independent
    `notesOf` semantics, per (channel, pitch).
  * `dropped_of_lt'`: `C05.dropped_of_lt` without the `a.Nodup` hypothesis.

  `StepsOk steps` (= `steps ≠ [] ∧ ∀ s ∈ steps, 0 < s`) excludes the empty list, zero and negative steps; what
  the model and the real code do there is recorded at the end of this file.
-/
import SCoda.Lemmas.Strong589LQ
namespace SCoda.Strong589
open SCoda SCoda.C05 SCoda.Strong589LQ

/-- **no message is duplicated** (closes audit item A14): on a well-formed, time-sorted input the result of
    `quantise` is, up to order, a sub-list `kept` of the input in which only the `time` field of each message was
    changed, by at most the largest step.  Covers note and non-note messages alike. -/
theorem notes_injective (steps : List Int) (hs : StepsOk steps) (a out : List Msg) (hsorted : TimeSorted a)
    (hwf : WF a) (h : quantise steps a = .ok out) :
    ∃ kept q, kept.Sublist a ∧ out.Perm q ∧ Retimed (maxStep steps) kept q :=
  quantise_retimed hs hsorted hwf h

/-- the result has at most as many messages as the input (corollary of `notes_injective`; closes audit item A14) -/
theorem length_le (steps : List Int) (hs : StepsOk steps) (a out : List Msg) (hsorted : TimeSorted a)
    (hwf : WF a) (h : quantise steps a = .ok out) : out.length ≤ a.length := by
  obtain ⟨kept, q, h1, h2, h3⟩ := notes_injective steps hs a out hsorted hwf h
  rw [h2.length_eq, retimed_length h3]
  exact h1.length_le

/-- the result has at most as many note messages as the input (corollary of `notes_injective`; closes audit
    item A14) -/
theorem note_count_le (steps : List Int) (hs : StepsOk steps) (a out : List Msg) (hsorted : TimeSorted a)
    (hwf : WF a) (h : quantise steps a = .ok out) : (out.filter Msg.isNote).length ≤ (a.filter Msg.isNote).length := by
  obtain ⟨kept, q, h1, h2, h3⟩ := notes_injective steps hs a out hsorted hwf h
  rw [(h2.filter _).length_eq, retimed_length (retimed_filter _ isNote_retime h3)]
  exact (h1.filter _).length_le

/-- multiset bound (closes audit item A14): with the time field erased (`Q.zt`), every message occurs in the
    result at most as often as in the input — the output messages map injectively to input messages -/
theorem multiset_le (steps : List Int) (hs : StepsOk steps) (a out : List Msg) (hsorted : TimeSorted a)
    (hwf : WF a) (h : quantise steps a = .ok out) :
    ∀ x, (out.map Q.zt).count x ≤ (a.map Q.zt).count x := by
  obtain ⟨kept, q, h1, h2, h3⟩ := notes_injective steps hs a out hsorted hwf h
  intro x
  rw [(h2.map _).count_eq, retimed_map_zt h3]
  exact (h1.map _).count_le x

/-- **no overlap** (closes audit item A14): in the result, two notes of the same channel and the same pitch never
    overlap — the later one (in the order of `notesOf`, i.e. of their note-offs) starts at or after the end of the
    earlier one.  The key is the pair (channel, pitch): the same pitch on another channel is a different key and
    is not constrained. `notesOf` is the independent reading of `Model/Roll.lean`. -/
theorem no_overlap (steps : List Int) (a out : List Msg) (hwf : WF a) (h : quantise steps a = .ok out) :
    (notesOf out).Pairwise (fun n1 n2 => n1.ch = n2.ch → n1.pitch = n2.pitch → n1.off ≤ n2.on) :=
  no_overlap_any hwf h

/-- **only then**, without `a.Nodup` (closes audit item A14): an isolated note of positive length whose end has no
    grid position after its quantised start is dropped — no note event of its key remains within one largest step
    of it.  Same as `C05.dropped_of_lt` with the hypothesis `a.Nodup` removed. -/
theorem dropped_of_lt' (steps : List Int) (hs : StepsOk steps) (a out : List Msg) (hok : OkAbs a) (hwf : WF a)
    (h : quantise steps a = .ok out) (on off : Msg) (hi : Isolated steps a on off)
    (hlt : on.time < off.time)
    (hnoroom : ∀ p ∈ possiblePositions steps off.time, p ≤ qOn steps on) :
    ∀ m ∈ out, m.nkey = on.nkey → (m.ty = .noteOn ∨ m.ty = .noteOff) →
      m.time + maxStep steps ≤ on.time ∨ off.time + maxStep steps ≤ m.time :=
  dropped_core' hs hok hwf h hi hlt hnoroom

/-! ### the audit's fake output is excluded by the conclusions -/

def fakeIn : List Msg := [Msg.mkOn 0 60 64 1, Msg.mkOff 0 60 5]
def fakeOut : List Msg := [Msg.mkOn 0 60 64 0, Msg.mkOff 0 60 5, Msg.mkOn 0 60 64 5, Msg.mkOff 0 60 10]

example : quantise [6, 5] fakeIn = .ok [Msg.mkOn 0 60 64 0, Msg.mkOff 0 60 5] := by rfl
example : ¬ (fakeOut.length ≤ fakeIn.length) := by decide
example : ¬ ((fakeOut.filter Msg.isNote).length ≤ (fakeIn.filter Msg.isNote).length) := by decide
example : ¬ ∀ x, (fakeOut.map Q.zt).count x ≤ (fakeIn.map Q.zt).count x := by
  intro H
  have := H (Q.zt (Msg.mkOn 0 60 64 0))
  revert this
  decide
example : ¬ ∃ kept q, kept.Sublist fakeIn ∧ fakeOut.Perm q ∧ Retimed (maxStep [6, 5]) kept q := by
  rintro ⟨kept, q, h1, h2, h3⟩
  have e1 := retimed_length h3
  have e2 := h1.length_le
  have e3 := h2.length_eq
  simp only [fakeIn, fakeOut, List.length_cons, List.length_nil] at e2 e3
  omega

/-! ### non-vacuity: a non-trivial input satisfying all hypotheses, conclusions evaluated on it
    (steps `[12]`; pitch 60 sounds on channels 0 and 1 at the same time; two abutting notes of key (0, 60);
    the short note (0, 62) 7..8 collapses and is dropped; a control change is kept) -/

def exB : List Msg := [Msg.mkOn 0 60 64 1, Msg.mkOn 1 60 70 2, Msg.mkOn 0 62 64 7, Msg.mkOff 0 62 8,
  { ty := .controlChange, ch := 0, time := 9, vel := 1, ctl := 1 }, Msg.mkOff 0 60 11, Msg.mkOn 0 60 50 11,
  Msg.mkOff 1 60 13, Msg.mkOff 0 60 14]
def exBout : List Msg := [Msg.mkOn 0 60 64 0, Msg.mkOn 1 60 70 0,
  { ty := .controlChange, ch := 0, time := 12, vel := 1, ctl := 1 }, Msg.mkOff 0 60 12, Msg.mkOn 0 60 50 12,
  Msg.mkOff 1 60 12, Msg.mkOff 0 60 24]

theorem exB_steps : StepsOk [12] := ⟨by simp, by intro s hs'; simp at hs'; omega⟩
theorem exB_sorted : TimeSorted exB := by simp [TimeSorted, exB, Msg.mkOn, Msg.mkOff]
theorem exB_wf : WF exB := by
  intro k
  simp only [altFrom, exB, Msg.mkOn, Msg.mkOff, Msg.nkey]
  by_cases h0 : ((0 : Int), (60 : Int)) = k
  · subst h0; simp
  · by_cases h1 : ((1 : Int), (60 : Int)) = k
    · subst h1; simp
    · by_cases h2 : ((0 : Int), (62 : Int)) = k
      · subst h2; simp
      · simp [h0, h1, h2]
theorem exB_q : quantise [12] exB = .ok exBout := by rfl
example : [Msg.mkOn 0 60 64 1, Msg.mkOn 1 60 70 2,
    { ty := .controlChange, ch := 0, time := 9, vel := 1, ctl := 1 }, Msg.mkOff 0 60 11, Msg.mkOn 0 60 50 11,
    Msg.mkOff 1 60 13, Msg.mkOff 0 60 14].Sublist exB ∧ Retimed (maxStep [12]) [Msg.mkOn 0 60 64 1, Msg.mkOn 1 60 70 2,
    { ty := .controlChange, ch := 0, time := 9, vel := 1, ctl := 1 }, Msg.mkOff 0 60 11, Msg.mkOn 0 60 50 11,
    Msg.mkOff 1 60 13, Msg.mkOff 0 60 14] exBout := by decide
example : notesOf exBout = [⟨0, 60, 0, 12, 64⟩, ⟨1, 60, 0, 12, 70⟩, ⟨0, 60, 12, 24, 50⟩] := by decide
example : (notesOf exBout).Pairwise (fun n1 n2 => n1.ch = n2.ch → n1.pitch = n2.pitch → n1.off ≤ n2.on) :=
  no_overlap [12] exB exBout exB_wf exB_q
example : quantise [12] C05.ex2 = .ok C05.ex2 := by rfl
example : notesOf C05.ex2 = [⟨0, 60, 0, 24, 64⟩, ⟨1, 60, 0, 24, 64⟩] := by decide

/-- `notes_injective` applied to `exB` -/
example : ∃ kept q, kept.Sublist exB ∧ exBout.Perm q ∧ Retimed (maxStep [12]) kept q :=
  notes_injective [12] exB_steps exB exBout exB_sorted exB_wf exB_q
example : exBout.length ≤ exB.length := length_le [12] exB_steps exB exBout exB_sorted exB_wf exB_q

/-! `dropped_of_lt'` on an input with a repeated message (`¬ a.Nodup`): the note 7..8 with steps `[12]` has its
    onset moved to 12 and no grid position of its end after that -/
def exD : List Msg := [{ ty := .controlChange, ch := 0, time := 3, vel := 1, ctl := 1 },
  { ty := .controlChange, ch := 0, time := 3, vel := 1, ctl := 1 }, Msg.mkOn 0 60 64 7, Msg.mkOff 0 60 8]
example : ¬ exD.Nodup := by decide
example : quantise [12] exD = .ok [{ ty := .controlChange, ch := 0, time := 0, vel := 1, ctl := 1 },
  { ty := .controlChange, ch := 0, time := 0, vel := 1, ctl := 1 }] := by rfl
example : Isolated [12] exD (Msg.mkOn 0 60 64 7) (Msg.mkOff 0 60 8) := by constructor <;> decide
example : OkAbs exD ∧ WF exD := by
  refine ⟨⟨by simp [TimeSorted, exD, Msg.mkOn, Msg.mkOff], by simp [NonNegTimes, exD, Msg.mkOn, Msg.mkOff],
    by decide⟩, ?_⟩
  intro k
  simp only [altFrom, exD, Msg.mkOn, Msg.mkOff, Msg.nkey]
  by_cases hk : ((0 : Int), (60 : Int)) = k <;> simp [hk]
example : ∀ p ∈ possiblePositions [12] (Msg.mkOff 0 60 8).time, p ≤ qOn [12] (Msg.mkOn 0 60 64 7) := by decide

/-! ### why `WF a` is needed: on an ill-formed input (a key re-triggered while open) the code fabricates a
    note-off that is no input message (absolute_sequence.py:229-235); the real code returns the same three messages -/
example : quantise [4] [Msg.mkOn 0 60 64 0, Msg.mkOn 0 60 64 8] =
    .ok [Msg.mkOn 0 60 64 0, Msg.mkOff 0 60 8, Msg.mkOn 0 60 64 8] := by rfl

/-! ### the points excluded by `StepsOk` (empty list, step 0, negative steps)

  Real code (`/repo/scoda/sequences/absolute_sequence.py:184-293`, run with /venv/bin/python on
  `fakeIn = [on(0,60,v64)@1, off(0,60)@5]`, on `exB` and on `[cc@5]`) against the model:
  * `steps = []`  : Python raises `IndexError` (`valid_positions[0]` on an empty list, l.227) on every non-empty
                    well-formed input; the model returns `.error .indexError` — they agree (both return `[]` on the
                    empty input).
  * `steps = [0]` : Python raises `ZeroDivisionError` (l.218); the model returns `.ok …` with every message on
                    tick 0 (Lean's `t / 0 = 0`) — they DIVERGE (`possiblePositions`, Model/Quantise.lean).
  * `steps = [-4]`: Python returns `[on@0, off@4]` on `fakeIn` and `[cc@4]` on `[cc@5]`, and so does the model, but
                    on `exB` they DIVERGE (Python `//` floors, Lean's `Int` division is Euclidean: for `t = 7`
                    Python's candidates are `8, 4`, the model's `4, 0`).
  The conclusion of `notes_injective` is false of the model at `[0]` and `[-4]` (the displacement bound, below);
  `no_overlap` needs no hypothesis on the steps. -/
example : quantise [] fakeIn = .error .indexError := by rfl
example : quantise [] [] = .ok [] := by rfl
example : quantise [0] fakeIn = .ok [] := by rfl
example : quantise [-4] fakeIn = .ok [Msg.mkOn 0 60 64 0, Msg.mkOff 0 60 4] := by rfl
example : possiblePositions [-4] 7 = [4, 0] := by decide

def ccAt (t : Int) : Msg := { ty := .controlChange, ch := 0, time := t, vel := 1, ctl := 1 }
example : quantise [0] [ccAt 5] = .ok [ccAt 0] := by rfl
example : quantise [-4] [ccAt 5] = .ok [ccAt 4] := by rfl
example : ¬ ∃ kept q, kept.Sublist [ccAt 5] ∧ [ccAt 0].Perm q ∧ Retimed (maxStep [0]) kept q := by
  rintro ⟨kept, q, h1, h2, h3⟩
  obtain ⟨m, hm, _, hb⟩ := retimed_mem h3 (ccAt 0) (h2.subset (by simp))
  have := h1.subset hm
  simp only [List.mem_singleton] at this
  subst this
  revert hb
  decide
example : ¬ ∃ kept q, kept.Sublist [ccAt 5] ∧ [ccAt 4].Perm q ∧ Retimed (maxStep [-4]) kept q := by
  rintro ⟨kept, q, h1, h2, h3⟩
  obtain ⟨m, hm, _, hb⟩ := retimed_mem h3 (ccAt 4) (h2.subset (by simp))
  have := h1.subset hm
  simp only [List.mem_singleton] at this
  subst this
  revert hb
  decide

end SCoda.Strong589
