/-
  Audit round 4, item C6: `AbsTie2.equalsAbs_eq` concludes `∃ h', …` with `h'` unconstrained although its docstring says "only adds
  objects".  Here the stronger statement: the final heap EXTENDS the initial one (`h' = h ++ x`, as `AbsTie2.interleaved_eq` states it
  for `get_interleaved_message_pairings`), with the consequences spelt out: every old cell keeps its position and content, every
  sequence of old references reads as before.
-/
import SCoda.Props.AbsTie2
import SCoda.Lemmas.AbsTie2LG
namespace SCoda.AbsTie2G
open SCoda SCoda.Gen.Abs2 SCoda.AbsTie2L SCoda.AbsTie2

/-- **`equals` only adds objects** (closes audit round 4 C6 for `AbsTie2.equalsAbs_eq`): the generated `equals` returns the model's
    Boolean and the two sorted reference lists, and the heap it returns is the initial heap with message objects APPENDED (those the
    two calls of `get_interleaved_message_pairings` create: imputed note-offs); no existing object is moved or changed.
    Hypotheses as `equalsAbs_eq`: references point into the heap, no channel `None`. -/
theorem equalsAbs_eq_grows (h : Heap) (self other : List Nat) (f : EqFlags)
    (hs : RefsOk h self) (ho : RefsOk h other) (hc : HeapChOk h) :
    ∃ x, Gen.Abs2.equals h self other f.ignoreCh f.ignoreTs f.ignoreKs f.ignoreVel
      = .ok (h ++ x, sortRefs h self, sortRefs h other, SCoda.equalsAbs Gen.ppqn f (deref h self) (deref h other)) :=
  equals_spec_grows h self other f.ignoreCh f.ignoreTs f.ignoreKs f.ignoreVel hs ho hc

/-- the same in the words of the task: same cells at the old positions -/
theorem equalsAbs_old_cells (h : Heap) (self other : List Nat) (f : EqFlags)
    (hs : RefsOk h self) (ho : RefsOk h other) (hc : HeapChOk h) :
    ∃ h', Gen.Abs2.equals h self other f.ignoreCh f.ignoreTs f.ignoreKs f.ignoreVel
      = .ok (h', sortRefs h self, sortRefs h other, SCoda.equalsAbs Gen.ppqn f (deref h self) (deref h other))
      ∧ h.length ≤ h'.length ∧ (∀ i, i < h.length → h'[i]? = h[i]?) ∧ (∀ i, i < h.length → hGet h' i = hGet h i)
      ∧ ∀ refs, RefsOk h refs → deref h' refs = deref h refs ∧ sortRefs h' refs = sortRefs h refs := by
  obtain ⟨x, hx⟩ := equalsAbs_eq_grows h self other f hs ho hc
  refine ⟨h ++ x, hx, by simp, ?_, ?_, ?_⟩
  · intro i hi; exact List.getElem?_append_left hi
  · intro i hi; unfold hGet; simp [List.getD, List.getElem?_append_left hi]
  · intro refs hr; exact ⟨deref_append_heap h x refs hr, sortRefs_ext h x refs hr⟩

/-- `equalsAbs_eq` follows -/
example (h : Heap) (self other : List Nat) (f : EqFlags) (hs : RefsOk h self) (ho : RefsOk h other) (hc : HeapChOk h) :
    ∃ h', Gen.Abs2.equals h self other f.ignoreCh f.ignoreTs f.ignoreKs f.ignoreVel
      = .ok (h', sortRefs h self, sortRefs h other, SCoda.equalsAbs Gen.ppqn f (deref h self) (deref h other)) := by
  obtain ⟨x, hx⟩ := equalsAbs_eq_grows h self other f hs ho hc
  exact ⟨_, hx⟩

/-- non-vacuity, with a heap that really grows: `self` = an unclosed note-on (its note-off is imputed: one NEW object), `other` = the
    same note closed; the three hypotheses hold, the returned heap is the old one with one message appended -/
def exH : Heap := [{ ty := .noteOn, ch := 1, time := 0, note := 60, vel := 90 },
  { ty := .noteOn, ch := 1, time := 0, note := 60, vel := 90 }, { ty := .noteOff, ch := 1, time := 24, note := 60 }]

example : RefsOk exH [0] ∧ RefsOk exH [2, 1] ∧ HeapChOk exH := by decide

example : (Gen.Abs2.equals exH [0] [2, 1] false false false false).map (fun r => (r.1.take 3 == exH, r.1.length, r.2.1, r.2.2.1, r.2.2.2))
    = .ok (true, 4, [0], [1, 2], true) := by decide +kernel

end SCoda.AbsTie2G

