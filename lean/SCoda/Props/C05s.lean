/-
  C05 for the source REPAIRED for finding D41 (fix_D41.diff: `self.normalise_absolute()` at the start of
  `AbsoluteSequence.quantise`).

  `quantiseS steps a = quantise steps (sortAbs a)` (Model/QuantiseS.lean) is the model of the repaired method; `quantise` is the
  walk over a given order (Model/Quantise.lean, the whole of the unrepaired method).  Every theorem of Props/C05.lean, Props/C05b.lean
  and Props/Strong589Q.lean is restated here about `quantiseS`, with the hypotheses on the CANONICAL order `sortAbs a` of the stored
  messages — never on the stored order itself.  In particular well-formedness (`WF`: the note-ons and note-offs of every key
  alternate) is asked of `sortAbs a`: a `Sequence` keeps its absolute view time-sorted (`OkAbs a`), but the messages of ONE tick are
  stored in the order they were entered (`add_absolute_message` is an insort by time only), so `WF a` may fail where the timed events
  are perfectly well-formed.  That is the D41 input (`d41` below): `OkAbs d41`, `WF (sortAbs d41)`, `¬ WF d41`.

  * `d41_hyps`, the `example`s after it: the D41 input satisfies the new hypotheses; the repaired function keeps its second note
    [48,100) (kernel-checked evaluation).
  * `quantise_stored_order_statement_false` (negative control): the same statement about the UNREPAIRED function — plain `quantise`
    on the stored order, hypotheses on the canonical order — is false, refuted by the D41 input: its result contains a fabricated
    note-off and ends the second note at 52.
-/
import SCoda.Props.C05b
import SCoda.Props.Strong589Q
import SCoda.Model.QuantiseS
import SCoda.Lemmas.Sort
namespace SCoda.C05s
open SCoda SCoda.C05 SCoda.Strong589LQ

/-! ### the canonical order -/

/-- what `Sequence` keeps true of its absolute view (`OkAbs`) survives sorting: if the stored list is legal, so is its canonical order -/
theorem okAbs_sorted {a : List Msg} (ha : OkAbs a) : OkAbs (sortAbs a) :=
  ⟨sortAbs_timeSorted a, fun m hm => ha.2.1 m ((mem_sortAbs a m).1 hm), fun m hm => ha.2.2 m ((mem_sortAbs a m).1 hm)⟩

/-- `Isolated` speaks of membership and ticks only: it holds of the stored list iff it holds of its canonical order -/
theorem isolated_sorted {steps : List Int} {a : List Msg} {on off : Msg} :
    Isolated steps (sortAbs a) on off ↔ Isolated steps a on off := by
  constructor
  · intro h
    exact ⟨(mem_sortAbs a on).1 h.onMem, (mem_sortAbs a off).1 h.offMem, h.onTy, h.offTy, h.key, h.order,
      fun m hm => h.far m ((mem_sortAbs a m).2 hm)⟩
  · intro h
    exact ⟨(mem_sortAbs a on).2 h.onMem, (mem_sortAbs a off).2 h.offMem, h.onTy, h.offTy, h.key, h.order,
      fun m hm => h.far m ((mem_sortAbs a m).1 hm)⟩

/-! ### Props/C05.lean restated -/

/-- the repaired `quantise` never fails when the canonical order of the stored messages is well-formed (C05, clause 1; D41 repaired) -/
theorem total (steps : List Int) (hs : StepsOk steps) (a : List Msg) (hok : OkAbs (sortAbs a)) (hwf : WF (sortAbs a)) :
    ∃ out, quantiseS steps a = .ok out :=
  C05.total steps hs (sortAbs a) hok hwf

/-- **on the grid**: every remaining event of the repaired `quantise` lies on a tick divisible by at least one step size (C05, clause 1) -/
theorem on_grid (steps : List Int) (hs : StepsOk steps) (a out : List Msg) (h : quantiseS steps a = .ok out) :
    ∀ m ∈ out, ∃ s ∈ steps, m.time % s = 0 :=
  C05.on_grid steps hs (sortAbs a) out h

/-- the result of the repaired `quantise` is time-sorted with non-negative ticks; only non-negative ticks and no `wait` are asked of the
    input, in whatever order it is stored (C05, clause 3) -/
theorem sorted_out (steps : List Int) (hs : StepsOk steps) (a out : List Msg) (hok : OkAbs (sortAbs a))
    (h : quantiseS steps a = .ok out) : OkAbs out :=
  C05.sorted_out steps hs (sortAbs a) out hok h

/-- **bounded displacement**: every remaining message is a message of the (stored) input whose time moved by at most the largest step size,
    everything else about it unchanged — well-formedness asked of the canonical order only (C05, clause 2; D41 repaired) -/
theorem displacement (steps : List Int) (hs : StepsOk steps) (a out : List Msg) (hok : OkAbs (sortAbs a)) (hwf : WF (sortAbs a))
    (h : quantiseS steps a = .ok out) :
    ∀ m' ∈ out, ∃ m ∈ a, m' = { m with time := m'.time } ∧ (m'.time - m.time).natAbs ≤ (maxStep steps).toNat := by
  intro m' hm'
  obtain ⟨m, hm, h1, h2⟩ := C05.displacement steps hs (sortAbs a) out hok hwf h m' hm'
  exact ⟨m, (mem_sortAbs a m).1 hm, h1, h2⟩

/-- **non-note events are all kept** by the repaired `quantise` (only their time changes) (C05, clause 4) -/
theorem others_kept (steps : List Int) (hs : StepsOk steps) (a out : List Msg) (h : quantiseS steps a = .ok out) :
    ((nonNotes out).map (fun m => { m with time := 0 })).Perm ((nonNotes a).map (fun m => { m with time := 0 })) :=
  (C05.others_kept steps hs (sortAbs a) out h).trans (((sortAbs_perm a).filter _).map _)

/-- the result of the repaired `quantise` is well-formed whenever the canonical order of the input is (C05, clause 3; D41 repaired) … -/
theorem wf_out (steps : List Int) (hs : StepsOk steps) (a out : List Msg) (hok : OkAbs (sortAbs a)) (hwf : WF (sortAbs a))
    (h : quantiseS steps a = .ok out) : WF out :=
  C05.wf_out steps hs (sortAbs a) out hok hwf h

/-- … and every note of it has positive duration (C05, clause 3) -/
theorem positive_durations (steps : List Int) (hs : StepsOk steps) (a out : List Msg) (hok : OkAbs (sortAbs a)) (hwf : WF (sortAbs a))
    (h : quantiseS steps a = .ok out) :
    ∀ n ∈ notesOf out, n.on < n.off :=
  C05.positive_durations steps hs (sortAbs a) out hok hwf h

/-! ### Props/C05b.lean restated (survival of isolated notes) -/

/-- the statement as first formulated, about the repaired function; false for the same reason as `C05.survives_statement`
    (`Isolated` does not tie the note-off to its note-on), see `survives_statement_false` -/
def survives_statement : Prop :=
  ∀ (steps : List Int) (_hs : StepsOk steps) (a out : List Msg) (_hok : OkAbs (sortAbs a)) (_hwf : WF (sortAbs a))
    (_h : quantiseS steps a = .ok out) (on off : Msg) (_hi : Isolated steps a on off)
    (_hroom : ∃ p ∈ possiblePositions steps off.time, qOn steps on < p),
    { on with time := qOn steps on } ∈ out
    ∧ ∃ t, qOn steps on < t ∧ { off with time := t } ∈ out

/-- **survival** (repaired `quantise`): if some grid position of an isolated note's end lies after its quantised start, the note is in the
    result — its note-on at the quantised onset (pitch, channel, velocity unchanged) and a note-off of its key strictly later.  `OnFirst`
    (the note-off really closes that note-on) is asked of the canonical order (C05, last clause) -/
theorem survives_partial (steps : List Int) (hs : StepsOk steps) (a out : List Msg) (hok : OkAbs (sortAbs a)) (hwf : WF (sortAbs a))
    (h : quantiseS steps a = .ok out) (on off : Msg) (hi : Isolated steps a on off)
    (hp : OnFirst (sortAbs a) on off)
    (hroom : ∃ p ∈ possiblePositions steps off.time, qOn steps on < p) :
    { on with time := qOn steps on } ∈ out
    ∧ ∃ t, qOn steps on < t ∧ { off with time := t } ∈ out :=
  C05.survives_partial steps hs (sortAbs a) out hok hwf h on off (isolated_sorted.2 hi) hp hroom

/-- survival of an isolated note of positive length (repaired `quantise`; C05, last clause) -/
theorem survives_of_lt (steps : List Int) (hs : StepsOk steps) (a out : List Msg) (hok : OkAbs (sortAbs a)) (hwf : WF (sortAbs a))
    (h : quantiseS steps a = .ok out) (on off : Msg) (hi : Isolated steps a on off)
    (hlt : on.time < off.time)
    (hroom : ∃ p ∈ possiblePositions steps off.time, qOn steps on < p) :
    { on with time := qOn steps on } ∈ out
    ∧ ∃ t, qOn steps on < t ∧ { off with time := t } ∈ out :=
  C05.survives_of_lt steps hs (sortAbs a) out hok hwf h on off (isolated_sorted.2 hi) hlt hroom

/-- the statement as first formulated, about the repaired function; false, see `dropped_statement_false` -/
def dropped_statement : Prop :=
  ∀ (steps : List Int) (_hs : StepsOk steps) (a out : List Msg) (_hok : OkAbs (sortAbs a)) (_hwf : WF (sortAbs a))
    (_h : quantiseS steps a = .ok out) (on off : Msg) (_hi : Isolated steps a on off) (_hnd : a.Nodup)
    (_hnoroom : ∀ p ∈ possiblePositions steps off.time, p ≤ qOn steps on),
    ∀ m ∈ out, m.nkey = on.nkey → (m.ty = .noteOn ∨ m.ty = .noteOff) →
      m.time + maxStep steps ≤ on.time ∨ off.time + maxStep steps ≤ m.time

/-- **only then** (repaired `quantise`): if no grid position of its end lies after its quantised start, an isolated note is dropped — no
    note event of its key remains within one largest step of it (messages of `a` distinct; `OnFirst` on the canonical order) (C05, last clause) -/
theorem dropped_partial (steps : List Int) (hs : StepsOk steps) (a out : List Msg) (hok : OkAbs (sortAbs a)) (hwf : WF (sortAbs a))
    (h : quantiseS steps a = .ok out) (on off : Msg) (hi : Isolated steps a on off) (hnd : a.Nodup)
    (hp : OnFirst (sortAbs a) on off)
    (hnoroom : ∀ p ∈ possiblePositions steps off.time, p ≤ qOn steps on) :
    ∀ m ∈ out, m.nkey = on.nkey → (m.ty = .noteOn ∨ m.ty = .noteOff) →
      m.time + maxStep steps ≤ on.time ∨ off.time + maxStep steps ≤ m.time :=
  C05.dropped_partial steps hs (sortAbs a) out hok hwf h on off (isolated_sorted.2 hi) ((sortAbs_perm a).nodup_iff.2 hnd) hp hnoroom

/-- removal of an isolated note of positive length (repaired `quantise`), no distinctness hypothesis (C05, last clause; audit A14) -/
theorem dropped_of_lt (steps : List Int) (hs : StepsOk steps) (a out : List Msg) (hok : OkAbs (sortAbs a)) (hwf : WF (sortAbs a))
    (h : quantiseS steps a = .ok out) (on off : Msg) (hi : Isolated steps a on off)
    (hlt : on.time < off.time)
    (hnoroom : ∀ p ∈ possiblePositions steps off.time, p ≤ qOn steps on) :
    ∀ m ∈ out, m.nkey = on.nkey → (m.ty = .noteOn ∨ m.ty = .noteOff) →
      m.time + maxStep steps ≤ on.time ∨ off.time + maxStep steps ≤ m.time :=
  Strong589.dropped_of_lt' steps hs (sortAbs a) out hok hwf h on off (isolated_sorted.2 hi) hlt hnoroom

theorem cxS_sorted : sortAbs cxS = cxS := by decide
theorem cxD_sorted : sortAbs cxD = cxD := by decide

/-- the counter-example of `C05.survives_statement_false` is stored in canonical order: it refutes the restated statement too -/
theorem survives_statement_false : ¬ survives_statement := by
  intro H
  have hs : StepsOk [6, 4] := ⟨by simp, by intro s hs'; simp at hs'; omega⟩
  have hq : quantiseS [6, 4] cxS = .ok cxS := rfl
  obtain ⟨_, t, ht, hm⟩ := H [6, 4] hs cxS cxS (cxS_sorted ▸ cxS_ok.1) (cxS_sorted ▸ cxS_ok.2) hq _ _ cxS_iso (by decide)
  have hq : qOn [6, 4] (Msg.mkOn 0 60 64 100) = 100 := by decide
  rw [hq] at ht
  simp [cxS, Msg.mkOff, Msg.mkOn, pyNone] at hm
  omega

theorem dropped_statement_false : ¬ dropped_statement := by
  intro H
  have hs : StepsOk [6] := ⟨by simp, by intro s hs'; simp at hs'; omega⟩
  have hq : quantiseS [6] cxD = .ok [Msg.mkOn 0 60 50 0, Msg.mkOff 0 60 30, Msg.mkOn 0 60 64 30,
    { Msg.mkOff 0 60 60 with vel := 0 }] := rfl
  have := H [6] hs cxD _ (cxD_sorted ▸ cxD_ok.1) (cxD_sorted ▸ cxD_ok.2) hq _ _ cxD_iso (by decide) (by decide)
    (Msg.mkOff 0 60 30) (by decide) rfl (Or.inr rfl)
  revert this
  decide

/-! ### Props/Strong589Q.lean restated (no duplication, audit A14) -/

/-- **no message is duplicated or invented** (repaired `quantise`; audit A14, finding D41): when the canonical order of the stored messages
    is well-formed, the result is, up to order, a sub-list `kept` of that canonical order in which only the `time` field of each message was
    changed, by at most the largest step.  Covers note and non-note messages alike. -/
theorem notes_injective (steps : List Int) (hs : StepsOk steps) (a out : List Msg) (hwf : WF (sortAbs a))
    (h : quantiseS steps a = .ok out) :
    ∃ kept q, kept.Sublist (sortAbs a) ∧ out.Perm q ∧ Retimed (maxStep steps) kept q :=
  Strong589.notes_injective steps hs (sortAbs a) out (sortAbs_timeSorted a) hwf h

/-- the result has at most as many messages as the input (repaired `quantise`; audit A14) -/
theorem length_le (steps : List Int) (hs : StepsOk steps) (a out : List Msg) (hwf : WF (sortAbs a))
    (h : quantiseS steps a = .ok out) : out.length ≤ a.length := by
  have := Strong589.length_le steps hs (sortAbs a) out (sortAbs_timeSorted a) hwf h
  rwa [(sortAbs_perm a).length_eq] at this

/-- the result has at most as many note messages as the input (repaired `quantise`; audit A14) -/
theorem note_count_le (steps : List Int) (hs : StepsOk steps) (a out : List Msg) (hwf : WF (sortAbs a))
    (h : quantiseS steps a = .ok out) : (out.filter Msg.isNote).length ≤ (a.filter Msg.isNote).length := by
  have := Strong589.note_count_le steps hs (sortAbs a) out (sortAbs_timeSorted a) hwf h
  rwa [((sortAbs_perm a).filter _).length_eq] at this

/-- multiset bound (repaired `quantise`; audit A14): with the time field erased, every message occurs in the result at most as often as in the
    stored input -/
theorem multiset_le (steps : List Int) (hs : StepsOk steps) (a out : List Msg) (hwf : WF (sortAbs a))
    (h : quantiseS steps a = .ok out) :
    ∀ x, (out.map Q.zt).count x ≤ (a.map Q.zt).count x := by
  intro x
  have := Strong589.multiset_le steps hs (sortAbs a) out (sortAbs_timeSorted a) hwf h x
  rwa [((sortAbs_perm a).map _).count_eq] at this

/-- **no overlap** (repaired `quantise`; audit A14): two notes of the same channel and pitch of the result never overlap -/
theorem no_overlap (steps : List Int) (a out : List Msg) (hwf : WF (sortAbs a)) (h : quantiseS steps a = .ok out) :
    (notesOf out).Pairwise (fun n1 n2 => n1.ch = n2.ch → n1.pitch = n2.pitch → n1.off ≤ n2.on) :=
  Strong589.no_overlap steps (sortAbs a) out hwf h

/-! ### the D41 input -/

/-- the recorded input of finding D41 (harness/props/C05.py `D41_EXAMPLE`): notes 60 [0,50) and [50,100) of channel 0 entered as
    on@0, on@50, off@50, off@100 — `add_absolute_message` keeps that order -/
def d41 : List Msg := [Msg.mkOn 0 60 64 0, Msg.mkOn 0 60 70 50, Msg.mkOff 0 60 50, Msg.mkOff 0 60 100]

theorem d41_sorted : sortAbs d41 = [Msg.mkOn 0 60 64 0, Msg.mkOff 0 60 50, Msg.mkOn 0 60 70 50, Msg.mkOff 0 60 100] := by decide

theorem steps4 : StepsOk [4] := ⟨by simp, by intro s hs'; simp at hs'; omega⟩

/-- the stored order is what `add_absolute_message` leaves: inserting the four messages one by one gives `d41` itself -/
example : d41.foldl insort [] = d41 := by decide

/-- **the D41 input satisfies every hypothesis of the theorems above** — legal steps, a legal (time-sorted) stored view, a legal and
    WELL-FORMED canonical order, distinct messages — although its STORED order is not well-formed (so `C05.total`, `C05.displacement`,
    `Strong589.notes_injective`, … say nothing about it) -/
theorem d41_hyps : StepsOk [4] ∧ OkAbs d41 ∧ OkAbs (sortAbs d41) ∧ WF (sortAbs d41) ∧ d41.Nodup ∧ ¬ WF d41 := by
  have hok : OkAbs d41 := by
    refine ⟨?_, ?_, by decide⟩
    · simp [TimeSorted, d41, Msg.mkOn, Msg.mkOff]
    · simp [NonNegTimes, d41, Msg.mkOn, Msg.mkOff]
  refine ⟨steps4, hok, okAbs_sorted hok, ?_, by decide, ?_⟩
  · rw [d41_sorted]
    intro k
    simp only [altFrom, Msg.mkOn, Msg.mkOff, Msg.nkey]
    by_cases hk : ((0 : Int), (60 : Int)) = k <;> simp [hk]
  · intro h
    have := h (0, 60)
    simp [altFrom, d41, Msg.mkOn, Msg.mkOff, Msg.nkey] at this

/-- the repaired `quantise([4])` on the D41 input: nothing fabricated, the second note (velocity 70) is [48,100) -/
theorem d41_quantiseS :
    quantiseS [4] d41 = .ok [Msg.mkOn 0 60 64 0, Msg.mkOff 0 60 48, Msg.mkOn 0 60 70 48, Msg.mkOff 0 60 100] := by rfl

/-- … read as notes (`notesOf`, the independent semantics of Model/Roll.lean): [0,48) and [48,100) -/
example : (quantiseS [4] d41).map notesOf
    = .ok [{ ch := 0, pitch := 60, on := 0, off := 48, vel := 64 }, { ch := 0, pitch := 60, on := 48, off := 100, vel := 70 }] := by rfl

/-- the conclusions of `notes_injective`, `displacement`, `on_grid`, `wf_out` evaluated on it: the result is the canonical order re-timed
    message by message, each by at most 4 -/
example : Retimed (maxStep [4]) (sortAbs d41) [Msg.mkOn 0 60 64 0, Msg.mkOff 0 60 48, Msg.mkOn 0 60 70 48, Msg.mkOff 0 60 100] := by decide

example : ∃ out, quantiseS [4] d41 = .ok out ∧ WF out ∧ (∀ m ∈ out, m.time % 4 = 0) ∧ ∀ n ∈ notesOf out, n.on < n.off := by
  obtain ⟨hs, _, hok, hwf, _, _⟩ := d41_hyps
  refine ⟨_, d41_quantiseS, wf_out [4] hs d41 _ hok hwf d41_quantiseS, ?_, positive_durations [4] hs d41 _ hok hwf d41_quantiseS⟩
  intro m hm
  obtain ⟨s, hs1, h⟩ := on_grid [4] hs d41 _ d41_quantiseS m hm
  simp at hs1
  subst hs1
  exact h

/-! ### negative control: the unrepaired function -/

/-- the UNREPAIRED `quantise([4])` (the walk over the STORED order) on the D41 input: a note-off is fabricated at 48, the first note's real
    note-off closes the second note at 52, the second note's real note-off is dropped — what /repo does before fix_D41.diff (replayed) -/
theorem d41_quantise_stored :
    quantise [4] d41 = .ok [Msg.mkOn 0 60 64 0, Msg.mkOff 0 60 48, Msg.mkOn 0 60 70 48, Msg.mkOff 0 60 52] := by rfl

example : (quantise [4] d41).map notesOf
    = .ok [{ ch := 0, pitch := 60, on := 0, off := 48, vel := 64 }, { ch := 0, pitch := 60, on := 48, off := 52, vel := 70 }] := by rfl

/-- every message of `k` has its re-timed image in `q` -/
theorem retimed_mem {S : Int} : ∀ {k q : List Msg}, Retimed S k q →
    ∀ m ∈ k, ∃ m' ∈ q, m' = { m with time := m'.time } ∧ (m'.time - m.time).natAbs ≤ S.toNat
  | [], [], _, m, hm => by cases hm
  | [], _ :: _, h, _, _ => h.elim
  | _ :: _, [], h, _, _ => h.elim
  | x :: xs, y :: ys, h, m, hm => by
    obtain ⟨h1, h2, h3⟩ := h
    rcases List.mem_cons.1 hm with rfl | hm
    · exact ⟨y, by simp, h1, h2⟩
    · obtain ⟨m', hm', r⟩ := retimed_mem h3 m hm
      exact ⟨m', by simp [hm'], r⟩

/-- `notes_injective` about the unrepaired function: plain `quantise` on the stored order, the hypotheses (legal stored view, well-formed
    canonical order) as above -/
def quantise_stored_order_statement : Prop :=
  ∀ (steps : List Int) (_hs : StepsOk steps) (a out : List Msg) (_hok : OkAbs a) (_hwf : WF (sortAbs a))
    (_h : quantise steps a = .ok out),
    ∃ kept q, kept.Sublist (sortAbs a) ∧ out.Perm q ∧ Retimed (maxStep steps) kept q

/-- **negative control (finding D41)**: the theorems above do NOT hold of the unrepaired function.  On the D41 input plain `quantise` returns
    four messages, so `kept` would have to be all four input messages, among them the note-off at 100 re-timed by at most 4 — but the result's
    note-offs are at 48 and 52.  (The per-message conclusions of Props/C05.lean — grid, `displacement`, `wf_out`, positive durations — do hold
    of that result, see the `example` below: the fabricated note-off looks like the input's note-off at 50.  It is the injective form of audit
    A14, and the harness's note-level clause, that see the defect.) -/
theorem quantise_stored_order_statement_false : ¬ quantise_stored_order_statement := by
  intro H
  obtain ⟨hs, hok, _, hwf, _, _⟩ := d41_hyps
  obtain ⟨kept, q, hsub, hperm, hret⟩ := H [4] hs d41 _ hok hwf d41_quantise_stored
  have hlen : kept.length = (sortAbs d41).length := by
    rw [← retimed_length hret, ← hperm.length_eq, d41_sorted]; rfl
  have hk : kept = sortAbs d41 := hsub.eq_of_length hlen
  rw [hk, d41_sorted] at hret
  -- the note-off at 100 is kept: some message of the result is that note-off re-timed by at most 4
  obtain ⟨m', hm', h3, hd⟩ := retimed_mem hret (Msg.mkOff 0 60 100) (by simp)
  have hmem := hperm.mem_iff.2 hm'
  have ht : (maxStep [4]).toNat = 4 := by decide
  rw [ht] at hd
  simp only [List.mem_cons, List.not_mem_nil, or_false] at hmem
  rcases hmem with rfl | rfl | rfl | rfl <;> simp [Msg.mkOn, Msg.mkOff] at hd h3

/-- why the per-message statement does not see it: every message of the unrepaired result is an input message moved by at most 4 -/
example : ∀ m' ∈ [Msg.mkOn 0 60 64 0, Msg.mkOff 0 60 48, Msg.mkOn 0 60 70 48, Msg.mkOff 0 60 52],
    ∃ m ∈ d41, m' = { m with time := m'.time } ∧ (m'.time - m.time).natAbs ≤ (maxStep [4]).toNat := by decide

end SCoda.C05s
