/-
  UtilTie — the numeric helpers of scoda/misc/util.py, translated statement by statement from the source
  (tools/py2lean_util.py → Gen/UtilFns.lean, every number a `PyNum` of the int / float tower), are EQUAL to the
  hand transcriptions the C11 theorems are about (Model/PyNumSites.lean), to `findMinimalDistance`
  (Model/Quantise.lean) and `binIndex` (Model/Token.lean); and, for the default arguments, to the tables that
  tools/gen_lean.py obtains by *running* the code (Gen/Settings.lean, Gen/SettingsTyped.lean): those tables are now a
  checked consequence of the translated source instead of a trusted output.

  A semantic edit of util.py changes Gen/UtilFns.lean and breaks a theorem below (tools/test_py2lean_util.sh).
  `Message.equivalent` (scoda/elements/message.py) is translated too (= structural equality of `Msg`).
  Functions without a hand model (`velocity_from_bin`, `digitise_velocity`, `minmax`, `regress`,
  `simple_regression`) get a specification written from independent arithmetic.
-/
import SCoda.Gen.Settings
import SCoda.Gen.SettingsTyped
import SCoda.Lemmas.UtilTieL
import SCoda.Lemmas.Quantise
namespace SCoda.UtilTie
open SCoda SCoda.Util SCoda.PyNum SCoda.UtilTieL

/-! ## 0. what was translated; the settings -/

/-- the translator covered exactly these functions, and these are the defaulted parameters of the source (pinned:
    a changed default changes this list). -/
theorem translated_functions :
    Gen.Util.translated.map (·.1) = ["get_velocity_bins", "bin_velocity", "velocity_from_bin", "digitise_velocity",
      "find_minimal_distance", "get_note_durations", "get_tuplet_durations", "get_dotted_note_durations",
      "get_default_step_sizes", "get_default_note_values", "minmax", "regress", "simple_regression", "Message.equivalent"]
    ∧ Gen.Util.defaults = ["get_velocity_bins(velocity_max=None)", "get_velocity_bins(velocity_bins=None)",
      "bin_velocity(bins=None)", "get_note_durations(base_value=PPQN)", "get_default_step_sizes(upper_bound_shift=0)",
      "get_default_step_sizes(lower_bound_shift=0)"] := by decide

/-- the settings constants the translated module reads are the ones of Gen/Settings.lean (all int-typed). -/
theorem settings_agree :
    Gen.Util.PPQN = .int Gen.ppqn ∧ Gen.Util.VELOCITY_MAX = .int Gen.velocityMax ∧ Gen.Util.VELOCITY_BINS = .int Gen.velocityBins
    ∧ Gen.Util.NOTE_VALUE_UPPER_BOUND = .int Gen.noteValueUpperBound ∧ Gen.Util.NOTE_VALUE_LOWER_BOUND = .int Gen.noteValueLowerBound
    ∧ Gen.Util.DOTTED_ITERATIONS = .int Gen.dottedIterations
    ∧ Gen.Util.VALID_TUPLETS = Gen.validTuplets.map (fun t => (.int t.1, .int t.2)) := by decide

/-! ## 1. the dumped default tables are consequences of the translated source -/

/-- `get_default_step_sizes()`, `get_default_step_sizes(lower_bound_shift=1)`, `get_default_note_values()` and
    `get_velocity_bins(velocity_bins=n)` for n = 1..64, computed by the kernel from the TRANSLATED source in the int / float
    tower, are exactly the tables that gen_lean.py dumped from a run of the real code — values and types (every element
    int-typed).  Turns `Gen/Settings.lean` from trusted output into a checked fact (C11 clause 3, audit A10). -/
theorem default_tables_from_source :
    Gen.Util.getDefaultStepSizes = .ok (Gen.defaultStepSizes.map PyNum.int)
    ∧ Gen.Util.getDefaultStepSizes (lowerBoundShift := .int 1) = .ok (Gen.defaultStepSizesShift1.map PyNum.int)
    ∧ Gen.Util.getDefaultNoteValues = .ok (Gen.defaultNoteValues.map PyNum.int)
    ∧ Gen.velocityBinsTable.all (fun r => Gen.Util.getVelocityBins none (some (.int (r.1 : Int))) == .ok (r.2.map PyNum.int)) = true := by
  decide +kernel

/-- … and the typed tables (value, `type(x) is int`) are the same statement read through `PyNum.tag`. -/
theorem default_tables_typed :
    Gen.Util.getDefaultStepSizes.map (·.map PyNum.tag) = .ok Gen.defaultStepSizesTyped
    ∧ (Gen.Util.getDefaultStepSizes (lowerBoundShift := .int 1)).map (·.map PyNum.tag) = .ok Gen.defaultStepSizesShift1Typed
    ∧ Gen.Util.getDefaultNoteValues.map (·.map PyNum.tag) = .ok Gen.defaultNoteValuesTyped
    ∧ Gen.velocityBinsTableTyped.all (fun r => (Gen.Util.getVelocityBins none (some (.int (r.1 : Int)))).map (·.map PyNum.tag) == .ok r.2) = true := by
  decide +kernel

/-- the check notices a float: the tuplet expression of util.py:171 without its `int(…)` is float-typed, and a table
    with a different value is rejected -/
example : Gen.Util.getDefaultStepSizes ≠ .ok ([24, 12, 6, 16, 8, 5].map PyNum.int) := by decide +kernel
example : Gen.Util.getTupletDurations [.int 24] (.int 3) (.int 2) = .ok [.int 16]
    ∧ PyNum.truediv (PyNum.mul (.int 24) (.int 2)) (.int 3) = .float 16 := by decide +kernel

/-! ## 2. `get_note_durations` -/

/-- generated `get_note_durations` = hand transcription `getNoteDurationsPy` whenever the latter's fuel suffices -/
theorem getNoteDurations_of_py {fuel : Nat} {ub lb base : PyNum} {r : List PyNum}
    (h : getNoteDurationsPy fuel ub lb base = some r) : Gen.Util.getNoteDurations ub lb base = .ok r := by
  rw [getNoteDurations_loops]
  unfold getNoteDurationsPy at h
  have hu := up_fuel_ok base ub
  have hd := down_fuel_ok base lb
  cases h1 : noteDurUpPy base fuel ub with
  | none => simp [h1] at h
  | some a =>
    cases h2 : noteDurDownPy base lb fuel (.int 2) with
    | none => simp [h1, h2] at h
    | some b =>
      simp only [h1, h2, Option.some.injEq] at h
      cases h3 : noteDurUpPy base (whileFuel ub (.int 1) + 1) ub with
      | none => simp [h3] at hu
      | some a' =>
        cases h4 : noteDurDownPy base lb (whileFuel (.int 2) lb + 1) (.int 2) with
        | none => simp [h4] at hd
        | some b' =>
          simp only
          rw [← h, noteDurUpPy_unique base h1 h3, noteDurDownPy_unique base lb h2 h4]

/-- … and the generated function always terminates with a value the hand transcription yields for some fuel -/
theorem getNoteDurations_total (ub lb base : PyNum) :
    ∃ r fuel, Gen.Util.getNoteDurations ub lb base = .ok r ∧ getNoteDurationsPy fuel ub lb base = some r := by
  have hu := up_fuel_ok base ub
  have hd := down_fuel_ok base lb
  cases h3 : noteDurUpPy base (whileFuel ub (.int 1) + 1) ub with
  | none => simp [h3] at hu
  | some a =>
    cases h4 : noteDurDownPy base lb (whileFuel (.int 2) lb + 1) (.int 2) with
    | none => simp [h4] at hd
    | some b =>
      let F := max (whileFuel ub (.int 1) + 1) (whileFuel (.int 2) lb + 1)
      have e : getNoteDurationsPy F ub lb base = some (a ++ b) := by
        unfold getNoteDurationsPy
        rw [noteDurUpPy_mono base _ _ _ h3 F (Nat.le_max_left _ _), noteDurDownPy_mono base lb _ _ _ h4 F (Nat.le_max_right _ _)]
      exact ⟨a ++ b, F, getNoteDurations_of_py e, e⟩

example : Gen.Util.getNoteDurations (.int 2) (.int 8) (.int 24) = .ok ([48, 24, 12, 6, 3].map PyNum.int)
    ∧ getNoteDurationsPy 10 (.int 2) (.int 8) (.int 24) = some ([48, 24, 12, 6, 3].map PyNum.int) := by decide +kernel

/-- float arguments are part of the statement: `get_note_durations(1.5, 4.0, 24)` (checked against the real code by
    tools/diff_py2lean_util.py) -/
example : Gen.Util.getNoteDurations (.float (3 / 2)) (.float 4) (.int 24) = .ok ([36, 12, 6].map PyNum.int) := by decide +kernel

/-! ## 3. `get_tuplet_durations`, `get_dotted_note_durations` -/

theorem getTupletDurations_eq (nds : List PyNum) (rn rd : PyNum) (h : rn.toRat ≠ 0) :
    Gen.Util.getTupletDurations nds rn rd = .ok (getTupletDurationsPy nds rn rd) := by
  unfold Gen.Util.getTupletDurations
  simp only [pyTruediv, h, if_false]
  rw [forIn_spec' _ (fun l st => pure (st ++ l.map (tupletPy · rn rd)))]
  · simp [pure_eq_ok, ok_bind, getTupletDurationsPy]
  · intro b; simp
  · intro a as b; simp [pure_eq_ok, ok_bind, tupletPy]

/-- excluded point `ratio_numerator == 0`: ZeroDivisionError on a non-empty list (the hand model, in exact rationals with
    `x / 0 = 0`, answers zeros), `[]` on the empty list -/
theorem getTupletDurations_zero (nd : PyNum) (nds : List PyNum) (rn rd : PyNum) (h : rn.toRat = 0) :
    Gen.Util.getTupletDurations (nd :: nds) rn rd = .error .zeroDivisionError
    ∧ Gen.Util.getTupletDurations [] rn rd = .ok [] := by
  refine ⟨?_, rfl⟩
  unfold Gen.Util.getTupletDurations
  simp [pyTruediv, h, error_bind, bind, Except.bind]

example : Gen.Util.getTupletDurations ([24, 12, 6].map PyNum.int) (.int 3) (.int 2) = .ok ([16, 8, 4].map PyNum.int) := by decide +kernel

/-- the value filter of one pass of `get_dotted_note_durations` -/
def dottedPass (nds : List PyNum) (it : Int) : List PyNum :=
  nds.filterMap fun nd =>
    let cand := dottedCandidatePy nd it
    if isInteger cand then some (pyint cand) else none

theorem getDottedNoteDurations_int (nds : List PyNum) (n : Int) :
    Gen.Util.getDottedNoteDurations nds (.int n) = .ok (getDottedNoteDurationsPy nds n.toNat) := by
  unfold Gen.Util.getDottedNoteDurations
  simp only [pyRange_int, ok_bind, Int.sub_zero, Int.zero_add]
  rw [forIn_spec (fun a => ∃ k : Nat, a = PyNum.int (k : Int)) _
        (fun l st => pure (st ++ l.flatMap (fun a => dottedPass nds (match a with | .int i => i | .float _ => 0))))]
  · simp only [pure_eq_ok, ok_bind, List.nil_append, getDottedNoteDurationsPy, List.flatMap_map]
    rfl
  · intro b; simp
  · rintro a as b ⟨k, rfl⟩
    rw [forIn_spec' _ (fun l st => pure (st ++ l.filterMap fun nd =>
            let cand := dottedCandidatePy nd (k : Int)
            if isInteger cand then some (pyint cand) else none))]
    · simp [pure_eq_ok, ok_bind, dottedPass]
    · intro b; simp
    · intro nd rest st
      simp only [pyPow_two, ok_bind, pyTruediv_ne _ _ (powInt_two_ne k)]
      by_cases hc : (dottedCandidatePy nd (k : Int)).isInteger = true
      · have hc' : (nd.mul ((int 1).add ((int 1).sub ((int 1).truediv (powInt 2 (↑k + 1)))))).isInteger = true := hc
        simp [hc, hc', pure_eq_ok, ok_bind, dottedCandidatePy]
      · have hc' : ¬ (nd.mul ((int 1).add ((int 1).sub ((int 1).truediv (powInt 2 (↑k + 1)))))).isInteger = true := hc
        simp [hc, hc', pure_eq_ok, ok_bind]
  · intro a ha
    simp only [List.mem_map, List.mem_range] at ha
    obtain ⟨k, _, rfl⟩ := ha
    exact ⟨k, rfl⟩

theorem getDottedNoteDurations_float (nds : List PyNum) (q : Rat) :
    Gen.Util.getDottedNoteDurations nds (.float q) = .error .typeError := rfl

example : Gen.Util.getDottedNoteDurations ([24, 12, 6, 3].map PyNum.int) (.int 2) = .ok ([36, 18, 9, 42, 21].map PyNum.int) := by
  decide +kernel

/-! ## 4. velocity bins -/

theorem getVelocityBins_int (vmax n : Int) (hn : n ≠ 0) :
    Gen.Util.getVelocityBins (some (.int vmax)) (some (.int n)) = .ok (getVelocityBinsPy vmax n.toNat) := by
  unfold Gen.Util.getVelocityBins
  simp only [pure_eq_ok, ok_bind, pyTruediv_ne _ _ (int_toRat_ne n hn), pyRange_int, pyTruediv_two, Int.sub_zero, Int.zero_add,
    mapM_ok, List.map_map]
  unfold getVelocityBinsPy
  by_cases hpos : 0 < n
  · have : ((n.toNat : Nat) : Int) = n := Int.toNat_of_nonneg (le_of_lt hpos)
    simp only [this]
    rfl
  · have : n.toNat = 0 := by omega
    simp [this]

/-- `velocity_bins = 0` (excluded above): the real code raises ZeroDivisionError, the hand model answers `[]` -/
theorem getVelocityBins_zero (vmax : Int) :
    Gen.Util.getVelocityBins (some (.int vmax)) (some (.int 0)) = .error .zeroDivisionError := rfl

example : Gen.Util.getVelocityBins (some (.int 127)) (some (.int 4)) = .ok ([48, 80, 112, 127].map PyNum.int) := by decide +kernel

theorem binVelocity_sorted (v : Int) (bins : List Int) (h : bins.Pairwise (· ≤ ·)) :
    Gen.Util.binVelocity (.int v) (some (bins.map .int)) = .ok (.int (binIndex bins v : Nat)) := by
  unfold Gen.Util.binVelocity
  simp only [pure_eq_ok, ok_bind, npDigitizeRight, npMonotonicity_sorted bins h, filter_lt_int, binIndex]
  rfl


/-- the full statement without the sortedness hypothesis is false: on DESCENDING bins `np.digitize` counts the bins `≥ x`
    (the hand model `binIndex` counts the bins `< x`), on non-monotonic bins it raises ValueError. -/
def binVelocity_eq_statement : Prop :=
  ∀ (v : Int) (bins : List Int), Gen.Util.binVelocity (.int v) (some (bins.map .int)) = .ok (.int (binIndex bins v : Nat))

theorem binVelocity_eq_statement_false : ¬ binVelocity_eq_statement := by
  intro h
  have := h 3 [10, 5]
  revert this
  decide +kernel

/-- the two excluded behaviours, as the translated code computes them (replayed on the real code: `bin_velocity(3, [10, 5]) == 2`,
    `bin_velocity(3, [1, 5, 2])` raises ValueError) -/
example : Gen.Util.binVelocity (.int 3) (some ([10, 5].map .int)) = .ok (.int 2) ∧ binIndex [10, 5] 3 = 0
    ∧ Gen.Util.binVelocity (.int 3) (some ([1, 5, 2].map .int)) = .error .valueError := by decide +kernel

/-- the default bins: `get_velocity_bins()` as dumped in the table row of `VELOCITY_BINS` -/
def defaultBins : List Int := (Gen.velocityBinsTable.lookup Gen.velocityBins.toNat).getD []

theorem defaultBins_eq : defaultBins = [24, 40, 56, 72, 88, 104, 120, 127] ∧ defaultBins.Pairwise (· ≤ ·)
    ∧ Gen.Util.getVelocityBins none none = .ok (defaultBins.map .int) := by decide +kernel

/-- generated `bin_velocity(v)` with the default bins = `binIndex` of the hand model on the dumped default bins, all int `v`. -/
theorem binVelocity_default (v : Int) : Gen.Util.binVelocity (.int v) none = .ok (.int (binIndex defaultBins v : Nat)) := by
  have h := binVelocity_sorted v defaultBins defaultBins_eq.2.1
  unfold Gen.Util.binVelocity at h ⊢
  simp only [defaultBins_eq.2.2, pure_eq_ok, ok_bind] at h ⊢
  exact h

/-- `bin_size = round(VELOCITY_MAX / VELOCITY_BINS)` is 16 (= round-half-even of 15.875) -/
theorem binSize_eq : pyTruediv Gen.Util.VELOCITY_MAX Gen.Util.VELOCITY_BINS
      = .ok (PyNum.truediv (.int Gen.velocityMax) (.int Gen.velocityBins))
    ∧ PyNum.pyround (PyNum.truediv (.int Gen.velocityMax) (.int Gen.velocityBins)) = .int 16 := by decide +kernel

/-- generated `velocity_from_bin(b)` meets its arithmetic specification `min(VELOCITY_MAX, (b + 1) * 16)`, int-typed, for every
    int `b` (no hand model existed; the spec is written from the docstring: the upper edge of bin `b`, capped). -/
theorem velocityFromBin_spec (b : Int) :
    Gen.Util.velocityFromBin (.int b) = .ok (.int (min Gen.velocityMax ((b + 1) * 16))) := by
  unfold Gen.Util.velocityFromBin
  simp only [binSize_eq.1, binSize_eq.2, ok_bind, pure_eq_ok]
  show Except.ok (PyNum.pyint (PyNum.pymin (.int 127) (.int ((b + 1) * 16)))) = _
  unfold PyNum.pymin
  rw [lt_int]
  by_cases h : (b + 1) * 16 < 127
  · simp only [h, decide_true, if_true, PyNum.pyint]
    have : min Gen.velocityMax ((b + 1) * 16) = (b + 1) * 16 := by unfold Gen.velocityMax; omega
    rw [this]
  · simp only [h, decide_false, Bool.false_eq_true, if_false, PyNum.pyint]
    have : min Gen.velocityMax ((b + 1) * 16) = 127 := by unfold Gen.velocityMax; omega
    rw [this]

example : Gen.Util.velocityFromBin (.int 2) = .ok (.int 48) ∧ Gen.Util.velocityFromBin (.int 7) = .ok (.int 127)
    ∧ Gen.Util.velocityFromBin (.float (1 / 2)) = .ok (.int 24) := by decide +kernel

/-- generated `digitise_velocity(v)`: 0 stays 0, any other int velocity goes to the capped upper edge of the default bin
    that `binIndex` selects.  (Note what this says for v > 127: `binIndex` is 8, the result is `min(127, 144) = 127`.) -/
theorem digitiseVelocity_spec (v : Int) :
    Gen.Util.digitiseVelocity (.int v) =
      .ok (.int (if v = 0 then 0 else min Gen.velocityMax (((binIndex defaultBins v : Nat) + 1) * 16))) := by
  unfold Gen.Util.digitiseVelocity
  have he : pyEq (.int v) (.int 0) = decide (v = 0) := by simp [pyEq, PyNum.toRat]
  by_cases h : v = 0
  · subst h; rfl
  · simp only [he, h, decide_false, Bool.false_eq_true, if_false, binVelocity_default, ok_bind, velocityFromBin_spec, pure_eq_ok]

example : Gen.Util.digitiseVelocity (.int 33) = .ok (.int 32) ∧ Gen.Util.digitiseVelocity (.int 24) = .ok (.int 16)
    ∧ Gen.Util.digitiseVelocity (.int 25) = .ok (.int 32) := by decide +kernel


/-! ## 5b. defaults as functions -/

/-! ## 6. the default tables as functions of their arguments -/

theorem pyPow_two_int (e : Int) : pyPow (.int 2) (.int e) = .ok (powInt 2 e) := by
  simp [pyPow]

/-- generated `get_default_step_sizes(us, ls)` = hand transcription `getDefaultStepSizesPy` for all int shifts (negative ones
    included: `2 ** -1` is the float 0.5 on both sides), whenever the hand model's fuel suffices. -/
theorem getDefaultStepSizes_of_py {fuel : Nat} (us ls : Int) {r : List PyNum}
    (h : getDefaultStepSizesPy fuel Gen.ppqn us ls = some r) :
    Gen.Util.getDefaultStepSizes (.int us) (.int ls) = .ok r := by
  unfold getDefaultStepSizesPy at h
  unfold Gen.Util.getDefaultStepSizes
  simp only [pyPow_two_int, ok_bind]
  cases hq : getNoteDurationsPy fuel ((int 1).mul (powInt 2 us)) ((int 4).mul (powInt 2 ls)) (int Gen.ppqn) with
  | none => simp [hq] at h
  | some q =>
    simp only [hq, Option.some.injEq] at h
    have hq' : getNoteDurationsPy fuel ((int 1).mul (powInt 2 us)) ((int 4).mul (powInt 2 ls)) Gen.Util.PPQN = some q := hq
    rw [getNoteDurations_of_py hq']
    simp only [ok_bind, getTupletDurations_eq q (.int 3) (.int 2) (by simp [PyNum.toRat]), pure_eq_ok, ← h]

/-- generated `get_default_note_values()` = hand transcription `getDefaultNoteValuesPy` on the generated settings. -/
theorem getDefaultNoteValues_eq :
    (getDefaultNoteValuesPy 10 Gen.ppqn Gen.noteValueUpperBound Gen.noteValueLowerBound Gen.validTuplets
        Gen.dottedIterations.toNat).map Except.ok = some (Gen.Util.getDefaultNoteValues) := by
  decide +kernel

example : getDefaultStepSizesPy 10 Gen.ppqn (-1) 2 = some ([12, 6, 3, 1, 8, 4, 2, 0].map PyNum.int)
    ∧ Gen.Util.getDefaultStepSizes (.int (-1)) (.int 2) = .ok ([12, 6, 3, 1, 8, 4, 2, 0].map PyNum.int) := by decide +kernel

/-! ## 7. `find_minimal_distance` -/

theorem findMinimalDistance_eq (e : Int) (coll : List Int) :
    Gen.Util.findMinimalDistance (.int e) (coll.map .int) = .ok (.int (SCoda.findMinimalDistance e coll : Nat)) := by
  unfold Gen.Util.findMinimalDistance
  simp only [pyEnumerate_eq]
  obtain ⟨st, h1, h2⟩ := fmd_loop e _ rfl coll 0 none .inf (.int 0) ⟨rfl, rfl⟩
  rw [h1]
  simp only [ok_bind, SCoda.findMinimalDistance, ← h2]
  cases st.1 <;> rfl

/-- the generated function meets the independent specification of its docstring: on a non-empty int collection it returns an
    index in range whose element is at minimal distance from `element`, and it is the FIRST such index — every earlier
    element is strictly farther ("ties are broken using the indices, earlier elements will be preferred"). -/
theorem findMinimalDistance_spec (e : Int) (coll : List Int) (h : coll ≠ []) :
    ∃ (i : Nat) (v : Int), Gen.Util.findMinimalDistance (.int e) (coll.map .int) = .ok (.int i) ∧ coll[i]? = some v
      ∧ (∀ w ∈ coll, (v - e).natAbs ≤ (w - e).natAbs)
      ∧ (∀ k, k < i → ∀ w, coll[k]? = some w → (v - e).natAbs < (w - e).natAbs) := by
  obtain ⟨v, hv, hmin⟩ := Q.fmd_spec' e coll h
  exact ⟨_, v, findMinimalDistance_eq e coll, hv, hmin, fun k hk w hw => findMinimalDistance_first e coll v hv k hk w hw⟩

/-- a tie: 6 and 8 are equally close to 7, the earlier index wins -/
example : Gen.Util.findMinimalDistance (.int 7) ([0, 6, 8, 12].map .int) = .ok (.int 1)
    ∧ Gen.Util.findMinimalDistance (.int 7) [] = .ok (.int 0)
    ∧ Gen.Util.findMinimalDistance (.float (13 / 2)) [.int 0, .int 6, .float 7] = .ok (.int 1) := by decide +kernel

/-! ## 8. `minmax`, `regress`, `simple_regression` (no hand models: specifications from independent arithmetic) -/

/-- generated `minmax(lo, hi, v)` is the clamp `max lo (min hi v)` for int arguments with `lo ≤ hi`, int-typed. -/
theorem minmax_spec (lo hi v : Int) (h : lo ≤ hi) :
    Gen.Util.minmax (.int lo) (.int hi) (.int v) = .ok (.int (max lo (min hi v))) := by
  unfold Gen.Util.minmax
  simp only [lt_int, pyGt]
  by_cases h1 : v < lo
  · simp only [h1, decide_true, if_true, pure_eq_ok]
    have : max lo (min hi v) = lo := by omega
    rw [this]
  · by_cases h2 : hi < v
    · simp only [h1, h2, decide_true, decide_false, if_true, Bool.false_eq_true, if_false, pure_eq_ok]
      have : max lo (min hi v) = hi := by omega
      rw [this]
    · simp only [h1, h2, decide_false, Bool.false_eq_true, if_false, pure_eq_ok]
      have : max lo (min hi v) = v := by omega
      rw [this]

/-- without `lo ≤ hi` the clamp reading is false: `minmax(5, 3, 10)` is 3 (the real code agrees), `max 5 (min 3 10)` is 5. -/
def minmax_spec_statement : Prop :=
  ∀ lo hi v : Int, Gen.Util.minmax (.int lo) (.int hi) (.int v) = .ok (.int (max lo (min hi v)))
theorem minmax_spec_statement_false : ¬ minmax_spec_statement := by
  intro h; have := h 5 3 10; revert this; decide +kernel

/-- for all numbers (int or float): the result is one of the three arguments, type included -/
theorem minmax_type (lo hi v : PyNum) :
    Gen.Util.minmax lo hi v = .ok lo ∨ Gen.Util.minmax lo hi v = .ok hi ∨ Gen.Util.minmax lo hi v = .ok v := by
  unfold Gen.Util.minmax
  by_cases h1 : PyNum.lt v lo = true
  · left; simp [h1]; rfl
  · by_cases h2 : pyGt v hi = true
    · right; left; simp [h1, h2]; rfl
    · right; right; simp [h1, h2]; rfl

/-- Horner value of a polynomial with coefficients `cs` (constant term first) -/
def polyEval (x : Rat) : List Rat → Rat
  | [] => 0
  | c :: cs => c + x * polyEval x cs

/-- generated `regress(x, terms)` never raises and its value is the polynomial `Σ terms[k] * x^k` (exact rational value;
    float rounding is not modelled). -/
theorem regress_spec (x : PyNum) (terms : List PyNum) :
    ∃ r, Gen.Util.regress x terms = .ok r ∧ r.toRat = polyEval x.toRat (terms.map PyNum.toRat) := by
  unfold Gen.Util.regress
  simp only []
  have key : ∀ (l : List PyNum) (t r : PyNum),
      ∃ t' r', forIn l (t, r) (fun c (s : PyNum × PyNum) =>
          (pure (ForInStep.yield (s.1.mul x, s.2.add (c.mul s.1))) : Except UErr _)) = .ok (t', r')
        ∧ r'.toRat = r.toRat + t.toRat * polyEval x.toRat (l.map PyNum.toRat) := by
    intro l
    induction l with
    | nil => intro t r; exact ⟨t, r, rfl, by simp [polyEval]⟩
    | cons c cs ih =>
      intro t r
      obtain ⟨t', r', h1, h2⟩ := ih (t.mul x) (r.add (c.mul t))
      refine ⟨t', r', ?_, ?_⟩
      · rw [List.forIn_cons]; simpa [pure_eq_ok, ok_bind, bind, Except.bind] using h1
      · rw [h2, toRat_add, toRat_mul, toRat_mul]; simp only [List.map_cons, polyEval]; ring
  obtain ⟨t', r', h1, h2⟩ := key terms (.int 1) (.int 0)
  refine ⟨r', ?_, ?_⟩
  · rw [h1]; rfl
  · rw [h2]; simp [PyNum.toRat]

example : Gen.Util.regress (.int 2) [.int 1, .int 0, .int 3] = .ok (.int 13)
    ∧ Gen.Util.regress (.float (1 / 2)) [.int 1, .int 4] = .ok (.float 3) := by decide +kernel

/-- generated `simple_regression(x1, y1, x2, y2, v)`: ZeroDivisionError iff `x1 == x2`, otherwise a FLOAT whose exact value is the
    line through the two points (float rounding is not modelled: the real result can differ in the last bits). -/
theorem simpleRegression_spec (x1 y1 x2 y2 v : PyNum) (h : x2.toRat - x1.toRat ≠ 0) :
    ∃ q : Rat, Gen.Util.simpleRegression x1 y1 x2 y2 v = .ok (.float q)
      ∧ q = (y2.toRat - y1.toRat) / (x2.toRat - x1.toRat) * v.toRat
            + (y1.toRat - x1.toRat * ((y2.toRat - y1.toRat) / (x2.toRat - x1.toRat))) := by
  unfold Gen.Util.simpleRegression
  have hne : (PyNum.sub x2 x1).toRat ≠ 0 := by rw [toRat_sub]; exact h
  simp only [pyTruediv_ne _ _ hne, ok_bind, pure_eq_ok]
  refine ⟨_, ?_, rfl⟩
  simp only [PyNum.truediv, toRat_sub]
  cases x1 <;> cases y1 <;> cases v <;> rfl

theorem simpleRegression_zero (x1 y1 x2 y2 v : PyNum) (h : x2.toRat - x1.toRat = 0) :
    Gen.Util.simpleRegression x1 y1 x2 y2 v = .error .zeroDivisionError := by
  unfold Gen.Util.simpleRegression
  have hne : (PyNum.sub x2 x1).toRat = 0 := by rw [toRat_sub]; exact h
  simp [pyTruediv, hne, bind, Except.bind]

/-- the only call site (sequence.py:604, `simple_regression(1, 1, 0, 0.5, velocity / VELOCITY_MAX)`): opacity = 0.5 + 0.5·x -/
example : Gen.Util.simpleRegression (.int 1) (.int 1) (.int 0) (.float (1 / 2)) (.float (100 / 127)) = .ok (.float (227 / 254)) := by
  decide +kernel


/-! ## 9. `Message.equivalent` -/

/-- generated `Message.equivalent(self, other)` (pairwise comparison of `__dict__.values()`, in the order `__init__` stores the
    attributes) is structural equality of the two messages — the `==` on `Msg` that the hand models use; an `other` that is
    not a Message gives False. -/
theorem equivalent_eq (a b : Msg) : Gen.Util.equivalent a (some b) = .ok (decide (a = b)) := by
  obtain ⟨t1, c1, i1, n1, v1, l1, p1, u1, d1, k1⟩ := a
  obtain ⟨t2, c2, i2, n2, v2, l2, p2, u2, d2, k2⟩ := b
  unfold Gen.Util.equivalent
  simp only [Gen.Util.msgDictValues, List.zip_cons_cons, List.zip_nil_right, List.forIn_cons, List.forIn_nil]
  by_cases h1 : t1 = t2 <;> by_cases h2 : c1 = c2 <;> by_cases h3 : i1 = i2 <;> by_cases h4 : n1 = n2 <;> by_cases h5 : v1 = v2 <;>
    by_cases h6 : l1 = l2 <;> by_cases h7 : p1 = p2 <;> by_cases h8 : u1 = u2 <;> by_cases h9 : d1 = d2 <;> by_cases h10 : k1 = k2 <;>
    simp [h1, h2, h3, h4, h5, h6, h7, h8, h9, h10, pure_eq_ok, ok_bind, bind, Except.bind]

/-- an object that is not a Message is never equivalent -/
theorem equivalent_none (a : Msg) : Gen.Util.equivalent a none = .ok false := rfl

example : Gen.Util.equivalent { ty := .noteOn, note := 60, vel := 90, time := 3 } (some { ty := .noteOn, note := 60, vel := 90, time := 3 }) = .ok true
    ∧ Gen.Util.equivalent { ty := .noteOn, note := 60, vel := 90, time := 3 } (some { ty := .noteOn, note := 60, vel := 91, time := 3 }) = .ok false := by
  decide

end SCoda.UtilTie
