/-
  C18 — pad, cut-off, integer scaling and channel assignment do exactly what they say.
  Statements are about the timed events (`eventsRel` / `eventsAbs`) and the duration, i.e. about
  what a user can observe, not about the shape of the message lists.
-/
import SCoda.Model.Normalise
import SCoda.Model.Pairing
import SCoda.Model.Roll
import SCoda.Lemmas.SortC
namespace SCoda.C18
open SCoda

theorem eventsRelGo_append_wait (cur : Int) (l : List Msg) (w : Msg) (hw : w.ty = .wait) :
    eventsRelGo cur (l ++ [w]) = eventsRelGo cur l := by
  induction l generalizing cur with
  | nil => simp [eventsRelGo, hw]
  | cons m ms ih =>
    simp only [List.cons_append, eventsRelGo]
    split
    · exact ih _
    · rw [ih]

theorem totalWait_append_wait (l : List Msg) (w : Msg) (hw : w.ty = .wait) :
    totalWait (l ++ [w]) = totalWait l + w.time := by
  induction l with
  | nil => simp [totalWait, hw]
  | cons m ms ih =>
    simp only [List.cons_append, totalWait, ih]; omega

theorem pad_eq (n : Int) (r : List Msg) :
    pad n r = if (padGo n 0 none r).1 < n then
      r ++ [Msg.mkWait ((padGo n 0 none r).2.getD 0) (n - (padGo n 0 none r).1)] else r := rfl

/-- padding leaves all events untouched -/
theorem pad_events (n : Int) (r : List Msg) : eventsRel (pad n r) = eventsRel r := by
  rw [pad_eq]
  split
  · exact eventsRelGo_append_wait 0 r _ rfl
  · rfl

theorem totalWait_nonneg (l : List Msg) (h : NonNegWaits l) : 0 ≤ totalWait l := by
  induction l with
  | nil => simp [totalWait]
  | cons m ms ih =>
    have h1 : NonNegWaits ms := fun x hx => h x (List.mem_cons_of_mem _ hx)
    have h2 := h m (List.mem_cons_self)
    have := ih h1
    simp only [totalWait]
    split
    · rename_i hw
      have := h2 (by simpa using hw)
      omega
    · omega

theorem padGo_spec (n len : Int) (defCh : Option Int) (l : List Msg) (h : NonNegWaits l) :
    ((padGo n len defCh l).1 < n → (padGo n len defCh l).1 = len + totalWait l)
    ∧ (n ≤ (padGo n len defCh l).1 → n ≤ len + totalWait l) := by
  induction l generalizing len defCh with
  | nil => simp [padGo, totalWait]
  | cons m ms ih =>
    have h1 : NonNegWaits ms := fun x hx => h x (List.mem_cons_of_mem _ hx)
    have h0 := totalWait_nonneg ms h1
    simp only [padGo, totalWait]
    split
    · split
      · simp only []
        omega
      · constructor
        · intro hh; have := (ih _ _ h1).1 hh; omega
        · intro hh; have := (ih _ _ h1).2 hh; omega
    · constructor
      · intro hh; have := (ih _ _ h1).1 hh; omega
      · intro hh; have := (ih _ _ h1).2 hh; omega

/-- and makes the duration max(old duration, n) -/
theorem pad_duration (n : Int) (r : List Msg) (h : NonNegWaits r) :
    durRel (pad n r) = max (durRel r) n := by
  have := padGo_spec n 0 none r h
  rw [pad_eq]
  unfold durRel
  split
  · rw [totalWait_append_wait _ _ rfl]
    simp only [Msg.mkWait]
    omega
  · omega

/-- padding keeps the view legal -/
theorem pad_ok (n : Int) (r : List Msg) (h : OkRel r) : OkRel (pad n r) := by
  rw [pad_eq]
  split
  · rename_i hlt
    refine ⟨?_, ?_⟩
    · intro m hm hw
      rw [List.mem_append] at hm
      rcases hm with hm | hm
      · exact h.1 m hm hw
      · simp only [List.mem_singleton] at hm
        subst hm
        simp only [Msg.mkWait]; omega
    · intro m hm
      rw [List.mem_append] at hm
      rcases hm with hm | hm
      · exact h.2 m hm
      · simp only [List.mem_singleton] at hm
        subst hm
        simp [Msg.mkWait]
  · exact h

def scaleMsg (k : Int) (m : Msg) : Msg := if m.ty == .wait then { m with time := m.time * k } else m

theorem scaleRel_eq_map (k : Int) (r : List Msg) : scaleRel k r = r.map (scaleMsg k) := by
  unfold scaleRel
  split
  · rename_i h
    have hk : k = 1 := by simpa using h
    subst hk
    conv => lhs; rw [← List.map_id r]
    apply List.map_congr_left
    intro m _
    unfold scaleMsg
    split
    · simp only [Int.mul_one, id]
    · rfl
  · rfl

theorem eventsRelGo_scale (k cur : Int) (r : List Msg) :
    eventsRelGo (k * cur) (r.map (scaleMsg k)) =
      (eventsRelGo cur r).map (fun m => { m with time := k * m.time }) := by
  induction r generalizing cur with
  | nil => rfl
  | cons m ms ih =>
    simp only [List.map_cons, eventsRelGo]
    by_cases hw : m.ty = .wait
    · have h1 : (scaleMsg k m).ty = .wait := by simp [scaleMsg, hw]
      have h2 : (scaleMsg k m).time = m.time * k := by simp [scaleMsg, hw]
      simp only [h1, hw, beq_self_eq_true, if_true, h2]
      rw [← ih]
      congr 1
      rw [Int.mul_add, Int.mul_comm k m.time]
    · have h0 : scaleMsg k m = m := by simp [scaleMsg, hw]
      have hb : (m.ty == MType.wait) = false := by simpa using hw
      simp only [h0, hb, Bool.false_eq_true, if_false, List.map_cons, ih]

/-- scaling by an integer k multiplies every onset (hence every duration) by k … -/
theorem scale_events (k : Int) (r : List Msg) :
    eventsRel (scaleRel k r) = (eventsRel r).map (fun m => { m with time := k * m.time }) := by
  rw [scaleRel_eq_map]
  have := eventsRelGo_scale k 0 r
  rw [Int.mul_zero] at this
  exact this

/-- … and the total duration, and changes nothing else -/
theorem scale_duration (k : Int) (r : List Msg) : durRel (scaleRel k r) = k * durRel r := by
  rw [scaleRel_eq_map]
  unfold durRel
  induction r with
  | nil => simp [totalWait]
  | cons m ms ih =>
    simp only [List.map_cons, totalWait, ih]
    by_cases hw : m.ty = .wait
    · simp only [scaleMsg, hw, beq_self_eq_true, if_true, Int.mul_add, Int.mul_comm]
    · have h0 : scaleMsg k m = m := by simp [scaleMsg, hw]
      have hb : (m.ty == MType.wait) = false := by simpa using hw
      simp [h0, hb]

theorem notesGo_map_time (k : Int) (evs opens : List Msg) :
    notesGo (evs.map (fun m => { m with time := k * m.time })) (opens.map (fun m => { m with time := k * m.time })) =
      (notesGo evs opens).map (fun n => { n with on := k * n.on, off := k * n.off }) := by
  induction evs generalizing opens with
  | nil => rfl
  | cons m ms ih =>
    simp only [List.map_cons, notesGo]
    split
    · rw [← ih]
      simp only [List.map_cons, List.filter_map]
      rfl
    · split
      · simp only [List.find?_map]
        have e : ((fun (o : Msg) => o.nkey == Msg.nkey { m with time := k * m.time }) ∘
            fun (m : Msg) => { m with time := k * m.time }) = (fun o => o.nkey == m.nkey) := rfl
        rw [e]
        cases hf : List.find? (fun o => o.nkey == m.nkey) opens with
        | none => simp only [Option.map_none]; exact ih _
        | some o =>
          simp only [Option.map_some, List.map_cons]
          rw [← ih]
          simp only [List.filter_map]
          rfl
      · exact ih _

theorem scale_notes (k : Int) (r : List Msg) (hk : 1 ≤ k) :
    notesOf (eventsRel (scaleRel k r)) =
      (notesOf (eventsRel r)).map (fun n => { n with on := k * n.on, off := k * n.off }) := by
  have _ := hk
  rw [scale_events]
  exact notesGo_map_time k (eventsRel r) []

theorem eventsRelGo_channel (c cur : Int) (r : List Msg) :
    eventsRelGo cur (r.map ({ · with ch := c })) = (eventsRelGo cur r).map (fun m => { m with ch := c }) := by
  induction r generalizing cur with
  | nil => rfl
  | cons m ms ih =>
    simp only [List.map_cons, eventsRelGo]
    split
    · exact ih _
    · simp only [List.map_cons, ih]

/-- assigning a channel changes the channel of every event and nothing else -/
theorem channel_events (c : Int) (r : List Msg) :
    eventsRel (setChannel c r) = (eventsRel r).map (fun m => { m with ch := c }) :=
  eventsRelGo_channel c 0 r

theorem channel_duration (c : Int) (r : List Msg) : durRel (setChannel c r) = durRel r := by
  unfold durRel setChannel
  induction r with
  | nil => rfl
  | cons m ms ih => simp only [List.map_cons, totalWait, ih]

/-- one step of the cut-off loop: a note-off that is paired with a note-on more than `m` ticks
    earlier is moved to `on + r`, any other message is unchanged -/
theorem cutoffGo_spec (m r : Int) (x : Msg) (xs : List Msg) (opens : Assoc (Int × Int) Int) :
    cutoffGo m r (x :: xs) opens =
      (match x.ty, opens.get? x.nkey with
       | .noteOff, some t => if x.time - t > m then { x with time := t + r } else x
       | _, _ => x)
      :: cutoffGo m r xs
          (match x.ty with
           | .noteOn => opens.set x.nkey x.time
           | .noteOff => (match opens.get? x.nkey with | some _ => opens.erase x.nkey | Option.none => opens)
           | _ => opens) := by
  rw [cutoffGo]
  cases hty : x.ty <;> simp only [] <;> cases hg : Assoc.get? opens x.nkey <;> rfl

theorem cutoffGo_cons' (m r : Int) (x : Msg) (xs : List Msg) (opens : Assoc (Int × Int) Int) :
    ∃ x' opens', cutoffGo m r (x :: xs) opens = x' :: cutoffGo m r xs opens' ∧ x'.ty = x.ty
      ∧ (x.ty ≠ .noteOff → x' = x) := by
  refine ⟨_, _, cutoffGo_spec m r x xs opens, ?_, ?_⟩
  · split
    · split <;> simp_all
    · rfl
  · intro h
    split
    · simp_all
    · rfl

theorem cutoffGo_filter (p : Msg → Bool) (hp : ∀ a b : Msg, a.ty = b.ty → p a = p b)
    (hoff : ∀ a : Msg, a.ty = .noteOff → p a = false)
    (m r : Int) (l : List Msg) (opens : Assoc (Int × Int) Int) :
    (cutoffGo m r l opens).filter p = l.filter p := by
  induction l generalizing opens with
  | nil => rfl
  | cons x xs ih =>
    obtain ⟨x', opens', e, hty, hx⟩ := cutoffGo_cons' m r x xs opens
    rw [e]
    simp only [List.filter_cons, ih, hp x' x hty]
    by_cases h : x.ty = .noteOff
    · simp [hoff x h]
    · rw [hx h]

/-- cut-off: the non-note events are untouched (as a multiset; the final sort may permute
    simultaneous ones) and the result is time-sorted -/
theorem cutoff_others (m r : Int) (a : List Msg) :
    (nonNotes (cutoff m r a)).Perm (nonNotes a) := by
  unfold nonNotes cutoff
  refine ((SortC.sortAbs_perm _).filter _).trans ?_
  rw [cutoffGo_filter _ (fun a b h => by simp only [h]) (fun a h => by simp [h])]
  exact (SortC.sortAbs_perm a).filter _

theorem cutoff_note_ons (m r : Int) (a : List Msg) :
    ((cutoff m r a).filter (·.ty == .noteOn)).Perm (a.filter (·.ty == .noteOn)) := by
  unfold cutoff
  refine ((SortC.sortAbs_perm _).filter _).trans ?_
  rw [cutoffGo_filter _ (fun a b h => by simp only [h]) (fun a h => by simp [h])]
  exact (SortC.sortAbs_perm a).filter _

theorem cutoff_sorted (m r : Int) (a : List Msg) : TimeSorted (cutoff m r a) :=
  SortC.sortAbs_timeSorted _

/-! non-vacuity -/
example : durRel (pad 96 [Msg.mkOn 0 60 64 pyNone, Msg.mkWait 0 24, Msg.mkOff 0 60 pyNone]) = 96 := by
  decide
example : eventsRel (scaleRel 2 [Msg.mkWait 0 6, Msg.mkOn 0 60 64 pyNone, Msg.mkWait 0 24, Msg.mkOff 0 60 pyNone])
    = [Msg.mkOn 0 60 64 12, Msg.mkOff 0 60 60] := by
  decide

end SCoda.C18
