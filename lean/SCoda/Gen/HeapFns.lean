/- GENERATION FAILED: Untranslatable: Bar.__init__: store into self.default_channel (a Bar) -/
#eval ("generation failed" : Nat)
