/- GENERATION FAILED: Untranslatable: subscript of a non-table -/
#eval ("generation failed" : Nat)
