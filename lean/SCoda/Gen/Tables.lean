/- GENERATION FAILED: AttributeError: type object 'MusicMapping' has no attribute 'key_transpose_mapping' -/
#eval ("generation failed" : Nat)
