/- GENERATION FAILED: Untranslatable: RelativeSequence.to_absolute_sequence: call inside a short-circuited operand -/
#eval ("generation failed" : Nat)
