/-
  Helper lemmas for `Props/Strong589R` (audit item A6(c) / C09, re-quantisation on):
  what the shorten-only note-length quantisation of one bar piece (`requantPiece … true`) does to the *notes* of
  every key — every kept note keeps channel, pitch, velocity and onset, ends no later and has an allowed duration;
  a note whose duration is an allowed value is left alone; the kept notes are a sub-list of the piece's notes.

  The per-key view of `Lemmas/SplitBarsQ.lean` (`qnl_kview`, `chan_kview`: "some notes dropped, the others end
  earlier") is redone here with the choice of the new duration followed through (`ShrunkV`).
-/
import SCoda.Lemmas.Strong589LT
namespace SCoda.Strong589LR
open SCoda SCoda.SplitL SCoda.SB SCoda.BarL SCoda.Strong589L SCoda.Strong589LT

/-! ### `nkNotes` only looks at the events of its key -/

theorem nk_filter (k : Int × Int) (l : List Msg) : ∀ o, nkNotes k (l.filter (isKN k)) o = nkNotes k l o := by
  induction l with
  | nil => intro o; rfl
  | cons m ms ih =>
    intro o
    rcases kev_cases k m with h | h | h
    · have hk : isKN k m = true := (isKN_iff k m).2 ⟨h.1, Or.inl h.2⟩
      rw [List.filter_cons, if_pos hk, nkNotes_cons_on k m _ o h, nkNotes_cons_on k m _ o h, ih]
    · have hk : isKN k m = true := (isKN_iff k m).2 ⟨h.1, Or.inr h.2⟩
      rw [List.filter_cons, if_pos hk, nkNotes_cons_off k m _ o h, nkNotes_cons_off k m _ o h, ih]
    · have hk : ¬ isKN k m = true := fun c => h ((isKN_iff k m).1 c)
      rw [List.filter_cons, if_neg hk, nkNotes_cons_skip k m _ o h, ih]

/-- the note of a pair -/
def noteOfPair (p : Msg × Msg) : Note := mkN p.1 p.2.time

theorem nk_flat (k : Int × Int) (ps : List (Msg × Msg)) : ∀ lo, NicePairs k lo ps →
    nkNotes k (flat ps) none = ps.map noteOfPair := by
  induction ps with
  | nil => intro lo _; rfl
  | cons p rest ih =>
    intro lo hn
    obtain ⟨h1, h2, h3, h4, _, _, h7⟩ := hn
    rw [flat_cons, nkNotes_cons_on k p.1 _ _ ⟨h3, h1⟩, nkNotes_cons_off k p.2 _ _ ⟨h4, h2⟩, ih _ h7]
    rfl

/-- the notes of key `k`, once the `k`-events are known to be a nice list of pairs -/
theorem nk_of_kview (k : Int × Int) (evs : List Msg) (ps : List (Msg × Msg)) (lo : Int) (hn : NicePairs k lo ps)
    (h : evs.filter (isKN k) = flat ps) : nkNotes k evs none = ps.map noteOfPair := by
  rw [← nk_filter, h, nk_flat k ps lo hn]

/-! ### moving the clock -/

def shiftM (c : Int) (m : Msg) : Msg := { m with time := m.time + c }
def shiftN (c : Int) (n : Note) : Note := { n with on := n.on + c, off := n.off + c }

theorem eventsRelGo_shift (l : List Msg) : ∀ (a c : Int),
    eventsRelGo (a + c) l = (eventsRelGo a l).map (shiftM c) := by
  induction l with
  | nil => intro a c; rfl
  | cons m ms ih =>
    intro a c
    by_cases hw : m.ty = .wait
    · rw [eventsRelGo_cons_wait _ m ms hw, eventsRelGo_cons_wait _ m ms hw,
        show a + c + m.time = a + m.time + c by omega, ih]
    · rw [eventsRelGo_cons_nowait _ m ms hw, eventsRelGo_cons_nowait _ m ms hw, ih]
      rfl

theorem nkNotes_shift (k : Int × Int) (c : Int) (l : List Msg) : ∀ o : Option Msg,
    nkNotes k (l.map (shiftM c)) (o.map (shiftM c)) = (nkNotes k l o).map (shiftN c) := by
  induction l with
  | nil => intro o; rfl
  | cons m ms ih =>
    intro o
    rw [List.map_cons]
    rcases kev_cases k m with h | h | h
    · rw [nkNotes_cons_on k (shiftM c m) _ _ h, nkNotes_cons_on k m _ _ h]
      exact ih (some m)
    · rw [nkNotes_cons_off k (shiftM c m) _ _ h, nkNotes_cons_off k m _ _ h, List.map_append]
      have := ih none
      simp only [Option.map_none] at this
      rw [this]
      cases o <;> rfl
    · have h' : ¬ Kev k (shiftM c m) := h
      rw [nkNotes_cons_skip k (shiftM c m) _ _ h', nkNotes_cons_skip k m _ _ h]
      exact ih o

/-- the notes read from clock `c` are the notes read from clock 0, moved by `c` -/
theorem nk_clock (k : Int × Int) (c : Int) (l : List Msg) :
    nkNotes k (eventsRelGo c l) none = (nkNotes k (eventsRel l) none).map (shiftN c) := by
  have h := eventsRelGo_shift l 0 c
  rw [Int.zero_add] at h
  rw [h]
  exact nkNotes_shift k c _ none

theorem shiftN_inj (c : Int) {n m : Note} (h : shiftN c n = shiftN c m) : n = m := by
  cases n; cases m
  simp only [shiftN, Note.mk.injEq] at h ⊢
  omega

/-! ### shorten-only quantisation of the notes of one key, with the chosen duration followed through -/

/-- the pairs of one key before and after: a pair is dropped only when its duration is not an allowed value; a kept
    pair keeps its note-on, and its note-off moves to `on + x` for an allowed value `x` that is not longer than the
    note — and is the note's own duration when that is an allowed value -/
inductive ShrunkV (values : List Int) : List (Msg × Msg) → List (Msg × Msg) → Prop
  | nil : ShrunkV values [] []
  | drop (p : Msg × Msg) (ps ps' : List (Msg × Msg)) : (p.2.time - p.1.time) ∉ values → ShrunkV values ps ps' →
      ShrunkV values (p :: ps) ps'
  | keep (on off : Msg) (x : Int) (ps ps' : List (Msg × Msg)) : x ∈ values → x ≤ off.time - on.time →
      ((off.time - on.time) ∈ values → x = off.time - on.time) → ShrunkV values ps ps' →
      ShrunkV values ((on, off) :: ps) ((on, { off with time := on.time + x }) :: ps')

theorem ShrunkV.shrunk {values : List Int} (hv : ∀ v ∈ values, 0 < v) {ps ps' : List (Msg × Msg)}
    (h : ShrunkV values ps ps') : Shrunk ps ps' := by
  induction h with
  | nil => exact Shrunk.nil
  | drop p ps ps' _ _ ih => exact Shrunk.drop p ps ps' ih
  | keep on off x ps ps' hx hle _ _ ih =>
    have := hv x hx
    exact Shrunk.keep on off _ ps ps' rfl rfl (by simp only; omega) (by simp only; omega) ih

/-- one pairing, when the next note of its pitch in the channel does not start before it ends -/
theorem stepOne_casesV (values : List Int) (ps : List Pairing) (i : Nat) (on off : Msg)
    (hnext : ∀ nt, nextOnset ps i on.note = some nt → off.time ≤ nt) :
    (NL.stepOne values true ps ([on, off], i) = [] ∧ (off.time - on.time) ∉ values) ∨
      ∃ x ∈ values, x ≤ off.time - on.time ∧ ((off.time - on.time) ∈ values → x = off.time - on.time) ∧
        NL.stepOne values true ps ([on, off], i) = [on, { off with time := on.time + x }] := by
  have hcur : (off.time - on.time) ∈ values →
      (off.time - on.time) ∈ validDurations values true on.time off.time (nextOnset ps i on.note) := by
    intro hc
    rw [NL.mem_validDurations]
    refine ⟨hc, ?_, fun _ => Int.le_refl _⟩
    intro nt hnt
    have := hnext nt (by simpa using hnt)
    omega
  simp only [NL.stepOne]
  split
  · rename_i h0
    left
    refine ⟨rfl, ?_⟩
    intro hc
    have := hcur hc
    have h0' : validDurations values true on.time off.time (nextOnset ps i on.note) = [] := by simpa using h0
    rw [h0'] at this
    simp at this
  · rename_i hne
    right
    have hne' : validDurations values true on.time off.time (nextOnset ps i on.note) ≠ [] := by
      intro h0; rw [h0] at hne; simp at hne
    obtain ⟨v, hv, hmem, hmin⟩ := NL.nearest_spec (off.time - on.time) _ hne'
    have hm := (NL.mem_validDurations _ _ _ _ _ _).1 hmem
    refine ⟨v, hm.1, hm.2.2 rfl, ?_, ?_⟩
    · intro hc
      have := hmin _ (hcur hc)
      simp only [Int.sub_self, Int.natAbs_zero, Nat.le_zero, Int.natAbs_eq_zero] at this
      omega
    · simp only [hv]
      have : off.time + (v - (off.time - on.time)) = on.time + v := by omega
      rw [this]

/-- the predicate `nextOnset` searches with -/
def headNote (note : Int) (p : Pairing) : Bool :=
  match p with
  | m :: _ => m.note == note
  | [] => false

theorem nextOnset_eq (ps : List Pairing) (i : Nat) (note : Int) :
    nextOnset ps i note = match (ps.drop (i + 1)).find? (headNote note) with
      | some (m :: _) => some m.time
      | _ => Option.none := rfl

/-- in a channel's list, the next pairing of the pitch is the next pairing of the key -/
theorem next_ge (k : Int × Int) (L : List Pairing) (rest : List (Msg × Msg)) (lo : Int)
    (hhead : ∀ p ∈ L, ∃ m r, p = m :: r ∧ m.ch = k.1) (hn : NicePairs k lo rest)
    (hf : L.filter (isK k) = rest.map pairOf) :
    ∀ nt, (match L.find? (headNote k.2) with | some (m :: _) => some m.time | _ => Option.none) = some nt →
      lo ≤ nt := by
  intro nt h
  cases hfind : L.find? (headNote k.2) with
  | none => rw [hfind] at h; cases h
  | some q =>
    rw [hfind] at h
    have hq := List.mem_of_find?_eq_some hfind
    have hp := List.find?_some hfind
    obtain ⟨m, r, rfl, hch⟩ := hhead q hq
    simp only [Option.some.injEq] at h
    subst h
    have hnote : m.note = k.2 := by simpa [headNote] using hp
    have hk : m.nkey = k := by
      show (m.ch, m.note) = k
      rw [hch, hnote]
    have hisk : isK k (m :: r) = true := by simp [isK, hk]
    have : (m :: r) ∈ L.filter (isK k) := List.mem_filter.2 ⟨hq, hisk⟩
    rw [hf, List.mem_map] at this
    obtain ⟨p, hp', he⟩ := this
    have hm : m = p.1 := by
      simp only [pairOf, List.cons.injEq] at he
      exact he.1.symm
    rw [hm]
    exact (nice_mem k rest lo hn p.1 (mem_flat hp').1).1

theorem chan_kviewV (values : List Int) (k : Int × Int) (src : List Msg)
    (ps0 : List Pairing) (hhead : ∀ p ∈ ps0, ∃ m r, p = m :: r ∧ m.ch = k.1) :
    ∀ (L : List Pairing) (n : Nat) (ps : List (Msg × Msg)) (lo : Int), ps0.drop n = L →
    (∀ p ∈ L, NL.GoodPair src p) → NicePairs k lo ps → L.filter (isK k) = ps.map pairOf →
    ∃ ps', ShrunkV values ps ps' ∧
      (((L.zipIdx n).map (NL.stepOne values true ps0)).flatten).filter (isKN k) = flat ps' := by
  intro L
  induction L with
  | nil =>
    intro n ps lo _ _ _ hf
    cases ps with
    | nil => exact ⟨[], ShrunkV.nil, rfl⟩
    | cons p rest => simp at hf
  | cons p L ih =>
    intro n ps lo hdrop hgood hn hf
    obtain ⟨on, off, hp, hon, hoff, hkeys, _⟩ := hgood p List.mem_cons_self
    subst hp
    have hgood' : ∀ z ∈ L, NL.GoodPair src z := fun z hz => hgood z (List.mem_cons_of_mem _ hz)
    have hdrop' : ps0.drop (n + 1) = L := by
      rw [← List.drop_drop, hdrop]; rfl
    have hheadL : ∀ p ∈ L, ∃ m r, p = m :: r ∧ m.ch = k.1 := by
      intro q hq
      apply hhead q
      have : q ∈ ps0.drop (n + 1) := by rw [hdrop']; exact hq
      exact List.mem_of_mem_drop this
    simp only [List.zipIdx_cons, List.map_cons, List.flatten_cons, List.filter_append]
    by_cases hk : on.nkey = k
    · have hisk : isK k [on, off] = true := by simp [isK, hk]
      rw [List.filter_cons, if_pos hisk] at hf
      cases ps with
      | nil => simp at hf
      | cons q rest =>
        simp only [List.map_cons, List.cons.injEq] at hf
        obtain ⟨hq, hrest⟩ := hf
        obtain ⟨q1, q2⟩ := q
        simp only [pairOf, List.cons.injEq, and_true] at hq
        obtain ⟨rfl, rfl⟩ := hq
        obtain ⟨_, _, _, _, n5, n6, n7⟩ := hn
        obtain ⟨ps', hs', hfl'⟩ := ih (n + 1) rest _ hdrop' hgood' n7 hrest
        have hnext : ∀ nt, nextOnset ps0 n on.note = some nt → off.time ≤ nt := by
          intro nt hnt
          rw [nextOnset_eq, hdrop'] at hnt
          have hnote : on.note = k.2 := by rw [← hk]; rfl
          rw [hnote] at hnt
          exact next_ge k L rest off.time hheadL n7 hrest nt hnt
        rcases stepOne_casesV values ps0 n on off hnext with ⟨h0, hnv⟩ | ⟨x, hx, hxle, hxeq, hs⟩
        · rw [h0]
          exact ⟨ps', ShrunkV.drop _ _ _ hnv hs', by simpa using hfl'⟩
        · rw [hs]
          refine ⟨(on, { off with time := on.time + x }) :: ps', ShrunkV.keep on off x _ _ hx hxle hxeq hs', ?_⟩
          have h1 : isKN k on = true := (isKN_iff k on).2 ⟨hk, Or.inl hon⟩
          have h2 : isKN k { off with time := on.time + x } = true :=
            (isKN_iff k _).2 ⟨by rw [← hk, ← hkeys]; rfl, Or.inr hoff⟩
          rw [List.filter_cons, if_pos h1, List.filter_cons, if_pos h2, List.filter_nil, hfl', flat_cons]
          rfl
    · have hisk : ¬ isK k [on, off] = true := by simp [isK, hk]
      rw [List.filter_cons, if_neg hisk] at hf
      obtain ⟨ps', hs', hfl'⟩ := ih (n + 1) ps lo hdrop' hgood' hn hf
      refine ⟨ps', hs', ?_⟩
      rcases stepOne_cases' values ps0 n on off with h0 | ⟨x, hx, hxle, hs⟩
      · rw [h0]; simpa using hfl'
      · rw [hs]
        have h1 : ¬ isKN k on = true := fun h => hk ((isKN_iff k on).1 h).1
        have h2 : ¬ isKN k { off with time := on.time + x } = true := by
          intro h
          have := ((isKN_iff k _).1 h).1
          apply hk
          rw [← this, ← hkeys]; rfl
        rw [List.filter_cons, if_neg h1, List.filter_cons, if_neg h2, List.filter_nil, List.nil_append]
        exact hfl'

theorem head_closeUnclosed (stdLen : Int) (m : Msg) (r : List Msg) :
    ∃ r', closeUnclosed stdLen true (m :: r) = m :: r' := by
  unfold closeUnclosed
  split
  · rename_i m1 heq
    simp only [List.cons.injEq] at heq
    split
    · exact ⟨_, by rw [heq.1]⟩
    · exact ⟨_, rfl⟩
  · exact ⟨_, rfl⟩

/-- **what shorten-only note-length quantisation does to the `k`-events** of a list whose sorted `k`-events are nice,
    with the chosen durations: `SB.qnl_kview` with `ShrunkV` in place of `Shrunk` -/
theorem qnl_kviewV (values : List Int) (stdLen : Int) (a : List Msg) (k : Int × Int) (ps : List (Msg × Msg))
    (lo : Int) (hv : ∀ v ∈ values, 0 < v) (hn : NicePairs k lo ps)
    (hk : (sortAbs a).filter (isKN k) = flat ps) (out : List Msg)
    (h : quantiseNoteLengths values stdLen true a = .ok out) :
    ∃ ps', ShrunkV values ps ps' ∧ out.filter (isKN k) = flat ps' := by
  rw [NL.quantise_eq] at h
  have hout := (Except.ok.inj h).symm
  clear h
  have hG : NL.Good (sortAbs a) ((sortAbs a).foldl (pairStep notePairTypes true) {}) :=
    NL.fold_good _ _ {} (NL.good_init _) (fun _ h => h)
  have hH := headCh_fold (sortAbs a) {} headCh_init
  have hKV := (fold_kv k (sortAbs a) (sortAbs a) {} [] (NL.good_init _) (fun _ h => h)).1 (KV_init k) ps lo hn hk
  rw [List.nil_append] at hKV
  generalize hsf : (sortAbs a).foldl (pairStep notePairTypes true) {} = sf at hG hH hKV
  have hN : ∃ ps', ShrunkV values ps ps' ∧
      ((pairingsSorted notePairTypes stdLen true (sortAbs a)).flatMap (NL.chanOut values true)).filter (isKN k)
        = flat ps' := by
    have hgoodAll := NL.pairings_good stdLen (sortAbs a)
    unfold pairingsSorted at hgoodAll ⊢
    rw [hsf] at hgoodAll ⊢
    rw [List.filter_flatMap, List.flatMap_map]
    have hmemc : ∀ kv ∈ sf.pairs, ∀ p ∈ kv.2.map (closeUnclosed stdLen true), NL.GoodPair (sortAbs a) p := by
      intro kv hkv p hp
      exact hgoodAll (kv.1, kv.2.map (closeUnclosed stdLen true)) (List.mem_map.2 ⟨kv, hkv, rfl⟩) p hp
    rw [flatMap_assoc sf.pairs _ k.1 hG.knp]
    · cases hget : sf.pairs.get? k.1 with
      | none =>
        unfold KV at hKV
        rw [hget] at hKV
        have : ps.map pairOf = [] := by simpa using hKV.2.symm
        have hps : ps = [] := by simpa using this
        subst hps
        exact ⟨[], ShrunkV.nil, rfl⟩
      | some L =>
        unfold KV at hKV
        rw [hget] at hKV
        simp only [Option.getD_some] at hKV
        have hmem : (k.1, L) ∈ sf.pairs := Assoc.mem_of_get? _ _ _ hget
        simp only [NL.chanOut]
        apply chan_kviewV values k (sortAbs a) (L.map (closeUnclosed stdLen true)) ?_
          (L.map (closeUnclosed stdLen true)) 0 ps lo rfl
        · exact hmemc (k.1, L) hmem
        · exact hn
        · rw [List.filter_map]
          have : (isK k ∘ closeUnclosed stdLen true) = isK k := by
            funext p; exact isK_closeUnclosed k stdLen p
          rw [this, hKV.2, List.map_map]
          apply List.map_congr_left
          intro q _
          rfl
        · intro p hp
          obtain ⟨p0, hp0, rfl⟩ := List.mem_map.1 hp
          obtain ⟨m, r, rfl, hch⟩ := hH k.1 L hget p0 hp0
          obtain ⟨r', hr'⟩ := head_closeUnclosed stdLen m r
          exact ⟨m, r', hr', hch⟩
    · intro kv hkv hne
      rw [List.filter_eq_nil_iff]
      intro m hm hkn
      have hget := NL.get?_of_mem _ kv hG.knp hkv
      have hch := chanOut_ch values stdLen (sortAbs a) kv.1 kv.2 (hmemc kv hkv) (hH kv.1 kv.2 hget) m hm
      have := ((isKN_iff k m).1 hkn).1
      apply hne
      rw [← hch, ← this]; rfl
  obtain ⟨ps', hs', hfl'⟩ := hN
  refine ⟨ps', hs', ?_⟩
  rw [hout, filter_sortAbs, List.filter_append, hfl']
  have hO : ((sortAbs a).filter (fun m => m.ty != .noteOn && m.ty != .noteOff)).filter (isKN k) = [] := by
    rw [List.filter_eq_nil_iff]
    intro m hm hkn
    have h1 := (List.mem_filter.1 hm).2
    rcases ((isKN_iff k m).1 hkn).2 with e | e <;> simp [e] at h1
  rw [hO, List.append_nil]
  exact sortAbs_of_ksorted _ (nice_ksorted k ps' lo (nice_shrunk k (hs'.shrunk hv) lo hn))

/-! ### one piece through `requantPiece … true`, key by key -/

/-- the `k`-events of a piece before and after shorten-only re-quantisation -/
theorem requant_kview (values : List Int) (ppqn : Int) (first piece : List Msg) (hv : ∀ v ∈ values, 0 < v)
    (hw : NonNegWaits first) (hwf : WF first) (hz : NoZeroNotes first)
    (h : requantPiece values ppqn true first = .ok piece) (k : Int × Int) :
    ∃ ps ps', NicePairs k 0 ps ∧ (eventsRel first).filter (isKN k) = flat ps ∧ ShrunkV values ps ps' ∧
      (eventsRel piece).filter (isKN k) = flat ps' := by
  obtain ⟨out, hq⟩ := C06.total values ppqn true (toAbs first)
  simp only [requantPiece, if_true, hq, bind, Except.bind, Except.ok.injEq] at h
  subst h
  have hA := toAbs_mem_facts first hw
  have hmem : ∀ m ∈ out, 0 ≤ m.time ∧ m.ty ≠ .wait := by
    intro m hm
    by_cases hon : m.ty = .noteOn
    · exact ⟨(hA m (C06.onsets_kept values ppqn true _ out hq m hm hon)).1, by rw [hon]; simp⟩
    · by_cases hoff : m.ty = .noteOff
      · obtain ⟨on, hon', hty, _, hd⟩ := C06.durations values ppqn true _ out hq m hm hoff
        have h1 := (hA on (C06.onsets_kept values ppqn true _ out hq on hon' hty)).1
        have h2 := hv _ hd
        exact ⟨by omega, by rw [hoff]; simp⟩
      · have : m ∈ nonNotes out := by
          simp only [nonNotes, List.mem_filter, Bool.and_eq_true, bne_iff_ne, ne_eq]
          exact ⟨hm, hon, hoff⟩
        have := (C06.others_same values ppqn true _ out hq).mem_iff.1 this
        exact hA m (List.mem_filter.1 this).1
  have hsorted : out.Pairwise (fun a b => a.time ≤ b.time) :=
    (timeSorted_iff_pairwise out).1 (C06.sorted_out values ppqn true _ out hq)
  have hev : eventsRel (toRel out) = eventsAbs out :=
    eventsRelGo_toRelGo out 0 hsorted (fun m hm => (hmem m hm).1) (fun m hm => (hmem m hm).2)
  have hkv : (eventsAbs out).filter (isKN k) = out.filter (isKN k) := by
    unfold eventsAbs
    rw [List.filter_filter]
    apply List.filter_congr
    intro m _
    by_cases hk : isKN k m = true
    · rcases ((isKN_iff k m).1 hk).2 with e | e <;> simp [hk, e]
    · simp [hk]
  obtain ⟨ps, hn, hf⟩ := nice_of_first k first hw hwf hz
  have hsorted2 : (sortAbs (toAbs first)).filter (isKN k) = flat ps := by
    rw [filter_sortAbs, toAbs_kview, filter_sortAbs, hf,
      sortAbs_of_ksorted _ (nice_ksorted k ps 0 hn), sortAbs_of_ksorted _ (nice_ksorted k ps 0 hn)]
  obtain ⟨ps', hs', hfl'⟩ := qnl_kviewV values ppqn (toAbs first) k ps 0 hv hn hsorted2 out hq
  exact ⟨ps, ps', hn, hf, hs', by rw [hev, hkv, hfl']⟩

/-! ### the notes before and after -/

/-- how a kept note relates to the note it comes from: same channel, pitch, velocity and onset; it does not end
    later; its duration is an allowed value; and it is the very same note when the original duration was allowed -/
def QRel (values : List Int) (n n' : Note) : Prop :=
  n'.ch = n.ch ∧ n'.pitch = n.pitch ∧ n'.vel = n.vel ∧ n'.on = n.on ∧ n'.off ≤ n.off ∧
    (n'.off - n'.on) ∈ values ∧ ((n.off - n.on) ∈ values → n' = n)

/-- the notes of one key (in time order) before and after: a note is dropped only when its duration is not an
    allowed value; every other note is kept, in place, related by `QRel` -/
inductive NotesV (values : List Int) : List Note → List Note → Prop
  | nil : NotesV values [] []
  | drop (n : Note) (N N' : List Note) : (n.off - n.on) ∉ values → NotesV values N N' → NotesV values (n :: N) N'
  | keep (n n' : Note) (N N' : List Note) : QRel values n n' → NotesV values N N' →
      NotesV values (n :: N) (n' :: N')

theorem NotesV.append {values : List Int} {N N' M M' : List Note} (h1 : NotesV values N N')
    (h2 : NotesV values M M') : NotesV values (N ++ M) (N' ++ M') := by
  induction h1 with
  | nil => exact h2
  | drop n N N' hn _ ih => exact NotesV.drop n _ _ hn ih
  | keep n n' N N' hq _ ih => exact NotesV.keep n n' _ _ hq ih

theorem NotesV.of_shrunk {values : List Int} {ps ps' : List (Msg × Msg)} (h : ShrunkV values ps ps') :
    NotesV values (ps.map noteOfPair) (ps'.map noteOfPair) := by
  induction h with
  | nil => exact NotesV.nil
  | drop p ps ps' hp _ ih => exact NotesV.drop _ _ _ hp ih
  | keep on off x ps ps' hx hle heq _ ih =>
    refine NotesV.keep _ _ _ _ ⟨rfl, rfl, rfl, rfl, ?_, ?_, ?_⟩ ih
    · show on.time + x ≤ off.time
      omega
    · show on.time + x - on.time ∈ values
      have : on.time + x - on.time = x := by omega
      rw [this]; exact hx
    · intro hc
      have hx' := heq hc
      show mkN on (on.time + x) = mkN on off.time
      have : on.time + x = off.time := by omega
      rw [this]

theorem QRel.shift {values : List Int} (c : Int) {n n' : Note} (h : QRel values n n') :
    QRel values (shiftN c n) (shiftN c n') := by
  obtain ⟨h1, h2, h3, h4, h5, h6, h7⟩ := h
  refine ⟨h1, h2, h3, ?_, ?_, ?_, ?_⟩
  · show n'.on + c = n.on + c
    omega
  · show n'.off + c ≤ n.off + c
    omega
  · show n'.off + c - (n'.on + c) ∈ values
    have : n'.off + c - (n'.on + c) = n'.off - n'.on := by omega
    rw [this]; exact h6
  · intro hc
    have : n.off + c - (n.on + c) = n.off - n.on := by omega
    have hc' : n.off - n.on ∈ values := by rw [← this]; exact hc
    rw [h7 hc']

theorem NotesV.shift {values : List Int} (c : Int) {N N' : List Note} (h : NotesV values N N') :
    NotesV values (N.map (shiftN c)) (N'.map (shiftN c)) := by
  induction h with
  | nil => exact NotesV.nil
  | drop n N N' hn _ ih =>
    refine NotesV.drop _ _ _ ?_ ih
    have : n.off + c - (n.on + c) = n.off - n.on := by omega
    show ¬ (n.off + c - (n.on + c) ∈ values)
    rw [this]; exact hn
  | keep n n' N N' hq _ ih => exact NotesV.keep _ _ _ _ (hq.shift c) ih

/-- every kept note comes from a note of the source, related by `QRel` -/
theorem NotesV.mem_out {values : List Int} {N N' : List Note} (h : NotesV values N N') :
    ∀ n' ∈ N', ∃ n ∈ N, QRel values n n' := by
  induction h with
  | nil => intro n' hn'; simp at hn'
  | drop n N N' _ _ ih =>
    intro n' hn'
    obtain ⟨m, hm, hq⟩ := ih n' hn'
    exact ⟨m, List.mem_cons_of_mem _ hm, hq⟩
  | keep n n0 N N' hq _ ih =>
    intro n' hn'
    rcases List.mem_cons.1 hn' with rfl | hn'
    · exact ⟨n, List.mem_cons_self, hq⟩
    · obtain ⟨m, hm, hq'⟩ := ih n' hn'
      exact ⟨m, List.mem_cons_of_mem _ hm, hq'⟩

/-- a note whose duration is an allowed value is still there, unchanged -/
theorem NotesV.mem_allowed {values : List Int} {N N' : List Note} (h : NotesV values N N') :
    ∀ n ∈ N, (n.off - n.on) ∈ values → n ∈ N' := by
  induction h with
  | nil => intro n hn; simp at hn
  | drop n0 N N' hnot _ ih =>
    intro n hn hc
    rcases List.mem_cons.1 hn with rfl | hn
    · exact absurd hc hnot
    · exact ih n hn hc
  | keep n0 n' N N' hq _ ih =>
    intro n hn hc
    rcases List.mem_cons.1 hn with rfl | hn
    · rw [hq.2.2.2.2.2.2 hc]; exact List.mem_cons_self
    · exact List.mem_cons_of_mem _ (ih n hn hc)

/-- nothing is duplicated or reordered: the kept notes come, one for one and in order, from a sub-list of the source's -/
theorem NotesV.sublist {values : List Int} {N N' : List Note} (h : NotesV values N N') :
    ∃ kept : List Note, kept.Sublist N ∧ kept.length = N'.length ∧ ∀ p ∈ kept.zip N', QRel values p.1 p.2 := by
  induction h with
  | nil => exact ⟨[], List.Sublist.slnil, rfl, by simp⟩
  | drop n N N' _ _ ih =>
    obtain ⟨kept, h1, h2, h3⟩ := ih
    exact ⟨kept, h1.cons _, h2, h3⟩
  | keep n n' N N' hq _ ih =>
    obtain ⟨kept, h1, h2, h3⟩ := ih
    refine ⟨n :: kept, h1.cons_cons _, by simp [h2], ?_⟩
    intro p hp
    rw [List.zip_cons_cons] at hp
    rcases List.mem_cons.1 hp with rfl | hp
    · exact hq
    · exact h3 p hp

theorem NotesV.length_le {values : List Int} {N N' : List Note} (h : NotesV values N N') : N'.length ≤ N.length := by
  induction h with
  | nil => exact Nat.le_refl _
  | drop n N N' _ _ ih => simp only [List.length_cons]; omega
  | keep n n' N N' _ _ ih => simp only [List.length_cons]; omega

/-- when every duration is already an allowed value nothing changes -/
theorem NotesV.eq_of_allowed {values : List Int} {N N' : List Note} (h : NotesV values N N')
    (ha : ∀ n ∈ N, (n.off - n.on) ∈ values) : N' = N := by
  induction h with
  | nil => rfl
  | drop n N N' hnot _ _ => exact absurd (ha n List.mem_cons_self) hnot
  | keep n n' N N' hq _ ih =>
    rw [hq.2.2.2.2.2.2 (ha n List.mem_cons_self), ih (fun m hm => ha m (List.mem_cons_of_mem _ hm))]

/-! ### the piece after re-quantisation -/

theorem altFrom_flat (k : Int × Int) (ps : List (Msg × Msg)) : ∀ lo, NicePairs k lo ps → altFrom k false (flat ps) := by
  induction ps with
  | nil => intro lo _; rfl
  | cons p rest ih =>
    intro lo hn
    obtain ⟨h1, h2, h3, h4, _, _, h7⟩ := hn
    rw [flat_cons]
    simp only [altFrom, h1, h3, and_self, if_true, h2, h4, true_and]
    exact ih _ h7

theorem wf_of_events {l : List Msg} (h : ∀ k, altFrom k false (eventsRel l)) : WF l := by
  rw [wf_iff]
  intro k
  have := (altFrom_iff k false _).1 (h k)
  unfold eventsRel at this
  rwa [altRun_events] at this

theorem events_of_wf {l : List Msg} (h : WF l) (k : Int × Int) (c : Int) : altFrom k false (eventsRelGo c l) := by
  rw [altFrom_iff, altRun_events]
  exact (wf_iff l).1 h k

/-- **one piece, key by key**: the notes of the re-quantised piece against the notes of the piece, in time order;
    the re-quantised piece is again well-formed, with non-negative waits -/
theorem requant_notes (values : List Int) (ppqn : Int) (first piece : List Msg) (hv : ∀ v ∈ values, 0 < v)
    (hw : NonNegWaits first) (hwf : WF first) (hz : NoZeroNotes first)
    (h : requantPiece values ppqn true first = .ok piece) :
    NonNegWaits piece ∧ WF piece ∧
      ∀ (k : Int × Int) (c : Int),
        NotesV values (nkNotes k (eventsRelGo c first) none) (nkNotes k (eventsRelGo c piece) none) := by
  obtain ⟨hpn, _, _⟩ := requant_sound values ppqn first piece hv hw hwf hz h
  have hK := requant_kview values ppqn first piece hv hw hwf hz h
  refine ⟨hpn, ?_, ?_⟩
  · apply wf_of_events
    intro k
    obtain ⟨ps, ps', hn, _, hs, hf'⟩ := hK k
    rw [← altFrom_filter_kn, hf']
    exact altFrom_flat k ps' 0 (nice_shrunk k (hs.shrunk hv) 0 hn)
  · intro k c
    obtain ⟨ps, ps', hn, hf, hs, hf'⟩ := hK k
    rw [nk_clock k c first, nk_clock k c piece, nk_of_kview k _ ps 0 hn hf,
      nk_of_kview k _ ps' 0 (nice_shrunk k (hs.shrunk hv) 0 hn) hf']
    exact (NotesV.of_shrunk hs).shift c

/-! ### from the piece to its bar -/

theorem fuse_alt (k : Int × Int) (l : List Msg) : ∀ b : Bool, altFrom k b l →
    fuseK k (if b then 1 else 0) l = l.filter (isKN k) ∧ depth k l (if b then 1 else 0) = 0 := by
  induction l with
  | nil =>
    intro b h
    simp only [altFrom] at h
    subst h
    exact ⟨rfl, rfl⟩
  | cons m ms ih =>
    intro b h
    rcases kev_cases k m with hk | hk | hk
    · have hkn : isKN k m = true := (isKN_iff k m).2 ⟨hk.1, Or.inl hk.2⟩
      simp only [altFrom, hk, and_self, if_true] at h
      obtain ⟨hb, h'⟩ := h
      subst hb
      obtain ⟨i1, i2⟩ := ih true h'
      simp only [if_true] at i1 i2
      simp only [fuseK, depth, hk.1, hk.2, if_true, Bool.false_eq_true, if_false, List.filter_cons, hkn,
        beq_self_eq_true, Nat.zero_add]
      exact ⟨by rw [i1], i2⟩
    · have hkn : isKN k m = true := (isKN_iff k m).2 ⟨hk.1, Or.inr hk.2⟩
      simp only [altFrom, hk, and_self, if_true] at h
      obtain ⟨hb, h'⟩ := h
      subst hb
      obtain ⟨i1, i2⟩ := ih false h'
      simp only [Bool.false_eq_true, if_false] at i1 i2
      simp only [fuseK, depth, hk.1, hk.2, if_true, List.filter_cons, hkn, reduceCtorEq, if_false,
        beq_self_eq_true, Nat.sub_self]
      exact ⟨by rw [i1], i2⟩
    · have hkn : ¬ isKN k m = true := fun c => hk ((isKN_iff k m).1 c)
      have h1 : ¬ (m.nkey = k ∧ m.ty = .noteOn) := fun ⟨a, c⟩ => hk ⟨a, Or.inl c⟩
      have h2 : ¬ (m.nkey = k ∧ m.ty = .noteOff) := fun ⟨a, c⟩ => hk ⟨a, Or.inr c⟩
      simp only [altFrom, h1, h2, if_false] at h
      obtain ⟨i1, i2⟩ := ih b h
      rw [List.filter_cons, if_neg hkn]
      by_cases hkk : m.nkey = k
      · have e1 : ¬ m.ty = .noteOn := fun c => h1 ⟨hkk, c⟩
        have e2 : ¬ m.ty = .noteOff := fun c => h2 ⟨hkk, c⟩
        have e1' : (m.ty == MType.noteOn) = false := by simpa using e1
        have e2' : (m.ty == MType.noteOff) = false := by simpa using e2
        simp only [fuseK, depth, hkk, if_true, e1, e2, if_false, e1', e2', Bool.false_eq_true]
        exact ⟨i1, i2⟩
      · simp only [fuseK, depth, hkk, if_false]
        exact ⟨i1, i2⟩

/-- the `k`-events of a bar are those of the (well-formed) piece it was built from -/
theorem bar_kview (ppqn : Int) (piece : List Msg) (n d key : Int) (b : Bar) (h : mkBar ppqn piece n d key = .ok b)
    (hw : NonNegWaits piece) (hwf : WF piece) (k : Int × Int) :
    (eventsRel b.seq).filter (isKN k) = (eventsRel piece).filter (isKN k) := by
  obtain ⟨_, _, _, hb⟩ := mkBar_ok h
  subst hb
  show (eventsRel (barSeq ppqn piece n d)).filter (isKN k) = _
  rw [barSeq_events, List.filter_cons, if_neg (by simp [isKN, Msg.mkTimeSig]), List.filter_filter]
  have e : (fun a : Msg => isKN k a && (a.ty != MType.timeSignature)) = isKN k := by
    funext a
    by_cases hk : isKN k a = true
    · rcases ((isKN_iff k a).1 hk).2 with e | e <;> simp [hk, e]
    · simp [hk]
  rw [e]
  have hd : ∀ k', depth k' piece 0 = 0 := by
    intro k'
    have := (fuse_alt k' piece false (hwf k')).2
    simpa using this
  rw [normalise_fuse piece hw hd k]
  have := (fuse_alt k (eventsRel piece) false (events_of_wf hwf k 0)).1
  simpa using this

/-- **the notes of a bar are the notes of its piece** -/
theorem bar_notes (ppqn : Int) (piece : List Msg) (n d key : Int) (b : Bar) (h : mkBar ppqn piece n d key = .ok b)
    (hw : NonNegWaits piece) (hwf : WF piece) (k : Int × Int) (c : Int) :
    nkNotes k (eventsRelGo c b.seq) none = nkNotes k (eventsRelGo c piece) none := by
  rw [nk_clock k c b.seq, nk_clock k c piece, ← nk_filter k (eventsRel b.seq), ← nk_filter k (eventsRel piece),
    bar_kview ppqn piece n d key b h hw hwf k]

/-! ### a per-track run, with "no zero-length note" threaded through the pieces -/

theorem zlB_of_noZero {B : List Int} (k : Int × Int) (l : List Msg) : ∀ (f : Bool) (c : Int),
    zl k f l → zlB B k f c l := by
  induction l with
  | nil => intro f c _; trivial
  | cons m ms ih =>
    intro f c h
    by_cases hw : m.ty = .wait
    · rw [zl_cons_wait k _ m ms hw] at h
      rw [zlB_cons_wait k _ _ m ms hw]
      exact ih _ _ h
    · rcases kev_cases k m with hk | hk | hk
      · rw [zl_cons_on k _ m ms hk] at h
        rw [zlB_cons_on k _ _ m ms hk]
        exact ih _ _ h
      · rw [zl_cons_off k _ m ms hk] at h
        rw [zlB_cons_off k _ _ m ms hk]
        exact ⟨fun hf => (by rw [h.1] at hf; cases hf), ih _ _ h.2⟩
      · rw [zl_cons_skip k _ m ms hw hk] at h
        rw [zlB_cons_skip k _ _ m ms hw hk]
        exact ih _ _ h

/-- the input-level reading of "no zero-length note": no note read off the timed events has `on = off` -/
theorem zl_of_notes (k : Int × Int) : ∀ (l : List Msg) (clk : Int) (fresh : Bool) (o : Option Msg), NonNegWaits l →
    (fresh = true → ∃ on0, o = some on0 ∧ on0.time = clk) →
    (∀ n ∈ nkNotes k (eventsRelGo clk l) o, n.on ≠ n.off) → zl k fresh l := by
  intro l
  induction l with
  | nil => intro clk fresh o _ _ _; trivial
  | cons m ms ih =>
    intro clk fresh o hnn hfr hN
    have hnn' : NonNegWaits ms := nonNegWaits_tail hnn
    by_cases hw : m.ty = .wait
    · rw [zl_cons_wait k _ m ms hw]
      rw [eventsRelGo_cons_wait clk m ms hw] at hN
      refine ih _ _ o hnn' ?_ hN
      intro hf
      simp only [Bool.and_eq_true, decide_eq_true_eq] at hf
      obtain ⟨on0, ho, ht⟩ := hfr hf.1
      have := hnn m List.mem_cons_self hw
      exact ⟨on0, ho, by omega⟩
    · rw [eventsRelGo_cons_nowait clk m ms hw] at hN
      change ∀ n ∈ nkNotes k (Strong589L.stamp clk m :: eventsRelGo clk ms) o, _ at hN
      rcases kev_cases k m with h | h | h
      · rw [zl_cons_on k _ m ms h]
        rw [nkNotes_cons_on k (Strong589L.stamp clk m) _ _ h] at hN
        exact ih _ _ (some (Strong589L.stamp clk m)) hnn' (fun _ => ⟨_, rfl, rfl⟩) hN
      · rw [zl_cons_off k _ m ms h]
        rw [nkNotes_cons_off k (Strong589L.stamp clk m) _ _ h] at hN
        refine ⟨?_, ih _ _ none hnn' (by simp) (fun n hn => hN n (List.mem_append_right _ hn))⟩
        cases fresh with
        | false => rfl
        | true =>
          obtain ⟨on0, ho, ht⟩ := hfr rfl
          subst ho
          have := hN (mkN on0 clk) (List.mem_append_left _ (by simp [Strong589L.stamp_time]))
          exact absurd (by simp [mkN, ht]) this
      · rw [zl_cons_skip k _ m ms hw h]
        rw [nkNotes_cons_skip k (Strong589L.stamp clk m) _ _ h] at hN
        exact ih _ _ o hnn' hfr hN

theorem noZero_of_notes (t : List Msg) (hw : NonNegWaits t) (h : ∀ n ∈ notesOf (eventsRel t), n.on ≠ n.off) :
    NoZeroNotes t := by
  intro k
  refine zl_of_notes k t 0 false none hw (by simp) ?_
  intro n hn
  exact h n (mem_notesOf_of_nk hn)

/-- one round of a track without zero-length notes, read from clock `a`: `Strong589LT.trackStep_notesB` with
    "no zero-length note" handed on to the first piece and to the remainder -/
theorem trackStep_notesZ {ppqn : Int} {values : List Int} {requant : Bool} {g : Sg} {t : List Msg}
    {o : Bool × List Msg × Bar} (h : trackStep ppqn values requant g t = .ok o) (hc : 0 < sgLen ppqn g)
    (hw : NonNegWaits t) (hwf : WF t) (hz : NoZeroNotes t) (a : Int) :
    ∃ first piece, requantPiece values ppqn requant first = .ok piece ∧
      mkBar ppqn piece g.1 g.2.1 g.2.2 = .ok o.2.2 ∧ WF first ∧ NonNegWaits first ∧ NoZeroNotes first ∧
      WF o.2.1 ∧ NonNegWaits o.2.1 ∧ NoZeroNotes o.2.1 ∧
      totalWait first ≤ sgLen ppqn g ∧ (o.2.1 ≠ [] → totalWait first = sgLen ppqn g) ∧
      ∀ (k : Int × Int),
        nkNotes k (eventsRelGo a (first ++ o.2.1)) none
          = (nkNotes k (eventsRelGo a t) none).flatMap (cut1 (a + sgLen ppqn g)) := by
  obtain ⟨pieces, first, piece, hs, hrq, hmk, hcase⟩ := trackStep_spec h
  refine ⟨first, piece, hrq, hmk, ?_⟩
  have hzB : ∀ k, zlB (B := [a + sgLen ppqn g]) k false a t := fun k => zlB_of_noZero k t false a (hz k)
  have hAll := fun k => split_one_notesB (B := [a + sgLen ppqn g]) t _ pieces hs hc hw hwf a (by simp) hzB k 0
  obtain ⟨hP, _⟩ := split_one_notes t _ pieces hs hc hw hwf hz (0, 0) 0 0
  have hN := fun k => (hAll k).2.2.1
  rcases split_one t _ pieces hs hc hw with ⟨hle, hp', hdur⟩ | ⟨_, p, q, hp', hdp, _, _⟩
  · rcases hcase with ⟨hp, hf, _, hr⟩ | ⟨hp, _, hr⟩ | ⟨tl, hp, _⟩
    · subst hp hf
      rw [hr]
      refine ⟨wf_nil, nnw_nil, noZero_nil, wf_nil, nnw_nil, noZero_nil, by simp [totalWait]; omega, by simp, ?_⟩
      intro k
      simpa using hN k
    · subst hp
      rw [hr]
      obtain ⟨h1, h2, h3⟩ := hP first (by simp)
      refine ⟨h1, h2, h3, wf_nil, nnw_nil, noZero_nil, ?_, by simp, ?_⟩
      · unfold durRel at hdur hle
        simp only [List.flatten_cons, List.flatten_nil, List.append_nil] at hdur
        omega
      · intro k
        simpa using hN k
    · rcases hp' with hp' | ⟨p, hp'⟩ <;> simp [hp'] at hp
  · rcases hcase with ⟨hp, _⟩ | ⟨hp, _⟩ | ⟨tl, hp, _⟩
    · rw [hp'] at hp; simp at hp
    · rw [hp'] at hp; simp at hp
    · rw [hp'] at hp
      simp only [List.cons.injEq] at hp
      obtain ⟨rfl, rfl, _⟩ := hp
      obtain ⟨h1, h2, h3⟩ := hP p (by simp [hp'])
      obtain ⟨h4, h5, h6⟩ := hP o.2.1 (by simp [hp'])
      unfold durRel at hdp
      refine ⟨h1, h2, h3, h4, h5, h6, by omega, fun _ => hdp, ?_⟩
      intro k
      have := hN k
      rw [hp'] at this
      simpa using this

/-- **the pieces behind the bars** of a track without zero-length notes: `Strong589LT.trackRun_firsts`, where every
    piece again has no zero-length note -/
theorem trackRun_firstsZ (ppqn : Int) (values : List Int) (requant : Bool) :
    ∀ (gs : List Sg) (t : List Msg) (tw : List Bool) (t' : List Msg) (nb : List Bar) (a : Int),
    trackRun ppqn values requant gs t = .ok (tw, t', nb) → (∀ g ∈ gs, 0 < sgLen ppqn g) →
    NonNegWaits t → WF t → NoZeroNotes t →
    ∃ firsts, BarsOf ppqn values requant gs firsts nb ∧ (∀ f ∈ firsts, NoZeroNotes f) ∧ WF t' ∧ NonNegWaits t' ∧
      ∀ k, nkNotes k (eventsRelGo a (firsts.flatten ++ t')) none
        = cutNotes (cums a (gs.map (sgLen ppqn))) (nkNotes k (eventsRelGo a t) none) := by
  intro gs
  induction gs with
  | nil =>
    intro t tw t' nb a h _ hw hwf _
    simp only [trackRun, Except.ok.injEq, Prod.mk.injEq] at h
    obtain ⟨_, rfl, rfl⟩ := h
    exact ⟨[], trivial, by simp, hwf, hw, fun k => by simp [cums, cutNotes]⟩
  | cons g gs ih =>
    intro t tw t' nb a h hpos hw hwf hz
    obtain ⟨o, r, h1, h2, h3⟩ := trackRun_cons_inv h
    simp only [Prod.mk.injEq] at h3
    obtain ⟨rfl, rfl, rfl⟩ := h3
    have hc := hpos g List.mem_cons_self
    have hpos' : ∀ x ∈ gs, 0 < sgLen ppqn x := fun x hx => hpos x (List.mem_cons_of_mem _ hx)
    have hposl : ∀ c ∈ gs.map (sgLen ppqn), 0 < c := by
      intro c hc'
      obtain ⟨x, hx, rfl⟩ := List.mem_map.1 hc'
      exact hpos' x hx
    obtain ⟨first, piece, hrq, hmk, hfw, hfn, hfz, hrw, hrn, hrz, hle, heq, hN⟩ :=
      trackStep_notesZ h1 hc hw hwf hz a
    by_cases hrest : o.2.1 = []
    · rw [hrest] at h2 hN
      obtain ⟨ht', hBs⟩ := trackRun_firsts_nil ppqn values requant gs _ _ _ h2 hpos'
      refine ⟨first :: gs.map (fun _ => []), ⟨⟨piece, hrq, hmk⟩, hfw, hfn, Or.inr ⟨hle, flatten_map_nil gs⟩, hBs⟩,
        ?_, by rw [ht']; exact wf_nil, by rw [ht']; exact nnw_nil, ?_⟩
      · intro f hf
        rcases List.mem_cons.1 hf with rfl | hf
        · exact hfz
        · obtain ⟨_, _, rfl⟩ := List.mem_map.1 hf
          exact noZero_nil
      · intro k
        simp only [List.flatten_cons, flatten_map_nil, List.map_cons, cums, cutNotes, ht', List.append_nil]
        rw [← hN k, List.append_nil, cutNotes_id]
        intro n hn b hb
        have h1' := R_notes_off_le k a first hfn none n hn
        have h2' := cums_gt _ (a + sgLen ppqn g) hposl b hb
        left; omega
    · have htw := heq hrest
      obtain ⟨firsts, hBs, hfzs, hwt, hnt, hNs⟩ := ih _ _ _ _ (a + sgLen ppqn g) h2 hpos' hrn hrw hrz
      refine ⟨first :: firsts, ⟨⟨piece, hrq, hmk⟩, hfw, hfn, Or.inl htw, hBs⟩, ?_, hwt, hnt, ?_⟩
      · intro f hf
        rcases List.mem_cons.1 hf with rfl | hf
        · exact hfz
        · exact hfzs f hf
      · intro k
        simp only [List.flatten_cons, List.append_assoc, List.map_cons, cums, cutNotes]
        rw [← hN k, nkNotes_wf_append k a first _ hfw, nkNotes_wf_append k a first _ hfw, htw, hNs k,
          cutNotes_append, cutNotes_id _ (nkNotes k (eventsRelGo a first) none)]
        intro n hn b hb
        have h1' := R_notes_off_le k a first hfn none n hn
        have h2' := cums_gt _ (a + sgLen ppqn g) hposl b hb
        left; omega

/-- a per-bar fact "the notes of the bar are those of its piece, re-quantised" holds for the bars laid end to end
    against the pieces laid end to end (`Strong589LT.bars_lift` for whole note lists, with the extra premise that the
    pieces have no zero-length note) -/
theorem bars_liftV (ppqn : Int) (values : List Int) (requant : Bool) (k : Int × Int)
    (H : ∀ (g : Sg) (f : List Msg) (b : Bar) (c : Int), BarStep ppqn values requant g f b → WF f → NonNegWaits f →
      NoZeroNotes f → NotesV values (nkNotes k (eventsRelGo c f) none) (nkNotes k (eventsRelGo c b.seq) none)) :
    ∀ (gs : List Sg) (firsts : List (List Msg)) (nb : List Bar) (a : Int), BarsOf ppqn values requant gs firsts nb →
      (∀ f ∈ firsts, NoZeroNotes f) →
      NotesV values (nkNotes k (eventsRelGo a firsts.flatten) none) (nkNotes k (eventsRelGo a (barsToSeq nb)) none) := by
  intro gs
  induction gs with
  | nil =>
    intro firsts nb a hB _
    cases firsts <;> cases nb <;> simp [BarsOf] at hB
    exact NotesV.nil
  | cons g gs ih =>
    intro firsts nb a hB hZ
    rcases firsts with _ | ⟨f, fs⟩ <;> rcases nb with _ | ⟨b, bs⟩ <;> simp only [BarsOf] at hB
    obtain ⟨hstep, hfw, hfn, hlen, hrest⟩ := hB
    obtain ⟨piece, hrq, hmk⟩ := hstep
    obtain ⟨hbw, hbn, hbd⟩ := bar_wf_nn ppqn piece _ _ _ _ hmk
    have hbd' : totalWait b.seq = sgLen ppqn g := hbd
    rw [barsToSeq_cons, nkNotes_wf_append k a b.seq _ hbw, hbd', List.flatten_cons, nkNotes_wf_append k a f _ hfw]
    have h1 := H g f b a ⟨piece, hrq, hmk⟩ hfw hfn (hZ f List.mem_cons_self)
    have h2 := ih fs bs (a + sgLen ppqn g) hrest (fun f' hf' => hZ f' (List.mem_cons_of_mem _ hf'))
    rcases hlen with hlen | ⟨_, hnil⟩
    · rw [hlen]; exact h1.append h2
    · rw [hnil] at h2 ⊢
      have e : ∀ c : Int, nkNotes k (eventsRelGo c ([] : List Msg)) none = [] := fun _ => rfl
      rw [e] at h2 ⊢
      exact h1.append h2

/-- the hypothesis `H` of `bars_liftV`, for re-quantisation on: piece → re-quantised piece → bar -/
theorem barStep_notes (ppqn : Int) (values : List Int) (hv : ∀ v ∈ values, 0 < v) (k : Int × Int)
    (g : Sg) (f : List Msg) (b : Bar) (c : Int) (hs : BarStep ppqn values true g f b) (hfw : WF f)
    (hfn : NonNegWaits f) (hfz : NoZeroNotes f) :
    NotesV values (nkNotes k (eventsRelGo c f) none) (nkNotes k (eventsRelGo c b.seq) none) := by
  obtain ⟨piece, hrq, hmk⟩ := hs
  obtain ⟨hpn, hpw, hN⟩ := requant_notes values ppqn f piece hv hfn hfw hfz hrq
  rw [bar_notes ppqn piece _ _ _ b hmk hpn hpw k c]
  exact hN k c

/-- **a whole per-track run, key by key**: the notes of the bars laid end to end against the notes of the track cut
    at the bar lines, in time order -/
theorem trackRun_notesV (ppqn : Int) (values : List Int) (hv : ∀ v ∈ values, 0 < v) (gs : List Sg) (t : List Msg)
    (tw : List Bool) (nb : List Bar) (a : Int) (h : trackRun ppqn values true gs t = .ok (tw, [], nb))
    (hpos : ∀ g ∈ gs, 0 < sgLen ppqn g) (hw : NonNegWaits t) (hwf : WF t) (hz : NoZeroNotes t) (k : Int × Int) :
    NotesV values (cutNotes (cums a (gs.map (sgLen ppqn))) (nkNotes k (eventsRelGo a t) none))
      (nkNotes k (eventsRelGo a (barsToSeq nb)) none) := by
  obtain ⟨firsts, hB, hZ, _, _, hN⟩ := trackRun_firstsZ ppqn values true gs t tw [] nb a h hpos hw hwf hz
  have := bars_liftV ppqn values true k (barStep_notes ppqn values hv k) gs firsts nb a hB hZ
  rw [← hN k, List.append_nil]
  exact this

end SCoda.Strong589LR
