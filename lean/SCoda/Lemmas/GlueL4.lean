/-
  Helper lemmas for Props/C03e, part 4: a run `[lo, hi)` of the bars `splitBars` returns is a `RunOk` run, given that
  every bar sequence of the run is a good track on its own and the run's signatures are positive.
-/
import SCoda.Lemmas.GlueL3
import SCoda.Props.C09
namespace SCoda.GlueL
open SCoda SCoda.C01 SCoda.ChunksL SCoda.ExtractL

theorem cap_eq (c : Cfg) (n d : Int) : c.capacity n d = barCapacity c.ppqn n d := by
  unfold Cfg.capacity barCapacity
  congr 1
  rw [Int.mul_comm (c.ppqn * 4) n, Int.mul_assoc]

/-- bars `[lo, hi)` of one track -/
def slice (lo hi : Nat) (bs : List Bar) : List Bar := (bs.drop lo).take (hi - lo)

theorem slice_get (lo hi : Nat) (bs : List Bar) (k : Nat) (b : Bar) (h : (slice lo hi bs)[k]? = some b) :
    k < hi - lo ∧ bs[lo + k]? = some b := by
  unfold slice at h
  rw [List.getElem?_take] at h
  split at h
  · rename_i hk
    rw [List.getElem?_drop] at h
    exact ⟨hk, h⟩
  · cases h

theorem slice_length (lo hi : Nat) (bs : List Bar) (h : hi ≤ bs.length) : (slice lo hi bs).length = hi - lo := by
  unfold slice
  rw [List.length_take, List.length_drop]
  omega

/-- the signatures of the run, read off the first track -/
def sigsOf (tb : List (List Bar)) (lo hi : Nat) : List (Int × Int) := (slice lo hi (tb.headD [])).map (fun b => (b.num, b.den))

/-- the bar sequences of the run, per track -/
def segsOf (tb : List (List Bar)) (lo hi : Nat) : List (List (List Msg)) := tb.map (fun bs => (slice lo hi bs).map (·.seq))

theorem runTracks_segsOf (tb : List (List Bar)) (lo hi : Nat) :
    runTracks (segsOf tb lo hi) = tb.map (fun bs => barsToSeq ((bs.drop lo).take (hi - lo))) := by
  simp only [runTracks, segsOf, List.map_map]
  rfl

theorem run_of_pointwise (c : Cfg) (i : Nat) : ∀ (li l0 : List Bar), li.length = l0.length →
    (∀ (k : Nat) (b b0 : Bar), li[k]? = some b → l0[k]? = some b0 → (b.num, b.den) = (b0.num, b0.den) ∧ SegOk c i (b.num, b.den) b.seq) →
    Run c i (l0.map (fun b => (b.num, b.den))) (li.map (·.seq)) := by
  intro li
  induction li with
  | nil =>
    intro l0 hl _
    cases l0 with
    | nil => exact Run.nil
    | cons _ _ => simp at hl
  | cons b li ih =>
    intro l0 hl h
    cases l0 with
    | nil => simp at hl
    | cons b0 l0 =>
      obtain ⟨h1, h2⟩ := h 0 b b0 rfl rfl
      simp only [List.map_cons]
      rw [← h1]
      exact Run.cons h2 (ih l0 (by simpa using hl) (fun k x x0 hx hx0 => h (k + 1) x x0 (by simpa using hx) (by simpa using hx0)))

/-- **a run of the bars `splitBars` returns is a run of bars** -/
theorem splitBars_runOk (c : Cfg) (values : List Int) (tracks : List (List Msg)) (tb : List (List Bar))
    (h : splitBars c.ppqn values tracks 0 false = .ok tb) (hn : tb.length = c.numTracks)
    (lo hi : Nat) (hlo : lo < hi) (hhi : ∀ bs ∈ tb, hi ≤ bs.length)
    (hgood : ∀ i bs, tb[i]? = some bs → ∀ b ∈ slice lo hi bs, TrackGood i b.seq)
    (hpos : ∀ b ∈ slice lo hi (tb.headD []), 0 < b.num ∧ 0 < b.den ∧ 0 < c.capacity b.num b.den) :
    RunOk c (sigsOf tb lo hi) (segsOf tb lo hi) := by
  obtain ⟨metaTrack, r, hm, hl, _⟩ := SB.splitBars_bars c.ppqn values tracks 0 false tb h
  have h0 : 0 < tb.length := by
    rw [hl]
    exact SB.lt_of_getElem?_some hm
  have hhead : tb.headD [] = tb[0] := by
    cases tb with
    | nil => simp at h0
    | cons a _ => rfl
  have hex := C09.bars_exact c.ppqn values tracks 0 false tb h
  refine ⟨by simp [segsOf, hn], by simpa [segsOf] using h0, ?_, ?_, ?_⟩
  · intro he
    have := congrArg List.length he
    simp only [sigsOf, List.length_map, List.length_nil] at this
    rw [slice_length lo hi _ (hhi _ (by rw [hhead]; exact List.getElem_mem h0))] at this
    omega
  · intro g hg
    simp only [sigsOf, List.mem_map] at hg
    obtain ⟨b, hb, rfl⟩ := hg
    exact hpos b hb
  · intro i t ht
    simp only [segsOf, List.getElem?_map, Option.map_eq_some_iff] at ht
    obtain ⟨bs, hbs, rfl⟩ := ht
    have hbsm : bs ∈ tb := List.mem_of_getElem? hbs
    unfold sigsOf
    apply run_of_pointwise
    · rw [slice_length lo hi _ (hhi _ hbsm), slice_length lo hi _ (hhi _ (by rw [hhead]; exact List.getElem_mem h0))]
    · intro k b b0 hb hb0
      obtain ⟨_, hb'⟩ := slice_get lo hi bs k b hb
      obtain ⟨_, hb0'⟩ := slice_get lo hi _ k b0 hb0
      have hcol := C09.same_column c.ppqn values tracks 0 false tb h i 0 (lo + k) b b0
        (by simp [C09.barAt, hbs, hb'])
        (by
          rw [hhead] at hb0'
          simp [C09.barAt, List.getElem?_eq_getElem h0, hb0'])
      obtain ⟨e1, e2, e3⟩ := hex bs hbsm b (List.mem_of_getElem? hb')
      refine ⟨by rw [hcol.1, hcol.2.1], ?_, hgood i bs hbs b (List.mem_of_getElem? hb), ?_⟩
      · cases hs : b.seq with
        | nil => rw [hs] at e2; cases e2
        | cons x tl =>
          rw [hs] at e2 e3
          simp only [List.head?_cons, Option.some.injEq] at e2
          exact ⟨tl, by rw [e2], fun m hm => e3 m (by simpa using hm)⟩
      · rw [cap_eq]
        exact e1

/-! ## the signatures of the bars come from the meta track -/

theorem qrun_mem {α} (val : Msg → α) : ∀ (lens : List Int) (now : Int) (cur : α) (q : List Msg),
    ∀ v ∈ SB.qrun val lens now cur q, v = cur ∨ ∃ m ∈ q, v = val m := by
  intro lens
  induction lens with
  | nil => intro _ _ _ v hv; simp [SB.qrun] at hv
  | cons len lens ih =>
    intro now cur q v hv
    have hn : (SB.nextQ val now cur q).1 = cur ∧ (∀ m ∈ (SB.nextQ val now cur q).2, m ∈ q)
        ∨ (∃ m ∈ q, (SB.nextQ val now cur q).1 = val m) ∧ (∀ m ∈ (SB.nextQ val now cur q).2, m ∈ q) := by
      unfold SB.nextQ
      cases q with
      | nil => exact Or.inl ⟨rfl, fun _ h => h⟩
      | cons m rest =>
        simp only
        split
        · exact Or.inr ⟨⟨m, List.mem_cons_self, rfl⟩, fun x hx => List.mem_cons_of_mem _ hx⟩
        · exact Or.inl ⟨rfl, fun _ h => h⟩
    simp only [SB.qrun, List.mem_cons] at hv
    rcases hv with rfl | hv
    · rcases hn with ⟨h1, _⟩ | ⟨h1, _⟩
      · exact Or.inl h1
      · exact Or.inr h1
    · rcases ih _ _ _ v hv with h | ⟨m, hm, rfl⟩
      · rw [h]
        rcases hn with ⟨h1, _⟩ | ⟨h1, _⟩
        · exact Or.inl h1
        · exact Or.inr h1
      · rcases hn with ⟨_, h2⟩ | ⟨_, h2⟩ <;> exact Or.inr ⟨m, h2 m hm, rfl⟩

/-- the signature of every bar `splitBars` returns is 4/4 or that of a signature message of the meta track -/
theorem splitBars_sig_src (ppqn : Int) (values : List Int) (tracks : List (List Msg)) (tb : List (List Bar))
    (h : splitBars ppqn values tracks 0 false = .ok tb) :
    ∀ b ∈ tb.headD [], (b.num, b.den) = (4, 4)
      ∨ ∃ m ∈ tracks.headD [], m.ty = .timeSignature ∧ (b.num, b.den) = (m.num, m.den) := by
  obtain ⟨metaTrack, r, hm, hl, _⟩ := SB.splitBars_bars ppqn values tracks 0 false tb h
  have h0 : 0 < tb.length := by rw [hl]; exact SB.lt_of_getElem?_some hm
  have hhead : tb.headD [] = tb[0] := by
    cases tb with
    | nil => simp at h0
    | cons a _ => rfl
  have hmeta : tracks.headD [] = metaTrack := by
    cases tracks with
    | nil => simp at hm
    | cons a _ => simp at hm; simp [hm]
  obtain ⟨mT, r', hm', hs, _⟩ := C09.run_track0 ppqn values tracks 0 false tb h tb[0] (List.getElem?_eq_getElem h0)
  rw [hm] at hm'; cases hm'
  intro b hb
  rw [hhead] at hb
  have hg : (b.num, b.den) ∈ (SB.sched ppqn metaTrack (r' + 1)).map (fun g => (g.1, g.2.1)) := by
    rw [← hs, List.map_map]
    exact List.mem_map.2 ⟨b, hb, rfl⟩
  unfold SB.sched at hg
  rw [SB.ctl_sigs] at hg
  rcases qrun_mem _ _ _ _ _ _ hg with h1 | ⟨m, hmq, h1⟩
  · exact Or.inl h1
  · unfold SB.initTs at hmq
    split at hmq
    · simp only [List.mem_singleton] at hmq
      subst hmq
      exact Or.inl h1
    · simp only [timesOfType, List.mem_filter, beq_iff_eq] at hmq
      obtain ⟨m0, hm0, _, hts⟩ := GlueAux.toAbs_src metaTrack m hmq.1
      obtain ⟨h2, h3, h4⟩ := hts hmq.2
      exact Or.inr ⟨m0, by rw [hmeta]; exact hm0, h2, by rw [h1, h3, h4]⟩

end SCoda.GlueL
