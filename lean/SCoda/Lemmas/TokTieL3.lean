/-
  Helper lemmas for Props/TokTie.lean, third part: the generated `detokenise` (`detokeniseLoop2` per part of a token,
  `detokeniseLoop1` per token) against the hand model `dpart` / `dstep` / `detokenise` of Model/Token.lean, on the
  rendered tokens (`render`, Model/Render.lean).  Uses the string lemmas of Lemmas/RenderL.lean.
-/
import SCoda.Lemmas.TokTieL2
set_option linter.unusedSimpArgs false
set_option linter.unusedTactic false
set_option linter.unusedVariables false
set_option linter.unnecessarySeqFocus false
set_option linter.unreachableTactic false
namespace SCoda.TokTieL
open SCoda SCoda.TokLib SCoda.Gen.Tok SCoda.RenderL

theorem dropWhile_ws_digits (cs : List Char) (h : ∀ c ∈ cs, c.isDigit = true) :
    cs.dropWhile Char.isWhitespace = cs := by
  cases cs with
  | nil => rfl
  | cons c r =>
    have hc : c.isDigit = true := h c (by simp)
    have : c.isWhitespace = false := by
      simp only [Char.isDigit, Bool.and_eq_true, decide_eq_true_eq] at hc
      simp only [Char.isWhitespace, Bool.or_eq_false_iff, beq_eq_false_iff_ne]
      refine ⟨⟨⟨?_, ?_⟩, ?_⟩, ?_⟩ <;> (simp only [decide_eq_false_iff_not]; intro h; subst h; revert hc; decide)
    simp [List.dropWhile, this]

theorem stripChars_digits (cs : List Char) (h : ∀ c ∈ cs, c.isDigit = true) : stripChars cs = cs := by
  unfold stripChars
  rw [dropWhile_ws_digits cs h, dropWhile_ws_digits cs.reverse (by simpa using h), List.reverse_reverse]

theorem dropPlus_digits (cs : List Char) (h : ∀ c ∈ cs, c.isDigit = true) : dropPlus cs = cs := by
  unfold dropPlus
  split
  · rename_i d r
    have := h '+' (by simp)
    simp at this
  · rfl

theorem pyIntOfStr_zpad (w n : Nat) : pyIntOfStr (zpad w (n : Int)) = .ok (n : Int) := by
  have hz := zpad_nat w n
  have hd := zpadC_isDigit (w - (toString n).length) n
  unfold pyIntOfStr
  simp only [hz, String.toList_ofList, stripChars_digits _ hd, dropPlus_digits _ hd]
  rw [← hz, pyInt_zpad]
  rfl

abbrev DSt := List LSeq × Int × Int × Int × Int × Int × Int × Int × Int × Int

def gD (d : DetokSt) : DSt :=
  (d.seqs.map LSeq.abs, d.curTime, d.curTimeBar, d.tsNum, d.tsDen, d.capTotal, d.capRem, d.prvTrack, d.prvValue, d.prvVel)

/-- the `_`-separated strings of one part of a token, for natural-number fields -/
def partStrs : Part → List String
  | .pad => [prefixOf "PAD"] | .sta => [prefixOf "START"] | .sto => [prefixOf "STOP"] | .bar => [prefixOf "BAR"]
  | .rest v => [prefixOf "REST", zpad 2 v]
  | .trk v => [prefixOf "TRACK", zpad 2 v]
  | .val v => [prefixOf "VALUE", zpad 2 v]
  | .vel v => [prefixOf "VELOCITY", zpad 3 v]
  | .pit v => [prefixOf "PITCH", zpad 3 v]
  | .tsig a b => [prefixOf "TIME_SIGNATURE", zpad 2 a, zpad 2 b]

def mainOf : Part → String
  | .pad => prefixOf "PAD" | .sta => prefixOf "START" | .sto => prefixOf "STOP" | .bar => prefixOf "BAR"
  | .rest _ => prefixOf "REST" | .trk _ => prefixOf "TRACK" | .val _ => prefixOf "VALUE" | .vel _ => prefixOf "VELOCITY"
  | .pit _ => prefixOf "PITCH" | .tsig _ _ => prefixOf "TIME_SIGNATURE"

/-- the numbers of a part are natural numbers; a time signature has a non-zero denominator and a non-negative bar length -/
def PartOk (ppqn : Int) : Part → Prop
  | .pad | .sta | .sto | .bar => True
  | .rest v | .trk v | .val v | .vel v | .pit v => 0 ≤ v
  | .tsig a b => 0 ≤ a ∧ 0 < b ∧ 0 ≤ ppqn * 4 * a

theorem modifyNth_eq {α} (f : α → α) : ∀ (n : Nat) (l : List α), modifyNth f n l = modifyAt f n l
  | _, [] => by simp [modifyNth, modifyAt]
  | 0, x :: xs => rfl
  | n + 1, x :: xs => by simp [modifyNth, modifyAt, modifyNth_eq f n xs]

theorem modifyAt_map {α β} (g : α → β) (f : α → α) (f' : β → β) (h : ∀ x, g (f x) = f' (g x)) :
    ∀ (n : Nat) (l : List α), (modifyAt f n l).map g = modifyAt f' n (l.map g)
  | _, [] => by simp [modifyAt]
  | 0, x :: xs => by simp [modifyAt, h]
  | n + 1, x :: xs => by simp [modifyAt, modifyAt_map g f f' h n xs]

theorem pyModifyAt_abs (l : List (List Msg)) (i : Int) (m : Msg) (hi : 0 ≤ i) :
    pyModifyAt (l.map LSeq.abs) i (fun s => s.addAbs m) =
      if i.toNat < l.length then .ok ((addAbs l i.toNat m).map LSeq.abs) else .error .indexError := by
  unfold pyModifyAt
  have h0 : ¬ i < 0 := by omega
  simp only [h0, if_false, List.length_map]
  by_cases h : i.toNat < l.length
  · simp only [h, if_true, modifyNth_eq, addAbs]
    rw [modifyAt_map LSeq.abs (fun a => insort a m) (fun s => s.addAbs m) (fun x => rfl)]
    rfl
  · simp only [h, if_false]; rfl


theorem pfxne (a b : String) (ha : a ∈ usedNames) (hb : b ∈ usedNames) (h : a ≠ b) : (prefixOf a == prefixOf b) = false := by
  rw [pfx_beq a b ha hb]; simp [h]

theorem pyItem_cons_two {α} (a b c : α) (l : List α) : pyItem (a :: b :: c :: l) 2 = .ok c := by
  simp [pyItem]; rfl

theorem length_modifyAt {α} (f : α → α) : ∀ (n : Nat) (l : List α), (modifyAt f n l).length = l.length
  | _, [] => by simp [modifyAt]
  | 0, x :: xs => by simp [modifyAt]
  | n + 1, x :: xs => by simp [modifyAt, length_modifyAt f n xs]

theorem length_addAbs (l : List (List Msg)) (i : Nat) (m : Msg) : (addAbs l i m).length = l.length := length_modifyAt _ _ _

theorem forIn_collect' {α β ε : Type} (g : α → β) (f : α → List β → Except ε (ForInStep (List β)))
    (hf : ∀ x s, f x s = .ok (.yield (s ++ [g x]))) (xs : List α) (acc : List β) :
    forIn xs acc f = .ok (acc ++ xs.map g) := forIn_collect g f hf xs acc

theorem detokeniseLoop2_eq (o : TokObj) (tokenParts : List (List String)) (i : Int) (part : Part) (d : DetokSt)
    (hi : pyItem tokenParts i = .ok (partStrs part)) (hok : PartOk o.ppqn part) (hd : 0 ≤ d.prvTrack) :
    detokeniseLoop2 o tokenParts (i, mainOf part) (gD d) =
      liftE (fun d' => ForInStep.yield (gD d')) (dpart (cfgOf o) d part) := by
  cases part with
  | pad | sta | sto =>
    unfold detokeniseLoop2
    simp (disch := decide) only [mainOf, pfxne, Bool.false_eq_true, if_false, beq_self_eq_true, if_true]
    rfl
  | bar =>
    unfold detokeniseLoop2
    simp (disch := decide) only [mainOf, pfxne, Bool.false_eq_true, if_false, beq_self_eq_true, if_true]
    rw [forIn_collect' (fun s : LSeq => s.addAbs { ty := MType.internal, ch := 0, time := (gD d).2.1 + (gD d).2.2.2.2.2.2.1 : Msg }) _ ?hc]
    case hc => intro x s; rfl
    simp [gD, dpart, liftE, Msg.mkInternal, LSeq.addAbs, LSeq.absOf, Function.comp_def, pure, Except.pure, bind, Except.bind]
  | rest v | trk v | val v | vel v =>
    obtain ⟨n, rfl⟩ := Int.eq_ofNat_of_zero_le (show 0 ≤ v from hok)
    unfold detokeniseLoop2
    simp (disch := decide) only [mainOf, pfxne, Bool.false_eq_true, if_false, beq_self_eq_true, if_true, hi, partStrs, ok_bind,
      pyItem_cons_one, Int.ofNat_eq_natCast, pyIntOfStr_zpad]
    rfl
  | pit v =>
    obtain ⟨n, rfl⟩ := Int.eq_ofNat_of_zero_le (show 0 ≤ v from hok)
    unfold detokeniseLoop2
    simp (disch := decide) only [mainOf, pfxne, Bool.false_eq_true, if_false, beq_self_eq_true, if_true, hi, partStrs, ok_bind,
      pyItem_cons_one, Int.ofNat_eq_natCast, pyIntOfStr_zpad]
    simp only [gD]
    rw [pyModifyAt_abs _ _ _ hd]
    have hneg : (decide (d.prvTrack < 0)) = false := by simp; omega
    by_cases h : d.prvTrack.toNat < d.seqs.length
    · have h2 : (decide (d.prvTrack.toNat ≥ d.seqs.length)) = false := by simp; omega
      simp only [h, if_true, ok_bind]
      rw [pyModifyAt_abs _ _ _ hd]
      simp only [length_addAbs, h, if_true, ok_bind, dpart, hneg, h2, Bool.or_false, Bool.false_eq_true, if_false]
      rfl
    · have h2 : (decide (d.prvTrack.toNat ≥ d.seqs.length)) = true := by simp; omega
      simp only [h, if_false, error_bind, dpart, hneg, h2, Bool.or_true, if_true]
      rfl
  | tsig a b =>
    obtain ⟨ha, hb, hn⟩ := hok
    obtain ⟨a', rfl⟩ := Int.eq_ofNat_of_zero_le ha
    obtain ⟨b', rfl⟩ := Int.eq_ofNat_of_zero_le (Int.le_of_lt hb)
    unfold detokeniseLoop2
    simp (disch := decide) only [mainOf, pfxne, Bool.false_eq_true, if_false, beq_self_eq_true, if_true, hi, partStrs, ok_bind,
      pyItem_cons_one, Int.ofNat_eq_natCast, pyIntOfStr_zpad]
    have hb0 : (b' : Int) ≠ 0 := by omega
    have h2 : ((2 : Int)) ≠ 0 := by decide
    have ha0 : (0 : Int) ≤ (a' : Int) := ha
    have hb1 : (0 : Int) ≤ (b' : Int) := by omega
    simp only [gD, pyItem_cons_two, ok_bind, pyIntOfStr_zpad, pyTrueDiv_ok _ _ hb0, ratTrunc_capacity _ _ hb0 hn,
      pyTrueDiv_ok _ _ h2, ratTrunc_capacity _ _ h2 ha0, ratTrunc_capacity _ _ h2 hb1]
    by_cases hbar : d.curTimeBar > 0
    · simp only [hbar, decide_true, if_true, dpart]; rfl
    · simp only [hbar, decide_false, Bool.false_eq_true, if_false, dpart, cfgOf, Cfg.capacity]
      have h0 : (0 : Int) ≤ 0 := by decide
      rw [show (0 : Int) = ((0 : Nat) : Int) from rfl]
      rcases Bool.eq_false_or_eq_true (o.flagSimplifyTimeSignature && (a' : Int) % 2 == 0 && (b' : Int) % 2 == 0) with hs | hs <;>
      by_cases h1 : d.tsNum = (a' : Int) <;> by_cases h2 : d.tsDen = (b' : Int) <;>
      rcases Bool.eq_false_or_eq_true o.flagRunningValues with hr | hr <;>
      by_cases hl : d.seqs.length = 0 <;>
        (have hl' : 0 < d.seqs.length ∨ d.seqs.length = 0 := by omega
         simp [hs, h1, h2, hr, hl, Nat.pos_of_ne_zero, pyModifyAt_abs, liftE, ofErr, gD, Msg.mkTimeSig, pure, Except.pure,
           bind, Except.bind]) <;> (try (intro hh; omega)) <;> (try omega)

/-- the sort key of `detokenise` / `get_info`: position of the prefix in `sort_order`, or -1 -/
def keyOf : Part → Int
  | .trk _ => 0 | .val _ => 1 | .vel _ => 2 | .pit _ => 3 | _ => -1

def sortKeyFn : List String → Except PyErr Int := fun part =>
  (do pure (← (if (sortOrder.contains (← pyItem part 0)) then (do pure (← pyIndexOf sortOrder (← pyItem part 0))) else pure (-1))))

theorem sortKey_partStrs (p : Part) : sortKeyFn (partStrs p) = .ok (keyOf p) := by
  cases p <;>
    simp (disch := decide) only [sortKeyFn, partStrs, pyItem_cons_zero, ok_bind, sortOrder, List.contains_cons, List.contains_nil,
      pfxne, pfx_beq, Bool.or_false, Bool.false_or, Bool.or_true, Bool.true_or, beq_self_eq_true, decide_true, decide_false,
      Bool.false_eq_true, if_false, if_true, pyIndexOf, List.idxOf?, List.findIdx?, bind, Except.bind, pure, Except.pure] <;>
    first
    | rfl
    | (simp (disch := decide) only [List.findIdx?.go, pfxne, beq_self_eq_true, Bool.false_eq_true, if_false, if_true, cond_true, cond_false]; rfl)

theorem mapME_map_ok {α β γ ε} (f : β → Except ε γ) (g : α → β) (h : α → γ) (hh : ∀ a, f (g a) = .ok (h a)) :
    ∀ l : List α, mapME f (l.map g) = .ok (l.map h)
  | [] => rfl
  | x :: xs => by simp [mapME, hh x, mapME_map_ok f g h hh xs]

theorem pySortedBy_parts (ps : List Part) :
    pySortedBy (ps.map partStrs) sortKeyFn = .ok ((sortByKeys (ps.map fun p => (keyOf p, partStrs p))).map (·.2)) := by
  unfold pySortedBy
  rw [mapME_map_ok _ partStrs (fun p => (keyOf p, partStrs p))]
  intro p
  simp [sortKey_partStrs]

/-- the parts of a token in the order `render` writes them -/
def rparts : Tok → List Part
  | .pad => [.pad] | .sta => [.sta] | .sto => [.sto] | .bar => [.bar]
  | .rest v => [.rest v] | .trk t => [.trk t] | .val v => [.val v] | .vel v => [.vel v]
  | .note t p v w =>
    (match t with | some t => [Part.trk t] | Option.none => []) ++ [Part.pit p] ++
    (match v with | some v => [Part.val v] | Option.none => []) ++
    (match w with | some w => [Part.vel w] | Option.none => [])
  | .tsig n d => [.tsig n d]

theorem sorted_rparts (t : Tok) :
    (sortByKeys ((rparts t).map fun p => (keyOf p, partStrs p))).map (·.2) = t.parts.map partStrs := by
  cases t with
  | note t p v w => cases t <;> cases v <;> cases w <;> simp [rparts, Tok.parts, sortByKeys, insertByKey, keyOf]
  | _ => rfl

theorem splitToken_eq (s : String) : splitToken s = .ok ((s.splitOn "-").map (fun part => part.splitOn "_")) := rfl

theorem split_special (name : String) (hn : name ∈ usedNames) : splitToken (prefixOf name) = .ok [[prefixOf name]] := by
  rw [splitToken_eq, (parse_render_special name hn).1]
  simp [(parse_render_special name hn).2]

theorem split_field (name : String) (hn : name ∈ usedNames) (w n : Nat) :
    splitToken (field name w n) = .ok [[prefixOf name, zpad w (n : Int)]] := by
  rw [splitToken_eq, field_splitDash name hn]
  simp [field_split name hn]

theorem split_tsig (a b : Nat) :
    splitToken (render (.tsig a b)) = .ok [[prefixOf "TIME_SIGNATURE", zpad 2 (a : Int), zpad 2 (b : Int)]] := by
  have h : render (.tsig a b) = "_".intercalate [prefixOf "TIME_SIGNATURE", zpad 2 (a : Int), zpad 2 (b : Int)] := by
    rw [intercalate_three]; rfl
  have hus : ∀ s ∈ [prefixOf "TIME_SIGNATURE", zpad 2 (a : Int), zpad 2 (b : Int)], '_' ∉ s.toList := by
    intro s hs
    simp only [List.mem_cons, List.not_mem_nil, or_false] at hs
    rcases hs with rfl | rfl | rfl
    · exact us_not_mem_prefix _ (by decide)
    · exact us_not_mem_zpad 2 a
    · exact us_not_mem_zpad 2 b
  have h1 : (render (.tsig a b)).splitOn "_" = [prefixOf "TIME_SIGNATURE", zpad 2 (a : Int), zpad 2 (b : Int)] := by
    rw [h, us_eq, splitOn_intercalate _ _ (by simp) hus]
  have h2 : (render (.tsig a b)).splitOn "-" = [render (.tsig a b)] := by
    rw [dash_eq]; apply splitOn_of_not_mem
    have d1 := dash_not_mem_prefix "TIME_SIGNATURE" (by decide)
    have d2 := dash_not_mem_zpad 2 a
    have d3 := dash_not_mem_zpad 2 b
    rw [h, intercalate_three]
    simp [d1, d2, d3]
  rw [splitToken_eq, h2]
  simp [h1]

theorem split_render (t : Tok) (h : TokOk t) : splitToken (render t) = .ok ((rparts t).map partStrs) := by
  cases t with
  | pad => exact split_special "PAD" (by decide)
  | sta => exact split_special "START" (by decide)
  | sto => exact split_special "STOP" (by decide)
  | bar => exact split_special "BAR" (by decide)
  | rest v => obtain ⟨n, rfl⟩ := Int.eq_ofNat_of_zero_le (show 0 ≤ v from h); exact split_field "REST" (by decide) 2 n
  | trk v => obtain ⟨n, rfl⟩ := Int.eq_ofNat_of_zero_le (show 0 ≤ v from h); exact split_field "TRACK" (by decide) 2 n
  | val v => obtain ⟨n, rfl⟩ := Int.eq_ofNat_of_zero_le (show 0 ≤ v from h); exact split_field "VALUE" (by decide) 2 n
  | vel v => obtain ⟨n, rfl⟩ := Int.eq_ofNat_of_zero_le (show 0 ≤ v from h); exact split_field "VELOCITY" (by decide) 3 n
  | tsig a b =>
    obtain ⟨a', rfl⟩ := Int.eq_ofNat_of_zero_le h.1
    obtain ⟨b', rfl⟩ := Int.eq_ofNat_of_zero_le h.2
    exact split_tsig a' b'
  | note t p v w =>
    obtain ⟨h1, h2, h3, h4⟩ := h
    obtain ⟨t', rfl⟩ := optNonneg_eq h1
    obtain ⟨p', rfl⟩ := Int.eq_ofNat_of_zero_le h2
    obtain ⟨v', rfl⟩ := optNonneg_eq h3
    obtain ⟨w', rfl⟩ := optNonneg_eq h4
    have hs := noteParts_split t' p' v' w'
    rw [splitToken_eq]
    show Except.ok (List.map _ ((render (noteOf t' p' v' w')).splitOn "-")) = _
    rw [hs]
    cases t' <;> cases v' <;> cases w' <;>
      simp (disch := decide) [noteParts, rparts, partStrs, field_split]

/-- the fold of `dstep` -/
def dfold (c : Cfg) (d : DetokSt) (ps : List Part) : Except Err DetokSt :=
  ps.foldl (fun (acc : Except Err DetokSt) p => match acc with | .ok d => dpart c d p | .error e => .error e) (Except.ok d)

theorem dfold_error (c : Cfg) (e : Err) (ps : List Part) :
    ps.foldl (fun (acc : Except Err DetokSt) p => match acc with | .ok d => dpart c d p | .error e => .error e) (Except.error e)
      = .error e := by
  induction ps with
  | nil => rfl
  | cons p ps ih => exact ih

theorem dfold_cons (c : Cfg) (d : DetokSt) (p : Part) (ps : List Part) :
    dfold c d (p :: ps) = match dpart c d p with | .ok d' => dfold c d' ps | .error e => .error e := by
  unfold dfold
  simp only [List.foldl_cons]
  cases dpart c d p with
  | ok d' => rfl
  | error e => exact dfold_error c e ps

theorem dpart_prvTrack (c : Cfg) (ppqn : Int) (d d' : DetokSt) (p : Part) (hp : PartOk ppqn p) (hd : 0 ≤ d.prvTrack)
    (h : dpart c d p = .ok d') : 0 ≤ d'.prvTrack := by
  cases p <;> simp only [dpart] at h
  case pad | sta | sto => cases h; exact hd
  case bar | rest | val | vel => cases h; exact hd
  case trk t => cases h; exact hp
  case pit p => split at h <;> cases h; exact hd
  case tsig a b =>
    split at h
    · cases h; exact hd
    · split at h <;> cases h; exact hd

theorem pyItem_nat {α} (l : List α) (k : Nat) (x : α) (h : l[k]? = some x) : pyItem l (k : Int) = .ok x := by
  have := pyItem_ofNat l k
  rw [h] at this
  exact this

theorem loop2_fold (o : TokObj) (all : List Part) : ∀ (suffix : List Part) (k : Nat) (d : DetokSt),
    all.drop k = suffix → (∀ p ∈ suffix, PartOk o.ppqn p) → 0 ≤ d.prvTrack →
    forIn (pyEnumerateFrom k (suffix.map mainOf)) (gD d) (fun x s => detokeniseLoop2 o (all.map partStrs) x s)
      = liftE gD (dfold (cfgOf o) d suffix) := by
  intro suffix
  induction suffix with
  | nil => intro k d _ _ _; rfl
  | cons p ps ih =>
    intro k d hdrop hok hd
    have hk : all[k]? = some p := by
      have := congrArg List.head? hdrop
      simpa [List.head?_drop] using this
    have hi : pyItem (all.map partStrs) (k : Int) = .ok (partStrs p) := pyItem_nat _ _ _ (by simp [hk])
    simp only [List.map_cons, pyEnumerateFrom, List.forIn_cons]
    rw [detokeniseLoop2_eq o _ _ p d hi (hok p (by simp)) hd, dfold_cons]
    cases hdp : dpart (cfgOf o) d p with
    | error e => rfl
    | ok d' =>
      simp only [liftE, ok_bind]
      have hdrop' : all.drop (k + 1) = ps := by
        rw [← List.drop_drop, hdrop]; rfl
      exact ih (k + 1) d' hdrop' (fun q hq => hok q (by simp [hq])) (dpart_prvTrack _ _ _ _ _ (hok p (by simp)) hd hdp)

/-- side condition on a token for the tie of `detokenise`: natural-number fields (`TokOk`), and a time signature with a
    non-zero denominator and a non-negative bar length -/
def TokOkD (ppqn : Int) (t : Tok) : Prop :=
  TokOk t ∧ ∀ a b, t = .tsig a b → 0 < b ∧ 0 ≤ ppqn * 4 * a

theorem parts_ok (ppqn : Int) (t : Tok) (h : TokOkD ppqn t) : ∀ p ∈ t.parts, PartOk ppqn p := by
  obtain ⟨h1, h2⟩ := h
  cases t with
  | pad | sta | sto | bar => intro p hp; simp [Tok.parts] at hp; subst hp; trivial
  | rest v | trk v | val v | vel v => intro p hp; simp [Tok.parts] at hp; subst hp; exact h1
  | tsig a b =>
    intro p hp; simp [Tok.parts] at hp; subst hp
    exact ⟨h1.1, (h2 a b rfl).1, (h2 a b rfl).2⟩
  | note t p v w =>
    obtain ⟨ht, hp, hv, hw⟩ := h1
    intro q hq
    cases t <;> cases v <;> cases w <;> simp [Tok.parts] at hq <;> (try rcases hq with rfl | rfl | rfl | rfl) <;>
      (try subst hq) <;> first | exact hp | exact ht | exact hv | exact hw

theorem head_partStrs (p : Part) : pyItem (partStrs p) 0 = .ok (mainOf p) := by
  cases p <;> exact pyItem_cons_zero _ _

theorem detokeniseLoop1_eq (o : TokObj) (t : Tok) (d : DetokSt) (ht : TokOkD o.ppqn t) (hd : 0 ≤ d.prvTrack) :
    detokeniseLoop1 o (render t) (gD d) =
      liftE (fun d' => ForInStep.yield (gD d')) (dstep (cfgOf o) d t) := by
  unfold detokeniseLoop1
  simp only [split_render t ht.1, ok_bind]
  rw [show (fun part : List String => (do pure (← (if (sortOrder.contains (← pyItem part 0)) then
      (do pure (← pyIndexOf sortOrder (← pyItem part 0))) else pure (-1))) : Except PyErr Int)) = sortKeyFn from rfl]
  rw [pySortedBy_parts, sorted_rparts]
  simp only [ok_bind]
  rw [mapME_map_ok _ partStrs mainOf head_partStrs]
  simp only [ok_bind, pyEnumerate]
  rw [loop2_fold o t.parts t.parts 0 d rfl (parts_ok _ t ht) hd]
  show _ = liftE _ (dfold (cfgOf o) d t.parts)
  cases dfold (cfgOf o) d t.parts with
  | error e => rfl
  | ok d' => rfl

theorem dfold_prvTrack (c : Cfg) (ppqn : Int) : ∀ (ps : List Part) (d d' : DetokSt), (∀ p ∈ ps, PartOk ppqn p) → 0 ≤ d.prvTrack →
    dfold c d ps = .ok d' → 0 ≤ d'.prvTrack := by
  intro ps
  induction ps with
  | nil => intro d d' _ hd h; cases h; exact hd
  | cons p ps ih =>
    intro d d' hok hd h
    rw [dfold_cons] at h
    cases hdp : dpart c d p with
    | error e => rw [hdp] at h; cases h
    | ok d1 =>
      rw [hdp] at h
      exact ih d1 d' (fun q hq => hok q (by simp [hq])) (dpart_prvTrack c ppqn d d1 p (hok p (by simp)) hd hdp) h

/-- the fold of `detokenise` over the tokens -/
def tfold (c : Cfg) (d : DetokSt) (ts : List Tok) : Except Err DetokSt :=
  ts.foldl (fun (acc : Except Err DetokSt) t => match acc with | .ok d => dstep c d t | .error e => .error e) (Except.ok d)

theorem tfold_error (c : Cfg) (e : Err) (ts : List Tok) :
    ts.foldl (fun (acc : Except Err DetokSt) t => match acc with | .ok d => dstep c d t | .error e => .error e) (Except.error e)
      = .error e := by
  induction ts with
  | nil => rfl
  | cons p ps ih => exact ih

theorem tfold_cons (c : Cfg) (d : DetokSt) (t : Tok) (ts : List Tok) :
    tfold c d (t :: ts) = match dstep c d t with | .ok d' => tfold c d' ts | .error e => .error e := by
  unfold tfold
  simp only [List.foldl_cons]
  cases dstep c d t with
  | ok d' => rfl
  | error e => exact tfold_error c e ts

theorem loop1_fold (o : TokObj) : ∀ (ts : List Tok) (d : DetokSt), (∀ t ∈ ts, TokOkD o.ppqn t) → 0 ≤ d.prvTrack →
    forIn (ts.map render) (gD d) (fun x s => detokeniseLoop1 o x s) = liftE gD (tfold (cfgOf o) d ts) := by
  intro ts
  induction ts with
  | nil => intro d _ _; rfl
  | cons t ts ih =>
    intro d hok hd
    simp only [List.map_cons, List.forIn_cons]
    rw [detokeniseLoop1_eq o t d (hok t (by simp)) hd, tfold_cons]
    cases hds : dstep (cfgOf o) d t with
    | error e => rfl
    | ok d' =>
      simp only [liftE, ok_bind]
      exact ih d' (fun q hq => hok q (by simp [hq]))
        (dfold_prvTrack _ o.ppqn t.parts d d' (parts_ok _ t (hok t (by simp))) hd hds)

theorem detokenise_hand (o : TokObj) (ts : List Tok) (hp : 0 ≤ o.ppqn) (hts : ∀ t ∈ ts, TokOkD o.ppqn t) :
    Gen.Tok.detokenise o (ts.map render) =
      liftE (fun seqs => seqs.map LSeq.abs) (SCoda.detokenise (cfgOf o) ts) := by
  unfold Gen.Tok.detokenise
  have h8 : Gen.defaultTimeSignatureDenominator ≠ 0 := by decide
  have hn : 0 ≤ o.ppqn * 4 * Gen.defaultTimeSignatureNumerator := by
    have : Gen.defaultTimeSignatureNumerator = 8 := rfl
    rw [this]; omega
  simp only [pyTrueDiv_ok _ _ h8, ok_bind, ratTrunc_capacity _ _ h8 hn]
  have hinit : ((pyRange 0 o.numTracks).map (fun _ => LSeq.new), (0 : Int), (0 : Int), Gen.defaultTimeSignatureNumerator,
      Gen.defaultTimeSignatureDenominator, o.ppqn * 4 * Gen.defaultTimeSignatureNumerator / Gen.defaultTimeSignatureDenominator,
      o.ppqn * 4 * Gen.defaultTimeSignatureNumerator / Gen.defaultTimeSignatureDenominator, (0 : Int), (24 : Int), (127 : Int))
      = gD (DetokSt.init (cfgOf o)) := by
    have hrep : ∀ n : Nat, List.map ((fun _ => LSeq.abs []) ∘ fun (i : Nat) => (i : Int)) (List.range n)
        = List.replicate n (LSeq.abs []) := by
      intro n; induction n with
      | zero => rfl
      | succ n ih => rw [List.range_succ, List.map_append, ih, List.replicate_succ']; rfl
    simp [gD, DetokSt.init, cfgOf, Cfg.capacity, pyRange, LSeq.new, hrep]
  rw [hinit, loop1_fold o ts _ hts (show (0 : Int) ≤ 0 by decide)]
  unfold SCoda.detokenise
  show _ = liftE _ (match tfold (cfgOf o) (DetokSt.init (cfgOf o)) ts with | .ok d => .ok d.seqs | .error e => .error e)
  cases tfold (cfgOf o) (DetokSt.init (cfgOf o)) ts with
  | error e => rfl
  | ok d => rfl

end SCoda.TokTieL
