/-
  Helper lemmas for Props/StaticTie.lean (generated static functions of Gen/StaticFns.lean = hand models).
  Part 1: `Sequence.sequences_split_bars`.
  * list primitives of the prelude (Model/StaticLib.lean);
  * `trackStepG`: what one round of the inner loop does to one track, in terms of the wrapper model and `Gen.Elem.barInit`;
    `trackStepG_spec`: it is `SB.trackStep` (Lemmas/SplitBars.lean) on the relative view;
  * `innerLoop`: the `for i, sequence in enumerate(sequences)` loop with its in-place reads and writes is a `mapM`;
  * the `while` loop against `splitBarsGo` by induction on the fuel.
-/
import SCoda.Gen.StaticFns
import SCoda.Props.ElemTie
import SCoda.Lemmas.SplitBars
namespace SCoda.StaticTieL
open SCoda SCoda.WrapTie SCoda.SB SCoda.ElemTie

instance {ε α : Type} [DecidableEq ε] [DecidableEq α] : DecidableEq (Except ε α)
  | .ok a, .ok b => if h : a = b then isTrue (h ▸ rfl) else isFalse (fun h' => h (by cases h'; rfl))
  | .error a, .error b => if h : a = b then isTrue (h ▸ rfl) else isFalse (fun h' => h (by cases h'; rfl))
  | .ok _, .error _ => isFalse (by intro h; cases h)
  | .error _, .ok _ => isFalse (by intro h; cases h)

/-! ### list primitives -/

theorem pyGetNat_some {α} {l : List α} {i : Nat} {x : α} (h : l[i]? = some x) : pyGetNat l i = .ok x := by
  simp [pyGetNat, h]

theorem pyGetNat_none {α} {l : List α} {i : Nat} (h : l[i]? = none) : pyGetNat l i = .error .indexError := by
  simp [pyGetNat, h]

theorem pyGetNat_lt {α} (l : List α) (i : Nat) (h : i < l.length) : pyGetNat l i = .ok l[i] := by
  simp [pyGetNat, h]

theorem pyGetNat_ge {α} (l : List α) (i : Nat) (h : l.length ≤ i) : pyGetNat l i = .error .indexError := by
  simp [pyGetNat, List.getElem?_eq_none h]

theorem pySetNat_lt {α} (l : List α) (i : Nat) (v : α) (h : i < l.length) : pySetNat l i v = .ok (l.set i v) := by
  simp [pySetNat, h]

theorem pySetNat_ge {α} (l : List α) (i : Nat) (v : α) (h : l.length ≤ i) : pySetNat l i v = .error .indexError := by
  simp [pySetNat, Nat.not_lt.mpr h]

theorem pyGetInt_zero {α} (l : List α) : pyGetInt l 0 = pyGetNat l 0 := by simp [pyGetInt]
theorem pyGetInt_one {α} (l : List α) : pyGetInt l 1 = pyGetNat l 1 := by simp [pyGetInt]
theorem pySetInt_zero {α} (l : List α) (v : α) : pySetInt l 0 v = pySetNat l 0 v := by simp [pySetInt]

/-! ### a loop that reads slot `i`, computes, and writes slot `i` back is a `mapM` -/

/-- the body of `for i, x in enumerate(xs)` in alias mode: read `xs[i]`, one step, write `xs[i]`, append to `ys[i]` -/
def getSetBody {α γ : Type} (step : α → Except Err (Bool × α × γ)) (i : Nat) (st : List α × List (List γ) × Bool) :
    Except Err (ForInStep (List α × List (List γ) × Bool)) := do
  let x ← pyGetNat st.1 i
  let o ← step x
  let xs ← pySetNat st.1 i o.2.1
  let y ← pyGetNat st.2.1 i
  let ys ← pySetNat st.2.1 i (y ++ [o.2.2])
  pure (.yield (xs, ys, st.2.2 && !o.1))

def getSetAll {α γ : Type} (step : α → Except Err (Bool × α × γ)) (xs : List α) (ys : List (List γ)) (sync : Bool) :
    Except Err (List α × List (List γ) × Bool) := do
  let os ← xs.mapM step
  pure (os.map (·.2.1), List.zipWith (fun y (o : Bool × α × γ) => y ++ [o.2.2]) ys os, sync && os.all (fun o => !o.1))

theorem getSet_go {α γ : Type} (step : α → Except Err (Bool × α × γ)) :
    ∀ (xs : List α) (ys : List (List γ)) (px : List α) (py : List (List γ)) (sync : Bool),
      py.length = px.length → ys.length = xs.length →
      forIn (List.range' px.length xs.length) (px ++ xs, py ++ ys, sync) (getSetBody step) =
        (getSetAll step xs ys sync).map (fun r => (px ++ r.1, py ++ r.2.1, r.2.2)) := by
  intro xs
  induction xs with
  | nil =>
    intro ys px py sync _ hy
    have : ys = [] := List.length_eq_zero_iff.mp hy
    subst this
    simp [getSetAll, Except.map, pure, Except.pure]
  | cons x xs ih =>
    intro ys px py sync hp hy
    cases ys with
    | nil => simp at hy
    | cons y ys =>
      have hy' : ys.length = xs.length := by simpa using hy
      have hgx : pyGetNat (px ++ x :: xs) px.length = .ok x := by
        apply pyGetNat_some; simp
      have hgy : pyGetNat (py ++ y :: ys) px.length = .ok y := by
        apply pyGetNat_some; rw [← hp]; simp
      simp only [List.length_cons, List.range'_succ, List.forIn_cons, getSetBody, hgx, ok_bind]
      cases hs : step x with
      | error er => simp [getSetAll, hs, Except.map, bind, Except.bind]
      | ok o =>
        have hsx : pySetNat (px ++ x :: xs) px.length o.2.1 = .ok ((px ++ [o.2.1]) ++ xs) := by
          rw [pySetNat_lt _ _ _ (by simp)]; simp
        have hsy : pySetNat (py ++ y :: ys) px.length (y ++ [o.2.2]) = .ok ((py ++ [y ++ [o.2.2]]) ++ ys) := by
          rw [pySetNat_lt _ _ _ (by simp [← hp])]; simp [← hp]
        simp only [ok_bind, hsx, hgy, hsy, pure_eq]
        have := ih ys (px ++ [o.2.1]) (py ++ [y ++ [o.2.2]]) (sync && !o.1) (by simp [hp]) hy'
        simp only [List.length_append, List.length_cons, List.length_nil, Nat.zero_add] at this
        rw [this]
        simp only [getSetAll, List.mapM_cons, hs, ok_bind]
        cases xs.mapM step with
        | error er => rfl
        | ok os => simp [Except.map, pure, Except.pure, bind, Except.bind, Bool.and_assoc]

theorem getSet_loop {α γ : Type} (step : α → Except Err (Bool × α × γ)) (xs : List α) (ys : List (List γ)) (sync : Bool)
    (hy : ys.length = xs.length) :
    forIn (List.range xs.length) (xs, ys, sync) (getSetBody step) = getSetAll step xs ys sync := by
  have := getSet_go step xs ys [] [] sync rfl hy
  simp only [List.length_nil, List.nil_append] at this
  rw [List.range_eq_range', this]
  cases getSetAll step xs ys sync <;> rfl

/-! ### one track in one round -/

/-- the tail of the inner loop body: optional shorten-only re-quantisation of the piece, then `Bar(…)` -/
def finishG (e : Env) (requant : Bool) (num den key : Int) (two : Bool) (newS first : Seq) :
    Except Err (Bool × Seq × GBar) := do
  let first' ← if requant then Seq.qnlSeq e first none e.ppqn true else pure first
  let bar ← Gen.Elem.barInit e first' num den (if decide (key ≠ pyNone) then key else pyNone) 0
  pure (two, newS, bar)

/-- what the inner loop body of `sequences_split_bars` does to `sequences[i]`: `(two pieces?, new sequences[i], bar)` -/
def trackStepG (e : Env) (requant : Bool) (num den key len : Int) (s : Seq) : Except Err (Bool × Seq × GBar) := do
  let p ← s.readRel
  let ps ← split p.2 [len]
  match ps with
  | a :: b :: _ => finishG e requant num den key true (Seq.ofRel b) (Seq.ofRel a)
  | [a] => finishG e requant num den key false Seq.new (Seq.ofRel a)
  | [] => finishG e requant num den key false Seq.new Seq.new

/-- the loop state of the `while` loop: sequences, current_point_in_time, numerator, denominator, key, the two queues,
    tracks_bars, tracks_synchronised -/
abbrev St := List Seq × Int × Int × Int × Int × List (Int × Msg) × List (Int × Msg) × List (List GBar) × Bool

/-- `next((t for t in q if t[0] <= now), None)`, then `q.pop(0)` and the fields of the *found* entry -/
def sigStep (now num den : Int) (q : List (Int × Msg)) : Except Err (Int × Int × List (Int × Msg)) :=
  match q.find? (fun t => decide (t.1 ≤ now)) with
  | some t => do let p ← pyPop0 q; pure (t.2.num, t.2.den, p.2)
  | none => pure (num, den, q)

def keyStep (now key : Int) (q : List (Int × Msg)) : Except Err (Int × List (Int × Msg)) :=
  match q.find? (fun t => decide (t.1 ≤ now)) with
  | some t => do let p ← pyPop0 q; pure (t.2.key, p.2)
  | none => pure (key, q)

/-- `int(PPQN * (numerator / (denominator / 4)))` as translated -/
def lenPy (e : Env) (num den : Int) : Int :=
  pyIntOf (PyNum.mul (PyNum.int e.ppqn) (PyNum.truediv (PyNum.int num) (PyNum.truediv (PyNum.int den) (PyNum.int 4))))

/-- one iteration of the translated `while` loop -/
def roundBody (e : Env) (requant : Bool) (st : St) : Except Err (ForInStep St) :=
  if st.2.2.2.2.2.2.2.2 then pure (.done st) else do
    let sg ← sigStep st.2.1 st.2.2.1 st.2.2.2.1 st.2.2.2.2.2.1
    let kk ← keyStep st.2.1 st.2.2.2.2.1 st.2.2.2.2.2.2.1
    let len := lenPy e sg.1 sg.2.1
    let r ← forIn (List.range st.1.length) (st.1, st.2.2.2.2.2.2.2.1, true) (getSetBody (trackStepG e requant sg.1 sg.2.1 kk.1 len))
    pure (.yield (r.1, st.2.1 + len, sg.1, sg.2.1, kk.1, sg.2.2, kk.2, r.2.1, r.2.2))

theorem forIn_ext {α β : Type} (l : List α) (b : β) (f g : α → β → Except Err (ForInStep β)) (h : ∀ a b, f a b = g a b) :
    forIn l b f = forIn l b g := by
  have : f = g := funext fun a => funext (h a)
  rw [this]

/-- the translated inner loop body is "read slot i, `trackStepG`, write slot i, append the bar to `tracks_bars[i]`" -/
theorem loop2_eq (e : Env) (rq : Bool) (num den key len : Int) (i : Nat) (st : List Seq × List (List GBar) × Bool) :
    Gen.Static.sequencesSplitBars_loop2 e rq num den key len i st = getSetBody (trackStepG e rq num den key len) i st := by
  obtain ⟨xs, ys, sync⟩ := st
  unfold Gen.Static.sequencesSplitBars_loop2 getSetBody trackStepG
  simp only []
  cases hx : pyGetNat xs i with
  | error er => rfl
  | ok x =>
    have hi : i < xs.length := by
      by_contra h
      rw [pyGetNat_ge _ _ (by omega)] at hx; cases hx
    simp only [ok_bind, getRel_eq]
    cases hr : x.readRel with
    | error er => rfl
    | ok p =>
      have hp := readRel_snd _ _ _ (show x.readRel = .ok (p.1, p.2) from hr)
      simp only [map_ok, ok_bind, View.rel_split, ← hp]
      cases hs : split p.2 [len] with
      | error er => rfl
      | ok ps =>
        simp only [ok_bind, pySetNat_lt _ _ _ hi, View.seq_init, pyGetInt_zero, pyGetInt_one, pySetInt_zero,
          quantiseNoteLengths_eq, finishG]
        rcases ps with _ | ⟨a, _ | ⟨b, tl⟩⟩ <;> cases rq <;>
          simp [pyGetNat, pySetNat, hi, unit_bind]

theorem loop2_fun (e : Env) (rq : Bool) (num den key len : Int) :
    Gen.Static.sequencesSplitBars_loop2 e rq num den key len = getSetBody (trackStepG e rq num den key len) := by
  funext i st; exact loop2_eq e rq num den key len i st

/-- the translated `while` body is `roundBody` -/
theorem loop1_eq (e : Env) (rq : Bool) (u : Unit) (st : St) :
    Gen.Static.sequencesSplitBars_loop1 e rq u st = roundBody e rq st := by
  obtain ⟨sq, now, num, den, key, tsT, ksT, bars, sync⟩ := st
  unfold Gen.Static.sequencesSplitBars_loop1 roundBody
  simp only []
  cases sync
  · simp only [Bool.not_false, Bool.not_true, sigStep, keyStep, lenPy, loop2_fun]
    cases List.find? (fun t : Int × Msg => decide (t.1 ≤ now)) tsT <;>
    cases List.find? (fun t : Int × Msg => decide (t.1 ≤ now)) ksT <;>
    simp only [Bool.false_eq_true, if_false, pure_eq, ok_bind] <;>
    (try cases pyPop0 tsT) <;> (try cases pyPop0 ksT) <;> simp only [ok_bind, error_bind]
  · rfl

theorem loop1_fun (e : Env) (rq : Bool) :
    Gen.Static.sequencesSplitBars_loop1 e rq = fun _ st => roundBody e rq st := by
  funext u st; exact loop1_eq e rq u st

/-! ### `Sequence.get_message_times_of_type` -/

/-- the queue the translated code works with: `(time, ReadOnlyMessage(msg))` per message -/
def qOf (q : List Msg) : List (Int × Msg) := q.map (fun m => (m.time, pyMsgCopy m))

theorem forIn_append_loop (l : List (Int × Msg)) (acc : List (Int × Msg)) (e : Env) :
    forIn l acc (Gen.Static.getMessageTimesOfType_loop1 e) = .ok (acc ++ l.map (fun p => (p.1, pyMsgCopy p.2))) := by
  induction l generalizing acc with
  | nil => simp
  | cons x xs ih =>
    rw [List.forIn_cons]
    simp only [Gen.Static.getMessageTimesOfType_loop1, pure_eq, ok_bind]
    rw [ih]; simp

theorem getMessageTimesOfType_eq (e : Env) (s : Seq) (tys : List MType) :
    Gen.Static.getMessageTimesOfType e s tys =
      (do let p ← s.readAbs; pure (p.1, qOf (p.2.filter (fun m => tys.contains m.ty)))) := by
  unfold Gen.Static.getMessageTimesOfType
  simp only [getAbs_eq, View.abs_get_message_times_of_type, forIn_append_loop]
  cases hr : s.readAbs with
  | error er => rfl
  | ok p =>
    have hp := readAbs_snd _ _ _ (show s.readAbs = .ok (p.1, p.2) from hr)
    obtain ⟨⟨a, r, sa, sr⟩, l⟩ := p
    simp only at hp
    subst hp
    simp [qOf, List.map_map, Function.comp_def]

/-! ### the two queues and the bar length -/

/-- times never decrease along a queue (true of everything `toAbs` produces) -/
def TimeAsc (q : List Msg) : Prop := q.Pairwise (fun a b => a.time ≤ b.time)

/-- what the loop reads of a queue entry -/
def qView (t : Int × Msg) : Int × Int × Int × Int := (t.1, t.2.num, t.2.den, t.2.key)
/-- the translated queue `(time, message)` against the hand model's queue of messages: same times and payloads -/
def QRel (l : List (Int × Msg)) (q : List Msg) : Prop := l.map qView = q.map (fun m => (m.time, m.num, m.den, m.key))
/-- times never decrease along a translated queue -/
def AscT (l : List (Int × Msg)) : Prop := l.Pairwise (fun a b => a.1 ≤ b.1)
/-- `q.pop(0)` if the head is due -/
def popIf (now : Int) (l : List (Int × Msg)) : List (Int × Msg) :=
  match l with
  | t :: rest => if t.1 ≤ now then rest else l
  | [] => []

theorem QRel_qOf (q : List Msg) : QRel (qOf q) q := by
  simp [QRel, qOf, qView, pyMsgCopy, List.map_map, Function.comp_def]

theorem AscT_qOf (q : List Msg) (h : TimeAsc q) : AscT (qOf q) := by
  unfold AscT qOf
  rw [List.pairwise_map]
  exact h

theorem find_headT (l : List (Int × Msg)) (h : AscT l) (now : Int) :
    l.find? (fun t => decide (t.1 ≤ now)) =
      match l with
      | [] => none
      | t :: _ => if t.1 ≤ now then some t else none := by
  cases l with
  | nil => rfl
  | cons t rest =>
    simp only [List.find?_cons]
    by_cases hm : t.1 ≤ now
    · simp [hm]
    · simp only [hm, decide_false, if_false]
      rw [List.find?_eq_none]
      intro x hx
      have := (List.pairwise_cons.mp h).1 x hx
      simp only [decide_eq_true_eq]; omega

theorem sigStepT_eq (now num den : Int) (l : List (Int × Msg)) (q : List Msg) (h : AscT l) (hq : QRel l q) :
    sigStep now num den l = .ok ((nextSig now num den q).1, (nextSig now num den q).2.1, popIf now l) := by
  unfold sigStep
  rw [find_headT l h]
  cases l with
  | nil =>
    cases q with
    | nil => rfl
    | cons m rest => simp [QRel] at hq
  | cons t rest =>
    cases q with
    | nil => simp [QRel] at hq
    | cons m qs =>
      simp only [QRel, List.map_cons, List.cons.injEq, qView, Prod.mk.injEq] at hq
      obtain ⟨⟨h1, h2, h3, h4⟩, _⟩ := hq
      by_cases hm : t.1 ≤ now
      · have hm' : m.time ≤ now := by omega
        simp [hm, hm', nextSig, popIf, pyPop0, h2, h3]
      · have hm' : ¬ m.time ≤ now := by omega
        simp [hm, hm', nextSig, popIf]

theorem keyStepT_eq (now key : Int) (l : List (Int × Msg)) (q : List Msg) (h : AscT l) (hq : QRel l q) :
    keyStep now key l = .ok ((nextKey now key q).1, popIf now l) := by
  unfold keyStep
  rw [find_headT l h]
  cases l with
  | nil =>
    cases q with
    | nil => rfl
    | cons m rest => simp [QRel] at hq
  | cons t rest =>
    cases q with
    | nil => simp [QRel] at hq
    | cons m qs =>
      simp only [QRel, List.map_cons, List.cons.injEq, qView, Prod.mk.injEq] at hq
      obtain ⟨⟨h1, h2, h3, h4⟩, _⟩ := hq
      by_cases hm : t.1 ≤ now
      · have hm' : m.time ≤ now := by omega
        simp [hm, hm', nextKey, popIf, pyPop0, h4]
      · have hm' : ¬ m.time ≤ now := by omega
        simp [hm, hm', nextKey, popIf]

theorem QRel_popIf_sig (now num den : Int) (l : List (Int × Msg)) (q : List Msg) (hq : QRel l q) :
    QRel (popIf now l) (nextSig now num den q).2.2 := by
  cases l with
  | nil => cases q with
    | nil => exact hq
    | cons m rest => simp [QRel] at hq
  | cons t rest => cases q with
    | nil => simp [QRel] at hq
    | cons m qs =>
      have hq' := hq
      simp only [QRel, List.map_cons, List.cons.injEq, qView, Prod.mk.injEq] at hq'
      obtain ⟨⟨h1, _⟩, h5⟩ := hq'
      by_cases hm : t.1 ≤ now
      · have hm' : m.time ≤ now := by omega
        simp only [popIf, nextSig, hm, hm', if_true]; exact h5
      · have hm' : ¬ m.time ≤ now := by omega
        simp only [popIf, nextSig, hm, hm', if_false]; exact hq

theorem QRel_popIf_key (now key : Int) (l : List (Int × Msg)) (q : List Msg) (hq : QRel l q) :
    QRel (popIf now l) (nextKey now key q).2 := by
  cases l with
  | nil => cases q with
    | nil => exact hq
    | cons m rest => simp [QRel] at hq
  | cons t rest => cases q with
    | nil => simp [QRel] at hq
    | cons m qs =>
      have hq' := hq
      simp only [QRel, List.map_cons, List.cons.injEq, qView, Prod.mk.injEq] at hq'
      obtain ⟨⟨h1, _⟩, h5⟩ := hq'
      by_cases hm : t.1 ≤ now
      · have hm' : m.time ≤ now := by omega
        simp only [popIf, nextKey, hm, hm', if_true]; exact h5
      · have hm' : ¬ m.time ≤ now := by omega
        simp only [popIf, nextKey, hm, hm', if_false]; exact hq

theorem AscT_popIf (now : Int) (l : List (Int × Msg)) (h : AscT l) : AscT (popIf now l) := by
  cases l with
  | nil => exact h
  | cons t rest =>
    by_cases hm : t.1 ≤ now
    · simp only [popIf, hm, if_true]; exact (List.pairwise_cons.mp h).2
    · simp only [popIf, hm, if_false]; exact h

theorem lenPy_eq (e : Env) (n d : Int) (hn : 0 ≤ n) (hp : 0 ≤ e.ppqn) (hd : 0 < d) : lenPy e n d = barCapacity e.ppqn n d := by
  have h := C11.splitBarLenPy_eq n e.ppqn d hn hp hd
  unfold splitBarLenPy at h
  simp [lenPy, pyIntOf, h]

/-! ### one track in one round: `trackStepG` is `SB.trackStep` on the relative view -/

theorem keyIte (key : Int) : (if decide (key ≠ pyNone) then key else pyNone) = key := by
  by_cases h : key = pyNone <;> simp [h]

/-- what the hand model keeps of one track's result -/
def proj (o : Bool × Seq × GBar) : Bool × Seq × Bar := (o.1, o.2.1, o.2.2.toBar)

theorem finishG_spec (e : Env) (rq : Bool) (num den key : Int) (hn : 0 ≤ num) (hd : 0 < den) (hp : 0 ≤ e.ppqn)
    (two : Bool) (newS first : Seq) (a : List Msg) (hf : first = Seq.ofRel a ∨ (first = Seq.new ∧ a = [])) :
    proj <$> finishG e rq num den key two newS first =
      (do let piece ← requantPiece e.defValues e.ppqn rq a
          let bar ← mkBar e.ppqn piece num den key
          pure (two, newS, bar)) := by
  unfold finishG
  rw [keyIte]
  have hb := fun s => barInit_toBar e s num den key hn hd hp
  cases rq
  · simp only [Bool.false_eq_true, if_false, pure_eq, ok_bind, requantPiece]
    have h1 := hb first
    obtain ⟨s', hr⟩ : ∃ s', first.readRel = .ok (s', a) := by
      rcases hf with rfl | ⟨rfl, rfl⟩
      · exact ⟨_, rfl⟩
      · exact ⟨_, rfl⟩
    rw [hr] at h1
    simp only [ok_bind] at h1
    cases hi : Gen.Elem.barInit e first num den key 0 with
    | error x => rw [hi] at h1; simp only [map_error] at h1; rw [← h1]; rfl
    | ok g => rw [hi] at h1; simp only [map_ok] at h1; rw [← h1]; rfl
  · simp only [if_true, requantPiece, Seq.qnlSeq, Seq.onAbs, Option.getD_none]
    have hra : first.readAbs = .ok ({ first with abs := toAbs a, absStale := false }, toAbs a) := by
      rcases hf with rfl | ⟨rfl, rfl⟩
      · rfl
      · decide
    rw [hra]
    simp only [ok_bind]
    cases hq : quantiseNoteLengths e.defValues e.ppqn true (toAbs a) with
    | error x => rfl
    | ok a' =>
      simp only [ok_bind]
      have h1 := hb { abs := a', rel := first.rel, absStale := false, relStale := true }
      simp only [Seq.readRel, if_true, Bool.false_eq_true, if_false, ok_bind] at h1
      cases hi : Gen.Elem.barInit e { abs := a', rel := first.rel, absStale := false, relStale := true } num den key 0 with
      | error x => rw [hi] at h1; simp only [map_error] at h1; rw [← h1]; rfl
      | ok g => rw [hi] at h1; simp only [map_ok] at h1; rw [← h1]; rfl

/-- `sequences[i]` after the round: the second piece if there is one, a placeholder otherwise -/
def nsOf (two : Bool) (rest : List Msg) : Seq := if two then Seq.ofRel rest else Seq.new

theorem map_bind_ex {α β γ} (f : β → γ) (x : Except Err α) (k : α → Except Err β) :
    f <$> (x >>= k) = x >>= fun a => f <$> k a := by
  cases x <;> rfl

theorem trackStepG_eq (e : Env) (rq : Bool) (num den key : Int) (hn : 0 ≤ num) (hd : 0 < den) (hp : 0 ≤ e.ppqn) (s : Seq) :
    proj <$> trackStepG e rq num den key (barCapacity e.ppqn num den) s =
      (do let p ← s.readRel
          let o ← trackStep e.ppqn e.defValues rq (num, den, key) p.2
          pure (o.1, nsOf o.1 o.2.1, o.2.2)) := by
  unfold trackStepG trackStep
  simp only [map_bind_ex, sgLen]
  cases s.readRel with
  | error x => rfl
  | ok p =>
    simp only [ok_bind]
    cases split p.2 [barCapacity e.ppqn num den] with
    | error x => rfl
    | ok ps =>
      simp only [ok_bind]
      rcases ps with _ | ⟨a, _ | ⟨b, tl⟩⟩
      · simp only [finishG_spec e rq num den key hn hd hp false Seq.new Seq.new [] (Or.inr ⟨rfl, rfl⟩)]
        cases requantPiece e.defValues e.ppqn rq [] with
        | error x => rfl
        | ok piece => simp only [ok_bind]; cases mkBar e.ppqn piece num den key <;> rfl
      · simp only [finishG_spec e rq num den key hn hd hp false Seq.new (Seq.ofRel a) a (Or.inl rfl)]
        cases requantPiece e.defValues e.ppqn rq a with
        | error x => rfl
        | ok piece => simp only [ok_bind]; cases mkBar e.ppqn piece num den key <;> rfl
      · simp only [finishG_spec e rq num den key hn hd hp true (Seq.ofRel b) (Seq.ofRel a) a (Or.inl rfl)]
        cases requantPiece e.defValues e.ppqn rq a with
        | error x => rfl
        | ok piece => simp only [ok_bind]; cases mkBar e.ppqn piece num den key <;> rfl

theorem trackStep_rest {ppqn : Int} {values : List Int} {rq : Bool} {g : Sg} {t : List Msg} {o : Bool × List Msg × Bar}
    (h : trackStep ppqn values rq g t = .ok o) : o.1 = false → o.2.1 = [] := by
  unfold trackStep at h
  simp only [bind, Except.bind] at h
  repeat' split at h
  all_goals (first | (injection h with h; subst h; simp) | cases h)

theorem nsOf_readRel (two : Bool) (rest : List Msg) (h : two = false → rest = []) :
    (·.2) <$> (nsOf two rest).readRel = .ok rest := by
  cases two
  · rw [h rfl]; rfl
  · rfl

/-! ### all tracks in one round -/

theorem mapM_map_ex {α β γ : Type} (F : β → γ) (step : α → Except Err β) (xs : List α) :
    xs.mapM (fun x => F <$> step x) = List.map F <$> xs.mapM step := by
  induction xs with
  | nil => rfl
  | cons x xs ih =>
    simp only [List.mapM_cons, ih]
    cases step x with
    | error er => rfl
    | ok y =>
      simp only [map_ok, ok_bind]
      cases xs.mapM step <;> rfl

theorem zipWith_proj (ys : List (List GBar)) (os : List (Bool × Seq × GBar)) :
    List.zipWith (fun y (o : Bool × Seq × Bar) => y ++ [o.2.2]) (ys.map (·.map GBar.toBar)) (os.map proj) =
      (List.zipWith (fun y (o : Bool × Seq × GBar) => y ++ [o.2.2]) ys os).map (·.map GBar.toBar) := by
  induction ys generalizing os with
  | nil => simp
  | cons y ys ih =>
    cases os with
    | nil => simp
    | cons o os => simp [ih, proj]

theorem getSetAll_proj (step : Seq → Except Err (Bool × Seq × GBar)) (xs : List Seq) (ys : List (List GBar)) (sync : Bool) :
    (fun r => (r.1, r.2.1.map (·.map GBar.toBar), r.2.2)) <$> getSetAll step xs ys sync =
      getSetAll (fun x => proj <$> step x) xs (ys.map (·.map GBar.toBar)) sync := by
  unfold getSetAll
  rw [mapM_map_ex]
  cases xs.mapM step with
  | error er => rfl
  | ok os =>
    simp only [ok_bind, map_ok, pure_eq, zipWith_proj]
    simp [proj, List.map_map, Function.comp_def, List.all_map]

theorem mapM_readRel (k : List Msg → Except Err (Bool × Seq × Bar)) :
    ∀ (xs : List Seq) (ts : List (List Msg)), readRels xs = .ok ts →
      xs.mapM (fun x => do let p ← x.readRel; k p.2) = ts.mapM k := by
  intro xs
  induction xs with
  | nil => intro ts h; simp [readRels] at h; cases h; rfl
  | cons x xs ih =>
    intro ts h
    simp only [readRels, List.mapM_cons] at h
    cases hr : x.readRel with
    | error er => rw [hr] at h; cases h
    | ok p =>
      rw [hr] at h
      simp only [map_ok, ok_bind] at h
      cases hm : List.mapM (fun x : Seq => (·.2) <$> x.readRel) xs with
      | error er => rw [hm] at h; cases h
      | ok ts' =>
        rw [hm] at h
        simp only [ok_bind, pure_eq] at h
        injection h with h
        subst h
        simp only [List.mapM_cons, hr, ok_bind, ih ts' hm]

/-- the hand model's fold over the tracks, as a `mapM` -/
def roundM (ppqn : Int) (values : List Int) (rq : Bool) (g : Sg) (tracks : List (List Msg)) (mbars : List (List Bar)) :
    Except Err (Bool × List (List Msg) × List (List Bar)) := do
  let os ← tracks.mapM (trackStep ppqn values rq g)
  pure (os.all (fun o => !o.1), os.map (·.2.1), List.zipWith (fun b (o : Bool × List Msg × Bar) => o.2.2 :: b) mbars os)

theorem fold_mapM (ppqn : Int) (values : List Int) (rq : Bool) (g : Sg) :
    ∀ (ts : List (List Msg)) (bs : List (List Bar)) (acc : Bool × List (List Msg) × List (List Bar)), ts.length = bs.length →
      foldlM' (foldBody ppqn values rq g) acc (ts.zip bs) =
        (do let os ← ts.mapM (trackStep ppqn values rq g)
            pure (acc.1 && os.all (fun o => !o.1), acc.2.1 ++ os.map (·.2.1),
              acc.2.2 ++ List.zipWith (fun b (o : Bool × List Msg × Bar) => o.2.2 :: b) bs os)) := by
  intro ts
  induction ts with
  | nil => intro bs acc _; simp [foldlM']
  | cons t ts ih =>
    intro bs acc hl
    cases bs with
    | nil => simp at hl
    | cons b bs =>
      simp only [List.zip_cons_cons, foldlM', foldBody_eq, List.mapM_cons]
      cases trackStep ppqn values rq g t with
      | error er => rfl
      | ok o =>
        simp only [Except.bind, ok_bind]
        rw [ih bs _ (by simpa using hl)]
        cases ts.mapM (trackStep ppqn values rq g) with
        | error er => rfl
        | ok os =>
          simp only [ok_bind, pure_eq, List.all_cons, List.map_cons, List.zipWith_cons_cons, List.append_assoc, List.singleton_append]
          congr 2
          cases o.1 <;> cases acc.1 <;> simp

theorem fold_roundM (ppqn : Int) (values : List Int) (rq : Bool) (g : Sg) (ts : List (List Msg)) (bs : List (List Bar))
    (hl : ts.length = bs.length) :
    foldlM' (foldBody ppqn values rq g) (true, [], []) (ts.zip bs) = roundM ppqn values rq g ts bs := by
  rw [fold_mapM ppqn values rq g ts bs _ hl]
  unfold roundM
  cases ts.mapM (trackStep ppqn values rq g) <;> simp

theorem mapM_ok_mem {α β : Type} (f : α → Except Err β) : ∀ (xs : List α) (ys : List β), xs.mapM f = .ok ys →
    ∀ y ∈ ys, ∃ x ∈ xs, f x = .ok y := by
  intro xs
  induction xs with
  | nil => intro ys h; simp at h; cases h; simp
  | cons x xs ih =>
    intro ys h
    simp only [List.mapM_cons] at h
    cases hx : f x with
    | error er => rw [hx] at h; cases h
    | ok y0 =>
      rw [hx] at h
      simp only [ok_bind] at h
      cases hm : xs.mapM f with
      | error er => rw [hm] at h; cases h
      | ok ys' =>
        rw [hm] at h
        simp only [ok_bind, pure_eq] at h
        injection h with h
        subst h
        intro y hy
        rcases List.mem_cons.mp hy with rfl | hy
        · exact ⟨x, by simp, hx⟩
        · obtain ⟨x', hx', hf⟩ := ih ys' hm y hy
          exact ⟨x', by simp [hx'], hf⟩

theorem mapM_ok_length {α β : Type} (f : α → Except Err β) : ∀ (xs : List α) (ys : List β), xs.mapM f = .ok ys →
    ys.length = xs.length := by
  intro xs
  induction xs with
  | nil => intro ys h; simp at h; cases h; rfl
  | cons x xs ih =>
    intro ys h
    simp only [List.mapM_cons] at h
    cases hx : f x with
    | error er => rw [hx] at h; cases h
    | ok y0 =>
      rw [hx] at h
      simp only [ok_bind] at h
      cases hm : xs.mapM f with
      | error er => rw [hm] at h; cases h
      | ok ys' =>
        rw [hm] at h
        simp only [ok_bind, pure_eq] at h
        injection h with h
        subst h
        simp [ih ys' hm]

theorem readRels_nsOf (os : List (Bool × List Msg × Bar)) (h : ∀ o ∈ os, o.1 = false → o.2.1 = []) :
    readRels (os.map (fun o => nsOf o.1 o.2.1)) = .ok (os.map (·.2.1)) := by
  induction os with
  | nil => rfl
  | cons o os ih =>
    have h1 := nsOf_readRel o.1 o.2.1 (h o (by simp))
    have h2 := ih (fun o' ho' => h o' (by simp [ho']))
    simp only [readRels, List.map_cons, List.mapM_cons] at h2 ⊢
    rw [h1, h2]; rfl

theorem zipWith_reverse (mbars : List (List Bar)) (os : List (Bool × Seq × Bar)) (os' : List (Bool × List Msg × Bar))
    (h : os.map (·.2.2) = os'.map (·.2.2)) :
    List.zipWith (fun y (o : Bool × Seq × Bar) => y ++ [o.2.2]) (mbars.map List.reverse) os =
      (List.zipWith (fun b (o : Bool × List Msg × Bar) => o.2.2 :: b) mbars os').map List.reverse := by
  induction mbars generalizing os os' with
  | nil => simp
  | cons b bs ih =>
    cases os with
    | nil => cases os' with
      | nil => simp
      | cons o' os' => simp at h
    | cons o os => cases os' with
      | nil => simp at h
      | cons o' os' =>
        simp only [List.map_cons, List.cons.injEq] at h
        simp [ih os os' h.2, h.1]

/-- one track of the hand model with the placeholder the code leaves in `sequences[i]` -/
def stepM (ppqn : Int) (values : List Int) (rq : Bool) (g : Sg) (r : List Msg) : Except Err (Bool × Seq × Bar) :=
  (fun (o : Bool × List Msg × Bar) => (o.1, nsOf o.1 o.2.1, o.2.2)) <$> trackStep ppqn values rq g r

theorem round_spec (e : Env) (rq : Bool) (num den key : Int) (hn : 0 ≤ num) (hd : 0 < den) (hp : 0 ≤ e.ppqn)
    (seqs : List Seq) (gbars : List (List GBar)) (tracks : List (List Msg)) (mbars : List (List Bar))
    (hr : readRels seqs = .ok tracks) (hb : gbars.map (·.map GBar.toBar) = mbars.map List.reverse)
    (hl : tracks.length = mbars.length) :
    match roundM e.ppqn e.defValues rq (num, den, key) tracks mbars with
    | .error x => getSetAll (trackStepG e rq num den key (barCapacity e.ppqn num den)) seqs gbars true = .error x
    | .ok r => ∃ seqs' gbars', getSetAll (trackStepG e rq num den key (barCapacity e.ppqn num den)) seqs gbars true
          = .ok (seqs', gbars', r.1) ∧ readRels seqs' = .ok r.2.1 ∧ gbars'.map (·.map GBar.toBar) = r.2.2.map List.reverse
          ∧ r.2.1.length = r.2.2.length := by
  have hE := getSetAll_proj (trackStepG e rq num den key (barCapacity e.ppqn num den)) seqs gbars true
  have hf : (fun x => proj <$> trackStepG e rq num den key (barCapacity e.ppqn num den) x) =
      (fun x => x.readRel >>= fun p => stepM e.ppqn e.defValues rq (num, den, key) p.2) := by
    funext x
    rw [trackStepG_eq e rq num den key hn hd hp x]
    cases x.readRel with
    | error er => rfl
    | ok p => simp only [ok_bind, stepM]; cases trackStep e.ppqn e.defValues rq (num, den, key) p.2 <;> rfl
  rw [hf] at hE
  unfold getSetAll at hE
  rw [mapM_readRel _ seqs tracks hr] at hE
  unfold stepM at hE
  rw [mapM_map_ex] at hE
  unfold roundM
  cases hos : tracks.mapM (trackStep e.ppqn e.defValues rq (num, den, key)) with
  | error x =>
    rw [hos] at hE
    simp only [map_error, error_bind] at hE ⊢
    unfold getSetAll
    cases hg : seqs.mapM (trackStepG e rq num den key (barCapacity e.ppqn num den)) with
    | error y => rw [hg] at hE; simp only [error_bind, map_error] at hE ⊢; injection hE with hE; rw [hE]
    | ok os => rw [hg] at hE; simp only [ok_bind, pure_eq, map_ok] at hE; cases hE
  | ok os =>
    rw [hos] at hE
    simp only [map_ok, ok_bind, pure_eq] at hE ⊢
    unfold getSetAll
    cases hg : seqs.mapM (trackStepG e rq num den key (barCapacity e.ppqn num den)) with
    | error y => rw [hg] at hE; simp only [error_bind, map_error] at hE; cases hE
    | ok gs =>
      rw [hg] at hE
      simp only [ok_bind, map_ok, Except.ok.injEq, Prod.mk.injEq, Bool.true_and] at hE
      obtain ⟨h1, h2, h3⟩ := hE
      refine ⟨gs.map (·.2.1), List.zipWith (fun y (o : Bool × Seq × GBar) => y ++ [o.2.2]) gbars gs, ?_, ?_, ?_, ?_⟩
      · simp only [ok_bind, pure_eq, Bool.true_and, h3]
        simp [List.all_map, Function.comp_def]
      · rw [h1]
        simp only [List.map_map, Function.comp_def]
        have := readRels_nsOf os (fun o ho => by
          obtain ⟨t, _, ht⟩ := mapM_ok_mem _ _ _ hos o ho
          exact trackStep_rest ht)
        simpa using this
      · rw [h2, hb]
        apply zipWith_reverse
        simp [List.map_map, Function.comp_def]
      · have := mapM_ok_length _ _ _ hos
        simp [this, hl]

/-! ### the `while` loop against `splitBarsGo` -/

/-- the translated `while` loop with its final test -/
def whileG (e : Env) (rq : Bool) (fuel : Nat) (st : St) : Except Err (List (List GBar)) := do
  let st' ← forIn (List.replicate fuel ()) st (fun _ st => roundBody e rq st)
  if !st'.2.2.2.2.2.2.2.2 then throw Err.fuel else pure st'.2.2.2.2.2.2.2.1

theorem forIn_done (e : Env) (rq : Bool) (n : Nat) (st : St) (h : st.2.2.2.2.2.2.2.2 = true) :
    forIn (List.replicate n ()) st (fun _ st => roundBody e rq st) = .ok st := by
  cases n with
  | zero => rfl
  | succ n =>
    rw [List.replicate_succ, List.forIn_cons]
    simp [roundBody, h]

theorem nextSig_mem (now num den : Int) (q : List Msg) (hq : ∀ m ∈ q, 0 ≤ m.num ∧ 0 < m.den) (hn : 0 ≤ num) (hd : 0 < den) :
    0 ≤ (nextSig now num den q).1 ∧ 0 < (nextSig now num den q).2.1 ∧ (∀ m ∈ (nextSig now num den q).2.2, 0 ≤ m.num ∧ 0 < m.den) := by
  unfold nextSig
  cases q with
  | nil => exact ⟨hn, hd, hq⟩
  | cons m rest =>
    by_cases hm : m.time ≤ now
    · simp only [hm, if_true]
      exact ⟨(hq m (by simp)).1, (hq m (by simp)).2, fun x hx => hq x (by simp [hx])⟩
    · simp only [hm, if_false]
      exact ⟨hn, hd, hq⟩

theorem nextSig_asc (now num den : Int) (q : List Msg) (h : TimeAsc q) : TimeAsc (nextSig now num den q).2.2 := by
  unfold nextSig
  cases q with
  | nil => exact h
  | cons m rest =>
    by_cases hm : m.time ≤ now
    · simp only [hm, if_true]; exact (List.pairwise_cons.mp h).2
    · simp only [hm, if_false]; exact h

theorem nextKey_asc (now key : Int) (q : List Msg) (h : TimeAsc q) : TimeAsc (nextKey now key q).2 := by
  unfold nextKey
  cases q with
  | nil => exact h
  | cons m rest =>
    by_cases hm : m.time ≤ now
    · simp only [hm, if_true]; exact (List.pairwise_cons.mp h).2
    · simp only [hm, if_false]; exact h

theorem roundBody_step (e : Env) (rq : Bool) (hp : 0 ≤ e.ppqn) (seqs : List Seq) (gbars : List (List GBar))
    (now num den key : Int) (tsQ ksQ : List Msg) (tsT ksT : List (Int × Msg)) (hlen : gbars.length = seqs.length)
    (hts : AscT tsT) (hks : AscT ksT) (hqt : QRel tsT tsQ) (hqk : QRel ksT ksQ)
    (hn' : 0 ≤ (nextSig now num den tsQ).1) (hd' : 0 < (nextSig now num den tsQ).2.1) :
    roundBody e rq (seqs, now, num, den, key, tsT, ksT, gbars, false) =
      (do let r ← getSetAll (trackStepG e rq (nextSig now num den tsQ).1 (nextSig now num den tsQ).2.1 (nextKey now key ksQ).1
                    (barCapacity e.ppqn (nextSig now num den tsQ).1 (nextSig now num den tsQ).2.1)) seqs gbars true
          pure (.yield (r.1, now + barCapacity e.ppqn (nextSig now num den tsQ).1 (nextSig now num den tsQ).2.1,
            (nextSig now num den tsQ).1, (nextSig now num den tsQ).2.1, (nextKey now key ksQ).1,
            popIf now tsT, popIf now ksT, r.2.1, r.2.2))) := by
  simp only [roundBody, Bool.false_eq_true, if_false, sigStepT_eq _ _ _ _ _ hts hqt, keyStepT_eq _ _ _ _ hks hqk, ok_bind,
    lenPy_eq e _ _ hn' hp hd', getSet_loop _ _ _ _ hlen]

theorem while_eq (e : Env) (rq : Bool) (hp : 0 ≤ e.ppqn) : ∀ (fuel : Nat) (seqs : List Seq) (gbars : List (List GBar)) (s : SBSt)
    (tsT ksT : List (Int × Msg)),
    readRels seqs = .ok s.tracks → gbars.map (·.map GBar.toBar) = s.bars.map List.reverse → s.tracks.length = s.bars.length →
    AscT tsT → AscT ksT → QRel tsT s.tsQ → QRel ksT s.ksQ → (∀ m ∈ s.tsQ, 0 ≤ m.num ∧ 0 < m.den) → 0 ≤ s.num → 0 < s.den →
    (fun tb => tb.map (·.map GBar.toBar)) <$> whileG e rq fuel (seqs, s.now, s.num, s.den, s.key, tsT, ksT, gbars, false) =
      splitBarsGo e.ppqn e.defValues rq fuel s := by
  intro fuel
  induction fuel with
  | zero => intro seqs gbars s tsT ksT _ _ _ _ _ _ _ _ _ _; rfl
  | succ fuel ih =>
    intro seqs gbars s tsT ksT hr hb hl hts hks hqt hqk hq hn hd
    rw [splitBarsGo_succ]
    simp only []
    rw [fold_roundM _ _ _ _ _ _ hl]
    obtain ⟨hn', hd', hq'⟩ := nextSig_mem s.now s.num s.den s.tsQ hq hn hd
    have hR := round_spec e rq (nextSig s.now s.num s.den s.tsQ).1 (nextSig s.now s.num s.den s.tsQ).2.1
      (nextKey s.now s.key s.ksQ).1 hn' hd' hp seqs gbars s.tracks s.bars hr hb hl
    have hlen : gbars.length = seqs.length := by
      have h1 := mapM_ok_length _ _ _ hr
      have h2 := congrArg List.length hb
      simp at h2; omega
    unfold whileG
    rw [List.replicate_succ, List.forIn_cons]
    rw [roundBody_step e rq hp seqs gbars s.now s.num s.den s.key s.tsQ s.ksQ tsT ksT hlen hts hks hqt hqk hn' hd']
    simp only [sgLen]
    cases hm : roundM e.ppqn e.defValues rq
        ((nextSig s.now s.num s.den s.tsQ).1, (nextSig s.now s.num s.den s.tsQ).2.1, (nextKey s.now s.key s.ksQ).1) s.tracks s.bars with
    | error x =>
      rw [hm] at hR
      simp only at hR
      rw [hR]; rfl
    | ok r =>
      rw [hm] at hR
      simp only at hR
      obtain ⟨seqs', gbars', hG, hr', hb', hl'⟩ := hR
      rw [hG]
      simp only [ok_bind, pure_eq, Except.bind]
      cases hsync : r.1 with
      | true =>
        simp only [if_true]
        rw [forIn_done e rq fuel _ (by simpa using hsync)]
        simp [hb']
      | false =>
        simp only [Bool.false_eq_true, if_false]
        have := ih seqs' gbars'
          { now := s.now + barCapacity e.ppqn (nextSig s.now s.num s.den s.tsQ).1 (nextSig s.now s.num s.den s.tsQ).2.1,
            num := (nextSig s.now s.num s.den s.tsQ).1, den := (nextSig s.now s.num s.den s.tsQ).2.1,
            key := (nextKey s.now s.key s.ksQ).1, tsQ := (nextSig s.now s.num s.den s.tsQ).2.2, ksQ := (nextKey s.now s.key s.ksQ).2,
            tracks := r.2.1, bars := r.2.2 } (popIf s.now tsT) (popIf s.now ksT) hr' hb' hl' (AscT_popIf _ _ hts) (AscT_popIf _ _ hks)
          (QRel_popIf_sig _ _ _ _ _ hqt) (QRel_popIf_key _ _ _ _ hqk) hq' hn' hd'
        unfold whileG at this
        exact this

/-! ### the prefix of `sequences_split_bars`: copies, the meta track's two queues, the fuel -/

theorem filter_insort (p : Msg → Bool) (l : List Msg) (m : Msg) (hm : p m = false) : (insort l m).filter p = l.filter p := by
  unfold insort
  simp only [List.filter_append, List.filter_cons, hm, Bool.false_eq_true, if_false]
  rw [← List.filter_append, List.take_append_drop]

theorem timesOfType_toAbs_asc (ty : MType) (hty : ty ≠ .internal) (r : List Msg) : TimeAsc (timesOfType ty (toAbs r)) := by
  unfold TimeAsc timesOfType
  rw [toAbs_eq]
  split
  · exact List.Pairwise.filter _ (sortAbs_pairwise _)
  · rw [filter_insort]
    · exact List.Pairwise.filter _ (sortAbs_pairwise _)
    · simp [Msg.mkInternal]; exact fun h => hty h.symm

theorem timesOfType_toAbs_sig (r : List Msg) (h : ∀ m ∈ r, m.ty = .timeSignature → 0 ≤ m.num ∧ 0 < m.den) :
    ∀ m ∈ timesOfType .timeSignature (toAbs r), 0 ≤ m.num ∧ 0 < m.den := by
  intro m hm
  simp only [timesOfType, List.mem_filter, beq_iff_eq] at hm
  rcases mem_toAbs r m hm.1 with hi | ⟨_, m', hm', c', rfl⟩
  · rw [hm.2] at hi; cases hi
  · exact h m' hm' hm.2

/-! ### the wrapper states of the inputs -/

/-- a sequence that can be read (what `C04` keeps true of every reachable sequence) -/
def Readable (s : Seq) : Prop := ¬(s.absStale = true ∧ s.relStale = true)

/-- the absolute view of a sequence, where it is fresh, is the conversion of its relative view (the hand model reads the
    signatures of the meta track through `toAbs` of the relative view; the code reads the fresh absolute view of the copy) -/
def AbsCoherent (s : Seq) : Prop := s.absStale = false → ∀ p, s.readRel = .ok p → s.abs = toAbs p.2

theorem copy_readRel (s : Seq) (h : Readable s) : ∃ p, s.readRel = .ok p ∧ (·.2) <$> s.copy.readRel = .ok p.2 := by
  obtain ⟨a, r, sa, sr⟩ := s
  cases sa <;> cases sr <;> simp [Readable] at h <;> exact ⟨_, rfl, rfl⟩

theorem readRels_copy (seqs : List Seq) (h : ∀ s ∈ seqs, Readable s) :
    ∃ rels, readRels seqs = .ok rels ∧ readRels (seqs.map Seq.copy) = .ok rels := by
  induction seqs with
  | nil => exact ⟨[], rfl, rfl⟩
  | cons s ss ih =>
    obtain ⟨rels, h1, h2⟩ := ih (fun x hx => h x (by simp [hx]))
    obtain ⟨p, hp1, hp2⟩ := copy_readRel s (h s (by simp))
    refine ⟨p.2 :: rels, ?_, ?_⟩
    · simp only [readRels, List.mapM_cons] at h1 ⊢
      rw [hp1, h1]; rfl
    · simp only [readRels, List.map_cons, List.mapM_cons] at h2 ⊢
      rw [hp2, h2]; rfl

theorem mapM_copy (e : Env) (seqs : List Seq) :
    seqs.mapM (fun s => do let r ← Gen.Wrap.copy e s; pure r.2) = .ok (seqs.map Seq.copy) := by
  have hf : (fun s => do let r ← Gen.Wrap.copy e s; pure r.2) = fun s => (Except.ok s.copy : Except Err Seq) := by
    funext s; simp only [copy_eq, ok_bind, pure_eq]
  rw [hf]
  induction seqs with
  | nil => rfl
  | cons s ss ih => simp only [List.mapM_cons, ok_bind, pure_eq, ih, List.map_cons]

/-- the copy of the meta track: reading its absolute view gives `toAbs` of the relative view, leaves the relative view
    readable with the same content, and a second read returns the same -/
theorem copy_readAbs (s : Seq) (h : Readable s) (hc : AbsCoherent s) (p : Seq × List Msg) (hp : s.readRel = .ok p) :
    ∃ c', s.copy.readAbs = .ok (c', toAbs p.2) ∧ c'.readAbs = .ok (c', toAbs p.2) ∧ (·.2) <$> c'.readRel = .ok p.2 := by
  obtain ⟨a, r, sa, sr⟩ := s
  cases sa <;> cases sr <;> simp [Readable] at h
  · have := hc rfl _ hp
    simp [Seq.readRel] at hp
    subst hp
    simp only at this
    subst this
    exact ⟨_, rfl, rfl, rfl⟩
  · have := hc rfl _ hp
    simp [Seq.readRel] at hp
    subst hp
    simp only at this
    refine ⟨Seq.ofAbs a, ?_, ?_, rfl⟩ <;> (simp only []; rw [← this]; rfl)
  · simp [Seq.readRel] at hp
    subst hp
    exact ⟨_, rfl, rfl, rfl⟩

theorem readRels_cons (s : Seq) (ss : List Seq) (rels : List (List Msg)) (h : readRels (s :: ss) = .ok rels) :
    ∃ r rs, rels = r :: rs ∧ (·.2) <$> s.readRel = .ok r ∧ readRels ss = .ok rs := by
  simp only [readRels, List.mapM_cons] at h
  cases h1 : (fun x : Seq × List Msg => x.2) <$> s.readRel with
  | error er => rw [h1] at h; cases h
  | ok r =>
    rw [h1] at h
    simp only [ok_bind] at h
    cases h2 : List.mapM (fun x : Seq => (·.2) <$> x.readRel) ss with
    | error er => rw [h2] at h; cases h
    | ok rs =>
      rw [h2] at h
      simp only [ok_bind, pure_eq] at h
      injection h with h
      exact ⟨r, rs, h.symm, rfl, h2⟩

theorem readRels_cons_ok (s : Seq) (ss : List Seq) (r : List Msg) (rs : List (List Msg))
    (h1 : (·.2) <$> s.readRel = .ok r) (h2 : readRels ss = .ok rs) : readRels (s :: ss) = .ok (r :: rs) := by
  simp only [readRels, List.mapM_cons] at h2 ⊢
  rw [h1, h2]; rfl

theorem readRels_set : ∀ (l : List Seq) (rels : List (List Msg)) (i : Nat) (c' : Seq) (r : List Msg),
    readRels l = .ok rels → rels[i]? = some r → (·.2) <$> c'.readRel = .ok r → readRels (l.set i c') = .ok rels := by
  intro l
  induction l with
  | nil => intro rels i c' r h _ _; simpa using h
  | cons s ss ih =>
    intro rels i c' r h hi hc
    obtain ⟨r0, rs, rfl, h1, h2⟩ := readRels_cons s ss rels h
    cases i with
    | zero =>
      simp only [List.getElem?_cons_zero, Option.some.injEq] at hi
      subst hi
      exact readRels_cons_ok _ _ _ _ hc h2
    | succ i =>
      simp only [List.getElem?_cons_succ] at hi
      exact readRels_cons_ok _ _ _ _ h1 (ih rs i c' r h2 hi hc)

theorem readRels_getElem : ∀ (l : List Seq) (rels : List (List Msg)) (i : Nat), readRels l = .ok rels →
    (∀ s, l[i]? = some s → ∃ r, rels[i]? = some r ∧ (·.2) <$> s.readRel = .ok r) ∧ (l[i]? = none → rels[i]? = none) := by
  intro l
  induction l with
  | nil => intro rels i h; simp [readRels] at h; cases h; simp
  | cons s ss ih =>
    intro rels i h
    obtain ⟨r0, rs, rfl, h1, h2⟩ := readRels_cons s ss rels h
    cases i with
    | zero => simp [h1]
    | succ i => simpa using ih rs i h2

theorem splitBarsFuel_eq : ∀ (l : List Seq) (rels : List (List Msg)), readRels l = .ok rels → splitBarsFuel l = fuelOf rels := by
  have key : ∀ (l : List Seq) (rels : List (List Msg)), readRels l = .ok rels →
      l.map seqTicks = rels.map (fun t => (totalWait t).toNat)
      ∧ l.length = rels.length := by
    intro l
    induction l with
    | nil => intro rels h; simp [readRels] at h; cases h; simp
    | cons s ss ih =>
      intro rels h
      obtain ⟨r0, rs, rfl, h1, h2⟩ := readRels_cons s ss rels h
      obtain ⟨i1, i2⟩ := ih rs h2
      cases hs : s.readRel with
      | error er => rw [hs] at h1; cases h1
      | ok p =>
        rw [hs] at h1
        simp only [map_ok, Except.ok.injEq] at h1
        subst h1
        simp [i1, i2, hs, seqTicks]
  intro l rels h
  obtain ⟨k1, k2⟩ := key l rels h
  unfold splitBarsFuel fuelOf
  rw [k1, k2]

theorem whileG_shape (e : Env) (rq : Bool) (fuel : Nat) (st0 : St) :
    (do let st ← forIn (List.replicate fuel ()) st0 (fun _ st => roundBody e rq st)
        if (!st.2.2.2.2.2.2.2.2) = true then (do throw Err.fuel; Except.ok st.2.2.2.2.2.2.2.1) else Except.ok st.2.2.2.2.2.2.2.1)
      = whileG e rq fuel st0 := by
  unfold whileG
  cases forIn (List.replicate fuel ()) st0 (fun _ st => roundBody e rq st) with
  | error er => rfl
  | ok st => simp only [ok_bind]; split <;> rfl

theorem filter_ty (ty : MType) (a : List Msg) : a.filter (fun m => [ty].contains m.ty) = timesOfType ty a := by
  unfold timesOfType
  congr 1
  funext m
  by_cases h : m.ty = ty <;> simp [h]


/-! ### the state of the returned bars -/

/-- the state `Bar.__init__` leaves a bar's sequence in -/
def Constructed (g : GBar) : Prop := g.sequence.absStale = true ∧ g.sequence.relStale = false

theorem finishG_flags (e : Env) (rq : Bool) (num den key : Int) (hn : 0 ≤ num) (hd : 0 < den) (hp : 0 ≤ e.ppqn)
    (two : Bool) (newS first : Seq) (o : Bool × Seq × GBar) (h : finishG e rq num den key two newS first = .ok o) :
    Constructed o.2.2 := by
  have key' : ∀ first', (do let bar ← Gen.Elem.barInit e first' num den key 0; pure (two, newS, bar) : Except Err (Bool × Seq × GBar)) = .ok o →
      Constructed o.2.2 := by
    intro first' h
    cases hb : Gen.Elem.barInit e first' num den key 0 with
    | error x => rw [hb] at h; cases h
    | ok g =>
      rw [hb] at h
      simp only [ok_bind, pure_eq] at h
      injection h with h
      subst h
      have := barInit_flags e first' num den key hn hd hp g hb
      exact ⟨this.1, this.2.1⟩
  unfold finishG at h
  rw [keyIte] at h
  cases rq
  · simp only [Bool.false_eq_true, if_false, pure_eq, ok_bind] at h
    exact key' _ h
  · simp only [if_true] at h
    cases hq : Seq.qnlSeq e first none e.ppqn true with
    | error x => rw [hq] at h; cases h
    | ok first' => rw [hq] at h; simp only [ok_bind] at h; exact key' _ h

theorem trackStepG_flags (e : Env) (rq : Bool) (num den key len : Int) (hn : 0 ≤ num) (hd : 0 < den) (hp : 0 ≤ e.ppqn)
    (s : Seq) (o : Bool × Seq × GBar) (h : trackStepG e rq num den key len s = .ok o) : Constructed o.2.2 := by
  unfold trackStepG at h
  cases hr : s.readRel with
  | error x => rw [hr] at h; cases h
  | ok p =>
    rw [hr] at h
    simp only [ok_bind] at h
    cases hs : split p.2 [len] with
    | error x => rw [hs] at h; cases h
    | ok ps =>
      rw [hs] at h
      simp only [ok_bind] at h
      rcases ps with _ | ⟨a, _ | ⟨b, tl⟩⟩ <;> exact finishG_flags e rq num den key hn hd hp _ _ _ o h

theorem getSetAll_flags (step : Seq → Except Err (Bool × Seq × GBar)) (hstep : ∀ x o, step x = .ok o → Constructed o.2.2)
    (xs : List Seq) (ys : List (List GBar)) (sync : Bool) (hy : ∀ bars ∈ ys, ∀ g ∈ bars, Constructed g)
    (r : List Seq × List (List GBar) × Bool) (h : getSetAll step xs ys sync = .ok r) :
    ∀ bars ∈ r.2.1, ∀ g ∈ bars, Constructed g := by
  unfold getSetAll at h
  cases hm : xs.mapM step with
  | error x => rw [hm] at h; cases h
  | ok os =>
    rw [hm] at h
    simp only [ok_bind, pure_eq] at h
    injection h with h
    subst h
    have hos : ∀ o ∈ os, Constructed o.2.2 := by
      intro o ho
      obtain ⟨x, _, hx⟩ := mapM_ok_mem _ _ _ hm o ho
      exact hstep x o hx
    intro bars hb g hg
    simp only at hb
    rw [List.mem_iff_getElem] at hb
    obtain ⟨i, hi, rfl⟩ := hb
    simp only [List.getElem_zipWith, List.mem_append, List.mem_singleton] at hg
    rcases hg with hg | rfl
    · exact hy _ (List.getElem_mem _) g hg
    · exact hos _ (List.getElem_mem _)

def AllConstructed (tb : List (List GBar)) : Prop := ∀ bars ∈ tb, ∀ g ∈ bars, Constructed g

theorem while_flags (e : Env) (rq : Bool) (hp : 0 ≤ e.ppqn) : ∀ (fuel : Nat) (seqs : List Seq) (gbars : List (List GBar)) (s : SBSt)
    (tsT ksT : List (Int × Msg)),
    readRels seqs = .ok s.tracks → gbars.map (·.map GBar.toBar) = s.bars.map List.reverse → s.tracks.length = s.bars.length →
    AscT tsT → AscT ksT → QRel tsT s.tsQ → QRel ksT s.ksQ → (∀ m ∈ s.tsQ, 0 ≤ m.num ∧ 0 < m.den) → 0 ≤ s.num → 0 < s.den →
    AllConstructed gbars →
    ∀ tb, whileG e rq fuel (seqs, s.now, s.num, s.den, s.key, tsT, ksT, gbars, false) = .ok tb → AllConstructed tb := by
  intro fuel
  induction fuel with
  | zero => intro seqs gbars s tsT ksT _ _ _ _ _ _ _ _ _ _ _ tb h; cases h
  | succ fuel ih =>
    intro seqs gbars s tsT ksT hr hb hl hts hks hqt hqk hq hn hd hc tb h
    obtain ⟨hn', hd', hq'⟩ := nextSig_mem s.now s.num s.den s.tsQ hq hn hd
    have hR := round_spec e rq (nextSig s.now s.num s.den s.tsQ).1 (nextSig s.now s.num s.den s.tsQ).2.1
      (nextKey s.now s.key s.ksQ).1 hn' hd' hp seqs gbars s.tracks s.bars hr hb hl
    have hlen : gbars.length = seqs.length := by
      have h1 := mapM_ok_length _ _ _ hr
      have h2 := congrArg List.length hb
      simp at h2; omega
    unfold whileG at h
    rw [List.replicate_succ, List.forIn_cons] at h
    rw [roundBody_step e rq hp seqs gbars s.now s.num s.den s.key s.tsQ s.ksQ tsT ksT hlen hts hks hqt hqk hn' hd'] at h
    cases hm : roundM e.ppqn e.defValues rq
        ((nextSig s.now s.num s.den s.tsQ).1, (nextSig s.now s.num s.den s.tsQ).2.1, (nextKey s.now s.key s.ksQ).1) s.tracks s.bars with
    | error x =>
      rw [hm] at hR
      simp only at hR
      rw [hR] at h
      cases h
    | ok r =>
      rw [hm] at hR
      simp only at hR
      obtain ⟨seqs', gbars', hG, hr', hb', hl'⟩ := hR
      have hc' : AllConstructed gbars' := by
        have := getSetAll_flags _ (fun x o ho => trackStepG_flags e rq _ _ _ _ hn' hd' hp x o ho) seqs gbars true hc _ hG
        exact this
      rw [hG] at h
      simp only [ok_bind, pure_eq] at h
      cases hsync : r.1 with
      | true =>
        rw [forIn_done e rq fuel _ (by simpa using hsync)] at h
        simp only [ok_bind, hsync, Bool.not_true, Bool.false_eq_true, if_false, Except.ok.injEq] at h
        subst h
        exact hc'
      | false =>
        rw [hsync] at h
        exact ih seqs' gbars'
          { now := s.now + barCapacity e.ppqn (nextSig s.now s.num s.den s.tsQ).1 (nextSig s.now s.num s.den s.tsQ).2.1,
            num := (nextSig s.now s.num s.den s.tsQ).1, den := (nextSig s.now s.num s.den s.tsQ).2.1,
            key := (nextKey s.now s.key s.ksQ).1, tsQ := (nextSig s.now s.num s.den s.tsQ).2.2, ksQ := (nextKey s.now s.key s.ksQ).2,
            tracks := r.2.1, bars := r.2.2 } (popIf s.now tsT) (popIf s.now ksT) hr' hb' hl' (AscT_popIf _ _ hts) (AscT_popIf _ _ hks)
          (QRel_popIf_sig _ _ _ _ _ hqt) (QRel_popIf_key _ _ _ _ hqk) hq' hn' hd' hc' tb h


/-! ## Part 2: the mido parsers -/

/-- generated `MidiMessage.parse_mido_message` = hand model `parseMido`, all inputs (restated in Props/StaticTie.lean) -/
theorem parseMidoMessage_eq (e : Env) (m : MidoMsg) : Gen.Static.parseMidoMessage e m = parseMido m := by
  unfold Gen.Static.parseMidoMessage parseMido
  obtain ⟨ty, time, ch, note, vel, num, den, key, ctl, val, prog⟩ := m
  cases hk : List.lookup key Gen.keyKeyMapping <;>
  cases ch <;> cases ty <;> simp [MidiEv.empty, pyAttr, pyDictGet, hk] <;> (try split) <;> simp_all


theorem parseMidoTrack_loop (e : Env) : ∀ (l : List MidoMsg) (acc : List MidiEv),
    forIn l acc (Gen.Static.parseMidoTrack_loop1 e) = (parseTrack l).map (acc ++ ·) := by
  intro l
  induction l with
  | nil => intro acc; simp [parseTrack, Except.map]
  | cons m ms ih =>
    intro acc
    rw [List.forIn_cons]
    simp only [Gen.Static.parseMidoTrack_loop1, parseMidoMessage_eq, parseTrack]
    cases parseMido m with
    | error er => rfl
    | ok ev =>
      simp only [ok_bind, pure_eq, ih]
      cases parseTrack ms <;> simp [Except.map]


/-! ## Part 3: `MidiFile.convert`

  Phase 1 (the loop over the tracks of the file): the translated message loop against `convMsg`, the translated track loop
  against `convTrack`.  `current_sequence` is a reference (`PRef`): site 1 = `sequences[·][·]`, site 2 = `meta_sequence`. -/

theorem rat_step (ticks t p q : Int) :
    (ticks : Rat) * (p : Rat) / (q : Rat) + (t : Rat) * ((p : Rat) / (q : Rat)) = ((ticks + t : Int) : Rat) * (p : Rat) / (q : Rat) := by
  push_cast; ring

theorem set_eq_modifyAt {α} (v : α) : ∀ (l : List α) (i : Nat), l.set i v = modifyAt (fun _ => v) i l := by
  intro l
  induction l with
  | nil => intro i; cases i <;> rfl
  | cons x xs ih => intro i; cases i with
    | zero => rfl
    | succ i => simp [modifyAt, ih]

theorem modifyAt_get {α} (f : α → α) : ∀ (l : List α) (i : Nat) (x : α), l[i]? = some x → modifyAt f i l = l.set i (f x) := by
  intro l
  induction l with
  | nil => intro i x h; simp at h
  | cons y ys ih => intro i x h; cases i with
    | zero => simp at h; subst h; rfl
    | succ i => simp at h; simp [modifyAt, ih i x h]

/-- the in-place update of `sequences[gi][pos]` -/
theorem getset2 {β : Type} (seqs : List (List Seq)) (gi pos : Nat) (F : Seq → Except Err Seq)
    (K : List (List Seq) → Except Err β) :
    (do let x6 ← pyGetNat seqs gi
        let x7 ← pyGetNat x6 pos
        let r ← F x7
        let c ← pyGetNat seqs gi
        let u ← pySetNat c pos r
        let seqs' ← pySetNat seqs gi u
        K seqs') =
      match (seqs[gi]? >>= (·[pos]?)) with
      | some q => do let r ← F q; K (modifyAt (fun g => modifyAt (fun _ => r) pos g) gi seqs)
      | none => .error .indexError := by
  cases hg : seqs[gi]? with
  | none => simp [pyGetNat, hg]
  | some g =>
    cases hp : g[pos]? with
    | none => simp [pyGetNat, hg, hp]
    | some q =>
      have h1 : gi < seqs.length := (List.getElem?_eq_some_iff.mp hg).1
      have h2 : pos < g.length := (List.getElem?_eq_some_iff.mp hp).1
      simp only [pyGetNat, hg, hp, ok_bind, Option.bind_some, Option.bind_eq_bind]
      cases F q with
      | error er => rfl
      | ok r =>
        simp only [ok_bind, pySetNat, h1, h2, if_true]
        rw [modifyAt_get _ _ _ _ hg, ← set_eq_modifyAt]

/-- the reference local `current_sequence` for the hand model's location -/
def refOf (loc : Option (Nat × Nat)) : PRef :=
  match loc with
  | some (gi, pos) => { root := 1, path := [gi, pos] }
  | none => { root := 2, path := [] }

/-- `default_channel` as a nullable int -/
def dcOf (o : Option Int) : Int := o.getD pyNone

set_option maxHeartbeats 1000000 in
theorem loop2_conv (e : Env) (q : Int) (groups : List (List Nat)) (metaIdx : List Nat) (i j : Nat) (loc : Option (Nat × Nat))
    (hin : ((groups.map (fun g => g.contains i)).any id) = loc.isSome)
    (s : ConvSt) (hdc : s.defCh ≠ some pyNone) (ticks : Int) (m : MidiEv) :
    Gen.Static.convert_loop2 e groups metaIdx ((e.ppqn : Rat) / (q : Rat)) i (refOf loc) (m, j)
        (s.seqs, s.metaSeq, dcOf s.defCh, (ticks : Rat) * (e.ppqn : Rat) / (q : Rat)) =
      (convMsg e.ppqn q loc (s, ticks) m).map (fun r =>
        ForInStep.yield (r.1.seqs, r.1.metaSeq, dcOf r.1.defCh, (r.2 : Rat) * (e.ppqn : Rat) / (q : Rat))) := by
  obtain ⟨seqs, metaSeq, defCh⟩ := s
  unfold Gen.Static.convert_loop2 convMsg
  simp only [hin, rat_step, pyRound, addAbs_eq, unit_bind]
  have hd' : ∀ d, defCh = some d → d ≠ pyNone := by
    intro d h hp; subst h; subst hp; exact hdc rfl
  rcases loc with _ | ⟨gi, pos⟩ <;> cases hty : m.ty <;> rcases defCh with _ | d <;> by_cases hc : m.ch = pyNone <;>
    simp [hty, hc, dcOf, refOf, convEvent, ConvSt.addMeta, ConvSt.addCur, Except.map, getset2, Msg.mkOn, Msg.mkOff, Msg.mkTimeSig,
      hd'] <;>
    (try (cases Seq.addAbsMsg _ _ <;> simp))
  all_goals (cases (seqs[gi]?.bind fun x => x[pos]?) <;> simp)
  all_goals (cases Seq.addAbsMsg _ _ <;> simp)

theorem addMeta_dc (s s' : ConvSt) (m : Msg) (h : s.addMeta m = .ok s') : s'.defCh = s.defCh := by
  unfold ConvSt.addMeta at h
  cases hq : s.metaSeq.addAbsMsg m with
  | error x => rw [hq] at h; cases h
  | ok q => rw [hq] at h; injection h with h; subst h; rfl

theorem addCur_dc (s s' : ConvSt) (loc : Option (Nat × Nat)) (m : Msg) (h : s.addCur loc m = .ok s') : s'.defCh = s.defCh := by
  unfold ConvSt.addCur at h
  rcases loc with _ | ⟨gi, pos⟩
  · exact addMeta_dc s s' m h
  · simp only at h
    split at h
    · rename_i q0 _
      cases hq : q0.addAbsMsg m with
      | error x => rw [hq] at h; cases h
      | ok q => rw [hq] at h; injection h with h; subst h; rfl
    · cases h

theorem convMsg_dc (ppqn q : Int) (loc : Option (Nat × Nat)) (s s' : ConvSt) (t t' : Int) (m : MidiEv)
    (h : convMsg ppqn q loc (s, t) m = .ok (s', t')) (hdc : s.defCh ≠ some pyNone) : s'.defCh ≠ some pyNone := by
  obtain ⟨seqs, metaSeq, defCh⟩ := s
  unfold convMsg at h
  simp only at h
  split at h
  · rename_i msg _
    split at h
    · rename_i s1 hs1
      injection h with h
      injection h with h1 h2
      subst h1
      rw [addMeta_dc _ _ _ hs1]
      clear hs1 h2
      cases defCh with
      | some c => exact hdc
      | none => by_cases hc : m.ch = pyNone <;> simp [hc]
    · cases h
  · rename_i msg _
    split at h
    · rename_i s1 hs1
      injection h with h
      injection h with h1 h2
      subst h1
      rw [addCur_dc _ _ _ _ hs1]
      clear hs1 h2
      cases defCh with
      | some c => exact hdc
      | none => by_cases hc : m.ch = pyNone <;> simp [hc]
    · cases h
  · injection h with h
    injection h with h1 h2
    subst h1
    clear h2
    cases defCh with
    | some c => exact hdc
    | none => by_cases hc : m.ch = pyNone <;> simp [hc]

/-- the message loop of one track -/
theorem msgs_loop (e : Env) (q : Int) (groups : List (List Nat)) (metaIdx : List Nat) (i : Nat) (loc : Option (Nat × Nat))
    (hin : ((groups.map (fun g => g.contains i)).any id) = loc.isSome) :
    ∀ (track : List MidiEv) (k : Nat) (s : ConvSt) (ticks : Int), s.defCh ≠ some pyNone →
      forIn (track.zipIdx k) (s.seqs, s.metaSeq, dcOf s.defCh, (ticks : Rat) * (e.ppqn : Rat) / (q : Rat))
          (Gen.Static.convert_loop2 e groups metaIdx ((e.ppqn : Rat) / (q : Rat)) i (refOf loc)) =
        (foldlM' (convMsg e.ppqn q loc) (s, ticks) track).map (fun r =>
          (r.1.seqs, r.1.metaSeq, dcOf r.1.defCh, (r.2 : Rat) * (e.ppqn : Rat) / (q : Rat))) := by
  intro track
  induction track with
  | nil => intro k s ticks _; simp [foldlM', Except.map]
  | cons m ms ih =>
    intro k s ticks hdc
    rw [List.zipIdx_cons, List.forIn_cons, loop2_conv e q groups metaIdx i k loc hin s hdc ticks m]
    simp only [foldlM']
    cases hc : convMsg e.ppqn q loc (s, ticks) m with
    | error x => rfl
    | ok r =>
      obtain ⟨s', t'⟩ := r
      simp only [Except.map, ok_bind]
      exact ih (k + 1) s' t' (convMsg_dc _ _ _ _ _ _ _ _ hc hdc)

theorem find_zipIdx (i : Nat) : ∀ (groups : List (List Nat)) (k : Nat),
    (groups.zipIdx k).find? (fun g => g.1.contains i) =
      (groups.find? (fun g => g.contains i)).map (fun g => (g, k + groups.idxOf g)) := by
  intro groups
  induction groups with
  | nil => intro k; rfl
  | cons g gs ih =>
    intro k
    rw [List.zipIdx_cons, List.find?_cons, List.find?_cons]
    by_cases hg : g.contains i = true
    · simp only [hg, Option.map_some, List.idxOf_cons_self, Nat.add_zero]
    · simp only [hg, ih (k + 1)]
      cases hf : gs.find? (fun g => g.contains i) with
      | none => rfl
      | some g' =>
        have hg' : g'.contains i = true := by
          have := List.find?_some hf
          simpa using this
        have hne : (g == g') = false := by
          cases h : g == g' with
          | false => rfl
          | true => have : g = g' := by simpa using h
                    subst this; exact absurd hg' hg
        simp only [Option.map_some, List.idxOf_cons, hne, cond_false, Option.some.injEq, Prod.mk.injEq, true_and]
        omega

theorem firstGroupOf_eq (groups : List (List Nat)) (i : Nat) :
    firstGroupOf groups i = (groups.find? (fun g => g.contains i)).map (fun g => (groups.idxOf g, g.idxOf i)) := by
  unfold firstGroupOf
  rw [find_zipIdx i groups 0]
  cases groups.find? (fun g => g.contains i) <;> simp

theorem any_contains (groups : List (List Nat)) (i : Nat) :
    ((groups.map (fun g => g.contains i)).any id) = (firstGroupOf groups i).isSome := by
  rw [firstGroupOf_eq]
  cases hf : groups.find? (fun g => g.contains i) with
  | none =>
    simp only [Option.map_none, Option.isSome_none, List.any_map, Function.comp_def, id]
    rw [List.find?_eq_none] at hf
    simpa using hf
  | some g =>
    simp only [Option.map_some, Option.isSome_some, List.any_map, Function.comp_def, id]
    have h1 := List.find?_some hf
    have h2 := List.mem_of_find?_eq_some hf
    simp only [List.any_eq_true]
    exact ⟨g, h2, h1⟩

theorem fold_convMsg_dc (ppqn q : Int) (loc : Option (Nat × Nat)) : ∀ (track : List MidiEv) (s s' : ConvSt) (t t' : Int),
    foldlM' (convMsg ppqn q loc) (s, t) track = .ok (s', t') → s.defCh ≠ some pyNone → s'.defCh ≠ some pyNone := by
  intro track
  induction track with
  | nil => intro s s' t t' h hdc; simp only [foldlM', Except.ok.injEq, Prod.mk.injEq] at h; obtain ⟨rfl, _⟩ := h; exact hdc
  | cons m ms ih =>
    intro s s' t t' h hdc
    simp only [foldlM'] at h
    cases hc : convMsg ppqn q loc (s, t) m with
    | error x => rw [hc] at h; cases h
    | ok r =>
      rw [hc] at h
      obtain ⟨s1, t1⟩ := r
      exact ih s1 s' t1 t' h (convMsg_dc _ _ _ _ _ _ _ _ hc hdc)

theorem loop1_conv (e : Env) (q : Int) (groups : List (List Nat)) (metaIdx : List Nat) (s : ConvSt) (hdc : s.defCh ≠ some pyNone)
    (track : List MidiEv) (i : Nat) :
    Gen.Static.convert_loop1 e groups metaIdx ((e.ppqn : Rat) / (q : Rat)) (track, i) (s.seqs, s.metaSeq, dcOf s.defCh) =
      (convTrack e.ppqn q groups metaIdx s (track, i)).map (fun s' => ForInStep.yield (s'.seqs, s'.metaSeq, dcOf s'.defCh)) := by
  unfold Gen.Static.convert_loop1 convTrack
  simp only [any_contains]
  have hz : ((0 : Rat)) = ((0 : Int) : Rat) * (e.ppqn : Rat) / (q : Rat) := by simp
  rw [firstGroupOf_eq]
  cases hf : groups.find? (fun g => g.contains i) with
  | none =>
    simp only [Option.map_none, Option.isSome_none, Option.isNone_none, Bool.not_false, Bool.true_and, Bool.false_eq_true, if_false]
    by_cases hm : metaIdx.contains i = true
    · simp only [hm, Bool.not_true, Bool.false_eq_true, if_false, if_true]
      have := msgs_loop e q groups metaIdx i none (by rw [any_contains, firstGroupOf_eq, hf]; rfl) track 0 s 0 hdc
      rw [hz]
      simp only [refOf] at this
      rw [this]
      cases foldlM' (convMsg e.ppqn q none) (s, 0) track <;> rfl
    · have hm' : ¬ i ∈ metaIdx := by simpa using hm
      simp [hm', Except.map]
  | some g =>
    have h1 : g.contains i = true := by simpa using List.find?_some hf
    have h2 : groups.contains g = true := by simpa using List.mem_of_find?_eq_some hf
    have h3 : pyNext groups (fun array_ => array_.contains i) = .ok g := by unfold pyNext; rw [hf]
    simp only [Option.map_some, Option.isSome_some, Option.isNone_some, Bool.not_true, Bool.false_and, Bool.false_eq_true, if_false,
      if_true, h3, ok_bind, pyIndexOf, h1, h2]
    have := msgs_loop e q groups metaIdx i (some (groups.idxOf g, g.idxOf i)) (by rw [any_contains, firstGroupOf_eq, hf]; rfl) track 0 s 0 hdc
    rw [hz]
    simp only [refOf] at this
    rw [this]
    cases foldlM' (convMsg e.ppqn q (some (groups.idxOf g, g.idxOf i))) (s, 0) track <;> rfl

theorem convTrack_dc (ppqn q : Int) (groups : List (List Nat)) (metaIdx : List Nat) (s s' : ConvSt) (it : List MidiEv × Nat)
    (h : convTrack ppqn q groups metaIdx s it = .ok s') (hdc : s.defCh ≠ some pyNone) : s'.defCh ≠ some pyNone := by
  unfold convTrack at h
  simp only at h
  split at h
  · injection h with h; subst h; exact hdc
  · split at h
    · rename_i r hr
      injection h with h; subst h
      obtain ⟨s1, t1⟩ := r
      exact fold_convMsg_dc _ _ _ _ _ _ _ _ hr hdc
    · cases h

theorem tracks_loop (e : Env) (q : Int) (groups : List (List Nat)) (metaIdx : List Nat) :
    ∀ (l : List (List MidiEv × Nat)) (s : ConvSt), s.defCh ≠ some pyNone →
      forIn l (s.seqs, s.metaSeq, dcOf s.defCh) (Gen.Static.convert_loop1 e groups metaIdx ((e.ppqn : Rat) / (q : Rat))) =
        (foldlM' (convTrack e.ppqn q groups metaIdx) s l).map (fun s' => (s'.seqs, s'.metaSeq, dcOf s'.defCh)) := by
  intro l
  induction l with
  | nil => intro s _; simp [foldlM', Except.map]
  | cons it rest ih =>
    intro s hdc
    obtain ⟨track, i⟩ := it
    rw [List.forIn_cons, loop1_conv e q groups metaIdx s hdc track i]
    simp only [foldlM']
    cases hc : convTrack e.ppqn q groups metaIdx s (track, i) with
    | error x => rfl
    | ok s' =>
      simp only [Except.map, ok_bind]
      exact ih s' (convTrack_dc _ _ _ _ _ _ _ hc hdc)

/-! Phase 2: every group is normalised in place and merged into its first sequence -/

theorem foldl_append_mapM (f : Seq → Except Err Seq) : ∀ (g acc : List Seq),
    foldlM' (fun (a : List Seq) q => do let q' ← f q; .ok (a ++ [q'])) acc g = (g.mapM f).map (acc ++ ·) := by
  intro g
  induction g with
  | nil => intro acc; simp [foldlM', Except.map]
  | cons x xs ih =>
    intro acc
    simp only [foldlM', List.mapM_cons]
    cases f x with
    | error er => rfl
    | ok y =>
      simp only [ok_bind, ih]
      cases xs.mapM f <;> simp [Except.map]

/-- `for seq in sequences_to_merge: seq.normalise()` on `sequences[i]` -/
theorem loop4_go (e : Env) (i : Nat) : ∀ (rest pre : List Seq) (sequences : List (List Seq)), sequences[i]? = some (pre ++ rest) →
    forIn (List.range' pre.length rest.length) sequences (Gen.Static.convert_loop4 e i) =
      (rest.mapM Seq.normaliseSeq).map (fun r' => sequences.set i (pre ++ r')) := by
  intro rest
  induction rest with
  | nil =>
    intro pre sequences h
    simp only [List.length_nil, List.range'_zero, List.forIn_nil, List.mapM_nil, Except.map, pure_eq, List.append_nil]
    congr 1
    apply List.ext_getElem?
    intro j
    by_cases hj : j = i
    · subst hj
      have hi : j < sequences.length := (List.getElem?_eq_some_iff.mp h).1
      have h2 := (List.getElem?_eq_some_iff.mp h).2
      simp only [List.append_nil] at h2
      simp [hi, h2]
    · simp [Ne.symm hj]
  | cons x xs ih =>
    intro pre sequences h
    have hi : i < sequences.length := (List.getElem?_eq_some_iff.mp h).1
    simp only [List.length_cons, List.range'_succ, List.forIn_cons, Gen.Static.convert_loop4, pyGetNat, h, ok_bind,
      WrapTie.normalise_eq, unit_bind, List.mapM_cons]
    have hx : (pre ++ x :: xs)[pre.length]? = some x := by simp
    simp only [hx, ok_bind]
    cases Seq.normaliseSeq x with
    | error er => rfl
    | ok x' =>
      have hlen : pre.length < (pre ++ x :: xs).length := by simp
      simp only [ok_bind, pySetNat, hlen, hi, if_true, pure_eq]
      have hset : (pre ++ x :: xs).set pre.length x' = (pre ++ [x']) ++ xs := by simp
      rw [hset]
      have := ih (pre ++ [x']) (sequences.set i ((pre ++ [x']) ++ xs)) (by simp [hi])
      simp only [List.length_append, List.length_cons, List.length_nil, Nat.zero_add] at this
      rw [this]
      cases xs.mapM Seq.normaliseSeq with
      | error er => rfl
      | ok r' => simp [Except.map]

theorem readAbs_err (s : Seq) (x : Err) (h : s.readAbs = .error x) : x = .sequenceStale := by
  obtain ⟨a, r, sa, sr⟩ := s
  cases sa <;> cases sr <;> simp [Seq.readAbs] at h <;> exact h.symm

theorem readAbss_err : ∀ (l : List Seq) (x : Err), readAbss l = .error x → x = .sequenceStale := by
  intro l
  induction l with
  | nil => intro x h; cases h
  | cons s ss ih =>
    intro x h
    simp only [readAbss, List.mapM_cons] at h
    cases hs : s.readAbs with
    | error y =>
      rw [hs] at h; simp only [map_error, error_bind] at h
      injection h with h; subst h; exact readAbs_err s _ hs
    | ok p =>
      rw [hs] at h; simp only [map_ok, ok_bind] at h
      cases hm : List.mapM (fun x : Seq => (·.2) <$> x.readAbs) ss with
      | error y => rw [hm] at h; simp only [error_bind] at h; injection h with h; subst h; exact ih _ hm
      | ok l' => rw [hm] at h; cases h

theorem mergeSeq_readAbs (s : Seq) (p : Seq × List Msg) (l : List (List Msg)) (h : s.readAbs = .ok p) :
    p.1.mergeSeq l = s.mergeSeq l := by
  obtain ⟨a, r, sa, sr⟩ := s
  cases sa <;> cases sr <;> simp [Seq.readAbs] at h <;> subst h <;> rfl

theorem mergeSeq_stale (s : Seq) (x : Err) (l : List (List Msg)) (h : s.readAbs = .error x) :
    s.mergeSeq l = .error .sequenceStale := by
  have := readAbs_err s x h
  subst this
  unfold Seq.mergeSeq Seq.onAbs
  rw [h]; rfl

/-- `t.merge(others)` as the hand model of `convert` writes it: the arguments' absolute views first, then `mergeSeq` -/
theorem merge_model (e : Env) (t : Seq) (others : List Seq) :
    Gen.Wrap.merge e t others = unit (do let abss ← readAbss others; t.mergeSeq abss) := by
  rw [merge_eq]
  cases ht : t.readAbs with
  | error x =>
    simp only [error_bind]
    have := readAbs_err t x ht
    subst this
    cases ho : readAbss others with
    | error y => have := readAbss_err _ _ ho; subst this; rfl
    | ok abss => simp only [ok_bind, mergeSeq_stale t _ abss ht]; rfl
  | ok p =>
    simp only [ok_bind]
    cases ho : readAbss others with
    | error y => rfl
    | ok abss => simp only [ok_bind, mergeSeq_readAbs t p abss ht]

/-- one group of the hand model: normalise every sequence, merge the rest into the first -/
def groupM (g : List Seq) : Except Err Seq := do
  let g' ← g.mapM Seq.normaliseSeq
  match g' with
  | [] => .error .indexError
  | t :: rest => do
    let abss ← readAbss rest
    t.mergeSeq abss

theorem readAbss_fold (rest : List Seq) :
    foldlM' (fun (a : List (List Msg)) q => do let (_, x) ← q.readAbs; .ok (a ++ [x])) [] rest = readAbss rest := by
  have key : ∀ (l : List Seq) (acc : List (List Msg)),
      foldlM' (fun (a : List (List Msg)) q => do let (_, x) ← q.readAbs; .ok (a ++ [x])) acc l = (readAbss l).map (acc ++ ·) := by
    intro l
    induction l with
    | nil => intro acc; simp [foldlM', readAbss, Except.map]
    | cons s ss ih =>
      intro acc
      simp only [foldlM', readAbss, List.mapM_cons]
      cases s.readAbs with
      | error x => rfl
      | ok p =>
        simp only [ok_bind, map_ok, ih]
        simp only [readAbss]
        cases List.mapM (fun x : Seq => (·.2) <$> x.readAbs) ss <;> simp [Except.map]
  rw [key]
  cases readAbss rest <;> simp [Except.map]

theorem loop3_body (e : Env) (pre gs : List (List Seq)) (g : List Seq) (merged : List Seq) :
    Gen.Static.convert_loop3 e pre.length (pre ++ g :: gs, merged) =
      (do let g' ← g.mapM Seq.normaliseSeq
          match g' with
          | [] => .error .indexError
          | t :: rest => do
            let abss ← readAbss rest
            let t' ← t.mergeSeq abss
            pure (ForInStep.yield ((pre ++ [t' :: rest]) ++ gs, merged ++ [t']))) := by
  have hg : (pre ++ g :: gs)[pre.length]? = some g := by simp
  unfold Gen.Static.convert_loop3
  simp only [pyGetNat, hg, ok_bind]
  have h4 := loop4_go e pre.length g [] (pre ++ g :: gs) (by simpa using hg)
  simp only [List.length_nil, List.nil_append] at h4
  rw [List.range_eq_range', h4]
  cases hn : g.mapM Seq.normaliseSeq with
  | error x => rfl
  | ok g' =>
    have hset : (pre ++ g :: gs).set pre.length g' = pre ++ g' :: gs := by simp
    have hg' : (pre ++ g' :: gs)[pre.length]? = some g' := by simp
    simp only [Except.map, ok_bind, hset, hg', pyGetInt_zero, pyGetNat]
    cases g' with
    | nil => rfl
    | cons t rest =>
      simp only [List.getElem?_cons_zero, ok_bind, List.drop_succ_cons, List.drop_zero, merge_model, unit_bind]
      cases readAbss rest with
      | error x => rfl
      | ok abss =>
        simp only [ok_bind]
        cases t.mergeSeq abss with
        | error x => rfl
        | ok t' =>
          have hlen : pre.length < (pre ++ (t :: rest) :: gs).length := by simp
          simp [pySetInt, pySetNat, hlen]

/-- the loop over the groups against the hand model's fold -/
theorem groups_loop (e : Env) : ∀ (rest pre : List (List Seq)) (merged : List Seq),
    (do let st ← forIn (List.range' pre.length rest.length) (pre ++ rest, merged) (Gen.Static.convert_loop3 e)
        pure st.2) =
      foldlM' (fun (acc : List Seq) g => do let t ← groupM g; .ok (acc ++ [t])) merged rest := by
  intro rest
  induction rest with
  | nil => intro pre merged; simp [foldlM']
  | cons g gs ih =>
    intro pre merged
    simp only [List.length_cons, List.range'_succ, List.forIn_cons, loop3_body, foldlM', groupM]
    cases g.mapM Seq.normaliseSeq with
    | error x => rfl
    | ok g' =>
      simp only [ok_bind]
      cases g' with
      | nil => rfl
      | cons t rest =>
        simp only
        cases readAbss rest with
        | error x => rfl
        | ok abss =>
          simp only [ok_bind]
          cases t.mergeSeq abss with
          | error x => rfl
          | ok t' =>
            simp only [ok_bind, pure_eq]
            have := ih (pre ++ [t' :: rest]) (merged ++ [t'])
            simp only [List.length_append, List.length_cons, List.length_nil, Nat.zero_add] at this
            exact this

/-! Phase 3: the part after the groups are merged -/

theorem pyGetInt_nat {α} (l : List α) (t : Int) (h0 : 0 ≤ t) : pyGetInt l t = pyGetNat l t.toNat := by
  simp [pyGetInt, h0]
theorem pySetInt_nat {α} (l : List α) (t : Int) (v : α) (h0 : 0 ≤ t) : pySetInt l t v = pySetNat l t.toNat v := by
  simp [pySetInt, h0]

/-- the part of `convert` after the groups are merged -/
theorem convert_tail (e : Env) (f : GMidiFile) (ms : List Seq) (metaSeq : Seq) (defCh : Option Int) (target : Int)
    (h0 : 0 ≤ target) (hl : target < ms.length) (hdc : defCh ≠ some pyNone) :
    (do let _ ← pyGetInt ms target
        let x50 ← pyGetInt ms target
        let r51 ← Gen.Wrap.merge e x50 [metaSeq]
        let mergedSequences_ ← pySetInt ms target r51.1
        let x52 ← pyGetInt mergedSequences_ target
        let r53 ← Gen.Static.getMessageTimesOfType e x52 [MType.timeSignature]
        let mergedSequences_ ← pySetInt mergedSequences_ target r53.1
        if (!(List.map (fun timingTuple_ : Int × Msg => decide (timingTuple_.1 = 0)) r53.2).any id) = true then do
            let x54 ← pyGetInt mergedSequences_ target
            let r55 ← Gen.Wrap.addAbsoluteMessage e x54
                { ty := MType.timeSignature, ch := if defCh.getD pyNone = pyNone then 0 else defCh.getD pyNone,
                  time := 0, num := 4, den := 4 }
            let mergedSequences_ ← pySetInt mergedSequences_ target r55.1
            pure (f, mergedSequences_)
          else pure (f, mergedSequences_)) =
      (match ms[target.toNat]? with
        | none => Except.error Err.valueError
        | some mt => do
          let __x ← metaSeq.readAbs
          let mt ← mt.mergeSeq [__x.2]
          let __x ← mt.readAbs
          if ((timesOfType MType.timeSignature __x.2).any fun m => m.time == 0) = true then
              Except.ok (f, modifyAt (fun _ => __x.1) target.toNat ms)
            else do
              let mt ← __x.1.addAbsMsg (Msg.mkTimeSig (defCh.getD 0) 4 4 0)
              Except.ok (f, modifyAt (fun _ => mt) target.toNat ms)) := by
  have hi : target.toNat < ms.length := by omega
  have hget : ms[target.toNat]? = some ms[target.toNat] := List.getElem?_eq_getElem hi
  simp only [pyGetInt_nat _ _ h0, pySetInt_nat _ _ _ h0, pyGetNat, hget, ok_bind, merge_model, unit_bind, readAbss, List.mapM_cons,
    List.mapM_nil, pySetNat, hi, if_true, List.length_set, List.getElem?_set_self hi, getMessageTimesOfType_eq, addAbs_eq,
    List.set_set, pure_eq]
  cases metaSeq.readAbs with
  | error x => rfl
  | ok pm =>
    simp only [map_ok, ok_bind, pure_eq]
    cases (ms[target.toNat]).mergeSeq [pm.2] with
    | error x => rfl
    | ok mt =>
      simp only [ok_bind]
      cases mt.readAbs with
      | error x => rfl
      | ok pa =>
        simp only [ok_bind, filter_ty, List.length_set, hi, if_true, List.getElem?_set_self hi, List.set_set]
        have hany : ((qOf (timesOfType MType.timeSignature pa.2)).map (fun t : Int × Msg => decide (t.1 = 0))).any id =
            (timesOfType MType.timeSignature pa.2).any (fun m => m.time == 0) := by
          simp only [qOf, List.any_map, List.map_map, Function.comp_def, id]
          congr 1
        have hch : (if defCh.getD pyNone = pyNone then (0 : Int) else defCh.getD pyNone) = defCh.getD 0 := by
          cases defCh with
          | none => rfl
          | some c =>
            have : c ≠ pyNone := fun h => hdc (by rw [h])
            simp [this]
        rw [hany, hch]
        simp only [Msg.mkTimeSig]
        simp only [← set_eq_modifyAt]
        cases ((timesOfType MType.timeSignature pa.2).any fun m => m.time == 0) with
        | true => rfl
        | false => simp only [Bool.not_false, if_true, Bool.false_eq_true, if_false]

theorem foldlM'_congr {α β : Type} (f g : β → α → Except Err β) (h : ∀ b a, f b a = g b a) (b : β) (l : List α) :
    foldlM' f b l = foldlM' g b l := by
  have : f = g := funext fun b => funext (h b)
  rw [this]

theorem fold_convTrack_dc (ppqn q : Int) (groups : List (List Nat)) (metaIdx : List Nat) :
    ∀ (l : List (List MidiEv × Nat)) (s s' : ConvSt), foldlM' (convTrack ppqn q groups metaIdx) s l = .ok s' →
      s.defCh ≠ some pyNone → s'.defCh ≠ some pyNone := by
  intro l
  induction l with
  | nil => intro s s' h hdc; simp only [foldlM', Except.ok.injEq] at h; subst h; exact hdc
  | cons it rest ih =>
    intro s s' h hdc
    simp only [foldlM'] at h
    cases hc : convTrack ppqn q groups metaIdx s it with
    | error x => rw [hc] at h; cases h
    | ok s1 => rw [hc] at h; exact ih s1 s' h (convTrack_dc _ _ _ _ _ _ _ hc hdc)


end SCoda.StaticTieL
