/-
  The pairing code behind `extract`: association-list facts, `modifyAt`, the invariant of the
  `pairStep` fold (shape of every pairing, order of the pairings of a channel), and
  `interleaveGo` (membership and order of its output).
-/
import SCoda.Lemmas.Sort
import SCoda.Model.Pairing
namespace SCoda.GluePair
open SCoda

/-! ### association lists -/

section assoc
variable {κ ν : Type} [DecidableEq κ]

theorem get?_set (d : Assoc κ ν) (k k' : κ) (v : ν) :
    (d.set k v).get? k' = if k = k' then some v else d.get? k' := by
  induction d with
  | nil => simp [Assoc.set, Assoc.get?]
  | cons a rest ih =>
    obtain ⟨k0, w⟩ := a
    by_cases h0 : k0 = k
    · subst h0
      by_cases h1 : k0 = k' <;> simp [Assoc.set, Assoc.get?, h1]
    · by_cases h1 : k0 = k'
      · subst h1
        have : ¬ k = k0 := fun h => h0 h.symm
        simp [Assoc.set, Assoc.get?, h0, this]
      · simp [Assoc.set, Assoc.get?, h0, h1, ih]

theorem mem_set (d : Assoc κ ν) (k : κ) (v : ν) (x : κ × ν) (h : x ∈ d.set k v) :
    x ∈ d ∨ x = (k, v) := by
  induction d with
  | nil => simp [Assoc.set] at h; exact Or.inr h
  | cons a rest ih =>
    obtain ⟨k0, w⟩ := a
    by_cases h0 : k0 = k
    · subst h0
      simp [Assoc.set] at h
      rcases h with h | h
      · exact Or.inr h
      · exact Or.inl (List.mem_cons_of_mem _ h)
    · simp [Assoc.set, h0] at h
      rcases h with h | h
      · exact Or.inl (by simp [h])
      · rcases ih h with h | h
        · exact Or.inl (List.mem_cons_of_mem _ h)
        · exact Or.inr h

theorem mem_of_get? (d : Assoc κ ν) (k : κ) (v : ν) (h : d.get? k = some v) : (k, v) ∈ d := by
  induction d with
  | nil => simp [Assoc.get?] at h
  | cons a rest ih =>
    obtain ⟨k0, w⟩ := a
    by_cases h0 : k0 = k
    · subst h0; simp [Assoc.get?] at h; simp [h]
    · simp [Assoc.get?, h0] at h
      exact List.mem_cons_of_mem _ (ih h)

theorem get?_erase_ne (d : Assoc κ ν) (k k' : κ) (hne : k ≠ k') :
    (d.erase k).get? k' = d.get? k' := by
  induction d with
  | nil => simp [Assoc.erase]
  | cons a rest ih =>
    obtain ⟨k0, w⟩ := a
    by_cases h0 : k0 = k
    · subst h0
      simp [Assoc.erase, Assoc.get?, hne]
    · simp [Assoc.erase, Assoc.get?, h0, ih]

/-- no key occurs twice -/
def KeysNodup (d : Assoc κ ν) : Prop := d.Pairwise (fun a b => a.1 ≠ b.1)

theorem get?_eq_none_of_forall (d : Assoc κ ν) (k : κ) (h : ∀ x ∈ d, x.1 ≠ k) : d.get? k = none := by
  induction d with
  | nil => simp [Assoc.get?]
  | cons a rest ih =>
    obtain ⟨k0, w⟩ := a
    have h0 : k0 ≠ k := h (k0, w) (by simp)
    simp [Assoc.get?, h0]
    exact ih (fun x hx => h x (List.mem_cons_of_mem _ hx))

theorem erase_sublist (d : Assoc κ ν) (k : κ) : List.Sublist (d.erase k) d := by
  induction d with
  | nil => simp [Assoc.erase]
  | cons a rest ih =>
    obtain ⟨k0, w⟩ := a
    by_cases h0 : k0 = k
    · simp [Assoc.erase, h0]
    · simp [Assoc.erase, h0, ih]

theorem KeysNodup.erase {d : Assoc κ ν} (h : KeysNodup d) (k : κ) : KeysNodup (d.erase k) :=
  List.Pairwise.sublist (erase_sublist d k) h

theorem get?_erase_self (d : Assoc κ ν) (k : κ) (h : KeysNodup d) : (d.erase k).get? k = none := by
  induction d with
  | nil => simp [Assoc.erase, Assoc.get?]
  | cons a rest ih =>
    obtain ⟨k0, w⟩ := a
    have h' := List.pairwise_cons.1 h
    by_cases h0 : k0 = k
    · subst h0
      simp only [Assoc.erase, if_true]
      exact get?_eq_none_of_forall _ _ (fun x hx => (h'.1 x hx).symm)
    · simp [Assoc.erase, Assoc.get?, h0]
      exact ih h'.2

theorem KeysNodup.set {d : Assoc κ ν} (h : KeysNodup d) (k : κ) (v : ν) : KeysNodup (d.set k v) := by
  induction d with
  | nil => simp [Assoc.set, KeysNodup]
  | cons a rest ih =>
    obtain ⟨k0, w⟩ := a
    have h' := List.pairwise_cons.1 h
    by_cases h0 : k0 = k
    · subst h0
      simp only [Assoc.set, if_true]
      exact List.pairwise_cons.2 ⟨h'.1, h'.2⟩
    · simp only [Assoc.set, h0, if_false]
      refine List.pairwise_cons.2 ⟨?_, ih h'.2⟩
      intro b hb
      rcases mem_set _ _ _ _ hb with hb | rfl
      · exact h'.1 b hb
      · exact h0

end assoc

/-! ### `modifyAt` -/

theorem getElem?_modifyAt {α} (f : α → α) (l : List α) : ∀ (i j : Nat),
    (modifyAt f i l)[j]? = if i = j then (l[j]?).map f else l[j]? := by
  induction l with
  | nil => intro i j; simp [modifyAt]
  | cons x xs ih =>
    intro i j
    cases i with
    | zero => cases j <;> simp [modifyAt]
    | succ i =>
      cases j with
      | zero => simp [modifyAt]
      | succ j => simp [modifyAt, ih]

theorem mem_modifyAt {α} (f : α → α) (l : List α) : ∀ (i : Nat) (x : α), x ∈ modifyAt f i l →
    x ∈ l ∨ ∃ y, l[i]? = some y ∧ x = f y := by
  induction l with
  | nil => intro i x h; simp [modifyAt] at h
  | cons a as ih =>
    intro i x h
    cases i with
    | zero =>
      simp [modifyAt] at h
      rcases h with h | h
      · exact Or.inr ⟨a, by simp, h⟩
      · exact Or.inl (List.mem_cons_of_mem _ h)
    | succ i =>
      simp [modifyAt] at h
      rcases h with h | h
      · exact Or.inl (by simp [h])
      · rcases ih i x h with h | ⟨y, hy, hx⟩
        · exact Or.inl (List.mem_cons_of_mem _ h)
        · exact Or.inr ⟨y, by simpa using hy, hx⟩

theorem map_modifyAt_eq {α β} (g : α → β) (f : α → α) (l : List α) : ∀ (i : Nat),
    (∀ y, l[i]? = some y → g (f y) = g y) → (modifyAt f i l).map g = l.map g := by
  induction l with
  | nil => intro i _; simp [modifyAt]
  | cons a as ih =>
    intro i h
    cases i with
    | zero => simp [modifyAt, h a (by simp)]
    | succ i => simp [modifyAt]; exact ih i (fun y hy => h y (by simpa using hy))

/-! ### the `pairStep` fold -/

/-- order of two pairings by the time of their head messages -/
def HeadLe (p q : Pairing) : Prop := ∀ x ∈ p.head?, ∀ y ∈ q.head?, x.time ≤ y.time

/-- the same order on the heads -/
def OptLe (a b : Option Msg) : Prop := ∀ x ∈ a, ∀ y ∈ b, x.time ≤ y.time

theorem pairwise_headLe_iff (l : List Pairing) :
    l.Pairwise HeadLe ↔ (l.map List.head?).Pairwise OptLe := by
  rw [List.pairwise_map]; rfl

/-- shape of a pairing while the fold runs (`seen` = the processed messages) -/
def Good (types : List MType) (seen : List Msg) (p : Pairing) : Prop :=
  (∃ m, p = [m] ∧ m ∈ seen ∧ m.ty ∈ types ∧ m.ty ≠ .noteOff) ∨
  (∃ on off, p = [on, off] ∧ on ∈ seen ∧ on.ty = .noteOn ∧ off.ty = .noteOff ∧
    off.nkey = on.nkey ∧ on.time ≤ off.time)

theorem Good.mono {types seen seen'} {p : Pairing} (h : Good types seen p)
    (hs : ∀ x ∈ seen, x ∈ seen') : Good types seen' p := by
  rcases h with ⟨m, h1, h2, h3⟩ | ⟨on, off, h1, h2, h3⟩
  · exact Or.inl ⟨m, h1, hs _ h2, h3⟩
  · exact Or.inr ⟨on, off, h1, hs _ h2, h3⟩

theorem Good.head {types seen} {p : Pairing} (h : Good types seen p) :
    ∃ x, p.head? = some x ∧ x ∈ seen := by
  rcases h with ⟨m, rfl, h2, _⟩ | ⟨on, off, rfl, h2, _⟩
  · exact ⟨m, rfl, h2⟩
  · exact ⟨on, rfl, h2⟩

/-- invariant of the `pairStep` fold -/
structure Inv (types : List MType) (seen : List Msg) (s : PairSt) : Prop where
  good : ∀ c ∈ s.pairs, ∀ p ∈ c.2, Good types seen p
  sorted : ∀ c ∈ s.pairs, c.2.Pairwise HeadLe
  nodup : KeysNodup s.opens
  opens : ∀ k i, s.opens.get? k = some i →
    ∃ on, ((s.pairs.get? k.1).getD [])[i]? = some [on] ∧ on.nkey = k ∧ on.ty = .noteOn

theorem Inv.mono {types seen seen' s} (h : Inv types seen s) (hs : ∀ x ∈ seen, x ∈ seen') :
    Inv types seen' s :=
  ⟨fun c hc p hp => (h.good c hc p hp).mono hs, h.sorted, h.nodup, h.opens⟩

/-- the current pairings of a channel are an entry of the dictionary (or there are none) -/
theorem old_cases (pairs : Assoc Int (List Pairing)) (ch : Int) :
    ((pairs.get? ch).getD [] = [] ) ∨ (ch, (pairs.get? ch).getD []) ∈ pairs := by
  cases h : pairs.get? ch with
  | none => left; rfl
  | some ps => right; exact mem_of_get? _ _ _ h

theorem inv_setdefault {types seen s} (h : Inv types seen s) (ch : Int) :
    Inv types seen (if s.pairs.contains ch then s else { s with pairs := s.pairs.set ch [] }) := by
  split
  · exact h
  · rename_i hc
    have hnone : s.pairs.get? ch = none := by
      simpa [Assoc.contains] using hc
    refine ⟨?_, ?_, h.nodup, ?_⟩
    · intro c hc p hp
      rcases mem_set _ _ _ _ hc with hc | rfl
      · exact h.good c hc p hp
      · simp at hp
    · intro c hc
      rcases mem_set _ _ _ _ hc with hc | rfl
      · exact h.sorted c hc
      · simp
    · intro k i hk
      obtain ⟨on, h1, h2⟩ := h.opens k i hk
      refine ⟨on, ?_, h2⟩
      simp only [get?_set]
      split
      · rename_i heq
        subst heq
        simp [hnone] at h1
      · exact h1

theorem inv_append {types seen s} (h : Inv types seen s) (m : Msg) (ch : Int)
    (hty : m.ty ∈ types) (hoff : m.ty ≠ .noteOff) (hle : ∀ x ∈ seen, x.time ≤ m.time) :
    Inv types (seen ++ [m]) (s.append ch [m]) := by
  have hmono : ∀ x ∈ seen, x ∈ seen ++ [m] := fun x hx => by simp [hx]
  have hold : (∀ p ∈ (s.pairs.get? ch).getD [], Good types seen p) ∧
      ((s.pairs.get? ch).getD []).Pairwise HeadLe := by
    rcases old_cases s.pairs ch with h0 | h0
    · rw [h0]; simp
    · exact ⟨h.good _ h0, h.sorted _ h0⟩
  refine ⟨?_, ?_, h.nodup, ?_⟩
  · intro c hc p hp
    rcases mem_set _ _ _ _ hc with hc | rfl
    · exact (h.good c hc p hp).mono hmono
    · rcases List.mem_append.1 hp with hp | hp
      · exact (hold.1 p hp).mono hmono
      · simp at hp; subst hp
        exact Or.inl ⟨m, rfl, by simp, hty, hoff⟩
  · intro c hc
    rcases mem_set _ _ _ _ hc with hc | rfl
    · exact h.sorted c hc
    · rw [List.pairwise_append]
      refine ⟨hold.2, by simp, ?_⟩
      intro p hp q hq
      simp at hq; subst hq
      obtain ⟨x, hx, hxs⟩ := (hold.1 p hp).head
      intro a ha b hb
      simp [hx] at ha
      simp at hb
      subst ha; subst hb
      exact hle _ hxs
  · intro k i hk
    obtain ⟨on, h1, h2⟩ := h.opens k i hk
    refine ⟨on, ?_, h2⟩
    simp only [PairSt.append, get?_set]
    split
    · rename_i heq
      rw [← heq] at h1
      simp only [Option.getD_some]
      have hlt : i < ((s.pairs.get? ch).getD []).length := by
        rcases Nat.lt_or_ge i ((s.pairs.get? ch).getD []).length with h' | h'
        · exact h'
        · rw [List.getElem?_eq_none h'] at h1; cases h1
      rw [List.getElem?_append_left hlt]
      exact h1
    · exact h1

theorem inv_close {types seen s} (h : Inv types seen s) (k : Int × Int) (i : Nat) (off : Msg)
    (hk : s.opens.get? k = some i) (hty : off.ty = .noteOff) (hkey : off.nkey = k)
    (hle : ∀ x ∈ seen, x.time ≤ off.time) :
    Inv types seen { (s.appendAt k.1 i off) with opens := s.opens.erase k } := by
  obtain ⟨on, hon, honk, hont⟩ := h.opens k i hk
  have hmem : (k.1, (s.pairs.get? k.1).getD []) ∈ s.pairs := by
    rcases old_cases s.pairs k.1 with h0 | h0
    · rw [h0] at hon; simp at hon
    · exact h0
  have hg := h.good _ hmem
  have hs := h.sorted _ hmem
  have honseen : on ∈ seen := by
    have := hg [on] (List.mem_of_getElem? hon)
    rcases this with ⟨m, h1, h2, _⟩ | ⟨a, b, h1, _⟩
    · simp at h1; subst h1; exact h2
    · simp at h1
  refine ⟨?_, ?_, h.nodup.erase k, ?_⟩
  · intro c hc p hp
    rcases mem_set _ _ _ _ hc with hc | rfl
    · exact h.good c hc p hp
    · rcases mem_modifyAt _ _ _ _ hp with hp | ⟨y, hy, rfl⟩
      · exact hg p hp
      · rw [hon] at hy
        simp at hy; subst hy
        exact Or.inr ⟨on, off, rfl, honseen, hont, hty, by rw [hkey, honk], hle _ honseen⟩
  · intro c hc
    rcases mem_set _ _ _ _ hc with hc | rfl
    · exact h.sorted c hc
    · rw [pairwise_headLe_iff] at hs ⊢
      rw [map_modifyAt_eq]
      · exact hs
      · intro y hy
        rw [hon] at hy
        simp at hy; subst hy
        rfl
  · intro k' i' hk'
    by_cases hkk : k = k'
    · subst hkk
      rw [get?_erase_self _ _ h.nodup] at hk'
      cases hk'
    · simp only at hk'
      rw [get?_erase_ne _ _ _ hkk] at hk'
      obtain ⟨on', h1, h2, h3⟩ := h.opens k' i' hk'
      refine ⟨on', ?_, h2, h3⟩
      simp only [PairSt.appendAt, get?_set]
      split
      · rename_i heq
        simp only [Option.getD_some, getElem?_modifyAt]
        rw [heq]
        split
        · rename_i hii
          subst hii
          rw [heq, h1] at hon
          simp at hon
          subst hon
          exact absurd (honk.symm.trans h2) hkk
        · exact h1
      · exact h1

theorem inv_setopen {types seen s} (h : Inv types seen s) (k : Int × Int) (i : Nat)
    (hi : ∃ on, ((s.pairs.get? k.1).getD [])[i]? = some [on] ∧ on.nkey = k ∧ on.ty = .noteOn) :
    Inv types seen { s with opens := s.opens.set k i } := by
  refine ⟨h.good, h.sorted, h.nodup.set k i, ?_⟩
  intro k' i' hk'
  simp only [get?_set] at hk'
  split at hk'
  · rename_i heq
    subst heq
    simp at hk'; subst hk'
    exact hi
  · exact h.opens k' i' hk'

theorem append_get (s : PairSt) (ch : Int) (p : Pairing) :
    ((s.append ch p).pairs.get? ch).getD [] = (s.pairs.get? ch).getD [] ++ [p] := by
  simp [PairSt.append, get?_set]

/-- `message_pairings.setdefault(channel, [])` -/
def setDefault (s : PairSt) (ch : Int) : PairSt :=
  if s.pairs.contains ch then s else { s with pairs := s.pairs.set ch [] }

/-- a re-triggered note gets an imputed note-off at the time of the new note-on -/
def closeOpen (s : PairSt) (m : Msg) : PairSt :=
  match s.opens.get? m.nkey with
  | some i => { (s.appendAt m.ch i (Msg.mkOff m.ch m.note m.time)) with opens := s.opens.erase m.nkey }
  | none => s

theorem pairStep_on (types : List MType) (s : PairSt) (m : Msg) (hc : types.contains m.ty = true)
    (hon : m.ty = .noteOn) :
    pairStep types true s m =
      { ((closeOpen (setDefault s m.ch) m).append m.ch [m]) with
        opens := ((closeOpen (setDefault s m.ch) m).append m.ch [m]).opens.set m.nkey
          (((((closeOpen (setDefault s m.ch) m).append m.ch [m]).pairs.get? m.ch).getD []).length - 1) } := by
  have hc' : types.contains MType.noteOn = true := hon ▸ hc
  simp only [pairStep, hon, hc', closeOpen, setDefault, Bool.not_true, Bool.false_eq_true, if_false, if_true]
  all_goals rfl

theorem pairStep_off (types : List MType) (s : PairSt) (m : Msg) (hc : types.contains m.ty = true)
    (hoff : m.ty = .noteOff) :
    pairStep types true s m =
      match (setDefault s m.ch).opens.get? m.nkey with
      | none => setDefault s m.ch
      | some i => { ((setDefault s m.ch).appendAt m.ch i m) with opens := (setDefault s m.ch).opens.erase m.nkey } := by
  have hc' : types.contains MType.noteOff = true := hoff ▸ hc
  simp only [pairStep, hoff, hc', setDefault, Bool.not_true, Bool.false_eq_true, if_false]
  all_goals rfl

theorem pairStep_other (types : List MType) (s : PairSt) (m : Msg) (hc : types.contains m.ty = true)
    (hon : m.ty ≠ .noteOn) (hoff : m.ty ≠ .noteOff) :
    pairStep types true s m = (setDefault s m.ch).append m.ch [m] := by
  simp only [pairStep, hc, setDefault, Bool.not_true, Bool.false_eq_true, if_false]

theorem inv_step {types seen s} (h : Inv types seen s) (m : Msg)
    (hle : ∀ x ∈ seen, x.time ≤ m.time) :
    Inv types (seen ++ [m]) (pairStep types true s m) := by
  have hmono : ∀ x ∈ seen, x ∈ seen ++ [m] := fun x hx => by simp [hx]
  by_cases hc : types.contains m.ty = true
  · have hty : m.ty ∈ types := by simpa using hc
    have h0 : Inv types seen (setDefault s m.ch) := inv_setdefault h m.ch
    by_cases hon : m.ty = .noteOn
    · rw [pairStep_on types s m hc hon]
      have h1 : Inv types seen (closeOpen (setDefault s m.ch) m) := by
        unfold closeOpen
        split
        · rename_i i hi
          exact inv_close h0 m.nkey i (Msg.mkOff m.ch m.note m.time) hi rfl rfl hle
        · exact h0
      have h2 := inv_append h1 m m.ch hty (by simp [hon]) hle
      refine inv_setopen h2 m.nkey _ ⟨m, ?_, rfl, hon⟩
      show (((PairSt.append _ m.ch [m]).pairs.get? m.ch).getD [])[_]? = _
      rw [append_get]
      simp
    · by_cases hoff : m.ty = .noteOff
      · rw [pairStep_off types s m hc hoff]
        split
        · exact h0.mono hmono
        · rename_i i hi
          exact (inv_close h0 m.nkey i m hi hoff rfl hle).mono hmono
      · rw [pairStep_other types s m hc hon hoff]
        exact inv_append h0 m m.ch hty hoff hle
  · have : pairStep types true s m = s := by
      have : (!types.contains m.ty) = true := by simpa using hc
      simp only [pairStep, this, if_true]
    rw [this]
    exact h.mono hmono

theorem inv_init (types : List MType) : Inv types [] {} :=
  ⟨by intro c hc; simp at hc, by intro c hc; simp at hc, List.Pairwise.nil,
   by intro k i hk; simp [Assoc.get?] at hk⟩

theorem inv_foldl_gen (types : List MType) (a : List Msg) : ∀ (seen : List Msg) (s : PairSt),
    Inv types seen s → (seen ++ a).Pairwise (fun x y => x.time ≤ y.time) →
    Inv types (seen ++ a) (a.foldl (pairStep types true) s) := by
  induction a with
  | nil => intro seen s h _; simpa using h
  | cons m ms ih =>
    intro seen s h hp
    rw [List.foldl_cons]
    have hp' : (seen ++ [m] ++ ms).Pairwise (fun x y => x.time ≤ y.time) := by simpa using hp
    have := ih (seen ++ [m]) _ (inv_step h m ?_) hp'
    · simpa using this
    · intro x hx
      exact (List.pairwise_append.1 hp).2.2 x hx m (by simp)

theorem inv_foldl (types : List MType) (a : List Msg) (ha : a.Pairwise (fun x y => x.time ≤ y.time)) :
    Inv types a (a.foldl (pairStep types true) {}) := by
  simpa using inv_foldl_gen types a [] {} (inv_init types) (by simpa using ha)

/-! ### closing the unclosed notes -/

theorem closeUnclosed_head (std : Int) (imp : Bool) (p : Pairing) :
    (closeUnclosed std imp p).head? = p.head? := by
  unfold closeUnclosed
  split
  · split <;> rfl
  · rfl

/-- shape of a pairing handed out by `pairingsSorted` -/
def Closed (types : List MType) (seen : List Msg) (p : Pairing) : Prop :=
  (∃ m, p = [m] ∧ m ∈ seen ∧ m.ty ∈ types ∧ m.ty ≠ .noteOff ∧ m.ty ≠ .noteOn) ∨
  (∃ on off, p = [on, off] ∧ on ∈ seen ∧ on.ty = .noteOn ∧ off.ty = .noteOff ∧
    off.nkey = on.nkey ∧ on.time ≤ off.time)

theorem closeUnclosed_good {types seen} {p : Pairing} (std : Int) (hstd : 0 ≤ std)
    (h : Good types seen p) : Closed types seen (closeUnclosed std true p) := by
  rcases h with ⟨m, rfl, h2, h3, h4⟩ | ⟨on, off, rfl, h2⟩
  · by_cases hon : m.ty = .noteOn
    · right
      refine ⟨m, Msg.mkOff m.ch m.note (m.time + std), ?_, h2, hon, rfl, rfl, ?_⟩
      · simp [closeUnclosed, hon]
      · simp [Msg.mkOff]; omega
    · left
      exact ⟨m, by simp [closeUnclosed, hon], h2, h3, h4, hon⟩
  · right
    exact ⟨on, off, rfl, h2⟩

theorem pairingsSorted_spec (types : List MType) (std : Int) (a : List Msg)
    (ha : a.Pairwise (fun x y => x.time ≤ y.time)) :
    ∀ c ∈ pairingsSorted types std true a,
      (∀ p ∈ c.2, ∃ q, Good types a q ∧ p = closeUnclosed std true q) ∧ c.2.Pairwise HeadLe := by
  intro c hc
  have hinv := inv_foldl types a ha
  simp only [pairingsSorted, List.mem_map] at hc
  obtain ⟨kv, hkv, rfl⟩ := hc
  refine ⟨?_, ?_⟩
  · intro p hp
    simp only [List.mem_map] at hp
    obtain ⟨q, hq, rfl⟩ := hp
    exact ⟨q, hinv.good kv hkv q hq, rfl⟩
  · have := hinv.sorted kv hkv
    rw [pairwise_headLe_iff] at this ⊢
    simp only [List.map_map]
    have hfun : (List.head? ∘ closeUnclosed std true) = List.head? := by
      funext p; exact closeUnclosed_head std true p
    rw [hfun]; exact this

/-! ### `interleaveGo` -/

theorem interleaveGo_mem : ∀ (fuel : Nat) (chans : List (Int × List Pairing)) (acc : List (Int × Pairing)),
    ∀ e ∈ interleaveGo fuel chans acc, e ∈ acc ∨ ∃ c ∈ chans, e.2 ∈ c.2 := by
  intro fuel
  induction fuel with
  | zero => intro chans acc e he; simp [interleaveGo] at he; exact Or.inl he
  | succ fuel ih =>
    intro chans acc e he
    unfold interleaveGo at he
    split at he
    · simp at he; exact Or.inl he
    · rename_i i v harg
      split at he
      · rename_i ch p rest hget
        have hmem := List.mem_of_getElem? hget
        rcases ih _ _ e he with h | ⟨c, hc, hec⟩
        · rcases List.mem_cons.1 h with rfl | h
          · exact Or.inr ⟨_, hmem, by simp⟩
          · exact Or.inl h
        · rcases mem_modifyAt _ _ _ _ hc with hc | ⟨y, hy, rfl⟩
          · exact Or.inr ⟨c, hc, hec⟩
          · exact Or.inr ⟨y, List.mem_of_getElem? hy, List.mem_of_mem_drop hec⟩
      · simp at he; exact Or.inl he

/-- what `argMinFirst` returns: an index whose value is minimal -/
theorem argMinFirst_spec : ∀ (ts : List (Option Int)) (i : Nat) (best : Option (Nat × Int)) (j : Nat) (v : Int),
    argMinFirst ts i best = some (j, v) →
      ((best = some (j, v)) ∨ (i ≤ j ∧ ts[j - i]? = some (some v))) ∧
      (∀ w, some w ∈ ts → v ≤ w) ∧ (∀ b, best = some b → v ≤ b.2) := by
  intro ts
  induction ts with
  | nil =>
    intro i best j v h
    simp only [argMinFirst] at h
    subst h
    exact ⟨Or.inl rfl, by simp, by intro b hb; cases hb; exact Int.le_refl _⟩
  | cons t ts ih =>
    intro i best j v h
    simp only [argMinFirst] at h
    obtain ⟨h1, h2, h3⟩ := ih _ _ _ _ h
    cases t with
    | none =>
      simp only at h1 h3
      refine ⟨?_, ?_, h3⟩
      · rcases h1 with h1 | ⟨h1, h1'⟩
        · exact Or.inl h1
        · right
          refine ⟨by omega, ?_⟩
          have : j - i = (j - (i + 1)) + 1 := by omega
          rw [this]; simpa using h1'
      · intro w hw
        simp at hw
        exact h2 w hw
    | some u =>
      cases best with
      | none =>
        simp only at h1 h3
        have hvu : v ≤ u := h3 (i, u) rfl
        refine ⟨?_, ?_, by simp⟩
        · right
          rcases h1 with h1 | ⟨h1, h1'⟩
          · simp at h1
            obtain ⟨rfl, rfl⟩ := h1
            simp
          · refine ⟨by omega, ?_⟩
            have : j - i = (j - (i + 1)) + 1 := by omega
            rw [this]; simpa using h1'
        · intro w hw
          simp at hw
          rcases hw with rfl | hw
          · exact hvu
          · exact h2 w hw
      | some bb =>
        obtain ⟨bi, b⟩ := bb
        simp only at h1 h3
        by_cases hub : u < b
        · simp only [hub, if_true] at h1 h3
          have hvu : v ≤ u := h3 (i, u) rfl
          refine ⟨?_, ?_, ?_⟩
          · right
            rcases h1 with h1 | ⟨h1, h1'⟩
            · simp at h1
              obtain ⟨rfl, rfl⟩ := h1
              simp
            · refine ⟨by omega, ?_⟩
              have : j - i = (j - (i + 1)) + 1 := by omega
              rw [this]; simpa using h1'
          · intro w hw
            simp at hw
            rcases hw with rfl | hw
            · exact hvu
            · exact h2 w hw
          · intro b' hb'
            simp at hb'; subst hb'
            simp; omega
        · simp only [hub, if_false] at h1 h3
          have hvb : v ≤ b := h3 (bi, b) rfl
          refine ⟨?_, ?_, ?_⟩
          · rcases h1 with h1 | ⟨h1, h1'⟩
            · exact Or.inl h1
            · right
              refine ⟨by omega, ?_⟩
              have : j - i = (j - (i + 1)) + 1 := by omega
              rw [this]; simpa using h1'
          · intro w hw
            simp at hw
            rcases hw with rfl | hw
            · omega
            · exact h2 w hw
          · intro b' hb'
            simp at hb'; subst hb'
            exact hvb

/-- order of two events by the time of their head messages -/
def EvLe (a b : Int × Pairing) : Prop := HeadLe a.2 b.2

theorem headTime_le {v : Int} {ps : List Pairing} (hmin : ∀ w, headTime ps = some w → v ≤ w)
    (hs : ps.Pairwise HeadLe) (hne : ∀ p ∈ ps, p ≠ []) :
    ∀ q ∈ ps, ∀ y ∈ q.head?, v ≤ y.time := by
  intro q hq y hy
  cases ps with
  | nil => simp at hq
  | cons q0 qs =>
    cases q0 with
    | nil => exact absurd rfl (hne [] (by simp))
    | cons m0 r0 =>
      have h0 : v ≤ m0.time := hmin m0.time rfl
      rcases List.mem_cons.1 hq with rfl | hq
      · simp at hy; subst hy; exact h0
      · have := (List.pairwise_cons.1 hs).1 q hq m0 (by simp) y hy
        omega

theorem interleaveGo_sorted : ∀ (fuel : Nat) (chans : List (Int × List Pairing)) (acc : List (Int × Pairing)),
    (∀ c ∈ chans, c.2.Pairwise HeadLe) → (∀ c ∈ chans, ∀ p ∈ c.2, p ≠ []) →
    acc.reverse.Pairwise EvLe → (∀ a ∈ acc, ∀ c ∈ chans, ∀ p ∈ c.2, HeadLe a.2 p) →
    (interleaveGo fuel chans acc).Pairwise EvLe := by
  intro fuel
  induction fuel with
  | zero => intro chans acc _ _ h3 _; simpa [interleaveGo] using h3
  | succ fuel ih =>
    intro chans acc h1 h2 h3 h4
    unfold interleaveGo
    split
    · exact h3
    · rename_i i v harg
      split
      · rename_i ch p rest hget
        have hmem := List.mem_of_getElem? hget
        obtain ⟨hidx, hmin, _⟩ := argMinFirst_spec _ _ _ _ _ harg
        simp at hidx
        obtain ⟨c0, ps0, hc0, hv⟩ := hidx
        rw [hget] at hc0
        simp at hc0
        obtain ⟨rfl, rfl⟩ := hc0
        -- the head of `p` has time `v`
        have hp : ∀ x ∈ p.head?, x.time = v := by
          intro x hx
          cases p with
          | nil => simp at hx
          | cons m r => simp at hx; subst hx; simpa [headTime] using hv
        have hminc : ∀ c ∈ chans, ∀ q ∈ c.2, ∀ y ∈ q.head?, v ≤ y.time := by
          intro c hc
          apply headTime_le _ (h1 c hc) (h2 c hc)
          intro w hw
          apply hmin w
          simp only [List.mem_map]
          exact ⟨c, hc, hw⟩
        have hsub : ∀ c ∈ modifyAt (fun c : Int × List Pairing => (c.1, c.2.drop 1)) i chans,
            ∃ c0 ∈ chans, List.Sublist c.2 c0.2 := by
          intro c hc
          rcases mem_modifyAt _ _ _ _ hc with hc | ⟨y, hy, rfl⟩
          · exact ⟨c, hc, List.Sublist.refl _⟩
          · exact ⟨y, List.mem_of_getElem? hy, List.drop_sublist _ _⟩
        apply ih
        · intro c hc
          obtain ⟨c0, hc0, hs⟩ := hsub c hc
          exact (h1 c0 hc0).sublist hs
        · intro c hc q hq
          obtain ⟨c0, hc0, hs⟩ := hsub c hc
          exact h2 c0 hc0 q (hs.subset hq)
        · rw [List.reverse_cons, List.pairwise_append]
          refine ⟨h3, by simp, ?_⟩
          intro a ha b hb
          simp at hb; subst hb
          exact h4 a (by simpa using ha) _ hmem p (by simp)
        · intro a ha c hc q hq
          obtain ⟨c0, hc0, hs⟩ := hsub c hc
          have hq0 := hs.subset hq
          rcases List.mem_cons.1 ha with rfl | ha
          · intro x hx y hy
            rw [hp x hx]
            exact hminc c0 hc0 q hq0 y hy
          · exact h4 a ha c0 hc0 q hq0
      · exact h3


/-! ### `interleaved` -/

theorem interleaved_mem (types : List MType) (std : Int) (a : List Msg) :
    ∀ ev ∈ interleaved types std true a,
      ∃ q, Good types (sortAbs a) q ∧ ev.2 = closeUnclosed std true q := by
  intro ev hev
  simp only [interleaved, pairings] at hev
  rcases interleaveGo_mem _ _ _ ev hev with h | ⟨c, hc, hec⟩
  · simp at h
  · exact (pairingsSorted_spec types std _ (sortAbs_pairwise a) c hc).1 _ hec

theorem interleaved_sorted (types : List MType) (std : Int) (a : List Msg) :
    (interleaved types std true a).Pairwise EvLe := by
  simp only [interleaved, pairings]
  apply interleaveGo_sorted
  · intro c hc
    exact (pairingsSorted_spec types std _ (sortAbs_pairwise a) c hc).2
  · intro c hc p hp
    obtain ⟨q, hq, rfl⟩ := (pairingsSorted_spec types std _ (sortAbs_pairwise a) c hc).1 p hp
    obtain ⟨x, hx, _⟩ := hq.head
    intro hnil
    have := closeUnclosed_head std true q
    rw [hnil, hx] at this
    cases this
  · simp
  · intro a ha; simp at ha

end SCoda.GluePair
