/-
  Helper lemmas for `Props/HeapTie2.lean`: a weakest-precondition reading `Sat` of the monad `HeapLib.HM` (so that loops with
  `break` and data-dependent branches can be reasoned about by invariants rather than by run equations), and the heap invariant
  `Inv` of the translated `RelativeSequence.split` with its preservation lemmas.
-/
import SCoda.Gen.HeapFns2
import SCoda.Lemmas.HeapTieL2
namespace SCoda.HeapTie2L
open SCoda SCoda.HeapOps SCoda.HeapLib SCoda.Gen.HeapFns SCoda.Gen.HeapFns2 SCoda.HeapTieL

/-! ## `Sat`: what holds after a computation, on both exits -/

/-- running `m` on `h` ends normally with a result and a heap satisfying `Q`, or with an exception and a heap satisfying `E` -/
def Sat {α : Type} (m : HM α) (h : Heap) (Q : α → Heap → Prop) (E : Heap → Prop) : Prop :=
  match m h with
  | (.ok a, h') => Q a h'
  | (.error _, h') => E h'

theorem sat_of_run {α : Type} {m : HM α} {h h' : Heap} {a : α} (hr : m h = (.ok a, h')) (Q : α → Heap → Prop) (E : Heap → Prop) :
    Sat m h Q E ↔ Q a h' := by
  simp [Sat, hr]

theorem Sat.mono {α : Type} {m : HM α} {h : Heap} {Q Q' : α → Heap → Prop} {E E' : Heap → Prop}
    (hs : Sat m h Q E) (hq : ∀ a h', Q a h' → Q' a h') (he : ∀ h', E h' → E' h') : Sat m h Q' E' := by
  unfold Sat at *
  split <;> simp_all

@[simp] theorem sat_pure {α : Type} (a : α) (h : Heap) (Q : α → Heap → Prop) (E : Heap → Prop) :
    Sat (pure a : HM α) h Q E ↔ Q a h := Iff.rfl

@[simp] theorem sat_bind {α β : Type} (m : HM α) (f : α → HM β) (h : Heap) (Q : β → Heap → Prop) (E : Heap → Prop) :
    Sat (m >>= f) h Q E ↔ Sat m h (fun a h' => Sat (f a) h' Q E) E := by
  unfold Sat
  simp only [run_bind]
  rcases m h with ⟨r, h'⟩
  cases r <;> simp [HM.bindRes]

@[simp] theorem sat_get (h : Heap) (Q : Heap → Heap → Prop) (E : Heap → Prop) : Sat HM.get h Q E ↔ Q h h := Iff.rfl
@[simp] theorem sat_modify (f : Heap → Heap) (h : Heap) (Q : Unit → Heap → Prop) (E : Heap → Prop) :
    Sat (HM.modify f) h Q E ↔ Q () (f h) := Iff.rfl
@[simp] theorem sat_alloc {α : Type} (f : Heap → Heap × α) (h : Heap) (Q : α → Heap → Prop) (E : Heap → Prop) :
    Sat (HM.alloc f) h Q E ↔ Q (f h).2 (f h).1 := Iff.rfl
@[simp] theorem sat_fail {α : Type} (e : HErr) (h : Heap) (Q : α → Heap → Prop) (E : Heap → Prop) :
    Sat (HM.fail e : HM α) h Q E ↔ E h := Iff.rfl

@[simp] theorem sat_ite {α : Type} (c : Prop) [Decidable c] (a b : HM α) (h : Heap) (Q : α → Heap → Prop) (E : Heap → Prop) :
    Sat (if c then a else b) h Q E ↔ (c → Sat a h Q E) ∧ (¬ c → Sat b h Q E) := by
  split <;> simp_all

/-- `xs[0]` of `xs.pop(0)` -/
theorem sat_index_zero {α : Type} (xs : List α) (h : Heap) (Q : α → Heap → Prop) (E : Heap → Prop) :
    Sat (HM.index xs 0) h Q E ↔ (match xs with | x :: _ => Q x h | [] => E h) := by
  cases xs <;> rfl

/-- invariant rule for a `for` loop (with `break`): `I rest state heap` holds before each round, `rest` the elements still to come -/
theorem sat_forIn {α β : Type} (f : α → β → HM (ForInStep β)) (I : List α → β → Heap → Prop) (Q : β → Heap → Prop) (E : Heap → Prop)
    (hstep : ∀ a as b h, I (a :: as) b h →
      Sat (f a b) h (fun r h' => match r with | .yield b' => I as b' h' | .done b' => Q b' h') E)
    (hend : ∀ b h, I [] b h → Q b h) :
    ∀ (xs : List α) (b : β) (h : Heap), I xs b h → Sat (forIn xs b f) h Q E := by
  intro xs
  induction xs with
  | nil => intro b h hi; exact hend b h hi
  | cons a as ih =>
    intro b h hi
    rw [List.forIn_cons, sat_bind]
    refine (hstep a as b h hi).mono ?_ (fun _ he => he)
    intro r h' hr
    cases r with
    | done b' => exact hr
    | yield b' => exact ih b' h' hr

/-! ## the translated callees of `RelativeSequence.split` -/

@[simp] theorem sat_newView (h : Heap) (Q : Nat → Heap → Prop) (E : Heap → Prop) :
    Sat newView h Q E ↔ Q h.nLst (h.newLst []).1 := Iff.rfl

@[simp] theorem sat_relativeSequenceInit_none (g : GOrc) (tag i : Nat) (h : Heap) (Q : Unit → Heap → Prop) (E : Heap → Prop) :
    Sat (relativeSequenceInit g tag i none) h Q E ↔ Q () (h.setLst i []) :=
  sat_of_run (by unfold relativeSequenceInit; exact abstractSequenceInit_none g tag i h) Q E

@[simp] theorem sat_addMessage_none (g : GOrc) (tag l i : Nat) (h : Heap) (Q : Unit → Heap → Prop) (E : Heap → Prop) :
    Sat (relativeSequenceAddMessage g tag l i none) h Q E ↔ Q () (h.setLst l (h.lst l ++ [i])) :=
  sat_of_run (relativeSequenceAddMessage_none g tag l i h) Q E

@[simp] theorem sat_newMessage (h : Heap) (Q : Nat → Heap → Prop) (E : Heap → Prop) :
    Sat newMessage h Q E ↔ Q h.nMsg (h.newMsg blankMsg).1 := Iff.rfl

/-- the value `Message.__init__` stores -/
def initVal (ty : MType) (ch time note vel ctl num den key prog : Int) : Msg :=
  { ty := ty, ch := if ch = pyNone then 0 else ch, time := time, note := note, vel := vel, ctl := ctl, prog := prog, num := num,
    den := den, key := key }

theorem initVal_ch (ty : MType) (ch time note vel ctl num den key prog : Int) :
    (initVal ty ch time note vel ctl num den key prog).ch ≠ pyNone := by
  simp only [initVal]
  split <;> simp_all [pyNone]

@[simp] theorem sat_messageInit (g : GOrc) (tag i : Nat) (ty : MType) (ch time note vel ctl num den key prog : Int) (h : Heap)
    (Q : Unit → Heap → Prop) (E : Heap → Prop) :
    Sat (messageInit g tag i ty ch time note vel ctl num den key prog) h Q E
      ↔ Q () (h.setMsg i (initVal ty ch time note vel ctl num den key prog)) :=
  sat_of_run (messageInit_run g tag i ty ch time note vel ctl num den key prog h) Q E

/-! ## the invariant of `RelativeSequence.split` -/

/-- a message reference the call may hold: a message object of the receiver's list, or one allocated since the call began -/
def OkId (h0 : Heap) (src : List Nat) (h : Heap) (i : Nat) : Prop := i ∈ src ∨ (h0.nMsg ≤ i ∧ i < h.nMsg)

/-- a view object allocated since the call began -/
def OkV (h0 h : Heap) (p : Nat) : Prop := h0.nLst ≤ p ∧ p < h.nLst

/-- the heap invariant: nothing that existed when the call began was written; only messages and views were allocated; every view
    allocated since holds message objects of the receiver's list or messages allocated since, and the latter have a channel -/
structure Inv (h0 : Heap) (src : List Nat) (h : Heap) : Prop where
  ext : Ext h0 h
  kinds : h.nSeq = h0.nSeq ∧ h.nBar = h0.nBar ∧ h.nTrk = h0.nTrk ∧ h.nCmp = h0.nCmp
  views : ∀ p, OkV h0 h p → ∀ i ∈ h.lst p, OkId h0 src h i
  chan : ∀ i, h0.nMsg ≤ i → i < h.nMsg → (h.msg i).ch ≠ pyNone

theorem Inv.refl (h0 : Heap) (src : List Nat) : Inv h0 src h0 :=
  ⟨Ext.refl h0, ⟨rfl, rfl, rfl, rfl⟩, fun p hp => by unfold OkV at hp; omega, fun i h1 h2 => by omega⟩

theorem OkId.mono {h0 : Heap} {src : List Nat} {h h' : Heap} {i : Nat} (hi : OkId h0 src h i) (hle : h.nMsg ≤ h'.nMsg) :
    OkId h0 src h' i := by
  rcases hi with hi | hi
  · exact Or.inl hi
  · exact Or.inr ⟨hi.1, by omega⟩

theorem OkV.mono {h0 h h' : Heap} {p : Nat} (hp : OkV h0 h p) (hle : h.nLst ≤ h'.nLst) : OkV h0 h' p := by
  unfold OkV at *; omega

theorem Inv.nMsg_le {h0 : Heap} {src : List Nat} {h : Heap} (hi : Inv h0 src h) : h0.nMsg ≤ h.nMsg := hi.ext.1 .msg
theorem Inv.nLst_le {h0 : Heap} {src : List Nat} {h : Heap} (hi : Inv h0 src h) : h0.nLst ≤ h.nLst := hi.ext.1 .lst

/-- `Message(...)`: a new message cell holding what `Message.__init__` stored -/
theorem Inv.newMsg {h0 : Heap} {src : List Nat} {h : Heap} (hi : Inv h0 src h) (ty : MType)
    (ch time note vel ctl num den key prog : Int) :
    Inv h0 src (h.newMsg (initVal ty ch time note vel ctl num den key prog)).1 := by
  have hm := hi.nMsg_le
  refine ⟨⟨?_, ?_⟩, hi.kinds, ?_, ?_⟩
  · intro k; have := hi.ext.1 k; cases k <;> simp_all [Heap.newMsg, Heap.next] <;> omega
  · rintro ⟨k, i⟩ hc
    have := hi.ext.2 (k, i) hc
    cases k <;> simp_all [Heap.newMsg, Heap.get, Heap.alloc, Heap.next]
    omega
  · intro p hp i hmem
    exact (hi.views p hp i hmem).mono (by simp [Heap.newMsg])
  · intro i h1 h2
    by_cases he : i = h.nMsg
    · subst he; simp only [Heap.newMsg, if_true]; exact initVal_ch _ _ _ _ _ _ _ _ _ _
    · have : i < h.nMsg := by simp [Heap.newMsg] at h2; omega
      simp only [Heap.newMsg, he, if_false]; exact hi.chan i h1 this

/-- `RelativeSequence()`: a new empty view -/
theorem Inv.newLst {h0 : Heap} {src : List Nat} {h : Heap} (hi : Inv h0 src h) : Inv h0 src (h.newLst []).1 := by
  have hl := hi.nLst_le
  refine ⟨⟨?_, ?_⟩, hi.kinds, ?_, hi.chan⟩
  · intro k; have := hi.ext.1 k; cases k <;> simp_all [Heap.newLst, Heap.next] <;> omega
  · rintro ⟨k, i⟩ hc
    have := hi.ext.2 (k, i) hc
    cases k <;> simp_all [Heap.newLst, Heap.get, Heap.alloc, Heap.next]
    omega
  · intro p hp i hmem
    by_cases he : p = h.nLst
    · subst he; simp [Heap.newLst] at hmem
    · have hp' : OkV h0 h p := by unfold OkV at *; simp [Heap.newLst] at hp; omega
      simp only [Heap.newLst, he, if_false] at hmem
      exact hi.views p hp' i hmem

/-- `view._messages.append(x)` / `.extend(xs)` on a view allocated since the call began -/
theorem Inv.append {h0 : Heap} {src : List Nat} {h : Heap} (hi : Inv h0 src h) {p : Nat} (hp : OkV h0 h p) {is : List Nat}
    (his : ∀ i ∈ is, OkId h0 src h i) : Inv h0 src (h.setLst p (h.lst p ++ is)) := by
  refine ⟨⟨?_, ?_⟩, hi.kinds, ?_, hi.chan⟩
  · intro k; have := hi.ext.1 k; cases k <;> simp_all [Heap.setLst, Heap.next]
  · rintro ⟨k, i⟩ hc
    have := hi.ext.2 (k, i) hc
    unfold OkV at hp
    cases k <;> simp_all [Heap.setLst, Heap.get, Heap.alloc, Heap.next]
    omega
  · intro q hq i hmem
    have hq' : OkV h0 h q := hq
    by_cases he : q = p
    · subst he
      simp only [Heap.setLst, if_true, List.mem_append] at hmem
      rcases hmem with hm | hm
      · exact hi.views q hq' i hm
      · exact his i hm
    · simp only [Heap.setLst, he, if_false] at hmem
      exact hi.views q hq' i hmem

/-! ## dicts -/

theorem mem_dictSet {κ ν : Type} [DecidableEq κ] {d : List (κ × ν)} {k : κ} {v : ν} {x : κ × ν}
    (hx : x ∈ HeapLib2.dictSet d k v) : x ∈ d ∨ x.2 = v := by
  induction d with
  | nil => simp [HeapLib2.dictSet] at hx; right; rw [hx]
  | cons e d ih =>
    obtain ⟨k', v'⟩ := e
    simp only [HeapLib2.dictSet] at hx
    split at hx
    · simp only [List.mem_cons] at hx
      rcases hx with hx | hx
      · right; rw [hx]
      · left; simp [hx]
    · simp only [List.mem_cons] at hx
      rcases hx with hx | hx
      · left; simp [hx]
      · rcases ih hx with h1 | h1
        · left; simp [h1]
        · right; exact h1

theorem mem_dictDel {κ ν : Type} [DecidableEq κ] {d : List (κ × ν)} {k : κ} {x : κ × ν}
    (hx : x ∈ HeapLib2.dictDel d k) : x ∈ d := by
  induction d with
  | nil => simp [HeapLib2.dictDel] at hx
  | cons e d ih =>
    obtain ⟨k', v'⟩ := e
    simp only [HeapLib2.dictDel] at hx
    split at hx
    · simp [hx]
    · simp only [List.mem_cons] at hx
      rcases hx with hx | hx
      · simp [hx]
      · simp [ih hx]

/-! ## the invariant with the locals, and the two loop proofs -/

/-- the invariant together with what the locals hold: `vs` views allocated since the call began, `ids` message references that are the
    receiver's or allocated since -/
def Ctx (h0 : Heap) (src : List Nat) (h : Heap) (vs ids : List Nat) : Prop :=
  Inv h0 src h ∧ (∀ p ∈ vs, OkV h0 h p) ∧ (∀ i ∈ ids, OkId h0 src h i)

theorem Ctx.sub {h0 : Heap} {src : List Nat} {h : Heap} {vs ids vs' ids' : List Nat} (hc : Ctx h0 src h vs ids)
    (h1 : ∀ p ∈ vs', p ∈ vs) (h2 : ∀ i ∈ ids', i ∈ ids) : Ctx h0 src h vs' ids' :=
  ⟨hc.1, fun p hp => hc.2.1 p (h1 p hp), fun i hi => hc.2.2 i (h2 i hi)⟩

theorem Ctx.newMsg {h0 : Heap} {src : List Nat} {h : Heap} {vs ids : List Nat} (hc : Ctx h0 src h vs ids) (ty : MType)
    (ch time note vel ctl num den key prog : Int) :
    Ctx h0 src (h.newMsg (initVal ty ch time note vel ctl num den key prog)).1 vs (h.nMsg :: ids) := by
  refine ⟨hc.1.newMsg .., fun p hp => (hc.2.1 p hp).mono (by simp [Heap.newMsg]), fun i hi => ?_⟩
  rcases List.mem_cons.1 hi with hi | hi
  · subst hi; exact Or.inr ⟨hc.1.nMsg_le, by simp [Heap.newMsg]⟩
  · exact (hc.2.2 i hi).mono (by simp [Heap.newMsg])

theorem Ctx.newLst {h0 : Heap} {src : List Nat} {h : Heap} {vs ids : List Nat} (hc : Ctx h0 src h vs ids) :
    Ctx h0 src (h.newLst []).1 (h.nLst :: vs) ids := by
  refine ⟨hc.1.newLst, fun p hp => ?_, fun i hi => (hc.2.2 i hi).mono (by simp [Heap.newLst])⟩
  rcases List.mem_cons.1 hp with hp | hp
  · subst hp; exact ⟨hc.1.nLst_le, by simp [Heap.newLst]⟩
  · exact (hc.2.1 p hp).mono (by simp [Heap.newLst])

theorem Ctx.append {h0 : Heap} {src : List Nat} {h : Heap} {vs ids : List Nat} (hc : Ctx h0 src h vs ids) {p : Nat} {is : List Nat}
    (hp : p ∈ vs) (his : ∀ i ∈ is, i ∈ ids) : Ctx h0 src (h.setLst p (h.lst p ++ is)) vs ids :=
  ⟨hc.1.append (hc.2.1 p hp) (fun i hi => hc.2.2 i (his i hi)), fun q hq => hc.2.1 q hq, fun i hi => hc.2.2 i hi⟩

/-- list-membership side goals -/
macro "mem_tac" : tactic => `(tactic| first | (simp; done) | (simp; grind) | grind)

abbrev St1 := List Nat × List Nat × Nat × List ((Int × Int) × Nat)
abbrev St2 := List Nat × List Nat × Nat × List ((Int × Int) × Nat) × List Nat × Int × Bool

set_option hygiene false in
/-- the loop over `open_messages.items()` and what follows it, from `hstart : Ctx … (nxt :: cur :: split) (wm ++ queue)` -/
macro "open_loop" : tactic => `(tactic|
  (refine Sat.mono (Q := fun (a : List Nat) hh => Ctx h0 (h0.lst l) hh (nxt :: cur :: split) (wm ++ a)) ?_ ?_ (fun _ he => he)
   · refine sat_forIn _ (fun _ (a : List Nat) hh => Ctx h0 (h0.lst l) hh (nxt :: cur :: split) (wm ++ a)) _ _ ?_ (fun _ _ hi => hi) _ _ _ hstart
     intro kv _ q hh hq
     simp only [sat_bind, sat_get, sat_pure, sat_addMessage_none, sat_newMessage, sat_messageInit, setMsg_newMsg]
     exact (((hq.newMsg ..).append (p := cur) (is := [hh.nMsg]) (by mem_tac) (by mem_tac)).newMsg ..).sub (by mem_tac) (by mem_tac)
   · intro a hh hq
     have hq2 := hq.newMsg MType.wait (hh.msg m).ch ((h'.msg m).time - rc) pyNone pyNone pyNone pyNone pyNone pyNone pyNone
     exact ⟨fun _ => hq2.sub (by mem_tac) (by mem_tac), fun _ => hq2.sub (by mem_tac) (by mem_tac)⟩))

theorem split_sat (g : GOrc) (tag l : Nat) (caps : List Int) (h0 : Heap) :
    Sat (relativeSequenceSplit g tag l caps) h0
      (fun ps h => Inv h0 (h0.lst l) h ∧ ∀ p ∈ ps, OkV h0 h p)
      (fun h => Inv h0 (h0.lst l) h) := by
  unfold relativeSequenceSplit
  simp only [sat_bind, sat_get, sat_newView, sat_relativeSequenceInit_none, setLst_newLst]
  refine Sat.mono (Q := fun (s : St1) h => Ctx h0 (h0.lst l) h (s.2.2.1 :: s.1) s.2.1) ?loop ?cont (fun _ he => he)
  case cont =>
    rintro ⟨split, wm, cur, opn⟩ h hctx
    simp only [sat_bind, sat_get, sat_modify, sat_ite, sat_pure]
    have e1 : Ctx h0 (h0.lst l) (h.setLst cur (h.lst cur ++ wm)) (cur :: split) wm := hctx.append (by simp) (by simp)
    refine ⟨fun _ => ⟨fun _ => ⟨e1.1, ?_⟩, fun _ => ⟨e1.1, ?_⟩⟩, fun _ => ⟨fun _ => ⟨hctx.1, ?_⟩, fun _ => ⟨hctx.1, ?_⟩⟩⟩
    · intro p hp; exact e1.2.1 p (by simp at hp ⊢; grind)
    · intro p hp; exact e1.2.1 p (by simp at hp ⊢; grind)
    · intro p hp; exact hctx.2.1 p (by simp at hp ⊢; grind)
    · intro p hp; exact hctx.2.1 p (by simp at hp ⊢; grind)
  case loop =>
    refine sat_forIn _ (fun _ (s : St1) h => Ctx h0 (h0.lst l) h (s.2.2.1 :: s.1) s.2.1) _ _ ?step (fun _ _ hi => hi) caps _ _ ?init
    case init =>
      have := (show Ctx h0 (h0.lst l) h0 [] (h0.lst l) from ⟨Inv.refl _ _, by simp, fun i hi => Or.inl hi⟩).newLst
      exact this
    case step =>
      rintro cap _ ⟨split, wm, cur, opn⟩ h hctx
      simp only [sat_bind, sat_get, sat_newView, sat_relativeSequenceInit_none, setLst_newLst]
      have hc1 : Ctx h0 (h0.lst l) (h.newLst []).1 (h.nLst :: cur :: split) wm := hctx.newLst
      generalize (h.newLst []).1 = hn at hc1 ⊢
      generalize h.nLst = nxt at hc1 ⊢
      refine Sat.mono (Q := fun (s : St2) h' => Ctx h0 (h0.lst l) h' (nxt :: s.2.2.1 :: s.1) (s.2.1 ++ s.2.2.2.2.1)) ?loop2 ?cont2 (fun _ he => he)
      case cont2 =>
        rintro ⟨split, wm, cur, opn, queue, rc, done⟩ h' hc
        cases done <;> simp only [sat_bind, sat_fail, sat_ite, sat_pure, Bool.not_true, Bool.not_false]
        · simp; exact hc.1
        · simp; exact hc.sub (by mem_tac) (by mem_tac)
      case loop2 =>
        refine sat_forIn _ (fun _ (s : St2) h' => Ctx h0 (h0.lst l) h' (nxt :: s.2.2.1 :: s.1) (s.2.1 ++ s.2.2.2.2.1)) _ _ ?step2 (fun _ _ hi => hi) _ _ _ ?init2
        case init2 => simpa using hc1
        case step2 =>
          rintro x _ ⟨split, wm, cur, opn, queue, rc, done⟩ h' hc
          dsimp only at hc
          cases wm with
          | nil =>
            simp only [sat_bind, sat_get, sat_ite, sat_pure, List.length_nil, beq_self_eq_true, not_true_eq_false, false_implies, and_true, true_implies]
            exact ⟨fun _ => hc, fun _ => ⟨fun _ => hc.sub (by mem_tac) (by mem_tac), fun _ => hc⟩⟩
          | cons m wm =>
            simp only [sat_bind, sat_get, sat_ite, sat_pure, sat_index_zero, sat_addMessage_none, sat_newMessage, sat_messageInit, setMsg_newMsg, List.drop_succ_cons, List.drop_zero]
            have happ : Ctx h0 (h0.lst l) (h'.setLst cur (h'.lst cur ++ [m])) (nxt :: cur :: split) (wm ++ queue) :=
              (hc.append (p := cur) (is := [m]) (by mem_tac) (by mem_tac)).sub (by mem_tac) (by mem_tac)
            refine ⟨fun _ => hc, fun _ => ⟨fun hl => by simp at hl, fun _ => ⟨fun _ => ⟨fun _ => happ, fun _ => hc.sub (by mem_tac) (by mem_tac)⟩,
              fun _ => ⟨fun _ => happ, fun _ => ⟨fun _ => ⟨fun _ => happ, fun _ => ⟨fun _ => ?A, fun _ => ?B⟩⟩,
                fun _ => ⟨fun _ => happ, fun _ => hc.sub (by mem_tac) (by mem_tac)⟩⟩⟩⟩⟩⟩
            case A =>
              have hstart : Ctx h0 (h0.lst l)
                  ((h'.newMsg (initVal MType.wait (h'.msg m).ch rc pyNone pyNone pyNone pyNone pyNone pyNone pyNone)).fst.setLst cur
                    ((h'.newMsg (initVal MType.wait (h'.msg m).ch rc pyNone pyNone pyNone pyNone pyNone pyNone pyNone)).fst.lst cur ++ [h'.nMsg]))
                  (nxt :: cur :: split) (wm ++ queue) :=
                ((hc.newMsg ..).append (p := cur) (is := [h'.nMsg]) (by mem_tac) (by mem_tac)).sub (by mem_tac) (by mem_tac)
              open_loop
            case B =>
              have hstart : Ctx h0 (h0.lst l) h' (nxt :: cur :: split) (wm ++ queue) := hc.sub (by mem_tac) (by mem_tac)
              open_loop

/-! ## no exception: the guard before `pop(0)` and the loop bound -/

theorem sat_true_forIn {α β : Type} (f : α → β → HM (ForInStep β)) (hf : ∀ a b h, Sat (f a b) h (fun _ _ => True) (fun _ => False)) :
    ∀ (xs : List α) (b : β) (h : Heap), Sat (forIn xs b f) h (fun _ _ => True) (fun _ => False) :=
  fun xs b h => sat_forIn f (fun _ _ _ => True) _ _ (fun a _ b h _ => (hf a b h).mono (fun r _ _ => by cases r <;> trivial) (fun _ he => he))
    (fun _ _ _ => trivial) xs b h trivial

theorem split_sat_ok (g : GOrc) (tag l : Nat) (caps : List Int) (h0 : Heap) :
    Sat (relativeSequenceSplit g tag l caps) h0 (fun _ _ => True) (fun _ => False) := by
  unfold relativeSequenceSplit
  simp only [sat_bind, sat_get, sat_newView, sat_relativeSequenceInit_none, setLst_newLst]
  refine Sat.mono (Q := fun (_ : St1) _ => True) ?_ ?_ (fun _ he => he)
  · refine sat_true_forIn _ ?_ caps _ _
    rintro cap ⟨split, wm, cur, opn⟩ h
    simp only [sat_bind, sat_get, sat_newView, sat_relativeSequenceInit_none, setLst_newLst]
    refine Sat.mono (Q := fun (s : St2) _ => s.2.2.2.2.2.2 = true) ?_ ?_ (fun _ he => he)
    · refine sat_forIn _ (fun rest (s : St2) _ => s.2.2.2.2.2.2 = true ∨ s.2.1.length + 1 ≤ rest.length) _ _ ?_ ?_ _ _ _ ?_
      · rintro x rest ⟨split, wm, cur, opn, queue, rc, done⟩ h' hI
        dsimp only at hI
        cases wm with
        | nil =>
          simp only [sat_bind, sat_get, sat_ite, sat_pure, List.length_nil, beq_self_eq_true, not_true_eq_false, false_implies, and_true, true_implies]
          simp
        | cons m wm =>
          simp only [sat_bind, sat_get, sat_ite, sat_pure, sat_index_zero, sat_addMessage_none, sat_newMessage, sat_messageInit, setMsg_newMsg, List.drop_succ_cons, List.drop_zero]
          have hy : done = true ∨ wm.length + 1 ≤ rest.length := by
            rcases hI with hI | hI
            · exact Or.inl hI
            · right; simp at hI; omega
          have hq : ∀ (q : List Nat), done = true ∨ wm.length + 1 ≤ rest.length := fun _ => hy
          refine ⟨fun _ => trivial, fun _ => ⟨fun hl => by simp at hl, fun _ => ⟨fun _ => ⟨fun _ => hy, fun _ => hy⟩,
              fun _ => ⟨fun _ => hy, fun _ => ⟨fun _ => ⟨fun _ => hy, fun _ => ⟨fun _ => ?A, fun _ => ?B⟩⟩,
                fun _ => ⟨fun _ => hy, fun _ => hy⟩⟩⟩⟩⟩⟩
          all_goals
            refine Sat.mono (Q := fun (_ : List Nat) _ => True) ?_ ?_ (fun _ he => he)
            · refine sat_true_forIn _ ?_ _ _ _
              intro kv q hh
              simp only [sat_bind, sat_get, sat_pure, sat_addMessage_none, sat_newMessage, sat_messageInit, setMsg_newMsg]
            · intro a hh _
              exact ⟨fun _ => trivial, fun _ => trivial⟩
      · intro s _ hI
        simpa using hI
      · right; simp
    · rintro ⟨split, wm, cur, opn, queue, rc, done⟩ h' hd
      dsimp only at hd
      subst hd
      simp only [sat_bind, sat_fail, sat_ite, sat_pure, Bool.not_true]
      simp
  · rintro ⟨split, wm, cur, opn⟩ h _
    simp only [sat_bind, sat_get, sat_modify, sat_ite, sat_pure]
    simp

/-! ## the `rel` property writes the wrapper cell of its receiver only -/

theorem convView_ext (f : List Msg → List Msg) (h : Heap) (l : Nat) : Ext h (convView f h l).1 :=
  Ext.of_spec (HeapL.convView_spec (HeapL.good_fresh h) f l).1

theorem setSeq_get_other (h : Heap) (s : Nat) (v : SeqCell) {c : Cell} (hne : c ≠ (.seq, s)) : (h.setSeq s v).get c = h.get c := by
  obtain ⟨k, i⟩ := c
  cases k <;> simp_all [Heap.get, Heap.setSeq]

theorem getRel_le (o : Orc) (h : Heap) (s : Nat) : ∀ k, h.next k ≤ (getRel o h s).1.next k := by
  intro k
  unfold getRel
  simp only
  split
  · split
    · exact Nat.le_refl _
    · split
      · exact Nat.le_refl _
      · rename_i a _
        have := (convView_ext o.toRel h a).1 k
        cases k <;> simpa [Heap.setSeq, Heap.next] using this
  · exact Nat.le_refl _

theorem getRel_get_other (o : Orc) (h : Heap) (s : Nat) (c : Cell) (hc : h.alloc c) (hne : c ≠ (.seq, s)) :
    (getRel o h s).1.get c = h.get c := by
  unfold getRel
  simp only
  split
  · split
    · rfl
    · split
      · rfl
      · rename_i a _
        rw [setSeq_get_other _ _ _ hne]
        exact (convView_ext o.toRel h a).2 c hc
  · rfl

end SCoda.HeapTie2L
