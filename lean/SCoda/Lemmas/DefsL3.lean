/-
  Lemmas for Props/Defs.lean, third part: the generated `detokenise` on ARBITRARY strings.  Lemmas/TokTieL3.lean ties the
  generated loops to the hand model on the strings `render t`; here the strings of a part are any strings that Python's
  `int()` (`pyIntOfStr`: surrounding whitespace, optional sign, ASCII digits) reads as the numbers of the part
  (`PartStrs`), in any order of the `-`-separated parts (`TokRep`: after the source's `sorted(..., key=sort_order)`).
-/
import SCoda.Lemmas.TokTieL3
set_option linter.unusedSimpArgs false
set_option linter.unusedTactic false
set_option linter.unusedVariables false
set_option linter.unnecessarySeqFocus false
set_option linter.unreachableTactic false
namespace SCoda.DefsL
open SCoda SCoda.TokLib SCoda.Gen.Tok SCoda.RenderL SCoda.TokTieL

/-- the `_`-separated strings of one part, as the generated code reads them: the prefix, then strings that `int()` reads as the
    numbers of the part -/
def PartStrs : Part → List String → Prop
  | .pad, s => s = [prefixOf "PAD"]
  | .sta, s => s = [prefixOf "START"]
  | .sto, s => s = [prefixOf "STOP"]
  | .bar, s => s = [prefixOf "BAR"]
  | .rest v, s => ∃ a, s = [prefixOf "REST", a] ∧ pyIntOfStr a = .ok v
  | .trk v, s => ∃ a, s = [prefixOf "TRACK", a] ∧ pyIntOfStr a = .ok v
  | .val v, s => ∃ a, s = [prefixOf "VALUE", a] ∧ pyIntOfStr a = .ok v
  | .vel v, s => ∃ a, s = [prefixOf "VELOCITY", a] ∧ pyIntOfStr a = .ok v
  | .pit v, s => ∃ a, s = [prefixOf "PITCH", a] ∧ pyIntOfStr a = .ok v
  | .tsig x y, s => ∃ a b, s = [prefixOf "TIME_SIGNATURE", a, b] ∧ pyIntOfStr a = .ok x ∧ pyIntOfStr b = .ok y

theorem partStrs_head (p : Part) (s : List String) (h : PartStrs p s) : pyItem s 0 = .ok (mainOf p) := by
  cases p <;> simp only [PartStrs] at h
  case pad | sta | sto | bar => subst h; exact pyItem_cons_zero _ _
  case rest | trk | val | vel | pit => obtain ⟨a, rfl, _⟩ := h; exact pyItem_cons_zero _ _
  case tsig => obtain ⟨a, b, rfl, _⟩ := h; exact pyItem_cons_zero _ _

theorem detokeniseLoop2_gen (o : TokObj) (tokenParts : List (List String)) (i : Int) (part : Part) (strs : List String)
    (d : DetokSt) (hi : pyItem tokenParts i = .ok strs) (hs : PartStrs part strs) (hok : PartOk o.ppqn part)
    (hd : 0 ≤ d.prvTrack) :
    detokeniseLoop2 o tokenParts (i, mainOf part) (gD d) =
      liftE (fun d' => ForInStep.yield (gD d')) (dpart (cfgOf o) d part) := by
  cases part with
  | pad | sta | sto =>
    unfold detokeniseLoop2
    simp (disch := decide) only [mainOf, pfxne, Bool.false_eq_true, if_false, beq_self_eq_true, if_true]
    rfl
  | bar =>
    unfold detokeniseLoop2
    simp (disch := decide) only [mainOf, pfxne, Bool.false_eq_true, if_false, beq_self_eq_true, if_true]
    rw [forIn_collect' (fun s : LSeq => s.addAbs { ty := MType.internal, ch := 0, time := (gD d).2.1 + (gD d).2.2.2.2.2.2.1 : Msg }) _ ?hc]
    case hc => intro x s; rfl
    simp [gD, dpart, liftE, Msg.mkInternal, LSeq.addAbs, LSeq.absOf, Function.comp_def, pure, Except.pure, bind, Except.bind]
  | rest v | trk v | val v | vel v =>
    obtain ⟨a, rfl, ha⟩ := hs
    unfold detokeniseLoop2
    simp (disch := decide) only [mainOf, pfxne, Bool.false_eq_true, if_false, beq_self_eq_true, if_true, hi, ok_bind,
      pyItem_cons_one, ha]
    rfl
  | pit v =>
    obtain ⟨a, rfl, ha⟩ := hs
    unfold detokeniseLoop2
    simp (disch := decide) only [mainOf, pfxne, Bool.false_eq_true, if_false, beq_self_eq_true, if_true, hi, ok_bind,
      pyItem_cons_one, ha]
    simp only [gD]
    rw [pyModifyAt_abs _ _ _ hd]
    have hneg : (decide (d.prvTrack < 0)) = false := by simp; omega
    by_cases h : d.prvTrack.toNat < d.seqs.length
    · have h2 : (decide (d.prvTrack.toNat ≥ d.seqs.length)) = false := by simp; omega
      simp only [h, if_true, ok_bind]
      rw [pyModifyAt_abs _ _ _ hd]
      simp only [length_addAbs, h, if_true, ok_bind, dpart, hneg, h2, Bool.or_false, Bool.false_eq_true, if_false]
      rfl
    · have h2 : (decide (d.prvTrack.toNat ≥ d.seqs.length)) = true := by simp; omega
      simp only [h, if_false, error_bind, dpart, hneg, h2, Bool.or_true, if_true]
      rfl
  | tsig a b =>
    obtain ⟨sa, sb, rfl, hsa, hsb⟩ := hs
    obtain ⟨ha, hb, hn⟩ := hok
    obtain ⟨a', rfl⟩ := Int.eq_ofNat_of_zero_le ha
    obtain ⟨b', rfl⟩ := Int.eq_ofNat_of_zero_le (Int.le_of_lt hb)
    unfold detokeniseLoop2
    simp (disch := decide) only [mainOf, pfxne, Bool.false_eq_true, if_false, beq_self_eq_true, if_true, hi, ok_bind,
      pyItem_cons_one, Int.ofNat_eq_natCast, hsa, hsb]
    have hb0 : (b' : Int) ≠ 0 := by omega
    have h2 : ((2 : Int)) ≠ 0 := by decide
    have ha0 : (0 : Int) ≤ (a' : Int) := ha
    have hb1 : (0 : Int) ≤ (b' : Int) := by omega
    simp only [gD, pyItem_cons_two, ok_bind, hsa, hsb, pyTrueDiv_ok _ _ hb0, ratTrunc_capacity _ _ hb0 hn,
      pyTrueDiv_ok _ _ h2, ratTrunc_capacity _ _ h2 ha0, ratTrunc_capacity _ _ h2 hb1]
    by_cases hbar : d.curTimeBar > 0
    · simp only [hbar, decide_true, if_true, dpart]; rfl
    · simp only [hbar, decide_false, Bool.false_eq_true, if_false, dpart, cfgOf, Cfg.capacity]
      have h0 : (0 : Int) ≤ 0 := by decide
      rw [show (0 : Int) = ((0 : Nat) : Int) from rfl]
      rcases Bool.eq_false_or_eq_true (o.flagSimplifyTimeSignature && (a' : Int) % 2 == 0 && (b' : Int) % 2 == 0) with hs | hs <;>
      by_cases h1 : d.tsNum = (a' : Int) <;> by_cases h2 : d.tsDen = (b' : Int) <;>
      rcases Bool.eq_false_or_eq_true o.flagRunningValues with hr | hr <;>
      by_cases hl : d.seqs.length = 0 <;>
        (have hl' : 0 < d.seqs.length ∨ d.seqs.length = 0 := by omega
         simp [hs, h1, h2, hr, hl, Nat.pos_of_ne_zero, pyModifyAt_abs, liftE, ofErr, gD, Msg.mkTimeSig, pure, Except.pure,
           bind, Except.bind]) <;> (try (intro hh; omega)) <;> (try omega)

theorem mainParts_of_forall₂ : ∀ (ps : List Part) (Ss : List (List String)), List.Forall₂ PartStrs ps Ss →
    mapME (fun part => pyItem part 0) Ss = .ok (ps.map mainOf) := by
  intro ps Ss h
  induction h with
  | nil => rfl
  | cons hh _ ih => simp [mapME, partStrs_head _ _ hh, ih]

theorem loop2_fold_gen (o : TokObj) (Ss : List (List String)) : ∀ (suffix : List Part) (k : Nat) (d : DetokSt),
    List.Forall₂ PartStrs suffix (Ss.drop k) → (∀ p ∈ suffix, PartOk o.ppqn p) → 0 ≤ d.prvTrack →
    forIn (pyEnumerateFrom k (suffix.map mainOf)) (gD d) (fun x s => detokeniseLoop2 o Ss x s)
      = liftE gD (dfold (cfgOf o) d suffix) := by
  intro suffix
  induction suffix with
  | nil => intro k d _ _ _; rfl
  | cons p ps ih =>
    intro k d hf hok hd
    cases hdrop : Ss.drop k with
    | nil => rw [hdrop] at hf; cases hf
    | cons strs rest =>
      rw [hdrop] at hf
      cases hf with
      | cons hps hrest =>
        have hk : Ss[k]? = some strs := by
          have := congrArg List.head? hdrop
          simpa [List.head?_drop] using this
        have hi : pyItem Ss (k : Int) = .ok strs := pyItem_nat _ _ _ hk
        simp only [List.map_cons, pyEnumerateFrom, List.forIn_cons]
        rw [detokeniseLoop2_gen o _ _ p strs d hi hps (hok p (by simp)) hd, dfold_cons]
        cases hdp : dpart (cfgOf o) d p with
        | error e => rfl
        | ok d' =>
          simp only [liftE, ok_bind]
          have hdrop' : Ss.drop (k + 1) = rest := by
            rw [← List.drop_drop, hdrop]; rfl
          exact ih (k + 1) d' (by rw [hdrop']; exact hrest) (fun q hq => hok q (by simp [hq]))
            (dpart_prvTrack _ _ _ _ _ (hok p (by simp)) hd hdp)

/-- the string `s` is read by the generated `detokenise` as the token `t`: its `-`-separated parts, split on `_` and sorted by
    `sort_order`, are the parts of `t`, each number written as some string that `int()` reads as that number -/
def TokRep (s : String) (t : Tok) : Prop :=
  ∃ Ss, pySortedBy ((s.splitOn "-").map (fun part => part.splitOn "_")) sortKeyFn = .ok Ss ∧ List.Forall₂ PartStrs t.parts Ss

theorem detokeniseLoop1_gen (o : TokObj) (s : String) (t : Tok) (d : DetokSt) (hrep : TokRep s t)
    (hok : ∀ p ∈ t.parts, PartOk o.ppqn p) (hd : 0 ≤ d.prvTrack) :
    detokeniseLoop1 o s (gD d) = liftE (fun d' => ForInStep.yield (gD d')) (dstep (cfgOf o) d t) := by
  obtain ⟨Ss, hsort, hf⟩ := hrep
  unfold detokeniseLoop1
  simp only [splitToken_eq, ok_bind]
  rw [show (fun part : List String => (do pure (← (if (sortOrder.contains (← pyItem part 0)) then
      (do pure (← pyIndexOf sortOrder (← pyItem part 0))) else pure (-1))) : Except PyErr Int)) = sortKeyFn from rfl]
  rw [hsort]
  simp only [ok_bind]
  rw [mainParts_of_forall₂ _ _ hf]
  simp only [ok_bind, pyEnumerate]
  rw [loop2_fold_gen o Ss t.parts 0 d (by simpa using hf) hok hd]
  show _ = liftE _ (dfold (cfgOf o) d t.parts)
  cases dfold (cfgOf o) d t.parts with
  | error e => rfl
  | ok d' => rfl

theorem loop1_fold_gen (o : TokObj) : ∀ (ss : List String) (ts : List Tok) (d : DetokSt), List.Forall₂ TokRep ss ts →
    (∀ t ∈ ts, ∀ p ∈ t.parts, PartOk o.ppqn p) → 0 ≤ d.prvTrack →
    forIn ss (gD d) (fun x s => detokeniseLoop1 o x s) = liftE gD (tfold (cfgOf o) d ts) := by
  intro ss ts d h
  induction h generalizing d with
  | nil => intro _ _; rfl
  | @cons s t ss ts hst _ ih =>
    intro hok hd
    simp only [List.forIn_cons]
    rw [detokeniseLoop1_gen o s t d hst (hok t (by simp)) hd, tfold_cons]
    cases hds : dstep (cfgOf o) d t with
    | error e => rfl
    | ok d' =>
      simp only [liftE, ok_bind]
      exact ih d' (fun q hq => hok q (by simp [hq]))
        (dfold_prvTrack _ o.ppqn t.parts d d' (hok t (by simp)) hd hds)

/-- the generated `detokenise` on strings that are read as the tokens `ts` is the hand model on `ts` -/
theorem detokenise_gen (o : TokObj) (ss : List String) (ts : List Tok) (hp : 0 ≤ o.ppqn) (hrep : List.Forall₂ TokRep ss ts)
    (hts : ∀ t ∈ ts, ∀ p ∈ t.parts, PartOk o.ppqn p) :
    Gen.Tok.detokenise o ss = liftE (fun seqs => seqs.map LSeq.abs) (SCoda.detokenise (cfgOf o) ts) := by
  unfold Gen.Tok.detokenise
  have h8 : Gen.defaultTimeSignatureDenominator ≠ 0 := by decide
  have hn : 0 ≤ o.ppqn * 4 * Gen.defaultTimeSignatureNumerator := by
    have : Gen.defaultTimeSignatureNumerator = 8 := rfl
    rw [this]; omega
  simp only [pyTrueDiv_ok _ _ h8, ok_bind, ratTrunc_capacity _ _ h8 hn]
  have hinit : ((pyRange 0 o.numTracks).map (fun _ => LSeq.new), (0 : Int), (0 : Int), Gen.defaultTimeSignatureNumerator,
      Gen.defaultTimeSignatureDenominator, o.ppqn * 4 * Gen.defaultTimeSignatureNumerator / Gen.defaultTimeSignatureDenominator,
      o.ppqn * 4 * Gen.defaultTimeSignatureNumerator / Gen.defaultTimeSignatureDenominator, (0 : Int), (24 : Int), (127 : Int))
      = gD (DetokSt.init (cfgOf o)) := by
    have hrep : ∀ n : Nat, List.map ((fun _ => LSeq.abs []) ∘ fun (i : Nat) => (i : Int)) (List.range n)
        = List.replicate n (LSeq.abs []) := by
      intro n; induction n with
      | zero => rfl
      | succ n ih => rw [List.range_succ, List.map_append, ih, List.replicate_succ']; rfl
    simp [gD, DetokSt.init, cfgOf, Cfg.capacity, pyRange, LSeq.new, hrep]
  rw [hinit, loop1_fold_gen o ss ts _ hrep hts (show (0 : Int) ≤ 0 by decide)]
  unfold SCoda.detokenise
  show _ = liftE _ (match tfold (cfgOf o) (DetokSt.init (cfgOf o)) ts with | .ok d => .ok d.seqs | .error e => .error e)
  cases tfold (cfgOf o) (DetokSt.init (cfgOf o)) ts with
  | error e => rfl
  | ok d => rfl

/-! ### the excluded point: a time signature with denominator 0 -/

theorem detokeniseLoop2_tsig_zero (o : TokObj) (tokenParts : List (List String)) (i : Int) (sa sb : String) (a : Int)
    (d : DetokSt) (hi : pyItem tokenParts i = .ok [prefixOf "TIME_SIGNATURE", sa, sb]) (hsa : pyIntOfStr sa = .ok a)
    (hsb : pyIntOfStr sb = .ok 0) (hbar : ¬ d.curTimeBar > 0) :
    detokeniseLoop2 o tokenParts (i, prefixOf "TIME_SIGNATURE") (gD d) = .error .zeroDivisionError := by
  unfold detokeniseLoop2
  simp (disch := decide) only [pfxne, Bool.false_eq_true, if_false, beq_self_eq_true, if_true, hi, ok_bind,
    pyItem_cons_one, pyItem_cons_two, hsa, hsb, gD, hbar, decide_false]
  rfl

theorem detokeniseLoop1_tsig_zero (o : TokObj) (s : String) (a : Int) (d : DetokSt) (hrep : TokRep s (.tsig a 0))
    (hbar : ¬ d.curTimeBar > 0) : detokeniseLoop1 o s (gD d) = .error .zeroDivisionError := by
  obtain ⟨Ss, hsort, hf⟩ := hrep
  unfold detokeniseLoop1
  simp only [splitToken_eq, ok_bind]
  rw [show (fun part : List String => (do pure (← (if (sortOrder.contains (← pyItem part 0)) then
      (do pure (← pyIndexOf sortOrder (← pyItem part 0))) else pure (-1))) : Except PyErr Int)) = sortKeyFn from rfl]
  rw [hsort]
  simp only [ok_bind]
  rw [mainParts_of_forall₂ _ _ hf]
  cases hf with
  | cons h1 h2 =>
    cases h2
    obtain ⟨sa, sb, rfl, hsa, hsb⟩ := h1
    simp only [ok_bind, pyEnumerate, Tok.parts, List.map_cons, List.map_nil, pyEnumerateFrom, List.forIn_cons, mainOf]
    have h2 := detokeniseLoop2_tsig_zero o [[prefixOf "TIME_SIGNATURE", sa, sb]] ((0 : Nat) : Int) sa sb a d
      (pyItem_cons_zero _ _) hsa hsb hbar
    erw [h2]
    rfl

/-- the generated `detokenise` on one string that is read as a time signature with denominator 0: ZeroDivisionError -/
theorem detokenise_tsig_zero (o : TokObj) (s : String) (a : Int) (hp : 0 ≤ o.ppqn) (hrep : TokRep s (.tsig a 0)) :
    Gen.Tok.detokenise o [s] = .error .zeroDivisionError := by
  unfold Gen.Tok.detokenise
  have h8 : Gen.defaultTimeSignatureDenominator ≠ 0 := by decide
  have hn : 0 ≤ o.ppqn * 4 * Gen.defaultTimeSignatureNumerator := by
    have : Gen.defaultTimeSignatureNumerator = 8 := rfl
    rw [this]; omega
  simp only [pyTrueDiv_ok _ _ h8, ok_bind, ratTrunc_capacity _ _ h8 hn]
  have hinit : ((pyRange 0 o.numTracks).map (fun _ => LSeq.new), (0 : Int), (0 : Int), Gen.defaultTimeSignatureNumerator,
      Gen.defaultTimeSignatureDenominator, o.ppqn * 4 * Gen.defaultTimeSignatureNumerator / Gen.defaultTimeSignatureDenominator,
      o.ppqn * 4 * Gen.defaultTimeSignatureNumerator / Gen.defaultTimeSignatureDenominator, (0 : Int), (24 : Int), (127 : Int))
      = gD (DetokSt.init (cfgOf o)) := by
    have hrep : ∀ n : Nat, List.map ((fun _ => LSeq.abs []) ∘ fun (i : Nat) => (i : Int)) (List.range n)
        = List.replicate n (LSeq.abs []) := by
      intro n; induction n with
      | zero => rfl
      | succ n ih => rw [List.range_succ, List.map_append, ih, List.replicate_succ']; rfl
    simp [gD, DetokSt.init, cfgOf, Cfg.capacity, pyRange, LSeq.new, hrep]
  rw [hinit]
  simp only [List.forIn_cons]
  rw [detokeniseLoop1_tsig_zero o s a _ hrep (by simp [DetokSt.init])]
  rfl

end SCoda.DefsL
