/-
  Helper lemmas for C02: duplicate-freeness and membership characterisation of `vocabSeq`,
  characterisation of `lastIdxGo` on duplicate-free lists.
-/
import SCoda.Model.Token
namespace SCoda.Vocab
open SCoda

/-! ### generic list facts -/

theorem nodup_map_inj {α β} {f : α → β} (hf : ∀ a b, f a = f b → a = b) {l : List α}
    (h : l.Nodup) : (l.map f).Nodup := by
  rw [List.nodup_iff_pairwise_ne] at *
  rw [List.pairwise_map]
  exact h.imp (fun hab hfab => hab (hf _ _ hfab))

/-- a `flatMap` whose pieces are duplicate free and can be told apart by a projection -/
theorem nodup_flatMap_proj {α β} {l : List α} {f : α → List β} (g : β → α) (hl : l.Nodup)
    (hf : ∀ a ∈ l, (f a).Nodup) (hg : ∀ a ∈ l, ∀ x ∈ f a, g x = a) : (l.flatMap f).Nodup := by
  induction l with
  | nil => simp
  | cons a l ih =>
    rw [List.nodup_cons] at hl
    rw [List.flatMap_cons, List.nodup_append]
    refine ⟨hf a (by simp), ih hl.2 (fun b hb => hf b (by simp [hb])) (fun b hb => hg b (by simp [hb])), ?_⟩
    intro x hx y hy hxy
    subst hxy
    rw [List.mem_flatMap] at hy
    obtain ⟨b, hb, hxb⟩ := hy
    have h1 := hg a (by simp) x hx
    have h2 := hg b (by simp [hb]) x hxb
    exact hl.1 (by rw [← h1, h2]; exact hb)

theorem eraseDups_of_nodup {α} [BEq α] [LawfulBEq α] {l : List α} (h : l.Nodup) : l.eraseDups = l := by
  induction l with
  | nil => simp
  | cons a l ih =>
    rw [List.nodup_cons] at h
    rw [List.eraseDups_cons]
    have : l.filter (fun b => !b == a) = l := by
      rw [List.filter_eq_self]
      intro b hb
      simp only [Bool.not_eq_eq_eq_not, Bool.not_true, beq_eq_false_iff_ne, ne_eq]
      intro hba; subst hba; exact h.1 hb
    rw [this, ih h.2]

/-! ### `rangeInt` -/

theorem mem_rangeInt {lo hi x : Int} : x ∈ rangeInt lo hi ↔ lo ≤ x ∧ x ≤ hi := by
  simp only [rangeInt, List.mem_map, List.mem_range]
  constructor
  · rintro ⟨i, hi, rfl⟩; omega
  · intro h; exact ⟨(x - lo).toNat, by omega, by omega⟩

theorem nodup_rangeInt (lo hi : Int) : (rangeInt lo hi).Nodup :=
  nodup_map_inj (fun a b h => by omega) List.nodup_range

/-! ### `lastIdxGo` -/

theorem lastIdxGo_not_mem {t : Tok} {l : List Tok} (h : t ∉ l) (i : Nat) (best : Option Nat) :
    lastIdxGo t l i best = best := by
  induction l generalizing i best with
  | nil => rfl
  | cons x xs ih =>
    simp only [List.mem_cons, not_or] at h
    simp only [lastIdxGo]
    rw [ih h.2, if_neg (fun hx => h.1 hx.symm)]

theorem lastIdxGo_getElem {l : List Tok} (hl : l.Nodup) (j : Nat) (hj : j < l.length) (i : Nat)
    (best : Option Nat) : lastIdxGo l[j] l i best = some (i + j) := by
  induction l generalizing i best j with
  | nil => simp at hj
  | cons x xs ih =>
    rw [List.nodup_cons] at hl
    cases j with
    | zero =>
      simp only [List.getElem_cons_zero, lastIdxGo, if_true, Nat.add_zero]
      exact lastIdxGo_not_mem hl.1 _ _
    | succ j =>
      have hj' : j < xs.length := by simpa using hj
      simp only [List.getElem_cons_succ, lastIdxGo]
      have hne : x ≠ xs[j] := fun hx => hl.1 (hx ▸ List.getElem_mem _)
      rw [if_neg hne, ih hl.2 j hj']
      congr 1; omega

/-! ### the blocks of `vocabSeq` -/

def tracks (c : Cfg) : List Int := (List.range c.numTracks).map (fun (i : Nat) => (i : Int))
def trkOpts (c : Cfg) : List (Option Int) := if c.fuseTrk then (tracks c).map some else [Option.none]
def valOpts (c : Cfg) : List (Option Int) := if c.fuseVal then c.values.map some else [Option.none]
def velOpts (c : Cfg) : List (Option Int) := if c.fuseVel then c.bins.map some else [Option.none]
def notes (c : Cfg) : List Tok :=
  (trkOpts c).flatMap fun t => (rangeInt c.pitchLo c.pitchHi).flatMap fun p => (valOpts c).flatMap fun v =>
    (velOpts c).map fun w => Tok.note t p v w
def sigs (c : Cfg) : List Tok := (rangeInt c.tsLo c.tsHi).map (fun n => Tok.tsig n c.defDen)
def trkSingles (c : Cfg) : List Tok := if c.fuseTrk then [] else (tracks c).map Tok.trk
def valSingles (c : Cfg) : List Tok := if c.fuseVal then [] else c.values.map Tok.val
def velSingles (c : Cfg) : List Tok := if c.fuseVel then [] else c.bins.map Tok.vel

theorem vocabSeq_eq (c : Cfg) : vocabSeq c =
    [Tok.pad, .sta, .sto, .bar] ++ c.steps.map Tok.rest ++ trkSingles c ++ valSingles c ++ velSingles c
      ++ notes c ++ sigs c := rfl

theorem mem_tracks {c : Cfg} {t : Int} : t ∈ tracks c ↔ 0 ≤ t ∧ t < (c.numTracks : Int) := by
  simp only [tracks, List.mem_map, List.mem_range]
  constructor
  · rintro ⟨i, hi, rfl⟩; omega
  · intro h; exact ⟨t.toNat, by omega, by omega⟩

theorem nodup_tracks (c : Cfg) : (tracks c).Nodup :=
  nodup_map_inj (fun a b h => by omega) List.nodup_range

theorem mem_notes {c : Cfg} {x : Tok} : x ∈ notes c ↔
    ∃ t p v w, x = Tok.note t p v w ∧ t ∈ trkOpts c ∧ p ∈ rangeInt c.pitchLo c.pitchHi ∧ v ∈ valOpts c
      ∧ w ∈ velOpts c := by
  simp only [notes, List.mem_flatMap, List.mem_map]
  constructor
  · rintro ⟨t, ht, p, hp, v, hv, w, hw, rfl⟩; exact ⟨t, p, v, w, rfl, ht, hp, hv, hw⟩
  · rintro ⟨t, p, v, w, rfl, ht, hp, hv, hw⟩; exact ⟨t, ht, p, hp, v, hv, w, hw, rfl⟩

/-- block number of a token -/
def kind : Tok → Nat
  | .pad | .sta | .sto | .bar => 0
  | .rest _ => 1 | .trk _ => 2 | .val _ => 3 | .vel _ => 4 | .note .. => 5 | .tsig .. => 6

theorem mem_vocabSeq {c : Cfg} {x : Tok} : x ∈ vocabSeq c ↔
    x ∈ [Tok.pad, .sta, .sto, .bar] ∨ x ∈ c.steps.map Tok.rest ∨ x ∈ trkSingles c ∨ x ∈ valSingles c
      ∨ x ∈ velSingles c ∨ x ∈ notes c ∨ x ∈ sigs c := by
  simp only [vocabSeq_eq, List.mem_append, or_assoc]

theorem kind_trkSingles {c : Cfg} {x : Tok} (h : x ∈ trkSingles c) : kind x = 2 := by
  unfold trkSingles at h; split at h
  · simp at h
  · simp only [List.mem_map] at h; obtain ⟨_, _, rfl⟩ := h; rfl
theorem kind_valSingles {c : Cfg} {x : Tok} (h : x ∈ valSingles c) : kind x = 3 := by
  unfold valSingles at h; split at h
  · simp at h
  · simp only [List.mem_map] at h; obtain ⟨_, _, rfl⟩ := h; rfl
theorem kind_velSingles {c : Cfg} {x : Tok} (h : x ∈ velSingles c) : kind x = 4 := by
  unfold velSingles at h; split at h
  · simp at h
  · simp only [List.mem_map] at h; obtain ⟨_, _, rfl⟩ := h; rfl
theorem kind_rests {c : Cfg} {x : Tok} (h : x ∈ c.steps.map Tok.rest) : kind x = 1 := by
  simp only [List.mem_map] at h; obtain ⟨_, _, rfl⟩ := h; rfl
theorem kind_notes {c : Cfg} {x : Tok} (h : x ∈ notes c) : kind x = 5 := by
  rw [mem_notes] at h; obtain ⟨_, _, _, _, rfl, _⟩ := h; rfl
theorem kind_sigs {c : Cfg} {x : Tok} (h : x ∈ sigs c) : kind x = 6 := by
  simp only [sigs, List.mem_map] at h; obtain ⟨_, _, rfl⟩ := h; rfl

/-! per-constructor membership -/

theorem bar_mem (c : Cfg) : Tok.bar ∈ vocabSeq c := by simp [vocabSeq_eq]

theorem rest_mem {c : Cfg} {v : Int} : Tok.rest v ∈ vocabSeq c ↔ v ∈ c.steps := by
  rw [mem_vocabSeq]
  constructor
  · rintro (h | h | h | h | h | h | h)
    · simp at h
    · simpa using h
    · have := kind_trkSingles h; simp [kind] at this
    · have := kind_valSingles h; simp [kind] at this
    · have := kind_velSingles h; simp [kind] at this
    · have := kind_notes h; simp [kind] at this
    · have := kind_sigs h; simp [kind] at this
  · intro h; right; left; simpa using h

theorem trk_mem {c : Cfg} {t : Int} : Tok.trk t ∈ vocabSeq c ↔ c.fuseTrk = false ∧ t ∈ tracks c := by
  rw [mem_vocabSeq]
  constructor
  · rintro (h | h | h | h | h | h | h)
    · simp at h
    · have := kind_rests h; simp [kind] at this
    · unfold trkSingles at h; split at h
      · simp at h
      · rename_i hf
        simp only [List.mem_map] at h
        obtain ⟨a, ha, heq⟩ := h
        cases heq
        exact ⟨by simpa using hf, ha⟩
    · have := kind_valSingles h; simp [kind] at this
    · have := kind_velSingles h; simp [kind] at this
    · have := kind_notes h; simp [kind] at this
    · have := kind_sigs h; simp [kind] at this
  · rintro ⟨h1, h2⟩; right; right; left; simp [trkSingles, h1, h2]

theorem val_mem {c : Cfg} {v : Int} : Tok.val v ∈ vocabSeq c ↔ c.fuseVal = false ∧ v ∈ c.values := by
  rw [mem_vocabSeq]
  constructor
  · rintro (h | h | h | h | h | h | h)
    · simp at h
    · have := kind_rests h; simp [kind] at this
    · have := kind_trkSingles h; simp [kind] at this
    · unfold valSingles at h; split at h
      · simp at h
      · rename_i hf
        simp only [List.mem_map] at h
        obtain ⟨a, ha, heq⟩ := h
        cases heq
        exact ⟨by simpa using hf, ha⟩
    · have := kind_velSingles h; simp [kind] at this
    · have := kind_notes h; simp [kind] at this
    · have := kind_sigs h; simp [kind] at this
  · rintro ⟨h1, h2⟩; right; right; right; left; simp [valSingles, h1, h2]

theorem vel_mem {c : Cfg} {v : Int} : Tok.vel v ∈ vocabSeq c ↔ c.fuseVel = false ∧ v ∈ c.bins := by
  rw [mem_vocabSeq]
  constructor
  · rintro (h | h | h | h | h | h | h)
    · simp at h
    · have := kind_rests h; simp [kind] at this
    · have := kind_trkSingles h; simp [kind] at this
    · have := kind_valSingles h; simp [kind] at this
    · unfold velSingles at h; split at h
      · simp at h
      · rename_i hf
        simp only [List.mem_map] at h
        obtain ⟨a, ha, heq⟩ := h
        cases heq
        exact ⟨by simpa using hf, ha⟩
    · have := kind_notes h; simp [kind] at this
    · have := kind_sigs h; simp [kind] at this
  · rintro ⟨h1, h2⟩; right; right; right; right; left; simp [velSingles, h1, h2]

theorem note_mem {c : Cfg} {t : Option Int} {p : Int} {v w : Option Int} :
    Tok.note t p v w ∈ vocabSeq c ↔
      t ∈ trkOpts c ∧ (c.pitchLo ≤ p ∧ p ≤ c.pitchHi) ∧ v ∈ valOpts c ∧ w ∈ velOpts c := by
  rw [mem_vocabSeq]
  constructor
  · rintro (h | h | h | h | h | h | h)
    · simp at h
    · have := kind_rests h; simp [kind] at this
    · have := kind_trkSingles h; simp [kind] at this
    · have := kind_valSingles h; simp [kind] at this
    · have := kind_velSingles h; simp [kind] at this
    · rw [mem_notes] at h
      obtain ⟨t', p', v', w', heq, h1, h2, h3, h4⟩ := h
      cases heq
      exact ⟨h1, mem_rangeInt.1 h2, h3, h4⟩
    · have := kind_sigs h; simp [kind] at this
  · rintro ⟨h1, h2, h3, h4⟩
    right; right; right; right; right; left
    exact mem_notes.2 ⟨t, p, v, w, rfl, h1, mem_rangeInt.2 h2, h3, h4⟩

theorem tsig_mem {c : Cfg} {n d : Int} :
    Tok.tsig n d ∈ vocabSeq c ↔ (c.tsLo ≤ n ∧ n ≤ c.tsHi) ∧ d = c.defDen := by
  rw [mem_vocabSeq]
  constructor
  · rintro (h | h | h | h | h | h | h)
    · simp at h
    · have := kind_rests h; simp [kind] at this
    · have := kind_trkSingles h; simp [kind] at this
    · have := kind_valSingles h; simp [kind] at this
    · have := kind_velSingles h; simp [kind] at this
    · have := kind_notes h; simp [kind] at this
    · simp only [sigs, List.mem_map] at h
      obtain ⟨n', hn', heq⟩ := h
      cases heq
      exact ⟨mem_rangeInt.1 hn', rfl⟩
  · rintro ⟨h1, rfl⟩
    right; right; right; right; right; right
    simp only [sigs, List.mem_map]
    exact ⟨n, mem_rangeInt.2 h1, rfl⟩

/-! ### duplicate freeness -/

theorem nodup_append_kind {l₁ l₂ : List Tok} (k : Nat) (h1 : l₁.Nodup) (h2 : l₂.Nodup)
    (hk1 : ∀ a ∈ l₁, kind a < k) (hk2 : ∀ b ∈ l₂, kind b = k) :
    (l₁ ++ l₂).Nodup ∧ ∀ a ∈ l₁ ++ l₂, kind a < k + 1 := by
  refine ⟨List.nodup_append.2 ⟨h1, h2, ?_⟩, ?_⟩
  · intro a ha b hb hab
    have := hk1 a ha; have := hk2 b hb; subst hab; omega
  · intro a ha
    rcases List.mem_append.1 ha with h | h
    · have := hk1 a h; omega
    · have := hk2 a h; omega

theorem nodup_opts {l : List Int} (b : Bool) (h : l.Nodup) :
    (if b then l.map some else [Option.none]).Nodup := by
  split
  · exact nodup_map_inj (fun a b h => by injection h) h
  · simp

theorem nodup_singles {l : List Int} (b : Bool) (f : Int → Tok) (hf : ∀ a b, f a = f b → a = b)
    (h : l.Nodup) : (if b then [] else l.map f).Nodup := by
  split
  · simp
  · exact nodup_map_inj hf h

theorem nodup_notes (c : Cfg) (hv : c.values.Nodup) (hb : c.bins.Nodup) : (notes c).Nodup := by
  unfold notes
  refine nodup_flatMap_proj (fun x => match x with | .note t _ _ _ => t | _ => Option.none)
    (nodup_opts _ (nodup_tracks c)) ?_ ?_
  · intro t _
    refine nodup_flatMap_proj (fun x => match x with | .note _ p _ _ => p | _ => 0)
      (nodup_rangeInt _ _) ?_ ?_
    · intro p _
      refine nodup_flatMap_proj (fun x => match x with | .note _ _ v _ => v | _ => Option.none)
        (nodup_opts _ hv) ?_ ?_
      · intro v _
        exact nodup_map_inj (fun a b h => by injection h) (nodup_opts _ hb)
      · intro v _ x hx
        simp only [List.mem_map] at hx; obtain ⟨_, _, rfl⟩ := hx; rfl
    · intro p _ x hx
      simp only [List.mem_flatMap, List.mem_map] at hx; obtain ⟨_, _, _, _, rfl⟩ := hx; rfl
  · intro t _ x hx
    simp only [List.mem_flatMap, List.mem_map] at hx; obtain ⟨_, _, _, _, _, _, rfl⟩ := hx; rfl

theorem nodup_vocabSeq (c : Cfg) (hs : c.steps.Nodup) (hv : c.values.Nodup) (hb : c.bins.Nodup) :
    (vocabSeq c).Nodup := by
  rw [vocabSeq_eq]
  have h0 : ([Tok.pad, .sta, .sto, .bar] : List Tok).Nodup := by decide
  have k0 : ∀ a ∈ ([Tok.pad, .sta, .sto, .bar] : List Tok), kind a < 1 := by decide
  have h1 := nodup_append_kind 1 h0 (nodup_map_inj (f := Tok.rest) (fun a b h => by injection h) hs)
    k0 (fun b hb => kind_rests (c := c) hb)
  have h2 := nodup_append_kind 2 h1.1
    (nodup_singles c.fuseTrk Tok.trk (fun a b h => by injection h) (nodup_tracks c))
    h1.2 (fun b hb => kind_trkSingles (c := c) hb)
  have h3 := nodup_append_kind 3 h2.1
    (nodup_singles c.fuseVal Tok.val (fun a b h => by injection h) hv)
    h2.2 (fun b hb => kind_valSingles (c := c) hb)
  have h4 := nodup_append_kind 4 h3.1
    (nodup_singles c.fuseVel Tok.vel (fun a b h => by injection h) hb)
    h3.2 (fun b hb => kind_velSingles (c := c) hb)
  have h5 := nodup_append_kind 5 h4.1 (nodup_notes c hv hb) h4.2 (fun b hb => kind_notes (c := c) hb)
  have h6 := nodup_append_kind 6 h5.1
    (nodup_map_inj (f := fun n => Tok.tsig n c.defDen) (fun a b h => by injection h) (nodup_rangeInt _ _))
    h5.2 (fun b hb => kind_sigs (c := c) hb)
  exact h6.1

end SCoda.Vocab
