/-
  Helper lemmas for the `interleaved` / `equalsAbs` theorems of Props/AbsTie2.lean: the index-array loop of the generated
  `get_interleaved_message_pairings` against the model's `interleaveGo`.
-/
import SCoda.Lemmas.AbsTie2L
namespace SCoda.AbsTie2L
open SCoda SCoda.Gen.Abs2

/-! ### every pairing starts with a message of its channel (any `impute_notes`) -/

def HeadCh (d : Assoc Int (List Pairing)) : Prop := ∀ c ∈ d, ∀ p ∈ c.2, ∃ m, p.head? = some m ∧ m.ch = c.1

theorem headCh_set {d : Assoc Int (List Pairing)} (h : HeadCh d) (ch : Int) (v : List Pairing)
    (hv : ∀ p ∈ v, ∃ m, p.head? = some m ∧ m.ch = ch) : HeadCh (d.set ch v) := by
  intro c hc p hp
  rcases GluePair.mem_set _ _ _ _ hc with hc | rfl
  · exact h c hc p hp
  · exact hv p hp

theorem headCh_getD {d : Assoc Int (List Pairing)} (h : HeadCh d) (ch : Int) :
    ∀ p ∈ (d.get? ch).getD [], ∃ m, p.head? = some m ∧ m.ch = ch := by
  cases hg : d.get? ch with
  | none => simp
  | some v => exact h (ch, v) (GluePair.mem_of_get? _ _ _ hg)

theorem headCh_append {s : PairSt} (h : HeadCh s.pairs) (m : Msg) : HeadCh (s.append m.ch [m]).pairs := by
  apply headCh_set h
  intro p hp
  rcases List.mem_append.1 hp with hp | hp
  · exact headCh_getD h m.ch p hp
  · simp only [List.mem_singleton] at hp; subst hp; exact ⟨m, rfl, rfl⟩

theorem headCh_appendAt {s : PairSt} (h : HeadCh s.pairs) (ch : Int) (i : Nat) (x : Msg) : HeadCh (s.appendAt ch i x).pairs := by
  apply headCh_set h
  intro p hp
  rcases GluePair.mem_modifyAt _ _ _ _ hp with hp | ⟨y, hy, rfl⟩
  · exact headCh_getD h ch p hp
  · obtain ⟨m, hm, hc⟩ := headCh_getD h ch y (List.mem_of_getElem? hy)
    refine ⟨m, ?_, hc⟩
    cases y with
    | nil => simp at hm
    | cons y0 ys => simpa using hm

theorem headCh_pairStep (types : List MType) (imp : Bool) {s : PairSt} (h : HeadCh s.pairs) (m : Msg) :
    HeadCh (pairStep types imp s m).pairs := by
  unfold pairStep
  split
  · exact h
  · have h1 : HeadCh (if s.pairs.contains m.ch then s else { s with pairs := s.pairs.set m.ch [] }).pairs := by
      split
      · exact h
      · exact headCh_set h _ _ (by simp)
    generalize (if s.pairs.contains m.ch then s else { s with pairs := s.pairs.set m.ch [] }) = s1 at h1
    simp only []
    split
    · show HeadCh (PairSt.append _ m.ch [m]).pairs
      apply headCh_append
      split
      · split
        · exact headCh_appendAt h1 _ _ _
        · exact h1
      · exact h1
    · split
      · exact h1
      · exact headCh_appendAt h1 _ _ _
    · exact headCh_append h1 m

theorem headCh_foldl (types : List MType) (imp : Bool) (l : List Msg) {s : PairSt} (h : HeadCh s.pairs) :
    HeadCh (l.foldl (pairStep types imp) s).pairs := by
  induction l generalizing s with
  | nil => exact h
  | cons m ms ih => exact ih (headCh_pairStep types imp h m)

theorem headCh_pairings (types : List MType) (std : Int) (imp : Bool) (a : List Msg) : HeadCh (pairings types std imp a) := by
  have h0 : HeadCh ((sortAbs a).foldl (pairStep types imp) {}).pairs :=
    headCh_foldl types imp _ (by intro c hc; cases hc)
  intro c hc p hp
  simp only [pairings, pairingsSorted, List.mem_map] at hc
  obtain ⟨kv, hkv, rfl⟩ := hc
  simp only [List.mem_map] at hp
  obtain ⟨q, hq, rfl⟩ := hp
  rw [GluePair.closeUnclosed_head]
  exact h0 kv hkv q hq

/-- the same for a table of references that stands for the model's table -/
theorem headCh_refs (h : Heap) (mp : MP) (types : List MType) (std : Int) (imp : Bool) (a : List Msg)
    (he : absP h mp = pairings types std imp a) :
    ∀ c ∈ mp, ∀ p ∈ c.2, ∃ r, p.head? = some r ∧ (hGet h r).ch = c.1 := by
  intro c hc p hp
  have hc' : (c.1, c.2.map (deref h)) ∈ pairings types std imp a := by
    rw [← he]; exact List.mem_map.2 ⟨c, hc, rfl⟩
  obtain ⟨m, hm, hch⟩ := headCh_pairings types std imp a _ hc' (deref h p) (List.mem_map.2 ⟨p, hp, rfl⟩)
  cases p with
  | nil => simp [deref] at hm
  | cons r rs =>
    simp only [deref, List.map_cons, List.head?_cons, Option.some.injEq] at hm
    exact ⟨r, rfl, by rw [hm]; exact hch⟩

/-! ### first minimum of a list of times -/

def toInf : Option Int → IntInf
  | none => .inf
  | some v => .fin v

/-- (index, value) of the first minimal element; (0, inf) for the empty list -/
def firstMin : List IntInf → Nat × IntInf
  | [] => (0, .inf)
  | x :: xs => if IntInf.lt (firstMin xs).2 x then ((firstMin xs).1 + 1, (firstMin xs).2) else (0, x)

theorem foldl_min (l : List IntInf) : ∀ m, l.foldl (fun m y => if IntInf.lt y m then y else m) m
    = if IntInf.lt (firstMin l).2 m then (firstMin l).2 else m := by
  induction l with
  | nil => intro m; cases m <;> simp [firstMin, IntInf.lt]
  | cons y ys ih =>
    intro m
    simp only [List.foldl_cons, ih, firstMin]
    obtain ⟨k, r, hfm⟩ : ∃ k r, firstMin ys = (k, r) := ⟨_, _, rfl⟩
    simp only [hfm]
    cases m with
    | inf =>
      cases y with
      | inf => cases r <;> simp [IntInf.lt]
      | fin yv =>
        cases r with
        | inf => simp [IntInf.lt]
        | fin rv => by_cases h : rv < yv <;> simp [IntInf.lt, h]
    | fin mv =>
      cases y with
      | inf => cases r <;> simp [IntInf.lt]
      | fin yv =>
        cases r with
        | inf => by_cases h : yv < mv <;> simp [IntInf.lt, h]
        | fin rv =>
          by_cases h : yv < mv <;> by_cases h2 : rv < yv <;> by_cases h3 : rv < mv <;> simp [IntInf.lt, h, h2, h3] <;> omega

theorem pyMinInf_eq (l : List IntInf) (h : l ≠ []) : pyMinInf l = .ok (firstMin l).2 := by
  cases l with
  | nil => exact absurd rfl h
  | cons x xs =>
    simp only [pyMinInf, foldl_min, firstMin]
    split <;> rfl

theorem lt_irrefl_inf (a : IntInf) : IntInf.lt a a = false := by cases a <;> simp [IntInf.lt]

theorem pyIndexGo_firstMin : ∀ (l : List IntInf) (i : Int), l ≠ [] →
    pyIndexGo l (firstMin l).2 i = .ok (i + ((firstMin l).1 : Nat)) := by
  intro l
  induction l with
  | nil => intro i h; exact absurd rfl h
  | cons x xs ih =>
    intro i _
    simp only [firstMin]
    by_cases hlt : IntInf.lt (firstMin xs).2 x = true
    · simp only [hlt, if_true, pyIndexGo]
      have hne : ¬ x = (firstMin xs).2 := by
        intro e; rw [e, lt_irrefl_inf] at hlt; cases hlt
      have hxs : xs ≠ [] := by
        intro e; subst e; simp [firstMin, IntInf.lt] at hlt
      simp only [hne, if_false, ih (i + 1) hxs]
      congr 1
      omega
    · simp only [hlt, Bool.false_eq_true, if_false, pyIndexGo, if_true]
      simp
      rfl

theorem pyIndex_firstMin (l : List IntInf) (h : l ≠ []) : pyIndex l (firstMin l).2 = .ok (((firstMin l).1 : Nat) : Int) := by
  rw [pyIndex, pyIndexGo_firstMin l 0 h]; simp

/-- how an already seen best candidate and the first minimum of the rest combine -/
def combineBest (best : Option (Nat × Int)) (i : Nat) (fm : Nat × IntInf) : Option (Nat × Int) :=
  match best, fm.2 with
  | none, .inf => none
  | none, .fin v => some (i + fm.1, v)
  | some b, .inf => some b
  | some b, .fin v => if v < b.2 then some (i + fm.1, v) else some b

theorem argMinFirst_eq : ∀ (ts : List (Option Int)) (i : Nat) (best : Option (Nat × Int)),
    argMinFirst ts i best = combineBest best i (firstMin (ts.map toInf)) := by
  intro ts
  induction ts with
  | nil => intro i best; cases best <;> simp [argMinFirst, combineBest, firstMin]
  | cons t ts ih =>
    intro i best
    simp only [argMinFirst, ih, List.map_cons, firstMin]
    obtain ⟨k, r, hfm⟩ : ∃ k r, firstMin (ts.map toInf) = (k, r) := ⟨_, _, rfl⟩
    simp only [hfm]
    cases t with
    | none =>
      cases best with
      | none => cases r <;> simp [combineBest, toInf, IntInf.lt] <;> omega
      | some b =>
        cases r with
        | inf => simp [combineBest, toInf, IntInf.lt]
        | fin v => by_cases h : v < b.2 <;> simp [combineBest, toInf, IntInf.lt, h] <;> omega
    | some u =>
      cases best with
      | none =>
        cases r with
        | inf => simp [combineBest, toInf, IntInf.lt]
        | fin v =>
          simp only [combineBest, toInf, IntInf.lt]
          by_cases h : v < u <;> simp [h] <;> omega
      | some b =>
        obtain ⟨bi, bv⟩ := b
        cases r with
        | inf =>
          simp only [combineBest, toInf, IntInf.lt]
          by_cases h : u < bv <;> simp [h]
        | fin v =>
          simp only [combineBest, toInf, IntInf.lt]
          by_cases h : u < bv <;> by_cases h2 : v < u <;> by_cases h3 : v < bv <;> simp [h, h2, h3] <;> omega

/-! ### comprehensions over `range(n)` -/

theorem pyRange_zero (n : Nat) : pyRange 0 (n : Int) = (List.range n).map (fun (k : Nat) => (k : Int)) := by
  simp [pyRange]

theorem mapM_ok {α β : Type} (f : α → Except PyErr β) (g : α → β) (l : List α) (h : ∀ x ∈ l, f x = .ok (g x)) :
    l.mapM f = .ok (l.map g) := by
  induction l with
  | nil => rfl
  | cons x xs ih =>
    rw [List.mapM_cons, h x (by simp), ih (fun y hy => h y (by simp [hy]))]
    rfl

theorem mapM_pyRange {β : Type} (f : Int → Except PyErr β) (g : Nat → β) (n : Nat) (h : ∀ i, i < n → f (i : Int) = .ok (g i)) :
    (pyRange 0 (n : Int)).mapM f = .ok ((List.range n).map g) := by
  rw [pyRange_zero, mapM_ok f (fun (x : Int) => g x.toNat)]
  · simp [Function.comp]
  · intro x hx
    simp only [List.mem_map, List.mem_range] at hx
    obtain ⟨k, hk, rfl⟩ := hx
    simp [h k hk]

theorem anyM_ok {α : Type} (f : α → Except PyErr Bool) (g : α → Bool) (l : List α) (h : ∀ x ∈ l, f x = .ok (g x)) :
    l.anyM f = .ok (l.any g) := by
  induction l with
  | nil => rfl
  | cons x xs ih =>
    rw [List.anyM_cons, h x (by simp)]
    simp only [List.any_cons]
    cases hg : g x
    · simp only [Bool.false_or]
      rw [← ih (fun y hy => h y (by simp [hy]))]
      rfl
    · rfl

theorem anyM_pyRange (f : Int → Except PyErr Bool) (g : Nat → Bool) (n : Nat) (h : ∀ i, i < n → f (i : Int) = .ok (g i)) :
    (pyRange 0 (n : Int)).anyM f = .ok ((List.range n).any g) := by
  rw [pyRange_zero, anyM_ok f (fun (x : Int) => g x.toNat)]
  · simp only [List.any_map]
    congr 1
  · intro x hx
    simp only [List.mem_map, List.mem_range] at hx
    obtain ⟨k, hk, rfl⟩ := hx
    simp [h k hk]

theorem pyGet_range_map {β : Type} (g : Nat → β) (n i : Nat) (h : i < n) : pyGet ((List.range n).map g) (i : Int) = .ok (g i) := by
  rw [pyGet_nat _ i (by simpa using h)]
  simp

theorem firstMin_get : ∀ (l : List IntInf), l ≠ [] → l[(firstMin l).1]? = some (firstMin l).2 := by
  intro l
  induction l with
  | nil => intro h; exact absurd rfl h
  | cons x xs ih =>
    intro _
    simp only [firstMin]
    by_cases hlt : IntInf.lt (firstMin xs).2 x = true
    · have hxs : xs ≠ [] := by
        intro e; subst e; simp [firstMin, IntInf.lt] at hlt
      simp only [hlt, if_true, List.getElem?_cons_succ]
      exact ih hxs
    · simp [hlt]

theorem firstMin_inf (l : List IntInf) (h : (firstMin l).2 = .inf) : ∀ x ∈ l, x = .inf := by
  induction l with
  | nil => intro x hx; simp at hx
  | cons y ys ih =>
    simp only [firstMin] at h
    by_cases hlt : IntInf.lt (firstMin ys).2 y = true
    · simp only [hlt, if_true] at h
      rw [h] at hlt
      cases y <;> simp [IntInf.lt] at hlt
    · simp only [hlt, Bool.false_eq_true, if_false] at h
      subst h
      have hr : (firstMin ys).2 = .inf := by
        cases hfm : (firstMin ys).2 with
        | inf => rfl
        | fin v => rw [hfm] at hlt; simp [IntInf.lt] at hlt
      intro x hx
      rcases List.mem_cons.1 hx with rfl | hx
      · rfl
      · exact ih hr x hx

/-! ### the index arrays of `get_interleaved_message_pairings` as functions of the cursor `c` -/

def rowAt (cp : List (Int × List (List Nat))) (i : Nat) : List (List Nat) := (cp.getD i (0, [])).2
def idAt (cp : List (Int × List (List Nat))) (i : Nat) : Int := (cp.getD i (0, [])).1

/-- time of the head message of the `k`-th pairing of a row (`inf` past the end) -/
def headT (h : Heap) (row : List (List Nat)) (k : Nat) : IntInf :=
  if k < row.length then .fin (hGet h ((row.getD k []).headD 0)).time else .inf

/-- the model's remaining channels at cursor `c` -/
def chansOf (h : Heap) (cp : List (Int × List (List Nat))) (c : Nat → Nat) : List (Int × List Pairing) :=
  (List.range cp.length).map (fun i => (idAt cp i, ((rowAt cp i).drop (c i)).map (deref h)))

theorem headTime_drop (h : Heap) (row : List (List Nat)) (k : Nat) (hne : ∀ p ∈ row, p ≠ []) :
    toInf (headTime ((row.drop k).map (deref h))) = headT h row k := by
  unfold headT
  by_cases hk : k < row.length
  · simp only [hk, if_true]
    have hd : row.drop k = row[k] :: row.drop (k + 1) := by
      rw [List.drop_eq_getElem_cons hk]
    have hne' := hne row[k] (List.getElem_mem hk)
    rw [hd]
    cases hp : row[k] with
    | nil => exact absurd hp hne'
    | cons r rs =>
      simp [headTime, deref, toInf, List.getD, List.getElem?_eq_getElem hk, hp]
  · simp only [hk, if_false]
    rw [List.drop_of_length_le (by omega)]
    rfl

/-- the `next times` array at cursor `c` -/
def nxtOf (h : Heap) (cp : List (Int × List (List Nat))) (c : Nat → Nat) : List IntInf :=
  (List.range cp.length).map (fun i => headT h (rowAt cp i) (c i))

theorem chans_times (h : Heap) (cp : List (Int × List (List Nat))) (c : Nat → Nat)
    (hne : ∀ i, ∀ p ∈ rowAt cp i, p ≠ []) :
    ((chansOf h cp c).map (fun x => headTime x.2)).map toInf = nxtOf h cp c := by
  simp only [chansOf, nxtOf, List.map_map]
  apply List.map_congr_left
  intro i _
  simp only [Function.comp]
  exact headTime_drop h (rowAt cp i) (c i) (hne i)

/-- one step of the model's `interleaveGo` at cursor `c`, when the first minimal next time is finite -/
theorem interleaveGo_step (h : Heap) (cp : List (Int × List (List Nat))) (c : Nat → Nat)
    (hne : ∀ i, ∀ p ∈ rowAt cp i, p ≠ []) (m : Nat) (acc : List (Int × Pairing)) (idx : Nat) (v : Int)
    (hfm : firstMin (nxtOf h cp c) = (idx, .fin v)) :
    idx < cp.length ∧ c idx < (rowAt cp idx).length ∧
    interleaveGo (m + 1) (chansOf h cp c) acc
      = interleaveGo m (chansOf h cp (fun i => if i = idx then c idx + 1 else c i))
          ((idAt cp idx, deref h ((rowAt cp idx).getD (c idx) [])) :: acc) := by
  have hnil : nxtOf h cp c ≠ [] := by
    intro e; rw [e] at hfm; simp [firstMin] at hfm
  have hget := firstMin_get _ hnil
  rw [hfm] at hget
  simp only at hget
  have hidx : idx < cp.length := by
    rcases List.getElem?_eq_some_iff.1 hget with ⟨hh, _⟩
    simpa [nxtOf] using hh
  have hval : headT h (rowAt cp idx) (c idx) = .fin v := by
    simp only [nxtOf, List.getElem?_map, List.getElem?_range hidx, Option.map_some, Option.some.injEq] at hget
    exact hget
  have hc : c idx < (rowAt cp idx).length := by
    unfold headT at hval
    by_cases hk : c idx < (rowAt cp idx).length
    · exact hk
    · simp [hk] at hval
  refine ⟨hidx, hc, ?_⟩
  have harg : argMinFirst ((chansOf h cp c).map (fun x => headTime x.2)) 0 none = some (idx, v) := by
    rw [argMinFirst_eq, chans_times h cp c hne, hfm]
    simp [combineBest]
  have hch : (chansOf h cp c)[idx]? = some (idAt cp idx,
      deref h ((rowAt cp idx).getD (c idx) []) :: ((rowAt cp idx).drop (c idx + 1)).map (deref h)) := by
    simp only [chansOf, List.getElem?_map, List.getElem?_range hidx, Option.map_some, Option.some.injEq, Prod.mk.injEq, true_and]
    rw [List.drop_eq_getElem_cons hc]
    simp only [List.map_cons, List.getD, List.getElem?_eq_getElem hc, Option.getD_some]
  rw [interleaveGo, harg]
  simp only [hch]
  congr 1
  apply List.ext_getElem?
  intro j
  rw [GluePair.getElem?_modifyAt]
  simp only [chansOf, List.getElem?_map]
  by_cases hj : j < cp.length
  · simp only [List.getElem?_range hj, Option.map_some]
    by_cases hij : idx = j
    · subst hij; simp
    · have : ¬ j = idx := fun e => hij e.symm
      simp [hij, this]
  · have : (List.range cp.length)[j]? = none := by simp; omega
    simp [this]

theorem sum_sub_update (l c : Nat → Nat) (idx : Nat) (hc : c idx < l idx) : ∀ n, idx < n →
    ((List.range n).map (fun i => l i - (if i = idx then c idx + 1 else c i))).sum + 1 = ((List.range n).map (fun i => l i - c i)).sum := by
  intro n
  induction n with
  | zero => intro h; omega
  | succ n ih =>
    intro h
    simp only [List.range_succ, List.map_append, List.map_cons, List.map_nil, List.sum_append, List.sum_cons, List.sum_nil]
    by_cases hn : idx = n
    · subst hn
      have : ((List.range idx).map (fun i => l i - (if i = idx then c idx + 1 else c i))) = (List.range idx).map (fun i => l i - c i) := by
        apply List.map_congr_left
        intro i hi
        have : i ≠ idx := by simp at hi; omega
        simp [this]
      rw [this]
      simp only [if_true]
      omega
    · have := ih (by omega)
      have hne : ¬ n = idx := fun e => hn e.symm
      simp only [hne, if_false]
      omega

theorem sum_sub_zero (l c : Nat → Nat) : ∀ n, ((List.range n).map (fun i => l i - c i)).sum = 0 → ∀ i, i < n → l i - c i = 0 := by
  intro n
  induction n with
  | zero => intro _ i hi; omega
  | succ n ih =>
    intro hs i hi
    simp only [List.range_succ, List.map_append, List.map_cons, List.map_nil, List.sum_append, List.sum_cons, List.sum_nil] at hs
    by_cases hn : i = n
    · subst hn; omega
    · exact ih (by omega) i (by omega)

theorem sum_sub_pos (l c : Nat → Nat) : ∀ n, 0 < ((List.range n).map (fun i => l i - c i)).sum → ∃ i, i < n ∧ c i < l i := by
  intro n
  induction n with
  | zero => intro h; simp at h
  | succ n ih =>
    intro hs
    simp only [List.range_succ, List.map_append, List.map_cons, List.map_nil, List.sum_append, List.sum_cons, List.sum_nil] at hs
    by_cases hn : 0 < l n - c n
    · exact ⟨n, by omega, by omega⟩
    · obtain ⟨i, hi, hc⟩ := ih (by omega)
      exact ⟨i, by omega, hc⟩

theorem set_range_map {β : Type} (g : Nat → β) (n idx : Nat) (v : β) :
    ((List.range n).map g).set idx v = (List.range n).map (fun i => if i = idx then v else g i) := by
  apply List.ext_getElem?
  intro j
  rw [List.getElem?_set]
  by_cases hj : j < n
  · simp only [List.getElem?_map, List.getElem?_range hj, Option.map_some, List.length_map, List.length_range]
    by_cases hij : idx = j
    · subst hij; simp [hj]
    · have : ¬ j = idx := fun e => hij e.symm
      simp [hij, this]
  · have hnone : (List.range n)[j]? = none := by simp; omega
    simp only [List.getElem?_map, hnone, Option.map_none, List.length_map, List.length_range]
    split
    · split
      · omega
      · rfl
    · rfl

theorem pySum_cast (g : Nat → Nat) (n : Nat) : pySum ((List.range n).map (fun i => ((g i : Nat) : Int))) = (((List.range n).map g).sum : Nat) := by
  unfold pySum
  have : ∀ (l : List Nat) (a : Int), (l.map (fun i => ((g i : Nat) : Int))).foldl (· + ·) a = a + ((l.map g).sum : Nat) := by
    intro l
    induction l with
    | nil => intro a; simp
    | cons x xs ih => intro a; simp only [List.map_cons, List.foldl_cons, ih, List.sum_cons]; push_cast; omega
  rw [this]; simp

/-- loop rule for a `while` loop translated with fuel: the measure `n` decreases with every `yield`, at 0 the loop breaks -/
theorem forIn_fuel_bind {β δ ε : Type} (f : Unit → β → Except ε (ForInStep β)) (k : β → Except ε δ) (Q : Except ε δ → Prop)
    (I : β → Nat → Prop)
    (hstep : ∀ b n, I b (n + 1) → ∃ b', f () b = .ok (.yield b') ∧ I b' n)
    (hzero : ∀ b, I b 0 → ∃ b', f () b = .ok (.done b') ∧ Q (k b')) :
    ∀ (n fuel : Nat) (b : β), n < fuel → I b n → Q (forIn (List.replicate fuel ()) b f >>= k) := by
  intro n
  induction n with
  | zero =>
    intro fuel b hn hI
    obtain ⟨fuel', rfl⟩ : ∃ f', fuel = f' + 1 := ⟨fuel - 1, by omega⟩
    obtain ⟨b', hb, hQ⟩ := hzero b hI
    rw [List.replicate_succ, List.forIn_cons, hb]
    exact hQ
  | succ n ih =>
    intro fuel b hn hI
    obtain ⟨fuel', rfl⟩ : ∃ f', fuel = f' + 1 := ⟨fuel - 1, by omega⟩
    obtain ⟨b', hb, hI'⟩ := hstep b n hI
    rw [List.replicate_succ, List.forIn_cons, hb]
    exact ih fuel' b' (by omega) hI'

theorem pyGet_getD {α : Type} (l : List α) (i : Nat) (d : α) (h : i < l.length) : pyGet l (i : Int) = .ok (l.getD i d) := by
  rw [pyGet_nat l i h]; simp [List.getD, List.getElem?_eq_getElem h]

theorem pyGet_cons_zero {α : Type} (x : α) (xs : List α) : pyGet (x :: xs) 0 = .ok x := rfl

/-! ### the generated `get_interleaved_message_pairings` -/

theorem firstMin_all_inf (l : List IntInf) (h : ∀ x ∈ l, x = IntInf.inf) : firstMin l = (0, IntInf.inf) := by
  induction l with
  | nil => rfl
  | cons y ys ih =>
    have hy : y = IntInf.inf := h y (by simp)
    subst hy
    simp [firstMin, ih (fun x hx => h x (by simp [hx])), IntInf.lt]

/-- (Before the repair 1462441 `has_next` started as `len(channel_pairings_list) > 0` and the code raised IndexError when there were
    channels but no pairing; it now starts as `any(cur[i] < max[i] …)`, and the equality below holds for all inputs.) -/
theorem gip_spec (h0 : Heap) (refs : List Nat) (types : List MType) (std : Int) (impute : Bool)
    (hrefs : ∀ r ∈ refs, r < h0.length) (hok : ∀ m ∈ h0, m.ch ≠ pyNone) :
    ∃ h' out, getInterleavedMessagePairings h0 refs (some types) std impute = .ok (h', sortRefs h0 refs, out) ∧ (∃ x, h' = h0 ++ x) ∧
      out.map (fun x => (x.1, deref h' x.2)) = interleaved types std impute (deref h0 refs) ∧
      (∀ m ∈ h', m.ch ≠ pyNone) ∧ (∀ x ∈ out, ∀ r ∈ x.2, r < h'.length) := by
  obtain ⟨h, cp, hgmp, hext, habs, _, hhok, hhrefs⟩ := gmp_spec h0 refs types std impute hrefs hok
  have hhead := headCh_refs h cp types std impute _ habs
  have hrowrefs : ∀ i, ∀ p ∈ rowAt cp i, ∀ r ∈ p, r < h.length := by
    intro i p hp r hr
    unfold rowAt at hp
    by_cases hi : i < cp.length
    · simp only [List.getD, List.getElem?_eq_getElem hi, Option.getD_some] at hp
      exact hhrefs cp[i] (List.getElem_mem hi) p hp r hr
    · simp [List.getD, List.getElem?_eq_none (by omega : cp.length ≤ i)] at hp
  have hne : ∀ i, ∀ p ∈ rowAt cp i, p ≠ [] := by
    intro i p hp
    unfold rowAt at hp
    by_cases hi : i < cp.length
    · simp only [List.getD, List.getElem?_eq_getElem hi, Option.getD_some] at hp
      obtain ⟨r, hr, _⟩ := hhead cp[i] (List.getElem_mem hi) p hp
      intro e; subst e; simp at hr
    · simp [List.getD, List.getElem?_eq_none (by omega : cp.length ≤ i)] at hp
  unfold getInterleavedMessagePairings
  simp only []
  rw [hgmp]
  try simp only [ViewTieL.ok_bind]
  have hmax : ∀ i, i < cp.length → (do let c ← pyGet cp (i : Int); pure ((c.2.length : Nat) : Int) : Except PyErr Int)
      = .ok (((rowAt cp i).length : Nat) : Int) := by
    intro i hi; rw [pyGet_getD cp i (0, []) hi]; rfl
  have hids : ∀ i, i < cp.length → (do let c ← pyGet cp (i : Int); pure c.1 : Except PyErr Int) = .ok (idAt cp i) := by
    intro i hi; rw [pyGet_getD cp i (0, []) hi]; rfl
  rw [mapM_pyRange _ _ cp.length hmax]
  try simp only [ViewTieL.ok_bind]
  have hcur0 : List.map (fun _ => (0 : Int)) (pyRange 0 (cp.length : Int)) = (List.range cp.length).map (fun i => (((fun _ => 0) i : Nat) : Int)) := by
    simp [pyRange_zero]
  rw [hcur0]
  have hnxt : ∀ (c : Nat → Nat) i, i < cp.length →
      (do let a ← pyGet ((List.range cp.length).map (fun i => ((c i : Nat) : Int))) (i : Int)
          let b ← pyGet ((List.range cp.length).map (fun i => (((rowAt cp i).length : Nat) : Int))) (i : Int)
          if decide (a < b) = true then do
              let x ← pyGet cp (i : Int)
              let y ← pyGet ((List.range cp.length).map (fun i => ((c i : Nat) : Int))) (i : Int)
              let p ← pyGet x.2 y
              let r ← pyGet p 0
              pure (IntInf.fin (hGet h r).time)
            else pure IntInf.inf : Except PyErr IntInf) = .ok (headT h (rowAt cp i) (c i)) := by
    intro c i hi
    rw [pyGet_range_map _ _ _ hi, pyGet_range_map _ _ _ hi]
    simp only [ViewTieL.ok_bind, headT]
    by_cases hc : c i < (rowAt cp i).length
    · have hd : decide (((c i : Nat) : Int) < (((rowAt cp i).length : Nat) : Int)) = true := by simpa using hc
      simp only [hd, if_true, hc, pyGet_getD cp i (0, []) hi, ViewTieL.ok_bind]
      have : (cp.getD i (0, [])).2 = rowAt cp i := rfl
      rw [this, pyGet_getD _ _ [] hc]
      try simp only [ViewTieL.ok_bind]
      have hgd : (rowAt cp i).getD (c i) [] = (rowAt cp i)[c i] := by simp [List.getD, hc]
      have hp := hne i ((rowAt cp i).getD (c i) []) (by rw [hgd]; exact List.getElem_mem hc)
      cases hq : (rowAt cp i).getD (c i) [] with
      | nil => exact absurd hq hp
      | cons r rs => rfl
    · have hd : decide (((c i : Nat) : Int) < (((rowAt cp i).length : Nat) : Int)) = false := by simpa using hc
      simp only [hd, Bool.false_eq_true, if_false, hc]
      rfl
  rw [mapM_pyRange _ _ cp.length (hnxt (fun _ => 0))]
  rw [mapM_pyRange _ _ cp.length hids]
  try simp only [ViewTieL.ok_bind]
  -- has_next = any(channel_cur_index[i] < channel_max_index[i] for i in range(len(channel_pairings_list)))
  have hany0 : ∀ i, i < cp.length →
      (do let a ← pyGet ((List.range cp.length).map (fun i => (((fun _ => 0) i : Nat) : Int))) (i : Int)
          let b ← pyGet ((List.range cp.length).map (fun i => (((rowAt cp i).length : Nat) : Int))) (i : Int)
          pure (decide (a < b)) : Except PyErr Bool) = .ok (decide ((fun _ => 0) i < (rowAt cp i).length)) := by
    intro i hi
    rw [pyGet_range_map _ _ _ hi, pyGet_range_map _ _ _ hi]
    simp only [ViewTieL.ok_bind]
    congr 1
    simp
  rw [anyM_pyRange _ _ cp.length hany0]
  try simp only [ViewTieL.ok_bind]
  -- the loop
  have hfuel : (pySum ((List.range cp.length).map (fun i => (((rowAt cp i).length : Nat) : Int))) + 1).toNat
      = ((List.range cp.length).map (fun i => (rowAt cp i).length)).sum + 1 := by
    rw [pySum_cast]; omega
  rw [hfuel]
  have htot : ((List.range cp.length).map (fun i => (rowAt cp i).length)).sum = (cp.map (fun c => c.2.length)).sum := by
    congr 1
    apply List.ext_getElem
    · simp
    · intro i h1 h2
      simp only [List.getElem_map, List.getElem_range, rowAt, List.getD]
      simp only [List.length_map, List.length_range] at h1
      simp [List.getElem?_eq_getElem h1]
  have hcp0 : chansOf h cp (fun _ => 0) = absP h cp := by
    apply List.ext_getElem
    · simp [chansOf, absP]
    · intro i h1 h2
      simp only [chansOf, List.length_map, List.length_range] at h1
      simp [chansOf, absP, idAt, rowAt, List.getD, List.getElem?_eq_getElem h1]
  refine forIn_fuel_bind _ _
    (fun (x : Except PyErr (Heap × List Nat × List (Int × List Nat))) => ∃ (h' : Heap) (out : List (Int × List Nat)),
      x = .ok (h', sortRefs h0 refs, out) ∧ (∃ x, h' = h0 ++ x) ∧
      out.map (fun x => (x.1, deref h' x.2)) = interleaved types std impute (deref h0 refs) ∧
      (∀ m ∈ h', m.ch ≠ pyNone) ∧ (∀ x ∈ out, ∀ r ∈ x.2, r < h'.length))
    (fun (b : List (Int × List Nat) × List Int × List IntInf × Bool) (m : Nat) => ∃ c : Nat → Nat,
      b.2.1 = (List.range cp.length).map (fun i => ((c i : Nat) : Int)) ∧ b.2.2.1 = nxtOf h cp c ∧
      b.2.2.2 = (List.range cp.length).any (fun i => decide (c i < (rowAt cp i).length)) ∧
      (∀ i, i < cp.length → c i ≤ (rowAt cp i).length) ∧
      m = ((List.range cp.length).map (fun i => (rowAt cp i).length - c i)).sum ∧
      interleaveGo m (chansOf h cp c) ((b.1.map (fun x => (x.1, deref h x.2))).reverse)
        = interleaved types std impute (deref h0 refs) ∧ (∀ x ∈ b.1, ∀ r ∈ x.2, r < h.length))
    ?hstep ?hzero (((List.range cp.length).map (fun i => (rowAt cp i).length)).sum) _ _ (Nat.lt_succ_self _) ?hinit
  case hinit =>
    refine ⟨fun _ => 0, rfl, rfl, ?_, fun _ _ => Nat.zero_le _, by simp, ?_, by simp⟩
    · -- has_next = any(channel_cur_index[i] < channel_max_index[i] …)
      simp
    · simp only [List.map_nil, List.reverse_nil, interleaved, pairings] at *
      rw [hcp0, habs]
      congr 1
      rw [htot, ← habs]
      simp only [absP, List.map_map]
      congr 1
      apply List.map_congr_left
      intro c _
      simp
  case hzero =>
    rintro ⟨out, cur, nxt, hasNext⟩ ⟨c, hcur, hnx, hhas, hle, hm, hmodel, houtrefs⟩
    simp only at hcur hnx hhas hmodel houtrefs
    have hall : ∀ i, i < cp.length → ¬ c i < (rowAt cp i).length := by
      intro i hi
      have := sum_sub_zero _ _ _ hm.symm i hi
      omega
    have hfalse : hasNext = false := by
      rw [hhas, List.any_eq_false]
      intro i hi
      simpa using hall i (by simpa using hi)
    subst hfalse
    refine ⟨_, rfl, h, out, rfl, hext, ?_, hhok, houtrefs⟩
    rw [← hmodel]
    simp [interleaveGo]
  case hstep =>
    rintro ⟨out, cur, nxt, hasNext⟩ m ⟨c, hcur, hnx, hhas, hle, hm, hmodel, houtrefs⟩
    simp only at hcur hnx hhas hmodel houtrefs
    subst hcur hnx
    obtain ⟨i0, hi0, hc0⟩ := sum_sub_pos _ _ _ (by rw [← hm]; omega)
    have htrue : hasNext = true := by
      rw [hhas, List.any_eq_true]; exact ⟨i0, by simpa using hi0, by simpa using hc0⟩
    subst htrue
    have hn0 : cp.length ≠ 0 := by omega
    have htvt : ∀ i, i < cp.length →
        (do let a ← pyGet ((List.range cp.length).map (fun i => ((c i : Nat) : Int))) (i : Int)
            let b ← pyGet ((List.range cp.length).map (fun i => (((rowAt cp i).length : Nat) : Int))) (i : Int)
            if decide (a < b) = true then pyGet (nxtOf h cp c) (i : Int) else pure IntInf.inf : Except PyErr IntInf)
          = .ok (headT h (rowAt cp i) (c i)) := by
      intro i hi
      rw [pyGet_range_map _ _ _ hi, pyGet_range_map _ _ _ hi]
      simp only [ViewTieL.ok_bind]
      by_cases hc : c i < (rowAt cp i).length
      · have hd : decide (((c i : Nat) : Int) < (((rowAt cp i).length : Nat) : Int)) = true := by simpa using hc
        simp only [hd, if_true, nxtOf, pyGet_range_map _ _ _ hi]
      · have hd : decide (((c i : Nat) : Int) < (((rowAt cp i).length : Nat) : Int)) = false := by simpa using hc
        simp only [hd, Bool.false_eq_true, if_false, headT, hc]
        rfl
    have hnz : nxtOf h cp c ≠ [] := by
      intro e; have := congrArg List.length e; simp only [nxtOf, List.length_map, List.length_range, List.length_nil] at this; exact hn0 this
    obtain ⟨idx, v, hfm⟩ : ∃ idx v, firstMin (nxtOf h cp c) = (idx, IntInf.fin v) := by
      cases hv : (firstMin (nxtOf h cp c)).2 with
      | fin v => exact ⟨(firstMin (nxtOf h cp c)).1, v, by rw [← hv]⟩
      | inf =>
        exfalso
        have := firstMin_inf _ hv (headT h (rowAt cp i0) (c i0)) (by
          simp only [nxtOf, List.mem_map, List.mem_range]; exact ⟨i0, hi0, rfl⟩)
        simp [headT, hc0] at this
    obtain ⟨hidx, hcidx, hgo⟩ := interleaveGo_step h cp c hne m ((out.map (fun x => (x.1, deref h x.2))).reverse) idx v hfm
    have hmin := pyMinInf_eq _ hnz
    have hind := pyIndex_firstMin _ hnz
    rw [hfm] at hmin hind
    simp only at hmin hind
    simp only [Bool.not_true, Bool.false_eq_true, if_false, List.length_map, List.length_range]
    rw [mapM_pyRange _ _ cp.length htvt]
    simp only [ViewTieL.ok_bind]
    rw [show (List.range cp.length).map (fun i => headT h (rowAt cp i) (c i)) = nxtOf h cp c from rfl, hmin]
    simp only [ViewTieL.ok_bind]
    rw [hind]
    simp only [ViewTieL.ok_bind]
    -- the chosen pairing
    have hrow : (cp.getD idx (0, [])).2 = rowAt cp idx := rfl
    have hgd : (rowAt cp idx).getD (c idx) [] = (rowAt cp idx)[c idx] := by simp [List.getD, hcidx]
    have hpm : (rowAt cp idx)[c idx] ∈ rowAt cp idx := List.getElem_mem hcidx
    obtain ⟨r0, hr0, hch0⟩ : ∃ r, ((rowAt cp idx).getD (c idx) []).head? = some r ∧ (hGet h r).ch = idAt cp idx := by
      rw [hgd]
      have hmem : cp[idx] ∈ cp := List.getElem_mem hidx
      have hrw : rowAt cp idx = cp[idx].2 := by simp [rowAt, List.getD, List.getElem?_eq_getElem hidx]
      have hid : idAt cp idx = cp[idx].1 := by simp [idAt, List.getD, List.getElem?_eq_getElem hidx]
      rw [hid]
      exact hhead cp[idx] hmem _ (by rw [← hrw]; exact hpm)
    have hp0 : pyGet ((rowAt cp idx).getD (c idx) []) 0 = .ok r0 := by
      cases hq : (rowAt cp idx).getD (c idx) [] with
      | nil => rw [hq] at hr0; simp at hr0
      | cons r rs => rw [hq] at hr0; simp at hr0; subst hr0; rfl
    have hcur' : ((List.range cp.length).map (fun i => ((c i : Nat) : Int))).set idx (((c idx : Nat) : Int) + 1)
        = (List.range cp.length).map (fun i => (((if i = idx then c idx + 1 else c i) : Nat) : Int)) := by
      rw [set_range_map]
      apply List.map_congr_left
      intro i _
      split <;> simp
    rw [pyGet_range_map _ _ _ hidx, pyGet_getD cp idx (0, []) hidx, pyGet_range_map _ _ _ hidx]
    simp only [ViewTieL.ok_bind, hrow]
    rw [pyGet_getD _ _ [] hcidx, pySet_nat _ _ _ (by simpa using hidx), hcur']
    simp only [ViewTieL.ok_bind]
    rw [mapM_pyRange _ _ cp.length (hnxt (fun i => if i = idx then c idx + 1 else c i))]
    have hany : ∀ i, i < cp.length →
        (do let a ← pyGet ((List.range cp.length).map (fun i => (((if i = idx then c idx + 1 else c i) : Nat) : Int))) (i : Int)
            let x ← pyGet cp (i : Int)
            pure (decide (a < ((x.2.length : Nat) : Int))) : Except PyErr Bool)
          = .ok (decide ((if i = idx then c idx + 1 else c i) < (rowAt cp i).length)) := by
      intro i hi
      rw [pyGet_range_map _ _ _ hi, pyGet_getD cp i (0, []) hi]
      simp only [ViewTieL.ok_bind]
      have : (cp.getD i (0, [])).2 = rowAt cp i := rfl
      rw [this]
      congr 1
      simp
    rw [anyM_pyRange _ _ cp.length hany]
    simp only [ViewTieL.ok_bind, hp0, hch0, beq_self_eq_true, Bool.not_true, Bool.false_eq_true, if_false]
    refine ⟨_, rfl, fun i => if i = idx then c idx + 1 else c i, rfl, rfl, rfl, ?_, ?_, ?_, ?_⟩
    · intro i hi
      simp only
      by_cases e : i = idx
      · subst e; simp only [if_true]; omega
      · simp only [e, if_false]; exact hle i hi
    · have := sum_sub_update (fun i => (rowAt cp i).length) c idx hcidx cp.length hidx
      simp only at this ⊢
      omega
    · simp only [List.map_append, List.map_cons, List.map_nil, List.reverse_append, List.reverse_cons, List.reverse_nil,
        List.nil_append, List.cons_append]
      rw [← hmodel, hgo]
    · intro x hx r hr
      simp only at hx
      rcases List.mem_append.1 hx with hx | hx
      · exact houtrefs x hx r hr
      · simp only [List.mem_singleton] at hx
        subst hx
        simp only at hr
        exact hrowrefs idx _ (by rw [hgd]; exact hpm) r hr

/-- `message_types=None` is passed on to `get_message_pairings` -/
theorem gip_none (h0 : Heap) (refs : List Nat) (std : Int) (impute : Bool) :
    getInterleavedMessagePairings h0 refs none std impute
      = getInterleavedMessagePairings h0 refs (some [MType.noteOn, MType.noteOff]) std impute := by
  unfold getInterleavedMessagePairings
  simp only []
  rw [gmp_none]

/-! ### when are there channels without pairings?  (input-level form of the former IndexError finding, repaired in 1462441) -/

/-- number of pairings in a table -/
def sumLen (d : Assoc Int (List Pairing)) : Nat := (d.map (fun c => c.2.length)).sum

theorem sumLen_set (d : Assoc Int (List Pairing)) (k : Int) (v : List Pairing) :
    sumLen (d.set k v) + ((d.get? k).getD []).length = sumLen d + v.length := by
  induction d with
  | nil => simp [sumLen, Assoc.set, Assoc.get?]
  | cons a rest ih =>
    obtain ⟨k0, w⟩ := a
    by_cases h : k0 = k
    · simp [sumLen, Assoc.set, Assoc.get?, h]; omega
    · simp only [sumLen, Assoc.set, Assoc.get?, h, if_false, List.map_cons, List.sum_cons] at ih ⊢
      omega

theorem sd_facts (P : Assoc Int (List Pairing)) (ch : Int) : sd P ch ≠ [] ∧ sumLen (sd P ch) = sumLen P := by
  unfold sd
  by_cases hP : P.contains ch = true
  · simp only [hP, if_true, and_true]
    intro e; rw [e] at hP; simp [Assoc.contains, Assoc.get?] at hP
  · have hg : P.get? ch = none := by
      rw [contains_eq] at hP; cases h : P.get? ch <;> simp [h] at hP ⊢
    simp only [hP, Bool.false_eq_true, if_false]
    refine ⟨?_, ?_⟩
    · cases P with
      | nil => simp [Assoc.set]
      | cons a rest => obtain ⟨k, v⟩ := a; simp only [Assoc.set]; split <;> simp
    · have := sumLen_set P ch []
      simp only [hg, Option.getD_none, List.length_nil, Nat.add_zero] at this
      exact this

theorem set_ne_nil (d : Assoc Int (List Pairing)) (k : Int) (v : List Pairing) : d.set k v ≠ [] := by
  cases d with
  | nil => simp [Assoc.set]
  | cons a rest => obtain ⟨k0, w⟩ := a; simp only [Assoc.set]; split <;> simp

theorem sumLen_push (d : Assoc Int (List Pairing)) (k : Int) (p : Pairing) :
    sumLen (d.set k ((d.get? k).getD [] ++ [p])) = sumLen d + 1 := by
  have := sumLen_set d k ((d.get? k).getD [] ++ [p])
  simp only [List.length_append, List.length_cons, List.length_nil] at this
  omega

theorem sumLen_modify (d : Assoc Int (List Pairing)) (k : Int) (i : Nat) (f : Pairing → Pairing) :
    sumLen (d.set k (modifyAt f i ((d.get? k).getD []))) = sumLen d := by
  have := sumLen_set d k (modifyAt f i ((d.get? k).getD []))
  rw [modifyAt_length] at this
  omega

/-- what one `pairStep` does to "is there a channel" and to the number of pairings -/
theorem pairStep_counts (types : List MType) (imp : Bool) (s : PairSt) (m : Msg) :
    (types.contains m.ty = false → pairStep types imp s m = s) ∧
    (types.contains m.ty = true → (pairStep types imp s m).pairs ≠ [] ∧
      (m.ty = .noteOff → sumLen (pairStep types imp s m).pairs = sumLen s.pairs) ∧
      (m.ty ≠ .noteOff → sumLen (pairStep types imp s m).pairs = sumLen s.pairs + 1)) := by
  refine ⟨fun hc => pairStep_skip types imp s m hc, fun hc => ?_⟩
  obtain ⟨hsd1, hsd2⟩ := sd_facts s.pairs m.ch
  by_cases hon : m.ty = .noteOn
  · rw [pairStep_on types imp s m hc hon]
    have hno : m.ty ≠ .noteOff := by rw [hon]; decide
    cases s.opens.get? (m.ch, m.note) with
    | none =>
      simp only
      exact ⟨set_ne_nil _ _ _, fun h => absurd h hno, fun _ => by rw [sumLen_push, hsd2]⟩
    | some i =>
      cases imp with
      | false =>
        simp only [Bool.false_eq_true, if_false]
        exact ⟨set_ne_nil _ _ _, fun h => absurd h hno, fun _ => by rw [sumLen_push, hsd2]⟩
      | true =>
        simp only [if_true]
        exact ⟨set_ne_nil _ _ _, fun h => absurd h hno, fun _ => by rw [sumLen_push, sumLen_modify, hsd2]⟩
  · by_cases hoff : m.ty = .noteOff
    · rw [pairStep_off types imp s m hc hoff]
      cases s.opens.get? (m.ch, m.note) with
      | none => simp only; exact ⟨hsd1, fun _ => hsd2, fun h => absurd hoff h⟩
      | some i => simp only; exact ⟨set_ne_nil _ _ _, fun _ => by rw [sumLen_modify, hsd2], fun h => absurd hoff h⟩
    · rw [pairStep_other types imp s m hc hon hoff]
      exact ⟨set_ne_nil _ _ _, fun h => absurd h hoff, fun _ => by rw [sumLen_push, hsd2]⟩

/-- the two facts about the whole fold -/
theorem fold_counts (types : List MType) (imp : Bool) : ∀ (l : List Msg) (s : PairSt),
    ((l.foldl (pairStep types imp) s).pairs = [] ↔ s.pairs = [] ∧ ∀ m ∈ l, types.contains m.ty = false) ∧
    (sumLen (l.foldl (pairStep types imp) s).pairs = 0 ↔ sumLen s.pairs = 0 ∧ ∀ m ∈ l, types.contains m.ty = true → m.ty = .noteOff) := by
  intro l
  induction l with
  | nil => intro s; simp
  | cons m ms ih =>
    intro s
    obtain ⟨h1, h2⟩ := pairStep_counts types imp s m
    obtain ⟨i1, i2⟩ := ih (pairStep types imp s m)
    simp only [List.foldl_cons]
    by_cases hc : types.contains m.ty = true
    · obtain ⟨g1, g2, g3⟩ := h2 hc
      constructor
      · rw [i1]
        constructor
        · rintro ⟨h, _⟩; exact absurd h g1
        · rintro ⟨_, h⟩; have := h m (by simp); rw [hc] at this; cases this
      · rw [i2]
        by_cases hoff : m.ty = .noteOff
        · rw [g2 hoff]
          constructor
          · rintro ⟨h, h'⟩; exact ⟨h, fun x hx => by rcases List.mem_cons.1 hx with rfl | hx; exact fun _ => hoff; exact h' x hx⟩
          · rintro ⟨h, h'⟩; exact ⟨h, fun x hx => h' x (by simp [hx])⟩
        · rw [g3 hoff]
          constructor
          · rintro ⟨h, _⟩; omega
          · rintro ⟨_, h'⟩; exact absurd (h' m (by simp) hc) hoff
    · have hc' : types.contains m.ty = false := by simpa using hc
      rw [h1 hc']
      constructor
      · rw [(ih s).1]
        constructor
        · rintro ⟨h, h'⟩; exact ⟨h, fun x hx => by rcases List.mem_cons.1 hx with rfl | hx; exact hc'; exact h' x hx⟩
        · rintro ⟨h, h'⟩; exact ⟨h, fun x hx => h' x (by simp [hx])⟩
      · rw [(ih s).2]
        constructor
        · rintro ⟨h, h'⟩
          refine ⟨h, fun x hx => ?_⟩
          rcases List.mem_cons.1 hx with rfl | hx
          · intro hh; rw [hc'] at hh; cases hh
          · exact h' x hx
        · rintro ⟨h, h'⟩; exact ⟨h, fun x hx => h' x (by simp [hx])⟩

/-- the messages that made `get_interleaved_message_pairings` / `equals` raise IndexError before the repair 1462441: some message has a listed type, and every
    message of a listed type is a note-off (which then closes nothing) -/
def OnlyOrphanOffs (types : List MType) (a : List Msg) : Prop :=
  (∃ m ∈ a, types.contains m.ty = true) ∧ ∀ m ∈ a, types.contains m.ty = true → m.ty = .noteOff

instance (types : List MType) (a : List Msg) : Decidable (OnlyOrphanOffs types a) := by unfold OnlyOrphanOffs; infer_instance

theorem channelsWithoutPairings_iff (types : List MType) (std : Int) (imp : Bool) (a : List Msg) :
    (pairings types std imp a ≠ [] ∧ ((pairings types std imp a).map (fun c => c.2.length)).sum = 0) ↔ OnlyOrphanOffs types a := by
  obtain ⟨h1, h2⟩ := fold_counts types imp (sortAbs a) {}
  have e1 : pairings types std imp a = [] ↔ ((sortAbs a).foldl (pairStep types imp) {}).pairs = [] := by
    simp [pairings, pairingsSorted]
  have e2 : ((pairings types std imp a).map (fun c => c.2.length)).sum = sumLen ((sortAbs a).foldl (pairStep types imp) {}).pairs := by
    simp only [pairings, pairingsSorted, sumLen, List.map_map]
    congr 1
    apply List.map_congr_left
    intro c _
    simp
  rw [e2, h2, Ne, e1, h1]
  unfold OnlyOrphanOffs
  simp only [sumLen, List.map_nil, List.sum_nil, true_and]
  constructor
  · rintro ⟨hn, hall⟩
    refine ⟨?_, fun m hm => hall m ((mem_sortAbs a m).2 hm)⟩
    by_cases hex : ∃ m ∈ a, types.contains m.ty = true
    · exact hex
    · exfalso
      apply hn
      intro m hm
      cases hc : types.contains m.ty with
      | false => rfl
      | true => exact absurd ⟨m, (mem_sortAbs a m).1 hm, hc⟩ hex
  · rintro ⟨⟨m, hm, hc⟩, hall⟩
    refine ⟨?_, fun x hx => hall x ((mem_sortAbs a x).1 hx)⟩
    intro hno
    have := hno m ((mem_sortAbs a m).2 hm)
    rw [hc] at this
    cases this

end SCoda.AbsTie2L
