/-
  Lemmas for Props/Defs.lean, first part: `render` (Model/Render.lean) is injective on ALL tokens, signed fields
  included.  The proof of `C02b.render_injective` goes through `parseTok`, which fails on signed numbers; here the
  characters are read directly: a token text is a `-`-separated list of items `prefix(_number)*`, a number is an
  optional `-` followed by a non-empty block of digits, a prefix contains neither `-` nor `_` and is not empty, so the
  boundaries are determined by the text (a `-` after `_` is a sign, a `-` after a digit or a prefix is a separator).
-/
import SCoda.Lemmas.RenderL
set_option linter.unusedSimpArgs false
set_option linter.unusedVariables false
namespace SCoda.DefsL
open SCoda SCoda.RenderL

/-! ### blocks of characters -/

/-- the head of a list, if any, fails `P` -/
def HeadNot (P : Char → Bool) (x : List Char) : Prop := ∀ c, x.head? = some c → P c = false

/-- two `P`-blocks followed by non-`P` remainders: equal concatenations have equal blocks and remainders -/
theorem block_cancel (P : Char → Bool) : ∀ (a b x y : List Char), (∀ c ∈ a, P c = true) → (∀ c ∈ b, P c = true) →
    HeadNot P x → HeadNot P y → a ++ x = b ++ y → a = b ∧ x = y := by
  intro a
  induction a with
  | nil =>
    intro b x y _ hb hx _ h
    cases b with
    | nil => exact ⟨rfl, h⟩
    | cons c b =>
      simp only [List.nil_append] at h
      subst h
      have := hx c rfl
      rw [hb c (by simp)] at this
      cases this
  | cons c a ih =>
    intro b x y ha hb hx hy h
    cases b with
    | nil =>
      simp only [List.nil_append] at h
      subst h
      have := hy c rfl
      rw [ha c (by simp)] at this
      cases this
    | cons d b =>
      simp only [List.cons_append, List.cons.injEq] at h
      obtain ⟨rfl, h⟩ := h
      obtain ⟨rfl, rfl⟩ := ih b x y (fun e he => ha e (by simp [he])) (fun e he => hb e (by simp [he])) hx hy h
      exact ⟨rfl, rfl⟩

/-! ### numbers -/

/-- the characters of `zpad w v`: a sign for a negative number, zeros, the decimal digits of `|v|` -/
def numC (k : Nat) (v : Int) : List Char := (if v < 0 then ['-'] else []) ++ zpadC k v.natAbs

theorem zpad_toList (w : Nat) (v : Int) : ∃ k, (zpad w v).toList = numC k v := by
  by_cases h : v < 0
  · exact ⟨w - (toString v.natAbs).length - 1, by
      simp [zpad, h, numC, zpadC, Nat.toString_eq_repr, Nat.toList_repr]⟩
  · exact ⟨w - (toString v.natAbs).length - 0, by
      simp [zpad, h, numC, zpadC, Nat.toString_eq_repr, Nat.toList_repr]⟩

theorem zpadC_inj (k₁ k₂ n₁ n₂ : Nat) (h : zpadC k₁ n₁ = zpadC k₂ n₂) : n₁ = n₂ := by
  have := congrArg (fun l => Nat.ofDigitChars 10 l 0) h
  simpa [zpadC, Nat.ofDigitChars_append, Nat.ofDigitChars_replicate_zero, Nat.ofDigitChars_toDigits] using this

theorem zpadC_head_digit (k n : Nat) : ∃ c r, zpadC k n = c :: r ∧ c.isDigit = true := by
  cases h : zpadC k n with
  | nil => exact absurd h (zpadC_ne_nil k n)
  | cons c r => exact ⟨c, r, rfl, zpadC_isDigit k n c (by rw [h]; simp)⟩

/-- a rendered number followed by a non-digit: the number and the remainder are determined -/
theorem num_cancel (k₁ k₂ : Nat) (v₁ v₂ : Int) (x y : List Char) (hx : HeadNot Char.isDigit x) (hy : HeadNot Char.isDigit y)
    (h : numC k₁ v₁ ++ x = numC k₂ v₂ ++ y) : v₁ = v₂ ∧ x = y := by
  obtain ⟨c₁, r₁, e₁, d₁⟩ := zpadC_head_digit k₁ v₁.natAbs
  obtain ⟨c₂, r₂, e₂, d₂⟩ := zpadC_head_digit k₂ v₂.natAbs
  by_cases h1 : v₁ < 0 <;> by_cases h2 : v₂ < 0
  · simp only [numC, h1, h2, if_true, List.cons_append, List.nil_append, List.cons.injEq, true_and] at h
    obtain ⟨e, rfl⟩ := block_cancel Char.isDigit _ _ x y (zpadC_isDigit _ _) (zpadC_isDigit _ _) hx hy h
    have := zpadC_inj _ _ _ _ e
    exact ⟨by omega, rfl⟩
  · simp only [numC, h1, h2, if_true, if_false, List.cons_append, List.nil_append, e₂, List.cons.injEq] at h
    rw [← h.1] at d₂; cases d₂
  · simp only [numC, h1, h2, if_true, if_false, List.cons_append, List.nil_append, e₁, List.cons.injEq] at h
    rw [h.1] at d₁; cases d₁
  · simp only [numC, h1, h2, if_false, List.nil_append] at h
    obtain ⟨e, rfl⟩ := block_cancel Char.isDigit _ _ x y (zpadC_isDigit _ _) (zpadC_isDigit _ _) hx hy h
    have := zpadC_inj _ _ _ _ e
    exact ⟨by omega, rfl⟩

/-! ### items: `prefix(_number)*` -/

/-- the ten enum members `render` uses -/
inductive Nm | pad | sta | sto | bar | rest | trk | val | vel | pit | tsg
  deriving DecidableEq, Repr

def Nm.str : Nm → String
  | .pad => "PAD" | .sta => "START" | .sto => "STOP" | .bar => "BAR" | .rest => "REST" | .trk => "TRACK"
  | .val => "VALUE" | .vel => "VELOCITY" | .pit => "PITCH" | .tsg => "TIME_SIGNATURE"

/-- the `:0w` width `render` uses for the numbers of an item -/
def Nm.width : Nm → Nat
  | .vel | .pit => 3
  | _ => 2

/-- prefix characters are neither `-` nor `_` -/
def isPfxChar (c : Char) : Bool := c != '-' && c != '_'

theorem pfx_chars (n : Nm) : ∀ c ∈ (prefixOf n.str).toList, isPfxChar c = true := by
  cases n <;> decide

theorem pfx_ne_nil (n : Nm) : (prefixOf n.str).toList ≠ [] := by
  cases n <;> decide

theorem pfx_inj (a b : Nm) (h : (prefixOf a.str).toList = (prefixOf b.str).toList) : a = b := by
  revert h; cases a <;> cases b <;> decide

/-- `_n₁_n₂…` -/
def numsC (w : Nat) : List Int → List Char
  | [] => []
  | v :: vs => '_' :: ((zpad w v).toList ++ numsC w vs)

def itemC (it : Nm × List Int) : List Char := (prefixOf it.1.str).toList ++ numsC it.1.width it.2

/-- the items joined by `-` -/
def itemsC : List (Nm × List Int) → List Char
  | [] => []
  | [a] => itemC a
  | a :: b :: r => itemC a ++ '-' :: itemsC (b :: r)

/-- what follows an item: nothing, or the separator `-` -/
def Tail (x : List Char) : Prop := x = [] ∨ ∃ r, x = '-' :: r

theorem tail_headNot_digit {x : List Char} (h : Tail x) : HeadNot Char.isDigit x := by
  rcases h with rfl | ⟨r, rfl⟩
  · intro c hc; cases hc
  · intro c hc; cases hc; decide

theorem tail_headNot_pfx {x : List Char} (h : Tail x) : HeadNot isPfxChar x := by
  rcases h with rfl | ⟨r, rfl⟩
  · intro c hc; cases hc
  · intro c hc; cases hc; decide

theorem numsC_cancel (w₁ w₂ : Nat) : ∀ (vs₁ vs₂ : List Int) (x y : List Char), Tail x → Tail y →
    numsC w₁ vs₁ ++ x = numsC w₂ vs₂ ++ y → vs₁ = vs₂ ∧ x = y := by
  intro vs₁
  induction vs₁ with
  | nil =>
    intro vs₂ x y hx hy h
    cases vs₂ with
    | nil => exact ⟨rfl, h⟩
    | cons v vs =>
      simp only [numsC, List.nil_append, List.cons_append] at h
      rcases hx with rfl | ⟨r, rfl⟩ <;> simp at h
  | cons v₁ vs₁ ih =>
    intro vs₂ x y hx hy h
    cases vs₂ with
    | nil =>
      simp only [numsC, List.nil_append, List.cons_append] at h
      rcases hy with rfl | ⟨r, rfl⟩ <;> simp at h
    | cons v₂ vs₂ =>
      simp only [numsC, List.cons_append, List.cons.injEq, true_and, List.append_assoc] at h
      obtain ⟨k₁, e₁⟩ := zpad_toList w₁ v₁
      obtain ⟨k₂, e₂⟩ := zpad_toList w₂ v₂
      rw [e₁, e₂] at h
      have hd : ∀ (w : Nat) (vs : List Int) (z : List Char), Tail z → HeadNot Char.isDigit (numsC w vs ++ z) := by
        intro w vs z hz
        cases vs with
        | nil => exact tail_headNot_digit hz
        | cons a l => intro c hc; simp only [numsC, List.cons_append, List.head?_cons, Option.some.injEq] at hc; subst hc; decide
      obtain ⟨rfl, h'⟩ := num_cancel k₁ k₂ v₁ v₂ _ _ (hd w₁ vs₁ x hx) (hd w₂ vs₂ y hy) h
      obtain ⟨rfl, rfl⟩ := ih vs₂ x y hx hy h'
      exact ⟨rfl, rfl⟩

theorem numsC_headNot_pfx (w : Nat) (vs : List Int) (x : List Char) (hx : Tail x) : HeadNot isPfxChar (numsC w vs ++ x) := by
  cases vs with
  | nil => exact tail_headNot_pfx hx
  | cons a l => intro c hc; simp only [numsC, List.cons_append, List.head?_cons, Option.some.injEq] at hc; subst hc; decide

/-- an item followed by nothing or a separator: the item and the remainder are determined -/
theorem itemC_cancel (a b : Nm × List Int) (x y : List Char) (hx : Tail x) (hy : Tail y)
    (h : itemC a ++ x = itemC b ++ y) : a = b ∧ x = y := by
  obtain ⟨n₁, vs₁⟩ := a
  obtain ⟨n₂, vs₂⟩ := b
  simp only [itemC, List.append_assoc] at h
  obtain ⟨hp, h'⟩ := block_cancel isPfxChar _ _ _ _ (pfx_chars n₁) (pfx_chars n₂)
    (numsC_headNot_pfx _ vs₁ x hx) (numsC_headNot_pfx _ vs₂ y hy) h
  have := pfx_inj _ _ hp
  subst this
  obtain ⟨rfl, rfl⟩ := numsC_cancel _ _ vs₁ vs₂ x y hx hy h'
  exact ⟨rfl, rfl⟩

theorem itemC_ne_nil (a : Nm × List Int) : itemC a ≠ [] := by
  intro h
  simp only [itemC, List.append_eq_nil_iff] at h
  exact pfx_ne_nil a.1 h.1

/-- what `itemsC` writes behind its first item -/
def restC : List (Nm × List Int) → List Char
  | [] => []
  | b :: r => '-' :: itemsC (b :: r)

theorem itemsC_cons (a : Nm × List Int) (r : List (Nm × List Int)) : itemsC (a :: r) = itemC a ++ restC r := by
  cases r <;> simp [itemsC, restC]

theorem tail_restC (r : List (Nm × List Int)) : Tail (restC r) := by
  cases r with
  | nil => exact Or.inl rfl
  | cons b r => exact Or.inr ⟨_, rfl⟩

/-- the text determines the items -/
theorem itemsC_inj : ∀ l₁ l₂ : List (Nm × List Int), itemsC l₁ = itemsC l₂ → l₁ = l₂ := by
  intro l₁
  induction l₁ with
  | nil =>
    intro l₂ h
    cases l₂ with
    | nil => rfl
    | cons b r =>
      rw [itemsC_cons] at h
      have : itemC b = [] := (List.append_eq_nil_iff.1 h.symm).1
      exact absurd this (itemC_ne_nil b)
  | cons a r₁ ih =>
    intro l₂ h
    cases l₂ with
    | nil =>
      rw [itemsC_cons] at h
      have : itemC a = [] := (List.append_eq_nil_iff.1 h).1
      exact absurd this (itemC_ne_nil a)
    | cons b r₂ =>
      rw [itemsC_cons, itemsC_cons] at h
      obtain ⟨rfl, h'⟩ := itemC_cancel a b _ _ (tail_restC r₁) (tail_restC r₂) h
      have : itemsC r₁ = itemsC r₂ := by
        cases r₁ <;> cases r₂ <;> simp [restC] at h' ⊢
        exact h'
      rw [ih r₂ this]

/-! ### tokens -/

def optItem (n : Nm) : Option Int → List (Nm × List Int)
  | some v => [(n, [v])]
  | Option.none => []

/-- the items of a token, in the order `render` writes them -/
def items : Tok → List (Nm × List Int)
  | .pad => [(.pad, [])] | .sta => [(.sta, [])] | .sto => [(.sto, [])] | .bar => [(.bar, [])]
  | .rest v => [(.rest, [v])] | .trk v => [(.trk, [v])] | .val v => [(.val, [v])] | .vel v => [(.vel, [v])]
  | .note t p v w => optItem .trk t ++ [(Nm.pit, [p])] ++ optItem .val v ++ optItem .vel w
  | .tsig n d => [(.tsg, [n, d])]

theorem items_inj (t₁ t₂ : Tok) (h : items t₁ = items t₂) : t₁ = t₂ := by
  rcases t₁ with _ | _ | _ | _ | v | v | v | v | ⟨(_ | a), b, (_ | c), (_ | d)⟩ | ⟨n, d⟩ <;>
    rcases t₂ with _ | _ | _ | _ | v' | v' | v' | v' | ⟨(_ | a'), b', (_ | c'), (_ | d')⟩ | ⟨n', d'⟩ <;>
    simp [items, optItem] at h ⊢ <;> (try exact h)

theorem render_toList (t : Tok) : (render t).toList = itemsC (items t) := by
  rcases t with _ | _ | _ | _ | v | v | v | v | ⟨(_ | a), b, (_ | c), (_ | d)⟩ | ⟨n, d⟩ <;>
    simp [render, items, optItem, itemsC, itemC, numsC, Nm.str, Nm.width, String.toList_append]

/-- `render` is injective on all tokens: the text determines the token -/
theorem render_inj (t₁ t₂ : Tok) (h : render t₁ = render t₂) : t₁ = t₂ := by
  apply items_inj
  apply itemsC_inj
  rw [← render_toList, ← render_toList, h]

end SCoda.DefsL
