/-
  Helper lemmas for the `Track` / `Composition` part of `Props/HeapTie.lean` (route (3), continued).
-/
import SCoda.Lemmas.HeapTieL
namespace SCoda.HeapTieL
open SCoda SCoda.HeapOps SCoda.HeapLib SCoda.Gen.HeapFns

/-! ## liveness is kept by reads of other sequences -/

theorem RelLive.seqLive {h : Heap} {s l : Nat} (hl : RelLive h s l) : SeqLive h s :=
  Or.inl ⟨hl.1, by simp [hl.2]⟩

theorem getRel_seq_other (o : Orc) (h : Heap) {s s' : Nat} (hne : s' ≠ s) : (getRel o h s).1.seq s' = h.seq s' := by
  unfold getRel
  simp only
  split
  · split
    · rfl
    · split
      · rfl
      · simp [Heap.setSeq, hne]
  · rfl

theorem seqLive_getRel (o : Orc) {h : Heap} {s s' : Nat} (hs : SeqLive h s) (hs' : SeqLive h s') :
    SeqLive (getRel o h s).1 s' := by
  by_cases hne : s' = s
  · subst hne
    obtain ⟨l, _, hl⟩ := getRel_some_of_seqLive o hs
    exact hl.seqLive
  · unfold SeqLive
    rw [getRel_seq_other o h hne]
    exact hs'

theorem sequenceRel_of_live (g : GOrc) (tag : Nat) {h : Heap} {s : Nat} (hl : SeqLive h s) :
    sequenceRel g tag s h = (.ok (getRel g.orc h s).2, (getRel g.orc h s).1) := by
  rw [sequenceRel_run]
  rcases hl with ⟨h1, h2⟩ | ⟨h1, h2, h3⟩
  · simp [h1, getRel]
  · obtain ⟨a, ha⟩ := Option.isSome_iff_exists.mp h3
    simp [h1, h2, ha]

/-- `[seq.rel for seq in sequences]` is `getRels` when every argument can be read -/
theorem mapM_sequenceRel (g : GOrc) (tag : Nat) : ∀ (ss : List Nat) (h : Heap), (∀ s ∈ ss, SeqLive h s) →
    ∃ ls, (getRels g.orc h ss).2 = some ls
      ∧ HM.mapM (fun seq_ => do let t3 ← sequenceRel g tag seq_; pure t3) ss h
          = (.ok (ls.map some), (getRels g.orc h ss).1) := by
  intro ss
  induction ss with
  | nil => intro h _; exact ⟨[], rfl, rfl⟩
  | cons s ss ih =>
    intro h hl
    have hs := hl s (by simp)
    obtain ⟨l, hg, _⟩ := getRel_some_of_seqLive g.orc hs
    have hrest : ∀ s' ∈ ss, SeqLive (getRel g.orc h s).1 s' := fun s' hs' => seqLive_getRel g.orc hs (hl s' (by simp [hs']))
    obtain ⟨ls, hls, hm⟩ := ih _ hrest
    refine ⟨l :: ls, by simp [getRels, hg, hls], ?_⟩
    simp only [HM.mapM, run_bind, sequenceRel_of_live g tag hs, bindRes_ok, run_pure, hm, getRels, hg, List.map_cons]

theorem mapM_deref_some {α : Type} : ∀ (ls : List α) (h : Heap), HM.mapM HM.deref (ls.map some) h = (.ok ls, h) := by
  intro ls
  induction ls with
  | nil => intro h; rfl
  | cons l ls ih => intro h; simp [HM.mapM, ih]

theorem loopSpec_extend (l : Nat) : ∀ (xs : List Nat) (b : PUnit) (h : Heap),
    loopSpec (fun _ b _ => b) (fun a h => h.setLst l (h.lst l ++ h.lst a)) xs b h = (b, extendView h l xs) := by
  intro xs
  induction xs with
  | nil => intro b h; rfl
  | cons a as ih => intro b h; simp [loopSpec, ih, extendView]

theorem relativeSequenceConcatenate_run (g : GOrc) (tag l : Nat) (args : List Nat) (h : Heap) :
    relativeSequenceConcatenate g tag l args h = (.ok (), extendView h l args) := by
  unfold relativeSequenceConcatenate
  simp only [run_bind]
  rw [forIn_run (step := fun _ b _ => b) (upd := fun a h' => h'.setLst l (h'.lst l ++ h'.lst a))]
  · simp [loopSpec_extend]
  · intro a b h'
    rfl

/-- `Sequence.concatenate(sequences)` is `concatenate` when the receiver and every argument can be read -/
theorem sequenceConcatenate_run (g : GOrc) (tag s : Nat) (args : List Nat) (h : Heap) (hs : SeqLive h s)
    (ha : ∀ a ∈ args, SeqLive h a) :
    sequenceConcatenate g tag s args h = (.ok (), concatenate g.orc h s args) := by
  obtain ⟨l, hg, _⟩ := getRel_some_of_seqLive g.orc hs
  have hrest : ∀ a ∈ args, SeqLive (getRel g.orc h s).1 a := fun a ha' => seqLive_getRel g.orc hs (ha a ha')
  obtain ⟨ls, hls, hm⟩ := mapM_sequenceRel g tag args _ hrest
  unfold sequenceConcatenate concatenate
  simp only [run_bind]
  rw [sequenceRel_deref]
  simp only [hg, run_bind, hm, bindRes_ok, mapM_deref_some, relativeSequenceConcatenate_run, sequenceInvalidateAbs_run, hls]

/-! ## `Bar.to_sequence`, `Track.__init__` -/

theorem loopSpec_collect : ∀ (xs b : List Nat) (h : Heap),
    loopSpec (fun a b h => b ++ [(h.bar a).seq]) (fun _ h => h) xs b h = (b ++ xs.map (fun a => (h.bar a).seq), h) := by
  intro xs
  induction xs with
  | nil => intro b h; simp [loopSpec]
  | cons a as ih => intro b h; simp [loopSpec, ih]

theorem seqInit_seq_lt (h : Heap) (a r : Option Nat) {s : Nat} (hs : s < h.nSeq) : (seqInit h a r).1.seq s = h.seq s := by
  have : s ≠ h.nSeq := by omega
  cases a <;> cases r <;> simp [seqInit, Heap.newSeq, Heap.newLst, this]

theorem seqLive_new (h : Heap) : SeqLive (seqInit h none none).1 h.nSeq := by
  simp [SeqLive, seqInit, Heap.newSeq, Heap.newLst]

/-- `Bar.to_sequence(bars)` is `barsToSequence` when the sequences of the bars exist and can be read -/
theorem barToSequence_run (g : GOrc) (tag : Nat) (bars : List Nat) (h : Heap)
    (hb : ∀ b ∈ bars, (h.bar b).seq < h.nSeq ∧ SeqLive h (h.bar b).seq) :
    barToSequence g tag bars h = (.ok (barsToSequence g.orc h bars).2, (barsToSequence g.orc h bars).1) := by
  unfold barToSequence barsToSequence
  simp only [run_bind, run_newSequence, bindRes_ok, sequenceNew_run, seqInit_snd]
  rw [forIn_run (step := fun a b h => b ++ [(h.bar a).seq]) (upd := fun _ h => h)]
  · simp only [loopSpec_collect, List.nil_append, bindRes_ok, run_bind]
    rw [sequenceConcatenate_run g tag _ _ _ (seqLive_new h)]
    · simp
    · intro a ha
      obtain ⟨b, hbm, rfl⟩ := List.mem_map.mp ha
      have := hb b hbm
      simp only [seqInit_bar]
      unfold SeqLive
      rw [seqInit_seq_lt h none none this.1]
      exact this.2
  · intro a b h'
    rfl

@[simp] theorem convView_trk (f : List Msg → List Msg) (h : Heap) (l : Nat) : (convView f h l).1.trk = h.trk := by
  simp [convView, Heap.newLst, (newMsgs_frame _ h).2.2.2.1]

@[simp] theorem getRel_trk (o : Orc) (h : Heap) (s : Nat) : (getRel o h s).1.trk = h.trk := by
  unfold getRel
  simp only
  split
  · split
    · rfl
    · split <;> simp [Heap.setSeq]
  · rfl

theorem getRels_trk (o : Orc) : ∀ (ss : List Nat) (h : Heap), (getRels o h ss).1.trk = h.trk := by
  intro ss
  induction ss with
  | nil => intro h; rfl
  | cons s ss ih =>
    intro h
    simp only [getRels]
    split
    · simp
    · simp [ih]

theorem extendView_trk (l : Nat) : ∀ (as : List Nat) (h : Heap), (extendView h l as).trk = h.trk := by
  intro as
  induction as with
  | nil => intro h; rfl
  | cons a as ih => intro h; simp [extendView, ih, Heap.setLst]

theorem concatenate_trk (o : Orc) (h : Heap) (s : Nat) (args : List Nat) : (concatenate o h s args).trk = h.trk := by
  unfold concatenate
  simp only
  split
  · simp
  · split
    · simp [getRels_trk]
    · simp [invalidateAbs, Heap.setSeq, extendView_trk, getRels_trk]

theorem withRel_trk (o : Orc) (h : Heap) (s : Nat) {f : Heap → Nat → Heap} (hf : ViewLevel f) : (withRel o h s f).trk = h.trk := by
  unfold withRel
  simp only
  split
  · simp
  · simp [invalidateAbs, Heap.setSeq, (hf _ _).2.2.1]

theorem seqInit_trk (h : Heap) (a r : Option Nat) : (seqInit h a r).1.trk = h.trk := by
  cases a <;> cases r <;> rfl

theorem getRels_seq_other (o : Orc) : ∀ (ss : List Nat) (h : Heap) (s : Nat), s ∉ ss → (getRels o h ss).1.seq s = h.seq s := by
  intro ss
  induction ss with
  | nil => intro h s _; rfl
  | cons a ss ih =>
    intro h s hs
    have h1 : s ≠ a := fun e => hs (by simp [e])
    have h2 : s ∉ ss := fun e => hs (by simp [e])
    simp only [getRels]
    split
    · exact getRel_seq_other o h h1
    · rw [ih _ _ h2, getRel_seq_other o h h1]

theorem extendView_seq (l : Nat) : ∀ (as : List Nat) (h : Heap), (extendView h l as).seq = h.seq := by
  intro as
  induction as with
  | nil => intro h; rfl
  | cons a as ih => intro h; simp [extendView, ih, Heap.setLst]

theorem firstProgram_map (f : Nat → Msg) (ids : List Nat) :
    firstProgram (ids.map f) = match ids.filter (fun i => (f i).ty == MType.programChange) with
      | i :: _ => (f i).prog
      | [] => pyNone := by
  unfold firstProgram
  rw [List.filter_map]
  cases hf : ids.filter ((fun m => m.ty == MType.programChange) ∘ f) with
  | nil =>
    have : ids.filter (fun i => (f i).ty == MType.programChange) = [] := hf
    simp [this]
  | cons i r =>
    have : ids.filter (fun i => (f i).ty == MType.programChange) = i :: r := hf
    simp [this]

theorem relLive_getRel (o : Orc) {h : Heap} {s l : Nat} (hl : RelLive h s l) (a : Nat) : RelLive (getRel o h a).1 s l := by
  by_cases hne : s = a
  · subst hne; rw [getRel_of_live hl]; exact hl
  · unfold RelLive; rw [getRel_seq_other o h hne]; exact hl

theorem relLive_getRels (o : Orc) : ∀ (ss : List Nat) (h : Heap) {s l : Nat}, RelLive h s l → RelLive (getRels o h ss).1 s l := by
  intro ss
  induction ss with
  | nil => intro h s l hl; exact hl
  | cons a ss ih =>
    intro h s l hl
    simp only [getRels]
    split
    · exact relLive_getRel o hl a
    · exact ih _ (relLive_getRel o hl a)

theorem concatenate_live (g : GOrc) {h : Heap} {s : Nat} {args : List Nat} (hs : SeqLive h s) (ha : ∀ a ∈ args, SeqLive h a) :
    ∃ l, RelLive (concatenate g.orc h s args) s l := by
  obtain ⟨l, hg, hl⟩ := getRel_some_of_seqLive g.orc hs
  have hrest : ∀ a ∈ args, SeqLive (getRel g.orc h s).1 a := fun a ha' => seqLive_getRel g.orc hs (ha a ha')
  obtain ⟨ls, hls, _⟩ := mapM_sequenceRel g 0 args _ hrest
  refine ⟨l, ?_⟩
  unfold concatenate
  simp only [hg, hls]
  apply relLive_invalidateAbs
  unfold RelLive
  rw [extendView_seq]
  exact relLive_getRels g.orc args _ hl

@[simp] theorem trk_setTrk (h : Heap) (i : Nat) (c : TrkCell) : (h.setTrk i c).trk i = c := by simp [Heap.setTrk]
@[simp] theorem setTrk_setTrk (h : Heap) (i : Nat) (c c' : TrkCell) : (h.setTrk i c).setTrk i c' = h.setTrk i c' := by
  simp only [Heap.setTrk]; congr 1; funext j; split <;> rfl
@[simp] theorem setTrk_newTrk (h : Heap) (c c' : TrkCell) : (h.newTrk c).1.setTrk h.nTrk c' = (h.newTrk c').1 := by
  simp only [Heap.setTrk, Heap.newTrk]; congr 1; funext j; split <;> rfl
@[simp] theorem trk_newTrk (h : Heap) (c : TrkCell) : (h.newTrk c).1.trk h.nTrk = c := by simp [Heap.newTrk]
theorem setTrk_self (h : Heap) (i : Nat) : h.setTrk i (h.trk i) = h := by
  cases h; simp only [Heap.setTrk]; congr 1; funext j; split <;> simp_all

theorem getRels_orcOf (g : GOrc) : ∀ (ss : List Nat) (h : Heap), getRels (orcOf g) h ss = getRels g.orc h ss := by
  intro ss
  induction ss with
  | nil => intro h; rfl
  | cons s ss ih => intro h; simp only [getRels, getRel_orcOf, ih]

theorem barsToSequence_orcOf (g : GOrc) (h : Heap) (bs : List Nat) : barsToSequence (orcOf g) h bs = barsToSequence g.orc h bs := by
  simp only [barsToSequence, concatenate, getRel_orcOf, getRels_orcOf]

/-- `Track(bars, name)`: the blank cell, then the translated `Track.__init__`, is `trkInit` under `orcOf g`, when the
    sequences of the bars exist and can be read -/
theorem trackNew_run (g : GOrc) (tag : Nat) (bars : List Nat) (name : Int) (h : Heap)
    (hb : ∀ b ∈ bars, (h.bar b).seq < h.nSeq ∧ SeqLive h (h.bar b).seq) :
    trackInit g tag h.nTrk bars name (h.newTrk {}).1 = (.ok (), (trkInit (orcOf g) tag h bars name).1) := by
  have horc := barsToSequence_orcOf g
  have hsnd : ∀ c, (h.newTrk c).2 = h.nTrk := fun _ => rfl
  unfold trackInit trkInit
  simp only [run_bind, run_modify, bindRes_ok, setTrk_newTrk, trk_newTrk, horc, hsnd]
  generalize ht : (h.newTrk { bars := bars, name := name, program := pyNone }).1 = t0
  have hb0 : ∀ b ∈ bars, (t0.bar b).seq < t0.nSeq ∧ SeqLive t0 (t0.bar b).seq := by rw [← ht]; exact hb
  have htrk : t0.trk h.nTrk = { bars := bars, name := name, program := pyNone } := by rw [← ht]; simp
  rw [barToSequence_run g tag bars t0 hb0]
  -- the new sequence after `concatenate` can be read
  have hargs : ∀ a ∈ bars.map (fun b => ((seqInit t0 none none).1.bar b).seq), SeqLive (seqInit t0 none none).1 a := by
    intro a ha
    obtain ⟨b, hbm, rfl⟩ := List.mem_map.mp ha
    have := hb0 b hbm
    simp only [seqInit_bar]
    unfold SeqLive
    rw [seqInit_seq_lt t0 none none this.1]
    exact this.2
  obtain ⟨l, hl⟩ := concatenate_live g (seqLive_new t0) hargs
  have hsn : (seqInit t0 none none).2 = t0.nSeq := seqInit_snd none none t0
  have hc : (barsToSequence g.orc t0 bars) = (concatenate g.orc (seqInit t0 none none).1 t0.nSeq
      (bars.map (fun b => ((seqInit t0 none none).1.bar b).seq)), t0.nSeq) := by
    simp [barsToSequence, hsn]
  have hctrk : (barsToSequence g.orc t0 bars).1.trk = t0.trk := by
    rw [hc]; simp [concatenate_trk, seqInit_trk]
  rw [hc] at hctrk ⊢
  generalize concatenate g.orc (seqInit t0 none none).1 t0.nSeq (bars.map (fun b => ((seqInit t0 none none).1.bar b).seq)) = hcat at *
  have hgr := getRel_of_live (o := g.orc) hl
  simp only [bindRes_ok, run_bind]
  rw [sequenceMessagesRel_run g tag t0.nSeq l hcat (by rw [hgr])]
  have hit : iterRel g.orc hcat t0.nSeq = invalidateAbs hcat t0.nSeq := by
    unfold iterRel; rw [withRel_of_live hl]
  have hlive2 := relLive_invalidateAbs hl
  simp only [bindRes_ok, run_bind, run_get, hgr, iterRel_orcOf, hit]
  have hvals : optVals (invalidateAbs hcat t0.nSeq) ((invalidateAbs hcat t0.nSeq).seq t0.nSeq).rel
      = (hcat.lst l).map (invalidateAbs hcat t0.nSeq).msg := by
    simp [optVals, hl.2, Heap.viewVals, Heap.vals, invalidateAbs, Heap.setSeq]
  have hprog : (orcOf g).program tag (optVals (invalidateAbs hcat t0.nSeq) ((invalidateAbs hcat t0.nSeq).seq t0.nSeq).rel)
      = match (hcat.lst l).filter (fun i => ((invalidateAbs hcat t0.nSeq).msg i).ty == MType.programChange) with
        | i :: _ => ((invalidateAbs hcat t0.nSeq).msg i).prog
        | [] => pyNone := by
    rw [hvals]; simp only [orcOf]; exact firstProgram_map _ _
  rw [hprog]
  have htrk2 : (invalidateAbs hcat t0.nSeq).trk h.nTrk = { bars := bars, name := name, program := pyNone } := by
    have : (invalidateAbs hcat t0.nSeq).trk = hcat.trk := rfl
    rw [this, hctrk, htrk]
  cases hpc : (hcat.lst l).filter (fun i => ((invalidateAbs hcat t0.nSeq).msg i).ty == MType.programChange) with
  | nil =>
    simp only [List.length_nil, Nat.lt_irrefl, decide_false, Bool.false_eq_true, if_false, run_pure]
    have : ({ (invalidateAbs hcat t0.nSeq).trk h.nTrk with program := pyNone } : TrkCell) = (invalidateAbs hcat t0.nSeq).trk h.nTrk := by
      rw [htrk2]
    rw [this, setTrk_self]
  | cons i r =>
    simp [HM.index]

/-! ## what `Bar.copy` leaves behind: a bar whose sequence can be read -/

theorem withRel_live (o : Orc) {h : Heap} {s : Nat} (hs : SeqLive h s) {f : Heap → Nat → Heap} (hf : ViewLevel f) :
    ∃ l, RelLive (withRel o h s f) s l := by
  obtain ⟨l, hg, hl⟩ := getRel_some_of_seqLive o hs
  refine ⟨l, ?_⟩
  unfold withRel
  simp only [hg]
  exact relLive_invalidateAbs (relLive_viewLevel hf hl l)

theorem relLive_withRel (o : Orc) {h : Heap} {s l : Nat} (hl : RelLive h s l) {f : Heap → Nat → Heap} (hf : ViewLevel f) :
    RelLive (withRel o h s f) s l := by
  rw [withRel_of_live hl]
  exact relLive_invalidateAbs (relLive_viewLevel hf hl l)

theorem barFinish_bar (o : Orc) (tag : Nat) (h : Heap) (s l : Nat) (num den : Int) : (barFinish o tag h s l num den).bar = h.bar := by
  simp [barFinish]

theorem barBody_bar (o : Orc) (tag : Nat) (h : Heap) (s : Nat) (num den : Int) : (barBody o tag h s num den).bar = h.bar := by
  unfold barBody
  simp only
  split
  · simp [withRel_bar _ _ _ (viewLevel_pad _)]
  · simp [barFinish_bar, withRel_bar _ _ _ (viewLevel_pad _)]

theorem barBody_live (o : Orc) (tag : Nat) {h : Heap} {s : Nat} (num den : Int) (hs : SeqLive h s) :
    SeqLive (barBody o tag h s num den) s := by
  obtain ⟨l1, h1⟩ := withRel_live o hs (viewLevel_rebuild (o.plan tag))
  have h2 := relLive_withRel o h1 viewLevel_id
  have h3 := relLive_withRel o h2 (viewLevel_pad (o.barPadMsg (mix tag 1)))
  have h4 := relLive_withRel o h3 viewLevel_id
  unfold barBody normalise iterRel
  simp only [getRel_of_live h4]
  unfold barFinish addRel
  exact (relLive_invalidateAbs (relLive_withRel o (relLive_newMsg (relLive_overwriteRel _ _ _) _) (viewLevel_insert _ _))).seqLive

/-- a bar that `Bar.copy` can copy, in the state every public constructor and in-place mutator of the relative view leaves it
    in: it exists, its sequence exists and satisfies `SeqCopyOk`, and the RELATIVE VIEW of its sequence IS NOT STALE — `Bar.copy`
    reads it through `self.sequence.rel` (bar.py:59), which is then a plain read.  (For a stale relative view the read
    regenerates it in the SOURCE: `HeapOps.barCopy` models that — `readRel` —, the region theorems of C16c cover it
    (`derive_fresh_barCopy`), the equality with the translation is proved for the fresh case only.) -/
def BarOk (h : Heap) (b : Nat) : Prop :=
  b < h.nBar ∧ (h.bar b).seq < h.nSeq ∧ SeqCopyOk h (h.bar b).seq ∧ (h.seq (h.bar b).seq).relStale = false

/-- a bar whose sequence exists and can be read through `rel` -/
def NewBarOk (h : Heap) (b : Nat) : Prop := b < h.nBar ∧ (h.bar b).seq < h.nSeq ∧ SeqLive h (h.bar b).seq

theorem SeqCopyOk.ext {h h' : Heap} (e : Ext h h') {s : Nat} (hs : s < h.nSeq) (hok : SeqCopyOk h s) : SeqCopyOk h' s := by
  unfold SeqCopyOk
  rw [e.seq hs]
  exact ⟨fun hf => let ⟨a, ha, va⟩ := hok.1 hf; ⟨a, ha, va.ext e⟩, fun hf => let ⟨r, hr, vr⟩ := hok.2 hf; ⟨r, hr, vr.ext e⟩⟩

theorem BarOk.ext {h h' : Heap} (e : Ext h h') {b : Nat} (hok : BarOk h b) : BarOk h' b := by
  unfold BarOk
  rw [e.bar hok.1]
  exact ⟨Nat.lt_of_lt_of_le hok.1 (e.1 .bar), Nat.lt_of_lt_of_le hok.2.1 (e.1 .seq), hok.2.2.1.ext e hok.2.1,
    by rw [e.seq hok.2.1]; exact hok.2.2.2⟩

theorem NewBarOk.ext {h h' : Heap} (e : Ext h h') {b : Nat} (hok : NewBarOk h b) : NewBarOk h' b := by
  unfold NewBarOk SeqLive
  rw [e.bar hok.1, e.seq hok.2.1]
  exact ⟨Nat.lt_of_lt_of_le hok.1 (e.1 .bar), Nat.lt_of_lt_of_le hok.2.1 (e.1 .seq), hok.2.2⟩

/-- reading a relative view that is not stale changes nothing -/
theorem readRel_of_fresh (o : Orc) {h : Heap} {s : Nat} (hf : (h.seq s).relStale = false) : readRel o h s = h := by
  simp [readRel, getRel, hf]

/-- `Bar.copy()` of a bar whose relative view is not stale: copy the sequence, construct a bar on the copy -/
theorem barCopy_of_fresh (o : Orc) (tag : Nat) {h : Heap} {b : Nat} (hf : (h.seq (h.bar b).seq).relStale = false) :
    HeapOps.barCopy o tag h b
      = HeapOps.barInit o tag (seqCopy h (h.bar b).seq).1 (seqCopy h (h.bar b).seq).2 (h.bar b).num (h.bar b).den (h.bar b).key := by
  rw [HeapL.barCopy_eq, readRel_of_fresh o hf]

/-- … and then it respects every good region with no hypothesis on the source (nothing that existed is written) -/
theorem barCopy_spec_fresh {X : HeapL.Region} (o : Orc) (tag : Nat) {h : Heap} {b : Nat} (hg : HeapL.Good X h)
    (hf : (h.seq (h.bar b).seq).relStale = false) :
    HeapL.Spec X h (HeapOps.barCopy o tag h b).1 ∧ HeapL.In X (HeapOps.barCopy o tag h b).1 (.bar, (HeapOps.barCopy o tag h b).2) := by
  rw [barCopy_of_fresh o tag hf]
  exact HeapL.barCopyFrom_spec (o := o) hg tag _ _ _ _

theorem barCopy_post (o : Orc) (tag : Nat) {h : Heap} {b : Nat} (hok : BarOk h b) :
    Ext h (HeapOps.barCopy o tag h b).1 ∧ NewBarOk (HeapOps.barCopy o tag h b).1 (HeapOps.barCopy o tag h b).2 := by
  obtain ⟨sp, hin⟩ := barCopy_spec_fresh o tag (HeapL.good_fresh h) hok.2.2.2
  have hseqin := HeapL.bar_seq_in sp.good hin
  refine ⟨Ext.of_spec sp, hin.2, hseqin.2, ?_⟩
  have hlive := seqCopy_live h (h.bar b).seq hok.2.2.1
  rw [barCopy_of_fresh o tag hok.2.2.2]
  unfold HeapOps.barInit
  simp only [barBody_bar, newBar_snd, bar_newBar]
  exact barBody_live o tag (h := ((seqCopy h (h.bar b).seq).1.newBar
      { seq := (seqCopy h (h.bar b).seq).2, num := (h.bar b).num, den := (h.bar b).den, key := (h.bar b).key }).1)
      (h.bar b).num (h.bar b).den hlive

/-! ## `Track.copy`, `Composition.copy` -/

theorem barCopy_run (g : GOrc) (tag b : Nat) (h : Heap) (hok : SeqCopyOk h (h.bar b).seq)
    (hf : (h.seq (h.bar b).seq).relStale = false) :
    Gen.HeapFns.barCopy g tag b h
      = (.ok (HeapOps.barCopy (orcOf g) tag h b).2, (HeapOps.barCopy (orcOf g) tag h b).1) := by
  rw [barCopy_of_fresh (orcOf g) tag hf]
  unfold Gen.HeapFns.barCopy
  have hlive := seqCopy_live h (h.bar b).seq hok
  obtain ⟨r, hr, _⟩ := hok.2 hf
  have hrel : sequenceRel g tag (h.bar b).seq h = (.ok (some r), h) := by
    rw [sequenceRel_run]; simp [hf, hr, getRel]
  simp only [run_bind, run_get, bindRes_ok, hrel, run_deref_some, sequenceCopy_run g tag _ h hok, newBarObj, run_alloc, newBar_snd,
    seqCopy_bar, barNew_run g tag _ _ _ _ _ hlive, run_pure]
  rfl

theorem barCopies_post (o : Orc) : ∀ (bs : List Nat) (tag : Nat) (h : Heap), (∀ b ∈ bs, BarOk h b) →
    Ext h (barCopies o tag h bs).1 ∧ ∀ nb ∈ (barCopies o tag h bs).2, NewBarOk (barCopies o tag h bs).1 nb := by
  intro bs
  induction bs with
  | nil => intro tag h _; exact ⟨Ext.refl h, by simp [barCopies]⟩
  | cons b bs ih =>
    intro tag h hok
    obtain ⟨e1, n1⟩ := barCopy_post o tag (hok b (by simp))
    obtain ⟨e2, n2⟩ := ih (mix tag 3) _ (fun b' hb' => (hok b' (by simp [hb'])).ext e1)
    refine ⟨e1.trans e2, ?_⟩
    intro nb hnb
    simp only [barCopies, List.mem_cons] at hnb
    rcases hnb with rfl | hnb
    · exact n1.ext e2
    · exact n2 nb hnb

/-- `[bar.copy() for bar in bars]` is `barCopies` (the successive copies get the tags `tag`, `mix tag 3`, …) -/
theorem mapTag_barCopy (g : GOrc) : ∀ (bs : List Nat) (tag : Nat) (h : Heap), (∀ b ∈ bs, BarOk h b) →
    HM.mapTag (fun tag bar_ => do let t2 ← Gen.HeapFns.barCopy g tag bar_; pure t2) 3 tag bs h
      = (.ok (barCopies (orcOf g) tag h bs).2, (barCopies (orcOf g) tag h bs).1) := by
  intro bs
  induction bs with
  | nil => intro tag h _; rfl
  | cons b bs ih =>
    intro tag h hok
    obtain ⟨e1, _⟩ := barCopy_post (orcOf g) tag (hok b (by simp))
    have hrest := ih (mix tag 3) _ (fun b' hb' => (hok b' (by simp [hb'])).ext e1)
    simp only [HM.mapTag, run_bind, barCopy_run g tag b h (hok b (by simp)).2.2.1 (hok b (by simp)).2.2.2, bindRes_ok, run_pure, hrest, barCopies]

/-- `[bar.copy() for bar in bars]` of bars whose relative views are not stale respects every good region -/
theorem barCopies_spec_ok {X : HeapL.Region} (o : Orc) : ∀ (bs : List Nat) (tag : Nat) (h : Heap), HeapL.Good X h → (∀ b ∈ bs, BarOk h b) →
    HeapL.Spec X h (barCopies o tag h bs).1 ∧ ∀ nb ∈ (barCopies o tag h bs).2, HeapL.In X (barCopies o tag h bs).1 (.bar, nb) := by
  intro bs
  induction bs with
  | nil => intro tag h hg _; exact ⟨HeapL.Spec.refl hg, by simp [barCopies]⟩
  | cons b bs ih =>
    intro tag h hg hok
    obtain ⟨s1, i1⟩ := barCopy_spec_fresh (X := X) o tag hg (hok b (by simp)).2.2.2
    obtain ⟨e1, _⟩ := barCopy_post o tag (hok b (by simp))
    obtain ⟨s2, i2⟩ := ih (mix tag 3) _ s1.good (fun b' hb' => (hok b' (by simp [hb'])).ext e1)
    refine ⟨s1.trans s2, ?_⟩
    intro c hc
    simp only [barCopies, List.mem_cons] at hc
    rcases hc with rfl | hc
    · exact i1.mono s2.pres
    · exact i2 c hc

/-- a track that `Track.copy` can copy: it exists and its bars satisfy `BarOk` -/
def TrkOk (h : Heap) (t : Nat) : Prop := t < h.nTrk ∧ ∀ b ∈ (h.trk t).bars, BarOk h b

theorem TrkOk.ext {h h' : Heap} (e : Ext h h') {t : Nat} (hok : TrkOk h t) : TrkOk h' t := by
  unfold TrkOk
  rw [e.trk hok.1]
  exact ⟨Nat.lt_of_lt_of_le hok.1 (e.1 .trk), fun b hb => (hok.2 b hb).ext e⟩

@[simp] theorem newTrk_snd (h : Heap) (c : TrkCell) : (h.newTrk c).2 = h.nTrk := rfl

/-- `Track.copy()` is `trkCopy` under `orcOf g` -/
theorem trackCopy_run (g : GOrc) (tag t : Nat) (h : Heap) (hok : TrkOk h t) :
    trackCopy g tag t h = (.ok (trkCopy (orcOf g) tag h t).2, (trkCopy (orcOf g) tag h t).1) := by
  obtain ⟨e, hn⟩ := barCopies_post (orcOf g) (h.trk t).bars tag h hok.2
  unfold trackCopy trkCopy
  simp only [run_bind, run_get, bindRes_ok, mapTag_barCopy g _ tag h hok.2, e.trk hok.1, newTrack, run_alloc, newTrk_snd,
    trackNew_run g (mix tag 4) _ _ _ (fun b hb => (hn b hb).2), run_pure]
  rfl

/-- `Track.copy()` of a track whose bars' relative views are not stale respects every good region -/
theorem trkCopy_spec_ok {X : HeapL.Region} (o : Orc) (tag : Nat) {h : Heap} {t : Nat} (hg : HeapL.Good X h) (hok : TrkOk h t) :
    HeapL.Spec X h (trkCopy o tag h t).1 ∧ HeapL.In X (trkCopy o tag h t).1 (.trk, (trkCopy o tag h t).2) := by
  obtain ⟨s1, i1⟩ := barCopies_spec_ok (X := X) o (h.trk t).bars tag h hg hok.2
  obtain ⟨s2, i2⟩ := HeapL.trkInit_spec (o := o) s1.good (mix tag 4) _ (h.trk t).name i1
  exact ⟨s1.trans s2, i2⟩

theorem trkCopy_ext (o : Orc) (tag : Nat) (h : Heap) (t : Nat) (hok : TrkOk h t) : Ext h (trkCopy o tag h t).1 :=
  Ext.of_spec (trkCopy_spec_ok o tag (HeapL.good_fresh h) hok).1

/-- `[track.copy() for track in tracks]` is `trkCopies` (tags `tag`, `mix tag 5`, …) -/
theorem mapTag_trackCopy (g : GOrc) : ∀ (ts : List Nat) (tag : Nat) (h : Heap), (∀ t ∈ ts, TrkOk h t) →
    HM.mapTag (fun tag track_ => do let t2 ← trackCopy g tag track_; pure t2) 5 tag ts h
      = (.ok (trkCopies (orcOf g) tag h ts).2, (trkCopies (orcOf g) tag h ts).1) := by
  intro ts
  induction ts with
  | nil => intro tag h _; rfl
  | cons t ts ih =>
    intro tag h hok
    have e1 := trkCopy_ext (orcOf g) tag h t (hok t (by simp))
    have hrest := ih (mix tag 5) _ (fun t' ht' => (hok t' (by simp [ht'])).ext e1)
    simp only [HM.mapTag, run_bind, trackCopy_run g tag t h (hok t (by simp)), bindRes_ok, run_pure, hrest, trkCopies]

@[simp] theorem setCmp_newCmp (h : Heap) (c c' : List Nat) : (h.newCmp c).1.setCmp h.nCmp c' = (h.newCmp c').1 := by
  simp only [Heap.setCmp, Heap.newCmp]; congr 1; funext j; split <;> rfl

/-- `Composition.copy()` is `cmpCopy` under `orcOf g` -/
theorem compositionCopy_run (g : GOrc) (tag c : Nat) (h : Heap) (hok : ∀ t ∈ h.cmp c, TrkOk h t) :
    compositionCopy g tag c h = (.ok (cmpCopy (orcOf g) tag h c).2, (cmpCopy (orcOf g) tag h c).1) := by
  unfold compositionCopy cmpCopy compositionInit newComposition
  simp only [run_bind, run_get, bindRes_ok, mapTag_trackCopy g _ tag h hok, run_alloc, run_modify, run_pure]
  have hs : ∀ (x : Heap) (l : List Nat), (x.newCmp l).2 = x.nCmp := fun _ _ => rfl
  simp only [hs, setCmp_newCmp]

/-! ## the hypotheses are decidable conditions on the input heap -/

instance (h : Heap) (ids : List Nat) : Decidable (IdsOk h ids) := by unfold IdsOk; infer_instance
instance (h : Heap) (l : Nat) : Decidable (ViewOk h l) := by unfold ViewOk; infer_instance

/-- `SeqCopyOk` without the existential -/
def optViewOk (h : Heap) : Option Nat → Prop
  | some a => ViewOk h a
  | none => False

instance (h : Heap) (v : Option Nat) : Decidable (optViewOk h v) := by
  cases v <;> unfold optViewOk <;> infer_instance

theorem seqCopyOk_iff (h : Heap) (s : Nat) :
    SeqCopyOk h s ↔ (((h.seq s).absStale = false → optViewOk h (h.seq s).abs) ∧ ((h.seq s).relStale = false → optViewOk h (h.seq s).rel)) := by
  unfold SeqCopyOk
  constructor
  · rintro ⟨ha, hr⟩
    exact ⟨fun hf => by obtain ⟨a, e, v⟩ := ha hf; rw [e]; exact v, fun hf => by obtain ⟨r, e, v⟩ := hr hf; rw [e]; exact v⟩
  · rintro ⟨ha, hr⟩
    refine ⟨fun hf => ?_, fun hf => ?_⟩
    · have := ha hf
      cases e : (h.seq s).abs with
      | none => rw [e] at this; exact this.elim
      | some a => rw [e] at this; exact ⟨a, rfl, this⟩
    · have := hr hf
      cases e : (h.seq s).rel with
      | none => rw [e] at this; exact this.elim
      | some r => rw [e] at this; exact ⟨r, rfl, this⟩

instance (h : Heap) (s : Nat) : Decidable (SeqCopyOk h s) := decidable_of_iff _ (seqCopyOk_iff h s).symm
instance (h : Heap) (b : Nat) : Decidable (BarOk h b) := by unfold BarOk; infer_instance
instance (h : Heap) (t : Nat) : Decidable (TrkOk h t) := by unfold TrkOk; infer_instance

theorem trkCopies_spec_ok {X : HeapL.Region} (o : Orc) : ∀ (ts : List Nat) (tag : Nat) (h : Heap), HeapL.Good X h → (∀ t ∈ ts, TrkOk h t) →
    HeapL.Spec X h (trkCopies o tag h ts).1 ∧ ∀ nt ∈ (trkCopies o tag h ts).2, HeapL.In X (trkCopies o tag h ts).1 (.trk, nt) := by
  intro ts
  induction ts with
  | nil => intro tag h hg _; exact ⟨HeapL.Spec.refl hg, by simp [trkCopies]⟩
  | cons t ts ih =>
    intro tag h hg hok
    obtain ⟨s1, i1⟩ := trkCopy_spec_ok (X := X) o tag hg (hok t (by simp))
    have e1 := trkCopy_ext o tag h t (hok t (by simp))
    obtain ⟨s2, i2⟩ := ih (mix tag 5) _ s1.good (fun t' ht' => (hok t' (by simp [ht'])).ext e1)
    refine ⟨s1.trans s2, ?_⟩
    intro c hc
    simp only [trkCopies, List.mem_cons] at hc
    rcases hc with rfl | hc
    · exact i1.mono s2.pres
    · exact i2 c hc

/-- `Composition.copy()` of a composition whose bars' relative views are not stale respects every good region -/
theorem cmpCopy_spec_ok {X : HeapL.Region} (o : Orc) (tag : Nat) {h : Heap} {c : Nat} (hg : HeapL.Good X h) (hok : ∀ t ∈ h.cmp c, TrkOk h t) :
    HeapL.Spec X h (cmpCopy o tag h c).1 ∧ HeapL.In X (cmpCopy o tag h c).1 (.cmp, (cmpCopy o tag h c).2) := by
  obtain ⟨s1, i1⟩ := trkCopies_spec_ok (X := X) o (h.cmp c) tag h hg hok
  obtain ⟨s2, i2, _⟩ := HeapL.newCmp_spec s1.good _ i1
  exact ⟨s1.trans s2, i2⟩

end SCoda.HeapTieL
