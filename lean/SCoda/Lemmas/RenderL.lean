/-
  Lemmas about the string layer of the tokeniser model (`Model/Render.lean`): `render`, `parseTok`.

  Part 1: the legacy `String.splitOn` with a one-character separator is `List.splitOn` on the
          character list (core only has this for the new `String.split`; Batteries leaves
          `splitOn` as a TODO).  Proof modelled on Batteries' `String.splitAux_of_valid`.
  Part 2: `zpad` of a natural number is a non-empty string of digits that `pyInt?` reads back.
  Part 3: the facts about the generated prefix table (`Gen.tokenPrefixes`), all by `decide`.
  Part 4: per constructor, `parseTok (render t) = .ok t` for natural-number fields.
-/
import SCoda.Model.Render
import SCoda.Lemmas.Vocab
import Batteries.Data.String.Lemmas
import Std.Data.String.ToInt
set_option linter.deprecated false

namespace SCoda.RenderL
open SCoda String String.Pos.Raw

/-! ### Part 1: `String.splitOn` on a one-character separator -/

theorem get_singleton_zero (c : Char) : Pos.Raw.get (singleton c) 0 = c := by
  simpa using get_of_valid [] [c]

theorem next_singleton_zero (c : Char) : Pos.Raw.next (singleton c) 0 = ⟨c.utf8Size⟩ := by
  simpa using next_of_valid [] c []

theorem rawEndPos_singleton (c : Char) : (singleton c).rawEndPos = ⟨c.utf8Size⟩ := by
  have := rawEndPos_ofList (cs := [c])
  simpa using this

/-- the loop of `String.splitOn` for a one-character separator, at a valid position -/
theorem splitOnAux_char_of_valid (c : Char) (l m r : List Char) (acc : List String) :
    splitOnAux (ofList (l ++ m ++ r)) (String.singleton c) ⟨utf8Len l⟩ ⟨utf8Len l + utf8Len m⟩ 0 acc =
      acc.reverse ++ (List.splitOnPPrepend (· == c) r m.reverse).map ofList := by
  unfold splitOnAux
  simp only [List.append_assoc, atEnd_iff, rawEndPos_ofList, utf8Len_append, Pos.Raw.mk_le_mk,
    Nat.add_le_add_iff_left, (by omega : utf8Len m + utf8Len r ≤ utf8Len m ↔ utf8Len r = 0),
    utf8Len_eq_zero, List.reverse_cons]
  split
  · subst r
    simpa using extract_of_valid l m []
  · obtain ⟨d, r, rfl⟩ := r.exists_cons_of_ne_nil ‹_›
    simp only [by
      simpa [-ofList_append] using
        (⟨get_of_valid (l ++ m) (d :: r), next_of_valid (l ++ m) d r,
            extract_of_valid l m (d :: r)⟩ :
          _ ∧ _ ∧ _)]
    simp only [get_singleton_zero, next_singleton_zero, rawEndPos_singleton, Pos.Raw.le_iff,
      Nat.le_refl, if_true]
    split <;> rename_i h
    · have hd : d = c := by simpa using h
      subst hd
      have e1 : ({ byteIdx := utf8Len l + utf8Len m + d.utf8Size } : Pos.Raw).unoffsetBy ⟨d.utf8Size⟩
          = ⟨utf8Len l + utf8Len m⟩ := by
        ext; simp
      rw [e1]
      have e2 := extract_of_valid l m (d :: r)
      simp only [List.append_assoc] at e2
      rw [e2]
      have := splitOnAux_char_of_valid d (l ++ m ++ [d]) [] r (ofList m :: acc)
      simpa [Nat.add_assoc, List.splitOnPPrepend_cons_eq_if] using this
    · have e1 : ({ byteIdx := utf8Len l + utf8Len m } : Pos.Raw).unoffsetBy 0 = ⟨utf8Len l + utf8Len m⟩ := by
        ext; simp
      rw [e1]
      have e2 := next_of_valid (l ++ m) d r
      simp only [List.append_assoc, utf8Len_append] at e2
      rw [e2]
      have := splitOnAux_char_of_valid c l (m ++ [d]) r acc
      simpa [List.splitOnPPrepend_cons_eq_if, h, Nat.add_assoc] using this
termination_by r.length

/-- `s.splitOn "c"` is `List.splitOn c` of the characters -/
theorem splitOn_singleton (s : String) (c : Char) :
    s.splitOn (singleton c) = (s.toList.splitOn c).map ofList := by
  have := splitOnAux_char_of_valid c [] [] s.toList []
  have hne : (singleton c == "") = false := by
    rw [beq_eq_false_iff_ne]; intro h
    have := congrArg String.length h
    simp at this
  simp only [splitOn, hne, List.splitOn_eq_splitOnP]
  simpa using this

/-- Python `sep.join(parts).split(sep)` gives the parts back when no part contains `sep` -/
theorem splitOn_intercalate (c : Char) (l : List String) (hne : l ≠ [])
    (hl : ∀ s ∈ l, c ∉ s.toList) :
    (String.intercalate (singleton c) l).splitOn (singleton c) = l := by
  rw [splitOn_singleton, toList_intercalate, toList_singleton, List.splitOn_intercalate]
  · simp [List.map_map]
  · simpa using hl
  · simpa using hne

theorem splitOn_of_not_mem (c : Char) (s : String) (h : c ∉ s.toList) :
    s.splitOn (singleton c) = [s] := by
  rw [splitOn_singleton, List.splitOn_eq_singleton h]; simp

theorem intercalate_two (s a b : String) : s.intercalate [a, b] = a ++ s ++ b := by
  apply String.toList_injective; simp

theorem intercalate_three (s a b c : String) : s.intercalate [a, b, c] = a ++ s ++ b ++ s ++ c := by
  apply String.toList_injective; simp

theorem dash_eq : "-" = singleton '-' := by decide
theorem us_eq : "_" = singleton '_' := by decide

example : "ab-c_d".splitOn "-" = ["ab", "c_d"] := by
  rw [dash_eq, splitOn_singleton]; decide

/-! ### Part 2: zero-padded numbers -/

/-- the characters of `zpad w n`: some zeros, then the decimal digits -/
def zpadC (k n : Nat) : List Char := List.replicate k '0' ++ Nat.toDigits 10 n

theorem zpad_nat (w n : Nat) :
    zpad w (n : Int) = ofList (zpadC (w - (toString n).length) n) := by
  have h : ¬ ((n : Int) < 0) := by omega
  apply String.toList_injective
  simp [zpad, h, zpadC, Nat.toString_eq_repr, Nat.toList_repr]

theorem zpadC_isDigit (k n : Nat) : ∀ c ∈ zpadC k n, c.isDigit = true := by
  intro c hc
  simp only [zpadC, List.mem_append, List.mem_replicate] at hc
  rcases hc with ⟨_, rfl⟩ | hc
  · decide
  · exact Nat.isDigit_of_mem_toDigits (by omega) (by omega) hc

theorem zpadC_ne_nil (k n : Nat) : zpadC k n ≠ [] := by
  simp [zpadC, Nat.toDigits_ne_nil]

theorem dash_not_mem_zpad (w n : Nat) : '-' ∉ (zpad w (n : Int)).toList := by
  rw [zpad_nat]; intro h
  have := zpadC_isDigit _ _ _ (by simpa using h)
  simp at this

theorem us_not_mem_zpad (w n : Nat) : '_' ∉ (zpad w (n : Int)).toList := by
  rw [zpad_nat]; intro h
  have := zpadC_isDigit _ _ _ (by simpa using h)
  simp at this

/-- Python `int(f"{n:0w}") == n` -/
theorem pyInt_zpad (w n : Nat) : pyInt? (zpad w (n : Int)) = some (n : Int) := by
  rw [zpad_nat]
  have hne : ofList (zpadC (w - (toString n).length) n) ≠ "" := by
    intro h
    have := congrArg String.toList h
    simp [zpadC_ne_nil] at this
  have hnat : (ofList (zpadC (w - (toString n).length) n)).isNat = true :=
    String.isNat_of_isDigit hne (by simpa using zpadC_isDigit _ n)
  have hem : (ofList (zpadC (w - (toString n).length) n)).isEmpty = false := by
    rw [Bool.eq_false_iff]; intro h; exact hne (String.isEmpty_iff.1 h)
  simp only [pyInt?, hem, Bool.false_eq_true, if_false]
  apply String.toInt?_eq_some_of_toNat?_eq_some
  rw [String.toNat?_eq_some_ofDigitChars hnat, String.toList_ofList,
    List.filter_eq_self.2]
  · simp [zpadC, Nat.ofDigitChars_append]
  · intro c hc
    have := zpadC_isDigit _ _ c hc
    simp only [bne_iff_ne, ne_eq]
    rintro rfl
    simp at this

/-! ### Part 3: the generated prefix table

  Everything here is `decide` over `Gen.tokenPrefixes` (regenerated from
  `scoda/enumerations/tokenisation_prefixes.py` on every run): a prefix edited in the source so
  that it contains a separator or a digit, or collides with another prefix, breaks these proofs. -/

/-- the enum members `render` / `parseTok` use -/
def usedNames : List String :=
  ["PAD", "START", "STOP", "BAR", "REST", "TRACK", "PITCH", "VALUE", "VELOCITY", "TIME_SIGNATURE"]

/-- the prefix strings of the table are pairwise distinct -/
theorem table_prefixes_nodup : (Gen.tokenPrefixes.map (·.2)).Nodup := by decide

/-- no prefix string of the table contains `-`, `_` or a digit -/
theorem table_prefixes_clean :
    ∀ p ∈ Gen.tokenPrefixes, ∀ c ∈ p.2.toList, c ≠ '-' ∧ c ≠ '_' ∧ c.isDigit = false := by decide

/-- every member the model uses is in the table (so `prefixOf` never falls back to `"?NAME"`) -/
theorem used_in_table : ∀ n ∈ usedNames, (Gen.tokenPrefixes.find? (·.1 == n)).isSome = true := by decide

/-- the same two facts through `prefixOf` (the look-up `render`/`parseTok` perform) -/
theorem prefixOf_clean :
    ∀ n ∈ usedNames, ∀ c ∈ (prefixOf n).toList, c ≠ '-' ∧ c ≠ '_' ∧ c.isDigit = false := by decide

theorem prefixOf_inj : ∀ a ∈ usedNames, ∀ b ∈ usedNames, prefixOf a = prefixOf b → a = b := by decide

theorem pfx_beq (a b : String) (ha : a ∈ usedNames) (hb : b ∈ usedNames) :
    (prefixOf a == prefixOf b) = decide (a = b) := by
  by_cases h : a = b
  · subst h; simp
  · have : prefixOf a ≠ prefixOf b := fun e => h (prefixOf_inj a ha b hb e)
    simp [h, this]

theorem dash_not_mem_prefix (n : String) (hn : n ∈ usedNames) : '-' ∉ (prefixOf n).toList :=
  fun h => (prefixOf_clean n hn _ h).1 rfl

theorem us_not_mem_prefix (n : String) (hn : n ∈ usedNames) : '_' ∉ (prefixOf n).toList :=
  fun h => (prefixOf_clean n hn _ h).2.1 rfl

/-! ### Part 4: `parseTok ∘ render` per constructor -/

/-- one `prefix_number` field -/
def field (name : String) (w n : Nat) : String := prefixOf name ++ "_" ++ zpad w (n : Int)

theorem field_split (name : String) (hn : name ∈ usedNames) (w n : Nat) :
    (field name w n).splitOn "_" = [prefixOf name, zpad w (n : Int)] := by
  rw [field, ← intercalate_two, us_eq, splitOn_intercalate _ _ (by simp)]
  intro s hs
  simp only [List.mem_cons, List.not_mem_nil, or_false] at hs
  rcases hs with rfl | rfl
  · exact us_not_mem_prefix name hn
  · exact us_not_mem_zpad w n

theorem dash_not_mem_field (name : String) (hn : name ∈ usedNames) (w n : Nat) :
    '-' ∉ (field name w n).toList := by
  have h1 := dash_not_mem_prefix name hn
  have h2 := dash_not_mem_zpad w n
  simp [field, h1, h2]

theorem field_splitDash (name : String) (hn : name ∈ usedNames) (w n : Nat) :
    (field name w n).splitOn "-" = [field name w n] := by
  rw [dash_eq]; exact splitOn_of_not_mem _ _ (dash_not_mem_field name hn w n)

theorem parse_render_rest (n : Nat) : parseTok (render (.rest n)) = .ok (.rest n) := by
  have h : render (.rest n) = field "REST" 2 n := rfl
  simp (disch := decide) only [parseTok, h, field_splitDash, field_split, List.map_cons, List.map_nil,
    pfx_beq, pyInt_zpad]
  simp only [decide_true, ite_true]; rfl

theorem parse_render_trk (n : Nat) : parseTok (render (.trk n)) = .ok (.trk n) := by
  have h : render (.trk n) = field "TRACK" 2 n := rfl
  simp (disch := decide) only [parseTok, h, field_splitDash, field_split, List.map_cons, List.map_nil,
    pfx_beq, pyInt_zpad]
  simp only [decide_true, ite_true]; rfl

theorem parse_render_val (n : Nat) : parseTok (render (.val n)) = .ok (.val n) := by
  have h : render (.val n) = field "VALUE" 2 n := rfl
  simp (disch := decide) only [parseTok, h, field_splitDash, field_split, List.map_cons, List.map_nil,
    pfx_beq, pyInt_zpad]
  simp only [decide_true, ite_true]; rfl

theorem parse_render_vel (n : Nat) : parseTok (render (.vel n)) = .ok (.vel n) := by
  have h : render (.vel n) = field "VELOCITY" 3 n := rfl
  simp (disch := decide) only [parseTok, h, field_splitDash, field_split, List.map_cons, List.map_nil,
    pfx_beq, pyInt_zpad]
  simp only [decide_true, ite_true]; rfl

/-- the four tokens without a number -/
theorem parse_render_special (name : String) (hn : name ∈ usedNames) :
    (prefixOf name).splitOn "-" = [prefixOf name] ∧ (prefixOf name).splitOn "_" = [prefixOf name] := by
  rw [dash_eq, us_eq]
  exact ⟨splitOn_of_not_mem _ _ (dash_not_mem_prefix name hn),
         splitOn_of_not_mem _ _ (us_not_mem_prefix name hn)⟩

theorem parse_render_pad : parseTok (render .pad) = .ok .pad := by
  have h : render .pad = prefixOf "PAD" := rfl
  simp (disch := decide) only [parseTok, h, (parse_render_special "PAD" (by decide)).1,
    (parse_render_special "PAD" (by decide)).2, List.map_cons, List.map_nil, pfx_beq]
  simp

theorem parse_render_sta : parseTok (render .sta) = .ok .sta := by
  have h : render .sta = prefixOf "START" := rfl
  simp (disch := decide) only [parseTok, h, (parse_render_special "START" (by decide)).1,
    (parse_render_special "START" (by decide)).2, List.map_cons, List.map_nil, pfx_beq]
  simp

theorem parse_render_sto : parseTok (render .sto) = .ok .sto := by
  have h : render .sto = prefixOf "STOP" := rfl
  simp (disch := decide) only [parseTok, h, (parse_render_special "STOP" (by decide)).1,
    (parse_render_special "STOP" (by decide)).2, List.map_cons, List.map_nil, pfx_beq]
  simp

theorem parse_render_bar : parseTok (render .bar) = .ok .bar := by
  have h : render .bar = prefixOf "BAR" := rfl
  simp (disch := decide) only [parseTok, h, (parse_render_special "BAR" (by decide)).1,
    (parse_render_special "BAR" (by decide)).2, List.map_cons, List.map_nil, pfx_beq]
  simp

theorem parse_render_tsig (a b : Nat) : parseTok (render (.tsig a b)) = .ok (.tsig a b) := by
  have h : render (.tsig a b) = "_".intercalate [prefixOf "TIME_SIGNATURE", zpad 2 (a : Int), zpad 2 (b : Int)] := by
    rw [intercalate_three]; rfl
  have hus : ∀ s ∈ [prefixOf "TIME_SIGNATURE", zpad 2 (a : Int), zpad 2 (b : Int)], '_' ∉ s.toList := by
    intro s hs
    simp only [List.mem_cons, List.not_mem_nil, or_false] at hs
    rcases hs with rfl | rfl | rfl
    · exact us_not_mem_prefix _ (by decide)
    · exact us_not_mem_zpad 2 a
    · exact us_not_mem_zpad 2 b
  have h1 : (render (.tsig a b)).splitOn "_" = [prefixOf "TIME_SIGNATURE", zpad 2 (a : Int), zpad 2 (b : Int)] := by
    rw [h, us_eq, splitOn_intercalate _ _ (by simp) hus]
  have h2 : (render (.tsig a b)).splitOn "-" = [render (.tsig a b)] := by
    rw [dash_eq]; apply splitOn_of_not_mem
    have d1 := dash_not_mem_prefix "TIME_SIGNATURE" (by decide)
    have d2 := dash_not_mem_zpad 2 a
    have d3 := dash_not_mem_zpad 2 b
    rw [h, intercalate_three]
    simp [d1, d2, d3]
  simp (disch := decide) only [parseTok, h2, h1, List.map_cons, List.map_nil, pfx_beq, pyInt_zpad]
  simp only [decide_true, ite_true]; rfl

/-- the `-`-separated pieces of a note token -/
def noteParts (t : Option Nat) (p : Nat) (v w : Option Nat) : List String :=
  (match t with | some t => [field "TRACK" 2 t] | Option.none => [])
    ++ [field "PITCH" 3 p]
    ++ (match v with | some v => [field "VALUE" 2 v] | Option.none => [])
    ++ (match w with | some w => [field "VELOCITY" 3 w] | Option.none => [])

def noteOf (t : Option Nat) (p : Nat) (v w : Option Nat) : Tok :=
  .note (t.map Int.ofNat) (p : Int) (v.map Int.ofNat) (w.map Int.ofNat)

theorem render_note (t : Option Nat) (p : Nat) (v w : Option Nat) :
    render (noteOf t p v w) = "-".intercalate (noteParts t p v w) := by
  cases t <;> cases v <;> cases w <;> rfl

theorem noteParts_split (t : Option Nat) (p : Nat) (v w : Option Nat) :
    (render (noteOf t p v w)).splitOn "-" = noteParts t p v w := by
  rw [render_note, dash_eq, splitOn_intercalate]
  · cases t <;> cases v <;> cases w <;> simp [noteParts]
  · intro s hs
    have h1 := fun n => dash_not_mem_field "TRACK" (by decide) 2 n
    have h2 := fun n => dash_not_mem_field "PITCH" (by decide) 3 n
    have h3 := fun n => dash_not_mem_field "VALUE" (by decide) 2 n
    have h4 := fun n => dash_not_mem_field "VELOCITY" (by decide) 3 n
    cases t <;> cases v <;> cases w <;>
      simp only [noteParts, List.nil_append, List.cons_append, List.mem_cons, List.not_mem_nil, or_false] at hs <;>
      rcases hs with rfl | rfl | rfl | rfl <;> simp [h1, h2, h3, h4]

theorem neg_one_ne_nat (p : Nat) : ((p : Int) == -1) = false := by
  rw [beq_eq_false_iff_ne]; omega

theorem parse_render_note (t : Option Nat) (p : Nat) (v w : Option Nat) :
    parseTok (render (noteOf t p v w)) = .ok (noteOf t p v w) := by
  unfold parseTok
  rw [noteParts_split]
  cases t <;> cases v <;> cases w <;>
    simp (disch := decide) only [noteParts, List.nil_append, List.cons_append, field_split, List.map_cons,
      List.map_nil, pfx_beq, pyInt_zpad, List.foldl_cons, List.foldl_nil, bind, Except.bind,
      Option.isNone_none, Option.isNone_some, Bool.and_true, Bool.and_false, neg_one_ne_nat, noteOf,
      Option.map_none, Option.map_some, beq_self_eq_true, decide_false, ite_true, ite_false,
      String.reduceEq, Bool.false_eq_true, Int.ofNat_eq_natCast]
  all_goals
    split
    · rename_i heq
      injection heq with _ hp
      omega
    · rfl

/-! ### Part 5: the tokens a vocabulary can contain -/

/-- an optional (fused) field is absent or a natural number -/
def OptNonneg : Option Int → Prop
  | Option.none => True
  | some x => 0 ≤ x

instance : DecidablePred OptNonneg := fun o => by
  cases o <;> simp only [OptNonneg] <;> infer_instance

/-- all numeric fields are natural numbers (Python's `:02` / `:03` then produce plain digit
    strings, without a sign that would collide with the part separator `-`) -/
def TokOk : Tok → Prop
  | .pad | .sta | .sto | .bar => True
  | .rest v | .trk v | .val v | .vel v => 0 ≤ v
  | .note t p v w => OptNonneg t ∧ 0 ≤ p ∧ OptNonneg v ∧ OptNonneg w
  | .tsig n d => 0 ≤ n ∧ 0 ≤ d

instance : DecidablePred TokOk := fun t => by
  cases t <;> simp only [TokOk] <;> infer_instance

theorem optNonneg_eq {o : Option Int} (h : OptNonneg o) : ∃ o' : Option Nat, o = o'.map Int.ofNat := by
  cases o with
  | none => exact ⟨Option.none, rfl⟩
  | some x =>
    obtain ⟨n, rfl⟩ := Int.eq_ofNat_of_zero_le (show 0 ≤ x from h)
    exact ⟨some n, rfl⟩

theorem parse_render_ok (t : Tok) (h : TokOk t) : parseTok (render t) = .ok t := by
  cases t with
  | pad => exact parse_render_pad
  | sta => exact parse_render_sta
  | sto => exact parse_render_sto
  | bar => exact parse_render_bar
  | rest v => obtain ⟨n, rfl⟩ := Int.eq_ofNat_of_zero_le (show 0 ≤ v from h); exact parse_render_rest n
  | trk v => obtain ⟨n, rfl⟩ := Int.eq_ofNat_of_zero_le (show 0 ≤ v from h); exact parse_render_trk n
  | val v => obtain ⟨n, rfl⟩ := Int.eq_ofNat_of_zero_le (show 0 ≤ v from h); exact parse_render_val n
  | vel v => obtain ⟨n, rfl⟩ := Int.eq_ofNat_of_zero_le (show 0 ≤ v from h); exact parse_render_vel n
  | note t p v w =>
    obtain ⟨h1, h2, h3, h4⟩ := h
    obtain ⟨t', rfl⟩ := optNonneg_eq h1
    obtain ⟨p', rfl⟩ := Int.eq_ofNat_of_zero_le h2
    obtain ⟨v', rfl⟩ := optNonneg_eq h3
    obtain ⟨w', rfl⟩ := optNonneg_eq h4
    exact parse_render_note t' p' v' w'
  | tsig a b =>
    obtain ⟨a', rfl⟩ := Int.eq_ofNat_of_zero_le h.1
    obtain ⟨b', rfl⟩ := Int.eq_ofNat_of_zero_le h.2
    exact parse_render_tsig a' b'

/-- the constructor arguments are natural numbers (MIDI pitches, tick counts, velocities and
    signature numerators are; the constructor itself does not check) -/
structure CfgNonneg (c : Cfg) : Prop where
  steps : ∀ x ∈ c.steps, 0 ≤ x
  values : ∀ x ∈ c.values, 0 ≤ x
  bins : ∀ x ∈ c.bins, 0 ≤ x
  pitchLo : 0 ≤ c.pitchLo
  tsLo : 0 ≤ c.tsLo
  defDen : 0 ≤ c.defDen

instance (c : Cfg) : Decidable (CfgNonneg c) :=
  decidable_of_iff ((∀ x ∈ c.steps, 0 ≤ x) ∧ (∀ x ∈ c.values, 0 ≤ x) ∧ (∀ x ∈ c.bins, 0 ≤ x)
      ∧ 0 ≤ c.pitchLo ∧ 0 ≤ c.tsLo ∧ 0 ≤ c.defDen)
    ⟨fun ⟨a, b, c, d, e, f⟩ => ⟨a, b, c, d, e, f⟩, fun ⟨a, b, c, d, e, f⟩ => ⟨a, b, c, d, e, f⟩⟩

theorem optNonneg_of_mem_opts {l : List Int} {b : Bool} {o : Option Int}
    (hl : ∀ x ∈ l, 0 ≤ x) (h : o ∈ (if b then l.map some else [Option.none])) : OptNonneg o := by
  cases b
  · simp only [Bool.false_eq_true, if_false, List.mem_singleton] at h; subst h; trivial
  · simp only [if_true, List.mem_map] at h
    obtain ⟨x, hx, rfl⟩ := h
    exact hl x hx

/-- every entry of the construction sequence has natural-number fields -/
theorem vocab_tokOk (c : Cfg) (h : CfgNonneg c) (t : Tok) (ht : t ∈ vocabSeq c) : TokOk t := by
  cases t with
  | pad | sta | sto | bar => trivial
  | rest v => exact h.steps v (Vocab.rest_mem.1 ht)
  | trk v => exact (Vocab.mem_tracks.1 (Vocab.trk_mem.1 ht).2).1
  | val v => exact h.values v (Vocab.val_mem.1 ht).2
  | vel v => exact h.bins v (Vocab.vel_mem.1 ht).2
  | note t p v w =>
    obtain ⟨h1, h2, h3, h4⟩ := Vocab.note_mem.1 ht
    refine ⟨?_, ?_, optNonneg_of_mem_opts h.values h3, optNonneg_of_mem_opts h.bins h4⟩
    · exact optNonneg_of_mem_opts (fun x hx => (Vocab.mem_tracks.1 hx).1) h1
    · have := h.pitchLo; omega
  | tsig a b =>
    obtain ⟨h1, rfl⟩ := Vocab.tsig_mem.1 ht
    exact ⟨by have := h.tsLo; omega, h.defDen⟩

end SCoda.RenderL
