/-
  Helper lemmas for `quantise` (Props/AbsTie2.lean): the generated `quantise` against the hand model of Model/Quantise.lean.
-/
import SCoda.Lemmas.AbsTie2LI
import SCoda.Model.QuantiseS
import SCoda.Lemmas.AbsTie2LC
namespace SCoda.AbsTie2L
open SCoda SCoda.Gen.Abs2

/-- model errors as errors of the generated code -/
def errMapL : Err → PyErr
  | .indexError => .indexError | .keyError => .keyError | .valueError => .valueError | .fuel => .fuel
  | _ => .typeError

/-- relational loop rule where the model step may fail: the generated body fails with the corresponding error exactly when the
    model step does.  `R` also sees the list of elements processed so far. -/
theorem forIn_relE_bind {α β γ δ : Type} (R : List α → β → γ → Prop) (g : γ → α → Except Err γ)
    (f : α → β → Except PyErr (ForInStep β)) (k : β → Except PyErr δ) (Q : Except PyErr δ → Prop) (l : List α)
    (hstep : ∀ pre a post b c, l = pre ++ a :: post → R pre b c →
      (match g c a with
        | .ok c' => ∃ b', f a b = .ok (.yield b') ∧ R (pre ++ [a]) b' c'
        | .error e => f a b = .error (errMapL e)))
    (b : β) (c : γ) (hR : R [] b c)
    (hok : ∀ b' c', foldlM' g c l = .ok c' → R l b' c' → Q (k b'))
    (herr : ∀ e, foldlM' g c l = .error e → Q (.error (errMapL e))) : Q (forIn l b f >>= k) := by
  suffices H : ∀ (post pre : List α) (b : β) (c : γ), l = pre ++ post → R pre b c →
      (∀ b' c', foldlM' g c post = .ok c' → R l b' c' → Q (k b')) →
      (∀ e, foldlM' g c post = .error e → Q (.error (errMapL e))) → Q (forIn post b f >>= k) from
    H l [] b c (by simp) hR hok herr
  intro post
  induction post with
  | nil =>
    intro pre b c hl hR hok _
    have : l = pre := by simpa using hl
    subst this
    simpa using hok b c rfl hR
  | cons a post ih =>
    intro pre b c hl hR hok herr
    have hs := hstep pre a post b c hl hR
    rw [List.forIn_cons]
    cases hg : g c a with
    | error e =>
      rw [hg] at hs
      simp only at hs
      rw [hs]
      have : foldlM' g c (a :: post) = .error e := by simp [foldlM', hg]
      exact herr e this
    | ok c' =>
      rw [hg] at hs
      simp only at hs
      obtain ⟨b', hb, hR'⟩ := hs
      rw [hb]
      have hf : ∀ r, foldlM' g c (a :: post) = r ↔ foldlM' g c' post = r := by
        intro r; simp [foldlM', hg]
      exact ih (pre ++ [a]) b' c' (by simp [hl]) hR'
        (fun b'' c'' h1 h2 => hok b'' c'' ((hf _).2 h1) h2)
        (fun e h1 => herr e ((hf _).2 h1))

theorem fdiv_pos (a b : Int) (hb : 0 < b) : Int.fdiv a b = a / b := by
  rw [Int.fdiv_eq_ediv_of_nonneg _ (Int.le_of_lt hb)]

theorem pyFloorDiv_pos (a b : Int) (hb : 0 < b) : pyFloorDiv a b = .ok (a / b) := by
  unfold pyFloorDiv
  have : (b == 0) = false := by simp; omega
  simp only [this, Bool.false_eq_true, if_false, fdiv_pos a b hb]
  rfl

/-- the two comprehensions `positions_left`, `positions_right` -/
theorem positions_left (t : Int) (steps : List Int) (hpos : ∀ s ∈ steps, 0 < s) :
    steps.mapM (fun s => do let d ← pyFloorDiv t s; pure (d * s) : Int → Except PyErr Int) = .ok (steps.map (fun s => t / s * s)) := by
  apply mapM_ok
  intro s hs
  rw [pyFloorDiv_pos t s (hpos s hs)]
  rfl

theorem positions_right (t : Int) (steps : List Int) :
    (pyRange 0 (steps.length : Int)).mapM (fun i => do
        let a ← pyGet (steps.map (fun s => t / s * s)) i
        let st ← optGet (some steps)
        let b ← pyGet st i
        pure (a + b) : Int → Except PyErr Int) = .ok (steps.map (fun s => t / s * s + s)) := by
  rw [mapM_pyRange _ (fun i => (steps.map (fun s => t / s * s)).getD i 0 + steps.getD i 0) steps.length]
  · congr 1
    apply List.ext_getElem
    · simp
    · intro i h1 h2
      simp only [List.length_map, List.length_range] at h1
      simp [List.getD, List.getElem?_eq_getElem h1]
  · intro i hi
    rw [pyGet_getD _ i 0 (by simpa using hi)]
    simp only [ViewTieL.ok_bind, optGet]
    show (do let b ← pyGet steps (i : Int); pure (_ + b) : Except PyErr Int) = _
    rw [pyGet_getD _ i 0 hi]
    simp only [ViewTieL.ok_bind, ViewTieL.pure_eq_ok]

/-- `valid[find_minimal_distance(t, valid)]` -/
def nearestR (t : Int) (valid : List Int) : Except PyErr Int := do
  let i ← Gen.Abs2.findMinimalDistance t valid
  pyGet valid i

theorem fmd_gen (e : Int) (c : List Int) :
    Gen.Abs2.findMinimalDistance e c = .ok ((SCoda.findMinimalDistance e c : Nat) : Int) := by
  unfold Gen.Abs2.findMinimalDistance
  simp only []
  rw [pyEnumerate_eq, ViewTieL.forIn_spec' _ (fmdSpec e)]
  · obtain ⟨s, hs, h⟩ := fmdSpec_go e c 0 none
    simp only [fmdD, fmdI, Int.natCast_zero] at hs
    rw [hs]
    obtain ⟨r, d, i⟩ := s
    simp only [SCoda.findMinimalDistance, ← h]
    cases r <;> rfl
  · intro b; rfl
  · intro a as b
    obtain ⟨i, c⟩ := a
    obtain ⟨r, d, ix⟩ := b
    simp only [fmdSpec]
    split
    · split <;> rfl
    · rfl

theorem nearestR_eq (t : Int) (valid : List Int) :
    nearestR t valid = (match nearest t valid with | .ok v => .ok v | .error e => .error (errMapL e)) := by
  unfold nearestR nearest
  rw [fmd_gen]
  simp only [ViewTieL.ok_bind]
  unfold pyGet
  have h0 : ¬ (((SCoda.findMinimalDistance t valid : Nat) : Int) < 0) := by omega
  simp only [h0, if_false, Int.toNat_natCast]
  cases valid[SCoda.findMinimalDistance t valid]? <;> rfl

/-! ### first loop of `quantise` -/

abbrev QB := Heap × List Nat × Assoc (Int × Int) Int × Assoc (Int × Int) (List Int)

/-- the loop state of the first loop of `quantise` stands for the model state `s`; `pre` = references processed so far -/
structure QRel (h0 : Heap) (pre : List Nat) (b : QB) (s : QSt) : Prop where
  om : b.2.2.1 = s.opens
  tm : b.2.2.2 = s.timings
  out : b.2.1.map (hGet b.1) = s.out.reverse
  qr : ∀ r ∈ b.2.1, (r ∈ pre ∨ h0.length ≤ r) ∧ r < b.1.length
  un : ∀ r, r < h0.length → r ∉ pre → hGet b.1 r = hGet h0 r
  len : h0.length ≤ b.1.length
  sub : ∀ k, s.opens.contains k = true → s.timings.contains k = true

/-- `r.time = v` -/
def setTime (h : Heap) (r : Nat) (v : Int) : Heap := hUpd h r (fun o => { o with time := v })

theorem hGet_setTime_self (h : Heap) (r : Nat) (v : Int) (hr : r < h.length) : hGet (setTime h r v) r = { hGet h r with time := v } := by
  simp [setTime, hGet_hUpd, hr]

theorem hGet_setTime_ne (h : Heap) (r x : Nat) (v : Int) (hx : x ≠ r) : hGet (setTime h r v) x = hGet h x := by
  simp [setTime, hGet_hUpd, hx]

theorem length_setTime (h : Heap) (r : Nat) (v : Int) : (setTime h r v).length = h.length := length_hUpd _ _ _

section
variable {h0 : Heap} {pre : List Nat} {heap : Heap} {q : List Nat} {om : Assoc (Int × Int) Int} {tm : Assoc (Int × Int) (List Int)} {s : QSt}

theorem q_notin (hR : QRel h0 pre (heap, q, om, tm) s) (r : Nat) (hr : r ∉ pre) (hlt : r < h0.length) : r ∉ q := by
  intro hm
  rcases (hR.qr r hm).1 with h | h
  · exact hr h
  · omega

theorem map_setTime (hR : QRel h0 pre (heap, q, om, tm) s) (r : Nat) (hr : r ∉ pre) (hlt : r < h0.length) (v : Int) :
    q.map (hGet (setTime heap r v)) = q.map (hGet heap) := by
  apply List.map_congr_left
  intro x hx
  apply hGet_setTime_ne
  intro e; subst e; exact q_notin hR x hr hlt hx

/-- primitive: `r.time = v` for a reference that is being processed and not (yet) in the output -/
theorem qrel_store (hR : QRel h0 pre (heap, q, om, tm) s) (r : Nat) (hr : r ∈ pre) (hnq : r ∉ q) (v : Int) :
    QRel h0 pre (setTime heap r v, q, om, tm) s := by
  refine ⟨hR.om, hR.tm, ?_, ?_, ?_, ?_, hR.sub⟩
  · simp only
    rw [← hR.out]
    apply List.map_congr_left
    intro x hx
    apply hGet_setTime_ne
    intro e; subst e; exact hnq hx
  · intro x hx; simp only [length_setTime]; exact hR.qr x hx
  · intro x hx hnp
    rw [hGet_setTime_ne _ _ _ _ (by intro e; subst e; exact hnp hr)]; exact hR.un x hx hnp
  · simp only [length_setTime]; exact hR.len

/-- primitive: a new object is created and appended to the output -/
theorem qrel_fresh (hR : QRel h0 pre (heap, q, om, tm) s) (x : Msg) :
    QRel h0 pre (heap ++ [x], q ++ [heap.length], om, tm) { s with out := x :: s.out } := by
  refine ⟨hR.om, hR.tm, ?_, ?_, ?_, ?_, hR.sub⟩
  · simp only [List.map_append, List.map_cons, List.map_nil, List.reverse_cons, hGet_append_new]
    congr 1
    rw [← hR.out]
    apply List.map_congr_left
    intro y hy
    exact hGet_append_lt _ _ _ (hR.qr y hy).2
  · intro y hy
    simp only [List.length_append, List.length_cons, List.length_nil]
    rcases List.mem_append.1 hy with hy | hy
    · have := hR.qr y hy; simp only at this; exact ⟨this.1, by omega⟩
    · simp only [List.mem_singleton] at hy; subst hy
      exact ⟨Or.inr hR.len, by omega⟩
  · intro y hy hnp
    have := hR.len
    simp only at this
    rw [hGet_append_lt _ _ _ (by omega)]; exact hR.un y hy hnp
  · simp only [List.length_append]; have := hR.len; simp only at this; omega

/-- primitive: the processed reference is appended to the output -/
theorem qrel_keep (hR : QRel h0 pre (heap, q, om, tm) s) (r : Nat) (hr : r ∈ pre) (hlt : r < heap.length) :
    QRel h0 pre (heap, q ++ [r], om, tm) { s with out := hGet heap r :: s.out } := by
  refine ⟨hR.om, hR.tm, ?_, ?_, hR.un, hR.len, hR.sub⟩
  · simp only [List.map_append, List.map_cons, List.map_nil, List.reverse_cons, hR.out]
  · intro y hy
    rcases List.mem_append.1 hy with hy | hy
    · exact hR.qr y hy
    · simp only [List.mem_singleton] at hy; subst hy; exact ⟨Or.inl hr, hlt⟩

/-- primitive: the two tables change (on both sides in the same way) -/
theorem qrel_tables (hR : QRel h0 pre (heap, q, om, tm) s) (om' : Assoc (Int × Int) Int) (tm' : Assoc (Int × Int) (List Int))
    (hsub : ∀ k, om'.contains k = true → tm'.contains k = true) :
    QRel h0 pre (heap, q, om', tm') { s with opens := om', timings := tm' } :=
  ⟨rfl, rfl, hR.out, hR.qr, hR.un, hR.len, hsub⟩

/-- primitive: the next reference `r` is taken up -/
theorem qrel_skip (hR : QRel h0 pre (heap, q, om, tm) s) (r : Nat) : QRel h0 (pre ++ [r]) (heap, q, om, tm) s := by
  refine ⟨hR.om, hR.tm, hR.out, ?_, ?_, hR.len, hR.sub⟩
  · intro x hx
    obtain ⟨h1, h2⟩ := hR.qr x hx
    exact ⟨by rcases h1 with h1 | h1 <;> simp [h1], h2⟩
  · intro x hx hnp
    simp only [List.mem_append, List.mem_singleton, not_or] at hnp
    exact hR.un x hx hnp.1

end

theorem foldlM'_map {α β γ : Type} (f : β → α → Except Err β) (g : γ → α) : ∀ (l : List γ) (b : β),
    foldlM' f b (l.map g) = foldlM' (fun b x => f b (g x)) b l := by
  intro l
  induction l with
  | nil => intro b; rfl
  | cons x xs ih =>
    intro b
    simp only [List.map_cons, foldlM']
    cases f b (g x) with
    | ok b' => exact ih b'
    | error e => rfl

theorem qStep_other (steps : List Int) (s : QSt) (m : Msg) (hon : m.ty ≠ .noteOn) (hoff : m.ty ≠ .noteOff) :
    qStep steps s m = (match nearest m.time (possiblePositions steps m.time) with
      | .ok t => .ok { s with out := { m with time := t } :: s.out }
      | .error e => .error e) := by
  unfold qStep
  cases hty : m.ty <;> simp_all <;> (cases nearest m.time (possiblePositions steps m.time) <;> rfl)

/-- model, NOTE_ON: close a note that is still open at the new onset `t` -/
def onClose (k : Int × Int) (t : Int) (m : Msg) (s : QSt) : QSt :=
  if s.opens.contains k then
    { s with out := Msg.mkOff m.ch m.note t :: s.out, opens := s.opens.erase k,
             timings := s.timings.set k ((s.timings.get? k).getD [] ++ [t]) }
  else s

/-- model, NOTE_ON: open the note unless it would overlap -/
def onFinish (k : Int × Int) (t : Int) (m : Msg) (s : QSt) : Except Err QSt :=
  match s.timings.get? k with
  | none => .ok { s with out := { m with time := t } :: s.out, opens := s.opens.set k t, timings := s.timings.set k [t] }
  | some tm =>
    match tm[1]? with
    | none => .error .indexError
    | some lastOff =>
      if !(t < lastOff) then
        .ok { s with out := { m with time := t } :: s.out, opens := s.opens.set k t, timings := s.timings.set k [t] }
      else .ok s

theorem qStep_on (steps : List Int) (s : QSt) (m : Msg) (hon : m.ty = .noteOn) :
    qStep steps s m = (match nearest m.time (possiblePositions steps m.time) with
      | .ok t => onFinish m.nkey t m (onClose m.nkey t m s)
      | .error e => .error e) := by
  unfold qStep
  simp only [hon]
  cases nearest m.time (possiblePositions steps m.time) with
  | error e => rfl
  | ok t =>
    simp only [onFinish, onClose]
    show (match (if s.opens.contains m.nkey then _ else s : QSt).timings.get? m.nkey with | none => _ | some tm => _) = _
    generalize (if s.opens.contains m.nkey = true then
        ({ s with out := Msg.mkOff m.ch m.note t :: s.out, opens := s.opens.erase m.nkey,
                  timings := s.timings.set m.nkey ((s.timings.get? m.nkey).getD [] ++ [t]) } : QSt) else s) = s1
    cases s1.timings.get? m.nkey with
    | none => simp only [hon]
    | some tm => simp only [hon]; cases tm[1]? <;> rfl

/-- generated, NOTE_ON: the decision to open the note -/
def onFinishR (k : Int × Int) (t : Int) (r : Nat) (b : QB) : Except PyErr (ForInStep QB) := do
  let c ← (if (!(b.2.2.2.contains k)) = true then pure true else do
      let x ← dictGet b.2.2.2 k
      let y ← pyGet x 1
      pure (!decide (t < y)) : Except PyErr Bool)
  if c = true then pure (ForInStep.yield (b.1, b.2.1 ++ [r], b.2.2.1.set k t, b.2.2.2.set k [t]))
  else pure (ForInStep.yield b)

theorem qStep_off (steps : List Int) (s : QSt) (m : Msg) (hoff : m.ty = .noteOff) :
    qStep steps s m = (match s.opens.get? m.nkey with
      | some openT =>
        (match nearest m.time (if ((possiblePositions steps m.time).filter (fun p => !(decide (p - openT ≤ 0)))).length == 0 then [openT]
              else (possiblePositions steps m.time).filter (fun p => !(decide (p - openT ≤ 0)))) with
          | .ok t => .ok { s with out := { m with time := t } :: s.out, opens := s.opens.erase m.nkey,
                                  timings := s.timings.set m.nkey ((s.timings.get? m.nkey).getD [] ++ [t]) }
          | .error e => .error e)
      | none => .ok s) := by
  unfold qStep
  simp only [hoff]
  cases s.opens.get? m.nkey with
  | none => rfl
  | some openT =>
    simp only
    cases nearest m.time (if ((possiblePositions steps m.time).filter (fun p => !(decide (p - openT ≤ 0)))).length == 0 then [openT]
              else (possiblePositions steps m.time).filter (fun p => !(decide (p - openT ≤ 0)))) <;> rfl

section
variable {κ ν : Type} [DecidableEq κ]
theorem isSome_of_mem (d : Assoc κ ν) (k' : κ) (v : ν) (hm : (k', v) ∈ d) : (d.get? k').isSome = true := by
  induction d with
  | nil => simp at hm
  | cons a rest ih =>
    obtain ⟨k0, w⟩ := a
    by_cases h0 : k0 = k'
    · simp [Assoc.get?, h0]
    · simp only [Assoc.get?, h0, if_false]
      rcases List.mem_cons.1 hm with e | hm'
      · exact absurd (congrArg Prod.fst e).symm h0
      · exact ih hm'

theorem contains_of_erase (d : Assoc κ ν) (k k' : κ) (h : (d.erase k).contains k' = true) : d.contains k' = true := by
  rw [contains_eq] at h ⊢
  obtain ⟨v, hv⟩ := Option.isSome_iff_exists.1 h
  exact isSome_of_mem d k' v ((GluePair.erase_sublist d k).subset (GluePair.mem_of_get? _ _ _ hv))

theorem contains_set_of (d : Assoc κ ν) (k k' : κ) (v : ν) (h : d.contains k' = true) : (d.set k v).contains k' = true := by
  rw [contains_eq] at h ⊢
  rw [GluePair.get?_set]; split <;> simp [h]

theorem contains_set_self (d : Assoc κ ν) (k : κ) (v : ν) : (d.set k v).contains k = true := by
  rw [contains_eq, GluePair.get?_set]; simp
end

theorem nearest_bind {β : Type} (t : Int) (v : List Int) (k : Int → Except PyErr β) :
    (do let i ← Gen.Abs2.findMinimalDistance t v; let x ← pyGet v i; k x) = (nearestR t v >>= k) := by
  unfold nearestR
  simp only [bind_assoc]

theorem contains_of_set_ne {κ ν : Type} [DecidableEq κ] (d : Assoc κ ν) (k k' : κ) (v : ν) (hne : k ≠ k')
    (h : (d.set k v).contains k' = true) : d.contains k' = true := by
  rw [contains_eq] at h ⊢
  rw [GluePair.get?_set] at h
  simpa [hne] using h

theorem onFinish_sim {h0 : Heap} {pre : List Nat} {H1 : Heap} {q1 : List Nat} {s1 : QSt}
    (hR : QRel h0 pre (H1, q1, s1.opens, s1.timings) s1) (r : Nat) (k : Int × Int) (t : Int) (m : Msg)
    (hr : r ∈ pre) (hlt : r < H1.length) (hm : hGet H1 r = { m with time := t }) :
    (∀ c', onFinish k t m s1 = .ok c' → ∃ b', onFinishR k t r (H1, q1, s1.opens, s1.timings) = .ok (.yield b') ∧ QRel h0 pre b' c') ∧
    (∀ e, onFinish k t m s1 = .error e → onFinishR k t r (H1, q1, s1.opens, s1.timings) = .error (errMapL e)) := by
  have hopenrel : QRel h0 pre (H1, q1 ++ [r], s1.opens.set k t, s1.timings.set k [t])
      { s1 with out := { m with time := t } :: s1.out, opens := s1.opens.set k t, timings := s1.timings.set k [t] } := by
    have h2 := qrel_tables (qrel_keep hR r hr hlt) (s1.opens.set k t) (s1.timings.set k [t]) (by
      intro k' hk'
      by_cases hk : k = k'
      · subst hk; exact contains_set_self _ _ _
      · exact contains_set_of _ _ _ _ (hR.sub k' (contains_of_set_ne _ _ _ _ hk hk')))
    rw [hm] at h2
    exact h2
  unfold onFinish onFinishR
  simp only [contains_eq]
  have hcases : s1.timings.get? k = none ∨ ∃ tm, s1.timings.get? k = some tm := by
    cases s1.timings.get? k <;> simp
  rcases hcases with hg | ⟨tm, hg⟩
  · simp only [hg, Option.isSome_none, Bool.not_false, if_true, pure_bind]
    refine ⟨fun c' hc => ?_, fun e he => by cases he⟩
    cases hc
    exact ⟨_, rfl, hopenrel⟩
  · simp only [hg, Option.isSome_some, Bool.not_true, Bool.false_eq_true, if_false, dictGet_some hg, ViewTieL.ok_bind]
    cases h1 : tm[1]? with
    | none =>
      have : pyGet tm 1 = .error .indexError := by
        unfold pyGet
        simp only [show ¬ ((1 : Int) < 0) by omega, if_false, show (1 : Int).toNat = 1 from rfl, h1]
        rfl
      rw [this]
      refine ⟨fun c' hc => (by cases hc), fun e he => ?_⟩
      cases he
      rfl
    | some lo =>
      have : pyGet tm 1 = .ok lo := by
        unfold pyGet
        simp only [show ¬ ((1 : Int) < 0) by omega, if_false, show (1 : Int).toNat = 1 from rfl, h1]
        rfl
      simp only [this, ViewTieL.ok_bind, pure_bind]
      by_cases hlt' : t < lo
      · simp only [hlt', decide_true, Bool.not_true, Bool.false_eq_true, if_false]
        refine ⟨fun c' hc => ?_, fun e he => by cases he⟩
        cases hc
        exact ⟨_, rfl, hR⟩
      · simp only [hlt', decide_false, Bool.not_false, if_true]
        refine ⟨fun c' hc => ?_, fun e he => by cases he⟩
        cases hc
        exact ⟨_, rfl, hopenrel⟩

/-- the generated function (final heap, final `_messages`) delivers what the model result `M` says: the same messages or the
    corresponding error -/
def PostOf (M : Except Err (List Msg)) (x : Except PyErr (Heap × List Nat)) : Prop :=
  match M with
  | .ok r => ∃ h' refs', x = .ok (h', refs') ∧ deref h' refs' = r
  | .error e => x = .error (errMapL e)

/-! ### second loop of `quantise`: indices of collapsed notes -/

abbrev CSt := Nat × Assoc (Int × Int) (Nat × Int) × List Nat

/-- one step of the model's `collapsedGo` -/
def cstep (st : CSt) (m : Msg) : Except Err CSt :=
  match m.ty with
  | .noteOn => .ok (st.1 + 1, st.2.1.set m.nkey (st.1, m.time), st.2.2)
  | .noteOff =>
    match st.2.1.get? m.nkey with
    | none => .error .keyError
    | some jt => .ok (st.1 + 1, st.2.1.erase m.nkey, if m.time - jt.2 ≤ 0 then st.2.2 ++ [jt.1, st.1] else st.2.2)
  | _ => .ok (st.1 + 1, st.2.1, st.2.2)

theorem collapsedGo_fold : ∀ (ms : List Msg) (i : Nat) (tbl : Assoc (Int × Int) (Nat × Int)) (acc : List Nat),
    collapsedGo ms i tbl acc = (match foldlM' cstep (i, tbl, acc) ms with | .ok st => .ok st.2.2 | .error e => .error e) := by
  intro ms
  induction ms with
  | nil => intro i tbl acc; rfl
  | cons m ms ih =>
    intro i tbl acc
    simp only [collapsedGo, foldlM', cstep]
    cases hty : m.ty <;> simp only [] <;> try exact ih _ _ _
    cases hg : tbl.get? m.nkey with
    | none => rfl
    | some jt =>
      obtain ⟨j, t⟩ := jt
      simp only []
      exact ih _ _ _

/-- what is known about the indices collected so far -/
structure CInvM (st : CSt) : Prop where
  lt : ∀ x ∈ st.2.2, x < st.1
  nd : st.2.2.Nodup
  tl : ∀ c ∈ st.2.1, c.2.1 < st.1 ∧ c.2.1 ∉ st.2.2
  td : st.2.1.Pairwise (fun a b => a.2.1 ≠ b.2.1)

theorem cinvM_step (st : CSt) (m : Msg) (h : CInvM st) (st' : CSt) (hs : cstep st m = .ok st') : CInvM st' ∧ st'.1 = st.1 + 1 := by
  obtain ⟨i, tbl, acc⟩ := st
  unfold cstep at hs
  simp only at hs h
  have hlt' : ∀ x ∈ acc, x < i + 1 := fun x hx => Nat.lt_succ_of_lt (h.lt x hx)
  have htl' : ∀ c ∈ tbl, c.2.1 < i + 1 ∧ c.2.1 ∉ acc := fun c hc => ⟨Nat.lt_succ_of_lt (h.tl c hc).1, (h.tl c hc).2⟩
  cases hty : m.ty <;> simp only [hty] at hs
  case noteOn =>
    cases hs
    refine ⟨⟨hlt', h.nd, ?_, ?_⟩, rfl⟩
    · intro c hc
      simp only at hc
      rcases GluePair.mem_set _ _ _ _ hc with hc | rfl
      · exact htl' c hc
      · exact ⟨Nat.lt_succ_self _, fun hm => Nat.lt_irrefl _ (h.lt _ hm)⟩
    · simp only
      -- setting a key keeps the second components distinct: the new index `i` is larger than all others
      have hgen : ∀ (d : Assoc (Int × Int) (Nat × Int)), d.Pairwise (fun a b => a.2.1 ≠ b.2.1) → (∀ c ∈ d, c.2.1 < i) →
          (d.set m.nkey (i, m.time)).Pairwise (fun a b => a.2.1 ≠ b.2.1) := by
        intro d
        induction d with
        | nil => intro _ _; simp [Assoc.set]
        | cons a rest ih =>
          intro hp hl
          obtain ⟨k0, w⟩ := a
          have hp' := List.pairwise_cons.1 hp
          by_cases hk : k0 = m.nkey
          · simp only [Assoc.set, hk, if_true]
            refine List.pairwise_cons.2 ⟨?_, hp'.2⟩
            intro b hb
            have := hl b (by simp [hb])
            simp only
            omega
          · simp only [Assoc.set, hk, if_false]
            refine List.pairwise_cons.2 ⟨?_, ih hp'.2 (fun c hc => hl c (by simp [hc]))⟩
            intro b hb
            rcases GluePair.mem_set _ _ _ _ hb with hb | rfl
            · exact hp'.1 b hb
            · have := hl (k0, w) (by simp)
              simp only at this ⊢
              omega
      exact hgen tbl h.td (fun c hc => (h.tl c hc).1)
  case noteOff =>
    cases hg : tbl.get? m.nkey with
    | none => simp [hg] at hs
    | some jt =>
      simp only [hg] at hs
      cases hs
      have hmem := GluePair.mem_of_get? _ _ _ hg
      have hj := h.tl _ hmem
      simp only at hj
      have hsub := GluePair.erase_sublist tbl m.nkey
      have hother : ∀ c ∈ tbl.erase m.nkey, c.2.1 ≠ jt.1 := by
        intro c hc
        -- `c` is another entry of `tbl`, or the erased one was a duplicate-free first occurrence
        have hgen : ∀ (d : Assoc (Int × Int) (Nat × Int)), d.Pairwise (fun a b => a.2.1 ≠ b.2.1) → d.get? m.nkey = some jt →
            ∀ c ∈ d.erase m.nkey, c.2.1 ≠ jt.1 := by
          intro d
          induction d with
          | nil => intro _ hh; simp [Assoc.get?] at hh
          | cons a rest ih =>
            intro hp hh c hc
            obtain ⟨k0, w⟩ := a
            have hp' := List.pairwise_cons.1 hp
            by_cases hk : k0 = m.nkey
            · simp only [Assoc.get?, hk, if_true, Option.some.injEq] at hh
              subst hh
              simp only [Assoc.erase, hk, if_true] at hc
              exact fun e => hp'.1 c hc e.symm
            · simp only [Assoc.get?, hk, if_false] at hh
              simp only [Assoc.erase, hk, if_false] at hc
              rcases List.mem_cons.1 hc with rfl | hc
              · exact hp'.1 _ (GluePair.mem_of_get? _ _ _ hh)
              · exact ih hp'.2 hh c hc
        exact hgen tbl h.td hg c hc
      by_cases hc : m.time - jt.2 ≤ 0
      · simp only [hc, if_true]
        refine ⟨⟨?_, ?_, ?_, h.td.sublist hsub⟩, trivial⟩
        · intro x hx
          simp only [List.mem_append, List.mem_cons, List.not_mem_nil, or_false] at hx
          rcases hx with hx | rfl | rfl
          · exact hlt' x hx
          · omega
          · omega
        · simp only
          rw [List.nodup_append]
          refine ⟨h.nd, ?_, ?_⟩
          · simp only [List.nodup_cons, List.mem_singleton, List.not_mem_nil, not_false_eq_true, List.nodup_nil, and_true]
            omega
          · intro a ha b hb e
            subst e
            simp only [List.mem_cons, List.not_mem_nil, or_false] at hb
            rcases hb with rfl | rfl
            · exact hj.2 ha
            · exact Nat.lt_irrefl _ (h.lt _ ha)
        · intro c hc'
          have hc2 := htl' c (hsub.subset hc')
          refine ⟨hc2.1, ?_⟩
          simp only [List.mem_append, List.mem_cons, List.not_mem_nil, or_false, not_or]
          refine ⟨hc2.2, hother c hc', ?_⟩
          have := (h.tl c (hsub.subset hc')).1
          omega
      · simp only [hc, if_false]
        exact ⟨⟨hlt', h.nd, fun c hc' => htl' c (hsub.subset hc'), h.td.sublist hsub⟩, trivial⟩
  all_goals
    cases hs
    exact ⟨⟨hlt', h.nd, htl', h.td⟩, rfl⟩

theorem cinvM_fold : ∀ (ms : List Msg) (st st' : CSt), foldlM' cstep st ms = .ok st' → CInvM st →
    CInvM st' ∧ st'.1 = st.1 + ms.length := by
  intro ms
  induction ms with
  | nil => intro st st' h hi; cases h; exact ⟨hi, rfl⟩
  | cons m ms ih =>
    intro st st' h hi
    simp only [foldlM'] at h
    cases hc : cstep st m with
    | error e => rw [hc] at h; cases h
    | ok st1 =>
      rw [hc] at h
      obtain ⟨h1, h2⟩ := cinvM_step st m hi st1 hc
      obtain ⟨h3, h4⟩ := ih st1 st' h h1
      exact ⟨h3, by rw [h4, h2, List.length_cons]; omega⟩

/-! ### third loop of `quantise`: popping the collected indices in ascending order -/

/-- `for shift, k in enumerate(ks): l.pop(k - shift)` -/
def popAll {α : Type} : List α → List Nat → Nat → List α
  | l, [], _ => l
  | l, k :: ks, sh => popAll (l.eraseIdx (k - sh)) ks (sh + 1)

/-- keep the elements whose index (counted from `sh`) is not listed -/
def keepNot {α : Type} (l : List α) (ks : List Nat) (sh : Nat) : List α :=
  ((l.zipIdx sh).filter (fun p => !ks.contains p.2)).map (·.1)

theorem popAll_append {α : Type} (A : List α) : ∀ (ks : List Nat) (B : List α) (sh : Nat), ks.Pairwise (· < ·) →
    (∀ k ∈ ks, sh + A.length ≤ k) → popAll (A ++ B) ks sh = A ++ popAll B ks (sh + A.length) := by
  intro ks
  induction ks with
  | nil => intro B sh _ _; rfl
  | cons k ks ih =>
    intro B sh hp h
    have hk := h k (by simp)
    have hp' := List.pairwise_cons.1 hp
    simp only [popAll]
    rw [List.eraseIdx_append_of_length_le (by omega)]
    have : k - sh - A.length = k - (sh + A.length) := by omega
    rw [this, ih _ (sh + 1) hp'.2 (fun k' hk' => by have := hp'.1 k' hk'; omega)]
    congr 2
    omega

theorem map_fst_zipIdx {α : Type} : ∀ (l : List α) (n : Nat), (l.zipIdx n).map (·.1) = l := by
  intro l
  induction l with
  | nil => intro n; rfl
  | cons x xs ih => intro n; simp [List.zipIdx_cons, ih]

theorem keepNot_append {α : Type} (A B : List α) (ks : List Nat) (sh : Nat) (h : ∀ k ∈ ks, sh + A.length ≤ k) :
    keepNot (A ++ B) ks sh = A ++ keepNot B ks (sh + A.length) := by
  unfold keepNot
  rw [List.zipIdx_append, List.filter_append, List.map_append]
  congr 1
  · have : (A.zipIdx sh).filter (fun p => !ks.contains p.2) = A.zipIdx sh := by
      apply List.filter_eq_self.2
      intro p hp
      have hlt : p.2 < sh + A.length := by
        have := List.mem_zipIdx hp
        omega
      simp only [Bool.not_eq_true', List.contains_eq_mem, decide_eq_false_iff_not]
      intro hm
      have := h p.2 hm
      omega
    rw [this]
    exact map_fst_zipIdx A sh

theorem popAll_eq_keepNot {α : Type} : ∀ (ks : List Nat) (l : List α) (sh : Nat), ks.Pairwise (· < ·) →
    (∀ k ∈ ks, sh ≤ k ∧ k < sh + l.length) → popAll l ks sh = keepNot l ks sh := by
  intro ks
  induction ks with
  | nil =>
    intro l sh _ _
    simp only [popAll, keepNot, List.contains_nil, Bool.not_false]
    rw [List.filter_eq_self.2 (by simp), map_fst_zipIdx]
  | cons k ks ih =>
    intro l sh hp hb
    have hk := hb k (by simp)
    have hp' := List.pairwise_cons.1 hp
    obtain ⟨p, hpk⟩ : ∃ p, k = sh + p := ⟨k - sh, by omega⟩
    subst hpk
    have hpl : p < l.length := by omega
    have hsplit : l = l.take p ++ l[p] :: l.drop (p + 1) := by
      rw [← List.drop_eq_getElem_cons hpl, List.take_append_drop]
    simp only [popAll, Nat.add_sub_cancel_left]
    have herase : l.eraseIdx p = l.take p ++ l.drop (p + 1) := by
      rw [List.eraseIdx_eq_take_drop_succ]
    rw [herase]
    have hlen : (l.take p).length = p := by simp; omega
    rw [popAll_append _ _ _ _ hp'.2 (by
      intro k' hk'
      have := hp'.1 k' hk'
      rw [hlen]; omega)]
    rw [hlen]
    rw [ih (l.drop (p + 1)) (sh + 1 + p) hp'.2 (by
      intro k' hk'
      have h1 := hp'.1 k' hk'
      have h2 := hb k' (by simp [hk'])
      simp only [List.length_drop]
      omega)]
    -- the right-hand side
    conv => rhs; rw [hsplit]
    rw [keepNot_append _ _ _ _ (by
      intro k' hk'
      rw [hlen]
      rcases List.mem_cons.1 hk' with rfl | hk'
      · omega
      · have := hp'.1 k' hk'; omega)]
    rw [hlen]
    congr 1
    unfold keepNot
    simp only [List.zipIdx_cons, List.filter_cons, List.contains_cons, beq_self_eq_true, Bool.true_or, Bool.not_true,
      Bool.false_eq_true, if_false]
    have : sh + p + 1 = sh + 1 + p := by omega
    rw [this]
    congr 1
    apply List.filter_congr
    intro q hq
    have hq2 : sh + 1 + p ≤ q.2 := (List.mem_zipIdx hq).1
    have : (q.2 == sh + p) = false := by simp; omega
    simp [this]

theorem keepNot_map {α β : Type} (f : α → β) (l : List α) (ks : List Nat) (sh : Nat) :
    keepNot (l.map f) ks sh = (keepNot l ks sh).map f := by
  induction l generalizing sh with
  | nil => rfl
  | cons x xs ih =>
    simp only [keepNot, List.map_cons, List.zipIdx_cons, List.filter_cons] at ih ⊢
    split
    · simp only [List.map_cons, List.cons.injEq, true_and]; exact ih (sh + 1)
    · exact ih (sh + 1)

theorem keepNot_congr {α : Type} (l : List α) (ks ks' : List Nat) (sh : Nat) (h : ∀ x, ks.contains x = ks'.contains x) :
    keepNot l ks sh = keepNot l ks' sh := by
  unfold keepNot
  congr 1
  apply List.filter_congr
  intro p _
  rw [h]

theorem removeIndices_eq (l : List Msg) (idx : List Nat) : removeIndices l idx = keepNot l idx 0 := rfl

theorem ins_sorted {α : Type} (le : α → α → Bool) (htot : ∀ a b, le a b = true ∨ le b a = true)
    (htr : ∀ a b c, le a b = true → le b c = true → le a c = true) (x : α) :
    ∀ (l : List α), l.Pairwise (fun a b => le a b = true) → (ins le x l).Pairwise (fun a b => le a b = true) := by
  intro l
  induction l with
  | nil => intro _; simp [ins]
  | cons y ys ih =>
    intro hp
    have hp' := List.pairwise_cons.1 hp
    simp only [ins]
    by_cases hxy : le x y = true
    · simp only [hxy, if_true]
      refine List.pairwise_cons.2 ⟨?_, hp⟩
      intro b hb
      rcases List.mem_cons.1 hb with rfl | hb
      · exact hxy
      · exact htr _ _ _ hxy (hp'.1 b hb)
    · simp only [hxy, if_false]
      have hyx : le y x = true := by rcases htot x y with h | h; exact absurd h hxy; exact h
      refine List.pairwise_cons.2 ⟨?_, ih hp'.2⟩
      intro b hb
      rcases List.mem_cons.1 ((ins_perm le x ys).subset hb) with rfl | hb
      · exact hyx
      · exact hp'.1 b hb

theorem isort_sorted {α : Type} (le : α → α → Bool) (htot : ∀ a b, le a b = true ∨ le b a = true)
    (htr : ∀ a b c, le a b = true → le b c = true → le a c = true) (l : List α) :
    (isort le l).Pairwise (fun a b => le a b = true) := by
  induction l with
  | nil => simp [isort]
  | cons x xs ih => exact ins_sorted le htot htr x _ ih

/-- ascending sort of the collected indices -/
def sortNat (l : List Nat) : List Nat := isort (fun a b => decide (a ≤ b)) l

theorem sortNat_strict (l : List Nat) (h : l.Nodup) : (sortNat l).Pairwise (· < ·) := by
  have hs := isort_sorted (fun a b : Nat => decide (a ≤ b)) (by intro a b; simp; omega) (by intro a b c; simp; omega) l
  have hn : (sortNat l).Nodup := ((isort_perm _ l).nodup_iff).2 h
  unfold sortNat at hn ⊢
  generalize isort (fun a b => decide (a ≤ b)) l = s at hs hn
  induction s with
  | nil => exact List.Pairwise.nil
  | cons x xs ih =>
    have hs' := List.pairwise_cons.1 hs
    have hn' := List.nodup_cons.1 hn
    refine List.pairwise_cons.2 ⟨?_, ih hs'.2 hn'.2⟩
    intro b hb
    have h1 := hs'.1 b hb
    simp only [decide_eq_true_eq] at h1
    have : x ≠ b := fun e => hn'.1 (e ▸ hb)
    omega

theorem pySortedInt_cast (l : List Nat) : pySortedInt (l.map (fun (x : Nat) => (x : Int))) = (sortNat l).map (fun (x : Nat) => (x : Int)) := by
  unfold pySortedInt sortNat
  rw [← map_isort (fun (x : Nat) => (x : Int)) (fun a b : Int => decide (a ≤ b)) l]
  congr 1
  apply isort_congr
  intro a _ b _
  simp

/-! ### the generated `quantise` -/

theorem getElem?_enumFrom {α : Type} : ∀ (l : List α) (k : Int) (n : Nat), (enumFrom k l)[n]? = (l[n]?).map (fun x => (k + (n : Int), x)) := by
  intro l
  induction l with
  | nil => intro k n; simp [enumFrom_nil]
  | cons x xs ih =>
    intro k n
    rw [enumFrom_cons]
    cases n with
    | zero => simp
    | succ n =>
      simp only [List.getElem?_cons_succ, ih]
      cases xs[n]? <;> simp
      omega

theorem enumFrom_split {α : Type} (q : List α) (pre post : List (Int × α)) (a : Int × α) (h : enumFrom 0 q = pre ++ a :: post) :
    a.1 = (pre.length : Int) ∧ q[pre.length]? = some a.2 := by
  have h1 : (enumFrom 0 q)[pre.length]? = some a := by rw [h]; simp
  rw [getElem?_enumFrom] at h1
  cases hq : q[pre.length]? with
  | none => rw [hq] at h1; simp at h1
  | some x =>
    rw [hq] at h1
    simp only [Option.map_some, Option.some.injEq] at h1
    subst h1
    simp

theorem map_snd_enumFrom {α : Type} : ∀ (l : List α) (k : Int), (enumFrom k l).map (·.2) = l := by
  intro l
  induction l with
  | nil => intro k; simp [enumFrom_nil]
  | cons x xs ih => intro k; rw [enumFrom_cons]; simp [ih]

theorem pyPopAt_nat {α : Type} (l : List α) (n : Nat) (h : n < l.length) : pyPopAt l (n : Int) = .ok (l.eraseIdx n) := by
  unfold pyPopAt
  have h0 : ¬ ((n : Int) < 0) := by omega
  simp only [h0, if_false, Int.toNat_natCast, h, if_true]
  rfl

/-- the third loop of `quantise` -/
theorem pop_loop {α : Type} : ∀ (ks : List Nat) (l : List α) (sh : Nat), ks.Pairwise (· < ·) →
    (∀ k ∈ ks, sh ≤ k ∧ k < sh + l.length) →
    forIn (enumFrom (sh : Int) (ks.map (fun (x : Nat) => (x : Int)))) l
      (fun (x : Int × Int) (s : List α) => (do let r ← pyPopAt s (x.2 - x.1); pure (ForInStep.yield r) : Except PyErr (ForInStep (List α))))
      = .ok (popAll l ks sh) := by
  intro ks
  induction ks with
  | nil => intro l sh _ _; simp [enumFrom_nil, popAll]; rfl
  | cons k ks ih =>
    intro l sh hp hb
    have hk := hb k (by simp)
    have hp' := List.pairwise_cons.1 hp
    simp only [List.map_cons, enumFrom_cons, List.forIn_cons, popAll]
    have hsub : ((k : Int) - (sh : Int)) = ((k - sh : Nat) : Int) := by omega
    rw [hsub, pyPopAt_nat _ _ (by omega)]
    simp only [ViewTieL.ok_bind]
    have hsh : ((sh : Int) + 1) = ((sh + 1 : Nat) : Int) := by omega
    rw [hsh]
    exact ih _ (sh + 1) hp'.2 (by
      intro k' hk'
      have h1 := hp'.1 k' hk'
      have h2 := hb k' (by simp [hk'])
      rw [List.length_eraseIdx]
      split <;> omega)

/-- values of an association list mapped -/
def amapV {κ ν ν' : Type} (f : ν → ν') (d : Assoc κ ν) : Assoc κ ν' := d.map (fun kv => (kv.1, f kv.2))

section
variable {κ ν ν' : Type} [DecidableEq κ]
theorem get?_amapV (f : ν → ν') (d : Assoc κ ν) (k : κ) : (amapV f d).get? k = (d.get? k).map f := by
  induction d with
  | nil => rfl
  | cons a rest ih =>
    obtain ⟨k0, v⟩ := a
    simp only [amapV, List.map_cons, Assoc.get?] at ih ⊢
    split
    · rfl
    · exact ih
theorem set_amapV (f : ν → ν') (d : Assoc κ ν) (k : κ) (v : ν) : (amapV f d).set k (f v) = amapV f (d.set k v) := by
  induction d with
  | nil => rfl
  | cons a rest ih =>
    obtain ⟨k0, w⟩ := a
    simp only [amapV, List.map_cons, Assoc.set] at ih ⊢
    split
    · rfl
    · simp only [List.map_cons, ih]
theorem erase_amapV (f : ν → ν') (d : Assoc κ ν) (k : κ) : (amapV f d).erase k = amapV f (d.erase k) := by
  induction d with
  | nil => rfl
  | cons a rest ih =>
    obtain ⟨k0, w⟩ := a
    simp only [amapV, List.map_cons, Assoc.erase] at ih ⊢
    split
    · rfl
    · simp only [List.map_cons, ih]
end

/-- (source repaired for D41: the generated text begins with `normalise_absolute()`; the model is `quantiseS` = the walk on the sorted
    list.  The loops are then those of the unrepaired text with `sortRefs h0 refs0` for the references.) -/
theorem quantise_spec (h0 : Heap) (refs0 : List Nat) (steps : List Int) (hrefs0 : ∀ r ∈ refs0, r < h0.length)
    (hok : ∀ m ∈ h0, m.ch ≠ pyNone) (hnd0 : refs0.Nodup) (hpos : ∀ s ∈ steps, 0 < s) :
    PostOf (SCoda.quantiseS steps (deref h0 refs0)) (Gen.Abs2.quantise h0 refs0 (some steps)) := by
  unfold Gen.Abs2.quantise
  simp only [Option.isNone_some, Bool.false_eq_true, if_false, normaliseAbsolute_eq, ViewTieL.ok_bind]
  have hrefs : ∀ r ∈ sortRefs h0 refs0, r < h0.length := fun r hr => hrefs0 r ((mem_isort _ _ _).1 hr)
  have hnd : (sortRefs h0 refs0).Nodup := (isort_perm _ refs0).nodup_iff.2 hnd0
  rw [SCoda.quantiseS, SCoda.normaliseAbs, ← deref_sortRefs]
  generalize sortRefs h0 refs0 = refs at hrefs hnd ⊢
  refine forIn_relE_bind (fun pre b s => QRel h0 pre b s) (fun s r => qStep steps s (hGet h0 r)) _ _ (PostOf (SCoda.quantise steps (deref h0 refs))) refs
    ?hstep (h0, [], [], []) {} ?hinit ?hok ?herr
  case hinit =>
    exact ⟨rfl, rfl, rfl, by simp, fun _ _ _ => rfl, Nat.le_refl _, by intro k hk; simp [Assoc.contains, Assoc.get?] at hk⟩
  case herr =>
    intro e he
    unfold PostOf SCoda.quantise
    have : foldlM' (qStep steps) {} (deref h0 refs) = .error e := by rw [deref, foldlM'_map]; exact he
    rw [this]
    rfl
  case hok =>
    intro b' s' hfold hR
    obtain ⟨heap, q, om, tm⟩ := b'
    have hm : foldlM' (qStep steps) {} (deref h0 refs) = .ok s' := by rw [deref, foldlM'_map]; exact hfold
    have hq : q.map (hGet heap) = s'.out.reverse := hR.out
    unfold SCoda.quantise
    rw [hm]
    simp only [ViewTieL.ok_bind]
    rw [collapsedGo_fold, ← hq]
    rw [pyEnumerate_eq]
    have hfoldeq : foldlM' cstep (0, [], []) (q.map (hGet heap))
        = foldlM' (fun st (x : Int × Nat) => cstep st (hGet heap x.2)) (0, [], []) (enumFrom 0 q) := by
      rw [← foldlM'_map cstep (fun x : Int × Nat => hGet heap x.2) (enumFrom 0 q) (0, [], [])]
      congr 1
      have : (fun x : Int × Nat => hGet heap x.2) = hGet heap ∘ (·.2) := rfl
      rw [this, ← List.map_map, map_snd_enumFrom]
    -- second loop
    refine forIn_relE_bind
      (fun (pre : List (Int × Nat)) (b : Assoc (Int × Int) (Int × Int) × List Int) (st : CSt) =>
        st.1 = pre.length ∧ b.1 = amapV (fun jt : Nat × Int => ((jt.1 : Int), jt.2)) st.2.1 ∧ b.2 = st.2.2.map (fun (x : Nat) => (x : Int)))
      (fun st x => cstep st (hGet heap x.2)) _ _
      (PostOf (do
        let idx ← (match foldlM' cstep (0, [], []) (q.map (hGet heap)) with | .ok st => .ok st.2.2 | .error e => .error e : Except Err (List Nat))
        .ok (sortAbs (removeIndices (q.map (hGet heap)) idx))))
      (enumFrom 0 q) ?hstep2 ([], []) (0, [], []) ⟨rfl, rfl, rfl⟩ ?hok2 ?herr2
    case herr2 =>
      intro e he
      have := hfoldeq
      rw [he] at this
      rw [this]
      rfl
    case hstep2 =>
      rintro pre ⟨iI, msg⟩ post ⟨tblG, idxG⟩ ⟨i, tbl, acc⟩ hl ⟨h1, h2, h3⟩
      simp only at h1 h2 h3
      subst h1 h2 h3
      have hiI : iI = (pre.length : Int) := (enumFrom_split q pre post (iI, msg) hl).1
      subst hiI
      simp only [cstep, Msg.nkey]
      by_cases hon : (hGet heap msg).ty = .noteOn
      · simp only [hon, beq_self_eq_true, if_true]
        refine ⟨_, rfl, by simp, ?_, rfl⟩
        simp only
        rw [← set_amapV]
      · have hon' : ((hGet heap msg).ty == MType.noteOn) = false := by simpa using hon
        by_cases hoff : (hGet heap msg).ty = .noteOff
        · simp only [hoff, beq_self_eq_true, if_true, show (MType.noteOff == MType.noteOn) = false from rfl, Bool.false_eq_true, if_false]
          have hgg := get?_amapV (fun jt : Nat × Int => ((jt.1 : Int), jt.2)) tbl ((hGet heap msg).ch, (hGet heap msg).note)
          have hcases : tbl.get? ((hGet heap msg).ch, (hGet heap msg).note) = none ∨ ∃ jt, tbl.get? ((hGet heap msg).ch, (hGet heap msg).note) = some jt := by
            cases tbl.get? ((hGet heap msg).ch, (hGet heap msg).note) <;> simp
          rcases hcases with hg | ⟨jt, hg⟩
          · rw [hg] at hgg
            simp only [hg, dictGet_none hgg]
            rfl
          · rw [hg] at hgg
            simp only [hg, dictGet_some hgg, ViewTieL.ok_bind, Option.map_some]
            by_cases hc : (hGet heap msg).time - jt.2 ≤ 0
            · simp only [hc, decide_true, if_true]
              refine ⟨_, rfl, by simp, ?_, by simp⟩
              simp only
              rw [erase_amapV]
            · simp only [hc, decide_false, Bool.false_eq_true, if_false]
              refine ⟨_, rfl, by simp, ?_, rfl⟩
              simp only
              rw [erase_amapV]
        · have hoff' : ((hGet heap msg).ty == MType.noteOff) = false := by simpa using hoff
          simp only [hon', hoff', Bool.false_eq_true, if_false]
          exact ⟨_, rfl, by simp, rfl, rfl⟩
    case hok2 =>
      rintro ⟨tblG, idxG⟩ ⟨i, tbl, acc⟩ hf ⟨_, _, h3⟩
      simp only at h3
      subst h3
      rw [hfoldeq, hf]
      obtain ⟨hinv, hlen⟩ := cinvM_fold _ _ _ (hfoldeq ▸ hf) ⟨by simp, by simp, by simp, List.Pairwise.nil⟩
      simp only [Nat.zero_add, List.length_map] at hlen
      simp only [ViewTieL.ok_bind]
      rw [pySortedInt_cast, pyEnumerate_eq]
      have hsorted := sortNat_strict acc hinv.nd
      have hbound : ∀ k ∈ sortNat acc, 0 ≤ k ∧ k < 0 + q.length := by
        intro k hk
        have := hinv.lt k ((mem_isort _ _ _).1 hk)
        simp only at this
        omega
      have hpop := pop_loop (sortNat acc) q 0 hsorted hbound
      simp only [Int.natCast_zero] at hpop
      rw [hpop]
      simp only [ViewTieL.ok_bind, normaliseAbsolute_eq]
      refine ⟨heap, _, rfl, ?_⟩
      rw [deref_sortRefs, popAll_eq_keepNot _ _ _ hsorted hbound, deref, ← keepNot_map, removeIndices_eq]
      congr 1
      apply keepNot_congr
      intro x
      simp only [List.contains_eq_mem, sortNat, mem_isort]
  case hstep =>
    intro pre r post b s hl hR
    obtain ⟨heap, q, om, tm⟩ := b
    have hrl : r < h0.length := hrefs r (by rw [hl]; simp)
    have hrp : r ∉ pre := by
      intro hm
      rw [hl, List.nodup_append] at hnd
      exact hnd.2.2 r hm r (by simp) rfl
    have hnq : r ∉ q := by
      intro hm
      rcases (hR.qr r hm).1 with h | h
      · exact hrp h
      · omega
    have hg : hGet heap r = hGet h0 r := hR.un r hrl hrp
    have hrh : r < heap.length := by have := hR.len; simp only at this; omega
    have hR1 := qrel_skip hR r
    obtain ⟨hom, htm⟩ : om = s.opens ∧ tm = s.timings := ⟨hR.om, hR.tm⟩
    subst hom htm
    have hright := positions_right (hGet h0 r).time steps
    simp only [optGet, pure_bind] at hright
    have hposs : steps.map (fun s => (hGet h0 r).time / s * s) ++ steps.map (fun s => (hGet h0 r).time / s * s + s)
        = possiblePositions steps (hGet h0 r).time := rfl
    simp only [optGet, optAttr, pure_bind, hg, positions_left _ steps hpos, ViewTieL.ok_bind, hright, List.nil_append, hposs]
    generalize hpp : possiblePositions steps (hGet h0 r).time = pp
    by_cases hon : (hGet h0 r).ty = .noteOn
    · simp only [hon, beq_self_eq_true, if_true]
      rw [nearest_bind, nearestR_eq]
      cases hn : nearest (hGet h0 r).time pp with
      | error e =>
        have : qStep steps s (hGet h0 r) = .error e := by
          unfold qStep; simp only [hon, hpp, hn]; rfl
        rw [this]; rfl
      | ok t =>
        simp only [ViewTieL.ok_bind]
        have hH : (hUpd heap r fun o_ => { ty := o_.ty, ch := o_.ch, time := t, note := o_.note, vel := o_.vel, ctl := o_.ctl, prog := o_.prog, num := o_.num, den := o_.den, key := o_.key }) = setTime heap r t := rfl
        have h1 : hGet (setTime heap r t) r = ({ (hGet h0 r) with time := t } : Msg) := by rw [hGet_setTime_self _ _ _ hrh, hg]
        have h2 : ∀ x, hGet (setTime heap r t ++ x) r = ({ (hGet h0 r) with time := t } : Msg) := by
          intro x; rw [hGet_append_lt _ _ _ (by rw [length_setTime]; exact hrh), h1]
        simp only [hH, h1, h2]
        rw [qStep_on steps s _ hon, hpp, hn]
        simp only [Msg.nkey]
        have hR2 := qrel_store hR1 r (by simp) hnq t
        have hch : chanOfInt (hGet h0 r).ch = (hGet h0 r).ch := chanOfInt_ok (hok _ (hGet_mem h0 r hrl))
        by_cases hopen : s.opens.contains ((hGet h0 r).ch, (hGet h0 r).note) = true
        · -- the note is still open: it is closed at the new onset first
          have htim : (s.timings.get? ((hGet h0 r).ch, (hGet h0 r).note)).isSome = true := by
            have := hR.sub _ hopen; rwa [contains_eq] at this
          have hget : dictGet s.timings ((hGet h0 r).ch, (hGet h0 r).note)
              = .ok ((s.timings.get? ((hGet h0 r).ch, (hGet h0 r).note)).getD []) := dictGet_getD _ _ [] htim
          simp only [hopen, if_true, hget, ViewTieL.ok_bind, onClose, hch, length_setTime]
          have hR3 := qrel_tables (qrel_fresh hR2 (Msg.mkOff (hGet h0 r).ch (hGet h0 r).note t))
            (s.opens.erase ((hGet h0 r).ch, (hGet h0 r).note))
            (s.timings.set ((hGet h0 r).ch, (hGet h0 r).note) ((s.timings.get? ((hGet h0 r).ch, (hGet h0 r).note)).getD [] ++ [t]))
            (by intro k hk; exact contains_set_of _ _ _ _ (hR.sub k (contains_of_erase _ _ _ hk)))
          rw [length_setTime] at hR3
          have hsim := onFinish_sim (s1 := QSt.mk (Msg.mkOff (hGet h0 r).ch (hGet h0 r).note t :: s.out)
              (s.opens.erase ((hGet h0 r).ch, (hGet h0 r).note))
              (s.timings.set ((hGet h0 r).ch, (hGet h0 r).note) ((s.timings.get? ((hGet h0 r).ch, (hGet h0 r).note)).getD [] ++ [t])))
            hR3 r ((hGet h0 r).ch, (hGet h0 r).note) t (hGet h0 r) (by simp)
            (by rw [List.length_append, length_setTime]; omega) (h2 _)
          cases hq : onFinish ((hGet h0 r).ch, (hGet h0 r).note) t (hGet h0 r)
              (QSt.mk (Msg.mkOff (hGet h0 r).ch (hGet h0 r).note t :: s.out) (s.opens.erase ((hGet h0 r).ch, (hGet h0 r).note))
                (s.timings.set ((hGet h0 r).ch, (hGet h0 r).note) ((s.timings.get? ((hGet h0 r).ch, (hGet h0 r).note)).getD [] ++ [t]))) with
          | error e => exact hsim.2 e hq
          | ok c' =>
            obtain ⟨b', hb, hr'⟩ := hsim.1 c' hq
            exact ⟨b', hb, hr'⟩
        · have hopen' : s.opens.contains ((hGet h0 r).ch, (hGet h0 r).note) = false := by simpa using hopen
          simp only [hopen', Bool.false_eq_true, if_false, onClose]
          have hsim := onFinish_sim hR2 r ((hGet h0 r).ch, (hGet h0 r).note) t (hGet h0 r) (by simp)
            (by rw [length_setTime]; exact hrh) h1
          cases hq : onFinish ((hGet h0 r).ch, (hGet h0 r).note) t (hGet h0 r) s with
          | error e => exact hsim.2 e hq
          | ok c' =>
            obtain ⟨b', hb, hr'⟩ := hsim.1 c' hq
            exact ⟨b', hb, hr'⟩
    · have hon' : ((hGet h0 r).ty == MType.noteOn) = false := by simpa using hon
      simp only [hon', Bool.false_eq_true, if_false]
      by_cases hoff : (hGet h0 r).ty = .noteOff
      · simp only [hoff, beq_self_eq_true, if_true]
        rw [qStep_off steps s _ hoff, hpp]
        simp only [Msg.nkey, contains_eq]
        have hcases : s.opens.get? ((hGet h0 r).ch, (hGet h0 r).note) = none ∨ ∃ o, s.opens.get? ((hGet h0 r).ch, (hGet h0 r).note) = some o := by
          cases s.opens.get? ((hGet h0 r).ch, (hGet h0 r).note) <;> simp
        rcases hcases with hopen | ⟨openT, hopen⟩
        · simp only [hopen, Option.isSome_none, Bool.false_eq_true, if_false]
          exact ⟨_, rfl, hR1⟩
        · simp only [hopen, Option.isSome_some, if_true, dictGet_some hopen, ViewTieL.ok_bind]
          -- the filtering loop
          rw [ViewTieL.forIn_spec' _ (fun l st => pure (st ++ l.filter (fun p => !(decide (p - openT ≤ 0)))))]
          rotate_left
          · intro b; simp
          · intro a as b
            by_cases hc : (!(decide (a - openT ≤ 0))) = true
            · simp [hc, List.filter_cons]
            · simp [hc, List.filter_cons]
          simp only [List.nil_append, pure_bind]
          have htim : (s.timings.get? ((hGet h0 r).ch, (hGet h0 r).note)).isSome = true := by
            have := hR.sub ((hGet h0 r).ch, (hGet h0 r).note) (by rw [contains_eq, hopen]; rfl)
            rwa [contains_eq] at this
          have hget : dictGet s.timings ((hGet h0 r).ch, (hGet h0 r).note)
              = .ok ((s.timings.get? ((hGet h0 r).ch, (hGet h0 r).note)).getD []) := dictGet_getD _ _ [] htim
          have hsub' : ∀ t, ∀ k, (s.opens.erase ((hGet h0 r).ch, (hGet h0 r).note)).contains k = true →
              (s.timings.set ((hGet h0 r).ch, (hGet h0 r).note) ((s.timings.get? ((hGet h0 r).ch, (hGet h0 r).note)).getD [] ++ [t])).contains k = true := by
            intro t k hk
            exact contains_set_of _ _ _ _ (hR.sub k (contains_of_erase _ _ _ hk))
          -- the rest is the same for both forms of `valid_positions`
          have hbody : ∀ V : List Int, (do
                let i ← Gen.Abs2.findMinimalDistance (hGet h0 r).time V
                let t ← pyGet V i
                let c8_ ← dictGet s.timings ((hGet h0 r).ch, (hGet h0 r).note)
                pure (ForInStep.yield (hUpd heap r (fun o_ => { o_ with time := t }), q ++ [r], s.opens.erase ((hGet h0 r).ch, (hGet h0 r).note),
                  s.timings.set ((hGet h0 r).ch, (hGet h0 r).note) (c8_ ++ [(hGet (hUpd heap r (fun o_ => { o_ with time := t })) r).time])) : ForInStep QB)
              : Except PyErr (ForInStep QB))
              = (match nearest (hGet h0 r).time V with
                 | .ok t => .ok (ForInStep.yield (setTime heap r t, q ++ [r], s.opens.erase ((hGet h0 r).ch, (hGet h0 r).note),
                      s.timings.set ((hGet h0 r).ch, (hGet h0 r).note) ((s.timings.get? ((hGet h0 r).ch, (hGet h0 r).note)).getD [] ++ [t])))
                 | .error e => .error (errMapL e)) := by
            intro V
            rw [nearest_bind, nearestR_eq]
            cases hn : nearest (hGet h0 r).time V with
            | error e => rfl
            | ok t =>
              simp only [ViewTieL.ok_bind, hget]
              have hst : (hGet (hUpd heap r (fun o_ => { o_ with time := t })) r).time = t := by
                have := hGet_setTime_self heap r t hrh
                simp only [setTime] at this
                rw [this]
              rw [hst]
              rfl
          have hrel : ∀ t, QRel h0 (pre ++ [r]) (setTime heap r t, q ++ [r], s.opens.erase ((hGet h0 r).ch, (hGet h0 r).note),
                s.timings.set ((hGet h0 r).ch, (hGet h0 r).note) ((s.timings.get? ((hGet h0 r).ch, (hGet h0 r).note)).getD [] ++ [t]))
              (QSt.mk ({ (hGet h0 r) with time := t } :: s.out) (s.opens.erase ((hGet h0 r).ch, (hGet h0 r).note))
                (s.timings.set ((hGet h0 r).ch, (hGet h0 r).note) ((s.timings.get? ((hGet h0 r).ch, (hGet h0 r).note)).getD [] ++ [t]))) := by
            intro t
            have h2 := qrel_tables (qrel_keep (qrel_store hR1 r (by simp) hnq t) r (by simp) (by rw [length_setTime]; exact hrh))
              _ _ (hsub' t)
            rw [hGet_setTime_self _ _ _ hrh, hg] at h2
            exact h2
          generalize hf : pp.filter (fun p => !(decide (p - openT ≤ 0))) = filt
          cases filt with
          | nil =>
            simp only [List.length_nil, Int.natCast_zero, beq_self_eq_true, if_true, List.nil_append]
            have hb := hbody [openT]
            rw [hb]
            cases hn : nearest (hGet h0 r).time [openT] with
            | error e => rfl
            | ok t => exact ⟨_, rfl, hrel t⟩
          | cons a as =>
            have h1 : ((((a :: as).length : Nat) : Int) == 0) = false := by simp; omega
            have h2 : ((a :: as).length == 0) = false := by simp
            simp only [h1, h2, Bool.false_eq_true, if_false]
            have hb := hbody (a :: as)
            rw [hb]
            cases hn : nearest (hGet h0 r).time (a :: as) with
            | error e => rfl
            | ok t => exact ⟨_, rfl, hrel t⟩
      · have hoff' : ((hGet h0 r).ty == MType.noteOff) = false := by simpa using hoff
        simp only [hoff', Bool.false_eq_true, if_false]
        rw [qStep_other steps s _ hon hoff, hpp, nearest_bind, nearestR_eq]
        cases hn : nearest (hGet h0 r).time pp with
        | error e => rfl
        | ok t =>
          simp only [ViewTieL.ok_bind]
          refine ⟨_, rfl, ?_⟩
          have h2 := qrel_keep (qrel_store hR1 r (by simp) hnq t) r (by simp) (by rw [length_setTime]; exact hrh)
          rw [hGet_setTime_self _ _ _ hrh, hg] at h2
          exact h2


end SCoda.AbsTie2L
