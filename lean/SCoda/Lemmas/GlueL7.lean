/-
  Helper lemmas for Props/C03f, part 7 (audit A1 (ii), item (B)): bar by bar, the note events of the cut of a run are
  those of the run's bars.
  * the notes of a run's tracks are those of the first bars followed by those of the remaining bars one bar length
    later (`piecePairs_run`);
  * on a time-ordered event list `takeWhile (before B)` / `dropWhile (before B)` are filters (`takeWhile_before_eq`,
    `dropWhile_before_eq`);
  * `cut_notes`: the note events of bar `j` of `cutAt` are, up to order, the notes of the `j`-th bar sequences.
-/
import SCoda.Lemmas.GlueL6
namespace SCoda.GlueL
open SCoda SCoda.C01 SCoda.ChunksL SCoda.ExtractL SCoda.E2E SCoda.MergeL SCoda.NotesL SCoda.GlueAux SCoda.EQ

/-! ## list plumbing -/

theorem flatMap_zipIdx_map {α β γ} (f : α → β) (G : β × Nat → List γ) : ∀ (l : List α) (n : Nat),
    ((l.map f).zipIdx n).flatMap G = (l.zipIdx n).flatMap (fun x => G (f x.1, x.2)) := by
  intro l
  induction l with
  | nil => intro n; rfl
  | cons a l ih => intro n; simp only [List.map_cons, List.zipIdx_cons, List.flatMap_cons, ih]

theorem flatMap_append_perm {α β} (f g : α → List β) : ∀ (l : List α),
    (l.flatMap (fun x => f x ++ g x)).Perm (l.flatMap f ++ l.flatMap g) := by
  intro l
  induction l with
  | nil => exact List.Perm.refl _
  | cons a l ih =>
    simp only [List.flatMap_cons, List.append_assoc]
    refine List.Perm.append_left _ ?_
    refine (List.Perm.append_left _ ih).trans ?_
    rw [← List.append_assoc, ← List.append_assoc]
    exact List.Perm.append_right _ List.perm_append_comm

theorem noteEv_shift (s : Int) (evs : List (Int × Pairing)) :
    (shiftEvs s evs).filter isNoteEv = shiftEvs s (evs.filter isNoteEv) := by
  unfold shiftEvs
  rw [List.filter_map]
  congr 1
  apply List.filter_congr
  intro ev _
  simp only [Function.comp, isNoteEv, List.head?_map]
  cases ev.2.head? <;> rfl

theorem perm_shift (a : Int) {X Y : List (Int × Pairing)} (h : X.Perm Y) : (shiftEvs a X).Perm (shiftEvs a Y) := by
  unfold shiftEvs
  exact h.map _

theorem filter_swap {α} (p q : α → Bool) (l : List α) : (l.filter p).filter q = (l.filter q).filter p := by
  rw [List.filter_filter, List.filter_filter]
  apply List.filter_congr
  intro x _
  exact Bool.and_comm _ _

theorem evOf_shP (a : Int) (Y : List (Msg × Msg)) : (Y.map (shP a)).map evOf = shiftEvs a (Y.map evOf) := by
  unfold shiftEvs
  rw [List.map_map, List.map_map]
  rfl

theorem pairsGo_mem1 (l : List Msg) : ∀ (os : List Msg) (p : Msg × Msg), p ∈ pairsGo l os → p.1 ∈ l ∨ p.1 ∈ os := by
  induction l with
  | nil => intro os p h; simp [pairsGo] at h
  | cons m ms ih =>
    intro os p h
    simp only [pairsGo] at h
    split at h
    · rcases ih _ p h with h1 | h1
      · exact Or.inl (List.mem_cons_of_mem _ h1)
      · rcases List.mem_cons.1 h1 with rfl | h1
        · exact Or.inl List.mem_cons_self
        · exact Or.inr (List.mem_filter.1 h1).1
    · split at h
      · cases hf : List.find? (fun o => o.nkey == m.nkey) os with
        | none =>
          rw [hf] at h
          rcases ih _ p h with h1 | h1
          · exact Or.inl (List.mem_cons_of_mem _ h1)
          · exact Or.inr h1
        | some o =>
          rw [hf] at h
          rcases List.mem_cons.1 h with rfl | h
          · exact Or.inr (List.mem_of_find?_eq_some hf)
          · rcases ih _ p h with h1 | h1
            · exact Or.inl (List.mem_cons_of_mem _ h1)
            · exact Or.inr (List.mem_filter.1 h1).1
      · rcases ih _ p h with h1 | h1
        · exact Or.inl (List.mem_cons_of_mem _ h1)
        · exact Or.inr h1

/-- the notes of a good track start at or after tick 0, have positive length and end by the end of the track -/
theorem trackPairs_bounds (i : Nat) (r : List Msg) (hg : TrackGood i r) (p : Msg × Msg) (hp : p ∈ trackPairs i r) :
    0 ≤ p.1.time ∧ p.1.time < p.2.time ∧ p.2.time ≤ totalWait r := by
  have hb : ∀ m ∈ trackEvents i r, 0 ≤ m.time ∧ m.time ≤ totalWait r := by
    intro m hm
    simp only [trackEvents, List.mem_map] at hm
    obtain ⟨e, he, rfl⟩ := hm
    have := eventsRelGo_bounds r 0 hg.1.1 e he
    simp only
    omega
  have h1 : p.1 ∈ trackEvents i r := by
    rcases pairsGo_mem1 _ _ p hp with h | h
    · exact h
    · simp at h
  have h2 := pairsGo_mem _ _ p hp
  have h3 := hg.2.2 (mkNote p) (by rw [trackNotes_eq]; exact List.mem_map_of_mem hp)
  simp only [mkNote] at h3
  exact ⟨(hb _ h1).1, h3, (hb _ h2).2⟩

/-! ## the notes of a run, bar by bar -/

/-- every track's bar sequences run along `sigs` -/
def RunAll (c : Cfg) (sigs : List (Int × Int)) (segs : List (List (List Msg))) : Prop :=
  ∀ i t, segs[i]? = some t → Run c i sigs t

theorem runAll_tail {c : Cfg} {g : Int × Int} {rest : List (Int × Int)} {segs : List (List (List Msg))}
    (h : RunAll c (g :: rest) segs) : RunAll c rest (segs.map List.tail) := by
  intro i t ht
  simp only [List.getElem?_map, Option.map_eq_some_iff] at ht
  obtain ⟨t0, ht0, rfl⟩ := ht
  cases h i t0 ht0 with
  | cons _ h2 => exact h2

theorem runAll_head {c : Cfg} {g : Int × Int} {rest : List (Int × Int)} {segs : List (List (List Msg))}
    (h : RunAll c (g :: rest) segs) : ∀ i s, (segs.map (fun t => t.headD []))[i]? = some s → SegOk c i g s := by
  intro i s hs
  simp only [List.getElem?_map, Option.map_eq_some_iff] at hs
  obtain ⟨t0, ht0, rfl⟩ := hs
  cases h i t0 ht0 with
  | cons h1 _ => exact h1

/-- the notes of the run's tracks: those of the first bars, then those of the remaining bars one bar length later -/
theorem piecePairs_run (c : Cfg) (g : Int × Int) (rest : List (Int × Int)) (segs : List (List (List Msg)))
    (h : RunAll c (g :: rest) segs) :
    (piecePairs (runTracks segs)).Perm
      (piecePairs (segs.map (fun t => t.headD [])) ++ (piecePairs (runTracks (segs.map List.tail))).map (shP (c.capacity g.1 g.2))) := by
  have e1 : piecePairs (runTracks segs) = segs.zipIdx.flatMap (fun x => trackPairs x.2 x.1.flatten) := by
    simp only [piecePairs, runTracks]
    exact flatMap_zipIdx_map _ _ segs 0
  have e2 : piecePairs (segs.map (fun t => t.headD [])) = segs.zipIdx.flatMap (fun x => trackPairs x.2 (x.1.headD [])) := by
    simp only [piecePairs]
    exact flatMap_zipIdx_map _ _ segs 0
  have e3 : (piecePairs (runTracks (segs.map List.tail))).map (shP (c.capacity g.1 g.2))
      = segs.zipIdx.flatMap (fun x => (trackPairs x.2 x.1.tail.flatten).map (shP (c.capacity g.1 g.2))) := by
    simp only [piecePairs, runTracks, List.map_map]
    rw [flatMap_zipIdx_map (List.flatten ∘ List.tail) _ segs 0, List.map_flatMap]
    rfl
  rw [e1, e2, e3]
  have e4 : segs.zipIdx.flatMap (fun x => trackPairs x.2 x.1.flatten)
      = segs.zipIdx.flatMap (fun x => trackPairs x.2 (x.1.headD [])
          ++ (trackPairs x.2 x.1.tail.flatten).map (shP (c.capacity g.1 g.2))) := by
    apply flatMap_congr_mem
    intro x hx
    obtain ⟨t, i⟩ := x
    have hr := h i t (mem_zipIdx_get hx)
    cases hr with
    | @cons _ s _ t' h1 _ =>
      simp only [List.flatten_cons, List.headD_cons, List.tail_cons]
      rw [trackPairs_append i s t'.flatten h1.good.2.1, h1.dur]
  rw [e4]
  exact flatMap_append_perm _ _ _

theorem piecePairs_nil (c : Cfg) (segs : List (List (List Msg))) (h : RunAll c [] segs) : piecePairs (runTracks segs) = [] := by
  simp only [piecePairs, runTracks]
  rw [flatMap_zipIdx_map, List.flatMap_eq_nil_iff]
  intro x hx
  obtain ⟨t, i⟩ := x
  have hr := h i t (mem_zipIdx_get hx)
  cases hr with
  | nil => rfl

/-! ## `takeWhile` / `dropWhile` on a time-ordered event list are filters -/

theorem not_before_of_le (B : Int) (e x : Int × Pairing) (hne : x.2 ≠ []) (hle : HeadLe e x) (he : before B e = false) :
    before B x = false := by
  cases hx : x.2.head? with
  | none => rw [List.head?_eq_none_iff] at hx; exact absurd hx hne
  | some m =>
    cases hh : e.2.head? with
    | none => simp [before, hh] at he
    | some m0 =>
      have := hle m0 hh m hx
      simp only [before, hh, decide_eq_false_iff_not] at he
      simp only [before, hx, decide_eq_false_iff_not]
      omega

theorem takeWhile_before_eq (B : Int) : ∀ (evs : List (Int × Pairing)), evs.Pairwise HeadLe → (∀ ev ∈ evs, ev.2 ≠ []) →
    evs.takeWhile (before B) = evs.filter (before B)
      ∧ evs.dropWhile (before B) = evs.filter (fun ev => !before B ev) := by
  intro evs
  induction evs with
  | nil => intro _ _; exact ⟨rfl, rfl⟩
  | cons e es ih =>
    intro hp hne
    have hp' := List.pairwise_cons.1 hp
    have hne' : ∀ ev ∈ es, ev.2 ≠ [] := fun x hx => hne x (List.mem_cons_of_mem _ hx)
    by_cases hb : before B e = true
    · obtain ⟨i1, i2⟩ := ih hp'.2 hne'
      refine ⟨?_, ?_⟩
      · rw [List.takeWhile_cons_of_pos hb, List.filter_cons_of_pos hb, i1]
      · rw [List.dropWhile_cons_of_pos hb, List.filter_cons_of_neg (by simp [hb]), i2]
    · have hb' : before B e = false := by simpa using hb
      have hall : ∀ x ∈ es, before B x = false := fun x hx => not_before_of_le B e x (hne' x hx) (hp'.1 x hx) hb'
      refine ⟨?_, ?_⟩
      · rw [List.takeWhile_cons_of_neg hb, List.filter_cons_of_neg hb]
        symm
        rw [List.filter_eq_nil_iff]
        intro x hx
        simp [hall x hx]
      · rw [List.dropWhile_cons_of_neg hb, List.filter_cons_of_pos (by simp [hb'])]
        congr 1
        symm
        rw [List.filter_eq_self]
        intro x hx
        simp [hall x hx]

/-! ## the cut, bar by bar -/

/-- per bar of the run, the note events of the bar sequences (bar-relative ticks) -/
def barNotes : List (Int × Int) → List (List (List Msg)) → List (List (Int × Pairing))
  | [], _ => []
  | _ :: rest, segs => (piecePairs (segs.map (fun t => t.headD []))).map evOf :: barNotes rest (segs.map List.tail)

/-- bar by bar the same note events up to order -/
def PermAll : List BarEv → List (List (Int × Pairing)) → Prop
  | [], [] => True
  | b :: bs, N :: Ns => (b.evs.filter isNoteEv).Perm N ∧ PermAll bs Ns
  | _, _ => False

theorem head_before (c : Cfg) (A : Int) (g : Int × Int) (segs : List (List (List Msg)))
    (hh : ∀ i s, (segs.map (fun t => t.headD []))[i]? = some s → SegOk c i g s) :
    ∀ ev ∈ shiftEvs A ((piecePairs (segs.map (fun t => t.headD []))).map evOf), before (A + c.capacity g.1 g.2) ev = true := by
  intro ev hev
  unfold shiftEvs at hev
  simp only [List.map_map, List.mem_map] at hev
  obtain ⟨p, hp, rfl⟩ := hev
  simp only [piecePairs, List.mem_flatMap] at hp
  obtain ⟨x, hx, hpx⟩ := hp
  have hs := hh x.2 x.1 (mem_zipIdx_get hx)
  have := trackPairs_bounds x.2 x.1 hs.good p hpx
  rw [hs.dur] at this
  simp only [Function.comp, evOf, before, List.map_cons, List.head?_cons, decide_eq_true_eq]
  omega

theorem tail_not_before (A : Int) (tracks : List (List Msg)) (hg : ∀ i r, tracks[i]? = some r → TrackGood i r) :
    ∀ ev ∈ shiftEvs A ((piecePairs tracks).map evOf), before A ev = false := by
  intro ev hev
  unfold shiftEvs at hev
  simp only [List.map_map, List.mem_map] at hev
  obtain ⟨p, hp, rfl⟩ := hev
  simp only [piecePairs, List.mem_flatMap] at hp
  obtain ⟨x, hx, hpx⟩ := hp
  have := trackPairs_bounds x.2 x.1 (hg x.2 x.1 (mem_zipIdx_get hx)) p hpx
  simp only [Function.comp, evOf, before, List.map_cons, List.head?_cons, decide_eq_false_iff_not]
  omega

theorem runAll_trackGood {c : Cfg} {sigs : List (Int × Int)} {segs : List (List (List Msg))} (h : RunAll c sigs segs) :
    ∀ i r, (runTracks segs)[i]? = some r → TrackGood i r := by
  intro i r hr
  simp only [runTracks, List.getElem?_map, Option.map_eq_some_iff] at hr
  obtain ⟨t, ht, rfl⟩ := hr
  exact run_good c i sigs t (h i t ht)

/-- **bar by bar, the note events of the cut are the notes of the run's bars**: a time-ordered event list whose note
    events are (up to order) the notes of the run's tracks laid from tick `A`, cut at the cumulative bar lengths -/
theorem cut_notes (c : Cfg) : ∀ (sigs : List (Int × Int)) (A : Int) (segs : List (List (List Msg))) (evs : List (Int × Pairing)),
    RunAll c sigs segs → evs.Pairwise HeadLe → (∀ ev ∈ evs, ev.2 ≠ []) →
    (evs.filter isNoteEv).Perm (shiftEvs A ((piecePairs (runTracks segs)).map evOf)) →
    PermAll (cutAt c A sigs evs) (barNotes sigs segs) := by
  intro sigs
  induction sigs with
  | nil => intro _ _ _ _ _ _ _; trivial
  | cons g rest ih =>
    intro A segs evs hrun hord hne hperm
    have hh := runAll_head hrun
    have htl := runAll_tail hrun
    -- the run's notes: first bars, then the rest one bar later
    have hsplit : (evs.filter isNoteEv).Perm
        (shiftEvs A ((piecePairs (segs.map (fun t => t.headD []))).map evOf)
          ++ shiftEvs (A + c.capacity g.1 g.2) ((piecePairs (runTracks (segs.map List.tail))).map evOf)) := by
      refine hperm.trans ?_
      refine (perm_shift A ((piecePairs_run c g rest segs hrun).map evOf)).trans ?_
      rw [List.map_append, evOf_shP, shiftEvs_append, shiftEvs_shiftEvs, Int.add_comm (c.capacity g.1 g.2) A]
    cases rest with
    | nil =>
      simp only [cutAt, barNotes, PermAll, and_true]
      rw [noteEv_shift]
      have h0 : piecePairs (runTracks (segs.map List.tail)) = [] := piecePairs_nil c _ htl
      rw [h0] at hsplit
      simp only [List.map_nil, shiftEvs_nil, List.append_nil] at hsplit
      have := perm_shift (-A) hsplit
      have e : shiftEvs (-A) (shiftEvs A ((piecePairs (segs.map (fun t => t.headD []))).map evOf))
          = (piecePairs (segs.map (fun t => t.headD []))).map evOf := by
        rw [shiftEvs_shiftEvs, (by omega : A + -A = 0), shiftEvs_zero]
      rw [← e]
      exact this
    | cons g2 rest' =>
      obtain ⟨tw, dw⟩ := takeWhile_before_eq (A + c.capacity g.1 g.2) evs hord hne
      have hB1 := head_before c A g segs hh
      have hB2 := tail_not_before (A + c.capacity g.1 g.2) (runTracks (segs.map List.tail)) (runAll_trackGood htl)
      refine ⟨?_, ?_⟩
      · show ((shiftEvs (-A) (evs.takeWhile (before (A + c.capacity g.1 g.2)))).filter isNoteEv).Perm _
        rw [noteEv_shift, tw, filter_swap]
        have hf : ((evs.filter isNoteEv).filter (before (A + c.capacity g.1 g.2))).Perm
            (shiftEvs A ((piecePairs (segs.map (fun t => t.headD []))).map evOf)) := by
          refine (hsplit.filter _).trans ?_
          rw [List.filter_append, List.filter_eq_self.2 hB1, List.filter_eq_nil_iff.2 (fun x hx => by simp [hB2 x hx]),
            List.append_nil]
        have := perm_shift (-A) hf
        have e : shiftEvs (-A) (shiftEvs A ((piecePairs (segs.map (fun t => t.headD []))).map evOf))
            = (piecePairs (segs.map (fun t => t.headD []))).map evOf := by
          rw [shiftEvs_shiftEvs, (by omega : A + -A = 0), shiftEvs_zero]
        rw [← e]
        exact this
      · apply ih (A + c.capacity g.1 g.2) (segs.map List.tail) _ htl (hord.sublist (List.dropWhile_sublist _))
          (fun ev hev => hne ev ((List.dropWhile_sublist _).subset hev))
        rw [dw, filter_swap]
        refine (hsplit.filter _).trans ?_
        rw [List.filter_append, List.filter_eq_nil_iff.2 (fun x hx => by simp [hB1 x hx]),
          List.filter_eq_self.2 (fun x hx => by simp [hB2 x hx]), List.nil_append]

end SCoda.GlueL
