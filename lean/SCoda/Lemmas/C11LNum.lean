/-
  Helper lemmas for `Props/C11d.lean`, §C: the `PyNum` numeric tower (audit A10, C11 layer 3).
  `int(a / d)` on a float quotient of two ints is *truncated* division `Int.tdiv` (toward zero), for every
  sign; it is the floor division `a / d` the Lean models use only where the quotient is non-negative or exact.
  Closed forms of the loops of `get_note_durations` etc. (`Model/PyNumSites.lean`).
  (Single Mathlib modules, as `Props/C11b.lean`.)
-/
import Mathlib.Data.Rat.Lemmas
import SCoda.Props.C11b
import SCoda.Model.PyNumSites
import SCoda.Model.Midi
namespace SCoda.C11L
open SCoda PyNum

/-- `int(a / d)` for ints `a`, `d ≠ 0`: division truncated toward zero -/
theorem pyint_trunc_pos (a d : Int) (hd : 0 < d) :
    pyint (.float ((a : Rat) / (d : Rat))) = .int (a.tdiv d) := by
  have hdq : (0 : Rat) < (d : Rat) := by exact_mod_cast hd
  by_cases ha : 0 ≤ a
  · rw [C11.pyint_div a d _ ha hd rfl, Int.tdiv_eq_ediv_of_nonneg ha]
  · have ha' : a < 0 := by omega
    have hneg : ¬ (0 : Rat) ≤ (a : Rat) / (d : Rat) := by
      have : (a : Rat) < 0 := by exact_mod_cast ha'
      exact not_le.2 (div_neg_of_neg_of_pos this hdq)
    have hq : -((a : Rat) / (d : Rat)) = ((-a : Int) : Rat) / (d : Rat) := by push_cast; ring
    simp only [pyint, hneg, if_false, hq, C11.rat_floor_div (-a) d hd]
    rw [← Int.tdiv_eq_ediv_of_nonneg (by omega : 0 ≤ -a), Int.neg_tdiv, Int.neg_neg]

theorem pyint_trunc (a d : Int) (hd : d ≠ 0) (q : Rat) (hq : q = (a : Rat) / (d : Rat)) :
    pyint (.float q) = .int (a.tdiv d) := by
  subst hq
  rcases Int.lt_or_gt_of_ne hd with h | h
  · have h1 : (a : Rat) / (d : Rat) = ((-a : Int) : Rat) / ((-d : Int) : Rat) := by
      push_cast; rw [neg_div_neg_eq]
    rw [h1, pyint_trunc_pos (-a) (-d) (by omega), Int.neg_tdiv, Int.tdiv_neg, Int.neg_neg]
  · exact pyint_trunc_pos a d h

/-! ### capacities -/

theorem barCapacityPy_trunc (n ppqn d : Int) (hd : d ≠ 0) :
    barCapacityPy n ppqn d = .int ((n * ppqn * 4).tdiv d) := by
  unfold barCapacityPy
  simp only [PyNum.mul, PyNum.truediv, PyNum.toRat]
  apply pyint_trunc _ _ hd
  have : (d : Rat) ≠ 0 := by exact_mod_cast hd
  push_cast
  field_simp

theorem splitBarLenPy_trunc (n ppqn d : Int) (hd : d ≠ 0) :
    splitBarLenPy n ppqn d = .int ((n * ppqn * 4).tdiv d) := by
  unfold splitBarLenPy
  simp only [PyNum.mul, PyNum.truediv, PyNum.toRat]
  apply pyint_trunc _ _ hd
  have : (d : Rat) ≠ 0 := by exact_mod_cast hd
  push_cast
  field_simp

theorem tokCapacityPy_trunc (n ppqn d : Int) (hd : d ≠ 0) :
    tokCapacityPy n ppqn d = .int ((ppqn * 4 * n).tdiv d) := by
  unfold tokCapacityPy
  simp only [PyNum.mul, PyNum.truediv, PyNum.toRat]
  apply pyint_trunc _ _ hd
  push_cast
  rfl

/-! ### sums of int-typed values stay int-typed -/

theorem foldl_add_int (ts : List Int) (a : Int) :
    ts.foldl (fun acc t => PyNum.add acc (.int t)) (.int a) = .int (a + ts.sum) := by
  induction ts generalizing a with
  | nil => simp
  | cons t ts ih =>
    rw [List.foldl_cons]
    show ts.foldl _ (PyNum.int (a + t)) = _
    rw [ih, List.sum_cons, Int.add_assoc]

theorem currentLengthPy_eq (waits : List Int) : currentLengthPy waits = .int waits.sum := by
  unfold currentLengthPy; rw [foldl_add_int]; simp

theorem saveTimePy_eq (times : List Int) : saveTimePy times = .int times.sum := by
  unfold saveTimePy; rw [foldl_add_int]; simp [pyint]

/-! ### eighth scaling and halving -/

theorem eighthScaled_toRat (n D d : Int) (hd : d ≠ 0) :
    eighthScaledPy n D d = .float (((n * D : Int) : Rat) / (d : Rat)) := by
  unfold eighthScaledPy
  simp only [PyNum.mul, PyNum.truediv, PyNum.toRat]
  have : (d : Rat) ≠ 0 := by exact_mod_cast hd
  congr 1
  push_cast
  field_simp

theorem eighthIsIntegerPy_eq (n D d : Int) (hd : d ≠ 0) :
    eighthIsIntegerPy n D d = decide ((n * D) % d = 0) := by
  unfold eighthIsIntegerPy
  rw [eighthScaled_toRat n D d hd]
  simp only [pyfloat, PyNum.toRat, isInteger]
  have h := Rat.den_div_intCast_eq_one_iff (n * D) d hd
  rw [Int.dvd_iff_emod_eq_zero] at h
  by_cases hm : (n * D) % d = 0
  · have := h.2 hm
    simp only [hm, decide_true, beq_iff_eq]; exact this
  · have : ¬ (((n * D : Int) : Rat) / (d : Rat)).den = 1 := fun hh => hm (h.1 hh)
    simp only [hm, decide_false, beq_eq_false_iff_ne, ne_eq]; exact this

theorem eighthIntPy_eq (n D d : Int) (hd : d ≠ 0) (hm : (n * D) % d = 0) :
    eighthIntPy n D d = .int ((n * D) / d) := by
  unfold eighthIntPy
  rw [eighthScaled_toRat n D d hd, pyint_trunc (n * D) d hd _ rfl,
    Int.tdiv_eq_ediv_of_dvd (Int.dvd_of_emod_eq_zero hm)]

theorem halfPy_trunc (a : Int) : halfPy a = .int (a.tdiv 2) := by
  unfold halfPy
  simp only [PyNum.truediv, PyNum.toRat]
  exact pyint_trunc a 2 (by decide) _ (by push_cast; rfl)

theorem halfPy_eq (a : Int) (h : a % 2 = 0) : halfPy a = .int (a / 2) := by
  rw [halfPy_trunc, Int.tdiv_eq_ediv_of_dvd (Int.dvd_of_emod_eq_zero h)]

/-! ### MIDI load -/

theorem pyround_eq (x : PyNum) : pyround x = .int (roundHalfEven x.toRat) := by
  cases x with
  | float q => rfl
  | int i =>
    simp only [pyround, PyNum.toRat, roundHalfEven, Rat.floor_intCast, sub_self]
    norm_num

theorem loadPoint_toRat (ppqn filePpq : Int) (deltas : List Int) (cur : PyNum) :
    (deltas.foldl (fun cur t => PyNum.add cur (PyNum.mul (.int t) (scalingFactorPy ppqn filePpq))) cur).toRat
      = cur.toRat + (deltas.sum : Rat) * ((ppqn : Rat) / (filePpq : Rat)) := by
  induction deltas generalizing cur with
  | nil => simp
  | cons t ts ih =>
    rw [List.foldl_cons, ih]
    have : (PyNum.add cur (PyNum.mul (.int t) (scalingFactorPy ppqn filePpq))).toRat
        = cur.toRat + (t : Rat) * ((ppqn : Rat) / (filePpq : Rat)) := by
      cases cur <;> simp [PyNum.add, PyNum.mul, scalingFactorPy, PyNum.truediv, PyNum.toRat]
    rw [this, List.sum_cons]
    push_cast
    ring

theorem loadTimePy_eq (ppqn filePpq : Int) (deltas : List Int) :
    loadTimePy ppqn filePpq deltas
      = .int (roundHalfEven ((deltas.sum : Rat) * (ppqn : Rat) / (filePpq : Rat))) := by
  unfold loadTimePy loadPointPy
  rw [pyround_eq, loadPoint_toRat]
  congr 2
  simp only [PyNum.toRat]
  push_cast
  ring

/-- every delta after the first makes the running point in time a float: it is `round` that restores the int -/
theorem loadPointPy_float (ppqn filePpq : Int) (t : Int) (ts : List Int) :
    (loadPointPy ppqn filePpq (t :: ts)).isInt = false := by
  unfold loadPointPy
  have h : ∀ (ts : List Int) (q : Rat),
      (ts.foldl (fun cur t => PyNum.add cur (PyNum.mul (.int t) (scalingFactorPy ppqn filePpq))) (.float q)).isInt
        = false := by
    intro ts
    induction ts with
    | nil => intro q; rfl
    | cons t ts ih => intro q; simp only [List.foldl_cons]; exact ih _
  simp only [List.foldl_cons]
  exact h ts _

/-! ### `get_note_durations`, `get_tuplet_durations`, `get_dotted_note_durations` in integer arithmetic -/

/-- the first loop in integers: `trunc(ub * base / 2^k)` while `2^k ≤ ub` -/
def noteDurUp (base ub : Int) : Nat → Nat → Option (List Int)
  | 0, _ => Option.none
  | fuel + 1, k =>
    if (2 : Int) ^ k ≤ ub then (noteDurUp base ub fuel (k + 1)).map ((ub * base).tdiv (2 ^ k) :: ·)
    else some []

/-- the second loop in integers: `trunc(base / 2^k)` while `2^k ≤ lb` (started at `k = 1`) -/
def noteDurDown (base lb : Int) : Nat → Nat → Option (List Int)
  | 0, _ => Option.none
  | fuel + 1, k =>
    if (2 : Int) ^ k ≤ lb then (noteDurDown base lb fuel (k + 1)).map (base.tdiv (2 ^ k) :: ·)
    else some []

def getNoteDurations (fuel : Nat) (ub lb base : Int) : Option (List Int) :=
  match noteDurUp base ub fuel 0, noteDurDown base lb fuel 1 with
  | some a, some b => some (a ++ b)
  | _, _ => Option.none

theorem pow2_mono {j k : Nat} (h : j ≤ k) : (2 : Int) ^ j ≤ 2 ^ k :=
  pow_le_pow_right₀ (by decide) h

/-- the loops stop: with enough fuel the result is `some` -/
theorem noteDurUp_isSome (base ub : Int) : ∀ (fuel k : Nat), 1 ≤ fuel → ub < 2 ^ (k + fuel - 1) →
    (noteDurUp base ub fuel k).isSome = true := by
  intro fuel
  induction fuel with
  | zero => intro k h; omega
  | succ fuel ih =>
    intro k _ hb
    simp only [noteDurUp]
    split
    · rename_i hk
      have hf : 1 ≤ fuel := by
        rcases Nat.eq_zero_or_pos fuel with rfl | h
        · simp at hb; omega
        · exact h
      have := ih (k + 1) hf (by rw [show k + 1 + fuel - 1 = k + (fuel + 1) - 1 by omega]; exact hb)
      cases h : noteDurUp base ub fuel (k + 1) <;> simp_all
    · rfl

theorem noteDurDown_isSome (base lb : Int) : ∀ (fuel k : Nat), 1 ≤ fuel → lb < 2 ^ (k + fuel - 1) →
    (noteDurDown base lb fuel k).isSome = true := by
  intro fuel
  induction fuel with
  | zero => intro k h; omega
  | succ fuel ih =>
    intro k _ hb
    simp only [noteDurDown]
    split
    · rename_i hk
      have hf : 1 ≤ fuel := by
        rcases Nat.eq_zero_or_pos fuel with rfl | h
        · simp at hb; omega
        · exact h
      have := ih (k + 1) hf (by rw [show k + 1 + fuel - 1 = k + (fuel + 1) - 1 by omega]; exact hb)
      cases h : noteDurDown base lb fuel (k + 1) <;> simp_all
    · rfl

/-- what the first loop returns, without fuel: `trunc(ub*base / 2^j)` for exactly the `j ≥ k` with `2^j ≤ ub` -/
theorem mem_noteDurUp (base ub : Int) : ∀ (fuel k : Nat) (l : List Int), noteDurUp base ub fuel k = some l →
    ∀ x, x ∈ l ↔ ∃ j, k ≤ j ∧ (2 : Int) ^ j ≤ ub ∧ x = (ub * base).tdiv (2 ^ j) := by
  intro fuel
  induction fuel with
  | zero => intro k l h; cases h
  | succ fuel ih =>
    intro k l h x
    simp only [noteDurUp] at h
    split at h
    · rename_i hk
      cases hr : noteDurUp base ub fuel (k + 1) with
      | none => rw [hr] at h; cases h
      | some l' =>
        rw [hr] at h; cases h
        rw [List.mem_cons, ih (k + 1) l' hr x]
        constructor
        · rintro (rfl | ⟨j, hj, h2, rfl⟩)
          · exact ⟨k, Nat.le_refl _, hk, rfl⟩
          · exact ⟨j, by omega, h2, rfl⟩
        · rintro ⟨j, hj, h2, rfl⟩
          rcases Nat.eq_or_lt_of_le hj with rfl | hlt
          · exact Or.inl rfl
          · exact Or.inr ⟨j, hlt, h2, rfl⟩
    · rename_i hk
      cases h
      constructor
      · intro hx; cases hx
      · rintro ⟨j, hj, h2, _⟩
        exact absurd (Int.le_trans (pow2_mono hj) h2) hk

theorem mem_noteDurDown (base lb : Int) : ∀ (fuel k : Nat) (l : List Int), noteDurDown base lb fuel k = some l →
    ∀ x, x ∈ l ↔ ∃ j, k ≤ j ∧ (2 : Int) ^ j ≤ lb ∧ x = base.tdiv (2 ^ j) := by
  intro fuel
  induction fuel with
  | zero => intro k l h; cases h
  | succ fuel ih =>
    intro k l h x
    simp only [noteDurDown] at h
    split at h
    · rename_i hk
      cases hr : noteDurDown base lb fuel (k + 1) with
      | none => rw [hr] at h; cases h
      | some l' =>
        rw [hr] at h; cases h
        rw [List.mem_cons, ih (k + 1) l' hr x]
        constructor
        · rintro (rfl | ⟨j, hj, h2, rfl⟩)
          · exact ⟨k, Nat.le_refl _, hk, rfl⟩
          · exact ⟨j, by omega, h2, rfl⟩
        · rintro ⟨j, hj, h2, rfl⟩
          rcases Nat.eq_or_lt_of_le hj with rfl | hlt
          · exact Or.inl rfl
          · exact Or.inr ⟨j, hlt, h2, rfl⟩
    · rename_i hk
      cases h
      constructor
      · intro hx; cases hx
      · rintro ⟨j, hj, h2, _⟩
        exact absurd (Int.le_trans (pow2_mono hj) h2) hk

theorem pow2_cast (k : Nat) : (((2 : Int) ^ k : Int) : Rat) = (2 : Rat) ^ k := by push_cast; rfl

theorem noteDurUpPy_eq (base ub : Int) : ∀ (fuel k : Nat) (i : PyNum),
    i.toRat = (ub : Rat) / (2 : Rat) ^ k → ((k = 0 ∧ i = .int ub) ∨ ∃ q, i = .float q) →
    noteDurUpPy (.int base) fuel i = (noteDurUp base ub fuel k).map (·.map PyNum.int) := by
  intro fuel
  induction fuel with
  | zero => intro k i _ _; rfl
  | succ fuel ih =>
    intro k i hi hty
    have hpos : (0 : Rat) < (2 : Rat) ^ k := by positivity
    have hge : PyNum.ge i (.int 1) = decide ((2 : Int) ^ k ≤ ub) := by
      unfold PyNum.ge
      rw [hi]
      apply decide_eq_decide.2
      simp only [PyNum.toRat, Int.cast_one]
      rw [le_div_iff₀ hpos, one_mul, ← pow2_cast]
      exact_mod_cast Iff.rfl
    have hhead : pyint (PyNum.mul i (.int base)) = .int ((ub * base).tdiv (2 ^ k)) := by
      rcases hty with ⟨rfl, rfl⟩ | ⟨q, rfl⟩
      · simp [PyNum.mul, pyint]
      · simp only [PyNum.mul, PyNum.toRat]
        apply pyint_trunc (ub * base) (2 ^ k) (by positivity)
        simp only [PyNum.toRat] at hi
        rw [hi, pow2_cast]
        push_cast
        ring
    have hnext := ih (k + 1) (PyNum.truediv i (.int 2))
      (by show i.toRat / (((2 : Int) : Rat)) = _
          rw [hi]; push_cast; rw [pow_succ]; field_simp)
      (Or.inr ⟨_, rfl⟩)
    simp only [noteDurUpPy, noteDurUp, hge, hhead, hnext]
    by_cases h : (2 : Int) ^ k ≤ ub
    · simp only [h, decide_true, if_true]
      cases noteDurUp base ub fuel (k + 1) <;> simp
    · simp [h]

theorem noteDurDownPy_eq (base lb : Int) : ∀ (fuel k : Nat),
    noteDurDownPy (.int base) (.int lb) fuel (.int (2 ^ k))
      = (noteDurDown base lb fuel k).map (·.map PyNum.int) := by
  intro fuel
  induction fuel with
  | zero => intro k; rfl
  | succ fuel ih =>
    intro k
    have hle : PyNum.le (.int (2 ^ k)) (.int lb) = decide ((2 : Int) ^ k ≤ lb) := by
      unfold PyNum.le
      apply decide_eq_decide.2
      simp only [PyNum.toRat]
      exact_mod_cast Iff.rfl
    have hhead : pyint (PyNum.truediv (.int base) (.int (2 ^ k))) = .int (base.tdiv (2 ^ k)) := by
      simp only [PyNum.truediv, PyNum.toRat]
      exact pyint_trunc base (2 ^ k) (by positivity) _ rfl
    have hnext : PyNum.mul (.int (2 ^ k)) (.int 2) = .int (2 ^ (k + 1)) := by
      simp [PyNum.mul, pow_succ]
    simp only [noteDurDownPy, noteDurDown, hle, hhead, hnext, ih (k + 1)]
    by_cases h : (2 : Int) ^ k ≤ lb
    · simp only [h, decide_true, if_true]
      cases noteDurDown base lb fuel (k + 1) <;> simp
    · simp [h]

/-- `get_note_durations` on int arguments: every element is int-typed and equals the integer formula -/
theorem getNoteDurationsPy_eq (fuel : Nat) (ub lb base : Int) :
    getNoteDurationsPy fuel (.int ub) (.int lb) (.int base)
      = (getNoteDurations fuel ub lb base).map (·.map PyNum.int) := by
  unfold getNoteDurationsPy getNoteDurations
  rw [noteDurUpPy_eq base ub fuel 0 (.int ub) (by simp [PyNum.toRat]) (Or.inl ⟨rfl, rfl⟩)]
  have := noteDurDownPy_eq base lb fuel 1
  simp only [pow_one] at this
  rw [this]
  cases noteDurUp base ub fuel 0 <;> cases noteDurDown base lb fuel 1 <;> simp

/-- `int((nd * rd) / rn)` is truncated division -/
theorem tupletPy_eq (nd rn rd : Int) (hrn : rn ≠ 0) :
    tupletPy (.int nd) (.int rn) (.int rd) = .int ((nd * rd).tdiv rn) := by
  unfold tupletPy
  simp only [PyNum.mul, PyNum.truediv, PyNum.toRat]
  exact pyint_trunc (nd * rd) rn hrn _ rfl

theorem getTupletDurationsPy_eq (nds : List Int) (rn rd : Int) (hrn : rn ≠ 0) :
    getTupletDurationsPy (nds.map PyNum.int) (.int rn) (.int rd)
      = (nds.map fun nd => (nd * rd).tdiv rn).map PyNum.int := by
  unfold getTupletDurationsPy
  simp only [List.map_map]
  apply List.map_congr_left
  intro nd _
  exact tupletPy_eq nd rn rd hrn

/-- the dotted candidate `nd * (1 + (1 - 1 / 2 ** (it + 1)))` is the float `nd * (2^(it+2) - 1) / 2^(it+1)` -/
theorem dottedCandidatePy_eq (nd : Int) (it : Nat) :
    dottedCandidatePy (.int nd) (it : Int)
      = .float (((nd * (2 ^ (it + 2) - 1) : Int) : Rat) / (((2 : Int) ^ (it + 1) : Int) : Rat)) := by
  unfold dottedCandidatePy powInt
  have h0 : (0 : Int) ≤ (it : Int) + 1 := by omega
  have h1 : ((it : Int) + 1).toNat = it + 1 := by omega
  simp only [h0, if_true, h1, PyNum.truediv, PyNum.sub, PyNum.add, PyNum.mul, PyNum.toRat]
  congr 1
  have : ((2 : Rat) ^ (it + 1)) ≠ 0 := by positivity
  push_cast
  field_simp
  ring

/-- kept dotted durations in integers: `nd * (2^(it+2) - 1) / 2^(it+1)` where that division is exact -/
def getDottedNoteDurations (nds : List Int) (iterations : Nat) : List Int :=
  (List.range iterations).flatMap fun it =>
    nds.filterMap fun nd =>
      if (nd * (2 ^ (it + 2) - 1)) % 2 ^ (it + 1) = 0 then some ((nd * (2 ^ (it + 2) - 1)) / 2 ^ (it + 1))
      else Option.none

theorem getDottedNoteDurationsPy_eq (nds : List Int) (iterations : Nat) :
    getDottedNoteDurationsPy (nds.map PyNum.int) iterations
      = (getDottedNoteDurations nds iterations).map PyNum.int := by
  unfold getDottedNoteDurationsPy getDottedNoteDurations
  rw [List.map_flatMap]
  apply List.flatMap_congr
  intro it _
  rw [List.filterMap_map, List.map_filterMap]
  apply List.filterMap_congr
  intro nd _
  have hne : ((2 : Int) ^ (it + 1)) ≠ 0 := by positivity
  simp only [Function.comp, dottedCandidatePy_eq, isInteger]
  have h := Rat.den_div_intCast_eq_one_iff (nd * (2 ^ (it + 2) - 1)) (2 ^ (it + 1)) hne
  rw [Int.dvd_iff_emod_eq_zero] at h
  by_cases hm : (nd * (2 ^ (it + 2) - 1)) % 2 ^ (it + 1) = 0
  · have h1 := h.2 hm
    rw [pyint_trunc _ _ hne _ rfl, Int.tdiv_eq_ediv_of_dvd (Int.dvd_of_emod_eq_zero hm)]
    simp only [beq_iff_eq, h1, if_true, hm, Option.map_some]
  · have h1 : ¬ _ := fun hh => hm (h.1 hh)
    simp only [beq_iff_eq, h1, if_false, hm, Option.map_none]

end SCoda.C11L
