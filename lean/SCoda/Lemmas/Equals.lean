/-
  Helper lemmas for `Props/C17` (`equalsAbs`): order facts about `keyLe`, uniqueness of sorting,
  invariants of `pairStep` / `interleaveGo`, and commutation of the whole pipeline with
  filters and with attribute-erasing maps.
-/
import SCoda.Model.Pairing
import SCoda.Lemmas.Sort
namespace SCoda.EQ
open SCoda

/-! ### `keyLe` is a total preorder, antisymmetric on keys -/

theorem keyLe_total (a b : Msg) : keyLe a b = true ∨ keyLe b a = true := by
  unfold keyLe
  by_cases h1 : a.time < b.time <;> by_cases h2 : b.time < a.time <;>
  by_cases h3 : a.ch < b.ch <;> by_cases h4 : b.ch < a.ch <;>
  by_cases h5 : a.ty.rank < b.ty.rank <;> by_cases h6 : b.ty.rank < a.ty.rank <;>
  simp [h1, h2, h3, h4, h5, h6] <;> omega

theorem keyLe_of_not {a b : Msg} (h : ¬ keyLe a b = true) : keyLe b a = true := by
  rcases keyLe_total a b with h' | h'
  · exact absurd h' h
  · exact h'

theorem keyLe_iff (a b : Msg) : keyLe a b = true ↔
    (a.time < b.time ∨ (a.time = b.time ∧ (a.ch < b.ch ∨ (a.ch = b.ch ∧
      (a.ty.rank < b.ty.rank ∨ (a.ty.rank = b.ty.rank ∧ a.note ≤ b.note)))))) := by
  unfold keyLe
  by_cases h1 : a.time < b.time <;> by_cases h2 : b.time < a.time <;>
  by_cases h3 : a.ch < b.ch <;> by_cases h4 : b.ch < a.ch <;>
  by_cases h5 : a.ty.rank < b.ty.rank <;> by_cases h6 : b.ty.rank < a.ty.rank <;>
  simp [h1, h2, h3, h4, h5, h6] <;> omega

theorem keyLe_trans {a b c : Msg} (h1 : keyLe a b = true) (h2 : keyLe b c = true) :
    keyLe a c = true := by
  rw [keyLe_iff] at *
  omega

theorem keyLe_antisymm {a b : Msg} (h1 : keyLe a b = true) (h2 : keyLe b a = true) :
    a.time = b.time ∧ a.ch = b.ch ∧ a.ty.rank = b.ty.rank ∧ a.note = b.note := by
  rw [keyLe_iff] at *
  omega

abbrev KLe (a b : Msg) : Prop := keyLe a b = true

/-! ### generic insertion-sort facts -/

theorem ins_of_le_head {α} (le : α → α → Bool) (x : α) (l : List α)
    (h : ∀ y ∈ l.head?, le x y = true) : ins le x l = x :: l := by
  cases l with
  | nil => rfl
  | cons y ys => simp [ins, h y (by simp)]

theorem isort_of_pairwise {α} (le : α → α → Bool) (l : List α)
    (h : l.Pairwise (fun a b => le a b = true)) : isort le l = l := by
  induction l with
  | nil => rfl
  | cons x xs ih =>
    rw [List.pairwise_cons] at h
    simp only [isort, ih h.2]
    apply ins_of_le_head
    intro y hy
    exact h.1 y (List.mem_of_mem_head? hy)

theorem ins_sorted (x : Msg) (l : List Msg) (h : l.Pairwise KLe) : (ins keyLe x l).Pairwise KLe := by
  induction l with
  | nil => simp [ins]
  | cons y ys ih =>
    rw [List.pairwise_cons] at h
    simp only [ins]
    split
    · rename_i hle
      refine List.pairwise_cons.2 ⟨?_, List.pairwise_cons.2 h⟩
      intro z hz
      rcases List.mem_cons.1 hz with rfl | hz
      · exact hle
      · exact keyLe_trans hle (h.1 z hz)
    · rename_i hle
      refine List.pairwise_cons.2 ⟨?_, ih h.2⟩
      intro z hz
      rcases List.mem_cons.1 ((ins_perm keyLe x ys).mem_iff.1 hz) with rfl | hz
      · exact keyLe_of_not hle
      · exact h.1 z hz

theorem isort_sorted (l : List Msg) : (isort keyLe l).Pairwise KLe := by
  induction l with
  | nil => simp [isort]
  | cons x xs ih => exact ins_sorted x _ ih

theorem sortAbs_sorted (l : List Msg) : (sortAbs l).Pairwise KLe := isort_sorted l

theorem sortAbs_idem (l : List Msg) : sortAbs (sortAbs l) = sortAbs l :=
  isort_of_pairwise keyLe _ (sortAbs_sorted l)


/-! ### uniqueness of sorting under distinct keys -/

def key4 (m : Msg) : Int × Int × Nat × Int := (m.time, m.ch, m.ty.rank, m.note)

theorem eq_of_nodup_map {α β} (f : α → β) {l : List α} (h : (l.map f).Nodup) {x y : α}
    (hx : x ∈ l) (hy : y ∈ l) (hxy : f x = f y) : x = y := by
  induction l with
  | nil => cases hx
  | cons z zs ih =>
    simp only [List.map_cons, List.nodup_cons, List.mem_map, not_exists, not_and] at h
    rcases List.mem_cons.1 hx with rfl | hx' <;> rcases List.mem_cons.1 hy with rfl | hy'
    · rfl
    · exact absurd hxy.symm (h.1 y hy')
    · exact absurd hxy (h.1 x hx')
    · exact ih h.2 hx' hy'

theorem sortAbs_eq_of_perm {a a' : List Msg} (hp : a.Perm a') (hk : (a.map key4).Nodup) :
    sortAbs a = sortAbs a' := by
  apply List.Perm.eq_of_pairwise (le := KLe) _ (sortAbs_sorted a) (sortAbs_sorted a')
  · exact (sortAbs_perm a).trans (hp.trans (sortAbs_perm a').symm)
  · intro x y hx hy h1 h2
    have hx' : x ∈ a := (mem_sortAbs _ _).1 hx
    have hy' : y ∈ a := hp.mem_iff.2 ((mem_sortAbs _ _).1 hy)
    have := keyLe_antisymm h1 h2
    exact eq_of_nodup_map key4 hk hx' hy' (by simp [key4, this])

/-! ### `zipAll` -/

theorem zipAll_symm {α} (p : α → α → Bool) (hp : ∀ x y, p x y = p y x) (l l' : List α) :
    zipAll p l l' = zipAll p l' l := by
  induction l generalizing l' with
  | nil => cases l' <;> simp [zipAll]
  | cons x xs ih => cases l' with
    | nil => simp [zipAll]
    | cons y ys => simp [zipAll, hp x y, ih ys]

theorem zipAll_refl {α} (p : α → α → Bool) (l : List α) (hp : ∀ x ∈ l, p x x = true) :
    zipAll p l l = true := by
  induction l with
  | nil => rfl
  | cons x xs ih =>
    simp only [zipAll, Bool.and_eq_true]
    exact ⟨hp x (by simp), ih (fun y hy => hp y (by simp [hy]))⟩

theorem zipAll_map_right {α} (p : α → α → Bool) (h : α → α) (l : List α)
    (hp : ∀ x ∈ l, p x (h x) = true) : zipAll p l (l.map h) = true := by
  induction l with
  | nil => rfl
  | cons x xs ih =>
    simp only [List.map_cons, zipAll, Bool.and_eq_true]
    exact ⟨hp x (by simp), ih (fun y hy => hp y (by simp [hy]))⟩

theorem zipAll_map_map {α} (p p' : α → α → Bool) (h : α → α)
    (hp : ∀ x y, p' (h x) (h y) = p x y) (l l' : List α) :
    zipAll p' (l.map h) (l'.map h) = zipAll p l l' := by
  induction l generalizing l' with
  | nil => cases l' <;> simp [zipAll]
  | cons x xs ih => cases l' with
    | nil => simp [zipAll]
    | cons y ys => simp [zipAll, hp x y, ih ys]

/-! ### `pairEq` -/

theorem dec_comm (a b : Int) : decide (a = b) = decide (b = a) :=
  decide_eq_decide.mpr ⟨Eq.symm, Eq.symm⟩

theorem pairEq_symm (f : EqFlags) (x y : Int × Pairing) : pairEq f x y = pairEq f y x := by
  obtain ⟨cx, px⟩ := x
  obtain ⟨cy, py⟩ := y
  unfold pairEq
  have hcond : (cy != cx && !f.ignoreCh) = (cx != cy && !f.ignoreCh) := by rw [bne_comm]
  simp only [hcond]
  split
  · rfl
  · cases px with
    | nil => cases py <;> simp
    | cons sm srest =>
      cases py with
      | nil => simp
      | cons om orest =>
        by_cases hty : sm.ty = om.ty
        · by_cases htm : sm.time = om.time
          · simp only [bne_self_eq_false, Bool.false_eq_true, if_false, hty, htm]
            cases om.ty <;> simp
            case keySignature => rw [bne_comm]
            case timeSignature => rw [bne_comm (a := sm.num), bne_comm (a := sm.den)]
            case noteOn =>
              cases srest <;> cases orest <;> simp
              rename_i s1 _ o1 _
              rw [dec_comm sm.note, dec_comm sm.vel, dec_comm s1.time]
          · have htm' : ¬ om.time = sm.time := fun h => htm h.symm
            simp [hty, htm, htm']
        · have hty' : ¬ om.ty = sm.ty := fun h => hty h.symm
          simp [hty, hty']


/-! ### association lists, `modifyAt` -/

section Assoc
variable {κ ν : Type} [DecidableEq κ]

theorem get?_mem {d : Assoc κ ν} {q : κ} {v : ν} (h : Assoc.get? d q = some v) : (q, v) ∈ d := by
  induction d with
  | nil => simp [Assoc.get?] at h
  | cons kv rest ih =>
    obtain ⟨k, w⟩ := kv
    simp only [Assoc.get?] at h
    split at h
    · rename_i hk
      cases h; subst hk; simp
    · exact List.mem_cons_of_mem _ (ih h)

theorem mem_set {d : Assoc κ ν} {q k : κ} {v w : ν} (h : (k, w) ∈ Assoc.set d q v) :
    (k, w) ∈ d ∨ (k = q ∧ w = v) := by
  induction d with
  | nil => simp [Assoc.set] at h; exact Or.inr h
  | cons kv rest ih =>
    obtain ⟨k', w'⟩ := kv
    simp only [Assoc.set] at h
    split at h
    · rename_i hk
      rcases List.mem_cons.1 h with h | h
      · cases h; exact Or.inr ⟨hk, rfl⟩
      · exact Or.inl (List.mem_cons_of_mem _ h)
    · rcases List.mem_cons.1 h with h | h
      · exact Or.inl (h ▸ List.mem_cons_self)
      · rcases ih h with h | h
        · exact Or.inl (List.mem_cons_of_mem _ h)
        · exact Or.inr h

theorem get?_set (d : Assoc κ ν) (q k : κ) (v : ν) :
    Assoc.get? (Assoc.set d q v) k = if q = k then some v else Assoc.get? d k := by
  induction d with
  | nil => simp [Assoc.set, Assoc.get?]
  | cons kv rest ih =>
    obtain ⟨k', w'⟩ := kv
    simp only [Assoc.set]
    split
    · rename_i hk
      subst hk
      simp only [Assoc.get?]
      split <;> simp_all
    · rename_i hk
      simp only [Assoc.get?, ih]
      split
      · rename_i hk'
        subst hk'
        simp [Ne.symm hk]
      · rfl

end Assoc

theorem mem_modifyAt {α} {f : α → α} {i : Nat} {l : List α} {x : α} (h : x ∈ modifyAt f i l) :
    x ∈ l ∨ ∃ y ∈ l, x = f y := by
  induction l generalizing i with
  | nil => simp [modifyAt] at h
  | cons z zs ih =>
    cases i with
    | zero =>
      simp only [modifyAt] at h
      rcases List.mem_cons.1 h with h | h
      · exact Or.inr ⟨z, by simp, h⟩
      · exact Or.inl (List.mem_cons_of_mem _ h)
    | succ n =>
      simp only [modifyAt] at h
      rcases List.mem_cons.1 h with h | h
      · exact Or.inl (h ▸ List.mem_cons_self)
      · rcases ih h with h | ⟨y, hy, h⟩
        · exact Or.inl (List.mem_cons_of_mem _ h)
        · exact Or.inr ⟨y, List.mem_cons_of_mem _ hy, h⟩

theorem length_modifyAt {α} (f : α → α) (i : Nat) (l : List α) : (modifyAt f i l).length = l.length := by
  induction l generalizing i with
  | nil => simp [modifyAt]
  | cons z zs ih => cases i <;> simp [modifyAt, ih]

/-! ### invariant of `pairStep`: channel keys come from the messages, no pairing is empty -/

def Inv (P : Int → Prop) (d : Assoc Int (List Pairing)) : Prop :=
  ∀ k ps, (k, ps) ∈ d → P k ∧ ∀ p ∈ ps, p ≠ []

theorem inv_set {P : Int → Prop} {d : Assoc Int (List Pairing)} (h : Inv P d) {q : Int}
    {v : List Pairing} (hq : P q) (hv : ∀ p ∈ v, p ≠ []) : Inv P (Assoc.set d q v) := by
  intro k ps hm
  rcases mem_set hm with hm | ⟨rfl, rfl⟩
  · exact h k ps hm
  · exact ⟨hq, hv⟩

theorem inv_getD {P : Int → Prop} {d : Assoc Int (List Pairing)} (h : Inv P d) (q : Int) :
    ∀ p ∈ (Assoc.get? d q).getD [], p ≠ [] := by
  cases hg : Assoc.get? d q with
  | none => simp
  | some v => exact (h q v (get?_mem hg)).2

theorem inv_append {P : Int → Prop} {s : PairSt} (h : Inv P s.pairs) {ch : Int} (hc : P ch)
    {p : Pairing} (hp : p ≠ []) : Inv P (s.append ch p).pairs := by
  apply inv_set h hc
  intro p' hp'
  rcases List.mem_append.1 hp' with hp' | hp'
  · exact inv_getD h ch p' hp'
  · simp at hp'; exact hp' ▸ hp

theorem inv_appendAt {P : Int → Prop} {s : PairSt} (h : Inv P s.pairs) {ch : Int} (hc : P ch)
    (i : Nat) (m : Msg) : Inv P (s.appendAt ch i m).pairs := by
  apply inv_set h hc
  intro p' hp'
  rcases mem_modifyAt hp' with hp' | ⟨y, _, rfl⟩
  · exact inv_getD h ch p' hp'
  · simp

theorem inv_pairStep {P : Int → Prop} (types : List MType) (imp : Bool) {s : PairSt}
    (h : Inv P s.pairs) {m : Msg} (hc : P m.ch) : Inv P (pairStep types imp s m).pairs := by
  unfold pairStep
  split
  · exact h
  · have h1 : Inv P (if s.pairs.contains m.ch then s else { s with pairs := s.pairs.set m.ch [] }).pairs := by
      split
      · exact h
      · exact inv_set h hc (by simp)
    generalize (if s.pairs.contains m.ch then s else { s with pairs := s.pairs.set m.ch [] }) = s1 at h1
    simp only []
    split
    · show Inv P (PairSt.append _ m.ch [m]).pairs
      apply inv_append _ hc (by simp)
      split
      · split
        · exact inv_appendAt h1 hc _ _
        · exact h1
      · exact h1
    · split
      · exact h1
      · exact inv_appendAt h1 hc _ _
    · exact inv_append h1 hc (by simp)


theorem inv_foldl {P : Int → Prop} (types : List MType) (imp : Bool) (l : List Msg)
    (hl : ∀ m ∈ l, P m.ch) {s : PairSt} (h : Inv P s.pairs) :
    Inv P (l.foldl (pairStep types imp) s).pairs := by
  induction l generalizing s with
  | nil => exact h
  | cons m ms ih =>
    simp only [List.foldl_cons]
    exact ih (fun x hx => hl x (List.mem_cons_of_mem _ hx)) (inv_pairStep types imp h (hl m (by simp)))

/-- a completed pairing: non-empty, and a note-on head is followed by its note-off -/
def Good (p : Pairing) : Prop := ∃ m rest, p = m :: rest ∧ (m.ty = .noteOn → rest ≠ [])

theorem good_close (stdLen : Int) {p : Pairing} (h : p ≠ []) : Good (closeUnclosed stdLen true p) := by
  cases p with
  | nil => exact absurd rfl h
  | cons m rest =>
    cases rest with
    | nil =>
      simp only [closeUnclosed]
      by_cases hm : m.ty = .noteOn
      · simp only [hm, beq_self_eq_true, Bool.and_self, if_true]
        exact ⟨m, _, rfl, by simp⟩
      · simp only [hm, beq_iff_eq, Bool.and_true, if_false]
        exact ⟨m, _, rfl, fun h => absurd h hm⟩
    | cons r rs =>
      exact ⟨m, _, rfl, by simp⟩

def Inv2 (P : Int → Prop) (d : List (Int × List Pairing)) : Prop :=
  ∀ k ps, (k, ps) ∈ d → P k ∧ ∀ p ∈ ps, Good p

theorem inv2_pairingsSorted (P : Int → Prop) (types : List MType) (stdLen : Int) (a : List Msg)
    (h : ∀ m ∈ a, P m.ch) : Inv2 P (pairingsSorted types stdLen true a) := by
  have h0 : Inv P (a.foldl (pairStep types true) {}).pairs :=
    inv_foldl types true a h (by intro k ps hm; cases hm)
  intro k ps hm
  simp only [pairingsSorted, List.mem_map] at hm
  obtain ⟨⟨k', ps'⟩, hm', heq⟩ := hm
  cases heq
  refine ⟨(h0 k' ps' hm').1, ?_⟩
  intro p hp
  obtain ⟨p', hp', rfl⟩ := List.mem_map.1 hp
  exact good_close stdLen ((h0 k' ps' hm').2 p' hp')

theorem mem_interleaveGo {fuel : Nat} {chans : List (Int × List Pairing)} {acc : List (Int × Pairing)}
    {x : Int × Pairing} (h : x ∈ interleaveGo fuel chans acc) :
    x ∈ acc ∨ ∃ ps, (x.1, ps) ∈ chans ∧ x.2 ∈ ps := by
  induction fuel generalizing chans acc with
  | zero => simp only [interleaveGo, List.mem_reverse] at h; exact Or.inl h
  | succ fuel ih =>
    simp only [interleaveGo] at h
    split at h
    · exact Or.inl (List.mem_reverse.1 h)
    · rename_i i _ _
      split at h
      · rename_i ch p rest hget
        have hmem : (ch, p :: rest) ∈ chans := List.mem_of_getElem? hget
        rcases ih h with h | ⟨ps, h1, h2⟩
        · rcases List.mem_cons.1 h with h | h
          · subst h
            exact Or.inr ⟨p :: rest, hmem, by simp⟩
          · exact Or.inl h
        · rcases mem_modifyAt h1 with h1 | ⟨c, hc, h1⟩
          · exact Or.inr ⟨ps, h1, h2⟩
          · obtain ⟨c1, c2⟩ := c
            simp only [Prod.mk.injEq] at h1
            obtain ⟨h1a, rfl⟩ := h1
            exact Or.inr ⟨c2, h1a ▸ hc, List.mem_of_mem_drop h2⟩
      · exact Or.inl (List.mem_reverse.1 h)

theorem inv_interleaved (P : Int → Prop) (types : List MType) (stdLen : Int) (a : List Msg)
    (h : ∀ m ∈ a, P m.ch) : ∀ x ∈ interleaved types stdLen true a, P x.1 ∧ Good x.2 := by
  intro x hx
  have h2 := inv2_pairingsSorted P types stdLen (sortAbs a)
    (fun m hm => h m ((mem_sortAbs a m).1 hm))
  simp only [interleaved, pairings] at hx
  rcases mem_interleaveGo hx with hx | ⟨ps, h1, h3⟩
  · cases hx
  · exact ⟨(h2 _ _ h1).1, (h2 _ _ h1).2 _ h3⟩

theorem pairEq_refl (f : EqFlags) {x : Int × Pairing} (h : Good x.2) : pairEq f x x = true := by
  obtain ⟨c, p⟩ := x
  obtain ⟨m, rest, rfl, hr⟩ := h
  unfold pairEq
  simp only [bne_self_eq_false, Bool.false_and, Bool.false_eq_true, if_false]
  cases hm : m.ty <;> simp
  cases rest with
  | nil => exact absurd rfl (hr hm)
  | cons r rs => simp


/-! ### filtering commutes with the stable sort; skipped messages can be filtered away -/

theorem filter_ins (p : Msg → Bool) (x : Msg) (l : List Msg) (h : l.Pairwise KLe) :
    (ins keyLe x l).filter p = if p x then ins keyLe x (l.filter p) else l.filter p := by
  induction l with
  | nil => by_cases hx : p x <;> simp [ins, hx]
  | cons y ys ih =>
    rw [List.pairwise_cons] at h
    simp only [ins]
    by_cases hle : keyLe x y = true
    · simp only [hle, if_true]
      have hhead : ins keyLe x ((y :: ys).filter p) = x :: (y :: ys).filter p := by
        apply ins_of_le_head
        intro z hz
        have hz' : z ∈ y :: ys := (List.mem_filter.1 (List.mem_of_mem_head? hz)).1
        rcases List.mem_cons.1 hz' with rfl | hz'
        · exact hle
        · exact keyLe_trans hle (h.1 z hz')
      rw [hhead]
      by_cases hx : p x <;> simp [List.filter_cons, hx]
    · have hle' : keyLe x y = false := by simpa using hle
      simp only [hle', Bool.false_eq_true, if_false, List.filter_cons, ih h.2]
      by_cases hy : p y <;> by_cases hx : p x <;> simp [hy, hx, ins, hle']

theorem filter_isort (p : Msg → Bool) (l : List Msg) :
    (isort keyLe l).filter p = isort keyLe (l.filter p) := by
  induction l with
  | nil => rfl
  | cons x xs ih =>
    simp only [isort]
    rw [filter_ins p x _ (isort_sorted xs), ih]
    by_cases hx : p x <;> simp [hx, isort]

theorem filter_sortAbs (p : Msg → Bool) (l : List Msg) :
    (sortAbs l).filter p = sortAbs (l.filter p) := filter_isort p l

theorem foldl_pairStep_filter (types : List MType) (imp : Bool) (p : Msg → Bool)
    (hp : ∀ m, p m = false → types.contains m.ty = false) (l : List Msg) (s : PairSt) :
    (l.filter p).foldl (pairStep types imp) s = l.foldl (pairStep types imp) s := by
  induction l generalizing s with
  | nil => rfl
  | cons m ms ih =>
    by_cases hm : p m = true
    · simp only [List.filter_cons, hm, if_true, List.foldl_cons, ih]
    · have hm' : p m = false := by simpa using hm
      have hs : pairStep types imp s m = s := by
        unfold pairStep
        simp only [hp m hm', Bool.not_false, if_true]
      simp only [List.filter_cons, hm', Bool.false_eq_true, if_false, List.foldl_cons, ih, hs]

theorem pairStep_congr (types types' : List MType) (imp : Bool) (s : PairSt) (m : Msg)
    (h : types.contains m.ty = types'.contains m.ty) :
    pairStep types imp s m = pairStep types' imp s m := by
  unfold pairStep
  rw [h]

theorem foldl_pairStep_congr (types types' : List MType) (imp : Bool) (l : List Msg)
    (h : ∀ m ∈ l, types.contains m.ty = types'.contains m.ty) (s : PairSt) :
    l.foldl (pairStep types imp) s = l.foldl (pairStep types' imp) s := by
  induction l generalizing s with
  | nil => rfl
  | cons m ms ih =>
    simp only [List.foldl_cons]
    rw [pairStep_congr types types' imp s m (h m (by simp)),
      ih (fun x hx => h x (List.mem_cons_of_mem _ hx))]

theorem interleaved_filter (types types' : List MType) (stdLen : Int) (imp : Bool) (p : Msg → Bool)
    (hp : ∀ m, p m = false → types.contains m.ty = false)
    (hp' : ∀ m, p m = true → types.contains m.ty = types'.contains m.ty) (a : List Msg) :
    interleaved types stdLen imp a = interleaved types' stdLen imp (a.filter p) := by
  have key : (sortAbs a).foldl (pairStep types imp) {}
      = (sortAbs (a.filter p)).foldl (pairStep types' imp) {} := by
    rw [← filter_sortAbs, ← foldl_pairStep_filter types imp p hp]
    apply foldl_pairStep_congr
    intro m hm
    exact hp' m (List.mem_filter.1 hm).2
  simp only [interleaved, pairings, pairingsSorted, key]


/-! ### `equalsAbs` through its two ingredients -/

def typesOf (f : EqFlags) : List MType :=
  [.noteOn, .noteOff] ++ (if f.ignoreTs then [] else [.timeSignature])
    ++ (if f.ignoreKs then [] else [.keySignature])

theorem equalsAbs_def (ppqn : Int) (f : EqFlags) (a b : List Msg) :
    equalsAbs ppqn f a b =
      ((interleaved (typesOf f) ppqn true a).length == (interleaved (typesOf f) ppqn true b).length
        && zipAll (pairEq f) (interleaved (typesOf f) ppqn true a) (interleaved (typesOf f) ppqn true b)) := rfl

theorem equalsAbs_congr (ppqn : Int) (f f' : EqFlags) (a b a' b' : List Msg)
    (hpe : ∀ x y, pairEq f x y = pairEq f' x y)
    (ha : interleaved (typesOf f) ppqn true a = interleaved (typesOf f') ppqn true a')
    (hb : interleaved (typesOf f) ppqn true b = interleaved (typesOf f') ppqn true b') :
    equalsAbs ppqn f a b = equalsAbs ppqn f' a' b' := by
  have : pairEq f = pairEq f' := funext fun x => funext fun y => hpe x y
  rw [equalsAbs_def, equalsAbs_def, ha, hb, this]


/-! ### maps that commute with the pipeline -/

theorem ins_map {α} (le : α → α → Bool) (g : α → α) (x : α) (l : List α)
    (h : ∀ y ∈ l, le (g x) (g y) = le x y) : ins le (g x) (l.map g) = (ins le x l).map g := by
  induction l with
  | nil => rfl
  | cons y ys ih =>
    simp only [List.map_cons, ins, h y (by simp)]
    split
    · rfl
    · simp only [List.map_cons, ih (fun z hz => h z (List.mem_cons_of_mem _ hz))]

theorem isort_map {α} (le : α → α → Bool) (g : α → α) (l : List α)
    (h : ∀ x ∈ l, ∀ y ∈ l, le (g x) (g y) = le x y) : isort le (l.map g) = (isort le l).map g := by
  induction l with
  | nil => rfl
  | cons x xs ih =>
    simp only [List.map_cons, isort]
    rw [ih (fun a ha b hb => h a (List.mem_cons_of_mem _ ha) b (List.mem_cons_of_mem _ hb))]
    apply ins_map
    intro y hy
    exact h x (by simp) y (List.mem_cons_of_mem _ ((mem_isort le xs y).1 hy))

section AssocMap
variable {κ κ' ν ν' : Type} [DecidableEq κ] [DecidableEq κ']

/-- map keys and values of an association list -/
def amap (φ : κ → κ') (h : ν → ν') (d : Assoc κ ν) : Assoc κ' ν' := d.map (fun kv => (φ kv.1, h kv.2))

variable {φ : κ → κ'} (hφ : ∀ x y, φ x = φ y → x = y) (h : ν → ν')
include hφ

theorem get?_amap (d : Assoc κ ν) (q : κ) :
    Assoc.get? (amap φ h d) (φ q) = (Assoc.get? d q).map h := by
  induction d with
  | nil => rfl
  | cons kv rest ih =>
    obtain ⟨k, w⟩ := kv
    simp only [amap, List.map_cons, Assoc.get?] at ih ⊢
    by_cases hk : k = q
    · simp [hk]
    · have hk' : ¬ φ k = φ q := fun e => hk (hφ _ _ e)
      simp [hk, hk', ih]

theorem contains_amap (d : Assoc κ ν) (q : κ) :
    Assoc.contains (amap φ h d) (φ q) = Assoc.contains d q := by
  simp only [Assoc.contains, get?_amap hφ h, Option.isSome_map]

theorem set_amap (d : Assoc κ ν) (q : κ) (v : ν) :
    Assoc.set (amap φ h d) (φ q) (h v) = amap φ h (Assoc.set d q v) := by
  induction d with
  | nil => rfl
  | cons kv rest ih =>
    obtain ⟨k, w⟩ := kv
    simp only [amap, List.map_cons, Assoc.set] at ih ⊢
    by_cases hk : k = q
    · simp [hk]
    · have hk' : ¬ φ k = φ q := fun e => hk (hφ _ _ e)
      simp [hk, hk', ih]

theorem erase_amap (d : Assoc κ ν) (q : κ) :
    Assoc.erase (amap φ h d) (φ q) = amap φ h (Assoc.erase d q) := by
  induction d with
  | nil => rfl
  | cons kv rest ih =>
    obtain ⟨k, w⟩ := kv
    simp only [amap, List.map_cons, Assoc.erase] at ih ⊢
    by_cases hk : k = q
    · simp [hk]
    · have hk' : ¬ φ k = φ q := fun e => hk (hφ _ _ e)
      simp [hk, hk', ih]

end AssocMap

theorem modifyAt_map {α β} (f : α → α) (f' : β → β) (h : α → β) (hf : ∀ x, h (f x) = f' (h x))
    (i : Nat) (l : List α) : modifyAt f' i (l.map h) = (modifyAt f i l).map h := by
  induction l generalizing i with
  | nil => cases i <;> rfl
  | cons z zs ih => cases i <;> simp [modifyAt, hf, ih]


/-- a message map `g` that relabels channels through an injective `κ` and keeps type, time, pitch -/
structure Relab (g : Msg → Msg) (κ : Int → Int) : Prop where
  ty : ∀ m, (g m).ty = m.ty
  ch : ∀ m, (g m).ch = κ m.ch
  time : ∀ m, (g m).time = m.time
  note : ∀ m, (g m).note = m.note
  off : ∀ c n t, g (Msg.mkOff c n t) = Msg.mkOff (κ c) n t
  inj : ∀ x y, κ x = κ y → x = y

def kmap (κ : Int → Int) (k : Int × Int) : Int × Int := (κ k.1, k.2)

def mapChans (g : Msg → Msg) (κ : Int → Int) (d : List (Int × List Pairing)) : List (Int × List Pairing) :=
  amap κ (List.map (List.map g)) d

def mapSt (g : Msg → Msg) (κ : Int → Int) (s : PairSt) : PairSt :=
  { pairs := mapChans g κ s.pairs
    opens := amap (kmap κ) id s.opens }

/-- `message_pairings.setdefault(ch, [])` -/
def sd (s : PairSt) (ch : Int) : PairSt :=
  if s.pairs.contains ch then s else { s with pairs := s.pairs.set ch [] }

def stepOn (imp : Bool) (s : PairSt) (m : Msg) : PairSt :=
  let s := match s.opens.get? m.nkey with
    | some i => if imp then
        { (s.appendAt m.ch i (Msg.mkOff m.ch m.note m.time)) with opens := s.opens.erase m.nkey }
      else s
    | none => s
  let s := s.append m.ch [m]
  { s with opens := s.opens.set m.nkey (((s.pairs.get? m.ch).getD []).length - 1) }

def stepOff (s : PairSt) (m : Msg) : PairSt :=
  match s.opens.get? m.nkey with
  | none => s
  | some i => { (s.appendAt m.ch i m) with opens := s.opens.erase m.nkey }

theorem pairStep_eq (types : List MType) (imp : Bool) (s : PairSt) (m : Msg) :
    pairStep types imp s m = if !types.contains m.ty then s else
      match m.ty with
      | .noteOn => stepOn imp (sd s m.ch) m
      | .noteOff => stepOff (sd s m.ch) m
      | _ => (sd s m.ch).append m.ch [m] := rfl

section Relab
variable {g : Msg → Msg} {κ : Int → Int} (R : Relab g κ)
include R

theorem kinj : ∀ x y : Int × Int, (kmap κ) x = (kmap κ) y → x = y := by
  intro x y h
  obtain ⟨x1, x2⟩ := x
  obtain ⟨y1, y2⟩ := y
  simp only [kmap, Prod.mk.injEq] at h
  rw [R.inj _ _ h.1, h.2]

theorem nkey_map (m : Msg) : (g m).nkey = (kmap κ) m.nkey := by
  simp [Msg.nkey, kmap, R.ch, R.note]

theorem getD_mapChans (d : Assoc Int (List Pairing)) (c : Int) :
    (Assoc.get? (mapChans g κ d) (κ c)).getD [] = ((Assoc.get? d c).getD []).map (List.map g) := by
  rw [mapChans, get?_amap R.inj]
  cases Assoc.get? d c <;> rfl

theorem sd_map (s : PairSt) (c : Int) : sd (mapSt g κ s) (κ c) = mapSt g κ (sd s c) := by
  unfold sd
  have h1 : (mapSt g κ s).pairs.contains (κ c) = s.pairs.contains c := contains_amap R.inj _ _ _
  rw [h1]
  split
  · rfl
  · simp only [mapSt, mapChans]
    rw [← set_amap R.inj]
    rfl

theorem append_map (s : PairSt) (c : Int) (p : Pairing) :
    (mapSt g κ s).append (κ c) (p.map g) = mapSt g κ (s.append c p) := by
  simp only [PairSt.append, mapSt, getD_mapChans R]
  congr 1
  rw [mapChans, mapChans, ← set_amap R.inj]
  simp

theorem appendAt_map (s : PairSt) (c : Int) (i : Nat) (m : Msg) :
    (mapSt g κ s).appendAt (κ c) i (g m) = mapSt g κ (s.appendAt c i m) := by
  simp only [PairSt.appendAt, mapSt, getD_mapChans R]
  congr 1
  rw [mapChans, mapChans, ← set_amap R.inj]
  rw [modifyAt_map (· ++ [m]) (· ++ [g m]) (List.map g) (by simp)]


theorem opens_get_map (s : PairSt) (m : Msg) :
    (mapSt g κ s).opens.get? (g m).nkey = s.opens.get? m.nkey := by
  rw [nkey_map R]
  show Assoc.get? (amap (kmap κ) id s.opens) _ = _
  rw [get?_amap (kinj R)]
  simp

theorem opens_erase_map (s : PairSt) (m : Msg) :
    (mapSt g κ s).opens.erase (g m).nkey = amap (kmap κ) id (s.opens.erase m.nkey) := by
  rw [nkey_map R]
  show Assoc.erase (amap (kmap κ) id s.opens) _ = _
  rw [erase_amap (kinj R)]

theorem opens_set_map (s : PairSt) (m : Msg) (n : Nat) :
    (mapSt g κ s).opens.set (g m).nkey n = amap (kmap κ) id (s.opens.set m.nkey n) := by
  rw [nkey_map R]
  show Assoc.set (amap (kmap κ) id s.opens) _ _ = _
  exact set_amap (kinj R) id s.opens m.nkey n

def stepOnPre (imp : Bool) (s : PairSt) (m : Msg) : PairSt :=
  match s.opens.get? m.nkey with
    | some i => if imp then
        { (s.appendAt m.ch i (Msg.mkOff m.ch m.note m.time)) with opens := s.opens.erase m.nkey }
      else s
    | none => s

def stepOnFin (s : PairSt) (m : Msg) : PairSt :=
  let s := s.append m.ch [m]
  { s with opens := s.opens.set m.nkey (((s.pairs.get? m.ch).getD []).length - 1) }

omit R in
theorem stepOn_eq (imp : Bool) (s : PairSt) (m : Msg) :
    stepOn imp s m = stepOnFin (stepOnPre imp s m) m := rfl

theorem stepOnPre_map (imp : Bool) (s : PairSt) (m : Msg) :
    stepOnPre imp (mapSt g κ s) (g m) = mapSt g κ (stepOnPre imp s m) := by
  unfold stepOnPre
  rw [opens_get_map R]
  cases s.opens.get? m.nkey with
  | none => rfl
  | some i =>
    cases imp
    · rfl
    · simp only [if_true]
      rw [opens_erase_map R, R.ch, R.note, R.time, ← R.off, appendAt_map R]
      rfl

theorem stepOnFin_map (s : PairSt) (m : Msg) :
    stepOnFin (mapSt g κ s) (g m) = mapSt g κ (stepOnFin s m) := by
  unfold stepOnFin
  have h1 : (mapSt g κ s).append (g m).ch [g m] = mapSt g κ (s.append m.ch [m]) := by
    rw [R.ch, ← append_map R]; rfl
  simp only [h1]
  rw [opens_set_map R, R.ch]
  have h2 : (mapSt g κ (s.append m.ch [m])).pairs = mapChans g κ (s.append m.ch [m]).pairs := rfl
  rw [h2, getD_mapChans R, List.length_map]
  rfl

theorem stepOn_map (imp : Bool) (s : PairSt) (m : Msg) :
    stepOn imp (mapSt g κ s) (g m) = mapSt g κ (stepOn imp s m) := by
  rw [stepOn_eq, stepOn_eq, stepOnPre_map R, stepOnFin_map R]

theorem stepOff_map (s : PairSt) (m : Msg) :
    stepOff (mapSt g κ s) (g m) = mapSt g κ (stepOff s m) := by
  unfold stepOff
  rw [opens_get_map R]
  cases s.opens.get? m.nkey with
  | none => rfl
  | some i =>
    simp only []
    rw [opens_erase_map R, R.ch, appendAt_map R]
    rfl

theorem pairStep_map (types : List MType) (imp : Bool) (s : PairSt) (m : Msg) :
    pairStep types imp (mapSt g κ s) (g m) = mapSt g κ (pairStep types imp s m) := by
  rw [pairStep_eq, pairStep_eq, R.ty, R.ch]
  split
  · rfl
  · rw [sd_map R]
    cases hty : m.ty <;> simp only []
    case noteOn => exact stepOn_map R imp _ m
    case noteOff => exact stepOff_map R _ m
    all_goals exact append_map R _ _ [m]

theorem foldl_pairStep_map (types : List MType) (imp : Bool) (l : List Msg) (s : PairSt) :
    (l.map g).foldl (pairStep types imp) (mapSt g κ s) = mapSt g κ (l.foldl (pairStep types imp) s) := by
  induction l generalizing s with
  | nil => rfl
  | cons m ms ih => simp only [List.map_cons, List.foldl_cons, pairStep_map R, ih]


theorem closeUnclosed_map (stdLen : Int) (imp : Bool) (p : Pairing) :
    closeUnclosed stdLen imp (p.map g) = (closeUnclosed stdLen imp p).map g := by
  cases p with
  | nil => rfl
  | cons m rest =>
    cases rest with
    | nil =>
      simp only [List.map_cons, List.map_nil, closeUnclosed, R.ty, R.ch, R.note, R.time]
      split
      · simp [R.off]
      · rfl
    | cons r rs => rfl

theorem pairingsSorted_map (types : List MType) (stdLen : Int) (imp : Bool) (l : List Msg) :
    pairingsSorted types stdLen imp (l.map g) = mapChans g κ (pairingsSorted types stdLen imp l) := by
  have h0 : ({} : PairSt) = mapSt g κ {} := rfl
  simp only [pairingsSorted]
  rw [h0, foldl_pairStep_map R]
  simp only [mapSt, mapChans, amap, List.map_map]
  apply List.map_congr_left
  intro kv _
  simp only [Function.comp, List.map_map, Prod.mk.injEq, true_and]
  apply List.map_congr_left
  intro p _
  exact closeUnclosed_map R stdLen imp p

/-- relabel an output pairing -/
def mapOut (g : Msg → Msg) (κ : Int → Int) (x : Int × Pairing) : Int × Pairing := (κ x.1, x.2.map g)

theorem headTime_map (ps : List Pairing) : headTime (ps.map (List.map g)) = headTime ps := by
  cases ps with
  | nil => rfl
  | cons p ps => cases p with
    | nil => rfl
    | cons m ms => simp [headTime, R.time]

theorem interleaveGo_map (fuel : Nat) (chans : List (Int × List Pairing)) (acc : List (Int × Pairing)) :
    interleaveGo fuel (mapChans g κ chans) (acc.map (mapOut g κ))
      = (interleaveGo fuel chans acc).map (mapOut g κ) := by
  induction fuel generalizing chans acc with
  | zero => simp [interleaveGo]
  | succ fuel ih =>
    have hh : (mapChans g κ chans).map (fun c => headTime c.2) = chans.map (fun c => headTime c.2) := by
      simp only [mapChans, amap, List.map_map]
      apply List.map_congr_left
      intro c _
      exact headTime_map R c.2
    simp only [interleaveGo, hh]
    split
    · simp
    · rename_i i _ _
      have hget : (mapChans g κ chans)[i]? = (chans[i]?).map (fun kv => (κ kv.1, kv.2.map (List.map g))) := by
        simp [mapChans, amap]
      rw [hget]
      cases hc : chans[i]? with
      | none => simp
      | some c =>
        obtain ⟨ch, ps⟩ := c
        cases ps with
        | nil => simp
        | cons p rest =>
          simp only [Option.map_some, List.map_cons]
          have hm : modifyAt (fun c => (c.1, List.drop 1 c.2)) i (mapChans g κ chans)
              = mapChans g κ (modifyAt (fun c => (c.1, List.drop 1 c.2)) i chans) := by
            simp only [mapChans, amap]
            apply modifyAt_map
            intro x
            simp
          rw [hm]
          exact ih _ ((ch, p) :: acc)

theorem interleaved_map (types : List MType) (stdLen : Int) (imp : Bool) (a : List Msg)
    (hs : sortAbs (a.map g) = (sortAbs a).map g) :
    interleaved types stdLen imp (a.map g) = (interleaved types stdLen imp a).map (mapOut g κ) := by
  simp only [interleaved, pairings, hs, pairingsSorted_map R]
  have hlen : ((mapChans g κ (pairingsSorted types stdLen imp (sortAbs a))).map (fun c => c.2.length)).sum
      = ((pairingsSorted types stdLen imp (sortAbs a)).map (fun c => c.2.length)).sum := by
    simp [mapChans, amap, Function.comp_def]
  rw [hlen]
  exact interleaveGo_map R _ _ []

end Relab


theorem keyLe_congr {a b a' b' : Msg} (ht : a'.time = a.time) (ht' : b'.time = b.time)
    (hc1 : a'.ch < b'.ch ↔ a.ch < b.ch) (hc2 : b'.ch < a'.ch ↔ b.ch < a.ch)
    (hy : a'.ty = a.ty) (hy' : b'.ty = b.ty) (hn : a'.note = a.note) (hn' : b'.note = b.note) :
    keyLe a' b' = keyLe a b := by
  unfold keyLe
  simp only [ht, ht', hc1, hc2, hy, hy', hn, hn']

/-! ### erasing note-on velocities -/

def gVel (m : Msg) : Msg := if m.ty == .noteOn then { m with vel := 0 } else m

theorem gVel_ty (m : Msg) : (gVel m).ty = m.ty := by unfold gVel; split <;> rfl
theorem gVel_ch (m : Msg) : (gVel m).ch = m.ch := by unfold gVel; split <;> rfl
theorem gVel_time (m : Msg) : (gVel m).time = m.time := by unfold gVel; split <;> rfl
theorem gVel_note (m : Msg) : (gVel m).note = m.note := by unfold gVel; split <;> rfl
theorem gVel_num (m : Msg) : (gVel m).num = m.num := by unfold gVel; split <;> rfl
theorem gVel_den (m : Msg) : (gVel m).den = m.den := by unfold gVel; split <;> rfl
theorem gVel_key (m : Msg) : (gVel m).key = m.key := by unfold gVel; split <;> rfl
theorem gVel_vel (m : Msg) (h : m.ty = .noteOn) : (gVel m).vel = 0 := by simp [gVel, h]

theorem relab_gVel : Relab gVel id where
  ty := gVel_ty
  ch := gVel_ch
  time := gVel_time
  note := gVel_note
  off := by intro c n t; rfl
  inj := fun _ _ h => h

theorem sortAbs_gVel (a : List Msg) : sortAbs (a.map gVel) = (sortAbs a).map gVel := by
  apply isort_map
  intro x _ y _
  apply keyLe_congr <;> simp only [gVel_time, gVel_ch, gVel_ty, gVel_note]

theorem pairEq_gVel (f : EqFlags) (x y : Int × Pairing) :
    pairEq { f with ignoreVel := true } x y
      = pairEq { f with ignoreVel := false } (mapOut gVel id x) (mapOut gVel id y) := by
  obtain ⟨cx, px⟩ := x
  obtain ⟨cy, py⟩ := y
  unfold pairEq
  simp only [mapOut, id]
  split
  · rfl
  · cases px with
    | nil => rfl
    | cons sm srest =>
      cases py with
      | nil => rfl
      | cons om orest =>
        simp only [List.map_cons, gVel_ty, gVel_time, gVel_note, gVel_num, gVel_den, gVel_key]
        split
        · rfl
        · rename_i hty
          split
          · rfl
          · cases hsm : sm.ty <;> simp only []
            cases srest with
            | nil => rfl
            | cons s1 _ =>
              cases orest with
              | nil => rfl
              | cons o1 _ =>
                have hom : om.ty = .noteOn := by
                  have : MType.noteOn = om.ty := by simpa [hsm] using hty
                  exact this.symm
                simp [gVel_time, gVel_vel sm hsm, gVel_vel om hom]


/-! ### concrete one-event sequences -/

set_option linter.unusedSimpArgs false in
theorem interleaved_single_ts (ppqn n d t : Int) (types : List MType) (h : .timeSignature ∈ types) :
    interleaved types ppqn true [Msg.mkTimeSig 0 n d t] = [(0, [Msg.mkTimeSig 0 n d t])] := by
  simp [interleaved, pairings, pairingsSorted, sortAbs, isort, ins, pairStep, Msg.mkTimeSig, h,
    Assoc.contains, Assoc.get?, Assoc.set, PairSt.append, closeUnclosed, interleaveGo, argMinFirst,
    headTime, modifyAt]

set_option linter.unusedSimpArgs false in
theorem interleaved_single_note (ppqn c p t d v : Int) (hd : 0 < d) (types : List MType)
    (h : .noteOn ∈ types) (h' : .noteOff ∈ types) :
    interleaved types ppqn true [Msg.mkOn c p v t, Msg.mkOff c p (t + d)]
      = [(c, [Msg.mkOn c p v t, Msg.mkOff c p (t + d)])] := by
  have hs : sortAbs [Msg.mkOn c p v t, Msg.mkOff c p (t + d)]
      = [Msg.mkOn c p v t, Msg.mkOff c p (t + d)] := by
    simp [sortAbs, isort, ins, keyLe, Msg.mkOn, Msg.mkOff]
    omega
  simp only [interleaved, pairings, hs]
  simp [pairingsSorted, pairStep, Msg.mkOn, Msg.mkOff, h, h',
    Assoc.contains, Assoc.get?, Assoc.set, Assoc.erase, PairSt.append, PairSt.appendAt, Msg.nkey,
    closeUnclosed, interleaveGo, argMinFirst, headTime, modifyAt]


/-! ### the interleaving of a sequence with a note-on is non-empty -/

def NE (d : Assoc Int (List Pairing)) : Prop := ∃ k ps, Assoc.get? d k = some ps ∧ ps ≠ []

theorem ne_set {d : Assoc Int (List Pairing)} {q : Int} {v : List Pairing} (h : NE d)
    (hv : ∀ ps, Assoc.get? d q = some ps → ps ≠ [] → v ≠ []) : NE (Assoc.set d q v) := by
  obtain ⟨k, ps, hg, hne⟩ := h
  by_cases hq : q = k
  · subst hq
    exact ⟨q, v, by simp [get?_set], hv ps hg hne⟩
  · exact ⟨k, ps, by simp [get?_set, hq, hg], hne⟩

theorem ne_set_self (d : Assoc Int (List Pairing)) (q : Int) {v : List Pairing} (hv : v ≠ []) :
    NE (Assoc.set d q v) := ⟨q, v, by simp [get?_set], hv⟩

theorem ne_sd {s : PairSt} (h : NE s.pairs) (c : Int) : NE (sd s c).pairs := by
  unfold sd
  split
  · exact h
  · rename_i hc
    apply ne_set h
    intro ps hg _
    simp [Assoc.contains, hg] at hc

theorem ne_append (s : PairSt) (c : Int) (p : Pairing) : NE (s.append c p).pairs :=
  ne_set_self _ _ (by simp)

theorem ne_appendAt {s : PairSt} (h : NE s.pairs) (c : Int) (i : Nat) (m : Msg) :
    NE (s.appendAt c i m).pairs := by
  apply ne_set h
  intro ps hg hne hmod
  have := length_modifyAt (· ++ [m]) i ((Assoc.get? s.pairs c).getD [])
  rw [hmod, hg] at this
  simp at this
  exact hne (List.eq_nil_of_length_eq_zero this.symm)

theorem ne_stepOn (imp : Bool) (s : PairSt) (m : Msg) : NE (stepOn imp s m).pairs :=
  ne_append _ _ _

theorem ne_pairStep (types : List MType) (imp : Bool) {s : PairSt} (h : NE s.pairs) (m : Msg) :
    NE (pairStep types imp s m).pairs := by
  rw [pairStep_eq]
  split
  · exact h
  · split
    · exact ne_stepOn _ _ _
    · unfold stepOff
      split
      · exact ne_sd h _
      · exact ne_appendAt (ne_sd h _) _ _ _
    · exact ne_append _ _ _

theorem ne_pairStep_on (types : List MType) (imp : Bool) (s : PairSt) (m : Msg)
    (ht : types.contains .noteOn = true) (hm : m.ty = .noteOn) :
    NE (pairStep types imp s m).pairs := by
  rw [pairStep_eq, hm]
  simp only [ht, Bool.not_true, Bool.false_eq_true, if_false]
  exact ne_stepOn _ _ _

theorem ne_foldl_pres (types : List MType) (imp : Bool) (l : List Msg) {s : PairSt} (h : NE s.pairs) :
    NE (l.foldl (pairStep types imp) s).pairs := by
  induction l generalizing s with
  | nil => exact h
  | cons m ms ih => exact ih (ne_pairStep types imp h m)

theorem ne_foldl (types : List MType) (imp : Bool) (l : List Msg) (s : PairSt)
    (ht : types.contains .noteOn = true) (h : ∃ m ∈ l, m.ty = .noteOn) :
    NE (l.foldl (pairStep types imp) s).pairs := by
  induction l generalizing s with
  | nil => obtain ⟨m, hm, _⟩ := h; cases hm
  | cons x xs ih =>
    simp only [List.foldl_cons]
    by_cases hx : x.ty = .noteOn
    · exact ne_foldl_pres types imp xs (ne_pairStep_on types imp s x ht hx)
    · apply ih
      obtain ⟨m, hm, hty⟩ := h
      rcases List.mem_cons.1 hm with rfl | hm
      · exact absurd hty hx
      · exact ⟨m, hm, hty⟩

theorem argMin_isSome_of_best (ts : List (Option Int)) (i : Nat) (best : Option (Nat × Int))
    (h : best.isSome) : (argMinFirst ts i best).isSome := by
  induction ts generalizing i best with
  | nil => exact h
  | cons t ts ih =>
    simp only [argMinFirst]
    apply ih
    obtain ⟨⟨j, b⟩, rfl⟩ := Option.isSome_iff_exists.1 h
    cases t with
    | none => rfl
    | some v => simp only []; split <;> rfl

theorem argMin_isSome (ts : List (Option Int)) (i : Nat) (best : Option (Nat × Int))
    (h : ∃ t ∈ ts, t.isSome) : (argMinFirst ts i best).isSome := by
  induction ts generalizing i best with
  | nil => obtain ⟨t, ht, _⟩ := h; cases ht
  | cons t ts ih =>
    simp only [argMinFirst]
    cases t with
    | none =>
      apply ih
      obtain ⟨t, ht, hs⟩ := h
      rcases List.mem_cons.1 ht with rfl | ht
      · cases hs
      · exact ⟨t, ht, hs⟩
    | some v =>
      apply argMin_isSome_of_best
      cases best with
      | none => rfl
      | some b => simp only []; split <;> rfl

theorem argMin_spec (ts : List (Option Int)) (i : Nat) (best : Option (Nat × Int)) (j : Nat) (v : Int)
    (h : argMinFirst ts i best = some (j, v)) :
    best = some (j, v) ∨ (i ≤ j ∧ ts[j - i]? = some (some v)) := by
  induction ts generalizing i best with
  | nil => exact Or.inl h
  | cons t ts ih =>
    simp only [argMinFirst] at h
    rcases ih _ _ h with h | ⟨h1, h2⟩
    · cases t with
      | none => exact Or.inl h
      | some w =>
        cases best with
        | none =>
          simp only [Option.some.injEq, Prod.mk.injEq] at h
          obtain ⟨rfl, rfl⟩ := h
          exact Or.inr ⟨Nat.le_refl _, by simp⟩
        | some b =>
          simp only [] at h
          split at h
          · simp only [Option.some.injEq, Prod.mk.injEq] at h
            obtain ⟨rfl, rfl⟩ := h
            exact Or.inr ⟨Nat.le_refl _, by simp⟩
          · exact Or.inl h
    · refine Or.inr ⟨by omega, ?_⟩
      have : j - i = (j - (i + 1)) + 1 := by omega
      rw [this, List.getElem?_cons_succ]
      exact h2

theorem interleaveGo_acc_ne (fuel : Nat) (chans : List (Int × List Pairing)) (acc : List (Int × Pairing))
    (h : acc ≠ []) : interleaveGo fuel chans acc ≠ [] := by
  induction fuel generalizing chans acc with
  | zero => simpa [interleaveGo] using h
  | succ fuel ih =>
    simp only [interleaveGo]
    split
    · simpa using h
    · split
      · exact ih _ _ (by simp)
      · simpa using h

theorem interleaveGo_ne (fuel : Nat) (chans : List (Int × List Pairing)) (hf : fuel ≠ 0)
    (h : ∃ c ∈ chans, (headTime c.2).isSome) : interleaveGo fuel chans [] ≠ [] := by
  obtain ⟨n, rfl⟩ := Nat.exists_eq_succ_of_ne_zero hf
  simp only [interleaveGo]
  have hsome := argMin_isSome (chans.map (fun c => headTime c.2)) 0 none (by
    obtain ⟨c, hc, hs⟩ := h
    exact ⟨headTime c.2, List.mem_map.2 ⟨c, hc, rfl⟩, hs⟩)
  obtain ⟨⟨j, v⟩, hjv⟩ := Option.isSome_iff_exists.1 hsome
  rw [hjv]
  rcases argMin_spec _ _ _ _ _ hjv with h0 | ⟨_, hget⟩
  · cases h0
  · simp only [Nat.sub_zero, List.getElem?_map, Option.map_eq_some_iff] at hget
    obtain ⟨c, hc, hh⟩ := hget
    obtain ⟨ch, ps⟩ := c
    simp only [hc]
    cases ps with
    | nil => simp [headTime] at hh
    | cons p rest =>
      exact interleaveGo_acc_ne _ _ _ (by simp)

theorem le_sum_of_mem {α} (f : α → Nat) (l : List α) (x : α) (h : x ∈ l) : f x ≤ (l.map f).sum := by
  induction l with
  | nil => cases h
  | cons y ys ih =>
    simp only [List.map_cons, List.sum_cons]
    rcases List.mem_cons.1 h with rfl | h
    · omega
    · have := ih h; omega

theorem interleaved_ne (types : List MType) (stdLen : Int) (a : List Msg)
    (ht : types.contains .noteOn = true) (h : ∃ m ∈ a, m.ty = .noteOn) :
    interleaved types stdLen true a ≠ [] := by
  have h' : ∃ m ∈ sortAbs a, m.ty = .noteOn := by
    obtain ⟨m, hm, hty⟩ := h
    exact ⟨m, (mem_sortAbs a m).2 hm, hty⟩
  obtain ⟨k, ps, hg, hne⟩ := ne_foldl types true (sortAbs a) {} ht h'
  have hinv : Inv (fun _ => True) ((sortAbs a).foldl (pairStep types true) {}).pairs :=
    inv_foldl types true _ (fun _ _ => trivial) (by intro k ps hm; cases hm)
  have hmem := get?_mem hg
  obtain ⟨p, rest, rfl⟩ := List.exists_cons_of_ne_nil hne
  have hp : p ≠ [] := (hinv k _ hmem).2 p (by simp)
  obtain ⟨m, r, hgood, _⟩ := good_close stdLen hp
  have hc : (k, (p :: rest).map (closeUnclosed stdLen true)) ∈ pairingsSorted types stdLen true (sortAbs a) := by
    simp only [pairingsSorted]
    exact List.mem_map.2 ⟨(k, p :: rest), hmem, rfl⟩
  simp only [interleaved, pairings]
  apply interleaveGo_ne
  · have := le_sum_of_mem (fun c : Int × List Pairing => c.2.length) _ _ hc
    simp only [List.map_cons, List.length_cons] at this
    omega
  · exact ⟨_, hc, by simp [headTime, hgood]⟩


/-! ### relabelling a channel -/

/-- the transposition of `c` and `c'` -/
def swapCh (c c' x : Int) : Int := if x = c then c' else if x = c' then c else x

theorem swapCh_left (c c' : Int) : swapCh c c' c = c' := by simp [swapCh]

theorem swapCh_inj (c c' x y : Int) (h : swapCh c c' x = swapCh c c' y) : x = y := by
  unfold swapCh at h
  split at h <;> split at h <;> (try split at h) <;> (try split at h) <;> omega

def gCh (c c' : Int) (m : Msg) : Msg := { m with ch := swapCh c c' m.ch }

theorem relab_gCh (c c' : Int) : Relab (gCh c c') (swapCh c c') where
  ty := fun _ => rfl
  ch := fun _ => rfl
  time := fun _ => rfl
  note := fun _ => rfl
  off := fun _ _ _ => rfl
  inj := swapCh_inj c c'

theorem gCh_eq (c c' : Int) (m : Msg) (h : m.ch = c) : gCh c c' m = { m with ch := c' } := by
  simp [gCh, h, swapCh_left]

theorem sortAbs_gCh (c c' : Int) (l : List Msg) (h : ∀ m ∈ l, m.ch = c) :
    sortAbs (l.map (gCh c c')) = (sortAbs l).map (gCh c c') := by
  apply isort_map
  intro x hx y hy
  apply keyLe_congr <;> simp [gCh, h x hx, h y hy]

theorem pairEq_gCh_true (f : EqFlags) (hf : f.ignoreCh = true) (c c' : Int) (x : Int × Pairing)
    (hx : Good x.2) : pairEq f x (mapOut (gCh c c') (swapCh c c') x) = true := by
  obtain ⟨k, p⟩ := x
  obtain ⟨m, rest, rfl, hr⟩ := hx
  unfold pairEq
  simp only [hf, mapOut, List.map_cons, gCh, Bool.not_true, Bool.and_false, Bool.false_eq_true,
    if_false, bne_self_eq_false]
  cases hm : m.ty <;> simp
  cases rest with
  | nil => exact absurd rfl (hr hm)
  | cons r rs => simp; rfl

theorem pairEq_gCh_false (f : EqFlags) (hf : f.ignoreCh = false) (c c' : Int) (hc : c ≠ c')
    (x : Int × Pairing) (hx : x.1 = c) : pairEq f x (mapOut (gCh c c') (swapCh c c') x) = false := by
  obtain ⟨k, p⟩ := x
  simp only at hx
  subst hx
  unfold pairEq
  simp [hf, mapOut, swapCh_left, hc]

/-- relabelling the only channel: the interleaving is relabelled -/
theorem interleaved_gCh (types : List MType) (stdLen : Int) (c c' : Int) (l : List Msg)
    (h : ∀ m ∈ l, m.ch = c) :
    interleaved types stdLen true (l.map (gCh c c'))
      = (interleaved types stdLen true l).map (mapOut (gCh c c') (swapCh c c')) :=
  interleaved_map (relab_gCh c c') types stdLen true l (sortAbs_gCh c c' l h)

theorem interleaved_setCh (types : List MType) (stdLen : Int) (c c' : Int) (l : List Msg)
    (h : ∀ m ∈ l, m.ch = c) :
    interleaved types stdLen true (l.map (fun m => { m with ch := c' }))
      = (interleaved types stdLen true l).map (mapOut (gCh c c') (swapCh c c')) := by
  rw [← interleaved_gCh types stdLen c c' l h]
  congr 1
  apply List.map_congr_left
  intro m hm
  exact (gCh_eq c c' m (h m hm)).symm

/-- restrict to the compared types -/
theorem interleaved_restrict (types : List MType) (stdLen : Int) (a : List Msg) :
    interleaved types stdLen true a
      = interleaved types stdLen true (a.filter (fun m => types.contains m.ty)) :=
  interleaved_filter types types stdLen true _ (fun _ h => h) (fun _ _ => rfl) a

end SCoda.EQ
