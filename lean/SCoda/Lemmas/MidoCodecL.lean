/-
  Helper lemmas for Props/C12c.lean (audit round 3, item M5): the parser inverts the encoding of the messages the
  translated `to_mido_track` emits; `convert` does not see the fields a mido message does not carry, nor a trailing
  `end_of_track`.
-/
import SCoda.Model.MidoCodec
import SCoda.Props.ViewTie
import SCoda.Lemmas.StaticTieL
namespace SCoda.MidoCodecL
open SCoda SCoda.ViewTieL

/-! ### one message -/

/-- a literal that the parser reads back as itself: it has the shape of a mido message (`midoView`: only the fields the
    constructor of its kind was given), is of one of the five kinds `to_mido_track` writes, a note-on has a positive
    velocity and a key signature one of the fifteen keys -/
def Emittable (m : MidiEv) : Prop :=
  midoView m = m ∧
  (m.ty = .noteOn ∨ m.ty = .noteOff ∨ m.ty = .timeSignature ∨ m.ty = .keySignature ∨ m.ty = .controlChange) ∧
  (m.ty = .noteOn → 0 < m.vel) ∧ (m.ty = .keySignature → 0 ≤ m.key ∧ m.key < 15)

theorem key_round_trip :
    ∀ i : Nat, i < 15 → (Gen.keyValues[i]?).bind (fun nm => Gen.keyKeyMapping.lookup nm) = some (i : Int) := by
  decide

theorem keyName_lookup (k : Int) (h0 : 0 ≤ k) (h1 : k < 15) :
    ∃ nm, keyName k = some nm ∧ Gen.keyKeyMapping.lookup nm = some k := by
  have hlt : k.toNat < 15 := by omega
  have hrt := key_round_trip k.toNat hlt
  have hkk : ((k.toNat : Nat) : Int) = k := by omega
  cases hv : Gen.keyValues[k.toNat]? with
  | none => rw [hv] at hrt; simp at hrt
  | some nm =>
    rw [hv] at hrt
    simp only [Option.bind_some] at hrt
    rw [hkk] at hrt
    exact ⟨nm, by simp [keyName, h0, hv], hrt⟩

theorem chan_round (c : Int) :
    (match (if c = pyNone then (none : Option Int) else some c) with | some x => x | none => pyNone) = c := by
  by_cases h : c = pyNone <;> simp [h]

/-- **`parse_mido_message` inverts the encoding on every emittable literal** -/
theorem parse_encode (m : MidiEv) (h : Emittable m) : ∃ mm, encodeMsg m = .ok mm ∧ parseMido mm = .ok m := by
  obtain ⟨hv, hty, hvel, hkey⟩ := h
  obtain ⟨ty, ch, time, note, vel, ctl, prog, num, den, key⟩ := m
  simp only at hty hvel hkey
  rcases hty with rfl | rfl | rfl | rfl | rfl
  · simp only [midoView, Msg.mk.injEq, true_and] at hv
    obtain ⟨h1, h2, h3, h4, h5⟩ := hv
    subst h1 h2 h3 h4 h5
    have hp := hvel rfl
    refine ⟨_, rfl, ?_⟩
    simp [parseMido, hp]
    by_cases hc : ch = pyNone <;> simp [hc]
  · simp only [midoView, Msg.mk.injEq, true_and] at hv
    obtain ⟨h1, h2, h3, h4, h5⟩ := hv
    subst h1 h2 h3 h4 h5
    refine ⟨_, rfl, ?_⟩
    simp [parseMido]
    by_cases hc : ch = pyNone <;> simp [hc]
  · simp only [midoView, Msg.mk.injEq, true_and] at hv
    obtain ⟨h1, h2, h3, h4, h5⟩ := hv
    subst h1 h2 h3 h4 h5
    refine ⟨_, rfl, ?_⟩
    simp [parseMido]
    by_cases hc : ch = pyNone <;> simp [hc]
  · simp only [midoView, Msg.mk.injEq, true_and] at hv
    obtain ⟨h1, h2, h3, h4, h5, h6, _⟩ := hv
    subst h1 h2 h3 h4 h5 h6
    obtain ⟨nm, hn1, hn2⟩ := keyName_lookup key (hkey rfl).1 (hkey rfl).2
    refine ⟨{ type := .keySignature, time := time, channel := if ch = pyNone then none else some ch, key := nm }, ?_, ?_⟩
    · simp [encodeMsg, hn1]
    · simp [parseMido, hn2]
      by_cases hc : ch = pyNone <;> simp [hc]
  · simp only [midoView, Msg.mk.injEq, true_and] at hv
    obtain ⟨h1, h2, h3, h4, h5⟩ := hv
    subst h1 h2 h3 h4 h5
    refine ⟨_, rfl, ?_⟩
    simp [parseMido]
    by_cases hc : ch = pyNone <;> simp [hc]

/-! ### one track -/

/-- the `MidiMessage` the parser makes of mido's `end_of_track` (no branch taken: `message_type = None`, no channel) -/
def eotEv (d : Int) : MidiEv := { ty := .sequenceControl, ch := pyNone, time := d }

theorem parse_endOfTrack (d : Int) : parseMido (MidoMsg.endOfTrack d) = .ok (eotEv d) := by
  simp [parseMido, MidoMsg.endOfTrack, eotEv]

theorem parseTrack_encodeTrack : ∀ (l : List MidiEv), (∀ m ∈ l, Emittable m) →
    ∃ mt, encodeTrack l = .ok mt ∧ mt.length = l.length ∧ parseTrack mt = .ok l ∧
      ∀ d, parseTrack (mt ++ [MidoMsg.endOfTrack d]) = .ok (l ++ [eotEv d]) := by
  intro l
  induction l with
  | nil => intro _; exact ⟨[], rfl, rfl, rfl, fun d => by simp [parseTrack, parse_endOfTrack]⟩
  | cons m ms ih =>
    intro h
    obtain ⟨mm, he, hp⟩ := parse_encode m (h m (by simp))
    obtain ⟨mt, h1, h2, h3, h4⟩ := ih (fun x hx => h x (by simp [hx]))
    refine ⟨mm :: mt, by simp [encodeTrack, he, h1], by simp [h2], by simp [parseTrack, hp, h3], fun d => ?_⟩
    simp [parseTrack, hp, h4 d]

/-! ### what `to_mido_track` emits -/

/-- every key signature carries one of the fifteen keys (`Message.key` is a member of `Key`, not `None`) -/
def KeysOk (r : List Msg) : Prop := ∀ m ∈ r, m.ty = .keySignature → 0 ≤ m.key ∧ m.key < 15
/-- no note-on has velocity 0 (nor a negative one): `None` (written as 127) or positive -/
def VelOk (r : List Msg) : Prop := ∀ m ∈ r, m.ty = .noteOn → m.vel = pyNone ∨ 0 < m.vel

instance (r : List Msg) : Decidable (KeysOk r) := by unfold KeysOk; infer_instance
instance (r : List Msg) : Decidable (VelOk r) := by unfold VelOk; infer_instance

theorem midoView_idem (m : Msg) : midoView (midoView m) = midoView m := by
  obtain ⟨ty, ch, time, note, vel, ctl, prog, num, den, key⟩ := m
  cases ty <;> rfl

theorem midoView_ty (m : Msg) : (midoView m).ty = m.ty := by
  obtain ⟨ty, ch, time, note, vel, ctl, prog, num, den, key⟩ := m
  cases ty <;> rfl

theorem midoView_time (m : Msg) : (midoView m).time = m.time := by
  obtain ⟨ty, ch, time, note, vel, ctl, prog, num, den, key⟩ := m
  cases ty <;> rfl

theorem midoView_ch (m : Msg) : (midoView m).ch = m.ch := by
  obtain ⟨ty, ch, time, note, vel, ctl, prog, num, den, key⟩ := m
  cases ty <;> rfl

theorem toMidoGo_emittable : ∀ (r : List Msg) (buf : Int), KeysOk r → VelOk r →
    ∀ x ∈ (toMidoGo buf r).map midoView, Emittable x := by
  intro r
  induction r with
  | nil => intro buf _ _ x hx; simp [toMidoGo] at hx
  | cons m ms ih =>
    intro buf hk hv x hx
    have hk' : KeysOk ms := fun y hy => hk y (by simp [hy])
    have hv' : VelOk ms := fun y hy => hv y (by simp [hy])
    have hkm := hk m (by simp)
    have hvm := hv m (by simp)
    obtain ⟨ty, ch, time, note, vel, ctl, prog, num, den, key⟩ := m
    simp only at hkm hvm
    cases ty <;> simp only [toMidoGo, List.map_cons, List.mem_cons] at hx
    case noteOn =>
      rcases hx with rfl | hx
      · refine ⟨midoView_idem _, Or.inl rfl, (fun _ => ?_), (fun h => by cases h)⟩
        rcases hvm rfl with h | h
        · subst h; show 0 < (if ((pyNone : Int) == pyNone) = true then (127 : Int) else pyNone); decide
        · show 0 < (if (vel == pyNone) = true then 127 else vel)
          split <;> omega
      · exact ih _ hk' hv' x hx
    case noteOff =>
      rcases hx with rfl | hx
      · exact ⟨midoView_idem _, Or.inr (Or.inl rfl), (fun h => by cases h), (fun h => by cases h)⟩
      · exact ih _ hk' hv' x hx
    case timeSignature =>
      rcases hx with rfl | hx
      · exact ⟨midoView_idem _, Or.inr (Or.inr (Or.inl rfl)), (fun h => by cases h), (fun h => by cases h)⟩
      · exact ih _ hk' hv' x hx
    case keySignature =>
      rcases hx with rfl | hx
      · exact ⟨midoView_idem _, Or.inr (Or.inr (Or.inr (Or.inl rfl))), (fun h => by cases h), (fun _ => hkm rfl)⟩
      · exact ih _ hk' hv' x hx
    case controlChange =>
      rcases hx with rfl | hx
      · exact ⟨midoView_idem _, Or.inr (Or.inr (Or.inr (Or.inr rfl))), (fun h => by cases h), (fun h => by cases h)⟩
      · exact ih _ hk' hv' x hx
    all_goals exact ih _ hk' hv' x hx

theorem keysOk_hk (r : List Msg) (h : KeysOk r) : ∀ m ∈ r, m.ty = .keySignature → m.key ≠ pyNone := by
  intro m hm hty hn
  have := (h m hm hty).1
  rw [hn] at this
  exact absurd this (by decide)

/-- **one track, save side then parser**: the translated `to_mido_track` succeeds, the objects its literals stand for
    exist, and `parse_mido_track` reads them back — with or without mido's trailing `end_of_track` — as `toMido r` up to
    the fields a mido message does not carry -/
theorem track_round_trip (r : List Msg) (hk : KeysOk r) (hv : VelOk r) :
    ∃ mt, toMidoObjects r = .ok mt ∧ parseTrack mt = .ok ((toMido r).map midoView) ∧
      ∀ d, parseTrack (mt ++ [MidoMsg.endOfTrack d]) = .ok ((toMido r).map midoView ++ [eotEv d]) := by
  obtain ⟨mt, h1, _, h3, h4⟩ := parseTrack_encodeTrack ((toMido r).map midoView) (toMidoGo_emittable r 0 hk hv)
  refine ⟨mt, ?_, h3, h4⟩
  unfold toMidoObjects
  rw [ViewTie.toMidoTrack_eq r (keysOk_hk r hk)]
  exact h1

/-! ### `convert` does not see the difference -/

theorem convEvent_midoView (b : Bool) (m : MidiEv) (rt : Int) : convEvent b (midoView m) rt = convEvent b m rt := by
  obtain ⟨ty, ch, time, note, vel, ctl, prog, num, den, key⟩ := m
  cases ty <;> rfl

theorem convMsg_midoView (p q : Int) (loc : Option (Nat × Nat)) (acc : ConvSt × Int) (m : MidiEv) :
    convMsg p q loc acc (midoView m) = convMsg p q loc acc m := by
  simp only [convMsg, midoView_ch, midoView_time, convEvent_midoView]

theorem convMsg_eot (p q : Int) (loc : Option (Nat × Nat)) (s : ConvSt) (t d : Int) :
    convMsg p q loc (s, t) (eotEv d) = .ok (s, t + d) := by
  obtain ⟨seqs, metaSeq, defCh⟩ := s
  cases defCh <;> rfl

theorem fold_convMsg_map (p q : Int) (loc : Option (Nat × Nat)) : ∀ (tr : List MidiEv) (acc : ConvSt × Int),
    foldlM' (convMsg p q loc) acc (tr.map midoView) = foldlM' (convMsg p q loc) acc tr := by
  intro tr
  induction tr with
  | nil => intro acc; rfl
  | cons m ms ih =>
    intro acc
    simp only [List.map_cons, foldlM', convMsg_midoView]
    cases convMsg p q loc acc m with
    | error e => rfl
    | ok b => exact ih b

theorem foldlM'_snoc {α β : Type} (f : β → α → Except Err β) (x : α) : ∀ (l : List α) (b : β),
    foldlM' f b (l ++ [x]) = (match foldlM' f b l with | .ok b' => f b' x | .error e => .error e) := by
  intro l
  induction l with
  | nil => intro b; simp only [List.nil_append, foldlM']; cases f b x <;> rfl
  | cons y ys ih =>
    intro b
    simp only [List.cons_append, foldlM']
    cases f b y with
    | error e => rfl
    | ok b' => exact ih b'

/-- a parsed track as read back: the saved events up to `midoView`, then the `end_of_track` event -/
def Dressed (a b : List MidiEv) : Prop := ∃ d, a = b.map midoView ++ [eotEv d]

theorem convTrack_dressed (p q : Int) (groups : List (List Nat)) (metaIdx : List Nat) (s : ConvSt) (a b : List MidiEv) (i : Nat)
    (h : Dressed a b) : convTrack p q groups metaIdx s (a, i) = convTrack p q groups metaIdx s (b, i) := by
  obtain ⟨d, rfl⟩ := h
  unfold convTrack
  simp only []
  split
  · rfl
  · rw [foldlM'_snoc, fold_convMsg_map]
    cases foldlM' (convMsg p q (firstGroupOf groups i)) (s, 0) b with
    | error e => rfl
    | ok r =>
      obtain ⟨s', t'⟩ := r
      simp only [convMsg_eot]

theorem fold_convTrack_dressed (p q : Int) (groups : List (List Nat)) (metaIdx : List Nat) :
    ∀ (evs tracks : List (List MidiEv)), All2 Dressed evs tracks → ∀ (k : Nat) (s : ConvSt),
      foldlM' (convTrack p q groups metaIdx) s (evs.zipIdx k) = foldlM' (convTrack p q groups metaIdx) s (tracks.zipIdx k) := by
  intro evs
  induction evs with
  | nil =>
    intro tracks h k s
    cases tracks with
    | nil => rfl
    | cons _ _ => exact absurd h (by simp [All2])
  | cons a as ih =>
    intro tracks h k s
    cases tracks with
    | nil => exact absurd h (by simp [All2])
    | cons b bs =>
      obtain ⟨h1, h2⟩ := h
      simp only [List.zipIdx_cons, foldlM', convTrack_dressed p q groups metaIdx s a b k h1]
      cases convTrack p q groups metaIdx s (b, k) with
      | error e => rfl
      | ok s' => exact ih bs h2 (k + 1) s'

theorem all2_length {α β : Type} (R : α → β → Prop) : ∀ (l : List α) (l' : List β), All2 R l l' → l.length = l'.length := by
  intro l
  induction l with
  | nil => intro l' h; cases l' with
    | nil => rfl
    | cons _ _ => exact absurd h (by simp [All2])
  | cons a as ih => intro l' h; cases l' with
    | nil => exact absurd h (by simp [All2])
    | cons b bs => simp [ih bs h.2]

/-- **`convert` on the tracks as read back is `convert` on the tracks as saved** -/
theorem convert_dressed (p q : Int) (evs tracks : List (List MidiEv)) (groups : List (List Nat)) (metaIdx : List Nat) (target : Int)
    (h : All2 Dressed evs tracks) : convert p q evs groups metaIdx target = convert p q tracks groups metaIdx target := by
  unfold convert
  simp only [fold_convTrack_dressed p q groups metaIdx evs tracks h 0]

/-! ### all tracks of a file -/

/-- the save side, then mido (assumed: `ReadBack`), then the parser: the parsed tracks are the saved relative views
    through `toMido`, dressed -/
theorem tracks_round_trip : ∀ (rels : List (List Msg)), (∀ r ∈ rels, KeysOk r) → (∀ r ∈ rels, VelOk r) →
    ∃ ms, rels.mapM toMidoObjects = .ok ms ∧
      ∀ ts', All2 (fun t' t => ∃ d, t' = t ++ [MidoMsg.endOfTrack d]) ts' ms →
        ∃ evs, ts'.mapM parseTrack = .ok evs ∧ All2 Dressed evs (rels.map toMido) := by
  intro rels
  induction rels with
  | nil =>
    intro _ _
    refine ⟨[], rfl, ?_⟩
    intro ts' h
    cases ts' with
    | nil => exact ⟨[], rfl, trivial⟩
    | cons _ _ => exact absurd h (by simp [All2])
  | cons r rs ih =>
    intro hk hv
    obtain ⟨ms, h1, h2⟩ := ih (fun x hx => hk x (by simp [hx])) (fun x hx => hv x (by simp [hx]))
    obtain ⟨mt, g1, _, g3⟩ := track_round_trip r (hk r (by simp)) (hv r (by simp))
    refine ⟨mt :: ms, by simp [List.mapM_cons, g1, h1], ?_⟩
    intro ts' h
    cases ts' with
    | nil => exact absurd h (by simp [All2])
    | cons t' ts'' =>
      obtain ⟨⟨d, rfl⟩, hrest⟩ := h
      obtain ⟨evs, e1, e2⟩ := h2 ts'' hrest
      refine ⟨((toMido r).map midoView ++ [eotEv d]) :: evs, by simp [List.mapM_cons, g3 d, e1], ?_⟩
      exact ⟨⟨d, rfl⟩, e2⟩

end SCoda.MidoCodecL
