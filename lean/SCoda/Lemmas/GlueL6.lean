/-
  Helper lemmas for Props/C03f, part 6 (audit A1 (ii), item (B)): the note events of `extract`, with both messages of
  every note kept, are a permutation of the notes of the tracks (`extract_pairs_perm`) — the pair-level version of
  `ExtractL.extract_notes_perm`.
-/
import SCoda.Lemmas.GlueL5
namespace SCoda.GlueL
open SCoda SCoda.C01 SCoda.ChunksL SCoda.ExtractL SCoda.E2E SCoda.MergeL SCoda.NotesL SCoda.GlueAux SCoda.EQ

/-- the note-event a pair of messages stands for -/
def evOf (p : Msg × Msg) : Int × Pairing := (p.1.ch, [p.1, p.2])

/-- all notes of the piece with both messages kept, track after track -/
def piecePairs (tracks : List (List Msg)) : List (Msg × Msg) := tracks.zipIdx.flatMap (fun x => trackPairs x.2 x.1)

def pkey (k : Int × Int) (p : Msg × Msg) : Bool := decide (p.1.nkey = k)

theorem pairsGo_proj (k : Int × Int) : ∀ (l os : List Msg),
    (pairsGo l os).filter (pkey k) = pairsGo (l.filter (isKN k)) (os.filter (fun o => o.nkey == k)) := by
  intro l
  induction l with
  | nil => intro os; rfl
  | cons x xs ih =>
    intro os
    by_cases hon : x.ty = .noteOn
    · by_cases hk : x.nkey = k
      · have hp : isKN k x = true := by simp [isKN, hk, hon]
        simp only [List.filter_cons, hp, if_true, pairsGo, hon, beq_self_eq_true]
        rw [ih, hk]
        simp only [List.filter_cons]
        have : (x.nkey == k) = true := by simpa using hk
        rw [this, if_pos rfl, ff1, ff2]
      · have hp : isKN k x = false := by simp [isKN, hk]
        simp only [List.filter_cons, hp, Bool.false_eq_true, if_false, pairsGo, hon, beq_self_eq_true, if_true]
        rw [ih]
        simp only [List.filter_cons]
        have : (x.nkey == k) = false := by simpa using hk
        rw [this, if_neg (by simp), ff3 _ _ _ hk]
    · by_cases hoff : x.ty = .noteOff
      · have h1 : (x.ty == .noteOn) = false := by simpa using hon
        by_cases hk : x.nkey = k
        · have hp : isKN k x = true := by simp [isKN, hk, hoff]
          simp only [List.filter_cons, hp, if_true, pairsGo, hoff, beq_self_eq_true, Bool.false_eq_true, if_false,
            show (MType.noteOff == MType.noteOn) = false from rfl]
          rw [hk, find_filter_eq]
          cases hf : os.find? (fun o => o.nkey == k) with
          | none => simp only []; exact ih os
          | some o =>
            have hok : o.nkey = k := by simpa using List.find?_some hf
            have hok' : pkey k (o, x) = true := by simp [pkey, hok]
            simp only [List.filter_cons, hok', if_true]
            rw [ih, ff1, ff2]
        · have hp : isKN k x = false := by simp [isKN, hk]
          simp only [List.filter_cons, hp, pairsGo, hoff, beq_self_eq_true, Bool.false_eq_true, if_false, if_true,
            show (MType.noteOff == MType.noteOn) = false from rfl]
          cases hf : os.find? (fun o => o.nkey == x.nkey) with
          | none => simp only []; exact ih os
          | some o =>
            have hok : o.nkey = x.nkey := by simpa using List.find?_some hf
            have hok' : pkey k (o, x) = false := by
              have : ¬ o.nkey = k := fun h => hk (hok.symm.trans h)
              simp [pkey, this]
            simp only [List.filter_cons, hok', Bool.false_eq_true, if_false]
            rw [ih, ff3 _ _ _ hk]
      · have h1 : (x.ty == .noteOn) = false := by simpa using hon
        have h2 : (x.ty == .noteOff) = false := by simpa using hoff
        have hp : isKN k x = false := by simp [isKN, hon, hoff]
        simp only [List.filter_cons, hp, pairsGo, h1, h2, Bool.false_eq_true, if_false]
        exact ih os

/-- two lists of pairs that agree key by key are permutations of each other -/
theorem perm_of_pkeys (A B : List (Msg × Msg)) (h : ∀ k, A.filter (pkey k) = B.filter (pkey k)) : A.Perm B := by
  rw [List.perm_iff_count]
  intro n
  have e : ∀ X : List (Msg × Msg), X.count n = (X.filter (pkey n.1.nkey)).count n := by
    intro X
    rw [List.count_filter]
    simp [pkey]
  rw [e A, e B, h]

/-- the pairs of the sorted final list, key by key -/
theorem final_pairs_key (tracks : List (List Msg)) (hok : ∀ t ∈ tracks, OkRel t)
    (hg : ∀ i r, tracks[i]? = some r → TrackGood i r) (k : Int × Int) :
    (pairsGo (sortAbs (final tracks)) []).filter (pkey k) = (piecePairs tracks).filter (pkey k) := by
  have hL : (pairsGo (sortAbs (final tracks)) []).filter (pkey k) = pairsGo (P k (final tracks)) [] := by
    have := pairsGo_proj k (sortAbs (final tracks)) []
    simp only [List.filter_nil] at this
    rw [← final_sorted_P tracks hok hg k]
    exact this
  have hR : (piecePairs tracks).filter (pkey k)
      = tracks.zipIdx.flatMap (fun x => pairsGo (P k (trackEvents x.2 x.1)) []) := by
    simp only [piecePairs, List.filter_flatMap]
    congr 1
    funext x
    have := pairsGo_proj k (trackEvents x.2 x.1) []
    simp only [List.filter_nil] at this
    exact this
  rw [hL, hR]
  rcases key_cases tracks k with ⟨i, r, h1, h2⟩ | h
  · rw [flatMap_zipIdx_get _ i, h1]
    · simp only
      rw [h2, final_P_some tracks hok hg i r h1]
    · intro x _ hne
      rw [P_trackEvents_other _ _ _ (by intro e; rw [h2] at e; exact hne (by simp only at e; omega))]
      rfl
  · rw [final_P_none tracks hok hg k h]
    show [] = _
    symm
    rw [List.flatMap_eq_nil_iff]
    intro x hx
    rw [P_trackEvents_other _ _ _ (h x.2 x.1 (mem_zipIdx_get hx))]
    rfl

theorem filter_eq_filterMap_map {α β} (q : α → Bool) (f : α → Option β) (g : β → α) : ∀ (l : List α),
    (∀ x ∈ l, (q x = true ∧ ∃ p, f x = some p ∧ g p = x) ∨ (q x = false ∧ f x = Option.none)) →
    l.filter q = (l.filterMap f).map g := by
  intro l
  induction l with
  | nil => intro _; rfl
  | cons a l ih =>
    intro h
    have ih' := ih (fun x hx => h x (List.mem_cons_of_mem _ hx))
    rcases h a List.mem_cons_self with ⟨h1, p, h2, h3⟩ | ⟨h1, h2⟩
    · rw [List.filter_cons_of_pos h1, List.filterMap_cons_some h2, List.map_cons, h3, ih']
    · rw [List.filter_cons_of_neg (by simp [h1]), List.filterMap_cons_none h2, ih']

/-- **the note events of `extract` are exactly the notes of the tracks, with both messages** (as a multiset) -/
theorem extract_pairs_perm (ppqn : Int) (tracks : List (List Msg)) (hok : ∀ t ∈ tracks, OkRel t)
    (hg : ∀ i r, tracks[i]? = some r → TrackGood i r) :
    ((extract ppqn tracks).filter isNoteEv).Perm ((piecePairs tracks).map evOf) := by
  have hwf := final_wf tracks hok hg
  obtain ⟨h1, _, h3⟩ := pairingsSorted_sim extractTypes rfl rfl ppqn (sortAbs (final tracks)) hwf
  have hperm := interleaved_perm extractTypes ppqn (final tracks)
  rw [← GlueAux.extract_eq] at hperm
  have hshape : ∀ x ∈ extract ppqn tracks,
      (isNoteEv x = true ∧ ∃ p, toPair x.2 = some p ∧ evOf p = x) ∨ (isNoteEv x = false ∧ toPair x.2 = Option.none) := by
    intro x hx
    obtain ⟨cc, hc, hx1, hx2⟩ := mem_flat (hperm.subset hx)
    rcases h3 cc hc x.2 hx2 with ⟨on, off, he, hon, _, _, hch, _⟩ | ⟨m, he, hm1, _⟩
    · left
      refine ⟨by simp [isNoteEv, he, hon], (on, off), by rw [he]; rfl, ?_⟩
      obtain ⟨a, b⟩ := x
      simp only at he hx1
      simp only [evOf, he, hch, hx1]
    · right
      exact ⟨by simp [isNoteEv, he, hm1], by rw [he]; rfl⟩
  rw [filter_eq_filterMap_map isNoteEv (fun x => toPair x.2) evOf _ hshape]
  apply List.Perm.map
  refine (hperm.filterMap _).trans ?_
  rw [filterMap_flat]
  exact h1.trans (perm_of_pkeys _ _ (final_pairs_key tracks hok hg))

end SCoda.GlueL
